/-
C07 — JSON / dict export and import are exact inverses.
Model: `Model/JsonIO.lean` (`toDict` = `triangle_to_dict`; `decode` = `json.JSONDecoder` with
`TriangleDecoder.object_hook` applied bottom-up to every object; `fromDict`). `Spec/C07.lean` holds
`plainRead`, an independent hook-free reading of a document of the documented shape.
Only property theorems here; helpers in `Lemmas/JsonIO.lean`.

Plan of the full statement (DESIGN §7 C07 T):
  A  toDict_shape    : WFjson t → plainRead (toDict t) = some (asTyped t)
  B  fromDict_plain  : plainRead j = some cells → fromDict j = ofJCells cells
  C  ofJCells_asTyped: WFjson t → ofJCells (asTyped t) = .ok (asTyped t)              (proved)
  ⇒  fromDict_toDict : WFjson t → fromDict (toDict t) = .ok (asTyped t)               (A, B open)
-/
import Bermuda.Lemmas.JsonIO
import Bermuda.Spec.C07
namespace Bermuda.Properties.C07
open Bermuda Bermuda.JsonIO Bermuda.Spec.C07

def errIs {α} (r : Except Err α) (e : Err) : Bool :=
  match r with | .error e' => e' == e | .ok _ => false

/-! ### dates: ISO text is read back exactly -/

/-- `strptime(strftime(d))` is `d` for real dates with a four-digit year -/
theorem parseIso_dateIso (d : Date) (h : wfDate d = true) : parseIso (dateIso d) = .ok d := by
  obtain ⟨y, m, dd⟩ := d
  simp only [wfDate, Date.valid, Bool.and_eq_true, decide_eq_true_eq] at h
  obtain ⟨⟨⟨⟨⟨hm1, hm2⟩, hd1⟩, hd2⟩, hy1⟩, hy2⟩ := h
  have hdd : dd < 32 := by have := dim_le_31 y m; omega
  obtain ⟨n, rfl⟩ : ∃ n : Nat, y = (n : Int) := ⟨y.toNat, by omega⟩
  have hn1 : 1000 ≤ n := by omega
  have hn2 : n ≤ 9999 := by omega
  unfold parseIso dateIso dateIsoChars yearChars
  simp only [String.toList_ofList, Int.toNat_natCast, natDigits_year n hn1 hn2, pad2,
    List.cons_append, List.nil_append]
  unfold parseIsoChars
  rw [splitDash4 _ _ _ _ _ (by rw [digitChar_mod]; exact digitChar_ne_dash _ (Nat.mod_lt _ (by omega)))
    (by rw [digitChar_mod]; exact digitChar_ne_dash _ (Nat.mod_lt _ (by omega)))
    (by rw [digitChar_mod]; exact digitChar_ne_dash _ (Nat.mod_lt _ (by omega)))
    (by rw [digitChar_mod]; exact digitChar_ne_dash _ (Nat.mod_lt _ (by omega)))]
  simp only []
  rw [splitDash2 _ _ _ (by rw [digitChar_mod]; exact digitChar_ne_dash _ (Nat.mod_lt _ (by omega)))
    (by rw [digitChar_mod]; exact digitChar_ne_dash _ (Nat.mod_lt _ (by omega)))]
  simp only []
  have e1 : digitVal? (digitChar (n / 1000)) = some (n / 1000) := digitVal_digitChar _ (by omega)
  have e2 : digitVal? (digitChar (n / 100)) = some (n / 100 % 10) := by
    rw [digitChar_mod]; exact digitVal_digitChar _ (Nat.mod_lt _ (by omega))
  have e3 : digitVal? (digitChar (n / 10)) = some (n / 10 % 10) := by
    rw [digitChar_mod]; exact digitVal_digitChar _ (Nat.mod_lt _ (by omega))
  have e4 : digitVal? (digitChar n) = some (n % 10) := by
    rw [digitChar_mod]; exact digitVal_digitChar _ (Nat.mod_lt _ (by omega))
  have e5 := smallField_month m (by omega) hm1
  have e6 := smallField_day dd hdd hd1
  simp only [pad2] at e5 e6
  rw [e1, e2, e3, e4, e5, e6]
  simp only []
  have hy : 1000 * (n / 1000) + 100 * (n / 100 % 10) + 10 * (n / 10 % 10) + n % 10 = n := by omega
  rw [hy]
  have : ¬ (n = 0 ∨ m > 12 ∨ dd > dim (n : Int) m) := by omega
  simp [this]


/-- the restriction is real: glibc prints year 999 as "999", which `%Y` (four digits) refuses -/
theorem year_999_not_read_back :
    errIs (parseIso (dateIso ⟨999, 1, 1⟩)) .valueError = true := by decide +kernel

/-! ### classes: `Cell` comes back as `CumulativeCell`, nothing else changes -/

theorem typedKind_idem (k : CellKind) : typedKind (typedKind k) = typedKind k := by
  cases k <;> rfl

/-- incremental stays incremental, and the previous evaluation date is kept: the basis is preserved -/
theorem asTyped_basis (t : List JCell) :
    (asTyped t).map (fun c => (c.kind == .incremental, c.prev)) =
      t.map (fun c => (c.kind == .incremental, c.prev)) := by
  simp only [asTyped, List.map_map]
  apply List.map_congr_left
  intro c _
  cases h : c.kind <;> simp [typedKind, h] <;> decide

/-- a triangle stays a triangle when its `Cell`s become `CumulativeCell`s: the constructor accepts
the typed cells and leaves their order alone -/
theorem ofJCells_asTyped (t : List JCell) (h : WFjson t = true) :
    ofJCells (asTyped t) = .ok (asTyped t) := by
  simp only [WFjson, Bool.and_eq_true] at h
  obtain ⟨⟨⟨_, hk⟩, hs⟩, _⟩ := h
  unfold ofJCells
  rw [if_pos (kindsConsistent_typed t hk)]
  congr 1
  apply List.mergeSort_of_pairwise
  rw [asTyped_eq_map, List.pairwise_map]
  exact (pairwise_of_sortedJ t hs).imp (fun {a b} hab => by rw [le_typed]; exact hab)


/-- **fromDict_toDict, modulo the two open statements.** The round trip follows from: the written
document read plainly is the original (A), the decoder with its hook agrees with the plain reading
on documents of that shape (B), and C above. A and B are hypotheses here (they are the OPEN
statements below); everything else is proved. -/
theorem fromDict_toDict_partial (t : List JCell) (h : WFjson t = true)
    (hA : plainRead (toDict t) = some (asTyped t))
    (hB : ∀ j cells, plainRead j = some cells → fromDict j = ofJCells cells) :
    fromDict (toDict t) = .ok (asTyped t) := by
  rw [hB _ _ hA, ofJCells_asTyped t h]

/-! ### non-vacuity and a concrete round trip (kernel evaluation of the model) -/

/-- one incremental cell with every kind of value (int, float, None, int64 and float64 arrays) and
metadata with an int limit, a string detail and a bool loss detail -/
def ex : List JCell :=
  [{ kind := .incremental, ps := ⟨2020, 1, 1⟩, pe := ⟨2020, 12, 31⟩, ev := ⟨2021, 6, 30⟩,
     prev := some ⟨2020, 12, 31⟩,
     values := [("paid_loss", .int 5), ("reported_loss", .flt (5/2)), ("open_claims", .none),
                ("samples", .arr true [3] [3, 1, 2]), ("fsamples", .arr false [2] [1, 1/2])],
     md := { country := some "US", limit := .int 250000, details := [("coverage", .str "BI")],
             lossDetails := [("flag", .bool true)] } }]

def okEq (r : Except Err (List JCell)) (x : List JCell) : Bool :=
  match r with | .ok a => a == x | _ => false

theorem ex_wf : WFjson ex = true := by decide +kernel

theorem ex_fromDict_toDict : okEq (fromDict (toDict ex)) (asTyped ex) = true := by decide +kernel

theorem ex_toDict_shape : (plainRead (toDict ex) == some (asTyped ex)) = true := by decide +kernel

/-- the restriction `risk_basis ≠ None` is real: it reads back as the default "Accident" -/
theorem ex_risk_basis_none :
    okEq (fromDict (toDict (ex.map fun c => { c with md := { c.md with riskBasis := none } })))
      (asTyped ex) = true := by decide +kernel

/-- the restriction on key names is real: a field called `cells` makes the hook misread `values` -/
theorem ex_field_named_cells :
    errIs (fromDict (toDict (ex.map fun c => { c with values := [("cells", .int 1)] }))) .typeError = true := by
  decide +kernel

/-! ### statements not proved yet (the correspondence checks them on every run) -/

-- OPEN toDict_shape
--   theorem toDict_shape (t : List JCell) (h : WFjson t = true) : plainRead (toDict t) = some (asTyped t)
--   (each slice's metadata attributes once, in `as_dict` order, `None`/`{}` omitted; cells in order with ISO
--    dates, `prev_evaluation_date` exactly for incremental cells, arrays as lists. Needs: the groups of
--    `groupBy` on a sorted, metadata-coherent list concatenate to the list (`sorted_contiguous`);
--    `parseIso_dateIso`; `readVal (valToJ v) = some v` for `wfVal v`.)

-- OPEN fromDict_plain
--   theorem fromDict_plain (j : JVal) (cells : List JCell) (h : plainRead j = some cells) :
--     fromDict j = ofJCells cells
--   (any AST of the documented shape, however produced: the hook fires on every object bottom-up, the
--    `values` / `details` / `loss_details` objects pass through it unchanged because `plainRead` demands
--    trigger-free keys. Mutual induction over `decode`/`decodeList`/`decodeKvs`.)

-- OPEN fromDict_toDict
--   theorem fromDict_toDict (t : List JCell) (h : WFjson t = true) : fromDict (toDict t) = .ok (asTyped t)
--   (= fromDict_toDict_partial with A := toDict_shape, B := fromDict_plain)

end Bermuda.Properties.C07
