/-
C07 — JSON / dict export and import are exact inverses. (theorems: work in progress)
-/
import Bermuda.Model.JsonIO
import Bermuda.Spec.C07
namespace Bermuda.Properties.C07
open Bermuda Bermuda.JsonIO Bermuda.Spec.C07

theorem typedKind_idem (k : CellKind) : typedKind (typedKind k) = typedKind k := by
  cases k <;> rfl

end Bermuda.Properties.C07
