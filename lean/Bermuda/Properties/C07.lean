/-
C07 — JSON / dict export and import are exact inverses.
Model: `Model/JsonIO.lean` (`toDict` = `triangle_to_dict`; `decode` = `json.JSONDecoder` with
`TriangleDecoder.object_hook` applied bottom-up to every object; `fromDict`). `Spec/C07.lean` holds
`plainRead`, an independent hook-free reading of a document of the documented shape.
Only property theorems here; helpers in `Lemmas/JsonIO.lean`.

Structure of the full statement (DESIGN §7 C07 T), all proved:
  A' toDict_shape_strict : WFjson t → plainReadStrict (toDict t) = some (asTyped t)  (Lemmas/JsonIOEncode)
     plainRead_of_strict : plainReadStrict j = some cells → plainRead j = some cells (Lemmas/JsonIOStrict)
  A  toDict_shape    : WFjson t → plainRead (toDict t) = some (asTyped t)
  B  fromDict_plain  : plainRead j = some cells → fromDict j = ofJCells cells  (Lemmas/JsonIODecode)
  C  ofJCells_asTyped: WFjson t → ofJCells (asTyped t) = .ok (asTyped t)
  ⇒  fromDict_toDict : WFjson t → fromDict (toDict t) = .ok (asTyped t)
Two plain readers (Spec/C07.lean): `plainReadStrict` reads a date only as `YYYY-MM-DD` (clause "each
cell with ISO dates": what the library WRITES, `textSpec`); `plainRead` reads dates as `strptime`
does (clause "JSON written by such a plain serializer is loaded correctly": what the library
ACCEPTS, `fromDict_plain`). The strict reader is a restriction of the lenient one.
Bridges `spec_*`: the predicates the driver evaluates on the implementation's output hold on the
model's output.
-/
import Bermuda.Lemmas.JsonIOEncode
import Bermuda.Spec.C07
namespace Bermuda.Properties.C07
open Bermuda Bermuda.JsonIO Bermuda.Spec.C07

def errIs {α} (r : Except Err α) (e : Err) : Bool :=
  match r with | .error e' => e' == e | .ok _ => false

/-! ### dates: ISO text is read back exactly -/

/-- `strptime(strftime(d))` is `d` for real dates with a four-digit year -/
theorem parseIso_dateIso (d : Date) (h : wfDate d = true) : parseIso (dateIso d) = .ok d :=
  JsonIO.parseIso_dateIso d h

/-- the restriction is real: glibc prints year 999 as "999", which `%Y` (four digits) refuses -/
theorem year_999_not_read_back :
    errIs (parseIso (dateIso ⟨999, 1, 1⟩)) .valueError = true := by decide +kernel

def okDate (r : Except Err Date) (d : Date) : Bool :=
  match r with | .ok a => a == d | _ => false

/-- **ISO clause, writer side.** For a real date with a four-digit year the text written is
EXACTLY four digits, `-`, two digits, `-`, two digits — the zero-padded decimal digits of year,
month and day (`digitChar k` is the ASCII digit of `k`, `digitChar_table`). -/
theorem dateIso_shape (d : Date) (h : wfDate d = true) :
    ∃ y1 y2 y3 y4 m1 m2 d1 d2 : Nat,
      (y1 < 10 ∧ y2 < 10 ∧ y3 < 10 ∧ y4 < 10 ∧ m1 < 10 ∧ m2 < 10 ∧ d1 < 10 ∧ d2 < 10) ∧
      (dateIso d).toList = [digitChar y1, digitChar y2, digitChar y3, digitChar y4, '-',
                            digitChar m1, digitChar m2, '-', digitChar d1, digitChar d2] ∧
      d.y = ((1000 * y1 + 100 * y2 + 10 * y3 + y4 : Nat) : Int) ∧ d.m = 10 * m1 + m2 ∧
      d.d = 10 * d1 + d2 := by
  have hl := dateIso_toList d h
  obtain ⟨y, m, dd⟩ := d
  simp only [wfDate, Date.valid, Bool.and_eq_true, decide_eq_true_eq] at h
  obtain ⟨⟨⟨⟨⟨hm1, hm2⟩, hd1⟩, hd2⟩, hy1⟩, hy2⟩ := h
  have hdd : dd < 32 := by have := dim_le_31 y m; omega
  obtain ⟨n, rfl⟩ : ∃ n : Nat, y = (n : Int) := ⟨y.toNat, by omega⟩
  simp only [Int.toNat_natCast] at hl
  refine ⟨n / 1000 % 10, n / 100 % 10, n / 10 % 10, n % 10, m / 10 % 10, m % 10, dd / 10 % 10, dd % 10,
    by omega, ?_, ?_, by simp only; omega, by simp only; omega⟩
  · rw [hl]; simp only [← digitChar_mod]
  · simp only; omega

theorem digitChar_table :
    (List.range 10).map digitChar = ['0', '1', '2', '3', '4', '5', '6', '7', '8', '9'] := by decide

theorem dateIso_length (d : Date) (h : wfDate d = true) : (dateIso d).length = 10 := by
  rw [← String.length_toList, dateIso_toList d h]; rfl

/-- the strict ISO reader (`Spec.C07.strictIso`: ten characters `YYYY-MM-DD`, ASCII digits, a real
calendar date; written from ISO 8601, not from the model's `strptime`) reads the written text back -/
theorem strictIso_dateIso (d : Date) (h : wfDate d = true) : strictIso (dateIso d) = some d :=
  JsonIO.strictIso_dateIso d h

/-- strict ⊆ lenient: whatever the strict reader accepts, `strptime` reads to the same date -/
theorem strictIso_parseIso (s : String) (d : Date) (h : strictIso s = some d) : parseIso s = .ok d :=
  JsonIO.strictIso_parseIso h

/-- **ISO clause, text side.** The strict reader accepts exactly ONE text per date, the one
`dateIso` writes: a writer whose text for `d` passes `strictIso` wrote `dateIso d`. -/
theorem strictIso_unique (s : String) (d : Date) (h : strictIso s = some d) (hy : 1000 ≤ d.y) :
    s = dateIso d :=
  JsonIO.strictIso_unique h hy

/-- the two readers really differ: an un-padded date is not ISO, but `strptime` takes it -/
theorem unpadded_not_iso :
    (strictIso "2020-1-5").isNone = true ∧ okDate (parseIso "2020-1-5") ⟨2020, 1, 5⟩ = true ∧
    (strictIso "2020-01- 5").isNone = true ∧ okDate (parseIso "2020-01- 5") ⟨2020, 1, 5⟩ = true := by
  decide +kernel

/-! ### classes: `Cell` comes back as `CumulativeCell`, nothing else changes -/

theorem typedKind_idem (k : CellKind) : typedKind (typedKind k) = typedKind k := by
  cases k <;> rfl

/-- incremental stays incremental, and the previous evaluation date is kept: the basis is preserved -/
theorem asTyped_basis (t : List JCell) :
    (asTyped t).map (fun c => (c.kind == .incremental, c.prev)) =
      t.map (fun c => (c.kind == .incremental, c.prev)) := by
  simp only [asTyped, List.map_map]
  apply List.map_congr_left
  intro c _
  cases h : c.kind <;> simp [typedKind, h] <;> decide

/-- a triangle stays a triangle when its `Cell`s become `CumulativeCell`s: the constructor accepts
the typed cells and leaves their order alone -/
theorem ofJCells_asTyped (t : List JCell) (h : WFjson t = true) :
    ofJCells (asTyped t) = .ok (asTyped t) := by
  simp only [WFjson, Bool.and_eq_true] at h
  obtain ⟨⟨⟨_, hk⟩, hs⟩, _⟩ := h
  unfold ofJCells
  rw [if_pos (kindsConsistent_typed t hk)]
  congr 1
  apply List.mergeSort_of_pairwise
  rw [asTyped_eq_map, List.pairwise_map]
  exact (pairwise_of_sortedJ t hs).imp (fun {a b} hab => by rw [le_typed]; exact hab)


/-- **toDict_shape_strict.** The JSON text's AST, read by a plain reader that knows nothing of the
library's hook and takes a date only as `YYYY-MM-DD`, is the original triangle: each slice's
metadata attributes once (`None` / `{}` omitted), the cells in order with ISO dates,
`prev_evaluation_date` exactly on incremental cells, every value with its kind (int vs float,
`None`, arrays in order). -/
theorem toDict_shape_strict (t : List JCell) (h : WFjson t = true) :
    plainReadStrict (toDict t) = some (asTyped t) :=
  JsonIO.toDict_shape_strict t h

/-- the strict plain reader is a restriction of the lenient one (same cells, fewer documents) -/
theorem plainRead_of_strict (j : JVal) (cells : List JCell) (h : plainReadStrict j = some cells) :
    plainRead j = some cells :=
  JsonIO.plainRead_of_strict h

/-- **toDict_shape.** The same through the lenient plain reader (the domain of `fromDict_plain`). -/
theorem toDict_shape (t : List JCell) (h : WFjson t = true) :
    plainRead (toDict t) = some (asTyped t) :=
  JsonIO.toDict_shape t h

/-- **fromDict_plain.** Any document of the documented shape, however it was produced (a plain
serializer), is loaded by the library's decoder — hook applied bottom-up to every object,
`values` / `details` / `loss_details` objects included — to `Triangle(cells)` of the cells a plain
reading finds. -/
theorem fromDict_plain (j : JVal) (cells : List JCell) (h : plainRead j = some cells) :
    fromDict j = ofJCells cells :=
  JsonIO.fromDict_plain j cells h

/-- **fromDict_toDict.** Export followed by import is the identity on well-formed triangles, up
to `Cell` → `CumulativeCell`: period, evaluation and previous-evaluation dates (so the basis), all
eight metadata attributes with the Python kind of limit and detail values, field names, int vs
float scalars, `None`, and arrays with dtype and order. -/
theorem fromDict_toDict (t : List JCell) (h : WFjson t = true) :
    fromDict (toDict t) = .ok (asTyped t) := by
  rw [fromDict_plain _ _ (toDict_shape t h), ofJCells_asTyped t h]

/-! ### "lists each slice's metadata once" -/

/-- the document has exactly one slice object per slice (`tri.slices`), whatever the triangle -/
theorem toDict_one_object_per_slice (t : List JCell) :
    ∃ ss, toDict t = .obj [("slices", .arr ss)] ∧
      ss.length = (groupBy (fun c : JCell => c.md.toMetadata) t).length ∧
      ss = (slicesOf t).map sliceToDict :=
  ⟨_, rfl, by simp [slicesOf], rfl⟩

/-- on a well-formed (sorted) triangle the slices are the contiguous runs of equal metadata: no
cell moves, so each slice object carries its metadata once and the cells follow in triangle order -/
theorem slicesOf_eq_groups (t : List JCell) (h : WFjson t = true) :
    slicesOf t = (groupBy (fun c : JCell => c.md.toMetadata) t).map (·.2) :=
  JsonIO.slicesOf_eq_groups t h

/-! ### bridges: the Spec predicates the driver runs on the implementation's output hold on the
model's output -/

theorem spec_slicesOnce (t : List JCell) : slicesOnce t (toDict t) = true := by
  simp [slicesOnce, toDict, slicesOf]

theorem spec_textSpec (t : List JCell) (h : WFjson t = true) : textSpec t (toDict t) = true := by
  simp only [textSpec, JsonIO.toDict_shape_strict t h, sameCells_refl]

theorem spec_loadSpec (t r : List JCell) (h : WFjson t = true) (hr : fromDict (toDict t) = .ok r) :
    loadSpec t r = true := by
  rw [fromDict_toDict t h] at hr
  cases hr
  exact sameCells_refl _

/-- what `textSpec` says of ANY document `j` (e.g. the implementation's): a strict plain reading
exists, it agrees with the original up to dict key order, and the library's decoder loads `j` to
`Triangle(those cells)` -/
theorem textSpec_sound (t : List JCell) (j : JVal) (h : textSpec t j = true) :
    ∃ cells, plainReadStrict j = some cells ∧ sameCells cells (asTyped t) = true ∧
      fromDict j = ofJCells cells := by
  unfold textSpec at h
  split at h
  · rename_i cells hc
    exact ⟨cells, hc, h, fromDict_plain j cells (JsonIO.plainRead_of_strict hc)⟩
  · cases h

/-! ### the entry points all reduce to `toDict` / `fromDict` (text layer outside the model) -/

theorem import_routes (doc : JVal) :
    jsonStringToTriangle doc = fromDict doc ∧ jsonToTriangle (.path doc) = fromDict doc ∧
    jsonToTriangle (.handle doc) = fromDict doc ∧ dictToTriangle doc = fromDict doc ∧
    triangleJsonLoads doc = fromDict doc ∧ triangleJsonLoad doc = fromDict doc :=
  ⟨rfl, rfl, rfl, rfl, rfl, rfl⟩

/-- `to_json()` / `to_json(path)` / `to_json(handle)` / `to_dict()`: one document, `toDict t`,
returned or written (`to_json("")` returns it) -/
theorem export_routes (t : List JCell) (d : Dest) : exported (triangleToJson t d) = some (toDict t) := by
  cases d with
  | none => rfl
  | path name => simp only [triangleToJson]; split <;> rfl
  | handle => rfl

/-- every export route followed by every import route is the identity (up to `Cell` → `CumulativeCell`) -/
theorem roundtrip_every_route (t : List JCell) (h : WFjson t = true) (d : Dest) (doc : JVal)
    (hd : exported (triangleToJson t d) = some doc) :
    jsonStringToTriangle doc = .ok (asTyped t) ∧ jsonToTriangle (.path doc) = .ok (asTyped t) ∧
    jsonToTriangle (.handle doc) = .ok (asTyped t) ∧ dictToTriangle doc = .ok (asTyped t) ∧
    triangleJsonLoads doc = .ok (asTyped t) ∧ triangleJsonLoad doc = .ok (asTyped t) := by
  rw [export_routes] at hd
  cases hd
  obtain ⟨a, b, c, d, e, f⟩ := import_routes (toDict t)
  rw [a, b, c, d, e, f]
  exact ⟨fromDict_toDict t h, fromDict_toDict t h, fromDict_toDict t h, fromDict_toDict t h,
    fromDict_toDict t h, fromDict_toDict t h⟩

/-! ### non-vacuity and a concrete round trip (kernel evaluation of the model) -/

/-- one incremental cell with every kind of value (int, float, None, int64 and float64 arrays) and
metadata with an int limit, a string detail and a bool loss detail -/
def ex : List JCell :=
  [{ kind := .incremental, ps := ⟨2020, 1, 1⟩, pe := ⟨2020, 12, 31⟩, ev := ⟨2021, 6, 30⟩,
     prev := some ⟨2020, 12, 31⟩,
     values := [("paid_loss", .int 5), ("reported_loss", .flt (5/2)), ("open_claims", .none),
                ("samples", .arr true [3] [3, 1, 2]), ("fsamples", .arr false [2] [1, 1/2])],
     md := { country := some "US", limit := .int 250000, details := [("coverage", .str "BI")],
             lossDetails := [("flag", .bool true)] } }]

def okEq (r : Except Err (List JCell)) (x : List JCell) : Bool :=
  match r with | .ok a => a == x | _ => false

theorem ex_wf : WFjson ex = true := by decide +kernel

theorem ex_fromDict_toDict : okEq (fromDict (toDict ex)) (asTyped ex) = true := by decide +kernel

theorem ex_toDict_shape : (plainRead (toDict ex) == some (asTyped ex)) = true := by decide +kernel

/-- the restriction `risk_basis ≠ None` is real: it reads back as the default "Accident" -/
theorem ex_risk_basis_none :
    okEq (fromDict (toDict (ex.map fun c => { c with md := { c.md with riskBasis := none } })))
      (asTyped ex) = true := by decide +kernel

/-- the restriction on key names is real: a field called `cells` makes the hook misread `values` -/
theorem ex_field_named_cells :
    errIs (fromDict (toDict (ex.map fun c => { c with values := [("cells", .int 1)] }))) .typeError = true := by
  decide +kernel

/-! ### a second witness: two slices, five cells of class `Cell` (so `sortedJ`, `mdCoherent`, the
grouping and `asTyped` are not trivially true) -/

def mdA : JMeta := { country := some "US", limit := .flt 250000, details := [("coverage", .str "BI")] }
/-- differs from `mdA` only in `loss_details` -/
def mdB : JMeta := { mdA with lossDetails := [("flag", .bool true)] }
def mkC (m : JMeta) (ps pe ev : Date) (v : Dict Val) : JCell :=
  { kind := .cell, ps := ps, pe := pe, ev := ev, values := v, md := m }

def ex2 : List JCell :=
  [ mkC mdA ⟨2020, 1, 1⟩ ⟨2020, 12, 31⟩ ⟨2020, 12, 31⟩ [("paid_loss", .int 5), ("s", .arr true [2] [2, 1])],
    mkC mdA ⟨2020, 1, 1⟩ ⟨2020, 12, 31⟩ ⟨2021, 12, 31⟩ [("paid_loss", .flt 7), ("s", .arr false [2] [1/2, 1])],
    mkC mdA ⟨2021, 1, 1⟩ ⟨2021, 12, 31⟩ ⟨2021, 12, 31⟩ [("paid_loss", .none)],
    mkC mdB ⟨2020, 1, 1⟩ ⟨2020, 12, 31⟩ ⟨2020, 12, 31⟩ [("paid_loss", .int 5)],
    mkC mdB ⟨2020, 1, 1⟩ ⟨2020, 12, 31⟩ ⟨2021, 12, 31⟩ [("paid_loss", .int 6)] ]

theorem ex2_wf : WFjson ex2 = true := by decide +kernel

/-- two slices of three and two cells; the round trip holds and is NOT the identity on classes
(`Cell` came back as `CumulativeCell`); the document read strictly is the typed triangle -/
theorem ex2_roundtrip :
    (slicesOf ex2).map List.length = [3, 2] ∧ fromDict (toDict ex2) = .ok (asTyped ex2) ∧
    (asTyped ex2 != ex2) = true ∧ plainReadStrict (toDict ex2) = some (asTyped ex2) ∧
    textSpec ex2 (toDict ex2) = true ∧ slicesOnce ex2 (toDict ex2) = true := by
  refine ⟨?_, fromDict_toDict ex2 ex2_wf, by decide +kernel, toDict_shape_strict ex2 ex2_wf,
    spec_textSpec ex2 ex2_wf, spec_slicesOnce ex2⟩
  rw [slicesOf_eq_groups ex2 ex2_wf]
  decide +kernel

/-! ### the remaining restrictions of `WFjson`, each with a kernel-evaluated witness -/

/-- a document with an un-padded month and day: it is loaded correctly (clause "written by a plain
serializer"), the lenient plain reader reads it, but it is NOT what the library may write —
`textSpec` refuses it -/
def exU : List JCell :=
  [{ kind := .cumulative, ps := ⟨2020, 1, 5⟩, pe := ⟨2020, 12, 31⟩, ev := ⟨2020, 12, 31⟩,
     values := [("paid_loss", .int 5)] }]

def docUnpadded : JVal :=
  .obj [("slices", .arr [.obj [("risk_basis", .str "Accident"), ("cells", .arr [.obj [
    ("period_start", .str "2020-1-5"), ("period_end", .str "2020-12-31"),
    ("evaluation_date", .str "2020-12-31"), ("values", .obj [("paid_loss", .int 5)])]])]])]

theorem ex_unpadded_document :
    WFjson exU = true ∧ textSpec exU docUnpadded = false ∧ textSpec exU (toDict exU) = true ∧
    (plainRead docUnpadded == some exU) = true ∧ okEq (fromDict docUnpadded) exU = true := by
  decide +kernel

/-- int64 arrays must be non-empty: `[]` carries no dtype, an empty int64 array reads back float64 -/
theorem ex_empty_int64_array :
    WFjson (ex.map fun c => { c with values := [("s", .arr true [0] [])] }) = false ∧
    okEq (fromDict (toDict (ex.map fun c => { c with values := [("s", .arr true [0] [])] })))
      (asTyped (ex.map fun c => { c with values := [("s", .arr false [0] [])] })) = true := by
  decide +kernel

/-- a `bool` limit is outside `WFjson` because the documented shape has a NUMBER there: the plain
readers refuse `"per_occurrence_limit": true`; the library's own round trip keeps it -/
theorem ex_bool_limit :
    WFjson (ex.map fun c => { c with md := { c.md with limit := .bool true } }) = false ∧
    (plainRead (toDict (ex.map fun c => { c with md := { c.md with limit := .bool true } }))).isNone = true ∧
    okEq (fromDict (toDict (ex.map fun c => { c with md := { c.md with limit := .bool true } })))
      (asTyped (ex.map fun c => { c with md := { c.md with limit := .bool true } })) = true := by
  decide +kernel

/-- `None` detail values are outside `WFjson` (the property quantifies over str/int/float/bool
detail values) — a conservative restriction: they do round-trip, also through the strict reader -/
theorem ex_none_detail_value :
    WFjson (ex.map fun c => { c with md := { c.md with details := [("coverage", .null)] } }) = false ∧
    okEq (fromDict (toDict (ex.map fun c => { c with md := { c.md with details := [("coverage", .null)] } })))
      (asTyped (ex.map fun c => { c with md := { c.md with details := [("coverage", .null)] } })) = true ∧
    (plainReadStrict (toDict (ex.map fun c => { c with md := { c.md with details := [("coverage", .null)] } }))
      == some (asTyped (ex.map fun c => { c with md := { c.md with details := [("coverage", .null)] } }))) = true := by
  decide +kernel

/-- arrays of rank ≠ 1 are outside `WFjson` AND outside the model: `valToJ` writes them flat (the
implementation writes nested lists and keeps the shape) -/
theorem ex_rank2_flat_in_model :
    WFjson (ex.map fun c => { c with values := [("s", .arr true [2, 2] [1, 2, 3, 4])] }) = false ∧
    okEq (fromDict (toDict (ex.map fun c => { c with values := [("s", .arr true [2, 2] [1, 2, 3, 4])] })))
      (asTyped (ex.map fun c => { c with values := [("s", .arr true [4] [1, 2, 3, 4])] })) = true := by
  decide +kernel

/-- `mdCoherent`: two cells Python puts in ONE slice (`True == 1`, equal `Metadata`) with different
JSON-level metadata -/
def exIncoh : List JCell :=
  [ mkC { mdA with details := [("flag", .bool true)] } ⟨2020, 1, 1⟩ ⟨2020, 12, 31⟩ ⟨2020, 12, 31⟩
      [("paid_loss", .int 5)],
    mkC { mdA with details := [("flag", .int 1)] } ⟨2020, 1, 1⟩ ⟨2020, 12, 31⟩ ⟨2021, 12, 31⟩
      [("paid_loss", .int 6)] ]

/-- what comes back: both cells carry the FIRST cell's metadata (the second cell's `1` became `True`) -/
def exIncohBack : List JCell :=
  asTyped (exIncoh.map fun c => { c with md := { mdA with details := [("flag", .bool true)] } })

/-- the restriction `mdCoherent` is real: everything else of `WFjson` holds, and the slice's
metadata — written once, from its first cell — replaces the second cell's -/
theorem ex_mdCoherent :
    (mdCoherent exIncoh = false ∧
      (exIncoh.all wfCell && kindsConsistent (exIncoh.map JCell.toCell) && sortedJ exIncoh) = true) ∧
    fromDict (toDict exIncoh) = .ok exIncohBack ∧ (exIncohBack != asTyped exIncoh) = true := by
  refine ⟨by decide +kernel, ?_, by decide +kernel⟩
  have hs : slicesOf exIncoh = [exIncoh] := by
    rw [slicesOf_of_sorted_groups exIncoh (by decide +kernel)]
    decide +kernel
  have hp : plainRead (toDict exIncoh) = some exIncohBack := by
    unfold toDict; rw [hs]; decide +kernel
  rw [fromDict_plain _ _ hp]
  exact ofJCells_sorted _ (by decide +kernel) (by decide +kernel)

end Bermuda.Properties.C07
