/-
C08 — aggregation sums exactly the cells it merges and loses nothing.
Only property theorems live here (helper lemmas: `Lemmas/Summarize.lean`, `Lemmas/Aggregate.lean`).
-/
import Bermuda.Model.Aggregate
import Bermuda.Spec.C08
namespace Bermuda.Properties.C08
open Bermuda

/-- **Incremental in/out.** On an incremental triangle `aggregate` is the incremental form of the aggregate of
its cumulative form (definitional in code and model; stated so that a rewrite which breaks it is caught). -/
theorem aggregate_incremental_commutes (tr : Transc) (t : List Cell) (a : AggArgs)
    (h : smIsIncremental t = true) :
    aggregate tr t a =
      (Triangle.toCumulative t).bind fun cum => (aggregateCum tr cum a).bind Triangle.toIncremental := by
  unfold aggregate
  rw [if_pos h]
  cases Triangle.toCumulative t with
  | error e => rfl
  | ok cum =>
    simp only [Except.bind]
    cases aggregateCum tr cum a <;> rfl

/-- on a cumulative triangle nothing is converted -/
theorem aggregate_cumulative (tr : Transc) (t : List Cell) (a : AggArgs)
    (h : smIsIncremental t = false) : aggregate tr t a = aggregateCum tr t a := by
  unfold aggregate
  simp [h]

end Bermuda.Properties.C08
