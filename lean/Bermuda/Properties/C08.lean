/-
C08 — aggregation sums exactly the cells it merges and loses nothing.
Only property theorems live here (helper lemmas: `Lemmas/Summarize.lean`, `Lemmas/Aggregate.lean`).
The values of an aggregated cell come from the C09 model (`summarizeCellValues`), whose sum clause is
`Properties/C09`'s; the rule table is the regenerated one.
-/
import Bermuda.Model.Aggregate
import Bermuda.Spec.C08
import Bermuda.Lemmas.Aggregate
import Bermuda.Lemmas.AggregateDates
namespace Bermuda.Properties.C08
open Bermuda Generated.Summarize

/-! ### 1. windows -/

/-- windows are consecutive: window `k + 1` starts the day after window `k` ends -/
theorem window_consecutive (q : Int) (u : ResUnit) (init : Date) (k : Nat) :
    (windowAt q u init (k + 1)).1 = (windowAt q u init k).2.succ := rfl

/-- each window ends one resolution step after the grid point it starts behind -/
theorem window_step (q : Int) (u : ResUnit) (init : Date) (k : Nat) :
    (windowAt q u init k).2 = resolutionDelta (iterD q u k init) q u := iterD_succ' q u k init

/-- **`window_spec`.** A successful `_aggregate_period` re-labels every source cell (in `(ps, pe, ev)` order)
with one of the consecutive windows `windowAt k = [grid k + 1 day, grid (k+1)]`, `grid k = anchor + k·res`,
such that the cell's period starts and ends no later than the window's end; evaluation date, values and metadata
are untouched. (`windowAt` is by construction a chain of adjacent intervals, `window_consecutive`; that they are
disjoint is `window_disjoint_month` / `window_disjoint_day` for a positive quantity.) -/
theorem window_spec {tr : Transc} {t out : List Cell} {q : Int} {s : String} {origin : Date}
    {prem : Bool} (h : aggregatePeriod tr t (some (q, s)) origin prem = .ok out) :
    ∃ q' u init rel, standardizeResolution q s = .ok (q', u) ∧
      rel.length = t.length ∧
      ∀ p ∈ (t.mergeSort fun a b => coordCmp a b != .gt).zip rel, Relabelled q' u init p.1 p.2 := by
  obtain ⟨q', u, init, rel, _, hst, hrel, _, _⟩ := aggregatePeriod_decompose h
  obtain ⟨hlen, hall⟩ := assignWindows_spec hrel
  exact ⟨q', u, init, rel, hst, by rw [hlen, List.length_mergeSort], hall⟩

/-! ### 2. cells and conservation -/

/-- **`aggPeriod_cell_spec`.** Exactly one output cell per (window, evaluation date) that has a re-labelled
source cell — the output keys are a permutation of the distinct keys of the re-labelled cells —, it is a
CumulativeCell carrying the slice's metadata, and every field whose rule is the sum of itself equals, sample by
sample, the sum of that field over ALL re-labelled source cells with that window and evaluation date. -/
theorem aggPeriod_cell_spec {tr : Transc} {t out : List Cell} {q : Int} {s : String} {origin : Date}
    {prem : Bool} (h : aggregatePeriod tr t (some (q, s)) origin prem = .ok out) :
    ∃ q' u init rel,
      assignWindows q' u init (t.mergeSort fun a b => coordCmp a b != .gt) = .ok rel ∧
      (out.map key3).Perm (smDedup (rel.map key3)) ∧
      ∀ o ∈ out, o.kind = .cumulative ∧ (∃ rc ∈ rel, key3 rc = key3 o ∧ rc.md = o.md) ∧
        ∀ (f : String) (i : Nat), ruleOf [] (lowerKey f) = some ⟨.sum, [f]⟩ →
          (prem = true ∨ f ∉ nonLossMetrics) →
          (∀ rc ∈ rel, key3 rc = key3 o → (rc.getV f).inRange i = true) →
          (o.getV f).at i =
            ((rel.filter fun rc => key3 rc == key3 o).map fun rc => (rc.getV f).at i).sum := by
  obtain ⟨q', u, init, rel, newCells, _, hrel, hnew, hperm⟩ := aggregatePeriod_decompose h
  refine ⟨q', u, init, rel, hrel, ?_, ?_⟩
  · have hk : newCells.map key3 = (groupsOf key3 rel).map (·.1) :=
      smMapE_map _ _ hnew (fun g hg o ho => (aggCell_key hg ho).1)
    have := hperm.map key3
    rw [hk] at this
    simpa [groupsOf, List.map_map, Function.comp_def] using this
  · intro o ho
    obtain ⟨g, hg, hgo⟩ := smMapE_mem hnew (hperm.mem_iff.mp ho)
    obtain ⟨hkey, hg2⟩ := aggCell_key hg hgo
    obtain ⟨c0, rest, vals, hgc, hvals, ho'⟩ := aggCell_ok hgo
    have hc0 : c0 ∈ rel.filter (fun c => key3 c == key3 o) := by rw [← hg2, hgc]; simp
    refine ⟨by rw [ho'], ⟨c0, (List.mem_filter.mp hc0).1, by simpa using (List.mem_filter.mp hc0).2,
      by rw [ho']⟩, ?_⟩
    intro f i hr hc hin
    have := summarizeCellValues_sum_at' (i := i) hvals hc hr (by
      rw [hg2]; intro c hc'
      exact hin c (List.mem_filter.mp hc').1 (by simpa using (List.mem_filter.mp hc').2))
    have hget : o.getV f = (Dict.get? vals f).getD .none := by rw [ho']; rfl
    rw [hget, this.1, hg2]

/-- **`aggPeriod_conserves`.** Per slice (`_aggregate_period` runs on one slice), evaluation date and summed
field, the total is conserved sample by sample: nothing is dropped, duplicated or apportioned. -/
theorem aggPeriod_conserves {tr : Transc} {t out : List Cell} {q : Int} {s : String} {origin : Date}
    {prem : Bool} {f : String} {i : Nat}
    (h : aggregatePeriod tr t (some (q, s)) origin prem = .ok out)
    (hr : ruleOf [] (lowerKey f) = some ⟨.sum, [f]⟩) (hc : prem = true ∨ f ∉ nonLossMetrics)
    (hin : ∀ c ∈ t, (c.getV f).inRange i = true) (e : Date) :
    ((out.filter fun o => o.ev == e).map fun o => (o.getV f).at i).sum =
      ((t.filter fun c => c.ev == e).map fun c => (c.getV f).at i).sum := by
  obtain ⟨q', u, init, rel, newCells, _, hrel, hnew, hperm⟩ := aggregatePeriod_decompose h
  obtain ⟨hlen, hall⟩ := assignWindows_spec hrel
  let G : Cell → Rat := fun x => if x.ev == e then (x.getV f).at i else 0
  have hsorted : (t.mergeSort fun a b => coordCmp a b != .gt).Perm t := List.mergeSort_perm _ _
  -- re-labelling keeps evaluation date and values
  have hV : (t.mergeSort fun a b => coordCmp a b != .gt).map (fun c => (c.ev, c.getV f)) =
      rel.map (fun rc => (rc.ev, rc.getV f)) :=
    map_eq_of_zip _ _ _ _ hlen (fun p hp => by
      obtain ⟨k, _, _, _, hev, hvals, _⟩ := hall p hp
      simp [Cell.getV, hev, hvals])
  have hrange : ∀ rc ∈ rel, (rc.getV f).inRange i = true := by
    intro rc hrc
    have : (rc.ev, rc.getV f) ∈ rel.map (fun rc => (rc.ev, rc.getV f)) := List.mem_map.mpr ⟨rc, hrc, rfl⟩
    rw [← hV] at this
    obtain ⟨c, hc', hce⟩ := List.mem_map.mp this
    have : c.getV f = rc.getV f := by simpa using congrArg Prod.snd hce
    rw [← this]; exact hin c (hsorted.mem_iff.mp hc')
  have hG : (t.mergeSort fun a b => coordCmp a b != .gt).map G = rel.map G := by
    have := congrArg (List.map fun p : Date × Val => if p.1 == e then p.2.at i else 0) hV
    simpa [List.map_map, Function.comp_def, G] using this
  -- piles
  have hcell : ∀ g ∈ groupsOf key3 rel, ∀ o, aggCell tr prem g = .ok o → G o = (g.2.map G).sum := by
    intro g hg o hgo
    obtain ⟨hkey, hg2⟩ := aggCell_key hg hgo
    obtain ⟨c0, rest, vals, hgc, hvals, ho'⟩ := aggCell_ok hgo
    have hev : ∀ c ∈ g.2, c.ev = o.ev := by
      intro c hc'
      rw [hg2] at hc'
      have : key3 c = key3 o := by simpa using (List.mem_filter.mp hc').2
      exact congrArg (fun k : Date × Date × Date => k.2.2) this
    have hsub : ∀ c ∈ g.2, c ∈ rel := fun c hc' => by rw [hg2] at hc'; exact (List.mem_filter.mp hc').1
    by_cases hoe : (o.ev == e) = true
    · have := summarizeCellValues_sum_at' (i := i) hvals hc hr (fun c hc' => hrange c (hsub c hc'))
      have hget : o.getV f = (Dict.get? vals f).getD .none := by rw [ho']; rfl
      simp only [G, hoe, if_true]
      rw [hget, this.1]
      congr 1
      apply List.map_congr_left
      intro c hc'
      simp [hev c hc', hoe]
    · simp only [G, hoe]
      rw [sum_map_zero]
      · rfl
      · intro c hc'; simp [hev c hc', hoe]
  rw [sum_filter_eq_indicator, sum_filter_eq_indicator]
  show (out.map G).sum = (t.map G).sum
  rw [sum_perm (hperm.map G), smMapE_sum G (fun g => (g.2.map G).sum) hnew hcell]
  unfold groupsOf
  rw [List.map_map]
  have := sum_groups key3 G (smDedup (rel.map key3)) rel (nodup_smDedup _)
    (fun a ha => mem_smDedup.mpr (List.mem_map.mpr ⟨a, ha, rfl⟩))
  simp only [Function.comp_def]
  rw [this, ← hG]
  exact sum_perm (hsorted.map G)

/-! ### 3. straddling -/

/-- a successful aggregation contains no straddling period: every source period ends no later than its
window (second half of `Relabelled` in `window_spec`), and a `TriangleError` of the window walk is caused by a
cell that starts no later than the end of some window and ends after it -/
theorem aggPeriod_error_iff_straddle_partial {q : Int} {u : ResUnit} {init : Date} {cells : List Cell} :
    (∀ rel, assignWindows q u init cells = .ok rel →
      ∀ p ∈ cells.zip rel, ¬ (p.2.pe < p.1.pe)) ∧
    (assignWindows q u init cells = .error .triangleError →
      ∃ c ∈ cells, ∃ k, ¬ ((windowAt q u init k).2 < c.ps) ∧ (windowAt q u init k).2 < c.pe) := by
  refine ⟨fun rel h p hp => ?_, assignWindows_triangleError⟩
  obtain ⟨_, _, _, _, _, _, _, _, hno⟩ := (assignWindows_spec h).2 p hp
  exact hno

/-- **`aggPeriod_error_iff_straddle`.** The window walk over the slice (sorted by `(ps, pe, ev)` as the code
does) ends in `TriangleError` exactly when some source period starts in a window — the FIRST window, counted from
the anchor, whose end is not before the period's start — and ends after that window's end. Hypothesis `honly`:
the walk does not fail for another reason (a refusal of the `Cell` constructor, `ValueError`, or the model's fuel
bound); such a failure on an earlier cell would pre-empt the `TriangleError`, so the hypothesis is needed for the
"if" direction in any formulation. -/
theorem aggPeriod_error_iff_straddle {q : Int} {u : ResUnit} {init : Date} (t : List Cell)
    (honly : ∀ e, assignWindows q u init (t.mergeSort fun a b => coordCmp a b != .gt) = .error e →
      e = .triangleError) :
    assignWindows q u init (t.mergeSort fun a b => coordCmp a b != .gt) = .error .triangleError ↔
      ∃ c ∈ t, ∃ k, FirstWindow q u init k c.ps ∧ (windowAt q u init k).2 < c.pe := by
  have hperm : (t.mergeSort fun a b => coordCmp a b != .gt).Perm t := List.mergeSort_perm _ _
  have hs := sorted_by_ps t
  constructor
  · intro h
    obtain ⟨c, hc, k, h1, h2⟩ := assignWindows_triangleError_first (k0 := 0) (init0 := init) hs
      (fun _ _ j hj => absurd hj (Nat.not_lt_zero j)) h
    exact ⟨c, hperm.mem_iff.mp hc, k, h1, h2⟩
  · rintro ⟨c, hc, k, hfirst, hcross⟩
    cases h : assignWindows q u init (t.mergeSort fun a b => coordCmp a b != .gt) with
    | error e => rw [honly e h]
    | ok rel =>
      exfalso
      obtain ⟨hlen, hall⟩ := assignWindows_spec h
      obtain ⟨rc, hrc⟩ := mem_zip_of_mem_left hlen (hperm.mem_iff.mpr hc)
      obtain ⟨k', hfirst', hpe⟩ := assignWindows_first (k0 := 0) (init0 := init) hs
        (fun _ _ j hj => absurd hj (Nat.not_lt_zero j)) h (c, rc) hrc
      obtain ⟨_, _, _, _, _, _, _, _, hno⟩ := hall (c, rc) hrc
      have : k = k' := hfirst.unique hfirst'
      subst this
      simp only at hpe hno
      rw [hpe] at hno
      exact hno hcross

/-- **windows are disjoint** (month units, month-end anchor, positive quantity — the regime of `window_spec`'s
closed form): an earlier window ends strictly before a later one starts; with `window_consecutive` the windows
tile the calendar from the anchor on. Window `k` is `[last day of month M + k·q, + 1 day … last day of month
M + (k+1)·q]`, `M` the month index of the anchor (`window_month_shape_agg`). -/
theorem window_disjoint_month {q : Int} {init : Date} (hq : 1 ≤ q) (hv : init.valid = true)
    (he : init.isMonthEnd = true) {j k : Nat} (hjk : j < k) :
    (windowAt q .month init j).2 < (windowAt q .month init k).1 :=
  window_disjoint_month_agg hq hv he hjk

/-- the same for day units (day / week resolutions), inside `date.min … date.max`: grid point `k` is `k·q` days
after the anchor (`iterD_day_agg`) and the date order is the order of ordinals -/
theorem window_disjoint_day {q : Int} {init : Date} (hq : 1 ≤ q) (hv : init.valid = true)
    (h1 : 1 ≤ init.ordinal) {j k : Nat} (hjk : j < k) (h2 : init.ordinal + (k : Int) * q ≤ 3652059) :
    (windowAt q .day init j).2 < (windowAt q .day init k).1 :=
  window_disjoint_day_agg hq hv h1 hjk h2

/-! ### 4. evaluation aggregation only removes cells -/

/-- **`aggEval_eq_filter`.** On a canonical slice, aggregation to an evaluation resolution returns exactly the
cells whose evaluation date is on the grid, in their order, unchanged; the grid is the chain
`first point, +res, +2·res, …` up to the last evaluation date, started one step after the anchor. -/
theorem aggEval_eq_filter {t out : List Cell} {q : Int} {s : String} {origin : Date}
    (hs : t.Pairwise (fun a b => Cell.le a b)) (hk : kindsConsistent t = true)
    (h : aggregateEval t (some (q, s)) origin = .ok out) :
    ∃ q' u first last grid, standardizeResolution q s = .ok (q', u) ∧
      minDate (t.map (·.ev)) = some first ∧ maxDateAgg (t.map (·.ev)) = some last ∧
      validEvals q' u origin first last = some grid ∧
      out = t.filter fun c => grid.contains c.ev := by
  unfold aggregateEval at h
  simp only at h
  split at h
  · cases h
  · rename_i q' u hst
    split at h
    · rename_i first last hmin hmax
      split at h
      · cases h
      · rename_i grid hgrid
        rw [ofCells_filter_sorted hs hk] at h
        cases h
        exact ⟨q', u, first, last, grid, hst, hmin, hmax, hgrid, rfl⟩
    · cases h

/-- the grid of `aggEval_eq_filter` really is `anchor + k·res`, `k = 1, 2, …`, cut at the last evaluation date -/
theorem evalGrid_spec {q : Int} {u : ResUnit} {origin first last : Date} {grid : List Date}
    (h : validEvals q u origin first last = some grid) :
    ∃ anchor, anchorBefore q u origin first = some anchor ∧ ¬ (first ≤ anchor) ∧
      (∀ j (hj : j < grid.length), grid[j] = iterD q u (j + 1) anchor ∧ grid[j] ≤ last) ∧
      ¬ (iterD q u (grid.length + 1) anchor ≤ last) := by
  unfold validEvals at h
  split at h
  · cases h
  · rename_i a ha
    obtain ⟨h1, h2⟩ := gridFrom_spec h
    refine ⟨a, ha, ?_, ?_, ?_⟩
    · unfold anchorBefore at ha
      split at ha
      · cases ha
      · exact walkDown_spec ha
    · intro j hj
      have := h1 j hj
      simpa [iterD] using this
    · simpa [iterD] using h2

/-! ### 5. incremental in/out -/

/-- **`aggregate_incremental_commutes`.** On an incremental triangle `aggregate` is the incremental form of the
aggregate of its cumulative form (definitional in code and model; stated so that a rewrite which breaks it is
caught). -/
theorem aggregate_incremental_commutes (tr : Transc) (t : List Cell) (a : AggArgs)
    (h : smIsIncremental t = true) :
    aggregate tr t a =
      (Triangle.toCumulative t).bind fun cum => (aggregateCum tr cum a).bind Triangle.toIncremental := by
  unfold aggregate
  rw [if_pos h]
  cases Triangle.toCumulative t with
  | error e => rfl
  | ok cum =>
    simp only [Except.bind]
    cases aggregateCum tr cum a <;> rfl

/-- on a cumulative triangle nothing is converted -/
theorem aggregate_cumulative (tr : Transc) (t : List Cell) (a : AggArgs)
    (h : smIsIncremental t = false) : aggregate tr t a = aggregateCum tr t a := by
  unfold aggregate
  simp [h]

/-- with neither resolution given every slice is returned as it is -/
theorem aggregateSlice_none (tr : Transc) (s : List Cell) (a : AggArgs) (hp : a.periodRes = none)
    (he : a.evalRes = none) : aggregateSlice tr a s = .ok s := by
  simp [aggregateSlice, aggregateEval, aggregatePeriod, hp, he]

/-! ### 6. non-vacuity: three quarters into half-years -/

def exQ : List Cell :=
  [ { kind := .cumulative, ps := ⟨2020, 1, 1⟩, pe := ⟨2020, 3, 31⟩, ev := ⟨2020, 12, 31⟩,
      values := [("paid_loss", .int 10)] },
    { kind := .cumulative, ps := ⟨2020, 4, 1⟩, pe := ⟨2020, 6, 30⟩, ev := ⟨2020, 12, 31⟩,
      values := [("paid_loss", .int 5)] },
    { kind := .cumulative, ps := ⟨2020, 7, 1⟩, pe := ⟨2020, 9, 30⟩, ev := ⟨2020, 12, 31⟩,
      values := [("paid_loss", .int 2)] } ]

/-- the anchor walk from the default origin reaches the month end before the data (40 half-year steps) -/
example : anchorBefore 6 .month ⟨1999, 12, 31⟩ ⟨2020, 1, 1⟩ = some ⟨2019, 12, 31⟩ := by decide +kernel

/-- the window walk succeeds and puts the first two quarters into one window -/
example :
    (match assignWindows 6 .month ⟨2019, 12, 31⟩ exQ with
     | .ok rel => decide (rel.map key3 =
         [(⟨2020, 1, 1⟩, ⟨2020, 6, 30⟩, ⟨2020, 12, 31⟩), (⟨2020, 1, 1⟩, ⟨2020, 6, 30⟩, ⟨2020, 12, 31⟩),
          (⟨2020, 7, 1⟩, ⟨2020, 12, 31⟩, ⟨2020, 12, 31⟩)])
     | .error _ => false) = true := by
  decide +kernel

/-- four-month windows cut the second quarter: refused with `TriangleError` -/
example :
    (match assignWindows 4 .month ⟨2019, 12, 31⟩ exQ with
     | .error e => decide (e = .triangleError)
     | .ok _ => false) = true := by
  decide +kernel

end Bermuda.Properties.C08
