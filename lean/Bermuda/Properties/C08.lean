/-
C08 — aggregation sums exactly the cells it merges and loses nothing.
Only property theorems live here (helper lemmas: `Lemmas/Summarize.lean`, `Lemmas/Aggregate.lean`,
`Lemmas/AggregateDates.lean`, `Lemmas/AggregateAnchor.lean` — the latter also holds the closed instance used by the
non-vacuity examples).
The values of an aggregated cell come from the C09 model (`summarizeCellValues`), whose sum clause is
`Properties/C09`'s; the rule table is the regenerated one.
-/
import Bermuda.Model.Aggregate
import Bermuda.Spec.C08
import Bermuda.Lemmas.Aggregate
import Bermuda.Lemmas.AggregateDates
import Bermuda.Lemmas.AggregateAnchor
import Bermuda.Lemmas.AggregateBridge
import Bermuda.Lemmas.AggregateDay
import Bermuda.Lemmas.AggregateDayStraddle
import Bermuda.Lemmas.AggregateDayEval
namespace Bermuda.Properties.C08
open Bermuda Generated.Summarize

/-! ### 1. windows -/

/-- windows are consecutive: window `k + 1` starts the day after window `k` ends -/
theorem window_consecutive (q : Int) (u : ResUnit) (init : Date) (k : Nat) :
    (windowAt q u init (k + 1)).1 = (windowAt q u init k).2.succ := rfl

/-- each window ends one resolution step after the grid point it starts behind -/
theorem window_step (q : Int) (u : ResUnit) (init : Date) (k : Nat) :
    (windowAt q u init k).2 = resolutionDelta (iterD q u k init) q u := iterD_succ' q u k init

/-- **`anchor_spec` (month units).** The anchor the code reaches by walking up and down from the REQUESTED origin
(a valid month end) is itself a point of the origin's grid: the last day of month `monthToId origin + j·q` for an
integer `j`; it lies strictly before the bound (the earliest period start / first evaluation date) and the next
grid point does not — the first window `[anchor + 1 day, anchor + q months]` contains the bound. -/
theorem anchor_spec_month {q : Int} {origin bound a : Date} (hv : origin.valid = true)
    (he : origin.isMonthEnd = true) (h : anchorBefore q .month origin bound = some a) :
    ∃ j : Int, a = monthEndOf (monthToId origin + j * q) ∧ a < bound ∧
      ¬ (monthEndOf (monthToId origin + (j + 1) * q) < bound) :=
  anchorBefore_month_agg hv he h

/-- **`anchor_spec` (day units)**, dates inside `date.min … date.max` with one step of room: the anchor is `j·q`
days from the requested origin, strictly before the bound, and `q` days later is not. -/
theorem anchor_spec_day {q : Int} {origin bound a : Date} (hq : 1 ≤ q) (hvo : origin.valid = true)
    (hvb : bound.valid = true) (ho1 : 1 ≤ origin.ordinal) (ho2 : origin.ordinal + q ≤ 3652059)
    (hb1 : q < bound.ordinal) (hb2 : bound.ordinal + q ≤ 3652059)
    (h : anchorBefore q .day origin bound = some a) :
    ∃ j : Int, a.valid = true ∧ a.ordinal = origin.ordinal + j * q ∧ a < bound ∧ ¬ (a.addDays q < bound) :=
  anchorBefore_day_agg hq hvo hvb ho1 ho2 hb1 hb2 h

/-- in every regime the anchor lies strictly before the bound -/
theorem anchor_before {q : Int} {u : ResUnit} {origin bound a : Date}
    (h : anchorBefore q u origin bound = some a) : a < bound := by
  unfold anchorBefore at h
  split at h
  · cases h
  · have := walkDown_spec h
    rw [Date.le_iff_agg] at this
    rw [Date.lt_iff_agg]; omega

/-- **`window_spec`.** A successful `_aggregate_period` re-labels every source cell (in `(ps, pe, ev)` order)
with one of the consecutive windows `windowAt k = [grid k + 1 day, grid (k+1)]`, `grid k = anchor + k·res`, where
the anchor is `anchorBefore … period_origin` of the EARLIEST period start `c0.ps` (so by `anchor_spec_month` /
`anchor_spec_day` a point `period_origin + j·res` of the requested grid, see `window_origin_month`), such that the
cell's period starts and ends no later than the window's end and — for valid period starts — starts no earlier than
the window's start: the source period lies INSIDE the window; evaluation date, values and metadata are untouched.
(`windowAt` is by construction a chain of adjacent intervals, `window_consecutive`; that they are disjoint is
`window_disjoint_month` / `window_disjoint_day` for a positive quantity.) -/
theorem window_spec {tr : Transc} {t out : List Cell} {q : Int} {s : String} {origin : Date}
    {prem : Bool} (h : aggregatePeriod tr t (some (q, s)) origin prem = .ok out) :
    ∃ q' u init rel, standardizeResolution q s = .ok (q', u) ∧
      (∃ c0 ∈ t, (∀ c ∈ t, ¬ c.ps < c0.ps) ∧ anchorBefore q' u origin c0.ps = some init) ∧
      rel.length = t.length ∧
      ∀ p ∈ (t.mergeSort fun a b => coordCmp a b != .gt).zip rel, Relabelled q' u init p.1 p.2 ∧
        ((∀ c ∈ t, c.ps.valid = true) → ¬ (p.1.ps < p.2.ps)) := by
  obtain ⟨q', u, init, rel, _, c0, hst, hc0, hmin, hanchor, hrel, _, _⟩ := aggregatePeriod_decompose_anchor h
  obtain ⟨hlen, hall⟩ := assignWindows_spec hrel
  have hperm : (t.mergeSort fun a b => coordCmp a b != .gt).Perm t := List.mergeSort_perm _ _
  refine ⟨q', u, init, rel, hst, ⟨c0, hc0, hmin, hanchor⟩, by rw [hlen, List.length_mergeSort], ?_⟩
  intro p hp
  refine ⟨hall p hp, fun hv => ?_⟩
  exact assignWindows_contains (sorted_by_ps t) (fun c hc => hv c (hperm.mem_iff.mp hc))
    (fun c hc => Date.lt_of_lt_of_not_lt_agg (anchor_before hanchor) (hmin c (hperm.mem_iff.mp hc))) hrel p hp

/-- **`window_origin_month`: the windows start the day after `period_origin + k·res`.** Month units (month,
quarter, year spellings) with a valid month-end `period_origin`: there is an integer `j` such that every source
cell is re-labelled with the window `[last day of month (M₀ + (j+k)·q) + 1 day, last day of month
(M₀ + (j+k+1)·q)]`, `M₀ = monthToId period_origin`, `k ∈ ℕ` — consecutive windows of the requested length counted
from the requested origin; window `j` (k = 0) is the one containing the earliest period start. -/
theorem window_origin_month {tr : Transc} {t out : List Cell} {q q' : Int} {s : String} {origin : Date}
    {prem : Bool} (h : aggregatePeriod tr t (some (q, s)) origin prem = .ok out)
    (hst : standardizeResolution q s = .ok (q', .month)) (hv : origin.valid = true)
    (he : origin.isMonthEnd = true) :
    ∃ (j : Int) (rel : List Cell), rel.length = t.length ∧
      (∃ c0 ∈ t, (∀ c ∈ t, ¬ c.ps < c0.ps) ∧ monthEndOf (monthToId origin + j * q') < c0.ps ∧
        ¬ (monthEndOf (monthToId origin + (j + 1) * q') < c0.ps)) ∧
      ∀ p ∈ (t.mergeSort fun a b => coordCmp a b != .gt).zip rel, ∃ k : Nat,
        p.2.ps = (monthEndOf (monthToId origin + (j + k) * q')).succ ∧
        p.2.pe = monthEndOf (monthToId origin + (j + k + 1) * q') ∧
        p.2.ev = p.1.ev ∧ p.2.values = p.1.values ∧ p.2.md = p.1.md ∧ ¬ (p.2.pe < p.1.pe) := by
  obtain ⟨q2, u, init, rel, hst', ⟨c0, hc0, hmin, hanchor⟩, hlen, hall⟩ := window_spec h
  rw [hst] at hst'
  obtain ⟨rfl, rfl⟩ : q' = q2 ∧ ResUnit.month = u := by
    injection hst' with h1; injection h1 with h2 h3; exact ⟨h2, h3⟩
  obtain ⟨j, hj, hlt, hnext⟩ := anchor_spec_month hv he hanchor
  have hvi : init.valid = true := by rw [hj]; exact monthEndOf_valid _
  have hei : init.isMonthEnd = true := by rw [hj]; exact monthEndOf_isMonthEnd _
  have hid : monthToId init = monthToId origin + j * q' := by rw [hj, monthToId_monthEndOf]
  refine ⟨j, rel, hlen, ⟨c0, hc0, hmin, by rw [← hj]; exact hlt, hnext⟩, ?_⟩
  intro p hp
  obtain ⟨⟨k, hk, _, _, hev, hvals, hmd, _, hpe⟩, _⟩ := hall p hp
  obtain ⟨h2, h1⟩ := window_month_shape_agg (q := q') hvi hei k
  refine ⟨k, ?_, ?_, hev, hvals, hmd, hpe⟩
  · have : p.2.ps = (windowAt q' .month init k).1 := congrArg Prod.fst hk
    rw [this, h1, hid]; congr 2; ring
  · have : p.2.pe = (windowAt q' .month init k).2 := congrArg Prod.snd hk
    rw [this, h2, hid]; congr 1; ring

/-- **bridge `spec_windowsOk_month`.** The closed-form predicate `Spec.C08.windowsOk` — every output period is
`[period_origin + n·res + 1 day, period_origin + (n+1)·res]` by month-index arithmetic from the REQUESTED origin,
every output cell is a CumulativeCell — which the driver evaluates on the implementation's output, holds on the
model's output (month units, valid month-end origin; any quantity). -/
theorem spec_windowsOk_month {tr : Transc} {t out : List Cell} {q q' : Int} {s : String} {origin : Date}
    {prem : Bool} (h : aggregatePeriod tr t (some (q, s)) origin prem = .ok out)
    (hst : standardizeResolution q s = .ok (q', .month)) (hv : origin.valid = true)
    (he : origin.isMonthEnd = true) : Spec.C08.windowsOk q' .month origin out = true :=
  windowsOk_month_agg h hst hv he

/-- **`window_origin_day`: day / week units, the windows start the day after `period_origin + k·res`.** Dates inside
`date.min … date.max` with one step of room (origin and period starts): there is an integer `j` such that every
source cell is re-labelled with the window `[G_k + 1 day, G_{k+1}]`, where `G_k` is the (valid) date whose ordinal
is `period_origin.ordinal + (j + k)·q` — consecutive windows of `q` days counted from the requested origin. -/
theorem window_origin_day {tr : Transc} {t out : List Cell} {q q' : Int} {s : String} {origin : Date}
    {prem : Bool} (h : aggregatePeriod tr t (some (q, s)) origin prem = .ok out)
    (hst : standardizeResolution q s = .ok (q', .day)) (hq : 1 ≤ q') (hvo : origin.valid = true)
    (ho1 : 1 ≤ origin.ordinal) (ho2 : origin.ordinal + q' ≤ 3652059)
    (hcells : ∀ c ∈ t, c.ps.valid = true ∧ q' < c.ps.ordinal ∧ c.ps.ordinal + q' ≤ 3652059) :
    ∃ (j : Int) (rel : List Cell), rel.length = t.length ∧
      ∀ p ∈ (t.mergeSort fun a b => coordCmp a b != .gt).zip rel, ∃ (k : Nat) (g g' : Date),
        g.valid = true ∧ g.ordinal = origin.ordinal + (j + k) * q' ∧ g'.valid = true ∧
        g'.ordinal = origin.ordinal + (j + k + 1) * q' ∧ p.2.ps = g.succ ∧ p.2.pe = g' ∧
        p.2.ev = p.1.ev ∧ p.2.values = p.1.values ∧ p.2.md = p.1.md ∧ ¬ (p.2.pe < p.1.pe) := by
  obtain ⟨j, rel, hlen, _, hall⟩ := window_origin_day_agg h hst hq hvo ho1 ho2 hcells
  exact ⟨j, rel, hlen, hall⟩

/-- **bridge `spec_windowsOk_day`** (one slice) and its whole-triangle form: `Spec.C08.windowsOk` — every output
period is `[origin + n·q days + 1 day, origin + (n+1)·q days]` by ordinal arithmetic from the REQUESTED origin, every
output cell a CumulativeCell — holds on the model's output for day / week units. -/
theorem spec_windowsOk_day {tr : Transc} {t out : List Cell} {q q' : Int} {s : String} {origin : Date}
    {prem : Bool} (h : aggregatePeriod tr t (some (q, s)) origin prem = .ok out)
    (hst : standardizeResolution q s = .ok (q', .day)) (hq : 1 ≤ q') (hvo : origin.valid = true)
    (ho1 : 1 ≤ origin.ordinal) (ho2 : origin.ordinal + q' ≤ 3652059)
    (hcells : ∀ c ∈ t, c.ps.valid = true ∧ q' < c.ps.ordinal ∧ c.ps.ordinal + q' ≤ 3652059) :
    Spec.C08.windowsOk q' .day origin out = true :=
  windowsOk_day_agg h hst hq hvo ho1 ho2 hcells

theorem spec_windowsOk_day_all {tr : Transc} {t out : List Cell} {a : AggArgs} {q q' : Int} {s : String}
    (h : aggregateCum tr t a = .ok out) (hp : a.periodRes = some (q, s))
    (hst : standardizeResolution q s = .ok (q', .day)) (hq : 1 ≤ q') (hvo : a.periodOrigin.valid = true)
    (ho1 : 1 ≤ a.periodOrigin.ordinal) (ho2 : a.periodOrigin.ordinal + q' ≤ 3652059)
    (hcells : ∀ c ∈ t, c.ps.valid = true ∧ q' < c.ps.ordinal ∧ c.ps.ordinal + q' ≤ 3652059) :
    Spec.C08.windowsOk q' .day a.periodOrigin out = true :=
  windowsOk_day_cum h hp hst hq hvo ho1 ho2 hcells

/-! ### 2. cells and conservation -/

/-- **`aggPeriod_cell_spec`.** Exactly one output cell per (window, evaluation date) that has a re-labelled
source cell — the output keys are a permutation of the distinct keys of the re-labelled cells —, it is a
CumulativeCell carrying the slice's metadata (the windows are those of `window_spec`: the anchor is
`anchorBefore … period_origin` of the earliest period start), and every field whose rule is the sum of itself equals, sample by
sample, the sum of that field over ALL re-labelled source cells with that window and evaluation date. -/
theorem aggPeriod_cell_spec {tr : Transc} {t out : List Cell} {q : Int} {s : String} {origin : Date}
    {prem : Bool} (h : aggregatePeriod tr t (some (q, s)) origin prem = .ok out) :
    ∃ q' u init rel,
      (standardizeResolution q s = .ok (q', u) ∧
        ∃ c0 ∈ t, (∀ c ∈ t, ¬ c.ps < c0.ps) ∧ anchorBefore q' u origin c0.ps = some init) ∧
      assignWindows q' u init (t.mergeSort fun a b => coordCmp a b != .gt) = .ok rel ∧
      (out.map key3).Perm (smDedup (rel.map key3)) ∧
      ∀ o ∈ out, o.kind = .cumulative ∧ (∃ rc ∈ rel, key3 rc = key3 o ∧ rc.md = o.md) ∧
        ∀ (f : String) (i : Nat), ruleOf [] (lowerKey f) = some ⟨.sum, [f]⟩ →
          (prem = true ∨ f ∉ nonLossMetrics) →
          (∀ rc ∈ rel, key3 rc = key3 o → (rc.getV f).inRange i = true) →
          (o.getV f).at i =
            ((rel.filter fun rc => key3 rc == key3 o).map fun rc => (rc.getV f).at i).sum := by
  obtain ⟨q', u, init, rel, newCells, c0, hst, hc0, hmin, hanchor, hrel, hnew, hperm⟩ :=
    aggregatePeriod_decompose_anchor h
  refine ⟨q', u, init, rel, ⟨hst, c0, hc0, hmin, hanchor⟩, hrel, ?_, ?_⟩
  · have hk : newCells.map key3 = (groupsOf key3 rel).map (·.1) :=
      smMapE_map _ _ hnew (fun g hg o ho => (aggCell_key hg ho).1)
    have := hperm.map key3
    rw [hk] at this
    simpa [groupsOf, List.map_map, Function.comp_def] using this
  · intro o ho
    obtain ⟨g, hg, hgo⟩ := smMapE_mem hnew (hperm.mem_iff.mp ho)
    obtain ⟨hkey, hg2⟩ := aggCell_key hg hgo
    obtain ⟨c0, rest, vals, hgc, hvals, ho'⟩ := aggCell_ok hgo
    have hc0 : c0 ∈ rel.filter (fun c => key3 c == key3 o) := by rw [← hg2, hgc]; simp
    refine ⟨by rw [ho'], ⟨c0, (List.mem_filter.mp hc0).1, by simpa using (List.mem_filter.mp hc0).2,
      by rw [ho']⟩, ?_⟩
    intro f i hr hc hin
    have := summarizeCellValues_sum_at' (i := i) hvals hc hr (by
      rw [hg2]; intro c hc'
      exact hin c (List.mem_filter.mp hc').1 (by simpa using (List.mem_filter.mp hc').2))
    have hget : o.getV f = (Dict.get? vals f).getD .none := by rw [ho']; rfl
    rw [hget, this.1, hg2]

/-- source cell `c` lies INSIDE the period of output cell `o` and has its evaluation date
(`insideB o c = !(c.ps < o.ps) && !(o.pe < c.pe) && c.ev == o.ev`) -/
abbrev insideOf (o c : Cell) : Bool := insideB o c

/-- **`aggPeriod_sums_inside_month`: the sum clause over "the source cells whose period lies inside the aggregated
period" — both directions.** Month units, valid month-end `period_origin`, positive quantity, source cells with
valid period starts and `period_start ≤ period_end`: every output cell's value of a summed field equals, sample by
sample, the sum of that field over EXACTLY the source cells `c` of the slice with
`o.period_start ≤ c.period_start`, `c.period_end ≤ o.period_end` and `c.evaluation_date = o.evaluation_date` — a
source cell inside the window is never labelled with another window (the windows are disjoint,
`window_disjoint_month`), and a cell labelled with the window lies inside it (`window_spec`). -/
theorem aggPeriod_sums_inside_month {tr : Transc} {t out : List Cell} {q q' : Int} {s : String}
    {origin : Date} {prem : Bool} (h : aggregatePeriod tr t (some (q, s)) origin prem = .ok out)
    (hst : standardizeResolution q s = .ok (q', .month)) (hq : 1 ≤ q') (hv : origin.valid = true)
    (he : origin.isMonthEnd = true) (hcells : ∀ c ∈ t, c.ps.valid = true ∧ ¬ (c.pe < c.ps))
    {o : Cell} (ho : o ∈ out) {f : String} {i : Nat}
    (hr : ruleOf [] (lowerKey f) = some ⟨.sum, [f]⟩) (hc : prem = true ∨ f ∉ nonLossMetrics)
    (hin : ∀ c ∈ t, (c.getV f).inRange i = true) :
    (o.getV f).at i = ((t.filter (insideOf o)).map fun c => (c.getV f).at i).sum := by
  exact ((sliceFacts_month h hst hq hv he hcells).sums o ho f i hr hc (fun c hc' _ => hin c hc')).2

/-- **`aggPeriod_conserves`.** Per slice (`_aggregate_period` runs on one slice), evaluation date and summed
field, the total is conserved sample by sample: nothing is dropped, duplicated or apportioned. -/
theorem aggPeriod_conserves {tr : Transc} {t out : List Cell} {q : Int} {s : String} {origin : Date}
    {prem : Bool} {f : String} {i : Nat}
    (h : aggregatePeriod tr t (some (q, s)) origin prem = .ok out)
    (hr : ruleOf [] (lowerKey f) = some ⟨.sum, [f]⟩) (hc : prem = true ∨ f ∉ nonLossMetrics)
    (hin : ∀ c ∈ t, (c.getV f).inRange i = true) (e : Date) :
    ((out.filter fun o => o.ev == e).map fun o => (o.getV f).at i).sum =
      ((t.filter fun c => c.ev == e).map fun c => (c.getV f).at i).sum := by
  obtain ⟨q', u, init, rel, newCells, _, hrel, hnew, hperm⟩ := aggregatePeriod_decompose h
  obtain ⟨hlen, hall⟩ := assignWindows_spec hrel
  let G : Cell → Rat := fun x => if x.ev == e then (x.getV f).at i else 0
  have hsorted : (t.mergeSort fun a b => coordCmp a b != .gt).Perm t := List.mergeSort_perm _ _
  -- re-labelling keeps evaluation date and values
  have hV : (t.mergeSort fun a b => coordCmp a b != .gt).map (fun c => (c.ev, c.getV f)) =
      rel.map (fun rc => (rc.ev, rc.getV f)) :=
    map_eq_of_zip _ _ _ _ hlen (fun p hp => by
      obtain ⟨k, _, _, _, hev, hvals, _⟩ := hall p hp
      simp [Cell.getV, hev, hvals])
  have hrange : ∀ rc ∈ rel, (rc.getV f).inRange i = true := by
    intro rc hrc
    have : (rc.ev, rc.getV f) ∈ rel.map (fun rc => (rc.ev, rc.getV f)) := List.mem_map.mpr ⟨rc, hrc, rfl⟩
    rw [← hV] at this
    obtain ⟨c, hc', hce⟩ := List.mem_map.mp this
    have : c.getV f = rc.getV f := by simpa using congrArg Prod.snd hce
    rw [← this]; exact hin c (hsorted.mem_iff.mp hc')
  have hG : (t.mergeSort fun a b => coordCmp a b != .gt).map G = rel.map G := by
    have := congrArg (List.map fun p : Date × Val => if p.1 == e then p.2.at i else 0) hV
    simpa [List.map_map, Function.comp_def, G] using this
  -- piles
  have hcell : ∀ g ∈ groupsOf key3 rel, ∀ o, aggCell tr prem g = .ok o → G o = (g.2.map G).sum := by
    intro g hg o hgo
    obtain ⟨hkey, hg2⟩ := aggCell_key hg hgo
    obtain ⟨c0, rest, vals, hgc, hvals, ho'⟩ := aggCell_ok hgo
    have hev : ∀ c ∈ g.2, c.ev = o.ev := by
      intro c hc'
      rw [hg2] at hc'
      have : key3 c = key3 o := by simpa using (List.mem_filter.mp hc').2
      exact congrArg (fun k : Date × Date × Date => k.2.2) this
    have hsub : ∀ c ∈ g.2, c ∈ rel := fun c hc' => by rw [hg2] at hc'; exact (List.mem_filter.mp hc').1
    by_cases hoe : (o.ev == e) = true
    · have := summarizeCellValues_sum_at' (i := i) hvals hc hr (fun c hc' => hrange c (hsub c hc'))
      have hget : o.getV f = (Dict.get? vals f).getD .none := by rw [ho']; rfl
      simp only [G, hoe, if_true]
      rw [hget, this.1]
      congr 1
      apply List.map_congr_left
      intro c hc'
      simp [hev c hc', hoe]
    · simp only [G, hoe]
      rw [sum_map_zero]
      · rfl
      · intro c hc'; simp [hev c hc', hoe]
  rw [sum_filter_eq_indicator, sum_filter_eq_indicator]
  show (out.map G).sum = (t.map G).sum
  rw [sum_perm (hperm.map G), smMapE_sum G (fun g => (g.2.map G).sum) hnew hcell]
  unfold groupsOf
  rw [List.map_map]
  have := sum_groups key3 G (smDedup (rel.map key3)) rel (nodup_smDedup _)
    (fun a ha => mem_smDedup.mpr (List.mem_map.mpr ⟨a, ha, rfl⟩))
  simp only [Function.comp_def]
  rw [this, ← hG]
  exact sum_perm (hsorted.map G)

/-! ### 3. straddling -/

/-- a successful aggregation contains no straddling period: every source period ends no later than its
window (second half of `Relabelled` in `window_spec`), and a `TriangleError` of the window walk is caused by a
cell that starts no later than the end of some window and ends after it -/
theorem aggPeriod_error_iff_straddle_partial {q : Int} {u : ResUnit} {init : Date} {cells : List Cell} :
    (∀ rel, assignWindows q u init cells = .ok rel →
      ∀ p ∈ cells.zip rel, ¬ (p.2.pe < p.1.pe)) ∧
    (assignWindows q u init cells = .error .triangleError →
      ∃ c ∈ cells, ∃ k, ¬ ((windowAt q u init k).2 < c.ps) ∧ (windowAt q u init k).2 < c.pe) := by
  refine ⟨fun rel h p hp => ?_, assignWindows_triangleError⟩
  obtain ⟨_, _, _, _, _, _, _, _, hno⟩ := (assignWindows_spec h).2 p hp
  exact hno

/-- **`aggPeriod_error_iff_straddle`.** The window walk over the slice (sorted by `(ps, pe, ev)` as the code
does) ends in `TriangleError` exactly when some source period starts in a window — the FIRST window, counted from
the anchor, whose end is not before the period's start — and ends after that window's end. Hypothesis `honly`:
the walk does not fail for another reason (a refusal of the `Cell` constructor, `ValueError`, or the model's fuel
bound); such a failure on an earlier cell would pre-empt the `TriangleError`, so the hypothesis is needed for the
"if" direction in any formulation. -/
theorem aggPeriod_error_iff_straddle {q : Int} {u : ResUnit} {init : Date} (t : List Cell)
    (honly : ∀ e, assignWindows q u init (t.mergeSort fun a b => coordCmp a b != .gt) = .error e →
      e = .triangleError) :
    assignWindows q u init (t.mergeSort fun a b => coordCmp a b != .gt) = .error .triangleError ↔
      ∃ c ∈ t, ∃ k, FirstWindow q u init k c.ps ∧ (windowAt q u init k).2 < c.pe := by
  have hperm : (t.mergeSort fun a b => coordCmp a b != .gt).Perm t := List.mergeSort_perm _ _
  have hs := sorted_by_ps t
  constructor
  · intro h
    obtain ⟨c, hc, k, h1, h2⟩ := assignWindows_triangleError_first (k0 := 0) (init0 := init) hs
      (fun _ _ j hj => absurd hj (Nat.not_lt_zero j)) h
    exact ⟨c, hperm.mem_iff.mp hc, k, h1, h2⟩
  · rintro ⟨c, hc, k, hfirst, hcross⟩
    cases h : assignWindows q u init (t.mergeSort fun a b => coordCmp a b != .gt) with
    | error e => rw [honly e h]
    | ok rel =>
      exfalso
      obtain ⟨hlen, hall⟩ := assignWindows_spec h
      obtain ⟨rc, hrc⟩ := mem_zip_of_mem_left hlen (hperm.mem_iff.mpr hc)
      obtain ⟨k', hfirst', hpe⟩ := assignWindows_first (k0 := 0) (init0 := init) hs
        (fun _ _ j hj => absurd hj (Nat.not_lt_zero j)) h (c, rc) hrc
      obtain ⟨_, _, _, _, _, _, _, _, hno⟩ := hall (c, rc) hrc
      have : k = k' := hfirst.unique hfirst'
      subst this
      simp only at hpe hno
      rw [hpe] at hno
      exact hno hcross

/-- **bridge `spec_expectStraddle_month`.** The closed-form straddle test `Spec.C08.expectStraddle` (some source
period crosses the end — computed by month-index division from `period_origin` — of the window containing its
start), which the harness compares with the implementation raising `TriangleError`, agrees with the model in
month units from a valid month-end origin with a positive quantity and valid period starts: it is FALSE whenever
`_aggregate_period` succeeds and TRUE whenever the window walk (from the anchor of the earliest period start) ends
in `TriangleError`. (The remaining direction "true ⇒ the walk raises" is `aggPeriod_error_iff_straddle` with its
hypothesis `honly`.) -/
theorem spec_expectStraddle_month {t : List Cell} {q q' : Int} {s : String} {origin : Date}
    (hst : standardizeResolution q s = .ok (q', .month)) (hq : 1 ≤ q') (hv : origin.valid = true)
    (he : origin.isMonthEnd = true) (hcells : ∀ c ∈ t, c.ps.valid = true) :
    (∀ tr prem out, aggregatePeriod tr t (some (q, s)) origin prem = .ok out →
      Spec.C08.expectStraddle q' .month origin t = false) ∧
    (∀ (c0 : Cell) (init : Date), (∀ c ∈ t, ¬ c.ps < c0.ps) → anchorBefore q' .month origin c0.ps = some init →
      assignWindows q' .month init (t.mergeSort fun a b => coordCmp a b != .gt) = .error .triangleError →
      Spec.C08.expectStraddle q' .month origin t = true) :=
  ⟨fun _ _ _ h => expectStraddle_false_of_ok h hst hq hv he hcells,
   fun _ _ hmin hanchor herr => expectStraddle_true_of_error hq hv he hcells hmin hanchor herr⟩

/-- **`straddle_iff_triangleError_month`: `honly` discharged, in closed form.** Month units, valid month-end
`period_origin`, positive quantity, source cells satisfying the `Cell` constructor's date rules with valid period
starts: the window walk from the anchor of the earliest period start ends in `TriangleError` EXACTLY when some
source period crosses the end of the `period_origin`-window containing its start (`Spec.C08.expectStraddle`, month
index arithmetic) — the walk cannot fail for any other reason (the constructor accepts every re-labelled cell, the
model's fuel never runs out). -/
theorem straddle_iff_triangleError_month {t : List Cell} {q' : Int} {origin init : Date} {c0 : Cell}
    (hq : 1 ≤ q') (hv : origin.valid = true) (he : origin.isMonthEnd = true)
    (hcells : ∀ c ∈ t, c.datesOk = true ∧ c.ps.valid = true) (hmin : ∀ c ∈ t, ¬ c.ps < c0.ps)
    (hanchor : anchorBefore q' .month origin c0.ps = some init) :
    assignWindows q' .month init (t.mergeSort fun a b => coordCmp a b != .gt) = .error .triangleError ↔
      Spec.C08.expectStraddle q' .month origin t = true :=
  assignWindows_straddle_iff_month hq hv he hcells hmin hanchor

/-- **`straddle_raises_month`: a straddling source period makes `_aggregate_period` raise `TriangleError`.** Under
the hypotheses of `straddle_iff_triangleError_month` (the anchor walk ends by `anchorBefore_ne_none_month`): if some
source period crosses the end of its `period_origin`-window, `aggregatePeriod` returns `.error .triangleError`. -/
theorem straddle_raises_month {tr : Transc} {t : List Cell} {q q' : Int} {s : String} {origin : Date}
    {prem : Bool} (hst : standardizeResolution q s = .ok (q', .month)) (hq : 1 ≤ q')
    (hv : origin.valid = true) (he : origin.isMonthEnd = true)
    (hcells : ∀ c ∈ t, c.datesOk = true ∧ c.ps.valid = true)
    (hstr : Spec.C08.expectStraddle q' .month origin t = true) :
    aggregatePeriod tr t (some (q, s)) origin prem = .error .triangleError := by
  have hperm : (t.mergeSort fun a b => coordCmp a b != .gt).Perm t := List.mergeSort_perm _ _
  have hs := sorted_by_ps t
  unfold aggregatePeriod
  simp only [hst]
  split
  · rename_i hnil
    -- an empty slice has no straddler
    have : t = [] := by
      have := hperm.length_eq
      rw [hnil] at this
      exact List.eq_nil_of_length_eq_zero this.symm
    subst this
    simp [Spec.C08.expectStraddle] at hstr
  · rename_i c0 tl hsorted
    have hc0 : c0 ∈ t := hperm.mem_iff.mp (by rw [hsorted]; simp)
    have hmin : ∀ c ∈ t, ¬ c.ps < c0.ps := by
      intro c hc
      rw [hsorted] at hs
      rcases List.mem_cons.mp (by rw [← hsorted]; exact hperm.mem_iff.mpr hc) with rfl | hc'
      · exact fun hlt => Date.lt_asymm_agg hlt hlt
      · exact (List.pairwise_cons.mp hs).1 c hc'
    split
    · rename_i hnone; exact absurd hnone (anchorBefore_ne_none_month hq hv he (hcells c0 hc0).2)
    · rename_i init hinit
      have := (assignWindows_straddle_iff_month hq hv he hcells hmin hinit).mpr hstr
      rw [this]

/-- **`straddle_iff_triangleError_day`**: the day / week twin of `straddle_iff_triangleError_month` (dates inside
`date.min … date.max` with one step of room): the window walk ends in `TriangleError` EXACTLY when some source period
crosses the end — computed by ordinal division from `period_origin` — of the window containing its start. -/
theorem straddle_iff_triangleError_day {t : List Cell} {q' : Int} {origin init : Date} {c0 : Cell}
    (hq : 1 ≤ q') (hvo : origin.valid = true) (ho1 : 1 ≤ origin.ordinal) (ho2 : origin.ordinal + q' ≤ 3652059)
    (hcells : ∀ c ∈ t, c.datesOk = true ∧ c.ps.valid = true ∧ q' < c.ps.ordinal ∧
      c.ps.ordinal + q' ≤ 3652059)
    (hc0 : c0 ∈ t) (hmin : ∀ c ∈ t, ¬ c.ps < c0.ps)
    (hanchor : anchorBefore q' .day origin c0.ps = some init) :
    assignWindows q' .day init (t.mergeSort fun a b => coordCmp a b != .gt) = .error .triangleError ↔
      Spec.C08.expectStraddle q' .day origin t = true :=
  assignWindows_straddle_iff_day hq hvo ho1 ho2 hcells hc0 hmin hanchor

/-- **`straddle_raises_day`**: day / week units — a straddling source period makes `_aggregate_period` raise
`TriangleError`, and a successful `_aggregate_period` has no straddler (`Spec.C08.expectStraddle` false). -/
theorem straddle_raises_day {tr : Transc} {t : List Cell} {q q' : Int} {s : String} {origin : Date}
    {prem : Bool} (hst : standardizeResolution q s = .ok (q', .day)) (hq : 1 ≤ q')
    (hvo : origin.valid = true) (ho1 : 1 ≤ origin.ordinal) (ho2 : origin.ordinal + q' ≤ 3652059)
    (hcells : ∀ c ∈ t, c.datesOk = true ∧ c.ps.valid = true ∧ q' < c.ps.ordinal ∧
      c.ps.ordinal + q' ≤ 3652059) :
    (Spec.C08.expectStraddle q' .day origin t = true →
      aggregatePeriod tr t (some (q, s)) origin prem = .error .triangleError) ∧
    (∀ out, aggregatePeriod tr t (some (q, s)) origin prem = .ok out →
      Spec.C08.expectStraddle q' .day origin t = false) := by
  have hperm : (t.mergeSort fun a b => coordCmp a b != .gt).Perm t := List.mergeSort_perm _ _
  have hs := sorted_by_ps t
  have hps : ∀ c ∈ t, c.ps.valid = true ∧ q' < c.ps.ordinal ∧ c.ps.ordinal + q' ≤ 3652059 :=
    fun c hc => (hcells c hc).2
  constructor
  · intro hstr
    unfold aggregatePeriod
    simp only [hst]
    split
    · rename_i hnil
      have : t = [] := by
        have := hperm.length_eq
        rw [hnil] at this
        exact List.eq_nil_of_length_eq_zero this.symm
      subst this
      simp [Spec.C08.expectStraddle] at hstr
    · rename_i c0 tl hsorted
      have hc0 : c0 ∈ t := hperm.mem_iff.mp (by rw [hsorted]; simp)
      have hmin : ∀ c ∈ t, ¬ c.ps < c0.ps := by
        intro c hc
        rw [hsorted] at hs
        rcases List.mem_cons.mp (by rw [← hsorted]; exact hperm.mem_iff.mpr hc) with rfl | hc'
        · exact fun hlt => Date.lt_asymm_agg hlt hlt
        · exact (List.pairwise_cons.mp hs).1 c hc'
      obtain ⟨hv0, hb1, hb2⟩ := hps c0 hc0
      split
      · rename_i hnone; exact absurd hnone (anchorBefore_ne_none_day hq hvo hv0 ho1 ho2 hb1 hb2)
      · rename_i init hinit
        have := (assignWindows_straddle_iff_day hq hvo ho1 ho2 hcells hc0 hmin hinit).mpr hstr
        rw [this]
  · intro out h
    obtain ⟨q2, u, init, rel, _, c0, hst', hc0, hmin, hanchor, hrel, _, _⟩ :=
      aggregatePeriod_decompose_anchor h
    rw [hst] at hst'
    obtain ⟨rfl, rfl⟩ : q' = q2 ∧ ResUnit.day = u := by
      injection hst' with h1; injection h1 with h2 h3; exact ⟨h2, h3⟩
    exact expectStraddle_false_of_walk_day hq hvo ho1 ho2 hps hc0 hmin hanchor hrel

/-- **windows are disjoint** (month units, month-end anchor, positive quantity — the regime of `window_spec`'s
closed form): an earlier window ends strictly before a later one starts; with `window_consecutive` the windows
tile the calendar from the anchor on. Window `k` is `[last day of month M + k·q, + 1 day … last day of month
M + (k+1)·q]`, `M` the month index of the anchor (`window_month_shape_agg`). -/
theorem window_disjoint_month {q : Int} {init : Date} (hq : 1 ≤ q) (hv : init.valid = true)
    (he : init.isMonthEnd = true) {j k : Nat} (hjk : j < k) :
    (windowAt q .month init j).2 < (windowAt q .month init k).1 :=
  window_disjoint_month_agg hq hv he hjk

/-- the same for day units (day / week resolutions), inside `date.min … date.max`: grid point `k` is `k·q` days
after the anchor (`iterD_day_agg`) and the date order is the order of ordinals -/
theorem window_disjoint_day {q : Int} {init : Date} (hq : 1 ≤ q) (hv : init.valid = true)
    (h1 : 1 ≤ init.ordinal) {j k : Nat} (hjk : j < k) (h2 : init.ordinal + (k : Int) * q ≤ 3652059) :
    (windowAt q .day init j).2 < (windowAt q .day init k).1 :=
  window_disjoint_day_agg hq hv h1 hjk h2

/-! ### 4. evaluation aggregation only removes cells -/

/-- **`aggEval_eq_filter`.** On a canonical slice, aggregation to an evaluation resolution returns exactly the
cells whose evaluation date is on the grid, in their order, unchanged; the grid is the chain
`first point, +res, +2·res, …` up to the last evaluation date, started one step after the anchor. -/
theorem aggEval_eq_filter {t out : List Cell} {q : Int} {s : String} {origin : Date}
    (hs : t.Pairwise (fun a b => Cell.le a b)) (hk : kindsConsistent t = true)
    (h : aggregateEval t (some (q, s)) origin = .ok out) :
    ∃ q' u first last grid, standardizeResolution q s = .ok (q', u) ∧
      minDate (t.map (·.ev)) = some first ∧ maxDateAgg (t.map (·.ev)) = some last ∧
      validEvals q' u origin first last = some grid ∧
      out = t.filter fun c => grid.contains c.ev := by
  unfold aggregateEval at h
  simp only at h
  split at h
  · cases h
  · rename_i q' u hst
    split at h
    · rename_i first last hmin hmax
      split at h
      · cases h
      · rename_i grid hgrid
        rw [ofCells_filter_sorted hs hk] at h
        cases h
        exact ⟨q', u, first, last, grid, hst, hmin, hmax, hgrid, rfl⟩
    · cases h

/-- the grid of `aggEval_eq_filter` really is `anchor + k·res`, `k = 1, 2, …`, cut at the last evaluation date -/
theorem evalGrid_spec {q : Int} {u : ResUnit} {origin first last : Date} {grid : List Date}
    (h : validEvals q u origin first last = some grid) :
    ∃ anchor, anchorBefore q u origin first = some anchor ∧ ¬ (first ≤ anchor) ∧
      (∀ j (hj : j < grid.length), grid[j] = iterD q u (j + 1) anchor ∧ grid[j] ≤ last) ∧
      ¬ (iterD q u (grid.length + 1) anchor ≤ last) := by
  unfold validEvals at h
  split at h
  · cases h
  · rename_i a ha
    obtain ⟨h1, h2⟩ := gridFrom_spec h
    refine ⟨a, ha, ?_, ?_, ?_⟩
    · unfold anchorBefore at ha
      split at ha
      · cases ha
      · exact walkDown_spec ha
    · intro j hj
      have := h1 j hj
      simpa [iterD] using this
    · simpa [iterD] using h2

/-- **`evalGrid_origin_month`: the kept evaluation dates are exactly the points `eval_origin + k·res` between the
first and the last evaluation date.** Month units, valid month-end `eval_origin`, positive quantity: a date is in
the grid iff it is the last day of month `monthToId eval_origin + k·q` for some integer `k` and lies in
`[first, last]`. (With `aggEval_eq_filter`: evaluation aggregation keeps exactly the cells whose evaluation date is
on the grid of the requested origin.) -/
theorem evalGrid_origin_month {q : Int} {origin first last : Date} {grid : List Date} (hq : 1 ≤ q)
    (hv : origin.valid = true) (he : origin.isMonthEnd = true)
    (h : validEvals q .month origin first last = some grid) (d : Date) :
    d ∈ grid ↔ (∃ k : Int, d = monthEndOf (monthToId origin + k * q)) ∧ first ≤ d ∧ d ≤ last := by
  obtain ⟨anchor, hanchor, _, hgrid, hend⟩ := evalGrid_spec h
  obtain ⟨j, hj, hlt, hnext⟩ := anchor_spec_month hv he hanchor
  have hvi : anchor.valid = true := by rw [hj]; exact monthEndOf_valid _
  have hei : anchor.isMonthEnd = true := by rw [hj]; exact monthEndOf_isMonthEnd _
  have hid : monthToId anchor = monthToId origin + j * q := by rw [hj, monthToId_monthEndOf]
  have hpt : ∀ i : Nat, iterD q .month i anchor = monthEndOf (monthToId origin + (j + i) * q) := by
    intro i; rw [iterD_month_monthEnd q i anchor hvi hei, hid]; congr 1; ring
  -- monotone: a smaller month index is an earlier-or-equal month end
  have mono : ∀ {M N : Int}, M ≤ N → ¬ (monthEndOf N < monthEndOf M) := by
    intro M N hMN hlt'
    rcases monthEndOf_le_or hMN with e | l
    · rw [e] at hlt'; exact Date.lt_asymm_agg hlt' hlt'
    · exact Date.lt_asymm_agg l hlt'
  constructor
  · intro hd
    obtain ⟨i, hi, rfl⟩ := List.getElem_of_mem hd
    obtain ⟨hform, hle⟩ := hgrid i hi
    rw [hpt] at hform
    refine ⟨⟨j + (i + 1 : Nat), hform⟩, ?_, hle⟩
    rw [Date.le_iff_not_lt_agg, hform]
    intro hlt'
    have h1 : monthToId origin + (j + 1) * q ≤ monthToId origin + (j + ((i + 1 : Nat) : Int)) * q := by
      have : (j + 1) * q ≤ (j + ((i + 1 : Nat) : Int)) * q :=
        Int.mul_le_mul_of_nonneg_right (by push_cast; omega) (by omega)
      omega
    rcases monthEndOf_le_or h1 with e | l
    · rw [← e] at hlt'; exact hnext hlt'
    · exact hnext (Date.lt_trans_agg l hlt')
  · rintro ⟨⟨k, rfl⟩, hfirst, hlast⟩
    rw [Date.le_iff_not_lt_agg] at hfirst hlast
    -- k > j
    have hkj : j < k := by
      by_contra hc
      have hle : monthToId origin + k * q ≤ monthToId origin + j * q := by
        have : k * q ≤ j * q := Int.mul_le_mul_of_nonneg_right (by omega) (by omega)
        omega
      rw [hj] at hlt
      rcases monthEndOf_le_or hle with e | l
      · rw [e] at hfirst; exact hfirst hlt
      · exact hfirst (Date.lt_trans_agg l hlt)
    -- k ≤ j + grid.length
    have hkl : k ≤ j + grid.length := by
      by_contra hc
      have hle : monthToId origin + (j + ((grid.length + 1 : Nat) : Int)) * q ≤ monthToId origin + k * q := by
        have : (j + ((grid.length + 1 : Nat) : Int)) * q ≤ k * q :=
          Int.mul_le_mul_of_nonneg_right (by push_cast; omega) (by omega)
        omega
      apply hend
      rw [hpt, Date.le_iff_not_lt_agg]
      intro hl
      rcases monthEndOf_le_or hle with e | l
      · rw [e] at hl; exact hlast hl
      · exact hlast (Date.lt_trans_agg hl l)
    obtain ⟨i, hi⟩ : ∃ i : Nat, k = j + ((i + 1 : Nat) : Int) := ⟨(k - j - 1).toNat, by push_cast; omega⟩
    have hil : i < grid.length := by push_cast at hi; omega
    have := (hgrid i hil).1
    rw [hpt, ← hi] at this
    rw [← this]
    exact List.getElem_mem hil

/-- **bridge `spec_evalOk_month`.** The closed-form predicate `Spec.C08.evalOk` — the output is the input filtered
by "evaluation date is a month end whose month index differs from `eval_origin`'s by a multiple of `q`", cells
unchanged and in order — holds on the model's `_aggregate_eval` of a canonical slice (month units, valid month-end
origin, positive quantity, valid evaluation dates). -/
theorem spec_evalOk_month {t out : List Cell} {q q' : Int} {s : String} {origin : Date}
    (hs : t.Pairwise (fun a b => Cell.le a b)) (hk : kindsConsistent t = true)
    (h : aggregateEval t (some (q, s)) origin = .ok out)
    (hst : standardizeResolution q s = .ok (q', .month)) (hq : 1 ≤ q') (hv : origin.valid = true)
    (he : origin.isMonthEnd = true) (hev : ∀ c ∈ t, c.ev.valid = true) :
    Spec.C08.evalOk q' .month origin t out = true := by
  obtain ⟨q2, u, first, last, grid, hst', hmin, hmax, hgrid, rfl⟩ := aggEval_eq_filter hs hk h
  rw [hst] at hst'
  obtain ⟨rfl, rfl⟩ : q' = q2 ∧ ResUnit.month = u := by
    injection hst' with h1; injection h1 with h2 h3; exact ⟨h2, h3⟩
  unfold Spec.C08.evalOk
  rw [beq_iff_eq]
  apply List.filter_congr
  intro c hc
  have hmem : c.ev ∈ t.map (·.ev) := List.mem_map.mpr ⟨c, hc, rfl⟩
  have h1 : first ≤ c.ev := (Date.le_iff_not_lt_agg _ _).mpr (minDate_le hmin _ hmem)
  have h2 : c.ev ≤ last := (Date.le_iff_not_lt_agg _ _).mpr (maxDateAgg_ge hmax _ hmem)
  rw [Bool.eq_iff_iff, List.contains_iff_mem, evalGrid_origin_month hq hv he hgrid,
    onGrid_month_iff (hev c hc)]
  exact ⟨fun h => h.1, fun h => ⟨h, h1, h2⟩⟩

/-- **`evalGrid_origin_day`**: day / week units — a valid date is kept iff its ordinal differs from `eval_origin`'s by
a multiple of `q` and it lies between the first and the last evaluation date (dates inside `date.min … date.max`
with one step of room). -/
theorem evalGrid_origin_day {q : Int} {origin first last : Date} {grid : List Date} (hq : 1 ≤ q)
    (hvo : origin.valid = true) (ho1 : 1 ≤ origin.ordinal) (ho2 : origin.ordinal + q ≤ 3652059)
    (hvf : first.valid = true) (hf1 : q < first.ordinal) (hf2 : first.ordinal + q ≤ 3652059)
    (hvl : last.valid = true) (hl2 : last.ordinal + 1 + q ≤ 3652059) (hfl : ¬ (last < first))
    (h : validEvals q .day origin first last = some grid) (d : Date) (hvd : d.valid = true) :
    d ∈ grid ↔ (∃ k : Int, d.ordinal = origin.ordinal + k * q) ∧ first ≤ d ∧ d ≤ last :=
  evalGrid_day_agg hq hvo ho1 ho2 hvf hf1 hf2 hvl hl2 hfl h d hvd

/-- **bridge `spec_evalOk_day`**: `Spec.C08.evalOk` holds on the model's `_aggregate_eval` of a canonical slice in
day / week units -/
theorem spec_evalOk_day {t out : List Cell} {q q' : Int} {s : String} {origin : Date}
    (hs : t.Pairwise (fun a b => Cell.le a b)) (hk : kindsConsistent t = true)
    (h : aggregateEval t (some (q, s)) origin = .ok out)
    (hst : standardizeResolution q s = .ok (q', .day)) (hq : 1 ≤ q') (hvo : origin.valid = true)
    (ho1 : 1 ≤ origin.ordinal) (ho2 : origin.ordinal + q' ≤ 3652059)
    (hev : ∀ c ∈ t, c.ev.valid = true ∧ q' < c.ev.ordinal ∧ c.ev.ordinal + 1 + q' ≤ 3652059) :
    Spec.C08.evalOk q' .day origin t out = true :=
  evalOk_day_agg hs hk h hst hq hvo ho1 ho2 hev

/-! ### 5. incremental in/out -/

/-- **`aggregate_incremental_commutes`.** On an incremental triangle `aggregate` is the incremental form of the
aggregate of its cumulative form (definitional in code and model; stated so that a rewrite which breaks it is
caught). -/
theorem aggregate_incremental_commutes (tr : Transc) (t : List Cell) (a : AggArgs)
    (h : smIsIncremental t = true) :
    aggregate tr t a =
      (Triangle.toCumulative t).bind fun cum => (aggregateCum tr cum a).bind Triangle.toIncremental := by
  unfold aggregate
  rw [if_pos h]
  cases Triangle.toCumulative t with
  | error e => rfl
  | ok cum =>
    simp only [Except.bind]
    cases aggregateCum tr cum a <;> rfl

/-- on a cumulative triangle nothing is converted -/
theorem aggregate_cumulative (tr : Transc) (t : List Cell) (a : AggArgs)
    (h : smIsIncremental t = false) : aggregate tr t a = aggregateCum tr t a := by
  unfold aggregate
  simp [h]

/-- with neither resolution given every slice is returned as it is -/
theorem aggregateSlice_none (tr : Transc) (s : List Cell) (a : AggArgs) (hp : a.periodRes = none)
    (he : a.evalRes = none) : aggregateSlice tr a s = .ok s := by
  simp [aggregateSlice, aggregateEval, aggregatePeriod, hp, he]

/-! ### 5b. from one slice to the whole triangle -/

/-- **`aggregate_union_of_slices`.** On a cumulative triangle `aggregate` returns — up to the final re-sorting of
`Triangle(...)` — exactly the cells of the per-slice results (`_aggregate_eval` then `_aggregate_period` on every
slice, slices = the cells of one metadata): `sum(agg_slices)` neither drops, merges nor duplicates a cell. -/
theorem aggregate_union_of_slices {tr : Transc} {t out : List Cell} {a : AggArgs}
    (h : aggregateCum tr t a = .ok out) :
    ∃ aggs, smMapE (fun p : Metadata × List Cell => aggregateSlice tr a p.2) (Triangle.slices t) = .ok aggs ∧
      out.Perm aggs.flatten :=
  aggregateCum_perm h

/-- whole-triangle version of `spec_windowsOk_month`: `Spec.C08.windowsOk` holds on the output of `aggregate` for
ALL slices at once -/
theorem spec_windowsOk_month_all {tr : Transc} {t out : List Cell} {a : AggArgs} {q q' : Int} {s : String}
    (h : aggregateCum tr t a = .ok out) (hp : a.periodRes = some (q, s))
    (hst : standardizeResolution q s = .ok (q', .month)) (hv : a.periodOrigin.valid = true)
    (he : a.periodOrigin.isMonthEnd = true) :
    Spec.C08.windowsOk q' .month a.periodOrigin out = true :=
  windowsOk_month_cum h hp hst hv he

/-- **`aggregate_conserves`: conservation for the whole triangle, per slice and evaluation date.** For a
cumulative triangle aggregated to a period resolution (no evaluation resolution), every summed field's total over
the output cells of metadata `m` and evaluation date `e` equals its total over the source cells of that metadata
and evaluation date, sample by sample — for EVERY slice `m` at once (`aggPeriod_conserves` lifted through
`sum(agg_slices)`). -/
theorem aggregate_conserves {tr : Transc} {t out : List Cell} {a : AggArgs} {q : Int} {s : String}
    {f : String} {i : Nat} (h : aggregateCum tr t a = .ok out) (hev : a.evalRes = none)
    (hp : a.periodRes = some (q, s))
    (hr : ruleOf [] (lowerKey f) = some ⟨.sum, [f]⟩) (hc : a.prem = true ∨ f ∉ nonLossMetrics)
    (hin : ∀ c ∈ t, (c.getV f).inRange i = true) (m : Metadata) (e : Date) :
    ((out.filter fun o => o.md == m && o.ev == e).map fun o => (o.getV f).at i).sum =
      ((t.filter fun c => c.md == m && c.ev == e).map fun c => (c.getV f).at i).sum := by
  obtain ⟨aggs, haggs, hperm⟩ := aggregateCum_perm h
  let G : Cell → Rat := fun x => if (x.md == m && x.ev == e) then (x.getV f).at i else 0
  rw [sum_filter_eq_indicator, sum_filter_eq_indicator]
  show (out.map G).sum = (t.map G).sum
  rw [sum_perm (hperm.map G), sum_flatten_agg]
  -- slice by slice
  have hslice : ∀ p ∈ Triangle.slices t, ∀ r, aggregateSlice tr a p.2 = .ok r →
      (r.map G).sum = ((t.filter fun c => c.md == p.1).map G).sum := by
    intro p hp' r hr'
    unfold Triangle.slices at hp'
    obtain ⟨m', _, rfl⟩ := List.mem_map.mp hp'
    simp only at hr' ⊢
    have hsp : ((t.filter (·.md == m')).mergeSort Cell.le).Perm (t.filter (·.md == m')) :=
      List.mergeSort_perm _ _
    obtain ⟨ev', hev', hper⟩ := aggregateSlice_period hr'
    rw [hev] at hev'
    simp only [aggregateEval] at hev'
    cases hev'
    rw [hp] at hper
    have hmdsl : ∀ c ∈ (t.filter (·.md == m')).mergeSort Cell.le, c.md = m' := by
      intro c hc'
      have := (List.mem_filter.mp (hsp.mem_iff.mp hc')).2
      simpa using this
    have hmdout : ∀ o ∈ r, o.md = m' := by
      intro o ho
      obtain ⟨c, hc', hmd⟩ := aggregatePeriod_out_md hper ho
      rw [hmd]; exact hmdsl c hc'
    rw [← sum_perm (hsp.map G)]
    by_cases hmm : m' = m
    · subst hmm
      have hGo : ∀ o ∈ r, G o = if o.ev == e then (o.getV f).at i else 0 := by
        intro o ho; simp [G, hmdout o ho]
      have hGc : ∀ c ∈ (t.filter (·.md == m')).mergeSort Cell.le,
          G c = if c.ev == e then (c.getV f).at i else 0 := by
        intro c hc'; simp [G, hmdsl c hc']
      rw [List.map_congr_left hGo, List.map_congr_left hGc, ← sum_filter_eq_indicator,
        ← sum_filter_eq_indicator]
      exact aggPeriod_conserves hper hr hc
        (fun c hc' => hin c (List.mem_filter.mp (hsp.mem_iff.mp hc')).1) e
    · have h1 : ∀ o ∈ r, G o = 0 := by
        intro o ho
        have : (o.md == m) = false := by rw [hmdout o ho]; simpa using hmm
        simp only [G, this, Bool.false_and, Bool.false_eq_true, if_false]
      have h2 : ∀ c ∈ (t.filter (·.md == m')).mergeSort Cell.le, G c = 0 := by
        intro c hc'
        have : (c.md == m) = false := by rw [hmdsl c hc']; simpa using hmm
        simp only [G, this, Bool.false_and, Bool.false_eq_true, if_false]
      rw [sum_map_zero _ _ h1, sum_map_zero _ _ h2]
  rw [smMapE_sum (fun r => (r.map G).sum) (fun p => ((t.filter fun c => c.md == p.1).map G).sum) haggs
    (fun p hp' r hr' => hslice p hp' r hr')]
  unfold Triangle.slices
  rw [List.map_map]
  exact sum_groups (fun c : Cell => c.md) G (metasOf t) t (metasOf_nodup_agg t)
    (fun c hc' => metasOf_mem_agg hc')

/-! ### 5c. every clause of the executable Spec holds on the model's output (month units) -/

/-- **`spec_holds_on_model_month`.** For a cumulative triangle aggregated to a period resolution in month units
(month / quarter / year spellings, positive quantity) from a valid month-end `period_origin`, without an evaluation
resolution, source cells with valid period starts and `period_start ≤ period_end`: ALL closed-form clauses of
`Spec/C08.lean` — `windowsOk`, `cover` (every source cell lies in exactly one output cell of its slice and
evaluation date, output coordinates distinct), `cellSums` (each summed field of each output cell = Σ over the source
cells inside its window, sample by sample, and the cell has a source), `keysOk` (field names = union of its
sources'), `conserves` (per slice and evaluation date) — hold on the output of the model's `aggregate`, with exactly
the field list the driver passes (`additiveFields`, or `lossFields` when `summarize_premium = False`). -/
theorem spec_holds_on_model_month {tr : Transc} {t out : List Cell} {a : AggArgs} {q q' : Int} {s : String}
    (hinc : smIsIncremental t = false) (h : aggregate tr t a = .ok out) (hev : a.evalRes = none)
    (hp : a.periodRes = some (q, s)) (hst : standardizeResolution q s = .ok (q', .month)) (hq : 1 ≤ q')
    (hv : a.periodOrigin.valid = true) (he : a.periodOrigin.isMonthEnd = true)
    (hcells : ∀ c ∈ t, c.ps.valid = true ∧ ¬ (c.pe < c.ps)) :
    Spec.C08.holds q' .month a.periodOrigin
      (if a.prem then Spec.C09.additiveFields else Spec.C09.lossFields) t out = true := by
  rw [aggregate_cumulative tr t a hinc] at h
  obtain ⟨aggs, st⟩ := stage_of_aggregateCum h hp (fun _ => true) (by
    intro p _ e he'
    rw [hev] at he'
    simp only [aggregateEval] at he'
    cases he'
    simp)
  have hft : t.filter (fun _ => true) = t := by simp
  rw [hft] at st
  exact st.holds (st.facts_of fun S r hsub hr =>
    sliceFacts_month hr hst hq hv he (fun c hc => hcells c (hsub c hc))) (windowsOk_month_cum h hp hst hv he)

/-- **`spec_holds_on_model_month_eval`: both resolutions at once.** With an evaluation resolution in month units
given at the same time (valid month-end `eval_origin`, positive quantity, valid evaluation dates, a class-consistent
triangle), the same five clauses hold with the source = the triangle FILTERED by the closed-form evaluation grid
`eval_origin + k·res`: in particular each summed field's total per slice and evaluation date is conserved between
the kept cells and the output. -/
theorem spec_holds_on_model_month_eval {tr : Transc} {t out : List Cell} {a : AggArgs} {q q' qe qe' : Int}
    {s se : String} (hinc : smIsIncremental t = false) (h : aggregate tr t a = .ok out)
    (hev : a.evalRes = some (qe, se)) (hste : standardizeResolution qe se = .ok (qe', .month))
    (hqe : 1 ≤ qe') (hve : a.evalOrigin.valid = true) (hee : a.evalOrigin.isMonthEnd = true)
    (hk : kindsConsistent t = true) (hevs : ∀ c ∈ t, c.ev.valid = true)
    (hp : a.periodRes = some (q, s)) (hst : standardizeResolution q s = .ok (q', .month)) (hq : 1 ≤ q')
    (hv : a.periodOrigin.valid = true) (he : a.periodOrigin.isMonthEnd = true)
    (hcells : ∀ c ∈ t, c.ps.valid = true ∧ ¬ (c.pe < c.ps)) :
    Spec.C08.holds q' .month a.periodOrigin
      (if a.prem then Spec.C09.additiveFields else Spec.C09.lossFields)
      (t.filter fun c => Spec.C08.onGrid qe' .month a.evalOrigin c.ev) out = true := by
  rw [aggregate_cumulative tr t a hinc] at h
  obtain ⟨aggs, st⟩ := stage_of_aggregateCum h hp
    (fun c => Spec.C08.onGrid qe' .month a.evalOrigin c.ev) (by
    intro p hp' e he'
    rw [hev] at he'
    unfold Triangle.slices at hp'
    obtain ⟨m, _, rfl⟩ := List.mem_map.mp hp'
    simp only at he' ⊢
    have hsp : ((t.filter (·.md == m)).mergeSort Cell.le).Perm (t.filter (·.md == m)) :=
      List.mergeSort_perm _ _
    have hsub : ∀ c ∈ (t.filter (·.md == m)).mergeSort Cell.le, c ∈ t :=
      fun c hc => (List.mem_filter.mp (hsp.mem_iff.mp hc)).1
    have := spec_evalOk_month (sorted_mergeSort (cmp := Cell.cmp) _) (kindsConsistent_of_subset hsub hk)
      he' hste hqe hve hee (fun c hc => hevs c (hsub c hc))
    unfold Spec.C08.evalOk at this
    exact beq_iff_eq.mp this)
  exact st.holds (st.facts_of fun S r hsub hr =>
    sliceFacts_month hr hst hq hv he (fun c hc => hcells c (List.mem_filter.mp (hsub c hc)).1))
    (windowsOk_month_cum h hp hst hv he)

/-- **`spec_holds_on_model_day`: the same for day / week units.** Cumulative triangle, period resolution in days or
weeks (positive quantity), no evaluation resolution, dates inside `date.min … date.max` with one step of room (origin
and period starts), valid period starts with `period_start ≤ period_end`: all five clauses of `Spec/C08.lean`
(ordinal arithmetic from the REQUESTED origin) hold on the output of the model's `aggregate`. -/
theorem spec_holds_on_model_day {tr : Transc} {t out : List Cell} {a : AggArgs} {q q' : Int} {s : String}
    (hinc : smIsIncremental t = false) (h : aggregate tr t a = .ok out) (hev : a.evalRes = none)
    (hp : a.periodRes = some (q, s)) (hst : standardizeResolution q s = .ok (q', .day)) (hq : 1 ≤ q')
    (hvo : a.periodOrigin.valid = true) (ho1 : 1 ≤ a.periodOrigin.ordinal)
    (ho2 : a.periodOrigin.ordinal + q' ≤ 3652059)
    (hcells : ∀ c ∈ t, (c.ps.valid = true ∧ ¬ (c.pe < c.ps)) ∧ q' < c.ps.ordinal ∧
      c.ps.ordinal + q' ≤ 3652059) :
    Spec.C08.holds q' .day a.periodOrigin
      (if a.prem then Spec.C09.additiveFields else Spec.C09.lossFields) t out = true := by
  rw [aggregate_cumulative tr t a hinc] at h
  obtain ⟨aggs, st⟩ := stage_of_aggregateCum h hp (fun _ => true) (by
    intro p _ e he'
    rw [hev] at he'
    simp only [aggregateEval] at he'
    cases he'
    simp)
  have hft : t.filter (fun _ => true) = t := by simp
  rw [hft] at st
  exact st.holds (st.facts_of fun S r hsub hr =>
    sliceFacts_day hr hst hq hvo ho1 ho2 (fun c hc => hcells c (hsub c hc)))
    (windowsOk_day_cum h hp hst hq hvo ho1 ho2 (fun c hc =>
      ⟨(hcells c hc).1.1, (hcells c hc).2.1, (hcells c hc).2.2⟩))

/-- the evaluation stage of every slice in closed form (month units), as `holds_of_parts` wants it -/
theorem evalStage_month {t : List Cell} {a : AggArgs} {qe qe' : Int} {se : String}
    (hev : a.evalRes = some (qe, se)) (hste : standardizeResolution qe se = .ok (qe', .month))
    (hqe : 1 ≤ qe') (hve : a.evalOrigin.valid = true) (hee : a.evalOrigin.isMonthEnd = true)
    (hk : kindsConsistent t = true) (hevs : ∀ c ∈ t, c.ev.valid = true) :
    ∀ p ∈ Triangle.slices t, ∀ e, aggregateEval p.2 a.evalRes a.evalOrigin = .ok e →
      e = p.2.filter fun c => Spec.C08.onGrid qe' .month a.evalOrigin c.ev := by
  intro p hp e he'
  rw [hev] at he'
  obtain ⟨h1, h2, hsub⟩ := slice_canonical hk hp
  have := spec_evalOk_month h1 h2 he' hste hqe hve hee (fun c hc => hevs c (hsub c hc))
  unfold Spec.C08.evalOk at this
  exact beq_iff_eq.mp this

/-- … and in day / week units -/
theorem evalStage_day {t : List Cell} {a : AggArgs} {qe qe' : Int} {se : String}
    (hev : a.evalRes = some (qe, se)) (hste : standardizeResolution qe se = .ok (qe', .day))
    (hqe : 1 ≤ qe') (hve : a.evalOrigin.valid = true) (he1 : 1 ≤ a.evalOrigin.ordinal)
    (he2 : a.evalOrigin.ordinal + qe' ≤ 3652059) (hk : kindsConsistent t = true)
    (hevs : ∀ c ∈ t, c.ev.valid = true ∧ qe' < c.ev.ordinal ∧ c.ev.ordinal + 1 + qe' ≤ 3652059) :
    ∀ p ∈ Triangle.slices t, ∀ e, aggregateEval p.2 a.evalRes a.evalOrigin = .ok e →
      e = p.2.filter fun c => Spec.C08.onGrid qe' .day a.evalOrigin c.ev := by
  intro p hp e he'
  rw [hev] at he'
  obtain ⟨h1, h2, hsub⟩ := slice_canonical hk hp
  have := spec_evalOk_day h1 h2 he' hste hqe hve he1 he2 (fun c hc => hevs c (hsub c hc))
  unfold Spec.C08.evalOk at this
  exact beq_iff_eq.mp this

/-- **`spec_holds_on_model_day_eval`**: period AND evaluation resolution both in day / week units -/
theorem spec_holds_on_model_day_eval {tr : Transc} {t out : List Cell} {a : AggArgs} {q q' qe qe' : Int}
    {s se : String} (hinc : smIsIncremental t = false) (h : aggregate tr t a = .ok out)
    (hev : a.evalRes = some (qe, se)) (hste : standardizeResolution qe se = .ok (qe', .day))
    (hqe : 1 ≤ qe') (hve : a.evalOrigin.valid = true) (he1 : 1 ≤ a.evalOrigin.ordinal)
    (he2 : a.evalOrigin.ordinal + qe' ≤ 3652059) (hk : kindsConsistent t = true)
    (hevs : ∀ c ∈ t, c.ev.valid = true ∧ qe' < c.ev.ordinal ∧ c.ev.ordinal + 1 + qe' ≤ 3652059)
    (hp : a.periodRes = some (q, s)) (hst : standardizeResolution q s = .ok (q', .day)) (hq : 1 ≤ q')
    (hvo : a.periodOrigin.valid = true) (ho1 : 1 ≤ a.periodOrigin.ordinal)
    (ho2 : a.periodOrigin.ordinal + q' ≤ 3652059)
    (hcells : ∀ c ∈ t, (c.ps.valid = true ∧ ¬ (c.pe < c.ps)) ∧ q' < c.ps.ordinal ∧
      c.ps.ordinal + q' ≤ 3652059) :
    Spec.C08.holds q' .day a.periodOrigin
      (if a.prem then Spec.C09.additiveFields else Spec.C09.lossFields)
      (t.filter fun c => Spec.C08.onGrid qe' .day a.evalOrigin c.ev) out = true := by
  rw [aggregate_cumulative tr t a hinc] at h
  exact holds_of_parts h hp _ (evalStage_day hev hste hqe hve he1 he2 hk hevs)
    (fun S r hsub hr => sliceFacts_day hr hst hq hvo ho1 ho2 (fun c hc => hcells c (hsub c hc)))
    (windowsOk_day_cum h hp hst hq hvo ho1 ho2 (fun c hc =>
      ⟨(hcells c hc).1.1, (hcells c hc).2.1, (hcells c hc).2.2⟩))

/-- **`spec_holds_on_model_month_evalday`**: period resolution in month units, evaluation resolution in days / weeks -/
theorem spec_holds_on_model_month_evalday {tr : Transc} {t out : List Cell} {a : AggArgs} {q q' qe qe' : Int}
    {s se : String} (hinc : smIsIncremental t = false) (h : aggregate tr t a = .ok out)
    (hev : a.evalRes = some (qe, se)) (hste : standardizeResolution qe se = .ok (qe', .day))
    (hqe : 1 ≤ qe') (hve : a.evalOrigin.valid = true) (he1 : 1 ≤ a.evalOrigin.ordinal)
    (he2 : a.evalOrigin.ordinal + qe' ≤ 3652059) (hk : kindsConsistent t = true)
    (hevs : ∀ c ∈ t, c.ev.valid = true ∧ qe' < c.ev.ordinal ∧ c.ev.ordinal + 1 + qe' ≤ 3652059)
    (hp : a.periodRes = some (q, s)) (hst : standardizeResolution q s = .ok (q', .month)) (hq : 1 ≤ q')
    (hv : a.periodOrigin.valid = true) (he : a.periodOrigin.isMonthEnd = true)
    (hcells : ∀ c ∈ t, c.ps.valid = true ∧ ¬ (c.pe < c.ps)) :
    Spec.C08.holds q' .month a.periodOrigin
      (if a.prem then Spec.C09.additiveFields else Spec.C09.lossFields)
      (t.filter fun c => Spec.C08.onGrid qe' .day a.evalOrigin c.ev) out = true := by
  rw [aggregate_cumulative tr t a hinc] at h
  exact holds_of_parts h hp _ (evalStage_day hev hste hqe hve he1 he2 hk hevs)
    (fun S r hsub hr => sliceFacts_month hr hst hq hv he (fun c hc => hcells c (hsub c hc)))
    (windowsOk_month_cum h hp hst hv he)

/-- **`spec_holds_on_model_day_evalmonth`**: period resolution in days / weeks, evaluation resolution in month units -/
theorem spec_holds_on_model_day_evalmonth {tr : Transc} {t out : List Cell} {a : AggArgs} {q q' qe qe' : Int}
    {s se : String} (hinc : smIsIncremental t = false) (h : aggregate tr t a = .ok out)
    (hev : a.evalRes = some (qe, se)) (hste : standardizeResolution qe se = .ok (qe', .month))
    (hqe : 1 ≤ qe') (hve : a.evalOrigin.valid = true) (hee : a.evalOrigin.isMonthEnd = true)
    (hk : kindsConsistent t = true) (hevs : ∀ c ∈ t, c.ev.valid = true)
    (hp : a.periodRes = some (q, s)) (hst : standardizeResolution q s = .ok (q', .day)) (hq : 1 ≤ q')
    (hvo : a.periodOrigin.valid = true) (ho1 : 1 ≤ a.periodOrigin.ordinal)
    (ho2 : a.periodOrigin.ordinal + q' ≤ 3652059)
    (hcells : ∀ c ∈ t, (c.ps.valid = true ∧ ¬ (c.pe < c.ps)) ∧ q' < c.ps.ordinal ∧
      c.ps.ordinal + q' ≤ 3652059) :
    Spec.C08.holds q' .day a.periodOrigin
      (if a.prem then Spec.C09.additiveFields else Spec.C09.lossFields)
      (t.filter fun c => Spec.C08.onGrid qe' .month a.evalOrigin c.ev) out = true := by
  rw [aggregate_cumulative tr t a hinc] at h
  exact holds_of_parts h hp _ (evalStage_month hev hste hqe hve hee hk hevs)
    (fun S r hsub hr => sliceFacts_day hr hst hq hvo ho1 ho2 (fun c hc => hcells c (hsub c hc)))
    (windowsOk_day_cum h hp hst hq hvo ho1 ho2 (fun c hc =>
      ⟨(hcells c hc).1.1, (hcells c hc).2.1, (hcells c hc).2.2⟩))

/-- **`aggPeriod_sums_inside_day`**: the sum clause over exactly the source cells inside the window, day / week
units (the day-unit twin of `aggPeriod_sums_inside_month`) -/
theorem aggPeriod_sums_inside_day {tr : Transc} {t out : List Cell} {q q' : Int} {s : String}
    {origin : Date} {prem : Bool} (h : aggregatePeriod tr t (some (q, s)) origin prem = .ok out)
    (hst : standardizeResolution q s = .ok (q', .day)) (hq : 1 ≤ q') (hvo : origin.valid = true)
    (ho1 : 1 ≤ origin.ordinal) (ho2 : origin.ordinal + q' ≤ 3652059)
    (hcells : ∀ c ∈ t, (c.ps.valid = true ∧ ¬ (c.pe < c.ps)) ∧ q' < c.ps.ordinal ∧
      c.ps.ordinal + q' ≤ 3652059)
    {o : Cell} (ho : o ∈ out) {f : String} {i : Nat}
    (hr : ruleOf [] (lowerKey f) = some ⟨.sum, [f]⟩) (hc : prem = true ∨ f ∉ nonLossMetrics)
    (hin : ∀ c ∈ t, (c.getV f).inRange i = true) :
    (o.getV f).at i = ((t.filter (insideOf o)).map fun c => (c.getV f).at i).sum :=
  ((sliceFacts_day h hst hq hvo ho1 ho2 hcells).sums o ho f i hr hc (fun c hc' _ => hin c hc')).2

/-! ### 6. non-vacuity: three quarters into half-years -/

abbrev exQ : List Cell := aggExQ

/-- **`aggregatePeriod` succeeds** on the three quarters (half-year windows, default origin): the first two
quarters are summed into 2020-01-01 … 2020-06-30 (10 + 5), the third stands alone in the second half-year -/
example : aggregatePeriod Transc.id exQ (some (6, "month")) ⟨1999, 12, 31⟩ true = .ok aggExOut :=
  aggExQ_aggregates

/-- the rule hypothesis of `aggPeriod_cell_spec` / `aggPeriod_conserves` holds for `paid_loss` in the regenerated
table … -/
example : ruleOf [] (lowerKey "paid_loss") = some ⟨.sum, ["paid_loss"]⟩ := by decide +kernel

/-- … so every hypothesis of `aggPeriod_conserves` has a kernel-checked inhabitant -/
example :
    ((aggExOut.filter fun o => o.ev == ⟨2020, 12, 31⟩).map fun o => (o.getV "paid_loss").at 0).sum =
      ((exQ.filter fun c => c.ev == ⟨2020, 12, 31⟩).map fun c => (c.getV "paid_loss").at 0).sum :=
  aggPeriod_conserves (f := "paid_loss") (i := 0) aggExQ_aggregates (by decide +kernel) (Or.inl rfl)
    (by decide +kernel) ⟨2020, 12, 31⟩

/-- **`aggregate` succeeds** on the three quarters and every hypothesis of `spec_holds_on_model_month` is met:
the five Spec clauses hold on `(exQ, aggExOut)` as a consequence of the theorem (not by evaluation) -/
example : Spec.C08.holds 6 .month ⟨1999, 12, 31⟩ Spec.C09.additiveFields exQ aggExOut = true :=
  spec_holds_on_model_month (a := aggExArgs) (by decide +kernel) aggExQ_aggregate rfl rfl (by decide +kernel)
    (by decide) (by decide +kernel) (by decide +kernel) (by decide +kernel)

/-- **`aggregateEval` succeeds**: yearly evaluation grid from the default origin keeps the year-end diagonal -/
example : aggregateEval exQ (some (1, "year")) ⟨1999, 12, 31⟩ = .ok exQ := aggExQ_evalAgg

/-- the anchor walk from the default origin reaches the month end before the data (40 half-year steps) -/
example : anchorBefore 6 .month ⟨1999, 12, 31⟩ ⟨2020, 1, 1⟩ = some ⟨2019, 12, 31⟩ := by decide +kernel

/-- the window walk succeeds and puts the first two quarters into one window -/
example :
    (match assignWindows 6 .month ⟨2019, 12, 31⟩ exQ with
     | .ok rel => decide (rel.map key3 =
         [(⟨2020, 1, 1⟩, ⟨2020, 6, 30⟩, ⟨2020, 12, 31⟩), (⟨2020, 1, 1⟩, ⟨2020, 6, 30⟩, ⟨2020, 12, 31⟩),
          (⟨2020, 7, 1⟩, ⟨2020, 12, 31⟩, ⟨2020, 12, 31⟩)])
     | .error _ => false) = true := by
  decide +kernel

/-- four-month windows cut the second quarter: refused with `TriangleError` -/
example :
    (match assignWindows 4 .month ⟨2019, 12, 31⟩ exQ with
     | .error e => decide (e = .triangleError)
     | .ok _ => false) = true := by
  decide +kernel

end Bermuda.Properties.C08
