/-
C09 — summarize conserves totals and keeps exactly the shared metadata.
Only property theorems live here (helper lemmas: `Lemmas/Summarize.lean`).
-/
import Bermuda.Model.Summarize
import Bermuda.Spec.C09
import Bermuda.Generated.Summarize
import Bermuda.Lemmas.Summarize
import Bermuda.Lemmas.SummarizeSpec
namespace Bermuda.Properties.C09
open Bermuda Bermuda.Spec.C09

/-! ### 1. the rule table of the code (regenerated from /repo on every run) -/

/-- every additive field is bound to the plain sum OF ITSELF (D7 was six rules reading another key) -/
theorem additive_rules_bound :
    ∀ f ∈ ["paid_loss", "reported_loss", "incurred_loss",
           "earned_premium", "used_earned_premium", "written_premium",
           "earned_exposure", "written_exposure",
           "reported_claims", "open_claims", "closed_claims", "closed_with_pay_claims",
           "reported_count", "open_count", "closed_count", "closed_with_pay_count",
           "incurred_loss_developed", "paid_loss_developed", "reported_loss_developed",
           "incurred_loss_prior", "paid_loss_prior", "reported_loss_prior"],
      lowerKey f = f ∧ ruleOf [] f = some ⟨.sum, [f]⟩ := by
  decide +kernel

/-- the list in `additive_rules_bound` is the Spec's `additiveFields` -/
theorem additiveFields_eq :
    additiveFields =
      ["paid_loss", "reported_loss", "incurred_loss",
       "earned_premium", "used_earned_premium", "written_premium",
       "earned_exposure", "written_exposure",
       "reported_claims", "open_claims", "closed_claims", "closed_with_pay_claims",
       "reported_count", "open_count", "closed_count", "closed_with_pay_count",
       "incurred_loss_developed", "paid_loss_developed", "reported_loss_developed",
       "incurred_loss_prior", "paid_loss_prior", "reported_loss_prior"] := rfl

/-- ratio fields carry the documented weights; `log_industry_lr` is the exp/log variant weighted by
`earned_premium` (only the key binding is provable: exp/log are outside the model) -/
theorem ratio_rules_bound :
    ruleOf [] "implied_atu" = some ⟨.wavg, ["implied_atu", "reported_loss"]⟩ ∧
    ruleOf [] "bf_weight" = some ⟨.wavg, ["bf_weight", "reported_loss"]⟩ ∧
    ruleOf [] "geometric_weight" = some ⟨.wavg, ["geometric_weight", "reported_loss"]⟩ ∧
    ruleOf [] "log_industry_lr" = some ⟨.wavglog, ["log_industry_lr", "earned_premium"]⟩ := by
  decide +kernel

/-- the table has no entry beyond the 22 additive and the 4 ratio fields, and the extraction succeeded -/
theorem rules_complete :
    Generated.Summarize.ok = true ∧
    ∀ e ∈ Generated.Summarize.summarizeRules,
      e.1 ∈ additiveFields ∨ e.1 ∈ ratioFields ∨ e.1 = "log_industry_lr" := by
  decide +kernel

/-- NON_LOSS_METRICS: the five premium/exposure fields and the three reported_loss-weighted ratios -/
theorem non_loss_metrics_bound :
    (∀ f ∈ Generated.Summarize.nonLossMetrics, f ∈ premiumFields ∨ f ∈ ratioFields) ∧
    (∀ f ∈ premiumFields ++ ratioFields, f ∈ Generated.Summarize.nonLossMetrics) := by
  decide +kernel

/-! ### 2. sums: cell level, triangle level, conservation -/

/-- `f` is summed: with `summarize_premium = True`, on incremental triangles (the flag is not passed on),
or for every field outside NON_LOSS_METRICS -/
def Summed (prem incr : Bool) (f : String) : Prop :=
  prem = true ∨ incr = true ∨ f ∉ Generated.Summarize.nonLossMetrics

theorem summed_flag {prem incr : Bool} {f : String} (h : Summed prem incr f) :
    (if incr then true else prem) = true ∨ f ∉ Generated.Summarize.nonLossMetrics := by
  rcases h with h | h | h
  · subst h; cases incr <;> simp
  · subst h; simp
  · exact Or.inr h

/-- **`summarize_cell_spec`.** One output cell per distinct coordinate (the output coordinates are a
permutation of the distinct input coordinates, so none is missing and none repeated); every output cell
carries the gcd metadata and the class of the triangle; and every field whose rule is the sum of itself equals,
sample by sample, the sum of that field over ALL input cells at the output cell's coordinate (cells without
the field count 0). -/
theorem summarize_cell_spec {tr : Transc} {extra : List RuleEntry} {t out : List Cell} {prem : Bool}
    (h : summarize tr extra t prem = .ok out) :
    (out.map (coordKey (smIsIncremental t))).Perm (smDedup (t.map (coordKey (smIsIncremental t)))) ∧
    ∀ o ∈ out,
      metadataGcd t = .ok o.md ∧
      o.kind = (if smIsIncremental t then CellKind.incremental else CellKind.cumulative) ∧
      ∀ (f : String) (i : Nat),
        ruleOf extra (lowerKey f) = some ⟨.sum, [f]⟩ → Summed prem (smIsIncremental t) f →
        (∀ c ∈ groupOf (smIsIncremental t) t o, (c.getV f).inRange i = true) →
        (o.getV f).at i = sumAt (groupOf (smIsIncremental t) t o) f i ∧ (o.getV f).inRange i = true := by
  obtain ⟨md, cells, hmd, hcells, hperm⟩ := summarize_decompose h
  have hkeys : cells.map (coordKey (smIsIncremental t)) =
      (groupsOf (coordKey (smIsIncremental t)) t).map (·.1) :=
    smMapE_map _ _ hcells (fun g hg o ho => summaryCell_coordKey hg ho)
  refine ⟨?_, ?_⟩
  · have := hperm.map (coordKey (smIsIncremental t))
    rw [hkeys] at this
    simpa [groupsOf, List.map_map, Function.comp_def] using this
  · intro o ho
    obtain ⟨g, hg, hgo⟩ := smMapE_mem hcells (hperm.mem_iff.mp ho)
    have hk := summaryCell_coordKey hg hgo
    obtain ⟨vals, hvals, ho'⟩ := summaryCell_ok hgo
    have hg2 : g.2 = groupOf (smIsIncremental t) t o := by
      unfold groupsOf at hg
      obtain ⟨k, _, rfl⟩ := List.mem_map.mp hg
      simp only at hk
      simp only [groupOf, hk]
    refine ⟨by rw [hmd, ho'], by rw [ho'], ?_⟩
    intro f i hr hs hin
    have := summarizeCellValues_sum_at' (i := i) hvals (summed_flag hs) hr (by rw [hg2]; exact hin)
    rw [hg2] at this
    have hget : o.getV f = (Dict.get? vals f).getD .none := by rw [ho']; rfl
    rw [hget]
    exact this

/-- **`summarize_conserves`.** Every summed field total is conserved, sample by sample. -/
theorem summarize_conserves {tr : Transc} {extra : List RuleEntry} {t out : List Cell} {prem : Bool}
    {f : String} {i : Nat}
    (h : summarize tr extra t prem = .ok out)
    (hr : ruleOf extra (lowerKey f) = some ⟨.sum, [f]⟩) (hs : Summed prem (smIsIncremental t) f)
    (hin : ∀ c ∈ t, (c.getV f).inRange i = true) :
    sumAt out f i = sumAt t f i ∧ ∀ o ∈ out, (o.getV f).inRange i = true := by
  obtain ⟨md, cells, hmd, hcells, hperm⟩ := summarize_decompose h
  have hcell : ∀ g ∈ groupsOf (coordKey (smIsIncremental t)) t, ∀ o,
      summaryCell tr extra (smIsIncremental t) prem md g = .ok o →
      (o.getV f).at i = (g.2.map fun c => (c.getV f).at i).sum ∧ (o.getV f).inRange i = true := by
    intro g hg o hgo
    obtain ⟨vals, hvals, ho'⟩ := summaryCell_ok hgo
    have hsub : ∀ c ∈ g.2, c ∈ t := by
      unfold groupsOf at hg
      obtain ⟨k, _, rfl⟩ := List.mem_map.mp hg
      intro c hc; exact (List.mem_filter.mp hc).1
    have := summarizeCellValues_sum_at' (i := i) hvals (summed_flag hs) hr
      (fun c hc => hin c (hsub c hc))
    have hget : o.getV f = (Dict.get? vals f).getD .none := by rw [ho']; rfl
    rw [hget]; exact this
  refine ⟨?_, ?_⟩
  · unfold sumAt
    rw [sum_perm (hperm.map _),
      smMapE_sum (fun o => (o.getV f).at i) (fun g => (g.2.map fun c => (c.getV f).at i).sum) hcells
        (fun g hg o ho => (hcell g hg o ho).1)]
    unfold groupsOf
    rw [List.map_map]
    exact sum_groups (coordKey (smIsIncremental t)) (fun c => (c.getV f).at i) _ t (nodup_smDedup _)
      (fun a ha => mem_smDedup.mpr (List.mem_map.mpr ⟨a, ha, rfl⟩))
  · intro o ho
    obtain ⟨g, hg, hgo⟩ := smMapE_mem hcells (hperm.mem_iff.mp ho)
    exact (hcell g hg o hgo).2

/-- the two theorems above for the DEFAULT table and the 22 additive fields of the property -/
theorem summarize_conserves_additive {tr : Transc} {t out : List Cell} {prem : Bool} {f : String}
    {i : Nat} (h : summarize tr [] t prem = .ok out) (hf : f ∈ additiveFields)
    (hs : Summed prem (smIsIncremental t) f) (hin : ∀ c ∈ t, (c.getV f).inRange i = true) :
    sumAt out f i = sumAt t f i := by
  have hb := additive_rules_bound f (by rw [← additiveFields_eq]; exact hf)
  exact (summarize_conserves h (by rw [hb.1]; exact hb.2) hs hin).1

/-! ### 3. `summarize_premium = False` -/

/-- **`no_premium_sum`.** On a cumulative triangle with `summarize_premium = False` loss fields are still the
sums over all cells of the coordinate (this is `summarize_cell_spec` with `Summed` holding by the third
alternative), while a premium/exposure field present in the group takes the value of the FIRST cell of the
group (`None` if that cell lacks it) — it is not multiplied by the number of loss layers. -/
theorem no_premium_sum {tr : Transc} {extra : List RuleEntry} {t out : List Cell}
    (h : summarize tr extra t false = .ok out) (hinc : smIsIncremental t = false) :
    ∀ o ∈ out, ∃ c0 rest, groupOf false t o = c0 :: rest ∧
      ∀ f ∈ Generated.Summarize.nonLossMetrics, (∃ c ∈ groupOf false t o, f ∈ c.values.keys) →
        Dict.get? o.values f = some (c0.getV f) := by
  obtain ⟨md, cells, hmd, hcells, hperm⟩ := summarize_decompose h
  rw [hinc] at hcells
  intro o ho
  obtain ⟨g, hg, hgo⟩ := smMapE_mem hcells (hperm.mem_iff.mp ho)
  have hk : coordKey false o = g.1 := by
    have := summaryCell_coordKey (t := t) (tr := tr) (extra := extra) (prem := false) (md := md)
      (g := g) (o := o) (by rw [hinc]; exact hg) (by rw [hinc]; exact hgo)
    rw [hinc] at this; exact this
  obtain ⟨vals, hvals, ho'⟩ := summaryCell_ok hgo
  have hg2 : g.2 = groupOf false t o := by
    unfold groupsOf at hg
    obtain ⟨k, _, rfl⟩ := List.mem_map.mp hg
    simp only at hk
    simp only [groupOf, hk]
  have hne : g.2 ≠ [] := by
    unfold groupsOf at hg
    obtain ⟨k, hk', rfl⟩ := List.mem_map.mp hg
    obtain ⟨c, hc, rfl⟩ := List.mem_map.mp (mem_smDedup.mp hk')
    intro he
    have : c ∈ t.filter (fun a => coordKey false a == coordKey false c) :=
      List.mem_filter.mpr ⟨hc, by simp⟩
    simp only at he
    rw [he] at this; simp at this
  rw [← hg2]
  cases hgc : g.2 with
  | nil => exact absurd hgc hne
  | cons c0 rest =>
    refine ⟨c0, rest, rfl, ?_⟩
    intro f hf hex
    simp only [Bool.false_eq_true, if_false] at hvals
    rw [hgc] at hvals
    have := summarizeCellValues_noprem_first hvals hf (mem_valueKeys.mpr hex)
    rw [ho']; exact this

/-! ### 4. the metadata of the result: exactly what every cell shares -/

/-- **`gcd_keeps_exactly_shared`.** Risk basis and currency are those of every cell; each of the four optional
attributes is kept iff every cell has that same value; a detail (loss-detail) entry is kept iff every cell has the
key with that same value and the value is not `None`. -/
theorem gcd_keeps_exactly_shared {t : List Cell} {m : Metadata} (h : metadataGcd t = .ok m)
    (hn : ∀ c ∈ t, c.md.details.keys.Nodup ∧ c.md.lossDetails.keys.Nodup) :
    (∀ c ∈ t, c.md.riskBasis = m.riskBasis ∧ c.md.currency = m.currency) ∧
    (∀ x, m.country = some x ↔ ∀ c ∈ t, c.md.country = some x) ∧
    (∀ x, m.limit = some x ↔ ∀ c ∈ t, c.md.limit = some x) ∧
    (∀ x, m.lossDefinition = some x ↔ ∀ c ∈ t, c.md.lossDefinition = some x) ∧
    (∀ x, m.reinsuranceBasis = some x ↔ ∀ c ∈ t, c.md.reinsuranceBasis = some x) ∧
    (∀ k v, Dict.get? m.details k = some v ↔ v ≠ .none ∧ ∀ c ∈ t, Dict.get? c.md.details k = some v) ∧
    (∀ k v, Dict.get? m.lossDetails k = some v ↔
      v ≠ .none ∧ ∀ c ∈ t, Dict.get? c.md.lossDetails k = some v) := by
  unfold metadataGcd at h
  split at h
  · cases h
  · rename_i hrb
    split at h
    · cases h
    · rename_i hcu
      cases t with
      | nil => cases h
      | cons c0 rest =>
        simp only at h
        cases h
        have hrb' := (allSame_map_iff c0 rest (fun c : Cell => c.md.riskBasis)).mp (by simpa using hrb)
        have hcu' := (allSame_map_iff c0 rest (fun c : Cell => c.md.currency)).mp (by simpa using hcu)
        refine ⟨fun c hc => ⟨hrb' c hc, hcu' c hc⟩, attrGcd_eq_some_iff c0 rest _, attrGcd_eq_some_iff c0 rest _,
          attrGcd_eq_some_iff c0 rest _, attrGcd_eq_some_iff c0 rest _, ?_, ?_⟩
        · intro k v
          have := detailsGcd_get? c0.md.details (rest.map (·.md.details)) k v (hn c0 (by simp)).1
          simpa [List.mem_map] using this
        · intro k v
          have := detailsGcd_get? c0.md.lossDetails (rest.map (·.md.lossDetails)) k v (hn c0 (by simp)).2
          simpa [List.mem_map] using this

/-! ### 5. refusals -/

theorem summarize_error_mixed_risk_basis {tr : Transc} {extra : List RuleEntry} {t : List Cell}
    {prem : Bool} (h : ∃ a ∈ t, ∃ b ∈ t, a.md.riskBasis ≠ b.md.riskBasis) :
    summarize tr extra t prem = .error .triangleError := by
  obtain ⟨a, ha, b, hb, hne⟩ := h
  have := allSame_false_of_ne (f := fun c : Cell => c.md.riskBasis) ha hb hne
  simp [summarize, metadataGcd, this]

theorem summarize_error_mixed_currency {tr : Transc} {extra : List RuleEntry} {t : List Cell}
    {prem : Bool} (h : ∃ a ∈ t, ∃ b ∈ t, a.md.currency ≠ b.md.currency) :
    summarize tr extra t prem = .error .triangleError := by
  obtain ⟨a, ha, b, hb, hne⟩ := h
  have := allSame_false_of_ne (f := fun c : Cell => c.md.currency) ha hb hne
  unfold summarize metadataGcd
  split <;> simp_all

/-- a field without an aggregation rule is refused by `summarize_cell_values` with `TriangleError`, before any
rule runs -/
theorem summarize_cell_values_error_unknown_field {tr : Transc} {extra : List RuleEntry}
    {cells : List Cell} {prem : Bool}
    (h : ∃ c ∈ cells, ∃ k ∈ c.values.keys, ruleOf extra (lowerKey k) = none) :
    summarizeCellValues tr extra cells prem = .error .triangleError :=
  summarizeCellValues_unknown h

/-- **`summarize_error_unknown_field`.** A triangle holding a field without an aggregation rule is never
summarized. (The class is `TriangleError` unless an EARLIER coordinate group already failed with another
class — groups are processed in order; see `summarize_error_unknown_field_class`.) -/
theorem summarize_error_unknown_field {tr : Transc} {extra : List RuleEntry} {t : List Cell}
    {prem : Bool} (h : ∃ c ∈ t, ∃ k ∈ c.values.keys, ruleOf extra (lowerKey k) = none) :
    ∃ e, summarize tr extra t prem = .error e := by
  cases hs : summarize tr extra t prem with
  | error e => exact ⟨e, rfl⟩
  | ok out =>
    exfalso
    obtain ⟨md, cells, hmd, hcells, hperm⟩ := summarize_decompose hs
    obtain ⟨c, hc, k, hk, hr⟩ := h
    -- the group of `c`
    have hg : (coordKey (smIsIncremental t) c,
        t.filter fun a => coordKey (smIsIncremental t) a == coordKey (smIsIncremental t) c) ∈
        groupsOf (coordKey (smIsIncremental t)) t := by
      unfold groupsOf
      exact List.mem_map.mpr ⟨_, mem_smDedup.mpr (List.mem_map.mpr ⟨c, hc, rfl⟩), rfl⟩
    obtain ⟨o, _, ho⟩ := smMapE_mem' hcells hg
    obtain ⟨vals, hvals, _⟩ := summaryCell_ok ho
    have := summarizeCellValues_unknown (tr := tr) (extra := extra)
      (prem := if smIsIncremental t then true else prem)
      (cells := t.filter fun a => coordKey (smIsIncremental t) a == coordKey (smIsIncremental t) c)
      ⟨c, List.mem_filter.mpr ⟨hc, by simp⟩, k, hk, hr⟩
    rw [this] at hvals
    cases hvals

/-- when the metadata are consistent and the unknown field sits at the coordinate of the first cell (the first
group processed), the class is `TriangleError` -/
theorem summarize_error_unknown_field_class {tr : Transc} {extra : List RuleEntry} {c0 : Cell}
    {rest : List Cell} {prem : Bool} {md : Metadata} (hmd : metadataGcd (c0 :: rest) = .ok md)
    (h : ∃ c ∈ c0 :: rest,
      coordKey (smIsIncremental (c0 :: rest)) c = coordKey (smIsIncremental (c0 :: rest)) c0 ∧
      ∃ k ∈ c.values.keys, ruleOf extra (lowerKey k) = none) :
    summarize tr extra (c0 :: rest) prem = .error .triangleError := by
  obtain ⟨c, hc, hkey, k, hk, hr⟩ := h
  unfold summarize
  rw [hmd]
  simp only
  rw [groupBy_eq_groupsOf]
  have hgs : ∃ tl, groupsOf (coordKey (smIsIncremental (c0 :: rest))) (c0 :: rest) =
      (coordKey (smIsIncremental (c0 :: rest)) c0,
        (c0 :: rest).filter fun a =>
          coordKey (smIsIncremental (c0 :: rest)) a == coordKey (smIsIncremental (c0 :: rest)) c0) :: tl := by
    unfold groupsOf
    simp [smDedup, smDedupAux]
  obtain ⟨tl, htl⟩ := hgs
  rw [htl]
  have : summaryCell tr extra (smIsIncremental (c0 :: rest)) prem md
      (coordKey (smIsIncremental (c0 :: rest)) c0,
        (c0 :: rest).filter fun a =>
          coordKey (smIsIncremental (c0 :: rest)) a == coordKey (smIsIncremental (c0 :: rest)) c0)
      = .error .triangleError := by
    unfold summaryCell
    rw [summarizeCellValues_unknown ⟨c, List.mem_filter.mpr ⟨hc, by simp [hkey]⟩, k, hk, hr⟩]
  simp only [smMapE, this]

/-! ### 6. the executable Spec predicates hold on the model's output (bridge) -/


/-- `Spec.conserves` is true on the model's output for the additive fields that are summed -/
theorem spec_conserves {tr : Transc} {t out : List Cell} {prem : Bool} {fields : List String}
    (h : summarize tr [] t prem = .ok out)
    (hf : ∀ f ∈ fields, f ∈ additiveFields ∧ Summed prem (smIsIncremental t) f) :
    conserves fields t out = true := by
  simp only [conserves, List.all_eq_true]
  intro f hf' i _
  cases hin : allInRange t f i with
  | false => simp
  | true =>
    have hb := additive_rules_bound f (by rw [← additiveFields_eq]; exact (hf f hf').1)
    have := summarize_conserves (i := i) h (by rw [hb.1]; exact hb.2) (hf f hf').2
      (by simpa [allInRange, List.all_eq_true] using hin)
    simp only [Bool.not_true, Bool.false_or, Bool.and_eq_true, beq_iff_eq]
    exact ⟨by simpa [allInRange, List.all_eq_true] using this.2, this.1⟩

/-- `Spec.cellSums` is true on the model's output -/
theorem spec_cellSums {tr : Transc} {t out : List Cell} {prem : Bool} {fields : List String}
    (h : summarize tr [] t prem = .ok out)
    (hf : ∀ f ∈ fields, f ∈ additiveFields ∧ Summed prem (smIsIncremental t) f) :
    cellSums fields t out = true := by
  simp only [cellSums, List.all_eq_true]
  intro o ho f hf' i _
  cases hin : allInRange (groupOf (smIsIncremental t) t o) f i with
  | false => simp
  | true =>
    have hb := additive_rules_bound f (by rw [← additiveFields_eq]; exact (hf f hf').1)
    have := ((summarize_cell_spec h).2 o ho).2.2 f i (by rw [hb.1]; exact hb.2) (hf f hf').2
      (by simpa [allInRange, List.all_eq_true] using hin)
    simp only [Bool.not_true, Bool.false_or, Bool.and_eq_true, beq_iff_eq]
    exact ⟨this.2, this.1⟩

/-- `Spec.coordsOk` is true on the model's output: one cell per distinct coordinate, of the right class -/
theorem spec_coordsOk {tr : Transc} {extra : List RuleEntry} {t out : List Cell} {prem : Bool}
    (h : summarize tr extra t prem = .ok out) : coordsOk t out = true := by
  obtain ⟨hperm, hcells⟩ := summarize_cell_spec h
  simp only [coordsOk, Bool.and_eq_true, List.all_eq_true]
  refine ⟨⟨⟨?_, ?_⟩, ?_⟩, ?_⟩
  · exact nodupB_of_nodup (hperm.nodup_iff.mpr (nodup_smDedup _))
  · intro k hk
    simpa using hperm.mem_iff.mpr (mem_smDedup.mpr hk)
  · intro k hk
    simpa using mem_smDedup.mp (hperm.mem_iff.mp hk)
  · intro o ho
    simpa using (hcells o ho).2.1


/-- `Spec.nonLossOk` is true on the model's output (cumulative triangle, `summarize_premium = False`) -/
theorem spec_nonLossOk {tr : Transc} {extra : List RuleEntry} {t out : List Cell}
    (h : summarize tr extra t false = .ok out) (hinc : smIsIncremental t = false) :
    nonLossOk Generated.Summarize.nonLossMetrics t out = true := by
  simp only [nonLossOk, List.all_eq_true, hinc]
  intro o ho f hf
  obtain ⟨c0, rest, hg, hfirst⟩ := no_premium_sum h hinc o ho
  cases hany : (groupOf false t o).any (fun c => c.values.contains f) with
  | false => simp
  | true =>
    obtain ⟨c, hc, hcf⟩ := List.any_eq_true.mp hany
    have := hfirst f hf ⟨c, hc, (Dict.contains_iff _ _).mp hcf⟩
    simp only [Bool.not_true, Bool.false_or]
    rw [this]
    simp only [List.any_eq_true, beq_iff_eq]
    exact ⟨c0, by rw [hg]; simp, rfl⟩


/-! ### 7. ratio fields -/

/-- **`summarize_ratio_spec`.** With the rules summed (`summarize_premium = True` or an incremental triangle) a
field whose rule is the `w`-weighted average of itself — by `ratio_rules_bound`: `implied_atu`, `bf_weight`,
`geometric_weight` with `w = reported_loss` — satisfies, in the output cell `o` and sample by sample,
`o[f] × Σ w = Σ value × w` over the input cells at `o`'s coordinate, the denominator being the (non-zero) sum of
the weights of ALL those cells. (`log_industry_lr`: the same shape around `np.exp`/`np.log`, which are outside the
model; its value is compared in Python with a tolerance.) -/
theorem summarize_ratio_spec {tr : Transc} {extra : List RuleEntry} {t out : List Cell} {prem : Bool}
    {f w : String} {i : Nat}
    (h : summarize tr extra t prem = .ok out) (hp : prem = true ∨ smIsIncremental t = true)
    (hr : ruleOf extra (lowerKey f) = some ⟨.wavg, [f, w]⟩) :
    ∀ o ∈ out, (∃ c ∈ groupOf (smIsIncremental t) t o, f ∈ c.values.keys) →
      (∀ c ∈ groupOf (smIsIncremental t) t o,
        (c.getV f).inRange i = true ∧ (c.getV w).inRange i = true) →
      (o.getV f).at i * sumAt (groupOf (smIsIncremental t) t o) w i =
        ((groupOf (smIsIncremental t) t o).map fun c => (c.getV f).at i * (c.getV w).at i).sum ∧
      sumAt (groupOf (smIsIncremental t) t o) w i ≠ 0 := by
  obtain ⟨md, cells, hmd, hcells, hperm⟩ := summarize_decompose h
  intro o ho hex hin
  obtain ⟨g, hg, hgo⟩ := smMapE_mem hcells (hperm.mem_iff.mp ho)
  have hk := summaryCell_coordKey hg hgo
  obtain ⟨vals, hvals, ho'⟩ := summaryCell_ok hgo
  have hg2 : g.2 = groupOf (smIsIncremental t) t o := by
    unfold groupsOf at hg
    obtain ⟨k, _, rfl⟩ := List.mem_map.mp hg
    simp only at hk
    simp only [groupOf, hk]
  have hflag : (if smIsIncremental t then true else prem) = true := by
    rcases hp with hp | hp
    · subst hp; cases smIsIncremental t <;> rfl
    · rw [hp]; rfl
  rw [hflag, hg2] at hvals
  obtain ⟨v, hd, h1, h2⟩ := summarizeCellValues_wavg_at (i := i) hvals hr (mem_valueKeys.mpr hex) hin
  have hget : o.getV f = v := by rw [ho']; simp [Cell.getV, hd]
  rw [hget]
  exact ⟨h1, h2⟩

/-! ### 7b. the remaining Spec bridges -/


/-- `Spec.keysOk` is true on the model's output -/
theorem spec_keysOk {tr : Transc} {extra : List RuleEntry} {t out : List Cell} {prem : Bool}
    (h : summarize tr extra t prem = .ok out) : keysOk t out = true := by
  simp only [keysOk, List.all_eq_true, Bool.and_eq_true]
  intro o ho
  obtain ⟨hvals, _⟩ := summarize_out_cell h ho
  have hperm := summarizeCellValues_keys_perm hvals
  refine ⟨⟨nodupB_of_nodup (hperm.nodup_iff.mpr (nodup_smDedup _)), ?_⟩, ?_⟩
  · intro k hk
    obtain ⟨c, hc, hkc⟩ := mem_valueKeys.mp (hperm.mem_iff.mp hk)
    exact List.any_eq_true.mpr ⟨c, hc, (Dict.contains_iff _ _).mpr hkc⟩
  · intro c hc k hk
    exact (Dict.contains_iff _ _).mpr (hperm.mem_iff.mpr (mem_valueKeys.mpr ⟨c, hc, hk⟩))

/-- `Spec.metaOk` is true on the model's output (details dicts have distinct keys, as Python dicts do) -/
theorem spec_metaOk {tr : Transc} {extra : List RuleEntry} {t out : List Cell} {prem : Bool}
    (h : summarize tr extra t prem = .ok out)
    (hn : ∀ c ∈ t, c.md.details.keys.Nodup ∧ c.md.lossDetails.keys.Nodup) : metaOk t out = true := by
  simp only [metaOk, List.all_eq_true]
  intro o ho
  have hmd := ((summarize_cell_spec h).2 o ho).1
  obtain ⟨h1, h2, h3, h4, h5, h6, h7⟩ := gcd_keeps_exactly_shared hmd hn
  obtain ⟨n1, n2⟩ := metadataGcd_keys_nodup hmd hn
  simp only [mdShared, Bool.and_eq_true, List.all_eq_true, beq_iff_eq]
  refine ⟨⟨⟨⟨⟨⟨fun c hc => h1 c hc, attrShared_of_iff h2⟩, attrShared_of_iff h3⟩, attrShared_of_iff h4⟩,
    attrShared_of_iff h5⟩, ?_⟩, ?_⟩
  · apply detailsShared_of_iff n1
    intro k v; rw [h6]; simp [List.mem_map]
  · apply detailsShared_of_iff n2
    intro k v; rw [h7]; simp [List.mem_map]

/-- the three ratio fields are lower-case and weighted by `reported_loss` (regenerated table) -/
theorem ratio_lower : ∀ f ∈ ratioFields, lowerKey f = f ∧
    ruleOf [] f = some ⟨.wavg, [f, "reported_loss"]⟩ := by decide +kernel

/-- `Spec.ratioOk` is true on the model's output, for every non-negative tolerance -/
theorem spec_ratioOk {tr : Transc} {t out : List Cell} {prem : Bool} {tol : Rat} (h0 : 0 ≤ tol)
    (h : summarize tr [] t prem = .ok out) (hp : prem = true ∨ smIsIncremental t = true) :
    ratioOk tol "reported_loss" ratioFields t out = true := by
  simp only [ratioOk, List.all_eq_true]
  intro o ho f hf
  cases hany : (groupOf (smIsIncremental t) t o).any (fun c => c.values.contains f) with
  | false => simp
  | true =>
    cases hw : (groupOf (smIsIncremental t) t o).all
        (fun c => (c.getV f).isNone || !(c.getV "reported_loss").isNone) with
    | false => simp
    | true =>
      simp only [Bool.not_true, Bool.false_or, List.all_eq_true]
      intro i _
      cases hr : (allInRange (groupOf (smIsIncremental t) t o) f i &&
          allInRange (groupOf (smIsIncremental t) t o) "reported_loss" i && (o.getV f).inRange i) with
      | false => simp
      | true =>
        simp only [Bool.and_eq_true] at hr
        obtain ⟨c, hc, hcf⟩ := List.any_eq_true.mp hany
        have hb := ratio_lower f hf
        have := summarize_ratio_spec (i := i) (f := f) (w := "reported_loss") h hp
          (by rw [hb.1]; exact hb.2) o ho ⟨c, hc, (Dict.contains_iff _ _).mp hcf⟩
          (fun c' hc' => ⟨by simpa [allInRange, List.all_eq_true] using
              (List.all_eq_true.mp hr.1.1) c' hc',
            by simpa [allInRange, List.all_eq_true] using (List.all_eq_true.mp hr.1.2) c' hc'⟩)
        simp only [Bool.not_true, Bool.false_or, Bool.or_eq_true]
        right
        rw [this.1]
        exact closeTo_self h0


/-! ### 8. non-vacuity -/

def exT : List Cell :=
  [ { kind := .cumulative, ps := ⟨2020, 1, 1⟩, pe := ⟨2020, 12, 31⟩, ev := ⟨2020, 12, 31⟩,
      values := [("paid_loss", .int 10), ("earned_premium", .flt 100)],
      md := { country := some "US", details := [("coverage", .str "BI"), ("state", .str "NY")] } },
    { kind := .cumulative, ps := ⟨2020, 1, 1⟩, pe := ⟨2020, 12, 31⟩, ev := ⟨2020, 12, 31⟩,
      values := [("paid_loss", .int 5), ("reported_loss", .int 7)],
      md := { country := some "US", details := [("coverage", .str "PD"), ("state", .str "NY")] } } ]

/-- the theorems are not vacuous: a two-slice triangle (slices differ in a detail, share country and another
detail, hold different field subsets) is summarized to one cell with paid_loss 15, the shared metadata kept -/
example :
    (match summarize Transc.id [] exT true with
     | .ok out => decide (out =
        [ { kind := .cumulative, ps := ⟨2020, 1, 1⟩, pe := ⟨2020, 12, 31⟩, ev := ⟨2020, 12, 31⟩,
            values := [("paid_loss", .int 15), ("earned_premium", .flt 100), ("reported_loss", .int 7)],
            md := { country := some "US", details := [("state", .str "NY")] } } ])
     | .error _ => false) = true := by
  decide +kernel

end Bermuda.Properties.C09
