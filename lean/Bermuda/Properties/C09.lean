/-
C09 — summarize conserves totals and keeps exactly the shared metadata.
Only property theorems live here (helper lemmas: `Lemmas/Summarize.lean`, `Lemmas/SummarizeSpec.lean`,
`Lemmas/SummarizeMore.lean` — the latter also holds the definition `Summed` and the executable helpers
`wCell` / `returns` / `refuses` of the concrete witnesses).
-/
import Bermuda.Model.Summarize
import Bermuda.Spec.C09
import Bermuda.Generated.Summarize
import Bermuda.Lemmas.Summarize
import Bermuda.Lemmas.SummarizeSpec
import Bermuda.Lemmas.SummarizeMore
namespace Bermuda.Properties.C09
open Bermuda Bermuda.Spec.C09

/-! ### 1. the rule table of the code (regenerated from /repo on every run) -/

/-- every additive field is bound to the plain sum OF ITSELF (D7 was six rules reading another key) -/
theorem additive_rules_bound :
    ∀ f ∈ ["paid_loss", "reported_loss", "incurred_loss",
           "earned_premium", "used_earned_premium", "written_premium",
           "earned_exposure", "written_exposure",
           "reported_claims", "open_claims", "closed_claims", "closed_with_pay_claims",
           "reported_count", "open_count", "closed_count", "closed_with_pay_count",
           "incurred_loss_developed", "paid_loss_developed", "reported_loss_developed",
           "incurred_loss_prior", "paid_loss_prior", "reported_loss_prior"],
      lowerKey f = f ∧ ruleOf [] f = some ⟨.sum, [f]⟩ := by
  decide +kernel

/-- the list in `additive_rules_bound` is the Spec's `additiveFields` -/
theorem additiveFields_eq :
    additiveFields =
      ["paid_loss", "reported_loss", "incurred_loss",
       "earned_premium", "used_earned_premium", "written_premium",
       "earned_exposure", "written_exposure",
       "reported_claims", "open_claims", "closed_claims", "closed_with_pay_claims",
       "reported_count", "open_count", "closed_count", "closed_with_pay_count",
       "incurred_loss_developed", "paid_loss_developed", "reported_loss_developed",
       "incurred_loss_prior", "paid_loss_prior", "reported_loss_prior"] := rfl

/-- ratio fields carry the documented weights; `log_industry_lr` is the exp/log variant weighted by
`earned_premium` (key binding here; the SHAPE `log((Σ exp(v)·w)/Σ w)` for arbitrary exp/log is
`summarize_wavglog_spec` / `summarize_log_industry_lr_spec`; the numeric value of exp/log is outside the model) -/
theorem ratio_rules_bound :
    ruleOf [] "implied_atu" = some ⟨.wavg, ["implied_atu", "reported_loss"]⟩ ∧
    ruleOf [] "bf_weight" = some ⟨.wavg, ["bf_weight", "reported_loss"]⟩ ∧
    ruleOf [] "geometric_weight" = some ⟨.wavg, ["geometric_weight", "reported_loss"]⟩ ∧
    ruleOf [] "log_industry_lr" = some ⟨.wavglog, ["log_industry_lr", "earned_premium"]⟩ := by
  decide +kernel

/-- the table has no entry beyond the 22 additive and the 4 ratio fields, and the extraction succeeded -/
theorem rules_complete :
    Generated.Summarize.ok = true ∧
    ∀ e ∈ Generated.Summarize.summarizeRules,
      e.1 ∈ additiveFields ∨ e.1 ∈ ratioFields ∨ e.1 = "log_industry_lr" := by
  decide +kernel

/-- NON_LOSS_METRICS: the five premium/exposure fields and the three reported_loss-weighted ratios -/
theorem non_loss_metrics_bound :
    (∀ f ∈ Generated.Summarize.nonLossMetrics, f ∈ premiumFields ∨ f ∈ ratioFields) ∧
    (∀ f ∈ premiumFields ++ ratioFields, f ∈ Generated.Summarize.nonLossMetrics) := by
  decide +kernel

/-! ### 2. sums: cell level, triangle level, conservation -/

/- `Summed prem incr f` (`prem = true ∨ incr = true ∨ f ∉ NON_LOSS_METRICS`): defined in `Lemmas/SummarizeMore.lean` -/

/-- **`summarize_cell_spec`.** One output cell per distinct coordinate (the output coordinates are a
permutation of the distinct input coordinates, so none is missing and none repeated); every output cell
carries the gcd metadata and the class of the triangle; and every field whose rule is the sum of itself equals,
sample by sample, the sum of that field over ALL input cells at the output cell's coordinate (cells without
the field count 0). -/
theorem summarize_cell_spec {tr : Transc} {extra : List RuleEntry} {t out : List Cell} {prem : Bool}
    (h : summarize tr extra t prem = .ok out) :
    (out.map (coordKey (smIsIncremental t))).Perm (smDedup (t.map (coordKey (smIsIncremental t)))) ∧
    ∀ o ∈ out,
      metadataGcd t = .ok o.md ∧
      o.kind = (if smIsIncremental t then CellKind.incremental else CellKind.cumulative) ∧
      ∀ (f : String) (i : Nat),
        ruleOf extra (lowerKey f) = some ⟨.sum, [f]⟩ → Summed prem (smIsIncremental t) f →
        (∀ c ∈ groupOf (smIsIncremental t) t o, (c.getV f).inRange i = true) →
        (o.getV f).at i = sumAt (groupOf (smIsIncremental t) t o) f i ∧ (o.getV f).inRange i = true := by
  obtain ⟨md, cells, hmd, hcells, hperm⟩ := summarize_decompose h
  have hkeys : cells.map (coordKey (smIsIncremental t)) =
      (groupsOf (coordKey (smIsIncremental t)) t).map (·.1) :=
    smMapE_map _ _ hcells (fun g hg o ho => summaryCell_coordKey hg ho)
  refine ⟨?_, ?_⟩
  · have := hperm.map (coordKey (smIsIncremental t))
    rw [hkeys] at this
    simpa [groupsOf, List.map_map, Function.comp_def] using this
  · intro o ho
    obtain ⟨g, hg, hgo⟩ := smMapE_mem hcells (hperm.mem_iff.mp ho)
    have hk := summaryCell_coordKey hg hgo
    obtain ⟨vals, hvals, ho'⟩ := summaryCell_ok hgo
    have hg2 : g.2 = groupOf (smIsIncremental t) t o := by
      unfold groupsOf at hg
      obtain ⟨k, _, rfl⟩ := List.mem_map.mp hg
      simp only at hk
      simp only [groupOf, hk]
    refine ⟨by rw [hmd, ho'], by rw [ho'], ?_⟩
    intro f i hr hs hin
    have := summarizeCellValues_sum_at' (i := i) hvals (summed_flag hs) hr (by rw [hg2]; exact hin)
    rw [hg2] at this
    have hget : o.getV f = (Dict.get? vals f).getD .none := by rw [ho']; rfl
    rw [hget]
    exact this

/-- **`summarize_conserves`.** Every summed field total is conserved, sample by sample. -/
theorem summarize_conserves {tr : Transc} {extra : List RuleEntry} {t out : List Cell} {prem : Bool}
    {f : String} {i : Nat}
    (h : summarize tr extra t prem = .ok out)
    (hr : ruleOf extra (lowerKey f) = some ⟨.sum, [f]⟩) (hs : Summed prem (smIsIncremental t) f)
    (hin : ∀ c ∈ t, (c.getV f).inRange i = true) :
    sumAt out f i = sumAt t f i ∧ ∀ o ∈ out, (o.getV f).inRange i = true := by
  obtain ⟨md, cells, hmd, hcells, hperm⟩ := summarize_decompose h
  have hcell : ∀ g ∈ groupsOf (coordKey (smIsIncremental t)) t, ∀ o,
      summaryCell tr extra (smIsIncremental t) prem md g = .ok o →
      (o.getV f).at i = (g.2.map fun c => (c.getV f).at i).sum ∧ (o.getV f).inRange i = true := by
    intro g hg o hgo
    obtain ⟨vals, hvals, ho'⟩ := summaryCell_ok hgo
    have hsub : ∀ c ∈ g.2, c ∈ t := by
      unfold groupsOf at hg
      obtain ⟨k, _, rfl⟩ := List.mem_map.mp hg
      intro c hc; exact (List.mem_filter.mp hc).1
    have := summarizeCellValues_sum_at' (i := i) hvals (summed_flag hs) hr
      (fun c hc => hin c (hsub c hc))
    have hget : o.getV f = (Dict.get? vals f).getD .none := by rw [ho']; rfl
    rw [hget]; exact this
  refine ⟨?_, ?_⟩
  · unfold sumAt
    rw [sum_perm (hperm.map _),
      smMapE_sum (fun o => (o.getV f).at i) (fun g => (g.2.map fun c => (c.getV f).at i).sum) hcells
        (fun g hg o ho => (hcell g hg o ho).1)]
    unfold groupsOf
    rw [List.map_map]
    exact sum_groups (coordKey (smIsIncremental t)) (fun c => (c.getV f).at i) _ t (nodup_smDedup _)
      (fun a ha => mem_smDedup.mpr (List.mem_map.mpr ⟨a, ha, rfl⟩))
  · intro o ho
    obtain ⟨g, hg, hgo⟩ := smMapE_mem hcells (hperm.mem_iff.mp ho)
    exact (hcell g hg o hgo).2

/-- the two theorems above for the DEFAULT table and the 22 additive fields of the property -/
theorem summarize_conserves_additive {tr : Transc} {t out : List Cell} {prem : Bool} {f : String}
    {i : Nat} (h : summarize tr [] t prem = .ok out) (hf : f ∈ additiveFields)
    (hs : Summed prem (smIsIncremental t) f) (hin : ∀ c ∈ t, (c.getV f).inRange i = true) :
    sumAt out f i = sumAt t f i := by
  have hb := additive_rules_bound f (by rw [← additiveFields_eq]; exact hf)
  exact (summarize_conserves h (by rw [hb.1]; exact hb.2) hs hin).1

/-- **`summarize_sum_shape`.** Shape and Python kind of a summed field (audit finding 5): index `i` addresses a
sample of the result IFF it addresses a sample of every input value of the group (so the result has no extra
and no missing samples: its length is the common length of the input arrays); the result is integral
(`int` / int64 array) iff every addend is (`None` adds nothing); it is an array iff some addend is one. -/
theorem summarize_sum_shape {tr : Transc} {extra : List RuleEntry} {t out : List Cell} {prem : Bool}
    {f : String} (h : summarize tr extra t prem = .ok out)
    (hr : ruleOf extra (lowerKey f) = some ⟨.sum, [f]⟩) (hs : Summed prem (smIsIncremental t) f) :
    ∀ o ∈ out,
      (∀ i, (o.getV f).inRange i = true ↔ ∀ c ∈ groupOf (smIsIncremental t) t o, (c.getV f).inRange i = true) ∧
      (o.getV f).isIntKind = (groupOf (smIsIncremental t) t o).all (fun c => (c.getV f).isIntKind) ∧
      (o.getV f).isArr = (groupOf (smIsIncremental t) t o).any (fun c => (c.getV f).isArr) := by
  intro o ho
  obtain ⟨hvals, _⟩ := summarize_out_cell h ho
  have := summarizeCellValues_sum_shape hvals (summed_flag hs) hr
  have hget : o.getV f = (Dict.get? o.values f).getD .none := rfl
  rw [hget]
  refine ⟨fun i => ⟨this.1 i, fun hin => ?_⟩, this.2.1, this.2.2⟩
  have := (((summarize_cell_spec h).2 o ho).2.2 f i hr hs hin).2
  rw [hget] at this; exact this

/-! ### 3. `summarize_premium = False` -/

/-- **`no_premium_sum`.** On a cumulative triangle with `summarize_premium = False` loss fields are still the
sums over all cells of the coordinate (this is `summarize_cell_spec` with `Summed` holding by the third
alternative), while a premium/exposure field present in the group takes the value of the FIRST cell of the group
THAT HAS ONE (`firstValue`: the first value that is not `None`; `None` only if no cell of the group holds a value) —
one existing cell's value, not multiplied by the number of loss layers. (Restated for the repair of D28: before, it
was the first cell's entry, `None` when that cell lacked the field.) -/
theorem no_premium_sum {tr : Transc} {extra : List RuleEntry} {t out : List Cell}
    (h : summarize tr extra t false = .ok out) (hinc : smIsIncremental t = false) :
    ∀ o ∈ out, ∃ c0 rest, groupOf false t o = c0 :: rest ∧
      ∀ f ∈ Generated.Summarize.nonLossMetrics, (∃ c ∈ groupOf false t o, f ∈ c.values.keys) →
        Dict.get? o.values f = some (firstValue ((groupOf false t o).map fun c => c.getV f)) := by
  obtain ⟨md, cells, hmd, hcells, hperm⟩ := summarize_decompose h
  rw [hinc] at hcells
  intro o ho
  obtain ⟨g, hg, hgo⟩ := smMapE_mem hcells (hperm.mem_iff.mp ho)
  have hk : coordKey false o = g.1 := by
    have := summaryCell_coordKey (t := t) (tr := tr) (extra := extra) (prem := false) (md := md)
      (g := g) (o := o) (by rw [hinc]; exact hg) (by rw [hinc]; exact hgo)
    rw [hinc] at this; exact this
  obtain ⟨vals, hvals, ho'⟩ := summaryCell_ok hgo
  have hg2 : g.2 = groupOf false t o := by
    unfold groupsOf at hg
    obtain ⟨k, _, rfl⟩ := List.mem_map.mp hg
    simp only at hk
    simp only [groupOf, hk]
  have hne : g.2 ≠ [] := by
    unfold groupsOf at hg
    obtain ⟨k, hk', rfl⟩ := List.mem_map.mp hg
    obtain ⟨c, hc, rfl⟩ := List.mem_map.mp (mem_smDedup.mp hk')
    intro he
    have : c ∈ t.filter (fun a => coordKey false a == coordKey false c) :=
      List.mem_filter.mpr ⟨hc, by simp⟩
    simp only at he
    rw [he] at this; simp at this
  rw [← hg2]
  cases hgc : g.2 with
  | nil => exact absurd hgc hne
  | cons c0 rest =>
    refine ⟨c0, rest, rfl, ?_⟩
    intro f hf hex
    simp only [Bool.false_eq_true, if_false] at hvals
    rw [hgc] at hvals
    have := summarizeCellValues_noprem_first hvals hf (mem_valueKeys.mpr hex)
    rw [ho']; exact this

/-- what `no_premium_sum`'s value is, without `firstValue`: EITHER it is not `None` and some cell of the group HOLDS it
(`values[f] = v`), OR it is `None` and every cell of the group has `None` or nothing there -/
theorem no_premium_value_existing {tr : Transc} {extra : List RuleEntry} {t out : List Cell}
    (h : summarize tr extra t false = .ok out) (hinc : smIsIncremental t = false) :
    ∀ o ∈ out, ∀ f ∈ Generated.Summarize.nonLossMetrics, (∃ c ∈ groupOf false t o, f ∈ c.values.keys) →
      ∃ v, Dict.get? o.values f = some v ∧
        ((v ≠ .none ∧ ∃ c ∈ groupOf false t o, Dict.get? c.values f = some v) ∨
         (v = .none ∧ ∀ c ∈ groupOf false t o, c.getV f = .none)) := by
  intro o ho f hf hex
  obtain ⟨c0, rest, _, hval⟩ := no_premium_sum h hinc o ho
  refine ⟨_, hval f hf hex, ?_⟩
  rcases firstValue_spec ((groupOf false t o).map fun c => c.getV f) with ⟨h1, h2⟩ | ⟨h1, h2⟩
  · right
    exact ⟨h1, fun c hc => h2 _ (List.mem_map.mpr ⟨c, hc, rfl⟩)⟩
  · left
    refine ⟨h1, ?_⟩
    obtain ⟨c, hc, hcv⟩ := List.mem_map.mp h2
    refine ⟨c, hc, ?_⟩
    rw [← hcv] at h1 ⊢
    cases hget : Dict.get? c.values f with
    | none => exact absurd (by simp [Cell.getV, hget]) h1
    | some x => simp [Cell.getV, hget]

/-- **`no_premium_first_cell_lacks_field`** (the input of D28, now repaired). When the FIRST cell of a coordinate lacks a
premium/exposure field and another cell of the coordinate holds a value for it, the output holds A VALUE (not `None`)
that some cell of the group holds — the premium is no longer lost -/
theorem no_premium_first_cell_lacks_field {tr : Transc} {extra : List RuleEntry} {t out : List Cell}
    (h : summarize tr extra t false = .ok out) (hinc : smIsIncremental t = false) :
    ∀ o ∈ out, ∀ f ∈ Generated.Summarize.nonLossMetrics,
      (∃ c ∈ groupOf false t o, ∃ x, Dict.get? c.values f = some x ∧ x ≠ .none) →
        ∃ v, Dict.get? o.values f = some v ∧ v ≠ .none ∧ ∃ c ∈ groupOf false t o, Dict.get? c.values f = some v := by
  intro o ho f hf ⟨c, hc, x, hx, hxn⟩
  have hk : f ∈ c.values.keys := Classical.byContradiction fun hk => by
    rw [Dict.get?_eq_none_of_not_mem_keys hk] at hx
    cases hx
  have hex : ∃ c ∈ groupOf false t o, f ∈ c.values.keys := ⟨c, hc, hk⟩
  obtain ⟨v, hv, hcase⟩ := no_premium_value_existing h hinc o ho f hf hex
  rcases hcase with ⟨hn, hheld⟩ | ⟨hn, hall⟩
  · exact ⟨v, hv, hn, hheld⟩
  · have := hall c hc
    simp [Cell.getV, hx] at this
    exact absurd this hxn

/-- the PLAIN reading `Spec.nonLossOkStrict` ("some cell of the group HOLDS the value") — the clause the driver
evaluates on the implementation since the repair of D28 — is true on the model's output, without any hypothesis -/
theorem spec_nonLossOkStrict {tr : Transc} {extra : List RuleEntry} {t out : List Cell}
    (h : summarize tr extra t false = .ok out) (hinc : smIsIncremental t = false) :
    nonLossOkStrict Generated.Summarize.nonLossMetrics t out = true := by
  simp only [nonLossOkStrict, List.all_eq_true, hinc]
  intro o ho f hf
  cases hany : (groupOf false t o).any (fun c => c.values.contains f) with
  | false => simp
  | true =>
    obtain ⟨c, hc, hcf⟩ := List.any_eq_true.mp hany
    have hex : ∃ c ∈ groupOf false t o, f ∈ c.values.keys := ⟨c, hc, (Dict.contains_iff _ _).mp hcf⟩
    obtain ⟨v, hv, hcase⟩ := no_premium_value_existing h hinc o ho f hf hex
    simp only [Bool.not_true, Bool.false_or]
    rw [hv]
    simp only [List.any_eq_true, beq_iff_eq]
    rcases hcase with ⟨_, c', hc', hheld⟩ | ⟨hn, hall⟩
    · exact ⟨c', hc', hheld⟩
    · -- all `None`: the cell that has the key holds an explicit `None`
      refine ⟨c, hc, ?_⟩
      obtain ⟨x, hx⟩ := Dict.get?_of_mem_keys ((Dict.contains_iff _ _).mp hcf)
      have := hall c hc
      simp only [Cell.getV, hx, Option.getD_some] at this
      rw [hx, this, hn]

/-! ### 4. the metadata of the result: exactly what every cell shares -/

/-- **`gcd_keeps_exactly_shared`.** Risk basis and currency are those of every cell; each of the four optional
attributes is kept iff every cell has that same value; a detail (loss-detail) entry is kept iff every cell has the
key with that same value and the value is not `None`. -/
theorem gcd_keeps_exactly_shared {t : List Cell} {m : Metadata} (h : metadataGcd t = .ok m)
    (hn : ∀ c ∈ t, c.md.details.keys.Nodup ∧ c.md.lossDetails.keys.Nodup) :
    (∀ c ∈ t, c.md.riskBasis = m.riskBasis ∧ c.md.currency = m.currency) ∧
    (∀ x, m.country = some x ↔ ∀ c ∈ t, c.md.country = some x) ∧
    (∀ x, m.limit = some x ↔ ∀ c ∈ t, c.md.limit = some x) ∧
    (∀ x, m.lossDefinition = some x ↔ ∀ c ∈ t, c.md.lossDefinition = some x) ∧
    (∀ x, m.reinsuranceBasis = some x ↔ ∀ c ∈ t, c.md.reinsuranceBasis = some x) ∧
    (∀ k v, Dict.get? m.details k = some v ↔ v ≠ .none ∧ ∀ c ∈ t, Dict.get? c.md.details k = some v) ∧
    (∀ k v, Dict.get? m.lossDetails k = some v ↔
      v ≠ .none ∧ ∀ c ∈ t, Dict.get? c.md.lossDetails k = some v) := by
  unfold metadataGcd at h
  split at h
  · cases h
  · rename_i hrb
    split at h
    · cases h
    · rename_i hcu
      cases t with
      | nil => cases h
      | cons c0 rest =>
        simp only at h
        cases h
        have hrb' := (allSame_map_iff c0 rest (fun c : Cell => c.md.riskBasis)).mp (by simpa using hrb)
        have hcu' := (allSame_map_iff c0 rest (fun c : Cell => c.md.currency)).mp (by simpa using hcu)
        refine ⟨fun c hc => ⟨hrb' c hc, hcu' c hc⟩, attrGcd_eq_some_iff c0 rest _, attrGcd_eq_some_iff c0 rest _,
          attrGcd_eq_some_iff c0 rest _, attrGcd_eq_some_iff c0 rest _, ?_, ?_⟩
        · intro k v
          have := detailsGcd_get? c0.md.details (rest.map (·.md.details)) k v (hn c0 (by simp)).1
          simpa [List.mem_map] using this
        · intro k v
          have := detailsGcd_get? c0.md.lossDetails (rest.map (·.md.lossDetails)) k v (hn c0 (by simp)).2
          simpa [List.mem_map] using this

/-! ### 5. refusals -/

theorem summarize_error_mixed_risk_basis {tr : Transc} {extra : List RuleEntry} {t : List Cell}
    {prem : Bool} (h : ∃ a ∈ t, ∃ b ∈ t, a.md.riskBasis ≠ b.md.riskBasis) :
    summarize tr extra t prem = .error .triangleError := by
  obtain ⟨a, ha, b, hb, hne⟩ := h
  have := allSame_false_of_ne (f := fun c : Cell => c.md.riskBasis) ha hb hne
  simp [summarize, metadataGcd, this]

theorem summarize_error_mixed_currency {tr : Transc} {extra : List RuleEntry} {t : List Cell}
    {prem : Bool} (h : ∃ a ∈ t, ∃ b ∈ t, a.md.currency ≠ b.md.currency) :
    summarize tr extra t prem = .error .triangleError := by
  obtain ⟨a, ha, b, hb, hne⟩ := h
  have := allSame_false_of_ne (f := fun c : Cell => c.md.currency) ha hb hne
  unfold summarize metadataGcd
  split <;> simp_all

/-- a field without an aggregation rule is refused by `summarize_cell_values` with `TriangleError`, before any
rule runs -/
theorem summarize_cell_values_error_unknown_field {tr : Transc} {extra : List RuleEntry}
    {cells : List Cell} {prem : Bool}
    (h : ∃ c ∈ cells, ∃ k ∈ c.values.keys, ruleOf extra (lowerKey k) = none) :
    summarizeCellValues tr extra cells prem = .error .triangleError :=
  summarizeCellValues_unknown h

/-- **`summarize_error_unknown_field`.** A triangle holding a field without an aggregation rule is never
summarized. (The class is `TriangleError` unless an EARLIER coordinate group already failed with another
class — groups are processed in order; the exact condition is `summarize_error_class_exact`, the class for an
unknown field in any group `summarize_error_unknown_field_class_any` / `_of_erased`.) -/
theorem summarize_error_unknown_field {tr : Transc} {extra : List RuleEntry} {t : List Cell}
    {prem : Bool} (h : ∃ c ∈ t, ∃ k ∈ c.values.keys, ruleOf extra (lowerKey k) = none) :
    ∃ e, summarize tr extra t prem = .error e := by
  cases hs : summarize tr extra t prem with
  | error e => exact ⟨e, rfl⟩
  | ok out =>
    exfalso
    obtain ⟨md, cells, hmd, hcells, hperm⟩ := summarize_decompose hs
    obtain ⟨c, hc, k, hk, hr⟩ := h
    -- the group of `c`
    have hg : (coordKey (smIsIncremental t) c,
        t.filter fun a => coordKey (smIsIncremental t) a == coordKey (smIsIncremental t) c) ∈
        groupsOf (coordKey (smIsIncremental t)) t := by
      unfold groupsOf
      exact List.mem_map.mpr ⟨_, mem_smDedup.mpr (List.mem_map.mpr ⟨c, hc, rfl⟩), rfl⟩
    obtain ⟨o, _, ho⟩ := smMapE_mem' hcells hg
    obtain ⟨vals, hvals, _⟩ := summaryCell_ok ho
    have := summarizeCellValues_unknown (tr := tr) (extra := extra)
      (prem := if smIsIncremental t then true else prem)
      (cells := t.filter fun a => coordKey (smIsIncremental t) a == coordKey (smIsIncremental t) c)
      ⟨c, List.mem_filter.mpr ⟨hc, by simp⟩, k, hk, hr⟩
    rw [this] at hvals
    cases hvals

/-- when the metadata are consistent and the unknown field sits at the coordinate of the first cell (the first
group processed), the class is `TriangleError` -/
theorem summarize_error_unknown_field_class {tr : Transc} {extra : List RuleEntry} {c0 : Cell}
    {rest : List Cell} {prem : Bool} {md : Metadata} (hmd : metadataGcd (c0 :: rest) = .ok md)
    (h : ∃ c ∈ c0 :: rest,
      coordKey (smIsIncremental (c0 :: rest)) c = coordKey (smIsIncremental (c0 :: rest)) c0 ∧
      ∃ k ∈ c.values.keys, ruleOf extra (lowerKey k) = none) :
    summarize tr extra (c0 :: rest) prem = .error .triangleError := by
  obtain ⟨c, hc, hkey, k, hk, hr⟩ := h
  unfold summarize
  rw [hmd]
  simp only
  rw [groupBy_eq_groupsOf]
  have hgs : ∃ tl, groupsOf (coordKey (smIsIncremental (c0 :: rest))) (c0 :: rest) =
      (coordKey (smIsIncremental (c0 :: rest)) c0,
        (c0 :: rest).filter fun a =>
          coordKey (smIsIncremental (c0 :: rest)) a == coordKey (smIsIncremental (c0 :: rest)) c0) :: tl := by
    unfold groupsOf
    simp [smDedup, smDedupAux]
  obtain ⟨tl, htl⟩ := hgs
  rw [htl]
  have : summaryCell tr extra (smIsIncremental (c0 :: rest)) prem md
      (coordKey (smIsIncremental (c0 :: rest)) c0,
        (c0 :: rest).filter fun a =>
          coordKey (smIsIncremental (c0 :: rest)) a == coordKey (smIsIncremental (c0 :: rest)) c0)
      = .error .triangleError := by
    unfold summaryCell
    rw [summarizeCellValues_unknown ⟨c, List.mem_filter.mpr ⟨hc, by simp [hkey]⟩, k, hk, hr⟩]
  simp only [smMapE, this]

/-- **`summarize_error_class_exact`.** Once the metadata are consistent, `summarize` raises the class `e` IFF the
coordinate groups, in first-occurrence order, split into groups that all summarize, then a group whose summary
cell raises `e`: the FIRST failing group decides the class (and nothing after the groups can fail). -/
theorem summarize_error_class_exact {tr : Transc} {extra : List RuleEntry} {t : List Cell} {prem : Bool}
    {md : Metadata} (hmd : metadataGcd t = .ok md) (e : Err) :
    summarize tr extra t prem = .error e ↔
      ∃ pre g post, groupsOf (coordKey (smIsIncremental t)) t = pre ++ g :: post ∧
        (∀ g' ∈ pre, ∃ o, summaryCell tr extra (smIsIncremental t) prem md g' = .ok o) ∧
        summaryCell tr extra (smIsIncremental t) prem md g = .error e := by
  unfold summarize
  rw [hmd]
  simp only
  rw [groupBy_eq_groupsOf]
  constructor
  · intro h
    split at h
    · rename_i e' he'
      cases h
      exact smMapE_error_split he'
    · rename_i cells hcells
      exfalso
      have hk : kindsConsistent cells = true := by
        have hall : ∀ o ∈ cells, o.kind = if smIsIncremental t then CellKind.incremental else CellKind.cumulative := by
          intro o ho
          obtain ⟨g, _, hgo⟩ := smMapE_mem hcells ho
          obtain ⟨vals, _, rfl⟩ := summaryCell_ok hgo
          rfl
        unfold kindsConsistent
        cases hi : smIsIncremental t
        · have : cells.all (·.kind == .cumulative) = true := by
            rw [List.all_eq_true]; intro o ho; simp [hall o ho, hi]
          simp [this]
        · have : cells.all (·.kind == .incremental) = true := by
            rw [List.all_eq_true]; intro o ho; simp [hall o ho, hi]
          simp [this]
      simp [Triangle.ofCells, hk] at h
  · rintro ⟨pre, g, post, hsplit, hpre, hg⟩
    rw [hsplit, smMapE_first_error hpre hg]

/-- **`summarize_error_unknown_field_class_any`.** The class for an unknown field in ANY coordinate group:
metadata consistent ∧ every group BEFORE a group holding a field without a rule summarizes → `TriangleError`.
(`summarize_error_unknown_field_class` is the case `pre = []`.) -/
theorem summarize_error_unknown_field_class_any {tr : Transc} {extra : List RuleEntry} {t : List Cell}
    {prem : Bool} {md : Metadata} (hmd : metadataGcd t = .ok md)
    {pre post : List (CoordKey × List Cell)} {g : CoordKey × List Cell}
    (hsplit : groupsOf (coordKey (smIsIncremental t)) t = pre ++ g :: post)
    (hpre : ∀ g' ∈ pre, ∃ o, summaryCell tr extra (smIsIncremental t) prem md g' = .ok o)
    (hunk : ∃ c ∈ g.2, ∃ k ∈ c.values.keys, ruleOf extra (lowerKey k) = none) :
    summarize tr extra t prem = .error .triangleError := by
  rw [summarize_error_class_exact hmd]
  refine ⟨pre, g, post, hsplit, hpre, ?_⟩
  unfold summaryCell
  rw [summarizeCellValues_unknown hunk]

/-- **`summarize_error_unknown_field_class_of_erased`.** No reference to groups: if the triangle WITHOUT its
fields that have no rule is summarized (so nothing else is wrong with it: metadata consistent, no shape / kind /
missing-weight clash anywhere), then the triangle WITH them is refused with `TriangleError`. -/
theorem summarize_error_unknown_field_class_of_erased {tr : Transc} {extra : List RuleEntry} {t out : List Cell}
    {prem : Bool} (h : ∃ c ∈ t, ∃ k ∈ c.values.keys, ruleOf extra (lowerKey k) = none)
    (hok : summarize tr extra (t.map (eraseUnknown extra)) prem = .ok out) :
    summarize tr extra t prem = .error .triangleError := by
  obtain ⟨md, cells, hmd, hcells, _⟩ := summarize_decompose hok
  rw [metadataGcd_map (e := eraseUnknown extra) (fun _ => rfl)] at hmd
  rw [smIsIncremental_map (e := eraseUnknown extra) (fun _ => rfl),
    groupsOf_map _ (eraseUnknown extra) (fun c => by cases hi : smIsIncremental t <;> rfl)] at hcells
  -- the first group holding an unknown key
  obtain ⟨c, hc, k, hk, hr⟩ := h
  have hex : ∃ g ∈ groupsOf (coordKey (smIsIncremental t)) t,
      ∃ c ∈ g.2, ∃ k ∈ c.values.keys, ruleOf extra (lowerKey k) = none := by
    refine ⟨(coordKey (smIsIncremental t) c,
        t.filter fun a => coordKey (smIsIncremental t) a == coordKey (smIsIncremental t) c), ?_, c, ?_, k, hk, hr⟩
    · unfold groupsOf
      exact List.mem_map.mpr ⟨_, mem_smDedup.mpr (List.mem_map.mpr ⟨c, hc, rfl⟩), rfl⟩
    · exact List.mem_filter.mpr ⟨hc, by simp⟩
  obtain ⟨pre, g, post, hsplit, hg, hpre⟩ := exists_first hex
  refine summarize_error_unknown_field_class_any hmd hsplit ?_ hg
  intro g' hg'
  have hid : g'.2.map (eraseUnknown extra) = g'.2 := by
    have : ∀ c ∈ g'.2, eraseUnknown extra c = c := by
      intro c hc
      apply eraseUnknown_id
      intro k hk hr
      exact hpre g' hg' ⟨c, hc, k, hk, hr⟩
    rw [List.map_congr_left this, List.map_id']
  have hmem : (g'.1, g'.2.map (eraseUnknown extra)) ∈
      (groupsOf (coordKey (smIsIncremental t)) t).map fun g => (g.1, g.2.map (eraseUnknown extra)) :=
    List.mem_map.mpr ⟨g', by rw [hsplit]; simp [hg'], rfl⟩
  obtain ⟨o, _, ho⟩ := smMapE_mem' hcells hmem
  rw [hid] at ho
  exact ⟨o, ho⟩


/-! ### 6. the executable Spec predicates hold on the model's output (bridge) -/


/-- `Spec.conserves` is true on the model's output for the additive fields that are summed -/
theorem spec_conserves {tr : Transc} {t out : List Cell} {prem : Bool} {fields : List String}
    (h : summarize tr [] t prem = .ok out)
    (hf : ∀ f ∈ fields, f ∈ additiveFields ∧ Summed prem (smIsIncremental t) f) :
    conserves fields t out = true := by
  simp only [conserves, List.all_eq_true]
  intro f hf' i _
  cases hin : allInRange t f i with
  | false => simp
  | true =>
    have hb := additive_rules_bound f (by rw [← additiveFields_eq]; exact (hf f hf').1)
    have := summarize_conserves (i := i) h (by rw [hb.1]; exact hb.2) (hf f hf').2
      (by simpa [allInRange, List.all_eq_true] using hin)
    simp only [Bool.not_true, Bool.false_or, Bool.and_eq_true, beq_iff_eq]
    exact ⟨by simpa [allInRange, List.all_eq_true] using this.2, this.1⟩

/-- `Spec.cellSums` is true on the model's output -/
theorem spec_cellSums {tr : Transc} {t out : List Cell} {prem : Bool} {fields : List String}
    (h : summarize tr [] t prem = .ok out)
    (hf : ∀ f ∈ fields, f ∈ additiveFields ∧ Summed prem (smIsIncremental t) f) :
    cellSums fields t out = true := by
  simp only [cellSums, List.all_eq_true]
  intro o ho f hf' i _
  cases hin : allInRange (groupOf (smIsIncremental t) t o) f i with
  | false => simp
  | true =>
    have hb := additive_rules_bound f (by rw [← additiveFields_eq]; exact (hf f hf').1)
    have := ((summarize_cell_spec h).2 o ho).2.2 f i (by rw [hb.1]; exact hb.2) (hf f hf').2
      (by simpa [allInRange, List.all_eq_true] using hin)
    simp only [Bool.not_true, Bool.false_or, Bool.and_eq_true, beq_iff_eq]
    exact ⟨this.2, this.1⟩

/-- `Spec.coordsOk` is true on the model's output: one cell per distinct coordinate, of the right class -/
theorem spec_coordsOk {tr : Transc} {extra : List RuleEntry} {t out : List Cell} {prem : Bool}
    (h : summarize tr extra t prem = .ok out) : coordsOk t out = true := by
  obtain ⟨hperm, hcells⟩ := summarize_cell_spec h
  simp only [coordsOk, Bool.and_eq_true, List.all_eq_true]
  refine ⟨⟨⟨?_, ?_⟩, ?_⟩, ?_⟩
  · exact nodupB_of_nodup (hperm.nodup_iff.mpr (nodup_smDedup _))
  · intro k hk
    simpa using hperm.mem_iff.mpr (mem_smDedup.mpr hk)
  · intro k hk
    simpa using mem_smDedup.mp (hperm.mem_iff.mp hk)
  · intro o ho
    simpa using (hcells o ho).2.1


/-- `Spec.nonLossOk` is true on the model's output (cumulative triangle, `summarize_premium = False`) -/
theorem spec_nonLossOk {tr : Transc} {extra : List RuleEntry} {t out : List Cell}
    (h : summarize tr extra t false = .ok out) (hinc : smIsIncremental t = false) :
    nonLossOk Generated.Summarize.nonLossMetrics t out = true := by
  simp only [nonLossOk, List.all_eq_true, hinc]
  intro o ho f hf
  cases hany : (groupOf false t o).any (fun c => c.values.contains f) with
  | false => simp
  | true =>
    obtain ⟨c, hc, hcf⟩ := List.any_eq_true.mp hany
    obtain ⟨v, hv, hcase⟩ := no_premium_value_existing h hinc o ho f hf ⟨c, hc, (Dict.contains_iff _ _).mp hcf⟩
    simp only [Bool.not_true, Bool.false_or]
    rw [hv]
    simp only [List.any_eq_true, beq_iff_eq]
    rcases hcase with ⟨_, c', hc', hheld⟩ | ⟨hn, hall⟩
    · exact ⟨c', hc', by simp [Cell.getV, hheld]⟩
    · exact ⟨c, hc, by rw [hall c hc, hn]⟩


/-! ### 7. ratio fields -/

/-- **`summarize_ratio_spec`.** With the rules summed (`summarize_premium = True` or an incremental triangle) a
field whose rule is the `w`-weighted average of itself — by `ratio_rules_bound`: `implied_atu`, `bf_weight`,
`geometric_weight` with `w = reported_loss` — satisfies, in the output cell `o` and sample by sample,
`o[f] × Σ w = Σ value × w` over the input cells at `o`'s coordinate, the denominator being the (non-zero) sum of
the weights of ALL those cells — also of cells WITHOUT a value of `f`, which count 0 in the numerator
(`ratio_denominator_counts_valueless_weights` shows the difference from the average over the cells that have a
value). (`log_industry_lr`: `summarize_wavglog_spec`.) -/
theorem summarize_ratio_spec {tr : Transc} {extra : List RuleEntry} {t out : List Cell} {prem : Bool}
    {f w : String} {i : Nat}
    (h : summarize tr extra t prem = .ok out) (hp : prem = true ∨ smIsIncremental t = true)
    (hr : ruleOf extra (lowerKey f) = some ⟨.wavg, [f, w]⟩) :
    ∀ o ∈ out, (∃ c ∈ groupOf (smIsIncremental t) t o, f ∈ c.values.keys) →
      (∀ c ∈ groupOf (smIsIncremental t) t o,
        (c.getV f).inRange i = true ∧ (c.getV w).inRange i = true) →
      (o.getV f).at i * sumAt (groupOf (smIsIncremental t) t o) w i =
        ((groupOf (smIsIncremental t) t o).map fun c => (c.getV f).at i * (c.getV w).at i).sum ∧
      sumAt (groupOf (smIsIncremental t) t o) w i ≠ 0 := by
  obtain ⟨md, cells, hmd, hcells, hperm⟩ := summarize_decompose h
  intro o ho hex hin
  obtain ⟨g, hg, hgo⟩ := smMapE_mem hcells (hperm.mem_iff.mp ho)
  have hk := summaryCell_coordKey hg hgo
  obtain ⟨vals, hvals, ho'⟩ := summaryCell_ok hgo
  have hg2 : g.2 = groupOf (smIsIncremental t) t o := by
    unfold groupsOf at hg
    obtain ⟨k, _, rfl⟩ := List.mem_map.mp hg
    simp only at hk
    simp only [groupOf, hk]
  have hflag : (if smIsIncremental t then true else prem) = true := by
    rcases hp with hp | hp
    · subst hp; cases smIsIncremental t <;> rfl
    · rw [hp]; rfl
  rw [hflag, hg2] at hvals
  obtain ⟨v, hd, h1, h2⟩ := summarizeCellValues_wavg_at (i := i) hvals hr (mem_valueKeys.mpr hex) hin
  have hget : o.getV f = v := by rw [ho']; simp [Cell.getV, hd]
  rw [hget]
  exact ⟨h1, h2⟩

/-! ### 7a. `log_industry_lr`: log of the weighted average of exp -/

/-- **`summarize_wavglog_spec`.** The SHAPE of the `log_industry_lr` rule for arbitrary `np.exp` / `np.log`
(`tr : Transc`): a field whose rule is the exp/log variant weighted by `w` comes out, sample by sample, as
`tr.log ((Σ tr.exp(value_c) · w_c) / Σ w_c)` over the cells of the coordinate, with a non-zero denominator, in
range; and the rule only succeeds when EVERY cell of the group holds a value (`np.exp` of a list with a `None`
is a `TypeError`), so here numerator and denominator run over the same cells. The field is outside
NON_LOSS_METRICS, so this also holds with `summarize_premium = False`. -/
theorem summarize_wavglog_spec {tr : Transc} {extra : List RuleEntry} {t out : List Cell} {prem : Bool}
    {f w : String} {i : Nat}
    (h : summarize tr extra t prem = .ok out) (hs : Summed prem (smIsIncremental t) f)
    (hr : ruleOf extra (lowerKey f) = some ⟨.wavglog, [f, w]⟩) :
    ∀ o ∈ out, (∃ c ∈ groupOf (smIsIncremental t) t o, f ∈ c.values.keys) →
      (∀ c ∈ groupOf (smIsIncremental t) t o,
        (c.getV f).inRange i = true ∧ (c.getV w).inRange i = true) →
      (o.getV f).at i = tr.log
        (((groupOf (smIsIncremental t) t o).map fun c => tr.exp ((c.getV f).at i) * (c.getV w).at i).sum /
          sumAt (groupOf (smIsIncremental t) t o) w i) ∧
      sumAt (groupOf (smIsIncremental t) t o) w i ≠ 0 ∧ (o.getV f).inRange i = true ∧
      ∀ c ∈ groupOf (smIsIncremental t) t o, (c.getV f).isNone = false := by
  intro o ho hex hin
  obtain ⟨hvals, _⟩ := summarize_out_cell h ho
  obtain ⟨v, hd, h1, h2, h3, h4⟩ :=
    summarizeCellValues_wavglog_at (i := i) hvals (summed_flag hs) hr (mem_valueKeys.mpr hex) hin
  have hget : o.getV f = v := by simp [Cell.getV, hd]
  rw [hget]
  exact ⟨h1, h2, h3, h4⟩

/-- `log_industry_lr` is lower-case and always goes through its rule (it is not in NON_LOSS_METRICS) -/
theorem log_industry_lr_summed (prem incr : Bool) :
    lowerKey "log_industry_lr" = "log_industry_lr" ∧ Summed prem incr "log_industry_lr" := by
  refine ⟨by decide +kernel, Or.inr (Or.inr ?_)⟩
  decide +kernel

/-- the default table: `log_industry_lr` weighted by `earned_premium` (`ratio_rules_bound`), any `summarize_premium` -/
theorem summarize_log_industry_lr_spec {tr : Transc} {t out : List Cell} {prem : Bool} {i : Nat}
    (h : summarize tr [] t prem = .ok out) :
    ∀ o ∈ out, (∃ c ∈ groupOf (smIsIncremental t) t o, "log_industry_lr" ∈ c.values.keys) →
      (∀ c ∈ groupOf (smIsIncremental t) t o,
        (c.getV "log_industry_lr").inRange i = true ∧ (c.getV "earned_premium").inRange i = true) →
      (o.getV "log_industry_lr").at i = tr.log
        (((groupOf (smIsIncremental t) t o).map fun c =>
            tr.exp ((c.getV "log_industry_lr").at i) * (c.getV "earned_premium").at i).sum /
          sumAt (groupOf (smIsIncremental t) t o) "earned_premium" i) ∧
      sumAt (groupOf (smIsIncremental t) t o) "earned_premium" i ≠ 0 := by
  intro o ho hex hin
  have hl := log_industry_lr_summed prem (smIsIncremental t)
  have := summarize_wavglog_spec (i := i) h hl.2 (by rw [hl.1]; exact ratio_rules_bound.2.2.2) o ho hex hin
  exact ⟨this.1, this.2.1⟩

/-! ### 7b. the remaining Spec bridges -/


/-- `Spec.keysOk` is true on the model's output -/
theorem spec_keysOk {tr : Transc} {extra : List RuleEntry} {t out : List Cell} {prem : Bool}
    (h : summarize tr extra t prem = .ok out) : keysOk t out = true := by
  simp only [keysOk, List.all_eq_true, Bool.and_eq_true]
  intro o ho
  obtain ⟨hvals, _⟩ := summarize_out_cell h ho
  have hperm := summarizeCellValues_keys_perm hvals
  refine ⟨⟨nodupB_of_nodup (hperm.nodup_iff.mpr (nodup_smDedup _)), ?_⟩, ?_⟩
  · intro k hk
    obtain ⟨c, hc, hkc⟩ := mem_valueKeys.mp (hperm.mem_iff.mp hk)
    exact List.any_eq_true.mpr ⟨c, hc, (Dict.contains_iff _ _).mpr hkc⟩
  · intro c hc k hk
    exact (Dict.contains_iff _ _).mpr (hperm.mem_iff.mpr (mem_valueKeys.mpr ⟨c, hc, hk⟩))

/-- `Spec.metaOk` is true on the model's output (details dicts have distinct keys, as Python dicts do) -/
theorem spec_metaOk {tr : Transc} {extra : List RuleEntry} {t out : List Cell} {prem : Bool}
    (h : summarize tr extra t prem = .ok out)
    (hn : ∀ c ∈ t, c.md.details.keys.Nodup ∧ c.md.lossDetails.keys.Nodup) : metaOk t out = true := by
  simp only [metaOk, List.all_eq_true]
  intro o ho
  have hmd := ((summarize_cell_spec h).2 o ho).1
  obtain ⟨h1, h2, h3, h4, h5, h6, h7⟩ := gcd_keeps_exactly_shared hmd hn
  obtain ⟨n1, n2⟩ := metadataGcd_keys_nodup hmd hn
  simp only [mdShared, Bool.and_eq_true, List.all_eq_true, beq_iff_eq]
  refine ⟨⟨⟨⟨⟨⟨fun c hc => h1 c hc, attrShared_of_iff h2⟩, attrShared_of_iff h3⟩, attrShared_of_iff h4⟩,
    attrShared_of_iff h5⟩, ?_⟩, ?_⟩
  · apply detailsShared_of_iff n1
    intro k v; rw [h6]; simp [List.mem_map]
  · apply detailsShared_of_iff n2
    intro k v; rw [h7]; simp [List.mem_map]

/-- the three ratio fields are lower-case and weighted by `reported_loss` (regenerated table) -/
theorem ratio_lower : ∀ f ∈ ratioFields, lowerKey f = f ∧
    ruleOf [] f = some ⟨.wavg, [f, "reported_loss"]⟩ := by decide +kernel

/-- `Spec.ratioOk` is true on the model's output, for every non-negative tolerance -/
theorem spec_ratioOk {tr : Transc} {t out : List Cell} {prem : Bool} {tol : Rat} (h0 : 0 ≤ tol)
    (h : summarize tr [] t prem = .ok out) (hp : prem = true ∨ smIsIncremental t = true) :
    ratioOk tol "reported_loss" ratioFields t out = true := by
  simp only [ratioOk, List.all_eq_true]
  intro o ho f hf
  cases hany : (groupOf (smIsIncremental t) t o).any (fun c => c.values.contains f) with
  | false => simp
  | true =>
    cases hw : (groupOf (smIsIncremental t) t o).all
        (fun c => (c.getV f).isNone || !(c.getV "reported_loss").isNone) with
    | false => simp
    | true =>
      simp only [Bool.not_true, Bool.false_or, List.all_eq_true]
      intro i _
      cases hr : (allInRange (groupOf (smIsIncremental t) t o) f i &&
          allInRange (groupOf (smIsIncremental t) t o) "reported_loss" i && (o.getV f).inRange i) with
      | false => simp
      | true =>
        simp only [Bool.and_eq_true] at hr
        obtain ⟨c, hc, hcf⟩ := List.any_eq_true.mp hany
        have hb := ratio_lower f hf
        have := summarize_ratio_spec (i := i) (f := f) (w := "reported_loss") h hp
          (by rw [hb.1]; exact hb.2) o ho ⟨c, hc, (Dict.contains_iff _ _).mp hcf⟩
          (fun c' hc' => ⟨by simpa [allInRange, List.all_eq_true] using
              (List.all_eq_true.mp hr.1.1) c' hc',
            by simpa [allInRange, List.all_eq_true] using (List.all_eq_true.mp hr.1.2) c' hc'⟩)
        simp only [Bool.not_true, Bool.false_or, Bool.or_eq_true]
        right
        rw [this.1]
        exact closeTo_self h0


/-- the loss fields of the Spec (what the driver passes with `summarize_premium = False` on a cumulative triangle)
are additive fields outside NON_LOSS_METRICS -/
theorem lossFields_summed : ∀ f ∈ lossFields, f ∈ additiveFields ∧ f ∉ Generated.Summarize.nonLossMetrics := by
  decide +kernel

theorem lossFields_Summed {prem incr : Bool} : ∀ f ∈ lossFields, f ∈ additiveFields ∧ Summed prem incr f :=
  fun f hf => ⟨(lossFields_summed f hf).1, Or.inr (Or.inr (lossFields_summed f hf).2)⟩

/-- `Spec.conserves` and `Spec.cellSums` hold on the model's output for exactly the field list `Drv/C09.lean`
passes (`additiveFields` when everything is summed, else `lossFields`) -/
theorem spec_driver_fields {tr : Transc} {t out : List Cell} {prem : Bool}
    (h : summarize tr [] t prem = .ok out) :
    conserves (if prem || smIsIncremental t then additiveFields else lossFields) t out = true ∧
    cellSums (if prem || smIsIncremental t then additiveFields else lossFields) t out = true := by
  have hf : ∀ f ∈ (if prem || smIsIncremental t then additiveFields else lossFields),
      f ∈ additiveFields ∧ Summed prem (smIsIncremental t) f := by
    intro f hf
    cases hp : (prem || smIsIncremental t) with
    | true =>
      rw [hp] at hf
      refine ⟨hf, ?_⟩
      rcases Bool.or_eq_true_iff.mp hp with h1 | h1
      · exact Or.inl h1
      · exact Or.inr (Or.inl h1)
    | false =>
      rw [hp] at hf
      exact lossFields_Summed f hf
  exact ⟨spec_conserves h hf, spec_cellSums h hf⟩

/-! ### 8. non-vacuity -/

def exT : List Cell :=
  [ { kind := .cumulative, ps := ⟨2020, 1, 1⟩, pe := ⟨2020, 12, 31⟩, ev := ⟨2020, 12, 31⟩,
      values := [("paid_loss", .int 10), ("earned_premium", .flt 100)],
      md := { country := some "US", details := [("coverage", .str "BI"), ("state", .str "NY")] } },
    { kind := .cumulative, ps := ⟨2020, 1, 1⟩, pe := ⟨2020, 12, 31⟩, ev := ⟨2020, 12, 31⟩,
      values := [("paid_loss", .int 5), ("reported_loss", .int 7)],
      md := { country := some "US", details := [("coverage", .str "PD"), ("state", .str "NY")] } } ]

/-- the theorems are not vacuous: a two-slice triangle (slices differ in a detail, share country and another
detail, hold different field subsets) is summarized to one cell with paid_loss 15, the shared metadata kept -/
example :
    (match summarize Transc.id [] exT true with
     | .ok out => decide (out =
        [ { kind := .cumulative, ps := ⟨2020, 1, 1⟩, pe := ⟨2020, 12, 31⟩, ev := ⟨2020, 12, 31⟩,
            values := [("paid_loss", .int 15), ("earned_premium", .flt 100), ("reported_loss", .int 7)],
            md := { country := some "US", details := [("state", .str "NY")] } } ])
     | .error _ => false) = true := by
  decide +kernel


/-! ### 9. more non-vacuity: `summarize_premium = False`, ratio fields, each refusal (audit finding 6)

`returns r out = true ↔ r = .ok out`, `refuses r e = true ↔ r = .error e`, `succeeds r = true ↔ ∃ out, r = .ok out`
(`returns_iff`, `refuses_iff`, `succeeds_iff` in `Lemmas/SummarizeMore.lean`); all by kernel evaluation of the model. -/

/-- two loss layers sharing one premium -/
def exLayersT : List Cell :=
  [ wCell [("paid_loss", .int 10), ("earned_premium", .flt 100)] { lossDetails := [("layer", .str "A")] },
    wCell [("paid_loss", .int 5), ("earned_premium", .flt 100)] { lossDetails := [("layer", .str "B")] } ]

/-- `no_premium_sum` is not vacuous: a cumulative two-layer triangle summarized with `summarize_premium = False`
keeps the premium 100 (losses summed to 15); with `True` the premium is doubled -/
theorem no_premium_sum_example :
    smIsIncremental exLayersT = false ∧
    returns (summarize Transc.id [] exLayersT false)
      [ wCell [("paid_loss", .int 15), ("earned_premium", .flt 100)] {} ] = true ∧
    returns (summarize Transc.id [] exLayersT true)
      [ wCell [("paid_loss", .int 15), ("earned_premium", .flt 200)] {} ] = true := by
  decide +kernel

def exRatio2T : List Cell :=
  [ wCell [("reported_loss", .int 100), ("bf_weight", .flt (1/2)), ("log_industry_lr", .flt (1/2)),
           ("earned_premium", .int 100)] { details := [("s", .str "A")] },
    wCell [("reported_loss", .int 300), ("bf_weight", .flt (1/4)), ("log_industry_lr", .flt (1/4)),
           ("earned_premium", .int 300)] { details := [("s", .str "B")] } ]

/-- `summarize_ratio_spec` and `summarize_wavglog_spec` are not vacuous: (½·100 + ¼·300)/400 = 5/16 (the second
with `exp = log = id`) -/
theorem ratio_example :
    returns (summarize Transc.id [] exRatio2T true)
      [ wCell [("reported_loss", .int 400), ("bf_weight", .flt (5/16)), ("log_industry_lr", .flt (5/16)),
               ("earned_premium", .int 400)] {} ] = true := by
  decide +kernel

/-- each refusal happens, with its class; and the same triangle is summarized once the field has a rule -/
theorem refusal_examples :
    refuses (summarize Transc.id []
      [ wCell [("paid_loss", .int 1)] { currency := some "USD" },
        wCell [("paid_loss", .int 2)] { currency := some "EUR" } ] true) .triangleError = true ∧
    refuses (summarize Transc.id []
      [ wCell [("paid_loss", .int 1)] { riskBasis := some "Accident" },
        wCell [("paid_loss", .int 2)] { riskBasis := some "Policy" } ] true) .triangleError = true ∧
    refuses (summarize Transc.id []
      [ wCell [("paid_loss", .int 1)] {}, wCell [("mystery", .int 2)] { country := some "US" } ] true)
      .triangleError = true ∧
    returns (summarize Transc.id [("mystery", "sum", ["mystery"])]
      [ wCell [("paid_loss", .int 1)] {}, wCell [("mystery", .int 2)] { country := some "US" } ] true)
      [ wCell [("paid_loss", .int 1), ("mystery", .int 2)] {} ] = true := by
  decide +kernel

/-- the unknown field sits in the SECOND coordinate group; the first group summarizes -/
def exLaterT : List Cell :=
  [ wCell [("paid_loss", .int 1)] { details := [("s", .str "A")] },
    wCell [("paid_loss", .int 2)] { details := [("s", .str "B")] },
    wCell2 [("paid_loss", .int 3), ("mystery", .int 9)] { details := [("s", .str "A")] } ]

/-- the same, but the FIRST group holds int64 arrays of unequal shape (`ValueError`) -/
def exClashT : List Cell :=
  [ wCell [("paid_loss", .arr true [2] [1, 2])] { details := [("s", .str "A")] },
    wCell [("paid_loss", .arr true [3] [1, 2, 3])] { details := [("s", .str "B")] },
    wCell2 [("paid_loss", .int 3), ("mystery", .int 9)] { details := [("s", .str "A")] } ]

/-- `summarize_error_unknown_field_class_any` / `_of_erased` are not vacuous (the triangle without `mystery` is
summarized, the triangle with it raises `TriangleError` from the second group), and their hypothesis is needed:
when an EARLIER group fails for another reason the class is that group's (`summarize_error_class_exact`) -/
theorem unknown_field_later_group_examples :
    refuses (summarize Transc.id [] exLaterT true) .triangleError = true ∧
    succeeds (summarize Transc.id [] (exLaterT.map (eraseUnknown [])) true) = true ∧
    refuses (summarize Transc.id [] exClashT true) .valueError = true ∧
    refuses (summarize Transc.id [] (exClashT.map (eraseUnknown [])) true) .valueError = true := by
  decide +kernel

/-! ### 10. witnesses: three behaviours of the code next to the PLAIN reading of the property's words

Each theorem evaluates the model on a one-coordinate triangle (the implementation returns the same: reproducers
in the audit follow-up notes) and states the accepting Spec predicate next to the plain-reading predicate of
`Spec/C09.lean` (the latter is NOT evaluated by the driver). -/

/-- the first cell of the coordinate lacks `earned_premium`, the second holds 100 -/
def exPremT : List Cell :=
  [ wCell [("paid_loss", .int 10)] { lossDetails := [("layer", .str "A")] },
    wCell [("paid_loss", .int 5), ("earned_premium", .flt 100)] { lossDetails := [("layer", .str "B")] } ]

def exPremOut : List Cell := [ wCell [("paid_loss", .int 15), ("earned_premium", .flt 100)] {} ]

/-- what the code returned before the repair of D28 -/
def exPremOutD28 : List Cell := [ wCell [("paid_loss", .int 15), ("earned_premium", .none)] {} ]

/-- **`premium_first_cell_lacks_field_none`** (name kept; D28 REPAIRED). "premium/exposure fields take one existing
cell's value": the first loss layer lacks `earned_premium`, the second holds 100. With `summarize_premium = False` the
repaired model (and code) returns the premium 100 — before the repair it returned `None` although no cell holds `None`.
`Spec.nonLossOkStrict` (some cell HOLDS the value; the clause the driver evaluates) accepts 100 and rejects the old
`None`; the weaker `Spec.nonLossOk` accepted both. -/
theorem premium_first_cell_lacks_field_none :
    returns (summarize Transc.id [] exPremT false) exPremOut = true ∧
    returns (summarize Transc.id [] exPremT true) exPremOut = true ∧
    (∀ c ∈ exPremT, c.values.get? "earned_premium" ≠ some .none) ∧
    (∃ c ∈ exPremT, c.values.get? "earned_premium" = some (.flt 100)) ∧
    nonLossOkStrict Generated.Summarize.nonLossMetrics exPremT exPremOut = true ∧
    nonLossOk Generated.Summarize.nonLossMetrics exPremT exPremOutD28 = true ∧
    nonLossOkStrict Generated.Summarize.nonLossMetrics exPremT exPremOutD28 = false := by
  decide +kernel

/-- one cell holds `bf_weight = ½` with weight 100, the other only the weight 300 -/
def exRatioT : List Cell :=
  [ wCell [("reported_loss", .int 100), ("bf_weight", .flt (1/2))] { details := [("s", .str "A")] },
    wCell [("reported_loss", .int 300)] { details := [("s", .str "B")] } ]

def exRatioOut (q : Rat) : List Cell := [ wCell [("reported_loss", .int 400), ("bf_weight", .flt q)] {} ]

/-- **`ratio_denominator_counts_valueless_weights`.** "ratio-type fields are weighted averages": the model (and
the code) returns ½·100/(100+300) = 1/8, below the only value there is; the average over the cells that HAVE a
value is ½. `Spec.ratioOk` (denominator = weights of ALL cells, exact: tolerance 0) accepts 1/8 and rejects ½;
the plain reading `Spec.ratioOkPlain` rejects 1/8 and accepts ½. -/
theorem ratio_denominator_counts_valueless_weights :
    returns (summarize Transc.id [] exRatioT true) (exRatioOut (1/8)) = true ∧
    ratioOk 0 "reported_loss" ratioFields exRatioT (exRatioOut (1/8)) = true ∧
    ratioOkPlain 0 "reported_loss" ratioFields exRatioT (exRatioOut (1/8)) = false ∧
    ratioOkPlain 0 "reported_loss" ratioFields exRatioT (exRatioOut (1/2)) = true ∧
    ratioOk 0 "reported_loss" ratioFields exRatioT (exRatioOut (1/2)) = false := by
  decide +kernel

/-- both slices hold the detail `k = None` and the loss detail `q = None` -/
def exNoneT : List Cell :=
  [ wCell [("paid_loss", .int 1)] { details := [("k", .none), ("s", .str "A")], lossDetails := [("q", .none)] },
    wCell [("paid_loss", .int 2)] { details := [("k", .none), ("s", .str "B")], lossDetails := [("q", .none)] } ]

/-- **`shared_none_detail_dropped`.** "keeps exactly those … detail entries that every input cell shares": the
entries `k ↦ None` / `q ↦ None` are held by every cell with the same value and are dropped by the model (and the
code). `Spec.detailsShared` accepts the empty result (`entryShared` demands a non-`None` value); the plain reading
`Spec.detailsSharedPlain` rejects it and accepts `[k ↦ None]`. Even a ONE-slice triangle does not keep its own
metadata (last conjunct). -/
theorem shared_none_detail_dropped :
    returns (summarize Transc.id [] exNoneT true) [ wCell [("paid_loss", .int 3)] {} ] = true ∧
    (∀ c ∈ exNoneT, c.md.details.get? "k" = some .none ∧ c.md.lossDetails.get? "q" = some .none) ∧
    detailsShared (exNoneT.map (·.md.details)) [] = true ∧
    detailsSharedPlain (exNoneT.map (·.md.details)) [] = false ∧
    detailsSharedPlain (exNoneT.map (·.md.details)) [("k", .none)] = true ∧
    detailsSharedPlain (exNoneT.map (·.md.lossDetails)) [] = false ∧
    returns (summarize Transc.id [] [wCell [("paid_loss", .int 1)] { details := [("k", .none)] }] true)
      [ wCell [("paid_loss", .int 1)] {} ] = true := by
  decide +kernel

end Bermuda.Properties.C09
