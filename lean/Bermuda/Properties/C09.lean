/-
C09 — summarize conserves totals and keeps exactly the shared metadata.
Only property theorems live here (helper lemmas: `Lemmas/Summarize.lean`).
-/
import Bermuda.Model.Summarize
import Bermuda.Spec.C09
import Bermuda.Generated.Summarize
namespace Bermuda.Properties.C09
open Bermuda Bermuda.Spec.C09

/-! ### 1. the rule table of the code (regenerated from /repo on every run) -/

/-- every additive field is bound to the plain sum OF ITSELF (D7 was six rules reading another key) -/
theorem additive_rules_bound :
    ∀ f ∈ ["paid_loss", "reported_loss", "incurred_loss",
           "earned_premium", "used_earned_premium", "written_premium",
           "earned_exposure", "written_exposure",
           "reported_claims", "open_claims", "closed_claims", "closed_with_pay_claims",
           "reported_count", "open_count", "closed_count", "closed_with_pay_count",
           "incurred_loss_developed", "paid_loss_developed", "reported_loss_developed",
           "incurred_loss_prior", "paid_loss_prior", "reported_loss_prior"],
      lowerKey f = f ∧ ruleOf [] f = some ⟨.sum, [f]⟩ := by
  decide +kernel

/-- the list in `additive_rules_bound` is the Spec's `additiveFields` -/
theorem additiveFields_eq :
    additiveFields =
      ["paid_loss", "reported_loss", "incurred_loss",
       "earned_premium", "used_earned_premium", "written_premium",
       "earned_exposure", "written_exposure",
       "reported_claims", "open_claims", "closed_claims", "closed_with_pay_claims",
       "reported_count", "open_count", "closed_count", "closed_with_pay_count",
       "incurred_loss_developed", "paid_loss_developed", "reported_loss_developed",
       "incurred_loss_prior", "paid_loss_prior", "reported_loss_prior"] := rfl

/-- ratio fields carry the documented weights; `log_industry_lr` is the exp/log variant weighted by
`earned_premium` (only the key binding is provable: exp/log are outside the model) -/
theorem ratio_rules_bound :
    ruleOf [] "implied_atu" = some ⟨.wavg, ["implied_atu", "reported_loss"]⟩ ∧
    ruleOf [] "bf_weight" = some ⟨.wavg, ["bf_weight", "reported_loss"]⟩ ∧
    ruleOf [] "geometric_weight" = some ⟨.wavg, ["geometric_weight", "reported_loss"]⟩ ∧
    ruleOf [] "log_industry_lr" = some ⟨.wavglog, ["log_industry_lr", "earned_premium"]⟩ := by
  decide +kernel

/-- the table has no entry beyond the 22 additive and the 4 ratio fields, and the extraction succeeded -/
theorem rules_complete :
    Generated.Summarize.ok = true ∧
    ∀ e ∈ Generated.Summarize.summarizeRules,
      e.1 ∈ additiveFields ∨ e.1 ∈ ratioFields ∨ e.1 = "log_industry_lr" := by
  decide +kernel

/-- NON_LOSS_METRICS: the five premium/exposure fields and the three reported_loss-weighted ratios -/
theorem non_loss_metrics_bound :
    (∀ f ∈ Generated.Summarize.nonLossMetrics, f ∈ premiumFields ∨ f ∈ ratioFields) ∧
    (∀ f ∈ premiumFields ++ ratioFields, f ∈ Generated.Summarize.nonLossMetrics) := by
  decide +kernel

end Bermuda.Properties.C09
