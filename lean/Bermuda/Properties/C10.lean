/-
C10 — join / merge / coalesce / add_statics / period_merge obey their relational definitions.
Only property theorems live here (helper lemmas: `Lemmas/Join.lean`).
-/
import Bermuda.Lemmas.Join
import Bermuda.Properties.C01
namespace Bermuda.Properties.C10
open Bermuda List
open Bermuda.Properties.C01 (ofCells_perm ofCells_sorted ofCells_ok_iff ofCells_idem Canonical kindsConsistent_perm)

/-! ### 1. join: the returned coordinates are the relational set expression -/

/-- **join_keys** (after the `on` reduction): for each of the six join types the coordinates of the
returned pairs are pairwise distinct (one pair per coordinate), every pair has a coordinate, and a
coordinate is returned iff it satisfies the set expression of the join type on the operands' key
sets (full = ∪, inner = ∩, left, right, left_anti = A \ B, right_anti = B \ A).
No distinct-keys hypothesis is needed: this holds for the dict-based algorithm as is. -/
theorem join_keys (ty : JoinType) (a b : List Cell) :
    let inc := isIncremental a
    let ks := (joinCore ty a b).map (Spec.pairKey? inc)
    ks.Nodup ∧ none ∉ ks ∧
    ∀ k, some k ∈ ks ↔
      Spec.setExpr ty (a.map (joinKey inc)) (b.map (joinKey inc)) k = true := by
  intro inc ks
  have hks : ks = ((allCoordinates a b).filter (Spec.setExpr ty (a.map (joinKey inc))
      (b.map (joinKey inc)))).map some := joinCore_keys ty a b
  rw [hks]
  refine ⟨?_, by simp, fun k => ?_⟩
  · exact List.Pairwise.map some (fun x y h => by simpa using h) ((nodup_allCoordinates a b).filter _)
  · simp only [List.mem_map, List.mem_filter, Option.some.injEq, exists_eq_right]
    exact ⟨fun h => h.2, fun h => ⟨mem_allCoordinates.mpr (setExpr_mem h), h⟩⟩


/-! ### 2. the `join` wrapper: class check, `on` reduction -/

theorem join_ok {ty : JoinType} {on : Option (List String)} {a b : List Cell} {ps : List CellPair}
    (h : join (some ty) on a b = .ok ps) :
    kindMismatch a b = false ∧
    ∃ a' b', reduceOn on a = .ok a' ∧ reduceOn on b = .ok b' ∧ ps = joinCore ty a' b' := by
  unfold join at h
  simp only [bind, Except.bind, pure, Except.pure, throw, throwThe, MonadExceptOf.throw] at h
  split at h
  · cases h
  · rename_i hk
    have hkm : kindMismatch a b = false := by simpa using hk
    split at h
    · cases h
    · rename_i a' ha
      split at h
      · cases h
      · rename_i b' hb
        cases h
        exact ⟨hkm, a', b', ha, hb, rfl⟩

/-- a class mismatch of two non-empty operands is a `ValueError`, whatever the other arguments -/
theorem join_kind_mismatch {ty : Option JoinType} {on : Option (List String)} {a b : List Cell}
    (h : kindMismatch a b = true) : join ty on a b = .error .valueError := by
  unfold join
  simp [h, bind, Except.bind, throw, throwThe, MonadExceptOf.throw]

/-- an unrecognised join type is a `ValueError` (if nothing raised earlier it is raised last) -/
theorem join_unknown_type {on : Option (List String)} {a b : List Cell} :
    ∃ e, join none on a b = .error e := by
  unfold join
  simp only [bind, Except.bind, throw, throwThe, MonadExceptOf.throw]
  split
  · exact ⟨_, rfl⟩
  · split
    · exact ⟨_, rfl⟩
    · split
      · exact ⟨_, rfl⟩
      · exact ⟨_, rfl⟩

theorem reduceOn_perm {on : Option (List String)} {a a' : List Cell}
    (h : reduceOn on a = .ok a') : a'.Perm (Spec.onCells on a) := by
  unfold reduceOn at h
  unfold Spec.onCells
  split at h
  · exact ofCells_perm h
  · rename_i hh
    cases h; split
    · rename_i x xs; exact absurd rfl (hh x xs)
    · exact List.Perm.refl _

theorem isIncremental_of_consistent {l : List Cell} (h : kindsConsistent l = true) :
    isIncremental l = (!l.isEmpty && l.all (·.kind == .incremental)) := by
  cases l with
  | nil => rfl
  | cons c l =>
    simp only [isIncremental, List.isEmpty_cons, Bool.not_false, Bool.true_and, List.all_cons]
    unfold kindsConsistent at h
    simp only [List.all_cons, Bool.or_eq_true, Bool.and_eq_true] at h
    cases hk : c.kind <;> simp_all

theorem isIncremental_perm {l l' : List Cell} (hp : l.Perm l') (h : kindsConsistent l = true) :
    isIncremental l' = isIncremental l := by
  rw [isIncremental_of_consistent h, isIncremental_of_consistent ((kindsConsistent_perm hp) ▸ h)]
  congr 1
  · cases l <;> cases l' <;> simp_all
  · rw [Bool.eq_iff_iff]; simp only [List.all_eq_true, hp.mem_iff]

theorem reduceOn_isIncremental {on : Option (List String)} {a a' : List Cell}
    (h : reduceOn on a = .ok a') : isIncremental a' = isIncremental a := by
  unfold reduceOn at h
  split at h
  · rename_i x xs
    have hc : kindsConsistent (a.map (·.selectOn (x :: xs))) = true :=
      (ofCells_ok_iff _).mp ⟨a', h⟩
    rw [isIncremental_perm (ofCells_perm h).symm hc]
    cases a <;> rfl
  · cases h; rfl


theorem setExpr_congr {ty : JoinType} {A B A' B' : List Coord} (hA : ∀ k, k ∈ A ↔ k ∈ A')
    (hB : ∀ k, k ∈ B ↔ k ∈ B') (k : Coord) : Spec.setExpr ty A B k = Spec.setExpr ty A' B' k := by
  have h1 : A.contains k = A'.contains k := by
    rw [Bool.eq_iff_iff, List.contains_iff_mem, List.contains_iff_mem]; exact hA k
  have h2 : B.contains k = B'.contains k := by
    rw [Bool.eq_iff_iff, List.contains_iff_mem, List.contains_iff_mem]; exact hB k
  cases ty <;> simp only [Spec.setExpr, h1, h2]

/-- **join_keys** for `join` itself, `on` included: the coordinates of the result are those of the
set expression on the keys of the operands *with metadata reduced to `on`*. -/
theorem join_keys_on {ty : JoinType} {on : Option (List String)} {a b : List Cell}
    {ps : List CellPair} (h : join (some ty) on a b = .ok ps) :
    let inc := isIncremental a
    let ks := ps.map (Spec.pairKey? inc)
    ks.Nodup ∧ none ∉ ks ∧
    ∀ k, some k ∈ ks ↔
      Spec.setExpr ty ((Spec.onCells on a).map (joinKey inc)) ((Spec.onCells on b).map (joinKey inc)) k
        = true := by
  obtain ⟨_, a', b', ha, hb, rfl⟩ := join_ok h
  have hi := reduceOn_isIncremental ha
  have := join_keys ty a' b'
  rw [hi] at this
  refine ⟨this.1, this.2.1, fun k => ?_⟩
  rw [this.2.2 k, setExpr_congr (fun k => ((reduceOn_perm ha).map _).mem_iff)
    (fun k => ((reduceOn_perm hb).map _).mem_iff)]

/-! ### 3. join carries the original cells, metadata reduced to `on` -/

theorem mem_of_mem_joinCore {ty : JoinType} {a b : List Cell} {p : CellPair}
    (hp : p ∈ joinCore ty a b) :
    (∀ c, p.1 = some c → c ∈ a) ∧ (∀ c, p.2 = some c → c ∈ b) := by
  rw [joinCore_eq] at hp
  obtain ⟨k, _, rfl⟩ := List.mem_map.mp hp
  exact ⟨fun c hc => (dictGet_some hc).1, fun c hc => (dictGet_some hc).1⟩

/-- **join_carries_originals**: every cell in a returned pair is a cell of the corresponding
operand (left cell from the left operand, right cell from the right one), unchanged except that its
metadata is reduced to `on` when `on` is given. -/
theorem join_carries_originals {ty : JoinType} {on : Option (List String)} {a b : List Cell}
    {ps : List CellPair} (h : join (some ty) on a b = .ok ps) :
    ∀ p ∈ ps, (∀ c, p.1 = some c → c ∈ Spec.onCells on a) ∧
              (∀ c, p.2 = some c → c ∈ Spec.onCells on b) := by
  obtain ⟨_, a', b', ha, hb, rfl⟩ := join_ok h
  intro p hp
  have := mem_of_mem_joinCore hp
  exact ⟨fun c hc => (reduceOn_perm ha).mem_iff.mp (this.1 c hc),
         fun c hc => (reduceOn_perm hb).mem_iff.mp (this.2 c hc)⟩

/-- **join_on_metadata**: with a non-empty `on`, every returned cell is `c₀.selectOn on` for an
original cell `c₀`: attributes outside `on` are `None`, details keep only the keys in `on`,
everything else (dates, values, class) is `c₀`'s. -/
theorem join_on_metadata {ty : JoinType} {x : String} {xs : List String} {a b : List Cell}
    {ps : List CellPair} (h : join (some ty) (some (x :: xs)) a b = .ok ps) :
    ∀ p ∈ ps, (∀ c, p.1 = some c → ∃ c₀ ∈ a, c = c₀.selectOn (x :: xs)) ∧
              (∀ c, p.2 = some c → ∃ c₀ ∈ b, c = c₀.selectOn (x :: xs)) := by
  intro p hp
  have := join_carries_originals h p hp
  simp only [Spec.onCells, List.mem_map] at this
  exact ⟨fun c hc => (this.1 c hc).imp fun c₀ h => ⟨h.1, h.2.symm⟩,
         fun c hc => (this.2 c hc).imp fun c₀ h => ⟨h.1, h.2.symm⟩⟩

/-- without `on` (or with the falsy `[]`) the cells are the operands' own cells -/
theorem join_no_on {ty : JoinType} {a b : List Cell} {ps : List CellPair}
    (h : join (some ty) none a b = .ok ps) : ps = joinCore ty a b := by
  obtain ⟨_, a', b', ha, hb, rfl⟩ := join_ok h
  cases ha; cases hb; rfl

theorem cellAt_eq_some_iff {inc : Bool} {t : List Cell} (hn : (t.map (joinKey inc)).Nodup)
    {k : Coord} {c : Cell} : Spec.cellAt inc t k = some c ↔ c ∈ t ∧ joinKey inc c = k := by
  rw [← dictGet_eq_cellAt hn]
  constructor
  · exact dictGet_some
  · rintro ⟨hc, rfl⟩
    induction t with
    | nil => cases hc
    | cons d t ih =>
      rw [List.map_cons, List.nodup_cons] at hn
      simp only [dictGet]
      rcases List.mem_cons.mp hc with rfl | hc
      · rw [dictGet_none_of_not_mem hn.1]; simp
      · rw [ih hn.2 hc]

theorem cellAt_perm {inc : Bool} {t t' : List Cell} (hn : (t.map (joinKey inc)).Nodup)
    (hp : t.Perm t') (k : Coord) : Spec.cellAt inc t k = Spec.cellAt inc t' k := by
  have hn' : (t'.map (joinKey inc)).Nodup := (hp.map _).nodup_iff.mp hn
  cases h : Spec.cellAt inc t' k with
  | some c =>
    rw [cellAt_eq_some_iff hn]
    have := (cellAt_eq_some_iff hn').mp h
    exact ⟨hp.mem_iff.mpr this.1, this.2⟩
  | none =>
    cases h2 : Spec.cellAt inc t k with
    | none => rfl
    | some c =>
      have := (cellAt_eq_some_iff hn).mp h2
      rw [(cellAt_eq_some_iff hn').mpr ⟨hp.mem_iff.mp this.1, this.2⟩] at h
      cases h

/-- **join pairs are exactly (left cell at k, right cell at k)** under the distinct-keys
hypothesis: the pair returned for coordinate `k` holds *the* cell of each (reduced) operand at `k`,
or `None` where the operand has none. -/
theorem join_pairs_exact {ty : JoinType} {on : Option (List String)} {a b : List Cell}
    {ps : List CellPair} (h : join (some ty) on a b = .ok ps)
    (hna : ((Spec.onCells on a).map (joinKey (isIncremental a))).Nodup)
    (hnb : ((Spec.onCells on b).map (joinKey (isIncremental a))).Nodup) :
    ∀ p ∈ ps, ∃ k, Spec.pairKey? (isIncremental a) p = some k ∧
      p = (Spec.cellAt (isIncremental a) (Spec.onCells on a) k,
           Spec.cellAt (isIncremental a) (Spec.onCells on b) k) := by
  obtain ⟨_, a', b', ha, hb, rfl⟩ := join_ok h
  have hi := reduceOn_isIncremental ha
  have hpa := reduceOn_perm ha
  have hpb := reduceOn_perm hb
  have hna' : (a'.map (joinKey (isIncremental a))).Nodup := (hpa.map _).nodup_iff.mpr hna
  have hnb' : (b'.map (joinKey (isIncremental a))).Nodup := (hpb.map _).nodup_iff.mpr hnb
  intro p hp
  rw [joinCore_eq] at hp
  obtain ⟨k, hk, rfl⟩ := List.mem_map.mp hp
  refine ⟨k, ?_, ?_⟩
  · rw [← hi]; exact pairKey_pairOf (List.mem_filter.mp hk).1
  · rw [hi]; unfold pairOf
    rw [dictGet_eq_cellAt hna', dictGet_eq_cellAt hnb', cellAt_perm hna' hpa, cellAt_perm hnb' hpb]

/-! ### 4. merge -/

theorem merge_ok {ty : JoinType} {on : Option (List String)} {a b out : List Cell}
    (h : merge (some ty) on a b = .ok out) :
    ∃ ps, join (some ty) on a b = .ok ps ∧ out.Perm (ps.filterMap mergeCellPair) ∧
      out.Pairwise (fun x y => Cell.le x y) := by
  unfold merge at h
  simp only [bind, Except.bind] at h
  split at h
  · cases h
  · rename_i ps hps
    exact ⟨ps, hps, ofCells_perm h, ofCells_sorted h⟩

/-- the cells of the merge are exactly the images of the joined pairs -/
theorem merge_cells {ty : JoinType} {on : Option (List String)} {a b out : List Cell}
    {ps : List CellPair} (h : merge (some ty) on a b = .ok out)
    (hj : join (some ty) on a b = .ok ps) (c : Cell) :
    c ∈ out ↔ ∃ p ∈ ps, mergeCellPair p = some c := by
  obtain ⟨ps', hj', hperm, _⟩ := merge_ok h
  rw [hj] at hj'; cases hj'
  rw [hperm.mem_iff, List.mem_filterMap]

/-- **merge_values**: a coordinate present on both sides carries the LEFT cell's frame (class,
dates, reduced metadata) and the right-biased union of the two value dicts: every field of either
cell is present, and a field present on the right has the right value. -/
theorem merge_values {ty : JoinType} {on : Option (List String)} {a b out : List Cell}
    {ps : List CellPair} (h : merge (some ty) on a b = .ok out)
    (hj : join (some ty) on a b = .ok ps) {x y : Cell} (hp : (some x, some y) ∈ ps)
    (hy : y.values.WF) :
    ∃ c ∈ out, c = { x with values := c.values } ∧
      (∀ f, c.values.get? f = (y.values.get? f).or (x.values.get? f)) ∧
      (∀ f, f ∈ c.values.keys ↔ f ∈ x.values.keys ∨ f ∈ y.values.keys) := by
  refine ⟨{ x with values := x.values.union y.values }, ?_, rfl, ?_, ?_⟩
  · exact (merge_cells h hj _).mpr ⟨_, hp, rfl⟩
  · exact fun f => Dict.get?_union x.values y.values hy f
  · exact fun f => Dict.mem_keys_union x.values y.values f

/-- **merge_unmatched_id**: a coordinate present on one side only carries that side's cell
unchanged. -/
theorem merge_unmatched_id {ty : JoinType} {on : Option (List String)} {a b out : List Cell}
    {ps : List CellPair} (h : merge (some ty) on a b = .ok out)
    (hj : join (some ty) on a b = .ok ps) :
    (∀ x, (some x, none) ∈ ps → x ∈ out) ∧ (∀ y, (none, some y) ∈ ps → y ∈ out) :=
  ⟨fun x hx => (merge_cells h hj x).mpr ⟨_, hx, rfl⟩,
   fun y hy => (merge_cells h hj y).mpr ⟨_, hy, rfl⟩⟩

theorem mergeCellPair_isSome {inc : Bool} {p : CellPair} (h : Spec.pairKey? inc p ≠ none) :
    (mergeCellPair p).isSome = true := by
  obtain ⟨p1, p2⟩ := p
  cases p1 <;> cases p2 <;> simp_all [mergeCellPair, Spec.pairKey?]

/-- one merged cell per joined pair: `(None, None)` never occurs, nothing is dropped -/
theorem merge_length {ty : JoinType} {on : Option (List String)} {a b out : List Cell}
    {ps : List CellPair} (h : merge (some ty) on a b = .ok out)
    (hj : join (some ty) on a b = .ok ps) : out.length = ps.length := by
  obtain ⟨ps', hj', hperm, _⟩ := merge_ok h
  rw [hj] at hj'; cases hj'
  rw [hperm.length_eq]
  have hk := (join_keys_on hj).2.1
  have : ∀ p ∈ ps, (mergeCellPair p).isSome = true := fun p hp =>
    mergeCellPair_isSome (inc := isIncremental a) (fun hn => hk (List.mem_map.mpr ⟨p, hp, hn⟩))
  clear hperm hj h hk
  induction ps with
  | nil => rfl
  | cons p ps ih =>
    have hp := this p (by simp)
    rw [List.filterMap_cons]
    cases hm : mergeCellPair p with
    | none => rw [hm] at hp; cases hp
    | some c => simp [ih (fun q hq => this q (by simp [hq]))]

end Bermuda.Properties.C10
