/-
C10 — join / merge / coalesce / add_statics / period_merge obey their relational definitions.
Only property theorems live here (helper lemmas: `Lemmas/Join.lean`, `Lemmas/JoinSpec.lean`,
`Lemmas/JoinRegroup.lean`, `Lemmas/JoinHelpers.lean` — the last one holds the generic helpers that
used to sit in this file, same namespace).
-/
import Bermuda.Lemmas.Join
import Bermuda.Lemmas.JoinSpec
import Bermuda.Lemmas.JoinRegroup
import Bermuda.Lemmas.JoinHelpers
import Bermuda.Properties.C01
namespace Bermuda.Properties.C10
open Bermuda List Bermuda.JoinL
open Bermuda.Properties.C01 (ofCells_perm ofCells_sorted ofCells_ok_iff ofCells_idem Canonical kindsConsistent_perm ofCells_perm_invariant)

/-! ### 1. join: the returned coordinates are the relational set expression -/

/-- **join_keys** (after the `on` reduction): for each of the six join types the coordinates of the
returned pairs are pairwise distinct (one pair per coordinate), every pair has a coordinate, and a
coordinate is returned iff it satisfies the set expression of the join type on the operands' key
sets (full = ∪, inner = ∩, left, right, left_anti = A \ B, right_anti = B \ A).
No distinct-keys hypothesis is needed: this holds for the dict-based algorithm as is. -/
theorem join_keys (ty : JoinType) (a b : List Cell) :
    let inc := isIncremental a
    let ks := (joinCore ty a b).map (Spec.pairKey? inc)
    ks.Nodup ∧ none ∉ ks ∧
    ∀ k, some k ∈ ks ↔
      Spec.setExpr ty (a.map (joinKey inc)) (b.map (joinKey inc)) k = true := by
  intro inc ks
  have hks : ks = ((allCoordinates a b).filter (Spec.setExpr ty (a.map (joinKey inc))
      (b.map (joinKey inc)))).map some := joinCore_keys ty a b
  rw [hks]
  refine ⟨?_, by simp, fun k => ?_⟩
  · exact List.Pairwise.map some (fun x y h => by simpa using h) ((nodup_allCoordinates a b).filter _)
  · simp only [List.mem_map, List.mem_filter, Option.some.injEq, exists_eq_right]
    exact ⟨fun h => h.2, fun h => ⟨mem_allCoordinates.mpr (setExpr_mem h), h⟩⟩


/-! ### 2. the `join` wrapper: class check, `on` reduction -/

theorem join_ok {ty : JoinType} {on : Option (List String)} {a b : List Cell} {ps : List CellPair}
    (h : join (some ty) on a b = .ok ps) :
    kindMismatch a b = false ∧
    ∃ a' b', reduceOn on a = .ok a' ∧ reduceOn on b = .ok b' ∧ ps = joinCore ty a' b' := by
  unfold join at h
  simp only [bind, Except.bind, pure, Except.pure, throw, throwThe, MonadExceptOf.throw] at h
  split at h
  · cases h
  · rename_i hk
    have hkm : kindMismatch a b = false := by simpa using hk
    split at h
    · cases h
    · rename_i a' ha
      split at h
      · cases h
      · rename_i b' hb
        cases h
        exact ⟨hkm, a', b', ha, hb, rfl⟩

/-- a class mismatch of two non-empty operands is a `ValueError`, whatever the other arguments -/
theorem join_kind_mismatch {ty : Option JoinType} {on : Option (List String)} {a b : List Cell}
    (h : kindMismatch a b = true) : join ty on a b = .error .valueError := by
  unfold join
  simp [h, bind, Except.bind, throw, throwThe, MonadExceptOf.throw]

/-- an unrecognised join type is a `ValueError` (if nothing raised earlier it is raised last) -/
theorem join_unknown_type {on : Option (List String)} {a b : List Cell} :
    ∃ e, join none on a b = .error e := by
  unfold join
  simp only [bind, Except.bind, throw, throwThe, MonadExceptOf.throw]
  split
  · exact ⟨_, rfl⟩
  · split
    · exact ⟨_, rfl⟩
    · split
      · exact ⟨_, rfl⟩
      · exact ⟨_, rfl⟩

theorem reduceOn_perm {on : Option (List String)} {a a' : List Cell}
    (h : reduceOn on a = .ok a') : a'.Perm (Spec.onCells on a) := by
  unfold reduceOn at h
  unfold Spec.onCells
  split at h
  · exact ofCells_perm h
  · rename_i hh
    cases h; split
    · rename_i x xs; exact absurd rfl (hh x xs)
    · exact List.Perm.refl _

theorem reduceOn_isIncremental {on : Option (List String)} {a a' : List Cell}
    (h : reduceOn on a = .ok a') : isIncremental a' = isIncremental a := by
  unfold reduceOn at h
  split at h
  · rename_i x xs
    have hc : kindsConsistent (a.map (·.selectOn (x :: xs))) = true :=
      (ofCells_ok_iff _).mp ⟨a', h⟩
    rw [isIncremental_perm (ofCells_perm h).symm hc]
    cases a <;> rfl
  · cases h; rfl


/-- **join_keys** for `join` itself, `on` included: the coordinates of the result are those of the
set expression on the keys of the operands *with metadata reduced to `on`*. -/
theorem join_keys_on {ty : JoinType} {on : Option (List String)} {a b : List Cell}
    {ps : List CellPair} (h : join (some ty) on a b = .ok ps) :
    let inc := isIncremental a
    let ks := ps.map (Spec.pairKey? inc)
    ks.Nodup ∧ none ∉ ks ∧
    ∀ k, some k ∈ ks ↔
      Spec.setExpr ty ((Spec.onCells on a).map (joinKey inc)) ((Spec.onCells on b).map (joinKey inc)) k
        = true := by
  obtain ⟨_, a', b', ha, hb, rfl⟩ := join_ok h
  have hi := reduceOn_isIncremental ha
  have := join_keys ty a' b'
  rw [hi] at this
  refine ⟨this.1, this.2.1, fun k => ?_⟩
  rw [this.2.2 k, setExpr_congr (fun k => ((reduceOn_perm ha).map _).mem_iff)
    (fun k => ((reduceOn_perm hb).map _).mem_iff)]

/-- **pair_not_both_none**: `(None, None)` never comes out of `join` (every returned pair has a
coordinate: conjunct `none ∉ ks` of `join_keys_on`) — what `_merge_cell_pair` relies on. -/
theorem pair_not_both_none {ty : JoinType} {on : Option (List String)} {a b : List Cell}
    {ps : List CellPair} (h : join (some ty) on a b = .ok ps) : (none, none) ∉ ps := fun hp =>
  (join_keys_on h).2.1 (List.mem_map.mpr ⟨(none, none), hp, rfl⟩)

/-! ### 3. join carries the original cells, metadata reduced to `on` -/

/-- **join_carries_originals**: every cell in a returned pair is a cell of the corresponding
operand (left cell from the left operand, right cell from the right one), unchanged except that its
metadata is reduced to `on` when `on` is given. -/
theorem join_carries_originals {ty : JoinType} {on : Option (List String)} {a b : List Cell}
    {ps : List CellPair} (h : join (some ty) on a b = .ok ps) :
    ∀ p ∈ ps, (∀ c, p.1 = some c → c ∈ Spec.onCells on a) ∧
              (∀ c, p.2 = some c → c ∈ Spec.onCells on b) := by
  obtain ⟨_, a', b', ha, hb, rfl⟩ := join_ok h
  intro p hp
  have := mem_of_mem_joinCore hp
  exact ⟨fun c hc => (reduceOn_perm ha).mem_iff.mp (this.1 c hc),
         fun c hc => (reduceOn_perm hb).mem_iff.mp (this.2 c hc)⟩

/-- **join_on_metadata**: with a non-empty `on`, every returned cell is `c₀.selectOn on` for an
original cell `c₀`: attributes outside `on` are `None`, details keep only the keys in `on`,
everything else (dates, values, class) is `c₀`'s. -/
theorem join_on_metadata {ty : JoinType} {x : String} {xs : List String} {a b : List Cell}
    {ps : List CellPair} (h : join (some ty) (some (x :: xs)) a b = .ok ps) :
    ∀ p ∈ ps, (∀ c, p.1 = some c → ∃ c₀ ∈ a, c = c₀.selectOn (x :: xs)) ∧
              (∀ c, p.2 = some c → ∃ c₀ ∈ b, c = c₀.selectOn (x :: xs)) := by
  intro p hp
  have := join_carries_originals h p hp
  simp only [Spec.onCells, List.mem_map] at this
  exact ⟨fun c hc => (this.1 c hc).imp fun c₀ h => ⟨h.1, h.2.symm⟩,
         fun c hc => (this.2 c hc).imp fun c₀ h => ⟨h.1, h.2.symm⟩⟩

/-- **selectOn_spec** — "metadata reduced to `on`", field by field: each of the six attributes is kept
when its name is in `on` and `None` otherwise (also `risk_basis`, whose constructor default is
"Accident"); `details` / `loss_details` keep exactly the entries whose key is in `on`, with their
values. -/
theorem selectOn_spec (m : Metadata) (on : List String) :
    ((m.selectOn on).riskBasis = if "risk_basis" ∈ on then m.riskBasis else none) ∧
    ((m.selectOn on).country = if "country" ∈ on then m.country else none) ∧
    ((m.selectOn on).currency = if "currency" ∈ on then m.currency else none) ∧
    ((m.selectOn on).reinsuranceBasis = if "reinsurance_basis" ∈ on then m.reinsuranceBasis else none) ∧
    ((m.selectOn on).lossDefinition = if "loss_definition" ∈ on then m.lossDefinition else none) ∧
    ((m.selectOn on).limit = if "per_occurrence_limit" ∈ on then m.limit else none) ∧
    (∀ k, (m.selectOn on).details.get? k = if k ∈ on then m.details.get? k else none) ∧
    (∀ k, (m.selectOn on).lossDetails.get? k = if k ∈ on then m.lossDetails.get? k else none) ∧
    (∀ k, k ∈ (m.selectOn on).details.keys ↔ k ∈ on ∧ k ∈ m.details.keys) ∧
    (∀ k, k ∈ (m.selectOn on).lossDetails.keys ↔ k ∈ on ∧ k ∈ m.lossDetails.keys) := by
  have hd : ∀ (d : Dict MVal) k, Dict.get? (d.filter (fun kv => on.contains kv.1)) k =
      if k ∈ on then d.get? k else none := by
    intro d k
    rw [Dict.get?_filter_j d (fun k => on.contains k) k]
    simp only [List.contains_iff_mem]
  have hk : ∀ (d : Dict MVal) k, k ∈ Dict.keys (d.filter (fun kv => on.contains kv.1)) ↔
      k ∈ on ∧ k ∈ d.keys := by
    intro d k
    simp only [Dict.keys, List.mem_map, List.mem_filter, List.contains_iff_mem]
    constructor
    · rintro ⟨kv, ⟨hm, hp⟩, rfl⟩; exact ⟨hp, kv, hm, rfl⟩
    · rintro ⟨hp, kv, hm, rfl⟩; exact ⟨kv, ⟨hm, hp⟩, rfl⟩
  simp only [Metadata.selectOn, List.contains_iff_mem]
  exact ⟨trivial, trivial, trivial, trivial, trivial, trivial, hd _, hd _, hk _, hk _⟩

/-- … and nothing else of the cell changes: class, period, evaluation dates, values -/
theorem selectOn_cell (c : Cell) (on : List String) :
    (c.selectOn on).kind = c.kind ∧ (c.selectOn on).ps = c.ps ∧ (c.selectOn on).pe = c.pe ∧
    (c.selectOn on).ev = c.ev ∧ (c.selectOn on).prev = c.prev ∧ (c.selectOn on).values = c.values ∧
    (c.selectOn on).md = c.md.selectOn on := ⟨rfl, rfl, rfl, rfl, rfl, rfl, rfl⟩

/-- without `on` (or with the falsy `[]`) the cells are the operands' own cells -/
theorem join_no_on {ty : JoinType} {a b : List Cell} {ps : List CellPair}
    (h : join (some ty) none a b = .ok ps) : ps = joinCore ty a b := by
  obtain ⟨_, a', b', ha, hb, rfl⟩ := join_ok h
  cases ha; cases hb; rfl

/-- **join pairs are exactly (left cell at k, right cell at k)** under the distinct-keys
hypothesis: the pair returned for coordinate `k` holds *the* cell of each (reduced) operand at `k`,
or `None` where the operand has none. -/
theorem join_pairs_exact {ty : JoinType} {on : Option (List String)} {a b : List Cell}
    {ps : List CellPair} (h : join (some ty) on a b = .ok ps)
    (hna : ((Spec.onCells on a).map (joinKey (isIncremental a))).Nodup)
    (hnb : ((Spec.onCells on b).map (joinKey (isIncremental a))).Nodup) :
    ∀ p ∈ ps, ∃ k, Spec.pairKey? (isIncremental a) p = some k ∧
      p = (Spec.cellAt (isIncremental a) (Spec.onCells on a) k,
           Spec.cellAt (isIncremental a) (Spec.onCells on b) k) := by
  obtain ⟨_, a', b', ha, hb, rfl⟩ := join_ok h
  have hi := reduceOn_isIncremental ha
  have hpa := reduceOn_perm ha
  have hpb := reduceOn_perm hb
  have hna' : (a'.map (joinKey (isIncremental a))).Nodup := (hpa.map _).nodup_iff.mpr hna
  have hnb' : (b'.map (joinKey (isIncremental a))).Nodup := (hpb.map _).nodup_iff.mpr hnb
  intro p hp
  rw [joinCore_eq] at hp
  obtain ⟨k, hk, rfl⟩ := List.mem_map.mp hp
  refine ⟨k, ?_, ?_⟩
  · rw [← hi]; exact pairKey_pairOf (List.mem_filter.mp hk).1
  · rw [hi]; unfold pairOf
    rw [dictGet_eq_cellAt hna', dictGet_eq_cellAt hnb', cellAt_perm hna' hpa, cellAt_perm hnb' hpb]

/-- **join_pairs_last** — WHICH cell a pair carries, with NO distinct-keys hypothesis: the pair
returned for coordinate `k` is (the LAST cell with key `k` of the left operand, the last cell with key
`k` of the right operand), `None` where the operand has none, the operands taken as join.py indexes
them (`Spec.sortedOn`): with a non-empty `on` the metadata-reduced cells re-sorted by `Triangle(...)`,
otherwise the operand's own cell order. So when slices that differ only outside `on` collapse to one
key, the surviving cell is the one that sorts last among them (ties: the later one in the operand —
the sort is stable). Under distinct keys this is `join_pairs_exact`. -/
theorem join_pairs_last {ty : JoinType} {on : Option (List String)} {a b : List Cell}
    {ps : List CellPair} (h : join (some ty) on a b = .ok ps) :
    ∀ p ∈ ps, ∃ k, Spec.pairKey? (isIncremental a) p = some k ∧
      p = (Spec.cellAtLast (isIncremental a) (Spec.sortedOn on a) k,
           Spec.cellAtLast (isIncremental a) (Spec.sortedOn on b) k) := by
  obtain ⟨_, a', b', ha, hb, rfl⟩ := join_ok h
  have hi := reduceOn_isIncremental ha
  have ea := reduceOn_eq_sortedOn ha
  have eb := reduceOn_eq_sortedOn hb
  intro p hp
  rw [joinCore_eq] at hp
  obtain ⟨k, hk, rfl⟩ := List.mem_map.mp hp
  refine ⟨k, ?_, ?_⟩
  · rw [← hi]; exact pairKey_pairOf (List.mem_filter.mp hk).1
  · rw [hi, ← ea, ← eb]; unfold pairOf
    rw [dictGet_eq_cellAtLast, dictGet_eq_cellAtLast]

/-- **join_pairs_last_max**: the cell a pair carries for an operand is a GREATEST cell, in the
triangle order `Cell.__lt__`, among the operand's (reduced) cells with that coordinate -/
theorem join_pairs_last_max {ty : JoinType} {on : Option (List String)} {a b : List Cell}
    {ps : List CellPair} (h : join (some ty) on a b = .ok ps)
    (hsa : a.Pairwise (fun x y => Cell.le x y)) (hsb : b.Pairwise (fun x y => Cell.le x y)) :
    ∀ p ∈ ps,
      (∀ x, p.1 = some x → ∀ y ∈ Spec.onCells on a,
        joinKey (isIncremental a) y = joinKey (isIncremental a) x → Cell.le y x = true) ∧
      (∀ x, p.2 = some x → ∀ y ∈ Spec.onCells on b,
        joinKey (isIncremental a) y = joinKey (isIncremental a) x → Cell.le y x = true) := by
  intro p hp
  obtain ⟨k, _, rfl⟩ := join_pairs_last h p hp
  refine ⟨fun x hx y hy hk => ?_, fun x hx y hy hk => ?_⟩
  · have hx' : Spec.cellAtLast (isIncremental a) (Spec.sortedOn on a) k = some x := hx
    exact cellAtLast_max (sortedOn_sorted hsa) hx' y ((sortedOn_perm on a).mem_iff.mpr hy)
      (hk.trans (cellAtLast_some hx').2)
  · have hx' : Spec.cellAtLast (isIncremental a) (Spec.sortedOn on b) k = some x := hx
    exact cellAtLast_max (sortedOn_sorted hsb) hx' y ((sortedOn_perm on b).mem_iff.mpr hy)
      (hk.trans (cellAtLast_some hx').2)

/-- **join_pairs_last_own_order** — the same without the sort: when the cells of each operand that
share a coordinate also share `prev_evaluation_date` (always so for cumulative / plain triangles —
`prev_eq_of_not_incremental` — and whenever the left triangle is incremental, `prev` then being part
of the key), the cells of one coordinate tie under `Cell.__lt__`, the stable sort of `Triangle(...)`
keeps their relative order, and the pair carries the LAST cell with that coordinate in the operand's
OWN cell order (metadata reduced to `on`): of several slices that collapse under `on`, the one that
comes last in the triangle survives, the others are dropped without notice. -/
theorem join_pairs_last_own_order {ty : JoinType} {on : Option (List String)} {a b : List Cell}
    {ps : List CellPair} (h : join (some ty) on a b = .ok ps)
    (hpa : ∀ x ∈ a, ∀ y ∈ a, x.prev = y.prev ∨ isIncremental a = true)
    (hpb : ∀ x ∈ b, ∀ y ∈ b, x.prev = y.prev ∨ isIncremental a = true) :
    ∀ p ∈ ps, ∃ k, Spec.pairKey? (isIncremental a) p = some k ∧
      p = (Spec.cellAtLast (isIncremental a) (Spec.onCells on a) k,
           Spec.cellAtLast (isIncremental a) (Spec.onCells on b) k) := by
  intro p hp
  obtain ⟨k, hk, hpe⟩ := join_pairs_last h p hp
  exact ⟨k, hk, by rw [hpe, cellAtLast_sortedOn_of_ties hpa, cellAtLast_sortedOn_of_ties hpb]⟩

/-! ### 4. merge -/

theorem merge_ok {ty : JoinType} {on : Option (List String)} {a b out : List Cell}
    (h : merge (some ty) on a b = .ok out) :
    ∃ ps, join (some ty) on a b = .ok ps ∧ out.Perm (ps.filterMap mergeCellPair) ∧
      out.Pairwise (fun x y => Cell.le x y) := by
  unfold merge at h
  simp only [bind, Except.bind] at h
  split at h
  · cases h
  · rename_i ps hps
    exact ⟨ps, hps, ofCells_perm h, ofCells_sorted h⟩

/-- the cells of the merge are exactly the images of the joined pairs -/
theorem merge_cells {ty : JoinType} {on : Option (List String)} {a b out : List Cell}
    {ps : List CellPair} (h : merge (some ty) on a b = .ok out)
    (hj : join (some ty) on a b = .ok ps) (c : Cell) :
    c ∈ out ↔ ∃ p ∈ ps, mergeCellPair p = some c := by
  obtain ⟨ps', hj', hperm, _⟩ := merge_ok h
  rw [hj] at hj'; cases hj'
  rw [hperm.mem_iff, List.mem_filterMap]

/-- **merge_values**: a coordinate present on both sides carries the LEFT cell's frame (class,
dates, reduced metadata) and the right-biased union of the two value dicts: every field of either
cell is present, and a field present on the right has the right value. -/
theorem merge_values {ty : JoinType} {on : Option (List String)} {a b out : List Cell}
    {ps : List CellPair} (h : merge (some ty) on a b = .ok out)
    (hj : join (some ty) on a b = .ok ps) {x y : Cell} (hp : (some x, some y) ∈ ps)
    (hy : y.values.WF) :
    ∃ c ∈ out, c = { x with values := c.values } ∧
      (∀ f, c.values.get? f = (y.values.get? f).or (x.values.get? f)) ∧
      (∀ f, f ∈ c.values.keys ↔ f ∈ x.values.keys ∨ f ∈ y.values.keys) := by
  refine ⟨{ x with values := x.values.union y.values }, ?_, rfl, ?_, ?_⟩
  · exact (merge_cells h hj _).mpr ⟨_, hp, rfl⟩
  · exact fun f => Dict.get?_union x.values y.values hy f
  · exact fun f => Dict.mem_keys_union x.values y.values f

/-- **merge_unmatched_id**: a coordinate present on one side only carries that side's cell
unchanged. -/
theorem merge_unmatched_id {ty : JoinType} {on : Option (List String)} {a b out : List Cell}
    {ps : List CellPair} (h : merge (some ty) on a b = .ok out)
    (hj : join (some ty) on a b = .ok ps) :
    (∀ x, (some x, none) ∈ ps → x ∈ out) ∧ (∀ y, (none, some y) ∈ ps → y ∈ out) :=
  ⟨fun x hx => (merge_cells h hj x).mpr ⟨_, hx, rfl⟩,
   fun y hy => (merge_cells h hj y).mpr ⟨_, hy, rfl⟩⟩

/-- one merged cell per joined pair: `(None, None)` never occurs, nothing is dropped -/
theorem merge_length {ty : JoinType} {on : Option (List String)} {a b out : List Cell}
    {ps : List CellPair} (h : merge (some ty) on a b = .ok out)
    (hj : join (some ty) on a b = .ok ps) : out.length = ps.length := by
  obtain ⟨ps', hj', hperm, _⟩ := merge_ok h
  rw [hj] at hj'; cases hj'
  rw [hperm.length_eq]
  have hk := (join_keys_on hj).2.1
  have : ∀ p ∈ ps, (mergeCellPair p).isSome = true := fun p hp =>
    mergeCellPair_isSome (inc := isIncremental a) (fun hn => hk (List.mem_map.mpr ⟨p, hp, hn⟩))
  clear hperm hj h hk
  induction ps with
  | nil => rfl
  | cons p ps ih =>
    have hp := this p (by simp)
    rw [List.filterMap_cons]
    cases hm : mergeCellPair p with
    | none => rw [hm] at hp; cases hp
    | some c => simp [ih (fun q hq => this q (by simp [hq]))]

/-! ### 5. coalesce -/

/-- **coalesce_first_wins**: the result holds exactly the cells that are the FIRST cell with their
coordinate `(metadata, period, evaluation date)` in triangle-list order — the unmodified cell
(equality includes the values) of the earliest triangle that has the coordinate —, one cell per
coordinate, and every coordinate of every triangle is represented. -/
theorem coalesce_first_wins {ts : List (List Cell)} {out : List Cell} (h : coalesce ts = .ok out) :
    (∀ c, c ∈ out ↔ ts.flatten.find? (fun d => coalKey d == coalKey c) = some c) ∧
    (out.map coalKey).Nodup ∧
    (∀ d ∈ ts.flatten, coalKey d ∈ out.map coalKey) := by
  have hp : out.Perm (firstsBy coalKey [] ts.flatten) := ofCells_perm h
  refine ⟨fun c => ?_, ?_, fun d hd => ?_⟩
  · rw [hp.mem_iff, mem_firstsBy]; simp
  · exact (hp.map _).nodup_iff.mpr (firstsBy_keys_nodup coalKey [] _).1
  · rcases firstsBy_covers coalKey [] _ d hd with h | h
    · cases h
    · exact (hp.map _).mem_iff.mpr h

/-- every cell of the first triangle survives (when its coordinates are distinct) -/
theorem coalesce_head_kept {t : List Cell} {ts : List (List Cell)} {out : List Cell}
    (h : coalesce (t :: ts) = .ok out) (hn : (t.map coalKey).Nodup) : ∀ c ∈ t, c ∈ out := by
  intro c hc
  rw [(coalesce_first_wins h).1, List.flatten_cons, List.find?_append]
  have : t.find? (fun d => coalKey d == coalKey c) = some c :=
    (cellAt_eq_some_iff (inc := false) (t := t) hn).mpr ⟨hc, rfl⟩
  rw [this]; rfl

/-- a cell of the second triangle survives when the first triangle lacks its coordinate, and is
shadowed (absent, unless the very same cell is also in the first triangle) when it has it -/
theorem coalesce_later {t u : List Cell} {out : List Cell}
    (h : coalesce [t, u] = .ok out) (hn : (u.map coalKey).Nodup) {c : Cell} (hc : c ∈ u) :
    (coalKey c ∉ t.map coalKey → c ∈ out) ∧ (coalKey c ∈ t.map coalKey → c ∉ t → c ∉ out) := by
  rw [(coalesce_first_wins h).1]
  simp only [List.flatten_cons, List.flatten_nil, List.append_nil, List.find?_append]
  have hu : u.find? (fun d => coalKey d == coalKey c) = some c :=
    (cellAt_eq_some_iff (inc := false) (t := u) hn).mpr ⟨hc, rfl⟩
  cases ht : t.find? (fun d => coalKey d == coalKey c) with
  | none =>
    refine ⟨fun _ => by simp [hu], fun hm => ?_⟩
    obtain ⟨d, hd, hk⟩ := List.mem_map.mp hm
    have := List.find?_eq_none.mp ht d hd
    simp [hk] at this
  | some d =>
    have hd := List.find?_some ht
    have hm := List.mem_of_find?_eq_some ht
    refine ⟨fun hnm => absurd (List.mem_map.mpr ⟨d, hm, by simpa using hd⟩) hnm, fun _ hct => ?_⟩
    simp only [Option.some_or, Option.some.injEq]
    rintro rfl
    exact hct hm

/-! ### 6. add_statics and period_merge: coordinates and count never change -/

theorem addStaticsCell_frame (src : List Cell) (st : List String) (c : Cell) :
    addStaticsCell src st c = { c with values := (addStaticsCell src st c).values } := by
  unfold addStaticsCell
  split <;> rfl

/-- on a triangle the result of `add_statics` is the cell-wise image, in the same order: same
number of cells, same coordinates, class and metadata position by position -/
theorem addStatics_eq_map {t src : List Cell} {st : List String} (ht : Canonical t) :
    addStatics t src st = .ok (t.map (addStaticsCell src st)) :=
  ofCells_idem (frame_map_canonical (addStaticsCell_frame src st) ht)

theorem sourceCell?_spec {src : List Cell} {c s : Cell} (h : sourceCell? src c = some s) :
    s ∈ src ∧ s.md = c.md ∧ s.ps = c.ps ∧ s.pe = c.pe ∧
    ∀ s' ∈ src, s'.md = c.md → s'.ps = c.ps → s'.pe = c.pe → s'.ev ≤ s.ev := by
  unfold sourceCell? at h
  have hle : evLe = leOf (cmpOn (·.ev) Date.cmp) := rfl
  rw [hle] at h
  obtain ⟨hm, hmax⟩ := lastBy?_max h
  obtain ⟨hs, hcond⟩ := List.mem_filter.mp hm
  simp only [Bool.and_eq_true, beq_iff_eq] at hcond
  refine ⟨hs, hcond.1.1, hcond.1.2, hcond.2, fun s' hs' h1 h2 h3 => ?_⟩
  have := hmax s' (List.mem_filter.mpr ⟨hs', by simp [h1, h2, h3]⟩)
  show Date.cmp s'.ev s.ev ≠ .gt
  simpa [leOf, cmpOn] using this

theorem sourceCell?_none {src : List Cell} {c : Cell} (h : sourceCell? src c = none) :
    ∀ s' ∈ src, ¬ (s'.md = c.md ∧ s'.ps = c.ps ∧ s'.pe = c.pe) := by
  unfold sourceCell? lastBy? at h
  intro s' hs' ⟨h1, h2, h3⟩
  have hmem : s' ∈ (src.filter (fun s => s.md == c.md && s.ps == c.ps && s.pe == c.pe)).mergeSort evLe :=
    (List.mergeSort_perm _ _).mem_iff.mpr (List.mem_filter.mpr ⟨hs', by simp [h1, h2, h3]⟩)
  rw [List.getLast?_eq_none_iff] at h
  rw [h] at hmem; cases hmem

/-- **addStatics_spec** (cell level): only requested fields can change; a requested field takes the
value of the LATEST source cell of the same slice (metadata) and period when that cell has the
field, else keeps the cell's own value; without such a source cell the cell is unchanged. -/
theorem addStaticsCell_values (src : List Cell) (st : List String) (c : Cell) :
    (∀ f, f ∉ st → (addStaticsCell src st c).values.get? f = c.values.get? f) ∧
    (∀ s, sourceCell? src c = some s → s.values.WF → ∀ f ∈ st,
        (addStaticsCell src st c).values.get? f = (s.values.get? f).or (c.values.get? f)) ∧
    (sourceCell? src c = none → addStaticsCell src st c = c) := by
  refine ⟨fun f hf => ?_, fun s hs hwf f hf => ?_, fun hn => ?_⟩
  · unfold addStaticsCell
    split
    · simp only [Cell.addStatics]
      apply Dict.get?_union_of_not_mem
      intro hmem
      have := (Dict.keys_filter_sub _ (fun k => st.contains k) hmem).1
      exact hf (List.contains_iff_mem.mp this)
    · rfl
  · unfold addStaticsCell
    rw [hs]
    simp only [Cell.addStatics]
    rw [Dict.get?_union _ _ (Dict.WF_filter hwf _), Dict.get?_filter_j _ (fun k => st.contains k)]
    simp [hf]
  · unfold addStaticsCell; rw [hn]

/-- **addStatics_spec**: on a triangle, `add_statics` returns as many cells as it got, cell `i` of
the result has the frame (class, dates, metadata) of cell `i` of the input, and differs from it
only in requested fields (`addStaticsCell_values` says how). -/
theorem addStatics_spec {t src out : List Cell} {st : List String} (ht : Canonical t)
    (h : addStatics t src st = .ok out) :
    out.length = t.length ∧
    ∀ i (hi : i < t.length) (ho : i < out.length),
      out[i] = { t[i] with values := out[i].values } ∧
      ∀ f, f ∉ st → out[i].values.get? f = t[i].values.get? f := by
  rw [addStatics_eq_map ht] at h
  cases h
  refine ⟨List.length_map _, fun i hi ho => ?_⟩
  rw [List.getElem_map]
  exact ⟨addStaticsCell_frame src st _, (addStaticsCell_values src st _).1⟩

/-! period_merge -/

theorem pmCell_frame (b : List Cell) (suffix : Option String) (c : Cell) :
    pmCell b suffix c = { c with values := (pmCell b suffix c).values } := by
  unfold pmCell
  split <;> rfl

/-- **periodMerge_spec**: on a triangle `period_merge` either raises `ValueError` or returns the
cell-wise image in the same order (same count, frames unchanged); a left cell whose
(period, metadata) has exactly one right cell `r` gets `{**values, **suffixed(r.values)}`, every
other cell is returned as is; success means no index of the left triangle had several right cells
and the classes agree. -/
theorem periodMerge_spec {a b out : List Cell} {suffix : Option String} (ha : Canonical a)
    (h : periodMerge a b suffix = .ok out) :
    kindMismatch a b = false ∧ out = a.map (pmCell b suffix) ∧
    ∀ c ∈ a, (b.filter (samePeriodKey c)).length ≤ 1 := by
  unfold periodMerge at h
  simp only [bind, Except.bind, throw, throwThe, MonadExceptOf.throw] at h
  split at h
  · cases h
  · rename_i hk
    split at h
    · cases h
    · rename_i cells hcells
      obtain ⟨hmap, hall⟩ := mapM_ok_map (g := pmCell b suffix) (fun _ _ => periodMergeCell_ok) hcells
      subst hmap
      rw [ofCells_idem (frame_map_canonical (pmCell_frame b suffix) ha)] at h
      cases h
      refine ⟨by simpa using hk, rfl, fun c hc => ?_⟩
      have := hall c hc
      unfold periodMergeCell at this
      split at this
      · rename_i hf; rw [hf]; simp
      · rename_i r hf; rw [hf]; simp
      · cases this

/-- values of a period-merged cell: right side wins, names suffixed when the suffix is non-empty -/
theorem pmCell_values {b : List Cell} {suffix : Option String} {c r : Cell}
    (h : b.filter (samePeriodKey c) = [r]) (hr : (applySuffix suffix r.values).WF) (f : String) :
    (pmCell b suffix c).values.get? f =
      (Dict.get? (applySuffix suffix r.values) f).or (c.values.get? f) := by
  unfold pmCell; rw [h]
  exact Dict.get?_union _ _ hr f

theorem periodMerge_kind_mismatch {a b : List Cell} {suffix : Option String}
    (h : kindMismatch a b = true) : periodMerge a b suffix = .error .valueError := by
  unfold periodMerge
  simp [h, bind, Except.bind, throw, throwThe, MonadExceptOf.throw]

/-! ### 7. identity law -/

/-- **merge_self**: merging a triangle with itself gives the triangle back (for the four join types
that keep matched coordinates), under distinct keys — the value dicts included, order and all. -/
theorem merge_self {ty : JoinType} (hty : ty = .full ∨ ty = .inner ∨ ty = .left ∨ ty = .right)
    {t : List Cell} (ht : Canonical t) (hn : (t.map (joinKey (isIncremental t))).Nodup)
    (hv : ∀ c ∈ t, c.values.WF) : merge (some ty) none t t = .ok t := by
  have hj : join (some ty) none t t = .ok (joinCore ty t t) := by
    unfold join
    simp [kindMismatch_self, reduceOn, bind, Except.bind, pure, Except.pure]
  unfold merge
  simp only [hj, bind, Except.bind]
  rw [joinCore_self hty hn, List.filterMap_map]
  have : List.filterMap (mergeCellPair ∘ fun c => (some c, some c)) t = t := by
    apply filterMap_eq_self
    intro c hc
    simp only [Function.comp, mergeCellPair, Dict.union_self (hv c hc)]
  rw [this]
  exact ofCells_idem ht

/-! ### 8. the executable Spec predicates hold of the model's results -/

/-- **`Spec.joinSpec` holds of the model's `join`** for every join type and every `on`, under the
distinct-keys hypothesis `Spec.joinHyp` (this is the predicate the driver evaluates on the
implementation's output). -/
theorem joinSpec_of_join {ty : JoinType} {on : Option (List String)} {a b : List Cell}
    {ps : List CellPair} (hyp : Spec.joinHyp on a b = true) (h : join (some ty) on a b = .ok ps) :
    Spec.joinSpec ty on a b ps = true := by
  unfold Spec.joinHyp at hyp
  simp only [Bool.and_eq_true, nodupB_iff] at hyp
  obtain ⟨hna, hnb⟩ := hyp
  obtain ⟨hnd, hnone, hset⟩ := join_keys_on h
  have hex := join_pairs_exact h hna hnb
  unfold Spec.joinSpec
  simp only [Bool.and_eq_true, List.all_eq_true]
  refine ⟨⟨nodupB_iff.mpr hnd, fun p hp => ?_⟩, fun k _ => ?_⟩
  · obtain ⟨k, hk, hpe⟩ := hex p hp
    rw [hk]
    simp only [Bool.and_eq_true, beq_iff_eq]
    refine ⟨⟨(hset k).mp (List.mem_map.mpr ⟨p, hp, hk⟩), ?_⟩, ?_⟩
    · rw [hpe]
    · rw [hpe]
  · simp only [Bool.or_eq_true, Bool.not_eq_true']
    by_cases hs : Spec.setExpr ty ((Spec.onCells on a).map (joinKey (isIncremental a)))
        ((Spec.onCells on b).map (joinKey (isIncremental a))) k = true
    · exact Or.inr (List.contains_iff_mem.mpr ((hset k).mpr hs))
    · exact Or.inl (by simpa using hs)

/-- **`Spec.joinSpecLast` holds of the model's `join`** for every join type, every `on` and
arbitrary operands — no hypothesis. The driver evaluates it on every join case, in particular on
those where `Spec.joinHyp` fails (collapsed slices, duplicate coordinates). -/
theorem joinSpecLast_of_join {ty : JoinType} {on : Option (List String)} {a b : List Cell}
    {ps : List CellPair} (h : join (some ty) on a b = .ok ps) :
    Spec.joinSpecLast ty on a b ps = true := by
  obtain ⟨hnd, hnone, hset⟩ := join_keys_on h
  have hex := join_pairs_last h
  unfold Spec.joinSpecLast
  simp only [Bool.and_eq_true, List.all_eq_true]
  refine ⟨⟨nodupB_iff.mpr hnd, fun p hp => ?_⟩, fun k _ => ?_⟩
  · obtain ⟨k, hk, hpe⟩ := hex p hp
    rw [hk]
    simp only [Bool.and_eq_true, beq_iff_eq]
    refine ⟨⟨(hset k).mp (List.mem_map.mpr ⟨p, hp, hk⟩), ?_⟩, ?_⟩
    · rw [hpe]
    · rw [hpe]
  · simp only [Bool.or_eq_true, Bool.not_eq_true']
    by_cases hs : Spec.setExpr ty ((Spec.onCells on a).map (joinKey (isIncremental a)))
        ((Spec.onCells on b).map (joinKey (isIncremental a))) k = true
    · exact Or.inr (List.contains_iff_mem.mpr ((hset k).mpr hs))
    · exact Or.inl (by simpa using hs)

/-- under the distinct-keys hypothesis the two Spec predicates are the same Bool -/
theorem joinSpecLast_eq_joinSpec {ty : JoinType} {on : Option (List String)} {a b : List Cell}
    (hyp : Spec.joinHyp on a b = true) (ps : List CellPair) :
    Spec.joinSpecLast ty on a b ps = Spec.joinSpec ty on a b ps := by
  unfold Spec.joinHyp at hyp
  simp only [Bool.and_eq_true, nodupB_iff] at hyp
  unfold Spec.joinSpecLast Spec.joinSpec
  simp only [cellAtLast_sortedOn_eq_cellAt hyp.1, cellAtLast_sortedOn_eq_cellAt hyp.2]

/-- **`Spec.coalesceSpec` holds of the model's `coalesce`** (no hypothesis needed) -/
theorem coalesceSpec_of_coalesce {ts : List (List Cell)} {out : List Cell}
    (h : coalesce ts = .ok out) : Spec.coalesceSpec ts out = true := by
  obtain ⟨h1, h2, h3⟩ := coalesce_first_wins h
  unfold Spec.coalesceSpec
  simp only [Bool.and_eq_true, List.all_eq_true, beq_iff_eq]
  exact ⟨⟨nodupB_iff.mpr h2, fun c hc => (h1 c).mp hc⟩,
    fun d hd => List.contains_iff_mem.mpr (h3 d hd)⟩

/-- **`Spec.mergeSpec` holds of the model's `merge`** for every join type and `on`, under the
distinct-keys hypothesis and for value dicts with distinct keys (true of every Python dict). -/
theorem mergeSpec_of_merge {ty : JoinType} {on : Option (List String)} {a b out : List Cell}
    (hyp : Spec.joinHyp on a b = true) (hv : ∀ c ∈ a ++ b, c.values.WF)
    (h : merge (some ty) on a b = .ok out) : Spec.mergeSpec ty on a b out = true := by
  obtain ⟨ps, hj, hperm, _⟩ := merge_ok h
  have hyp' := hyp
  unfold Spec.joinHyp at hyp'
  simp only [Bool.and_eq_true, nodupB_iff] at hyp'
  obtain ⟨hna, hnb⟩ := hyp'
  obtain ⟨hnd, hnone, hset⟩ := join_keys_on hj
  have hex := join_pairs_exact hj hna hnb
  have hkeys := filterMap_merge_keys (inc := isIncremental a) (ps := ps)
    (fun p hp hn => hnone (List.mem_map.mpr ⟨p, hp, hn⟩))
  have hpk : ((out.map (joinKey (isIncremental a))).map some).Perm (ps.map (Spec.pairKey? (isIncremental a))) := by
    rw [← hkeys, List.map_map]
    exact (hperm.map _)
  have hmemk : ∀ k, k ∈ out.map (joinKey (isIncremental a)) ↔
      some k ∈ ps.map (Spec.pairKey? (isIncremental a)) := by
    intro k
    rw [← hpk.mem_iff]
    simp
  unfold Spec.mergeSpec
  simp only [Bool.and_eq_true, List.all_eq_true]
  refine ⟨⟨nodupB_iff.mpr ?_, fun c hc => ?_⟩, fun k _ => ?_⟩
  · have : ((out.map (joinKey (isIncremental a))).map some).Nodup := hpk.nodup_iff.mpr hnd
    exact List.Pairwise.of_map some (fun x y hxy e => hxy (by rw [e])) this
  · obtain ⟨p, hp, hm⟩ := (merge_cells h hj c).mp hc
    obtain ⟨k, hk, hpe⟩ := hex p hp
    have hkc : k = joinKey (isIncremental a) c := by
      have := mergeCellPair_key (inc := isIncremental a) hm
      rw [hk] at this; exact Option.some.inj this
    subst hkc
    refine ⟨(hset _).mp (List.mem_map.mpr ⟨p, hp, hk⟩), ?_⟩
    rw [hpe] at hm
    generalize hx : Spec.cellAt (isIncremental a) (Spec.onCells on a) (joinKey (isIncremental a) c) = ox at hm
    generalize hy : Spec.cellAt (isIncremental a) (Spec.onCells on b) (joinKey (isIncremental a) c) = oy at hm
    cases ox with
    | none =>
      cases oy with
      | none => simp [mergeCellPair] at hm
      | some y => simp [mergeCellPair] at hm; subst hm; simp
    | some x =>
      cases oy with
      | none => simp [mergeCellPair] at hm; subst hm; simp
      | some y =>
        simp only [mergeCellPair, Option.some.injEq] at hm
        subst hm
        have hxm := ((cellAt_eq_some_iff hna).mp hx).1
        have hym := ((cellAt_eq_some_iff hnb).mp hy).1
        obtain ⟨x0, hx0, hxv⟩ := mem_onCells_values hxm
        obtain ⟨y0, hy0, hyv⟩ := mem_onCells_values hym
        have wx : x.values.WF := hxv ▸ hv x0 (List.mem_append.mpr (Or.inl hx0))
        have wy : y.values.WF := hyv ▸ hv y0 (List.mem_append.mpr (Or.inr hy0))
        simp only [Bool.and_eq_true]
        exact ⟨sameFrame_values x _, isRightUnion_union wx wy⟩
  · simp only [Bool.or_eq_true, Bool.not_eq_true']
    by_cases hs : Spec.setExpr ty ((Spec.onCells on a).map (joinKey (isIncremental a)))
        ((Spec.onCells on b).map (joinKey (isIncremental a))) k = true
    · exact Or.inr (List.contains_iff_mem.mpr ((hmemk k).mpr ((hset k).mpr hs)))
    · exact Or.inl (by simpa using hs)

/-- **`Spec.mergeSpecLast` holds of the model's `merge`** for every join type and `on`, for value
dicts with distinct keys — no distinct-coordinates hypothesis. -/
theorem mergeSpecLast_of_merge {ty : JoinType} {on : Option (List String)} {a b out : List Cell}
    (hv : ∀ c ∈ a ++ b, c.values.WF)
    (h : merge (some ty) on a b = .ok out) : Spec.mergeSpecLast ty on a b out = true := by
  obtain ⟨ps, hj, hperm, _⟩ := merge_ok h
  obtain ⟨hnd, hnone, hset⟩ := join_keys_on hj
  have hex := join_pairs_last hj
  have hkeys := filterMap_merge_keys (inc := isIncremental a) (ps := ps)
    (fun p hp hn => hnone (List.mem_map.mpr ⟨p, hp, hn⟩))
  have hpk : ((out.map (joinKey (isIncremental a))).map some).Perm (ps.map (Spec.pairKey? (isIncremental a))) := by
    rw [← hkeys, List.map_map]
    exact (hperm.map _)
  have hmemk : ∀ k, k ∈ out.map (joinKey (isIncremental a)) ↔
      some k ∈ ps.map (Spec.pairKey? (isIncremental a)) := by
    intro k
    rw [← hpk.mem_iff]
    simp
  unfold Spec.mergeSpecLast
  simp only [Bool.and_eq_true, List.all_eq_true]
  refine ⟨⟨nodupB_iff.mpr ?_, fun c hc => ?_⟩, fun k _ => ?_⟩
  · have : ((out.map (joinKey (isIncremental a))).map some).Nodup := hpk.nodup_iff.mpr hnd
    exact List.Pairwise.of_map some (fun x y hxy e => hxy (by rw [e])) this
  · obtain ⟨p, hp, hm⟩ := (merge_cells h hj c).mp hc
    obtain ⟨k, hk, hpe⟩ := hex p hp
    have hkc : k = joinKey (isIncremental a) c := by
      have := mergeCellPair_key (inc := isIncremental a) hm
      rw [hk] at this; exact Option.some.inj this
    subst hkc
    refine ⟨(hset _).mp (List.mem_map.mpr ⟨p, hp, hk⟩), ?_⟩
    rw [hpe] at hm
    generalize hx : Spec.cellAtLast (isIncremental a) (Spec.sortedOn on a) (joinKey (isIncremental a) c) = ox at hm
    generalize hy : Spec.cellAtLast (isIncremental a) (Spec.sortedOn on b) (joinKey (isIncremental a) c) = oy at hm
    cases ox with
    | none =>
      cases oy with
      | none => simp [mergeCellPair] at hm
      | some y => simp [mergeCellPair] at hm; subst hm; simp
    | some x =>
      cases oy with
      | none => simp [mergeCellPair] at hm; subst hm; simp
      | some y =>
        simp only [mergeCellPair, Option.some.injEq] at hm
        subst hm
        have hxm := (cellAtLast_some hx).1
        have hym := (cellAtLast_some hy).1
        obtain ⟨x0, hx0, hxv⟩ := mem_sortedOn_values hxm
        obtain ⟨y0, hy0, hyv⟩ := mem_sortedOn_values hym
        have wx : x.values.WF := hxv ▸ hv x0 (List.mem_append.mpr (Or.inl hx0))
        have wy : y.values.WF := hyv ▸ hv y0 (List.mem_append.mpr (Or.inr hy0))
        simp only [Bool.and_eq_true]
        exact ⟨sameFrame_values x _, isRightUnion_union wx wy⟩
  · simp only [Bool.or_eq_true, Bool.not_eq_true']
    by_cases hs : Spec.setExpr ty ((Spec.onCells on a).map (joinKey (isIncremental a)))
        ((Spec.onCells on b).map (joinKey (isIncremental a))) k = true
    · exact Or.inr (List.contains_iff_mem.mpr ((hmemk k).mpr ((hset k).mpr hs)))
    · exact Or.inl (by simpa using hs)

/-- under the distinct-keys hypothesis the two merge predicates are the same Bool -/
theorem mergeSpecLast_eq_mergeSpec {ty : JoinType} {on : Option (List String)} {a b : List Cell}
    (hyp : Spec.joinHyp on a b = true) (out : List Cell) :
    Spec.mergeSpecLast ty on a b out = Spec.mergeSpec ty on a b out := by
  unfold Spec.joinHyp at hyp
  simp only [Bool.and_eq_true, nodupB_iff] at hyp
  unfold Spec.mergeSpecLast Spec.mergeSpec
  simp only [cellAtLast_sortedOn_eq_cellAt hyp.1, cellAtLast_sortedOn_eq_cellAt hyp.2]

/-- **`Spec.addStaticsSpec` holds of the model's `add_statics`** on a triangle, when the source has
one cell per (metadata, period, evaluation date) and value dicts have distinct keys. -/
theorem addStaticsSpec_of_addStatics {t src out : List Cell} {st : List String} (ht : Canonical t)
    (hyp : Spec.addStaticsHyp t src = true) (hv : ∀ c ∈ t ++ src, c.values.WF)
    (h : addStatics t src st = .ok out) : Spec.addStaticsSpec t src st out = true := by
  rw [addStatics_eq_map ht] at h
  cases h
  unfold Spec.addStaticsHyp at hyp
  simp only [Bool.and_eq_true, nodupB_iff] at hyp
  unfold Spec.addStaticsSpec
  simp only [Bool.and_eq_true, List.length_map, beq_self_eq_true, true_and, zip_map_self,
    List.all_map, List.all_eq_true, Function.comp]
  intro c hc
  refine ⟨sameFrame_of_frame (addStaticsCell_frame src st c), ?_⟩
  rw [latestSource?_eq_sourceCell? hyp.2]
  cases hs : sourceCell? src c with
  | none => simp [(addStaticsCell_values src st c).2.2 hs]
  | some s =>
    simp only []
    have hsm := (sourceCell?_spec hs).1
    have : (addStaticsCell src st c).values =
        c.values.union (s.values.filter (fun kv => st.contains kv.1)) := by
      unfold addStaticsCell; rw [hs]; rfl
    rw [this]
    exact isRightUnion_union (hv c (List.mem_append.mpr (Or.inl hc)))
      (Dict.WF_filter (hv s (List.mem_append.mpr (Or.inr hsm))) _)

/-- **`Spec.periodMergeSpec` holds of the model's `period_merge`** on a triangle, when value dicts
have distinct keys (suffixing keeps them distinct: `WF_applySuffix`). -/
theorem periodMergeSpec_of_periodMerge {a b out : List Cell} {suffix : Option String}
    (ha : Canonical a) (hva : ∀ c ∈ a, c.values.WF)
    (hvb : ∀ c ∈ b, c.values.WF)
    (h : periodMerge a b suffix = .ok out) : Spec.periodMergeSpec a b suffix out = true := by
  obtain ⟨_, rfl, hlen⟩ := periodMerge_spec ha h
  unfold Spec.periodMergeSpec
  simp only [Bool.and_eq_true, List.length_map, beq_self_eq_true, true_and, zip_map_self,
    List.all_map, List.all_eq_true, Function.comp]
  intro c hc
  refine ⟨sameFrame_of_frame (pmCell_frame b suffix c), ?_⟩
  have hfil : b.filter (fun r => r.ps == c.ps && r.pe == c.pe && r.md == c.md) =
      b.filter (samePeriodKey c) := rfl
  rw [hfil]
  have hl := hlen c hc
  unfold pmCell
  generalize hf : b.filter (samePeriodKey c) = F at hl
  match F, hl with
  | [], _ => simp
  | [r], _ =>
    simp only []
    have hr : r ∈ b := (List.mem_filter.mp (hf ▸ List.mem_singleton.mpr rfl)).1
    have hw := WF_applySuffix (hvb r hr) suffix
    cases suffix with
    | none =>
      simp only []
      rw [← applySuffix_none]
      exact isRightUnion_union (hva c hc) hw
    | some s =>
      simp only []
      rw [← applySuffix_some]
      exact isRightUnion_union (hva c hc) hw
  | _ :: _ :: _, hl => simp at hl

/-! ### 8b. select → merge recombination -/

/-- merging two value-only images of one triangle (`t.map f`, `t.map g`, where `f`, `g` rewrite
nothing but `values`) gives, cell by cell and in the same order, the left frame with
`{**f(c).values, **g(c).values}` -/
theorem merge_frame_maps {ty : JoinType} (hty : ty = .full ∨ ty = .inner ∨ ty = .left ∨ ty = .right)
    {f g : Cell → Cell}
    (hf : ∀ c, f c = { c with values := (f c).values })
    (hg : ∀ c, g c = { c with values := (g c).values })
    {t : List Cell} (ht : Canonical t) (hn : (t.map (joinKey (isIncremental t))).Nodup) :
    merge (some ty) none (t.map f) (t.map g) =
      .ok (t.map (fun c => { f c with values := (f c).values.union (g c).values })) := by
  have hkm : kindMismatch (t.map f) (t.map g) = false := by
    cases t with
    | nil => rfl
    | cons c t =>
      simp only [List.map_cons, kindMismatch]
      rw [hf c, hg c]; simp
  have hj : join (some ty) none (t.map f) (t.map g) = .ok (joinCore ty (t.map f) (t.map g)) := by
    unfold join
    simp [hkm, reduceOn, bind, Except.bind, pure, Except.pure]
  have hinc := isIncremental_map_frame hf t
  have hall : allCoordinates (t.map f) (t.map g) = t.map (joinKey (isIncremental t)) := by
    unfold allCoordinates
    simp only [hinc, keys_map_frame hf, keys_map_frame hg]
    rw [dedup_append_of_subset (fun _ h => h), dedup_of_nodup hn]
  have hcore : joinCore ty (t.map f) (t.map g) = t.map (fun c => (some (f c), some (g c))) := by
    rw [joinCore_eq, hall, hinc, keys_map_frame hf, keys_map_frame hg,
      List.filter_eq_self.mpr (fun k hk => setExpr_self hty hk), List.map_map]
    apply List.map_congr_left
    intro c hc
    simp only [Function.comp, pairOf, dictGet_map_frame hf hn hc, dictGet_map_frame hg hn hc]
  unfold merge
  simp only [hj, bind, Except.bind]
  rw [hcore, List.filterMap_map]
  have : List.filterMap (mergeCellPair ∘ fun c => (some (f c), some (g c))) t =
      t.map (fun c => { f c with values := (f c).values.union (g c).values }) := by
    rw [← List.filterMap_eq_map]
    rfl
  rw [this]
  apply ofCells_idem
  exact frame_map_canonical (f := fun c => { f c with values := (f c).values.union (g c).values })
    (fun c => by show _ = _; rw [hf c]) ht


/-- **select_merge_recombine**: split the fields of a triangle with `select ks₁` / `select ks₂` and
merge the parts back (`full`, `inner`, `left` or `right`; no `on`). Hypotheses: `t` is a canonical
triangle, its join keys are distinct, value dicts have distinct keys. Then the result has the cells
of `t` in the same order with the same frames, and as a finite map the value dict of cell `i` is
that of `t[i]` restricted to `ks₁ ∪ ks₂`. -/
theorem select_merge_recombine {ty : JoinType}
    (hty : ty = .full ∨ ty = .inner ∨ ty = .left ∨ ty = .right)
    {t t₁ t₂ m : List Cell} {ks₁ ks₂ : List String} (ht : Canonical t)
    (hn : (t.map (joinKey (isIncremental t))).Nodup) (hv : ∀ c ∈ t, c.values.WF)
    (h₁ : Triangle.select t ks₁ = .ok t₁) (h₂ : Triangle.select t ks₂ = .ok t₂)
    (h : merge (some ty) none t₁ t₂ = .ok m) :
    m.length = t.length ∧
    ∀ i (hi : i < t.length) (hm : i < m.length),
      m[i] = { t[i] with values := m[i].values } ∧ m[i].values.WF ∧
      ∀ f, m[i].values.get? f =
        if ks₁.contains f || ks₂.contains f then t[i].values.get? f else none := by
  rw [select_eq_map ks₁ ht] at h₁; cases h₁
  rw [select_eq_map ks₂ ht] at h₂; cases h₂
  rw [merge_frame_maps hty (select_frame ks₁) (select_frame ks₂) ht hn] at h
  cases h
  refine ⟨List.length_map _, fun i hi hm => ?_⟩
  rw [List.getElem_map]
  have hw := hv t[i] (List.getElem_mem hi)
  have hw₁ : Dict.WF (t[i].values.filter (fun kv => ks₁.contains kv.1)) := Dict.WF_filter hw _
  have hw₂ : Dict.WF (t[i].values.filter (fun kv => ks₂.contains kv.1)) := Dict.WF_filter hw _
  refine ⟨rfl, Dict.WF_union hw₁ _, fun f => ?_⟩
  show Dict.get? (Dict.union (t[i].values.filter (fun kv => ks₁.contains kv.1))
      (t[i].values.filter (fun kv => ks₂.contains kv.1))) f = _
  rw [Dict.get?_union _ _ hw₂, Dict.get?_filter_j _ (fun k => ks₂.contains k),
    Dict.get?_filter_j _ (fun k => ks₁.contains k)]
  cases ks₁.contains f <;> cases ks₂.contains f <;> simp

/-- … and when `ks₁ ∪ ks₂` covers every field, the original triangle comes back: same cells in the
same order, every field with its original value (value dicts equal as finite maps; Python's
`values_eq` / `Cell.__eq__` do not see dict order). -/
theorem select_merge_original {ty : JoinType}
    (hty : ty = .full ∨ ty = .inner ∨ ty = .left ∨ ty = .right)
    {t t₁ t₂ m : List Cell} {ks₁ ks₂ : List String} (ht : Canonical t)
    (hn : (t.map (joinKey (isIncremental t))).Nodup) (hv : ∀ c ∈ t, c.values.WF)
    (hcov : ∀ c ∈ t, ∀ f ∈ c.values.keys, f ∈ ks₁ ∨ f ∈ ks₂)
    (h₁ : Triangle.select t ks₁ = .ok t₁) (h₂ : Triangle.select t ks₂ = .ok t₂)
    (h : merge (some ty) none t₁ t₂ = .ok m) :
    m.length = t.length ∧
    ∀ i (hi : i < t.length) (hm : i < m.length),
      m[i] = { t[i] with values := m[i].values } ∧
      ∀ f, m[i].values.get? f = t[i].values.get? f := by
  obtain ⟨hl, hcells⟩ := select_merge_recombine hty ht hn hv h₁ h₂ h
  refine ⟨hl, fun i hi hm => ⟨(hcells i hi hm).1, fun f => ?_⟩⟩
  rw [(hcells i hi hm).2.2 f]
  split
  · rfl
  · rename_i hnot
    symm
    rw [Dict.get?_eq_none_iff]
    intro hf
    simp only [Bool.or_eq_true, List.contains_iff_mem, not_or] at hnot
    rcases hcov t[i] (List.getElem_mem hi) f hf with h | h
    · exact hnot.1 h
    · exact hnot.2 h

/-! ### 9. non-vacuity: concrete operands satisfy the hypotheses -/

def isValueError {α} : Except Err α → Bool
  | .error .valueError => true
  | _ => false

def exUS : Metadata := { country := some "US", details := [("k", .num 1)] }
def exDE : Metadata := { country := some "DE", details := [("k", .num 2)] }

def exCell (m : Metadata) (ev : Date) (vs : Dict Val) : Cell :=
  { kind := .cumulative, ps := ⟨2020, 1, 1⟩, pe := ⟨2020, 12, 31⟩, ev := ev, values := vs, md := m }

/-- left operand: two slices, three cells -/
def exA : List Cell :=
  [ exCell exDE ⟨2021, 12, 31⟩ [("paid_loss", .int 5)],
    exCell exUS ⟨2021, 12, 31⟩ [("paid_loss", .int 1), ("earned_premium", .int 10)],
    exCell exUS ⟨2022, 12, 31⟩ [("paid_loss", .int 2), ("earned_premium", .int 10)] ]

/-- right operand: shares one coordinate with `exA` (conflicting `paid_loss`, new field), has one
coordinate of its own -/
def exB : List Cell :=
  [ exCell exUS ⟨2021, 12, 31⟩ [("paid_loss", .int 7), ("reported_loss", .int 9)],
    exCell exUS ⟨2023, 12, 31⟩ [("paid_loss", .int 3)] ]

theorem exA_canonical : Canonical exA := by
  refine ⟨by decide +kernel, by decide, by decide⟩

example : Spec.joinHyp none exA exB = true := by decide +kernel
example : Spec.joinHyp (some ["country"]) exA exB = true := by decide +kernel


/-- inner join without `on`: exactly the shared coordinate, carrying both original cells -/
example : (join (some .inner) none exA exB).toOption = some [(exA[1]?, exB[0]?)] := by
  decide +kernel

/-- left_anti: the two left-only coordinates, right side `None` -/
example : (join (some .leftAnti) none exA exB).toOption =
    some [(exA[0]?, none), (exA[2]?, none)] := by decide +kernel

/-- full merge, the list handed to `Triangle(...)`: the matched coordinate has the union of fields
and the right value of `paid_loss`; the other cells are the operands' own -/
example : (joinCore .full exA exB).filterMap mergeCellPair =
    [ exA[0]!, exA[2]!,
      exCell exUS ⟨2021, 12, 31⟩
        [("paid_loss", .int 7), ("earned_premium", .int 10), ("reported_loss", .int 9)],
      exB[1]! ] := by decide +kernel

/-- the hypotheses of `merge_self` are satisfiable -/
example : merge (some .full) none exA exA = .ok exA :=
  merge_self (Or.inl rfl) exA_canonical (by decide +kernel) (by unfold Dict.WF; decide +kernel)

/-- coalesce, the list handed to `Triangle(...)`: the first triangle wins the shared coordinate -/
example : firstsBy coalKey [] [exB, exA].flatten = [exB[0]!, exB[1]!, exA[0]!, exA[2]!] := by
  decide +kernel

/-- period_merge refuses a right triangle with two cells in one (period, metadata) -/
example : isValueError (periodMerge exA exB none) = true := by decide +kernel

/-- … and with one right cell per period suffixes the incoming fields -/
example : exA.map (pmCell [exB[0]!] (some "_r")) =
    [ exA[0]!,
      exCell exUS ⟨2021, 12, 31⟩ [("paid_loss", .int 1), ("earned_premium", .int 10),
        ("paid_loss_r", .int 7), ("reported_loss_r", .int 9)],
      exCell exUS ⟨2022, 12, 31⟩ [("paid_loss", .int 2), ("earned_premium", .int 10),
        ("paid_loss_r", .int 7), ("reported_loss_r", .int 9)] ] := by decide +kernel

/-! #### collapsed slices: `on = ["currency"]` erases country and details, `exA[0]` (DE) and `exA[1]`
(US) get one key — `joinHyp` is false, `join_pairs_last` / `joinSpecLast` still say which cell is carried -/

theorem exA_reduce_currency :
    reduceOn (some ["currency"]) exA = .ok (exA.map (·.selectOn ["currency"])) := by
  simp only [reduceOn, selectMetadata, Triangle.ofCells]
  rw [if_pos (by decide +kernel)]
  exact congrArg _ (List.mergeSort_of_pairwise (by decide +kernel))

theorem exB_reduce_currency :
    reduceOn (some ["currency"]) exB = .ok (exB.map (·.selectOn ["currency"])) := by
  simp only [reduceOn, selectMetadata, Triangle.ofCells]
  rw [if_pos (by decide +kernel)]
  exact congrArg _ (List.mergeSort_of_pairwise (by decide +kernel))

theorem ex_join_on_currency :
    join (some .inner) (some ["currency"]) exA exB =
      .ok [(some (exA[1]!.selectOn ["currency"]), some (exB[0]!.selectOn ["currency"]))] := by
  unfold join
  rw [exA_reduce_currency, exB_reduce_currency]
  simp only [bind, Except.bind, pure, Except.pure]
  rw [if_neg (by decide +kernel)]
  exact congrArg _ (by decide +kernel)

/-- the hypothesis of `join_pairs_last_own_order` holds of `exA` (cumulative cells: no `prev`) -/
example : ∀ x ∈ exA, ∀ y ∈ exA, x.prev = y.prev ∨ isIncremental exA = true :=
  fun x hx y hy => Or.inl (prev_eq_of_not_incremental exA_canonical.2.2 (by decide +kernel) x hx y hy)

/-- … the carried left cell is `exA[1]` (US, sorts last among the collapsed cells), not `exA[0]` -/
example : Spec.joinSpecLast .inner (some ["currency"]) exA exB
    [(some (exA[1]!.selectOn ["currency"]), some (exB[0]!.selectOn ["currency"]))] = true :=
  joinSpecLast_of_join ex_join_on_currency

/-! #### incremental operands; `coalesce` ignores `prev_evaluation_date` (code quirk, modelled as is) -/

/-- incremental cell of the period 2020 evaluated end of 2021, increment since `prev` -/
def exInc (prev : Date) (v : Int) : Cell :=
  { kind := .incremental, ps := ⟨2020, 1, 1⟩, pe := ⟨2020, 12, 31⟩, ev := ⟨2021, 12, 31⟩,
    prev := some prev, values := [("paid_loss", .int v)], md := exUS }

def exI1 : Cell := exInc ⟨2020, 12, 31⟩ 1
def exI2 : Cell := exInc ⟨2021, 6, 30⟩ 2

/-- **coalesce_ignores_prev** (witness): two valid incremental cells with equal metadata, period and
evaluation date but different `prev_evaluation_date` are TWO coordinates for `join` (left operand
incremental ⇒ `prev` is in the key: a full join returns two unmatched pairs) but ONE coordinate for
`coalesce` (`coalKey` = `(metadata, period, evaluation_date)`, as in merge.py): the first triangle's
cell wins and the other increment is dropped — also inside a single triangle
(`coalesce([Triangle([c1, c2])])` has one cell). -/
theorem coalesce_ignores_prev :
    exI1.datesOk = true ∧ exI2.datesOk = true ∧
    joinKey true exI1 ≠ joinKey true exI2 ∧ coalKey exI1 = coalKey exI2 ∧
    (coalesce [[exI1], [exI2]]).toOption = some [exI1] ∧
    (coalesce [[exI2], [exI1]]).toOption = some [exI2] ∧
    (join (some .full) none [exI1] [exI2]).toOption = some [(some exI1, none), (none, some exI2)] ∧
    firstsBy coalKey [] [[exI1, exI2]].flatten = [exI1] := by
  decide +kernel

example : Spec.joinHyp (some ["currency"]) exA exB = false := by decide +kernel

theorem exA_sortedOn_currency :
    Spec.sortedOn (some ["currency"]) exA = exA.map (·.selectOn ["currency"]) :=
  List.mergeSort_of_pairwise (by decide +kernel)
theorem exB_sortedOn_currency :
    Spec.sortedOn (some ["currency"]) exB = exB.map (·.selectOn ["currency"]) :=
  List.mergeSort_of_pairwise (by decide +kernel)

example : Spec.cellAtLast false (Spec.sortedOn (some ["currency"]) exA)
      (joinKey false (exA[0]!.selectOn ["currency"])) = some (exA[1]!.selectOn ["currency"]) := by
  rw [exA_sortedOn_currency]; decide +kernel

/-! #### add_statics -/

/-- source of `add_statics`: two cells for the period of `exA`'s US slice (the later one wins), none for DE -/
def exSrc : List Cell :=
  [ exCell exUS ⟨2021, 12, 31⟩ [("earned_premium", .int 11), ("paid_loss", .int 99)],
    exCell exUS ⟨2023, 12, 31⟩ [("earned_premium", .int 12), ("reported_loss", .int 4)] ]

/-- the hypothesis of `addStaticsSpec_of_addStatics` is satisfiable -/
example : Spec.addStaticsHyp exA exSrc = true := by decide +kernel

/-- add_statics on `exA`: the DE cell (no source slice) is unchanged, the US cells take
`earned_premium` of the LATEST source cell (12, not 11) and nothing else (`paid_loss` 99 and
`reported_loss` are not requested); count, order, coordinates unchanged -/
theorem ex_addStatics : addStatics exA exSrc ["earned_premium"] =
    .ok [ exA[0]!,
      exCell exUS ⟨2021, 12, 31⟩ [("paid_loss", .int 1), ("earned_premium", .int 12)],
      exCell exUS ⟨2022, 12, 31⟩ [("paid_loss", .int 2), ("earned_premium", .int 12)] ] := by
  rw [addStatics_eq_map exA_canonical]
  have hn : (exSrc.map coalKey).Nodup := by decide +kernel
  simp only [exA, List.map, addStaticsCell, ← latestSource?_eq_sourceCell? hn]
  exact congrArg _ (by decide +kernel)

/-- … and the Spec predicate holds of it through the bridge theorem -/
example : Spec.addStaticsSpec exA exSrc ["earned_premium"]
    [ exA[0]!,
      exCell exUS ⟨2021, 12, 31⟩ [("paid_loss", .int 1), ("earned_premium", .int 12)],
      exCell exUS ⟨2022, 12, 31⟩ [("paid_loss", .int 2), ("earned_premium", .int 12)] ] = true :=
  addStaticsSpec_of_addStatics exA_canonical (by decide +kernel)
    (by unfold Dict.WF; decide +kernel) ex_addStatics

/-- incremental operands: `prev_evaluation_date` is part of the key — of the two left increments only
the one with the right cell's `prev` is matched -/
example : isIncremental [exI1, exI2] = true ∧
    Spec.joinHyp none [exI1, exI2] [exInc ⟨2021, 6, 30⟩ 5] = true ∧
    (join (some .inner) none [exI1, exI2] [exInc ⟨2021, 6, 30⟩ 5]).toOption =
      some [(some exI2, some (exInc ⟨2021, 6, 30⟩ 5))] ∧
    (join (some .leftAnti) none [exI1, exI2] [exInc ⟨2021, 6, 30⟩ 5]).toOption =
      some [(some exI1, none)] := by decide +kernel

/-! ### 10. the regrouping loops of `add_statics` / `period_merge` (literal model = direct model) -/

/-- **addStatics_regrouping**: the literal loop of `add_statics` (per slice of the triangle, source
slice looked up by metadata, source rows grouped by period, concatenation, `Triangle(...)`) returns
what the direct form `addStatics` returns — for a triangle with canonical metadata and distinct
coordinates and a sorted source (what `Triangle.cells` always is). -/
theorem addStaticsLit_eq {t src : List Cell} {st : List String} (hc : ∀ c ∈ t, c.md.Canon)
    (hn : (t.map Cell.coord).Nodup) (hs : src.Pairwise (fun a b => Cell.le a b)) :
    addStaticsLit t src st = addStatics t src st := by
  unfold addStaticsLit addStatics
  symm
  apply ofCells_perm_invariant _ (ties_identical_map (addStaticsCell_frame src st) hc hn)
  rw [slices_eq t, List.flatMap_map]
  refine List.Perm.symm (List.Perm.trans (perm_flatMap_blocks
    (g := fun m => (t.filter (fun c : Cell => c.md == m)).map (addStaticsCell src st)) ?_) ?_)
  · intro m _
    have hmem : ∀ c ∈ (t.filter (fun c : Cell => c.md == m)).mergeSort Cell.le, c.md = m := by
      intro c hc'
      have := (List.mergeSort_perm _ _).mem_iff.mp hc'
      simpa using (List.mem_filter.mp this).2
    rw [addStatics_block st hs hmem]
    exact (List.mergeSort_perm _ _).map _
  · rw [← List.map_flatMap]
    exact (flatMap_filter_perm (fun c : Cell => c.md) _ t (firstKeys_nodup _ t)
      (fun a ha => (mem_firstKeys _ t _).mpr ⟨a, ha, rfl⟩)).map _

/-- **periodMerge regrouping**: the literal loop of `period_merge` (two `defaultdict(list)` keyed by
(period, metadata), left groups visited in insertion order, concatenation, `Triangle(...)`) returns
what the direct form `periodMerge` returns — same result, same `ValueError` — for a left triangle
with canonical metadata and distinct coordinates. -/
theorem periodMergeLit_eq {a b : List Cell} {suffix : Option String} (hc : ∀ c ∈ a, c.md.Canon)
    (hn : (a.map Cell.coord).Nodup) : periodMergeLit a b suffix = periodMerge a b suffix := by
  rw [periodMergeLit_unfold, periodMerge_unfold]
  split
  · rfl
  · have hg : groupBy pmIdx a =
        (firstKeys pmIdx a).map (fun k => (k, a.filter (fun c => pmIdx c == k))) := groupBy_eq_map pmIdx a
    have hentry : ∀ e ∈ groupBy pmIdx a,
        periodMergeGroupLit (groupBy pmIdx b) suffix e =
          if (b.filter (fun r => pmIdx r == e.1)).length ≤ 1 then .ok (e.2.map (pmCell b suffix))
          else .error .valueError := by
      intro e he
      have h2 := groupBy_entry pmIdx a he
      have := periodMergeGroupLit_spec b suffix e.1 e.2 (fun c hc' => by
        rw [h2] at hc'; simpa using (List.mem_filter.mp hc').2)
      exact this
    by_cases hall : ∀ c ∈ a, (b.filter (samePeriodKey c)).length ≤ 1
    · -- no index with several right cells: both succeed, results are permutations
      have hflat : a.mapM (periodMergeCell b suffix) = .ok (a.map (pmCell b suffix)) :=
        mapM_ok_of_all (fun c hc' => periodMergeCell_of_le (hall c hc'))
      have hlit : (groupBy pmIdx a).mapM (periodMergeGroupLit (groupBy pmIdx b) suffix) =
          .ok ((groupBy pmIdx a).map (fun e => e.2.map (pmCell b suffix))) := by
        apply mapM_ok_of_all
        intro e he
        rw [hentry e he, if_pos]
        have h2 := groupBy_entry pmIdx a he
        have hne : e.2 ≠ [] ∨ e.2 = [] := by cases e.2 <;> simp
        -- pick any cell of the group to transfer the bound
        have hk : ∀ c ∈ e.2, pmIdx c = e.1 := fun c hc' => by
          rw [h2] at hc'; simpa using (List.mem_filter.mp hc').2
        have hmemk : e.1 ∈ firstKeys pmIdx a := by
          rw [← groupBy_keys]; exact List.mem_map.mpr ⟨e, he, rfl⟩
        obtain ⟨c, hca, hck⟩ := (mem_firstKeys pmIdx a e.1).mp hmemk
        have := hall c hca
        rw [filter_samePeriodKey, hck] at this
        exact this
      rw [hflat, hlit]
      simp only [Except.bind]
      symm
      apply ofCells_perm_invariant _ (ties_identical_map (pmCell_frame b suffix) hc hn)
      rw [hg, List.map_map, ← List.flatMap_def]
      refine List.Perm.symm ?_
      show ((firstKeys pmIdx a).flatMap
        (fun k => (a.filter (fun c => pmIdx c == k)).map (pmCell b suffix))).Perm _
      rw [← List.map_flatMap]
      exact (flatMap_filter_perm pmIdx _ a (firstKeys_nodup _ a)
        (fun x hx => (mem_firstKeys _ a _).mpr ⟨x, hx, rfl⟩)).map _
    · -- some index has several right cells: both raise ValueError
      have hex : ∃ c ∈ a, ¬ (b.filter (samePeriodKey c)).length ≤ 1 := by
        apply Classical.byContradiction
        intro hcon
        apply hall
        intro c hc'
        apply Classical.byContradiction
        intro hgt
        exact hcon ⟨c, hc', hgt⟩
      obtain ⟨c, hca, hgt⟩ := hex
      have hflat : a.mapM (periodMergeCell b suffix) = .error .valueError :=
        mapM_error (fun x _ e' he' => periodMergeCell_error he')
          ⟨c, hca, _, periodMergeCell_of_gt hgt⟩
      have hlit : (groupBy pmIdx a).mapM (periodMergeGroupLit (groupBy pmIdx b) suffix) =
          .error .valueError := by
        apply mapM_error
        · intro e he e' he'
          rw [hentry e he] at he'
          split at he' <;> cases he'
          rfl
        · have hmemk : pmIdx c ∈ firstKeys pmIdx a := (mem_firstKeys pmIdx a _).mpr ⟨c, hca, rfl⟩
          rw [← groupBy_keys] at hmemk
          obtain ⟨e, he, hek⟩ := List.mem_map.mp hmemk
          refine ⟨e, he, .valueError, ?_⟩
          rw [hentry e he, if_neg]
          rw [hek, ← filter_samePeriodKey]
          exact hgt
      rw [hflat, hlit]
      rfl

/-- so every statement about `addStatics` holds of the literal loop, e.g. the Spec bridge -/
theorem addStaticsSpec_of_addStaticsLit {t src out : List Cell} {st : List String} (ht : Canonical t)
    (hc : ∀ c ∈ t, c.md.Canon) (hs : src.Pairwise (fun a b => Cell.le a b))
    (hyp : Spec.addStaticsHyp t src = true) (hv : ∀ c ∈ t ++ src, c.values.WF)
    (h : addStaticsLit t src st = .ok out) : Spec.addStaticsSpec t src st out = true := by
  have hn : (t.map Cell.coord).Nodup := by
    unfold Spec.addStaticsHyp Spec.leftHyp at hyp
    simp only [Bool.and_eq_true, nodupB_iff] at hyp
    exact hyp.1
  rw [addStaticsLit_eq hc hn hs] at h
  exact addStaticsSpec_of_addStatics ht hyp hv h

theorem periodMergeSpec_of_periodMergeLit {a b out : List Cell} {suffix : Option String}
    (ha : Canonical a) (hc : ∀ c ∈ a, c.md.Canon) (hn : (a.map Cell.coord).Nodup)
    (hva : ∀ c ∈ a, c.values.WF) (hvb : ∀ c ∈ b, c.values.WF)
    (h : periodMergeLit a b suffix = .ok out) : Spec.periodMergeSpec a b suffix out = true := by
  rw [periodMergeLit_eq hc hn] at h
  exact periodMergeSpec_of_periodMerge ha hva hvb h

end Bermuda.Properties.C10
