/-
C10 — join / merge / coalesce / add_statics / period_merge obey their relational definitions.
-/
import Bermuda.Model.Join
import Bermuda.Spec.C10
namespace Bermuda.Properties.C10
open Bermuda

theorem placeholder : joinKey false ({ ps := ⟨2020,1,1⟩, pe := ⟨2020,1,1⟩, ev := ⟨2020,1,1⟩ } : Cell) =
    ⟨{}, ⟨2020,1,1⟩, ⟨2020,1,1⟩, ⟨2020,1,1⟩, none⟩ := rfl

end Bermuda.Properties.C10
