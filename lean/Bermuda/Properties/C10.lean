/-
C10 — join / merge / coalesce / add_statics / period_merge obey their relational definitions.
Only property theorems live here (helper lemmas: `Lemmas/Join.lean`).
-/
import Bermuda.Lemmas.Join
import Bermuda.Lemmas.JoinSpec
import Bermuda.Lemmas.JoinRegroup
import Bermuda.Properties.C01
namespace Bermuda.Properties.C10
open Bermuda List Bermuda.JoinL
open Bermuda.Properties.C01 (ofCells_perm ofCells_sorted ofCells_ok_iff ofCells_idem Canonical kindsConsistent_perm ofCells_perm_invariant)

/-! ### 1. join: the returned coordinates are the relational set expression -/

/-- **join_keys** (after the `on` reduction): for each of the six join types the coordinates of the
returned pairs are pairwise distinct (one pair per coordinate), every pair has a coordinate, and a
coordinate is returned iff it satisfies the set expression of the join type on the operands' key
sets (full = ∪, inner = ∩, left, right, left_anti = A \ B, right_anti = B \ A).
No distinct-keys hypothesis is needed: this holds for the dict-based algorithm as is. -/
theorem join_keys (ty : JoinType) (a b : List Cell) :
    let inc := isIncremental a
    let ks := (joinCore ty a b).map (Spec.pairKey? inc)
    ks.Nodup ∧ none ∉ ks ∧
    ∀ k, some k ∈ ks ↔
      Spec.setExpr ty (a.map (joinKey inc)) (b.map (joinKey inc)) k = true := by
  intro inc ks
  have hks : ks = ((allCoordinates a b).filter (Spec.setExpr ty (a.map (joinKey inc))
      (b.map (joinKey inc)))).map some := joinCore_keys ty a b
  rw [hks]
  refine ⟨?_, by simp, fun k => ?_⟩
  · exact List.Pairwise.map some (fun x y h => by simpa using h) ((nodup_allCoordinates a b).filter _)
  · simp only [List.mem_map, List.mem_filter, Option.some.injEq, exists_eq_right]
    exact ⟨fun h => h.2, fun h => ⟨mem_allCoordinates.mpr (setExpr_mem h), h⟩⟩


/-! ### 2. the `join` wrapper: class check, `on` reduction -/

theorem join_ok {ty : JoinType} {on : Option (List String)} {a b : List Cell} {ps : List CellPair}
    (h : join (some ty) on a b = .ok ps) :
    kindMismatch a b = false ∧
    ∃ a' b', reduceOn on a = .ok a' ∧ reduceOn on b = .ok b' ∧ ps = joinCore ty a' b' := by
  unfold join at h
  simp only [bind, Except.bind, pure, Except.pure, throw, throwThe, MonadExceptOf.throw] at h
  split at h
  · cases h
  · rename_i hk
    have hkm : kindMismatch a b = false := by simpa using hk
    split at h
    · cases h
    · rename_i a' ha
      split at h
      · cases h
      · rename_i b' hb
        cases h
        exact ⟨hkm, a', b', ha, hb, rfl⟩

/-- a class mismatch of two non-empty operands is a `ValueError`, whatever the other arguments -/
theorem join_kind_mismatch {ty : Option JoinType} {on : Option (List String)} {a b : List Cell}
    (h : kindMismatch a b = true) : join ty on a b = .error .valueError := by
  unfold join
  simp [h, bind, Except.bind, throw, throwThe, MonadExceptOf.throw]

/-- an unrecognised join type is a `ValueError` (if nothing raised earlier it is raised last) -/
theorem join_unknown_type {on : Option (List String)} {a b : List Cell} :
    ∃ e, join none on a b = .error e := by
  unfold join
  simp only [bind, Except.bind, throw, throwThe, MonadExceptOf.throw]
  split
  · exact ⟨_, rfl⟩
  · split
    · exact ⟨_, rfl⟩
    · split
      · exact ⟨_, rfl⟩
      · exact ⟨_, rfl⟩

theorem reduceOn_perm {on : Option (List String)} {a a' : List Cell}
    (h : reduceOn on a = .ok a') : a'.Perm (Spec.onCells on a) := by
  unfold reduceOn at h
  unfold Spec.onCells
  split at h
  · exact ofCells_perm h
  · rename_i hh
    cases h; split
    · rename_i x xs; exact absurd rfl (hh x xs)
    · exact List.Perm.refl _

theorem isIncremental_of_consistent {l : List Cell} (h : kindsConsistent l = true) :
    isIncremental l = (!l.isEmpty && l.all (·.kind == .incremental)) := by
  cases l with
  | nil => rfl
  | cons c l =>
    simp only [isIncremental, List.isEmpty_cons, Bool.not_false, Bool.true_and, List.all_cons]
    unfold kindsConsistent at h
    simp only [List.all_cons, Bool.or_eq_true, Bool.and_eq_true] at h
    cases hk : c.kind <;> simp_all

theorem isIncremental_perm {l l' : List Cell} (hp : l.Perm l') (h : kindsConsistent l = true) :
    isIncremental l' = isIncremental l := by
  rw [isIncremental_of_consistent h, isIncremental_of_consistent ((kindsConsistent_perm hp) ▸ h)]
  congr 1
  · cases l <;> cases l' <;> simp_all
  · rw [Bool.eq_iff_iff]; simp only [List.all_eq_true, hp.mem_iff]

theorem reduceOn_isIncremental {on : Option (List String)} {a a' : List Cell}
    (h : reduceOn on a = .ok a') : isIncremental a' = isIncremental a := by
  unfold reduceOn at h
  split at h
  · rename_i x xs
    have hc : kindsConsistent (a.map (·.selectOn (x :: xs))) = true :=
      (ofCells_ok_iff _).mp ⟨a', h⟩
    rw [isIncremental_perm (ofCells_perm h).symm hc]
    cases a <;> rfl
  · cases h; rfl


theorem setExpr_congr {ty : JoinType} {A B A' B' : List Coord} (hA : ∀ k, k ∈ A ↔ k ∈ A')
    (hB : ∀ k, k ∈ B ↔ k ∈ B') (k : Coord) : Spec.setExpr ty A B k = Spec.setExpr ty A' B' k := by
  have h1 : A.contains k = A'.contains k := by
    rw [Bool.eq_iff_iff, List.contains_iff_mem, List.contains_iff_mem]; exact hA k
  have h2 : B.contains k = B'.contains k := by
    rw [Bool.eq_iff_iff, List.contains_iff_mem, List.contains_iff_mem]; exact hB k
  cases ty <;> simp only [Spec.setExpr, h1, h2]

/-- **join_keys** for `join` itself, `on` included: the coordinates of the result are those of the
set expression on the keys of the operands *with metadata reduced to `on`*. -/
theorem join_keys_on {ty : JoinType} {on : Option (List String)} {a b : List Cell}
    {ps : List CellPair} (h : join (some ty) on a b = .ok ps) :
    let inc := isIncremental a
    let ks := ps.map (Spec.pairKey? inc)
    ks.Nodup ∧ none ∉ ks ∧
    ∀ k, some k ∈ ks ↔
      Spec.setExpr ty ((Spec.onCells on a).map (joinKey inc)) ((Spec.onCells on b).map (joinKey inc)) k
        = true := by
  obtain ⟨_, a', b', ha, hb, rfl⟩ := join_ok h
  have hi := reduceOn_isIncremental ha
  have := join_keys ty a' b'
  rw [hi] at this
  refine ⟨this.1, this.2.1, fun k => ?_⟩
  rw [this.2.2 k, setExpr_congr (fun k => ((reduceOn_perm ha).map _).mem_iff)
    (fun k => ((reduceOn_perm hb).map _).mem_iff)]

/-! ### 3. join carries the original cells, metadata reduced to `on` -/

theorem mem_of_mem_joinCore {ty : JoinType} {a b : List Cell} {p : CellPair}
    (hp : p ∈ joinCore ty a b) :
    (∀ c, p.1 = some c → c ∈ a) ∧ (∀ c, p.2 = some c → c ∈ b) := by
  rw [joinCore_eq] at hp
  obtain ⟨k, _, rfl⟩ := List.mem_map.mp hp
  exact ⟨fun c hc => (dictGet_some hc).1, fun c hc => (dictGet_some hc).1⟩

/-- **join_carries_originals**: every cell in a returned pair is a cell of the corresponding
operand (left cell from the left operand, right cell from the right one), unchanged except that its
metadata is reduced to `on` when `on` is given. -/
theorem join_carries_originals {ty : JoinType} {on : Option (List String)} {a b : List Cell}
    {ps : List CellPair} (h : join (some ty) on a b = .ok ps) :
    ∀ p ∈ ps, (∀ c, p.1 = some c → c ∈ Spec.onCells on a) ∧
              (∀ c, p.2 = some c → c ∈ Spec.onCells on b) := by
  obtain ⟨_, a', b', ha, hb, rfl⟩ := join_ok h
  intro p hp
  have := mem_of_mem_joinCore hp
  exact ⟨fun c hc => (reduceOn_perm ha).mem_iff.mp (this.1 c hc),
         fun c hc => (reduceOn_perm hb).mem_iff.mp (this.2 c hc)⟩

/-- **join_on_metadata**: with a non-empty `on`, every returned cell is `c₀.selectOn on` for an
original cell `c₀`: attributes outside `on` are `None`, details keep only the keys in `on`,
everything else (dates, values, class) is `c₀`'s. -/
theorem join_on_metadata {ty : JoinType} {x : String} {xs : List String} {a b : List Cell}
    {ps : List CellPair} (h : join (some ty) (some (x :: xs)) a b = .ok ps) :
    ∀ p ∈ ps, (∀ c, p.1 = some c → ∃ c₀ ∈ a, c = c₀.selectOn (x :: xs)) ∧
              (∀ c, p.2 = some c → ∃ c₀ ∈ b, c = c₀.selectOn (x :: xs)) := by
  intro p hp
  have := join_carries_originals h p hp
  simp only [Spec.onCells, List.mem_map] at this
  exact ⟨fun c hc => (this.1 c hc).imp fun c₀ h => ⟨h.1, h.2.symm⟩,
         fun c hc => (this.2 c hc).imp fun c₀ h => ⟨h.1, h.2.symm⟩⟩

/-- without `on` (or with the falsy `[]`) the cells are the operands' own cells -/
theorem join_no_on {ty : JoinType} {a b : List Cell} {ps : List CellPair}
    (h : join (some ty) none a b = .ok ps) : ps = joinCore ty a b := by
  obtain ⟨_, a', b', ha, hb, rfl⟩ := join_ok h
  cases ha; cases hb; rfl

theorem cellAt_eq_some_iff {inc : Bool} {t : List Cell} (hn : (t.map (joinKey inc)).Nodup)
    {k : Coord} {c : Cell} : Spec.cellAt inc t k = some c ↔ c ∈ t ∧ joinKey inc c = k := by
  rw [← dictGet_eq_cellAt hn]
  constructor
  · exact dictGet_some
  · rintro ⟨hc, rfl⟩
    induction t with
    | nil => cases hc
    | cons d t ih =>
      rw [List.map_cons, List.nodup_cons] at hn
      simp only [dictGet]
      rcases List.mem_cons.mp hc with rfl | hc
      · rw [dictGet_none_of_not_mem hn.1]; simp
      · rw [ih hn.2 hc]

theorem cellAt_perm {inc : Bool} {t t' : List Cell} (hn : (t.map (joinKey inc)).Nodup)
    (hp : t.Perm t') (k : Coord) : Spec.cellAt inc t k = Spec.cellAt inc t' k := by
  have hn' : (t'.map (joinKey inc)).Nodup := (hp.map _).nodup_iff.mp hn
  cases h : Spec.cellAt inc t' k with
  | some c =>
    rw [cellAt_eq_some_iff hn]
    have := (cellAt_eq_some_iff hn').mp h
    exact ⟨hp.mem_iff.mpr this.1, this.2⟩
  | none =>
    cases h2 : Spec.cellAt inc t k with
    | none => rfl
    | some c =>
      have := (cellAt_eq_some_iff hn).mp h2
      rw [(cellAt_eq_some_iff hn').mpr ⟨hp.mem_iff.mp this.1, this.2⟩] at h
      cases h

/-- **join pairs are exactly (left cell at k, right cell at k)** under the distinct-keys
hypothesis: the pair returned for coordinate `k` holds *the* cell of each (reduced) operand at `k`,
or `None` where the operand has none. -/
theorem join_pairs_exact {ty : JoinType} {on : Option (List String)} {a b : List Cell}
    {ps : List CellPair} (h : join (some ty) on a b = .ok ps)
    (hna : ((Spec.onCells on a).map (joinKey (isIncremental a))).Nodup)
    (hnb : ((Spec.onCells on b).map (joinKey (isIncremental a))).Nodup) :
    ∀ p ∈ ps, ∃ k, Spec.pairKey? (isIncremental a) p = some k ∧
      p = (Spec.cellAt (isIncremental a) (Spec.onCells on a) k,
           Spec.cellAt (isIncremental a) (Spec.onCells on b) k) := by
  obtain ⟨_, a', b', ha, hb, rfl⟩ := join_ok h
  have hi := reduceOn_isIncremental ha
  have hpa := reduceOn_perm ha
  have hpb := reduceOn_perm hb
  have hna' : (a'.map (joinKey (isIncremental a))).Nodup := (hpa.map _).nodup_iff.mpr hna
  have hnb' : (b'.map (joinKey (isIncremental a))).Nodup := (hpb.map _).nodup_iff.mpr hnb
  intro p hp
  rw [joinCore_eq] at hp
  obtain ⟨k, hk, rfl⟩ := List.mem_map.mp hp
  refine ⟨k, ?_, ?_⟩
  · rw [← hi]; exact pairKey_pairOf (List.mem_filter.mp hk).1
  · rw [hi]; unfold pairOf
    rw [dictGet_eq_cellAt hna', dictGet_eq_cellAt hnb', cellAt_perm hna' hpa, cellAt_perm hnb' hpb]

/-! ### 4. merge -/

theorem merge_ok {ty : JoinType} {on : Option (List String)} {a b out : List Cell}
    (h : merge (some ty) on a b = .ok out) :
    ∃ ps, join (some ty) on a b = .ok ps ∧ out.Perm (ps.filterMap mergeCellPair) ∧
      out.Pairwise (fun x y => Cell.le x y) := by
  unfold merge at h
  simp only [bind, Except.bind] at h
  split at h
  · cases h
  · rename_i ps hps
    exact ⟨ps, hps, ofCells_perm h, ofCells_sorted h⟩

/-- the cells of the merge are exactly the images of the joined pairs -/
theorem merge_cells {ty : JoinType} {on : Option (List String)} {a b out : List Cell}
    {ps : List CellPair} (h : merge (some ty) on a b = .ok out)
    (hj : join (some ty) on a b = .ok ps) (c : Cell) :
    c ∈ out ↔ ∃ p ∈ ps, mergeCellPair p = some c := by
  obtain ⟨ps', hj', hperm, _⟩ := merge_ok h
  rw [hj] at hj'; cases hj'
  rw [hperm.mem_iff, List.mem_filterMap]

/-- **merge_values**: a coordinate present on both sides carries the LEFT cell's frame (class,
dates, reduced metadata) and the right-biased union of the two value dicts: every field of either
cell is present, and a field present on the right has the right value. -/
theorem merge_values {ty : JoinType} {on : Option (List String)} {a b out : List Cell}
    {ps : List CellPair} (h : merge (some ty) on a b = .ok out)
    (hj : join (some ty) on a b = .ok ps) {x y : Cell} (hp : (some x, some y) ∈ ps)
    (hy : y.values.WF) :
    ∃ c ∈ out, c = { x with values := c.values } ∧
      (∀ f, c.values.get? f = (y.values.get? f).or (x.values.get? f)) ∧
      (∀ f, f ∈ c.values.keys ↔ f ∈ x.values.keys ∨ f ∈ y.values.keys) := by
  refine ⟨{ x with values := x.values.union y.values }, ?_, rfl, ?_, ?_⟩
  · exact (merge_cells h hj _).mpr ⟨_, hp, rfl⟩
  · exact fun f => Dict.get?_union x.values y.values hy f
  · exact fun f => Dict.mem_keys_union x.values y.values f

/-- **merge_unmatched_id**: a coordinate present on one side only carries that side's cell
unchanged. -/
theorem merge_unmatched_id {ty : JoinType} {on : Option (List String)} {a b out : List Cell}
    {ps : List CellPair} (h : merge (some ty) on a b = .ok out)
    (hj : join (some ty) on a b = .ok ps) :
    (∀ x, (some x, none) ∈ ps → x ∈ out) ∧ (∀ y, (none, some y) ∈ ps → y ∈ out) :=
  ⟨fun x hx => (merge_cells h hj x).mpr ⟨_, hx, rfl⟩,
   fun y hy => (merge_cells h hj y).mpr ⟨_, hy, rfl⟩⟩

theorem mergeCellPair_isSome {inc : Bool} {p : CellPair} (h : Spec.pairKey? inc p ≠ none) :
    (mergeCellPair p).isSome = true := by
  obtain ⟨p1, p2⟩ := p
  cases p1 <;> cases p2 <;> simp_all [mergeCellPair, Spec.pairKey?]

/-- one merged cell per joined pair: `(None, None)` never occurs, nothing is dropped -/
theorem merge_length {ty : JoinType} {on : Option (List String)} {a b out : List Cell}
    {ps : List CellPair} (h : merge (some ty) on a b = .ok out)
    (hj : join (some ty) on a b = .ok ps) : out.length = ps.length := by
  obtain ⟨ps', hj', hperm, _⟩ := merge_ok h
  rw [hj] at hj'; cases hj'
  rw [hperm.length_eq]
  have hk := (join_keys_on hj).2.1
  have : ∀ p ∈ ps, (mergeCellPair p).isSome = true := fun p hp =>
    mergeCellPair_isSome (inc := isIncremental a) (fun hn => hk (List.mem_map.mpr ⟨p, hp, hn⟩))
  clear hperm hj h hk
  induction ps with
  | nil => rfl
  | cons p ps ih =>
    have hp := this p (by simp)
    rw [List.filterMap_cons]
    cases hm : mergeCellPair p with
    | none => rw [hm] at hp; cases hp
    | some c => simp [ih (fun q hq => this q (by simp [hq]))]

/-! ### 5. coalesce -/

/-- **coalesce_first_wins**: the result holds exactly the cells that are the FIRST cell with their
coordinate `(metadata, period, evaluation date)` in triangle-list order — the unmodified cell
(equality includes the values) of the earliest triangle that has the coordinate —, one cell per
coordinate, and every coordinate of every triangle is represented. -/
theorem coalesce_first_wins {ts : List (List Cell)} {out : List Cell} (h : coalesce ts = .ok out) :
    (∀ c, c ∈ out ↔ ts.flatten.find? (fun d => coalKey d == coalKey c) = some c) ∧
    (out.map coalKey).Nodup ∧
    (∀ d ∈ ts.flatten, coalKey d ∈ out.map coalKey) := by
  have hp : out.Perm (firstsBy coalKey [] ts.flatten) := ofCells_perm h
  refine ⟨fun c => ?_, ?_, fun d hd => ?_⟩
  · rw [hp.mem_iff, mem_firstsBy]; simp
  · exact (hp.map _).nodup_iff.mpr (firstsBy_keys_nodup coalKey [] _).1
  · rcases firstsBy_covers coalKey [] _ d hd with h | h
    · cases h
    · exact (hp.map _).mem_iff.mpr h

theorem coalKey_eq_joinKey (c : Cell) : coalKey c = joinKey false c := rfl

/-- every cell of the first triangle survives (when its coordinates are distinct) -/
theorem coalesce_head_kept {t : List Cell} {ts : List (List Cell)} {out : List Cell}
    (h : coalesce (t :: ts) = .ok out) (hn : (t.map coalKey).Nodup) : ∀ c ∈ t, c ∈ out := by
  intro c hc
  rw [(coalesce_first_wins h).1, List.flatten_cons, List.find?_append]
  have : t.find? (fun d => coalKey d == coalKey c) = some c :=
    (cellAt_eq_some_iff (inc := false) (t := t) hn).mpr ⟨hc, rfl⟩
  rw [this]; rfl

/-- a cell of the second triangle survives when the first triangle lacks its coordinate, and is
shadowed (absent, unless the very same cell is also in the first triangle) when it has it -/
theorem coalesce_later {t u : List Cell} {out : List Cell}
    (h : coalesce [t, u] = .ok out) (hn : (u.map coalKey).Nodup) {c : Cell} (hc : c ∈ u) :
    (coalKey c ∉ t.map coalKey → c ∈ out) ∧ (coalKey c ∈ t.map coalKey → c ∉ t → c ∉ out) := by
  rw [(coalesce_first_wins h).1]
  simp only [List.flatten_cons, List.flatten_nil, List.append_nil, List.find?_append]
  have hu : u.find? (fun d => coalKey d == coalKey c) = some c :=
    (cellAt_eq_some_iff (inc := false) (t := u) hn).mpr ⟨hc, rfl⟩
  cases ht : t.find? (fun d => coalKey d == coalKey c) with
  | none =>
    refine ⟨fun _ => by simp [hu], fun hm => ?_⟩
    obtain ⟨d, hd, hk⟩ := List.mem_map.mp hm
    have := List.find?_eq_none.mp ht d hd
    simp [hk] at this
  | some d =>
    have hd := List.find?_some ht
    have hm := List.mem_of_find?_eq_some ht
    refine ⟨fun hnm => absurd (List.mem_map.mpr ⟨d, hm, by simpa using hd⟩) hnm, fun _ hct => ?_⟩
    simp only [Option.some_or, Option.some.injEq]
    rintro rfl
    exact hct hm

/-! ### 6. add_statics and period_merge: coordinates and count never change -/

/-- a cell-wise map that only rewrites `values` keeps the canonical form: same order, same class,
same dates -/
theorem frame_map_canonical {f : Cell → Cell} (hf : ∀ c, f c = { c with values := (f c).values })
    {t : List Cell} (ht : Canonical t) : Canonical (t.map f) := by
  have hle : ∀ a b, Cell.le (f a) (f b) = Cell.le a b := by
    intro a b; rw [hf a, hf b]; rfl
  have hk : ∀ c, (f c).kind = c.kind := fun c => by rw [hf c]
  have hd : ∀ c, (f c).datesOk = c.datesOk := fun c => by rw [hf c]; rfl
  refine ⟨?_, ?_, ?_⟩
  · rw [List.pairwise_map]; exact ht.1.imp (fun {a b} h => by rw [hle]; exact h)
  · have := ht.2.1
    unfold kindsConsistent at this ⊢
    simpa only [List.all_map, Function.comp_def, hk] using this
  · intro c hc
    obtain ⟨c₀, hc₀, rfl⟩ := List.mem_map.mp hc
    rw [hd]; exact ht.2.2 c₀ hc₀

theorem addStaticsCell_frame (src : List Cell) (st : List String) (c : Cell) :
    addStaticsCell src st c = { c with values := (addStaticsCell src st c).values } := by
  unfold addStaticsCell
  split <;> rfl

/-- on a triangle the result of `add_statics` is the cell-wise image, in the same order: same
number of cells, same coordinates, class and metadata position by position -/
theorem addStatics_eq_map {t src : List Cell} {st : List String} (ht : Canonical t) :
    addStatics t src st = .ok (t.map (addStaticsCell src st)) :=
  ofCells_idem (frame_map_canonical (addStaticsCell_frame src st) ht)

theorem sourceCell?_spec {src : List Cell} {c s : Cell} (h : sourceCell? src c = some s) :
    s ∈ src ∧ s.md = c.md ∧ s.ps = c.ps ∧ s.pe = c.pe ∧
    ∀ s' ∈ src, s'.md = c.md → s'.ps = c.ps → s'.pe = c.pe → s'.ev ≤ s.ev := by
  unfold sourceCell? at h
  have hle : evLe = leOf (cmpOn (·.ev) Date.cmp) := rfl
  rw [hle] at h
  obtain ⟨hm, hmax⟩ := lastBy?_max h
  obtain ⟨hs, hcond⟩ := List.mem_filter.mp hm
  simp only [Bool.and_eq_true, beq_iff_eq] at hcond
  refine ⟨hs, hcond.1.1, hcond.1.2, hcond.2, fun s' hs' h1 h2 h3 => ?_⟩
  have := hmax s' (List.mem_filter.mpr ⟨hs', by simp [h1, h2, h3]⟩)
  show Date.cmp s'.ev s.ev ≠ .gt
  simpa [leOf, cmpOn] using this

theorem sourceCell?_none {src : List Cell} {c : Cell} (h : sourceCell? src c = none) :
    ∀ s' ∈ src, ¬ (s'.md = c.md ∧ s'.ps = c.ps ∧ s'.pe = c.pe) := by
  unfold sourceCell? lastBy? at h
  intro s' hs' ⟨h1, h2, h3⟩
  have hmem : s' ∈ (src.filter (fun s => s.md == c.md && s.ps == c.ps && s.pe == c.pe)).mergeSort evLe :=
    (List.mergeSort_perm _ _).mem_iff.mpr (List.mem_filter.mpr ⟨hs', by simp [h1, h2, h3]⟩)
  rw [List.getLast?_eq_none_iff] at h
  rw [h] at hmem; cases hmem

/-- **addStatics_spec** (cell level): only requested fields can change; a requested field takes the
value of the LATEST source cell of the same slice (metadata) and period when that cell has the
field, else keeps the cell's own value; without such a source cell the cell is unchanged. -/
theorem addStaticsCell_values (src : List Cell) (st : List String) (c : Cell) :
    (∀ f, f ∉ st → (addStaticsCell src st c).values.get? f = c.values.get? f) ∧
    (∀ s, sourceCell? src c = some s → s.values.WF → ∀ f ∈ st,
        (addStaticsCell src st c).values.get? f = (s.values.get? f).or (c.values.get? f)) ∧
    (sourceCell? src c = none → addStaticsCell src st c = c) := by
  refine ⟨fun f hf => ?_, fun s hs hwf f hf => ?_, fun hn => ?_⟩
  · unfold addStaticsCell
    split
    · simp only [Cell.addStatics]
      apply Dict.get?_union_of_not_mem
      intro hmem
      have := (Dict.keys_filter_sub _ (fun k => st.contains k) hmem).1
      exact hf (List.contains_iff_mem.mp this)
    · rfl
  · unfold addStaticsCell
    rw [hs]
    simp only [Cell.addStatics]
    rw [Dict.get?_union _ _ (Dict.WF_filter hwf _), Dict.get?_filter_j _ (fun k => st.contains k)]
    simp [hf]
  · unfold addStaticsCell; rw [hn]

/-- **addStatics_spec**: on a triangle, `add_statics` returns as many cells as it got, cell `i` of
the result has the frame (class, dates, metadata) of cell `i` of the input, and differs from it
only in requested fields (`addStaticsCell_values` says how). -/
theorem addStatics_spec {t src out : List Cell} {st : List String} (ht : Canonical t)
    (h : addStatics t src st = .ok out) :
    out.length = t.length ∧
    ∀ i (hi : i < t.length) (ho : i < out.length),
      out[i] = { t[i] with values := out[i].values } ∧
      ∀ f, f ∉ st → out[i].values.get? f = t[i].values.get? f := by
  rw [addStatics_eq_map ht] at h
  cases h
  refine ⟨List.length_map _, fun i hi ho => ?_⟩
  rw [List.getElem_map]
  exact ⟨addStaticsCell_frame src st _, (addStaticsCell_values src st _).1⟩

/-! period_merge -/

/-- the total cell map behind `periodMergeCell` -/
def pmCell (b : List Cell) (suffix : Option String) (c : Cell) : Cell :=
  match b.filter (samePeriodKey c) with
  | [r] => overwriteValues c r suffix
  | _ => c

theorem pmCell_frame (b : List Cell) (suffix : Option String) (c : Cell) :
    pmCell b suffix c = { c with values := (pmCell b suffix c).values } := by
  unfold pmCell
  split <;> rfl

theorem periodMergeCell_ok {b : List Cell} {suffix : Option String} {c c' : Cell}
    (h : periodMergeCell b suffix c = .ok c') : c' = pmCell b suffix c := by
  unfold periodMergeCell at h
  unfold pmCell
  split at h
  · rename_i hf; cases h; rw [hf]
  · rename_i r hf; cases h; rw [hf]
  · cases h

/-- **periodMerge_spec**: on a triangle `period_merge` either raises `ValueError` or returns the
cell-wise image in the same order (same count, frames unchanged); a left cell whose
(period, metadata) has exactly one right cell `r` gets `{**values, **suffixed(r.values)}`, every
other cell is returned as is; success means no index of the left triangle had several right cells
and the classes agree. -/
theorem periodMerge_spec {a b out : List Cell} {suffix : Option String} (ha : Canonical a)
    (h : periodMerge a b suffix = .ok out) :
    kindMismatch a b = false ∧ out = a.map (pmCell b suffix) ∧
    ∀ c ∈ a, (b.filter (samePeriodKey c)).length ≤ 1 := by
  unfold periodMerge at h
  simp only [bind, Except.bind, throw, throwThe, MonadExceptOf.throw] at h
  split at h
  · cases h
  · rename_i hk
    split at h
    · cases h
    · rename_i cells hcells
      obtain ⟨hmap, hall⟩ := mapM_ok_map (g := pmCell b suffix) (fun _ _ => periodMergeCell_ok) hcells
      subst hmap
      rw [ofCells_idem (frame_map_canonical (pmCell_frame b suffix) ha)] at h
      cases h
      refine ⟨by simpa using hk, rfl, fun c hc => ?_⟩
      have := hall c hc
      unfold periodMergeCell at this
      split at this
      · rename_i hf; rw [hf]; simp
      · rename_i r hf; rw [hf]; simp
      · cases this

/-- values of a period-merged cell: right side wins, names suffixed when the suffix is non-empty -/
theorem pmCell_values {b : List Cell} {suffix : Option String} {c r : Cell}
    (h : b.filter (samePeriodKey c) = [r]) (hr : (applySuffix suffix r.values).WF) (f : String) :
    (pmCell b suffix c).values.get? f =
      (Dict.get? (applySuffix suffix r.values) f).or (c.values.get? f) := by
  unfold pmCell; rw [h]
  exact Dict.get?_union _ _ hr f

theorem periodMerge_kind_mismatch {a b : List Cell} {suffix : Option String}
    (h : kindMismatch a b = true) : periodMerge a b suffix = .error .valueError := by
  unfold periodMerge
  simp [h, bind, Except.bind, throw, throwThe, MonadExceptOf.throw]

/-! ### 7. identity law -/

theorem kindMismatch_self (t : List Cell) : kindMismatch t t = false := by
  cases t <;> simp [kindMismatch]

theorem allCoordinates_self {t : List Cell} (hn : (t.map (joinKey (isIncremental t))).Nodup) :
    allCoordinates t t = t.map (joinKey (isIncremental t)) := by
  unfold allCoordinates
  simp only []
  rw [dedup_append_of_subset (fun _ h => h), dedup_of_nodup hn]

theorem setExpr_self {ty : JoinType} (hty : ty = .full ∨ ty = .inner ∨ ty = .left ∨ ty = .right)
    {K : List Coord} {k : Coord} (hk : k ∈ K) : Spec.setExpr ty K K k = true := by
  rcases hty with rfl | rfl | rfl | rfl <;> simp [Spec.setExpr, hk]

theorem joinCore_self {ty : JoinType} (hty : ty = .full ∨ ty = .inner ∨ ty = .left ∨ ty = .right)
    {t : List Cell} (hn : (t.map (joinKey (isIncremental t))).Nodup) :
    joinCore ty t t = t.map (fun c => (some c, some c)) := by
  rw [joinCore_eq, allCoordinates_self hn, List.filter_eq_self.mpr (fun k hk => setExpr_self hty hk),
    List.map_map]
  apply List.map_congr_left
  intro c hc
  have : dictGet (isIncremental t) t (joinKey (isIncremental t) c) = some c := by
    rw [dictGet_eq_cellAt hn]; exact (cellAt_eq_some_iff hn).mpr ⟨hc, rfl⟩
  simp only [Function.comp, pairOf, this]

/-- **merge_self**: merging a triangle with itself gives the triangle back (for the four join types
that keep matched coordinates), under distinct keys — the value dicts included, order and all. -/
theorem merge_self {ty : JoinType} (hty : ty = .full ∨ ty = .inner ∨ ty = .left ∨ ty = .right)
    {t : List Cell} (ht : Canonical t) (hn : (t.map (joinKey (isIncremental t))).Nodup)
    (hv : ∀ c ∈ t, c.values.WF) : merge (some ty) none t t = .ok t := by
  have hj : join (some ty) none t t = .ok (joinCore ty t t) := by
    unfold join
    simp [kindMismatch_self, reduceOn, bind, Except.bind, pure, Except.pure]
  unfold merge
  simp only [hj, bind, Except.bind]
  rw [joinCore_self hty hn, List.filterMap_map]
  have : List.filterMap (mergeCellPair ∘ fun c => (some c, some c)) t = t := by
    apply filterMap_eq_self
    intro c hc
    simp only [Function.comp, mergeCellPair, Dict.union_self (hv c hc)]
  rw [this]
  exact ofCells_idem ht

/-! ### 8. the executable Spec predicates hold of the model's results -/

/-- **`Spec.joinSpec` holds of the model's `join`** for every join type and every `on`, under the
distinct-keys hypothesis `Spec.joinHyp` (this is the predicate the driver evaluates on the
implementation's output). -/
theorem joinSpec_of_join {ty : JoinType} {on : Option (List String)} {a b : List Cell}
    {ps : List CellPair} (hyp : Spec.joinHyp on a b = true) (h : join (some ty) on a b = .ok ps) :
    Spec.joinSpec ty on a b ps = true := by
  unfold Spec.joinHyp at hyp
  simp only [Bool.and_eq_true, nodupB_iff] at hyp
  obtain ⟨hna, hnb⟩ := hyp
  obtain ⟨hnd, hnone, hset⟩ := join_keys_on h
  have hex := join_pairs_exact h hna hnb
  unfold Spec.joinSpec
  simp only [Bool.and_eq_true, List.all_eq_true]
  refine ⟨⟨nodupB_iff.mpr hnd, fun p hp => ?_⟩, fun k _ => ?_⟩
  · obtain ⟨k, hk, hpe⟩ := hex p hp
    rw [hk]
    simp only [Bool.and_eq_true, beq_iff_eq]
    refine ⟨⟨(hset k).mp (List.mem_map.mpr ⟨p, hp, hk⟩), ?_⟩, ?_⟩
    · rw [hpe]
    · rw [hpe]
  · simp only [Bool.or_eq_true, Bool.not_eq_true']
    by_cases hs : Spec.setExpr ty ((Spec.onCells on a).map (joinKey (isIncremental a)))
        ((Spec.onCells on b).map (joinKey (isIncremental a))) k = true
    · exact Or.inr (List.contains_iff_mem.mpr ((hset k).mpr hs))
    · exact Or.inl (by simpa using hs)

/-- **`Spec.coalesceSpec` holds of the model's `coalesce`** (no hypothesis needed) -/
theorem coalesceSpec_of_coalesce {ts : List (List Cell)} {out : List Cell}
    (h : coalesce ts = .ok out) : Spec.coalesceSpec ts out = true := by
  obtain ⟨h1, h2, h3⟩ := coalesce_first_wins h
  unfold Spec.coalesceSpec
  simp only [Bool.and_eq_true, List.all_eq_true, beq_iff_eq]
  exact ⟨⟨nodupB_iff.mpr h2, fun c hc => (h1 c).mp hc⟩,
    fun d hd => List.contains_iff_mem.mpr (h3 d hd)⟩

theorem filterMap_merge_keys {inc : Bool} {ps : List CellPair}
    (h : ∀ p ∈ ps, Spec.pairKey? inc p ≠ none) :
    (ps.filterMap mergeCellPair).map (fun c => some (joinKey inc c)) = ps.map (Spec.pairKey? inc) := by
  induction ps with
  | nil => rfl
  | cons p ps ih =>
    have hp := mergeCellPair_isSome (h p (by simp))
    rw [List.filterMap_cons]
    cases hm : mergeCellPair p with
    | none => rw [hm] at hp; cases hp
    | some c =>
      simp only [List.map_cons, mergeCellPair_key hm, ih (fun q hq => h q (by simp [hq]))]

/-- **`Spec.mergeSpec` holds of the model's `merge`** for every join type and `on`, under the
distinct-keys hypothesis and for value dicts with distinct keys (true of every Python dict). -/
theorem mergeSpec_of_merge {ty : JoinType} {on : Option (List String)} {a b out : List Cell}
    (hyp : Spec.joinHyp on a b = true) (hv : ∀ c ∈ a ++ b, c.values.WF)
    (h : merge (some ty) on a b = .ok out) : Spec.mergeSpec ty on a b out = true := by
  obtain ⟨ps, hj, hperm, _⟩ := merge_ok h
  have hyp' := hyp
  unfold Spec.joinHyp at hyp'
  simp only [Bool.and_eq_true, nodupB_iff] at hyp'
  obtain ⟨hna, hnb⟩ := hyp'
  obtain ⟨hnd, hnone, hset⟩ := join_keys_on hj
  have hex := join_pairs_exact hj hna hnb
  have hkeys := filterMap_merge_keys (inc := isIncremental a) (ps := ps)
    (fun p hp hn => hnone (List.mem_map.mpr ⟨p, hp, hn⟩))
  have hpk : ((out.map (joinKey (isIncremental a))).map some).Perm (ps.map (Spec.pairKey? (isIncremental a))) := by
    rw [← hkeys, List.map_map]
    exact (hperm.map _)
  have hmemk : ∀ k, k ∈ out.map (joinKey (isIncremental a)) ↔
      some k ∈ ps.map (Spec.pairKey? (isIncremental a)) := by
    intro k
    rw [← hpk.mem_iff]
    simp
  unfold Spec.mergeSpec
  simp only [Bool.and_eq_true, List.all_eq_true]
  refine ⟨⟨nodupB_iff.mpr ?_, fun c hc => ?_⟩, fun k _ => ?_⟩
  · have : ((out.map (joinKey (isIncremental a))).map some).Nodup := hpk.nodup_iff.mpr hnd
    exact List.Pairwise.of_map some (fun x y hxy e => hxy (by rw [e])) this
  · obtain ⟨p, hp, hm⟩ := (merge_cells h hj c).mp hc
    obtain ⟨k, hk, hpe⟩ := hex p hp
    have hkc : k = joinKey (isIncremental a) c := by
      have := mergeCellPair_key (inc := isIncremental a) hm
      rw [hk] at this; exact Option.some.inj this
    subst hkc
    refine ⟨(hset _).mp (List.mem_map.mpr ⟨p, hp, hk⟩), ?_⟩
    rw [hpe] at hm
    generalize hx : Spec.cellAt (isIncremental a) (Spec.onCells on a) (joinKey (isIncremental a) c) = ox at hm
    generalize hy : Spec.cellAt (isIncremental a) (Spec.onCells on b) (joinKey (isIncremental a) c) = oy at hm
    cases ox with
    | none =>
      cases oy with
      | none => simp [mergeCellPair] at hm
      | some y => simp [mergeCellPair] at hm; subst hm; simp
    | some x =>
      cases oy with
      | none => simp [mergeCellPair] at hm; subst hm; simp
      | some y =>
        simp only [mergeCellPair, Option.some.injEq] at hm
        subst hm
        have hxm := ((cellAt_eq_some_iff hna).mp hx).1
        have hym := ((cellAt_eq_some_iff hnb).mp hy).1
        obtain ⟨x0, hx0, hxv⟩ := mem_onCells_values hxm
        obtain ⟨y0, hy0, hyv⟩ := mem_onCells_values hym
        have wx : x.values.WF := hxv ▸ hv x0 (List.mem_append.mpr (Or.inl hx0))
        have wy : y.values.WF := hyv ▸ hv y0 (List.mem_append.mpr (Or.inr hy0))
        simp only [Bool.and_eq_true]
        exact ⟨sameFrame_values x _, isRightUnion_union wx wy⟩
  · simp only [Bool.or_eq_true, Bool.not_eq_true']
    by_cases hs : Spec.setExpr ty ((Spec.onCells on a).map (joinKey (isIncremental a)))
        ((Spec.onCells on b).map (joinKey (isIncremental a))) k = true
    · exact Or.inr (List.contains_iff_mem.mpr ((hmemk k).mpr ((hset k).mpr hs)))
    · exact Or.inl (by simpa using hs)

theorem zip_map_self {α β} (l : List α) (f : α → β) : l.zip (l.map f) = l.map (fun a => (a, f a)) := by
  induction l with
  | nil => rfl
  | cons a l ih => simp [ih]

theorem sameFrame_of_frame {c o : Cell} (h : o = { c with values := o.values }) :
    Spec.sameFrame c o = true := by
  rw [h]; simp [Spec.sameFrame]

/-- **`Spec.addStaticsSpec` holds of the model's `add_statics`** on a triangle, when the source has
one cell per (metadata, period, evaluation date) and value dicts have distinct keys. -/
theorem addStaticsSpec_of_addStatics {t src out : List Cell} {st : List String} (ht : Canonical t)
    (hyp : Spec.addStaticsHyp t src = true) (hv : ∀ c ∈ t ++ src, c.values.WF)
    (h : addStatics t src st = .ok out) : Spec.addStaticsSpec t src st out = true := by
  rw [addStatics_eq_map ht] at h
  cases h
  unfold Spec.addStaticsHyp at hyp
  simp only [Bool.and_eq_true, nodupB_iff] at hyp
  unfold Spec.addStaticsSpec
  simp only [Bool.and_eq_true, List.length_map, beq_self_eq_true, true_and, zip_map_self,
    List.all_map, List.all_eq_true, Function.comp]
  intro c hc
  refine ⟨sameFrame_of_frame (addStaticsCell_frame src st c), ?_⟩
  rw [latestSource?_eq_sourceCell? hyp.2]
  cases hs : sourceCell? src c with
  | none => simp [(addStaticsCell_values src st c).2.2 hs]
  | some s =>
    simp only []
    have hsm := (sourceCell?_spec hs).1
    have : (addStaticsCell src st c).values =
        c.values.union (s.values.filter (fun kv => st.contains kv.1)) := by
      unfold addStaticsCell; rw [hs]; rfl
    rw [this]
    exact isRightUnion_union (hv c (List.mem_append.mpr (Or.inl hc)))
      (Dict.WF_filter (hv s (List.mem_append.mpr (Or.inr hsm))) _)

theorem map_append_empty (d : Dict Val) : d.map (fun kv => (kv.1 ++ "", kv.2)) = d := by
  conv => rhs; rw [← List.map_id d]
  apply List.map_congr_left
  intro kv _; simp

theorem applySuffix_none (d : Dict Val) :
    applySuffix none d = d.map (fun kv => (kv.1 ++ "", kv.2)) := (map_append_empty d).symm

theorem applySuffix_some (s : String) (d : Dict Val) :
    applySuffix (some s) d = d.map (fun kv => (kv.1 ++ s, kv.2)) := by
  unfold applySuffix
  simp only []
  split
  · rename_i he
    have : s = "" := by simpa using he
    subst this; exact (map_append_empty d).symm
  · rfl

theorem append_right_cancel {a b s : String} (h : a ++ s = b ++ s) : a = b := by
  have := congrArg String.toList h
  simp only [String.toList_append] at this
  exact String.toList_inj.mp (List.append_cancel_right this)

theorem WF_map_suffix {d : Dict Val} (h : d.WF) (s : String) :
    Dict.WF (d.map (fun kv => (kv.1 ++ s, kv.2))) := by
  unfold Dict.WF Dict.keys at *
  rw [List.map_map]
  have : ((fun x : String × Val => x.1) ∘ fun kv : String × Val => (kv.1 ++ s, kv.2)) =
      (fun k => k ++ s) ∘ (fun x : String × Val => x.1) := rfl
  rw [this, ← List.map_map]
  exact List.Pairwise.map _ (fun x y hxy e => hxy (append_right_cancel e)) h

theorem WF_applySuffix {d : Dict Val} (h : d.WF) (suffix : Option String) :
    (applySuffix suffix d).WF := by
  cases suffix with
  | none => rw [applySuffix_none]; exact WF_map_suffix h ""
  | some s => rw [applySuffix_some]; exact WF_map_suffix h s

/-- **`Spec.periodMergeSpec` holds of the model's `period_merge`** on a triangle, when value dicts
have distinct keys (suffixing keeps them distinct: `WF_applySuffix`). -/
theorem periodMergeSpec_of_periodMerge {a b out : List Cell} {suffix : Option String}
    (ha : Canonical a) (hva : ∀ c ∈ a, c.values.WF)
    (hvb : ∀ c ∈ b, c.values.WF)
    (h : periodMerge a b suffix = .ok out) : Spec.periodMergeSpec a b suffix out = true := by
  obtain ⟨_, rfl, hlen⟩ := periodMerge_spec ha h
  unfold Spec.periodMergeSpec
  simp only [Bool.and_eq_true, List.length_map, beq_self_eq_true, true_and, zip_map_self,
    List.all_map, List.all_eq_true, Function.comp]
  intro c hc
  refine ⟨sameFrame_of_frame (pmCell_frame b suffix c), ?_⟩
  have hfil : b.filter (fun r => r.ps == c.ps && r.pe == c.pe && r.md == c.md) =
      b.filter (samePeriodKey c) := rfl
  rw [hfil]
  have hl := hlen c hc
  unfold pmCell
  generalize hf : b.filter (samePeriodKey c) = F at hl
  match F, hl with
  | [], _ => simp
  | [r], _ =>
    simp only []
    have hr : r ∈ b := (List.mem_filter.mp (hf ▸ List.mem_singleton.mpr rfl)).1
    have hw := WF_applySuffix (hvb r hr) suffix
    cases suffix with
    | none =>
      simp only []
      rw [← applySuffix_none]
      exact isRightUnion_union (hva c hc) hw
    | some s =>
      simp only []
      rw [← applySuffix_some]
      exact isRightUnion_union (hva c hc) hw
  | _ :: _ :: _, hl => simp at hl

/-! ### 8b. select → merge recombination -/

theorem mapM_mk_all_ok {f : Cell → Cell} {t : List Cell} (h : ∀ c ∈ t, (f c).datesOk = true) :
    t.mapM (fun c => (f c).mk?) = .ok (t.map f) := by
  induction t with
  | nil => rfl
  | cons a t ih =>
    rw [List.mapM_cons, ih (fun c hc => h c (by simp [hc]))]
    simp [Cell.mk?, h a (by simp), bind, Except.bind, pure, Except.pure]

theorem select_frame (ks : List String) (c : Cell) :
    c.select ks = { c with values := (c.select ks).values } := rfl

/-- on a triangle `select` is the cell-wise restriction of the value dicts, order unchanged -/
theorem select_eq_map {t : List Cell} (ks : List String) (ht : Canonical t) :
    Triangle.select t ks = .ok (t.map (·.select ks)) := by
  unfold Triangle.select
  have : t.mapM (fun c => (c.select ks).mk?) = .ok (t.map (·.select ks)) :=
    mapM_mk_all_ok (f := (·.select ks)) (fun c hc => ht.2.2 c hc)
  simp only [bind, Except.bind, this]
  exact ofCells_idem (frame_map_canonical (select_frame ks) ht)

theorem joinKey_frame {f : Cell → Cell} (hf : ∀ c, f c = { c with values := (f c).values })
    (inc : Bool) (c : Cell) : joinKey inc (f c) = joinKey inc c := by
  rw [hf c]; rfl

theorem isIncremental_map_frame {f : Cell → Cell} (hf : ∀ c, f c = { c with values := (f c).values })
    (t : List Cell) : isIncremental (t.map f) = isIncremental t := by
  cases t with
  | nil => rfl
  | cons c t => simp only [List.map_cons, isIncremental]; rw [hf c]

theorem keys_map_frame {f : Cell → Cell} (hf : ∀ c, f c = { c with values := (f c).values })
    (inc : Bool) (t : List Cell) : (t.map f).map (joinKey inc) = t.map (joinKey inc) := by
  rw [List.map_map]; apply List.map_congr_left; intro c _; exact joinKey_frame hf inc c

theorem dictGet_map_frame {f : Cell → Cell} (hf : ∀ c, f c = { c with values := (f c).values })
    {inc : Bool} {t : List Cell} (hn : (t.map (joinKey inc)).Nodup) {c : Cell} (hc : c ∈ t) :
    dictGet inc (t.map f) (joinKey inc c) = some (f c) := by
  have hn' : ((t.map f).map (joinKey inc)).Nodup := by rw [keys_map_frame hf]; exact hn
  rw [dictGet_eq_cellAt hn']
  exact (cellAt_eq_some_iff hn').mpr ⟨List.mem_map.mpr ⟨c, hc, rfl⟩, joinKey_frame hf inc c⟩

/-- merging two value-only images of one triangle (`t.map f`, `t.map g`, where `f`, `g` rewrite
nothing but `values`) gives, cell by cell and in the same order, the left frame with
`{**f(c).values, **g(c).values}` -/
theorem merge_frame_maps {ty : JoinType} (hty : ty = .full ∨ ty = .inner ∨ ty = .left ∨ ty = .right)
    {f g : Cell → Cell}
    (hf : ∀ c, f c = { c with values := (f c).values })
    (hg : ∀ c, g c = { c with values := (g c).values })
    {t : List Cell} (ht : Canonical t) (hn : (t.map (joinKey (isIncremental t))).Nodup) :
    merge (some ty) none (t.map f) (t.map g) =
      .ok (t.map (fun c => { f c with values := (f c).values.union (g c).values })) := by
  have hkm : kindMismatch (t.map f) (t.map g) = false := by
    cases t with
    | nil => rfl
    | cons c t =>
      simp only [List.map_cons, kindMismatch]
      rw [hf c, hg c]; simp
  have hj : join (some ty) none (t.map f) (t.map g) = .ok (joinCore ty (t.map f) (t.map g)) := by
    unfold join
    simp [hkm, reduceOn, bind, Except.bind, pure, Except.pure]
  have hinc := isIncremental_map_frame hf t
  have hall : allCoordinates (t.map f) (t.map g) = t.map (joinKey (isIncremental t)) := by
    unfold allCoordinates
    simp only [hinc, keys_map_frame hf, keys_map_frame hg]
    rw [dedup_append_of_subset (fun _ h => h), dedup_of_nodup hn]
  have hcore : joinCore ty (t.map f) (t.map g) = t.map (fun c => (some (f c), some (g c))) := by
    rw [joinCore_eq, hall, hinc, keys_map_frame hf, keys_map_frame hg,
      List.filter_eq_self.mpr (fun k hk => setExpr_self hty hk), List.map_map]
    apply List.map_congr_left
    intro c hc
    simp only [Function.comp, pairOf, dictGet_map_frame hf hn hc, dictGet_map_frame hg hn hc]
  unfold merge
  simp only [hj, bind, Except.bind]
  rw [hcore, List.filterMap_map]
  have : List.filterMap (mergeCellPair ∘ fun c => (some (f c), some (g c))) t =
      t.map (fun c => { f c with values := (f c).values.union (g c).values }) := by
    rw [← List.filterMap_eq_map]
    rfl
  rw [this]
  apply ofCells_idem
  exact frame_map_canonical (f := fun c => { f c with values := (f c).values.union (g c).values })
    (fun c => by show _ = _; rw [hf c]) ht


/-- **select_merge_recombine**: split the fields of a triangle with `select ks₁` / `select ks₂` and
merge the parts back (`full`, `inner`, `left` or `right`; no `on`). Hypotheses: `t` is a canonical
triangle, its join keys are distinct, value dicts have distinct keys. Then the result has the cells
of `t` in the same order with the same frames, and as a finite map the value dict of cell `i` is
that of `t[i]` restricted to `ks₁ ∪ ks₂`. -/
theorem select_merge_recombine {ty : JoinType}
    (hty : ty = .full ∨ ty = .inner ∨ ty = .left ∨ ty = .right)
    {t t₁ t₂ m : List Cell} {ks₁ ks₂ : List String} (ht : Canonical t)
    (hn : (t.map (joinKey (isIncremental t))).Nodup) (hv : ∀ c ∈ t, c.values.WF)
    (h₁ : Triangle.select t ks₁ = .ok t₁) (h₂ : Triangle.select t ks₂ = .ok t₂)
    (h : merge (some ty) none t₁ t₂ = .ok m) :
    m.length = t.length ∧
    ∀ i (hi : i < t.length) (hm : i < m.length),
      m[i] = { t[i] with values := m[i].values } ∧ m[i].values.WF ∧
      ∀ f, m[i].values.get? f =
        if ks₁.contains f || ks₂.contains f then t[i].values.get? f else none := by
  rw [select_eq_map ks₁ ht] at h₁; cases h₁
  rw [select_eq_map ks₂ ht] at h₂; cases h₂
  rw [merge_frame_maps hty (select_frame ks₁) (select_frame ks₂) ht hn] at h
  cases h
  refine ⟨List.length_map _, fun i hi hm => ?_⟩
  rw [List.getElem_map]
  have hw := hv t[i] (List.getElem_mem hi)
  have hw₁ : Dict.WF (t[i].values.filter (fun kv => ks₁.contains kv.1)) := Dict.WF_filter hw _
  have hw₂ : Dict.WF (t[i].values.filter (fun kv => ks₂.contains kv.1)) := Dict.WF_filter hw _
  refine ⟨rfl, Dict.WF_union hw₁ _, fun f => ?_⟩
  show Dict.get? (Dict.union (t[i].values.filter (fun kv => ks₁.contains kv.1))
      (t[i].values.filter (fun kv => ks₂.contains kv.1))) f = _
  rw [Dict.get?_union _ _ hw₂, Dict.get?_filter_j _ (fun k => ks₂.contains k),
    Dict.get?_filter_j _ (fun k => ks₁.contains k)]
  cases ks₁.contains f <;> cases ks₂.contains f <;> simp

/-- … and when `ks₁ ∪ ks₂` covers every field, the original triangle comes back: same cells in the
same order, every field with its original value (value dicts equal as finite maps; Python's
`values_eq` / `Cell.__eq__` do not see dict order). -/
theorem select_merge_original {ty : JoinType}
    (hty : ty = .full ∨ ty = .inner ∨ ty = .left ∨ ty = .right)
    {t t₁ t₂ m : List Cell} {ks₁ ks₂ : List String} (ht : Canonical t)
    (hn : (t.map (joinKey (isIncremental t))).Nodup) (hv : ∀ c ∈ t, c.values.WF)
    (hcov : ∀ c ∈ t, ∀ f ∈ c.values.keys, f ∈ ks₁ ∨ f ∈ ks₂)
    (h₁ : Triangle.select t ks₁ = .ok t₁) (h₂ : Triangle.select t ks₂ = .ok t₂)
    (h : merge (some ty) none t₁ t₂ = .ok m) :
    m.length = t.length ∧
    ∀ i (hi : i < t.length) (hm : i < m.length),
      m[i] = { t[i] with values := m[i].values } ∧
      ∀ f, m[i].values.get? f = t[i].values.get? f := by
  obtain ⟨hl, hcells⟩ := select_merge_recombine hty ht hn hv h₁ h₂ h
  refine ⟨hl, fun i hi hm => ⟨(hcells i hi hm).1, fun f => ?_⟩⟩
  rw [(hcells i hi hm).2.2 f]
  split
  · rfl
  · rename_i hnot
    symm
    rw [Dict.get?_eq_none_iff]
    intro hf
    simp only [Bool.or_eq_true, List.contains_iff_mem, not_or] at hnot
    rcases hcov t[i] (List.getElem_mem hi) f hf with h | h
    · exact hnot.1 h
    · exact hnot.2 h

/-! ### 9. non-vacuity: concrete operands satisfy the hypotheses -/

def isValueError {α} : Except Err α → Bool
  | .error .valueError => true
  | _ => false

def exUS : Metadata := { country := some "US", details := [("k", .num 1)] }
def exDE : Metadata := { country := some "DE", details := [("k", .num 2)] }

def exCell (m : Metadata) (ev : Date) (vs : Dict Val) : Cell :=
  { kind := .cumulative, ps := ⟨2020, 1, 1⟩, pe := ⟨2020, 12, 31⟩, ev := ev, values := vs, md := m }

/-- left operand: two slices, three cells -/
def exA : List Cell :=
  [ exCell exDE ⟨2021, 12, 31⟩ [("paid_loss", .int 5)],
    exCell exUS ⟨2021, 12, 31⟩ [("paid_loss", .int 1), ("earned_premium", .int 10)],
    exCell exUS ⟨2022, 12, 31⟩ [("paid_loss", .int 2), ("earned_premium", .int 10)] ]

/-- right operand: shares one coordinate with `exA` (conflicting `paid_loss`, new field), has one
coordinate of its own -/
def exB : List Cell :=
  [ exCell exUS ⟨2021, 12, 31⟩ [("paid_loss", .int 7), ("reported_loss", .int 9)],
    exCell exUS ⟨2023, 12, 31⟩ [("paid_loss", .int 3)] ]

theorem exA_canonical : Canonical exA := by
  refine ⟨by decide +kernel, by decide, by decide⟩

example : Spec.joinHyp none exA exB = true := by decide +kernel
example : Spec.joinHyp (some ["country"]) exA exB = true := by decide +kernel


/-- inner join without `on`: exactly the shared coordinate, carrying both original cells -/
example : (join (some .inner) none exA exB).toOption = some [(exA[1]?, exB[0]?)] := by
  decide +kernel

/-- left_anti: the two left-only coordinates, right side `None` -/
example : (join (some .leftAnti) none exA exB).toOption =
    some [(exA[0]?, none), (exA[2]?, none)] := by decide +kernel

/-- full merge, the list handed to `Triangle(...)`: the matched coordinate has the union of fields
and the right value of `paid_loss`; the other cells are the operands' own -/
example : (joinCore .full exA exB).filterMap mergeCellPair =
    [ exA[0]!, exA[2]!,
      exCell exUS ⟨2021, 12, 31⟩
        [("paid_loss", .int 7), ("earned_premium", .int 10), ("reported_loss", .int 9)],
      exB[1]! ] := by decide +kernel

/-- the hypotheses of `merge_self` are satisfiable -/
example : merge (some .full) none exA exA = .ok exA :=
  merge_self (Or.inl rfl) exA_canonical (by decide +kernel) (by unfold Dict.WF; decide +kernel)

/-- coalesce, the list handed to `Triangle(...)`: the first triangle wins the shared coordinate -/
example : firstsBy coalKey [] [exB, exA].flatten = [exB[0]!, exB[1]!, exA[0]!, exA[2]!] := by
  decide +kernel

/-- period_merge refuses a right triangle with two cells in one (period, metadata) -/
example : isValueError (periodMerge exA exB none) = true := by decide +kernel

/-- … and with one right cell per period suffixes the incoming fields -/
example : exA.map (pmCell [exB[0]!] (some "_r")) =
    [ exA[0]!,
      exCell exUS ⟨2021, 12, 31⟩ [("paid_loss", .int 1), ("earned_premium", .int 10),
        ("paid_loss_r", .int 7), ("reported_loss_r", .int 9)],
      exCell exUS ⟨2022, 12, 31⟩ [("paid_loss", .int 2), ("earned_premium", .int 10),
        ("paid_loss_r", .int 7), ("reported_loss_r", .int 9)] ] := by decide +kernel

/-! ### 10. the regrouping loops of `add_statics` / `period_merge` (literal model = direct model) -/

theorem cmp_frame {f : Cell → Cell} (hf : ∀ c, f c = { c with values := (f c).values }) (a b : Cell) :
    Cell.cmp (f a) (f b) = Cell.cmp a b := by rw [hf a, hf b]; rfl

/-- cells that tie under `Cell.__lt__` are identical when coordinates are distinct -/
theorem ties_identical_map {f : Cell → Cell} (hf : ∀ c, f c = { c with values := (f c).values })
    {t : List Cell} (hc : ∀ c ∈ t, c.md.Canon) (hn : (t.map Cell.coord).Nodup) :
    ∀ a b, a ∈ t.map f → b ∈ t.map f → Cell.cmp a b = .eq → a = b := by
  intro a b ha hb hab
  obtain ⟨a0, ha0, rfl⟩ := List.mem_map.mp ha
  obtain ⟨b0, hb0, rfl⟩ := List.mem_map.mp hb
  rw [cmp_frame hf] at hab
  have := (Cell.cmp_eq_eq (hc a0 ha0) (hc b0 hb0)).mp hab
  rw [inj_of_nodup_map hn ha0 hb0 this]

theorem addStatics_block {src : List Cell} (st : List String)
    (hs : src.Pairwise (fun a b => Cell.le a b)) {blk : List Cell} {m : Metadata}
    (hblk : ∀ c ∈ blk, c.md = m) :
    addStaticsBlockLit (Triangle.slices src) st (m, blk) = blk.map (addStaticsCell src st) := by
  unfold addStaticsBlockLit
  simp only []
  rw [slices_eq, find?_map_key]
  by_cases hm : m ∈ firstKeys (fun c : Cell => c.md) src
  · rw [if_pos hm]
    simp only []
    rw [slice_sorted hs]
    unfold addStaticsSliceLit
    apply List.map_congr_left
    intro c hc
    have hcm := hblk c hc
    subst hcm
    rw [sourceIndexedGet_eq]
    rfl
  · rw [if_neg hm]
    simp only []
    conv => lhs; rw [← List.map_id blk]
    apply List.map_congr_left
    intro c hc
    have hnone : sourceCell? src c = none := by
      unfold sourceCell?
      have : src.filter (fun s => s.md == c.md && s.ps == c.ps && s.pe == c.pe) = [] := by
        rw [List.filter_eq_nil_iff]
        intro s hsm hcond
        simp only [Bool.and_eq_true, beq_iff_eq] at hcond
        exact hm ((mem_firstKeys _ src m).mpr ⟨s, hsm, hcond.1.1.trans (hblk c hc)⟩)
      rw [this]; simp [lastBy?]
    unfold addStaticsCell; rw [hnone]; rfl

/-- **addStatics_regrouping**: the literal loop of `add_statics` (per slice of the triangle, source
slice looked up by metadata, source rows grouped by period, concatenation, `Triangle(...)`) returns
what the direct form `addStatics` returns — for a triangle with canonical metadata and distinct
coordinates and a sorted source (what `Triangle.cells` always is). -/
theorem addStaticsLit_eq {t src : List Cell} {st : List String} (hc : ∀ c ∈ t, c.md.Canon)
    (hn : (t.map Cell.coord).Nodup) (hs : src.Pairwise (fun a b => Cell.le a b)) :
    addStaticsLit t src st = addStatics t src st := by
  unfold addStaticsLit addStatics
  symm
  apply ofCells_perm_invariant _ (ties_identical_map (addStaticsCell_frame src st) hc hn)
  rw [slices_eq t, List.flatMap_map]
  refine List.Perm.symm (List.Perm.trans (perm_flatMap_blocks
    (g := fun m => (t.filter (fun c : Cell => c.md == m)).map (addStaticsCell src st)) ?_) ?_)
  · intro m _
    have hmem : ∀ c ∈ (t.filter (fun c : Cell => c.md == m)).mergeSort Cell.le, c.md = m := by
      intro c hc'
      have := (List.mergeSort_perm _ _).mem_iff.mp hc'
      simpa using (List.mem_filter.mp this).2
    rw [addStatics_block st hs hmem]
    exact (List.mergeSort_perm _ _).map _
  · rw [← List.map_flatMap]
    exact (flatMap_filter_perm (fun c : Cell => c.md) _ t (firstKeys_nodup _ t)
      (fun a ha => (mem_firstKeys _ t _).mpr ⟨a, ha, rfl⟩)).map _

theorem periodMergeCell_of_le {b : List Cell} {suffix : Option String} {c : Cell}
    (h : (b.filter (samePeriodKey c)).length ≤ 1) :
    periodMergeCell b suffix c = .ok (pmCell b suffix c) := by
  unfold periodMergeCell pmCell
  match hf : b.filter (samePeriodKey c), h with
  | [], _ => rfl
  | [r], _ => rfl
  | _ :: _ :: _, h => simp at h

theorem periodMergeCell_of_gt {b : List Cell} {suffix : Option String} {c : Cell}
    (h : ¬ (b.filter (samePeriodKey c)).length ≤ 1) :
    periodMergeCell b suffix c = .error .valueError := by
  unfold periodMergeCell
  match hf : b.filter (samePeriodKey c), h with
  | [], h => simp at h
  | [r], h => simp at h
  | _ :: _ :: _, _ => rfl

theorem periodMergeCell_error {b : List Cell} {suffix : Option String} {c : Cell} {e : Err}
    (h : periodMergeCell b suffix c = .error e) : e = .valueError := by
  unfold periodMergeCell at h
  split at h <;> cases h
  rfl

/-- one group of the literal loop = the cell-wise map on the group -/
theorem periodMergeGroupLit_spec (b : List Cell) (suffix : Option String)
    (k : Date × Date × Metadata) (row : List Cell) (hrow : ∀ c ∈ row, pmIdx c = k) :
    periodMergeGroupLit (groupBy pmIdx b) suffix (k, row) =
      if (b.filter (fun r => pmIdx r == k)).length ≤ 1 then .ok (row.map (pmCell b suffix))
      else .error .valueError := by
  unfold periodMergeGroupLit
  simp only []
  rw [groupGet_groupBy]
  have hcell : ∀ c ∈ row, b.filter (samePeriodKey c) = b.filter (fun r => pmIdx r == k) := by
    intro c hc; rw [filter_samePeriodKey, hrow c hc]
  match hf : b.filter (fun r => pmIdx r == k) with
  | [] =>
    simp only [List.length_nil, Nat.zero_le, if_true]
    congr 1
    conv => lhs; rw [← List.map_id row]
    apply List.map_congr_left
    intro c hc
    unfold pmCell; rw [hcell c hc, hf]; rfl
  | [r] =>
    simp only [List.length_singleton, Nat.le_refl, if_true]
    congr 1
    apply List.map_congr_left
    intro c hc
    unfold pmCell; rw [hcell c hc, hf]
  | _ :: _ :: _ => simp


theorem periodMergeLit_unfold (a b : List Cell) (suffix : Option String) :
    periodMergeLit a b suffix =
      if kindMismatch a b then .error .valueError
      else Except.bind ((groupBy pmIdx a).mapM (periodMergeGroupLit (groupBy pmIdx b) suffix))
        (fun out => Triangle.ofCells out.flatten) := by
  unfold periodMergeLit
  by_cases h : kindMismatch a b = true
  · simp [h, bind, Except.bind, throw, throwThe, MonadExceptOf.throw]
  · simp only [h, bind, Except.bind]
    rfl

theorem periodMerge_unfold (a b : List Cell) (suffix : Option String) :
    periodMerge a b suffix =
      if kindMismatch a b then .error .valueError
      else Except.bind (a.mapM (periodMergeCell b suffix)) Triangle.ofCells := by
  unfold periodMerge
  by_cases h : kindMismatch a b = true
  · simp [h, bind, Except.bind, throw, throwThe, MonadExceptOf.throw]
  · simp only [h, bind, Except.bind]
    rfl

/-- **periodMerge regrouping**: the literal loop of `period_merge` (two `defaultdict(list)` keyed by
(period, metadata), left groups visited in insertion order, concatenation, `Triangle(...)`) returns
what the direct form `periodMerge` returns — same result, same `ValueError` — for a left triangle
with canonical metadata and distinct coordinates. -/
theorem periodMergeLit_eq {a b : List Cell} {suffix : Option String} (hc : ∀ c ∈ a, c.md.Canon)
    (hn : (a.map Cell.coord).Nodup) : periodMergeLit a b suffix = periodMerge a b suffix := by
  rw [periodMergeLit_unfold, periodMerge_unfold]
  split
  · rfl
  · have hg : groupBy pmIdx a =
        (firstKeys pmIdx a).map (fun k => (k, a.filter (fun c => pmIdx c == k))) := groupBy_eq_map pmIdx a
    have hentry : ∀ e ∈ groupBy pmIdx a,
        periodMergeGroupLit (groupBy pmIdx b) suffix e =
          if (b.filter (fun r => pmIdx r == e.1)).length ≤ 1 then .ok (e.2.map (pmCell b suffix))
          else .error .valueError := by
      intro e he
      have h2 := groupBy_entry pmIdx a he
      have := periodMergeGroupLit_spec b suffix e.1 e.2 (fun c hc' => by
        rw [h2] at hc'; simpa using (List.mem_filter.mp hc').2)
      exact this
    by_cases hall : ∀ c ∈ a, (b.filter (samePeriodKey c)).length ≤ 1
    · -- no index with several right cells: both succeed, results are permutations
      have hflat : a.mapM (periodMergeCell b suffix) = .ok (a.map (pmCell b suffix)) :=
        mapM_ok_of_all (fun c hc' => periodMergeCell_of_le (hall c hc'))
      have hlit : (groupBy pmIdx a).mapM (periodMergeGroupLit (groupBy pmIdx b) suffix) =
          .ok ((groupBy pmIdx a).map (fun e => e.2.map (pmCell b suffix))) := by
        apply mapM_ok_of_all
        intro e he
        rw [hentry e he, if_pos]
        have h2 := groupBy_entry pmIdx a he
        have hne : e.2 ≠ [] ∨ e.2 = [] := by cases e.2 <;> simp
        -- pick any cell of the group to transfer the bound
        have hk : ∀ c ∈ e.2, pmIdx c = e.1 := fun c hc' => by
          rw [h2] at hc'; simpa using (List.mem_filter.mp hc').2
        have hmemk : e.1 ∈ firstKeys pmIdx a := by
          rw [← groupBy_keys]; exact List.mem_map.mpr ⟨e, he, rfl⟩
        obtain ⟨c, hca, hck⟩ := (mem_firstKeys pmIdx a e.1).mp hmemk
        have := hall c hca
        rw [filter_samePeriodKey, hck] at this
        exact this
      rw [hflat, hlit]
      simp only [Except.bind]
      symm
      apply ofCells_perm_invariant _ (ties_identical_map (pmCell_frame b suffix) hc hn)
      rw [hg, List.map_map, ← List.flatMap_def]
      refine List.Perm.symm ?_
      show ((firstKeys pmIdx a).flatMap
        (fun k => (a.filter (fun c => pmIdx c == k)).map (pmCell b suffix))).Perm _
      rw [← List.map_flatMap]
      exact (flatMap_filter_perm pmIdx _ a (firstKeys_nodup _ a)
        (fun x hx => (mem_firstKeys _ a _).mpr ⟨x, hx, rfl⟩)).map _
    · -- some index has several right cells: both raise ValueError
      have hex : ∃ c ∈ a, ¬ (b.filter (samePeriodKey c)).length ≤ 1 := by
        apply Classical.byContradiction
        intro hcon
        apply hall
        intro c hc'
        apply Classical.byContradiction
        intro hgt
        exact hcon ⟨c, hc', hgt⟩
      obtain ⟨c, hca, hgt⟩ := hex
      have hflat : a.mapM (periodMergeCell b suffix) = .error .valueError :=
        mapM_error (fun x _ e' he' => periodMergeCell_error he')
          ⟨c, hca, _, periodMergeCell_of_gt hgt⟩
      have hlit : (groupBy pmIdx a).mapM (periodMergeGroupLit (groupBy pmIdx b) suffix) =
          .error .valueError := by
        apply mapM_error
        · intro e he e' he'
          rw [hentry e he] at he'
          split at he' <;> cases he'
          rfl
        · have hmemk : pmIdx c ∈ firstKeys pmIdx a := (mem_firstKeys pmIdx a _).mpr ⟨c, hca, rfl⟩
          rw [← groupBy_keys] at hmemk
          obtain ⟨e, he, hek⟩ := List.mem_map.mp hmemk
          refine ⟨e, he, .valueError, ?_⟩
          rw [hentry e he, if_neg]
          rw [hek, ← filter_samePeriodKey]
          exact hgt
      rw [hflat, hlit]
      rfl

/-- so every statement about `addStatics` holds of the literal loop, e.g. the Spec bridge -/
theorem addStaticsSpec_of_addStaticsLit {t src out : List Cell} {st : List String} (ht : Canonical t)
    (hc : ∀ c ∈ t, c.md.Canon) (hs : src.Pairwise (fun a b => Cell.le a b))
    (hyp : Spec.addStaticsHyp t src = true) (hv : ∀ c ∈ t ++ src, c.values.WF)
    (h : addStaticsLit t src st = .ok out) : Spec.addStaticsSpec t src st out = true := by
  have hn : (t.map Cell.coord).Nodup := by
    unfold Spec.addStaticsHyp Spec.leftHyp at hyp
    simp only [Bool.and_eq_true, nodupB_iff] at hyp
    exact hyp.1
  rw [addStaticsLit_eq hc hn hs] at h
  exact addStaticsSpec_of_addStatics ht hyp hv h

theorem periodMergeSpec_of_periodMergeLit {a b out : List Cell} {suffix : Option String}
    (ha : Canonical a) (hc : ∀ c ∈ a, c.md.Canon) (hn : (a.map Cell.coord).Nodup)
    (hva : ∀ c ∈ a, c.values.WF) (hvb : ∀ c ∈ b, c.values.WF)
    (h : periodMergeLit a b suffix = .ok out) : Spec.periodMergeSpec a b suffix out = true := by
  rw [periodMergeLit_eq hc hn] at h
  exact periodMergeSpec_of_periodMerge ha hva hvb h

end Bermuda.Properties.C10
