/-
C11 — selection operators return exactly the cells their predicate describes.
Only property theorems live here (helper lemmas: `Lemmas/Select.lean`).
-/
import Bermuda.Model.Select
import Bermuda.Spec.C11
import Bermuda.Lemmas.Select
import Bermuda.Properties.C01
namespace Bermuda.Properties.C11
open Bermuda Std Bermuda.Spec.C11

/-- the triangle is in canonical form (what `Triangle(...)` always returns, C01): sorted and of
one cell class -/
def Canon (t : List Cell) : Prop :=
  t.Pairwise (fun a b => Cell.le a b) ∧ kindsConsistent t = true

theorem Canon.sublist {t s : List Cell} (ht : Canon t) (hs : s.Sublist t) : Canon s :=
  ⟨ht.1.sublist hs, kindsConsistent_sublist_sel hs ht.2⟩

/-! ### 1. clip -/

/-- **clip = one filter by the conjunction of its bounds**, whatever subset of the six bounds is
given, followed by the constructor -/
theorem clip_eq_filter_conj (t : List Cell) (a : ClipFull) (u : LagUnit) (hu : a.unit = some u) :
    Triangle.clipFull t a = Triangle.ofCells (t.filter (clipKeep a u)) :=
  clipFull_eq t a u hu

/-- on a canonical triangle the constructor has nothing to reorder: the result is exactly the
sub-list of cells satisfying all bounds, unchanged and in order -/
theorem clip_exact {t : List Cell} (ht : Canon t) (a : ClipFull) (u : LagUnit) (hu : a.unit = some u) :
    Triangle.clipFull t a = .ok (t.filter (clipKeep a u)) := by
  rw [clipFull_eq t a u hu]
  exact ofCells_sublist List.filter_sublist ht.1 ht.2

/-- the Spec predicate holds of the model's output -/
theorem clipSpec_model {t : List Cell} (ht : Canon t) (a : ClipFull) (u : LagUnit) (hu : a.unit = some u)
    {out : List Cell} (h : Triangle.clipFull t a = .ok out) : clipSpec t a out = true := by
  rw [clip_exact ht a u hu] at h
  cases h
  simp [clipSpec, hu, exactly]

/-- with an unrecognised unit a lag bound is refused as soon as one cell reaches it -/
theorem clip_bad_unit (t : List Cell) (q : Rat) (ht : t ≠ []) :
    Triangle.clipFull t { minDev := some q, unit := none } = .error .valueError := by
  cases t with
  | nil => exact absurd rfl ht
  | cons c rest => simp [Triangle.clipFull, optFilter, devFilter, bind, Except.bind]

/-- all six bounds set to a cell's own evaluation date, period start, period end and lag -/
def ownBounds (c : Cell) (u : LagUnit) : ClipFull where
  minEval := some c.ev
  maxEval := some c.ev
  minPeriod := some c.ps
  maxPeriod := some c.pe
  minDev := some (c.devLag u)
  maxDev := some (c.devLag u)
  unit := some u

/-- **every bound is inclusive**: clipping with all six bounds set to a cell's own evaluation
date, period start, period end and development lag keeps that cell -/
theorem clip_inclusive {t : List Cell} (ht : Canon t) {c : Cell} (hc : c ∈ t) (u : LagUnit) :
    ∃ r, Triangle.clipFull t (ownBounds c u) = .ok r ∧ c ∈ r := by
  refine ⟨_, clip_exact ht _ u rfl, ?_⟩
  refine List.mem_filter.mpr ⟨hc, ?_⟩
  simp [ownBounds, clipKeep, inDates, inLags, Date.le_refl]

/-- **complementary clips partition the triangle**: `clip(max_eval = b)` and
`clip(min_eval = b + 1 day)` together hold every cell exactly once -/
theorem clip_complement_partition {t : List Cell} (ht : Canon t) (b : Date) (hb : b.valid = true)
    (hv : ∀ c ∈ t, c.ev.valid = true) :
    ∃ lo hi, Triangle.clipFull t { maxEval := some b } = .ok lo ∧
      Triangle.clipFull t { minEval := some b.succ } = .ok hi ∧
      (lo ++ hi).Perm t ∧ lo.length + hi.length = t.length := by
  refine ⟨_, _, clip_exact ht _ .month rfl, clip_exact ht _ .month rfl, ?_⟩
  have h1 : t.filter (clipKeep { maxEval := some b } .month) = t.filter (fun c => decide (c.ev ≤ b)) := by
    apply List.filter_congr; intro c _; simp [clipKeep, inDates, inLags]
  have h2 : t.filter (clipKeep { minEval := some b.succ } .month) = t.filter (fun c => !decide (c.ev ≤ b)) := by
    apply List.filter_congr; intro c hc
    have := Date.not_le_iff_succ_le hb (hv c hc)
    simp only [clipKeep, inDates, inLags, Option.all_none, Option.all_some, Bool.and_true]
    by_cases h : c.ev ≤ b
    · have : ¬ b.succ ≤ c.ev := fun h' => (this.mpr h') h
      simp [h, this]
    · have : b.succ ≤ c.ev := this.mp h
      simp [h, this]
  rw [h1, h2]
  have hp := List.filter_append_perm (fun c : Cell => decide (c.ev ≤ b)) t
  exact ⟨hp, by simpa using hp.length_eq⟩

/-! ### 2. filter -/

/-- **filter returns exactly the cells satisfying the predicate, unchanged and in order**: the
result is a sub-list of a sorted list, so the constructor does not reorder it -/
theorem filter_unchanged_sorted {t : List Cell} (ht : Canon t) (p : Cell → Bool) :
    Triangle.filterP t p = .ok (t.filter p) :=
  ofCells_sublist List.filter_sublist ht.1 ht.2

theorem maskKeep_sublist (t : List Cell) (mask : List Bool) : (maskKeep t mask).Sublist t := by
  unfold maskKeep
  induction t generalizing mask with
  | nil => simp
  | cons c t ih =>
    cases mask with
    | nil => simp
    | cons b mask =>
      simp only [List.zip_cons_cons, List.filterMap_cons]
      cases b
      · simpa using (ih mask).cons c
      · simpa using (ih mask).cons_cons c

/-- the same for a predicate given extensionally (a mask over positions) -/
theorem filterMask_unchanged_sorted {t : List Cell} (ht : Canon t) (mask : List Bool) :
    Triangle.filterMask t mask = .ok (maskKeep t mask) :=
  ofCells_sublist (maskKeep_sublist t mask) ht.1 ht.2

/-- **complementary filters partition the triangle** -/
theorem filter_complement_partition {t : List Cell} (ht : Canon t) (p : Cell → Bool) :
    ∃ a b, Triangle.filterP t p = .ok a ∧ Triangle.filterP t (fun c => !p c) = .ok b ∧
      (a ++ b).Perm t ∧ a.length + b.length = t.length := by
  refine ⟨_, _, filter_unchanged_sorted ht p, filter_unchanged_sorted ht _, ?_⟩
  have hp := List.filter_append_perm p t
  exact ⟨hp, by simpa using hp.length_eq⟩

/-! ### 3. slices and split -/

theorem slices_eq {t : List Cell} (ht : Canon t) :
    Triangle.slices t = (metasOf t).map fun m => (m, t.filter (fun c => c.md == m)) := by
  unfold Triangle.slices
  apply List.map_congr_left
  intro m _
  congr 1
  exact List.mergeSort_of_pairwise (ht.1.sublist List.filter_sublist)

/-- **slices partition the triangle by metadata**: one entry per distinct metadata, holding
exactly the cells of that metadata in order (never empty), and together a rearrangement of all
cells -/
theorem slices_partition {t : List Cell} (ht : Canon t) :
    ((Triangle.slices t).map (·.1)).Nodup ∧
    (∀ p ∈ Triangle.slices t, p.2 = t.filter (fun c => c.md == p.1) ∧ p.2 ≠ []) ∧
    ((Triangle.slices t).flatMap (·.2)).Perm t := by
  obtain ⟨hnd, hmem, hcov⟩ := metasOf_spec t
  rw [slices_eq ht]
  refine ⟨?_, ?_, ?_⟩
  · simpa [List.map_map, Function.comp_def] using hnd
  · intro p hp
    obtain ⟨m, hm, rfl⟩ := List.mem_map.mp hp
    refine ⟨rfl, ?_⟩
    obtain ⟨c, hc, e⟩ := hmem m hm
    exact List.ne_nil_of_mem (List.mem_filter.mpr ⟨hc, by simp [e]⟩)
  · rw [List.flatMap_map]
    exact flatMap_filter_perm (fun c : Cell => c.md) t (metasOf t) hnd hcov

theorem flatMap_congr_mem {α β} (l : List α) (f g : α → List β) (h : ∀ a ∈ l, f a = g a) :
    l.flatMap f = l.flatMap g := by
  induction l with
  | nil => rfl
  | cons a l ih =>
    simp only [List.flatMap_cons, h a (by simp), ih (fun x hx => h x (by simp [hx]))]

theorem mapM_ok_of_forall {α β} (f : α → Except Err β) (g : α → β) (l : List α)
    (h : ∀ a ∈ l, f a = .ok (g a)) : l.mapM f = .ok (l.map g) := by
  induction l with
  | nil => rfl
  | cons a l ih =>
    rw [List.mapM_cons, h a (by simp), ih (fun x hx => h x (by simp [hx]))]
    rfl

/-- **split partitions the triangle by the values of the given detail keys**: distinct keys,
each group exactly the cells with that key tuple in order (never empty), together a
rearrangement of all cells -/
theorem split_partition {t : List Cell} (ht : Canon t) (keys : List String) :
    ∃ gs, Triangle.split t keys = .ok gs ∧ (gs.map (·.1)).Nodup ∧
      (∀ p ∈ gs, p.2 = t.filter (fun c => splitKey keys c == p.1) ∧ p.2 ≠ []) ∧
      (gs.flatMap (·.2)).Perm t := by
  have inv := groupBy_inv_sel (splitKey keys) t
  refine ⟨groupBy (splitKey keys) t, ?_, inv.nodup, inv.grp, ?_⟩
  · unfold Triangle.split
    rw [mapM_ok_of_forall _ id]
    · simp
    · intro p hp
      have := (inv.grp p hp).1
      have hs : p.2.Sublist t := this ▸ List.filter_sublist
      simp [ofCells_sublist hs ht.1 ht.2, bind, Except.bind, pure, Except.pure]
  · have h : (groupBy (splitKey keys) t).flatMap (·.2) =
        ((groupBy (splitKey keys) t).map (·.1)).flatMap fun k => t.filter (fun c => splitKey keys c == k) := by
      rw [List.flatMap_map]
      exact flatMap_congr_mem _ _ _ (fun p hp => (inv.grp p hp).1)
    rw [h]
    exact flatMap_filter_perm (splitKey keys) t _ inv.nodup inv.cov

/-! ### 4. select -/

theorem select_cmp (a b : Cell) (keys : List String) :
    Cell.cmp (a.select keys) (b.select keys) = Cell.cmp a b := rfl

/-- **select keeps every cell** (same number, same class and coordinates, same order) and
restricts its values to the listed keys; nothing is reordered or refused on a canonical
triangle whose cells satisfy the constructor's date rules -/
theorem select_keeps_cells {t : List Cell} (ht : Canon t) (hd : ∀ c ∈ t, c.datesOk = true)
    (keys : List String) :
    Triangle.select t keys = .ok (t.map (fun c => c.select keys)) := by
  unfold Triangle.select
  have hm : t.mapM (fun c => (c.select keys).mk?) = .ok (t.map (fun c => c.select keys)) := by
    apply mapM_ok_of_forall
    intro c hc
    have : (c.select keys).datesOk = true := hd c hc
    simp [Cell.mk?, this]
  simp only [hm, bind, Except.bind]
  unfold Triangle.ofCells
  have hk : kindsConsistent (t.map (fun c => c.select keys)) = true := by
    have := ht.2
    unfold kindsConsistent at *
    simpa [List.all_map, Function.comp_def, Cell.select] using this
  rw [hk]
  simp only [if_true]
  congr 1
  apply List.mergeSort_of_pairwise
  rw [List.pairwise_map]
  exact ht.1.imp (fun {a b} h => by simpa [Cell.le, select_cmp] using h)

theorem selectSpec_map (t : List Cell) (keys : List String) :
    selectSpec t keys (t.map (fun c => c.select keys)) = true := by
  simp only [selectSpec, List.length_map, beq_self_eq_true, Bool.true_and, List.all_eq_true]
  intro p hp
  obtain ⟨c, o⟩ := p
  have : o = c.select keys := by
    induction t with
    | nil => simp at hp
    | cons a t ih =>
      simp only [List.map_cons, List.zip_cons_cons, List.mem_cons, Prod.mk.injEq] at hp
      rcases hp with ⟨rfl, rfl⟩ | hp
      · rfl
      · exact ih hp
  subst this
  simp [Cell.select, Cell.coord]

/-! ### 5. extract -/

/-- **extract returns one entry per cell, in the cells' order** -/
theorem extract_length_order (t : List Cell) (f : String) :
    (Triangle.extract t f).length = t.length ∧
    ∀ i (h : i < t.length), (Triangle.extract t f)[i]? = some ((t[i].values.get? f).getD .none) := by
  refine ⟨by simp [Triangle.extract], fun i h => ?_⟩
  simp [Triangle.extract, List.getElem?_map, List.getElem?_eq_getElem h]

theorem extractWith_length_order {α} (t : List Cell) (f : Cell → α) :
    (Triangle.extractWith t f).length = t.length ∧
    ∀ i (h : i < t.length), (Triangle.extractWith t f)[i]? = some (f t[i]) := by
  refine ⟨by simp [Triangle.extractWith], fun i h => ?_⟩
  simp [Triangle.extractWith, List.getElem?_map, List.getElem?_eq_getElem h]

/-! ### 6. `t[period, evaluation, metadata]` -/

/-- the result of `__getitem__` as a function of the filtered cell list -/
def itemResult (p e : DateIdx) (m : MetaIdx) (r : List Cell) : Except Err (List Cell ⊕ Cell) :=
  if p.isSlice || e.isSlice || m.isSlice then .ok (.inl r)
  else match r with
    | [] => .error .indexError
    | c :: _ => .ok (.inr c)

theorem date_between_self (d x : Date) : (decide (d ≤ x) && decide (x ≤ d)) = (x == d) := by
  by_cases h : x = d
  · subst h; simp [Date.le_refl]
  · have : ¬ (d ≤ x ∧ x ≤ d) := fun hh => h (Date.le_antisymm hh.2 hh.1)
    have h' : (x == d) = false := by simpa using h
    rw [h']
    by_cases h1 : d ≤ x <;> by_cases h2 : x ≤ d <;> simp_all

/-- what a period / evaluation index keeps -/
def idxKeep : DateIdx → Date → Bool
  | .scalar d, x => x == d
  | .slice lo hi, x => inDates lo hi x
  | .bad, _ => false

def metaKeep : MetaIdx → Cell → Bool
  | .is md, c => c.md == md
  | _, _ => true

theorem itemKeep_eq (p e : DateIdx) (m : MetaIdx) (c : Cell) :
    itemKeep p e m c = (metaKeep m c && idxKeep p c.ps && idxKeep e c.ev) := by
  cases m <;> cases p <;> cases e <;> rfl

theorem periodBounds_keep {p : DateIdx} {ps pe : Date} (h : p.periodBounds = .ok (ps, pe)) (x : Date)
    (hx : Date.min ≤ x ∧ x ≤ Date.max) : (decide (ps ≤ x) && decide (x ≤ pe)) = idxKeep p x := by
  cases p with
  | scalar d =>
    simp only [DateIdx.periodBounds, Except.ok.injEq, Prod.mk.injEq] at h
    obtain ⟨rfl, rfl⟩ := h
    exact date_between_self _ x
  | slice lo hi =>
    simp only [DateIdx.periodBounds, Except.ok.injEq, Prod.mk.injEq] at h
    obtain ⟨rfl, rfl⟩ := h
    cases lo <;> cases hi <;> simp [idxKeep, inDates, hx.1, hx.2]
  | bad => cases h

theorem evalBounds_keep {e : DateIdx} {es ee : Option Date} (h : e.evalBounds = .ok (es, ee)) (c : Cell) :
    clipKeep { minEval := es, maxEval := ee } .month c = idxKeep e c.ev := by
  cases e with
  | scalar d =>
    simp only [DateIdx.evalBounds, Except.ok.injEq, Prod.mk.injEq] at h
    obtain ⟨rfl, rfl⟩ := h
    simpa [clipKeep, inDates, inLags, idxKeep] using date_between_self d c.ev
  | slice lo hi =>
    simp only [DateIdx.evalBounds, Except.ok.injEq, Prod.mk.injEq] at h
    obtain ⟨rfl, rfl⟩ := h
    simp [clipKeep, inDates, inLags, idxKeep]
  | bad => cases h

/-- `__getitem__` after the metadata stage -/
def tailPipe (filtered : List Cell) (p e : DateIdx) (m : MetaIdx) : Except Err (List Cell ⊕ Cell) := do
  let (ps, pe) ← p.periodBounds
  let filtered ← Triangle.filterP filtered (fun c => ps ≤ c.ps && c.ps ≤ pe)
  let (es, ee) ← e.evalBounds
  let clipped ← Triangle.clipFull filtered { minEval := es, maxEval := ee }
  if p.isSlice || e.isSlice || m.isSlice then
    return .inl clipped
  else
    match clipped with
    | [] => throw .indexError
    | c :: _ => return .inr c

theorem getItem_unfold (t : List Cell) (p e : DateIdx) (m : MetaIdx) :
    Triangle.getItem t p e m =
      (match m with
        | .is md => Triangle.filterP t (fun c => c.md == md)
        | _ => pure t) >>= fun f => tailPipe f p e m := by
  unfold Triangle.getItem tailPipe
  cases m <;> rfl

theorem tailPipe_eq {f : List Cell} (hf : Canon f) (hr : ∀ c ∈ f, Date.min ≤ c.ps ∧ c.ps ≤ Date.max)
    (p e : DateIdx) (m : MetaIdx) (hp : p ≠ .bad) (he : e ≠ .bad) :
    tailPipe f p e m = itemResult p e m (f.filter (fun c => idxKeep p c.ps && idxKeep e c.ev)) := by
  obtain ⟨ps, pe, hpb⟩ : ∃ ps pe, p.periodBounds = .ok (ps, pe) := by
    cases p with
    | scalar d => exact ⟨d, d, rfl⟩
    | slice s e => exact ⟨_, _, rfl⟩
    | bad => exact absurd rfl hp
  obtain ⟨es, ee, heb⟩ : ∃ es ee, e.evalBounds = .ok (es, ee) := by
    cases e with
    | scalar d => exact ⟨some d, some d, rfl⟩
    | slice s e => exact ⟨_, _, rfl⟩
    | bad => exact absurd rfl he
  have c2 : Canon (f.filter (fun c => decide (ps ≤ c.ps) && decide (c.ps ≤ pe))) :=
    hf.sublist List.filter_sublist
  have key : f.filter (fun c => idxKeep p c.ps && idxKeep e c.ev) =
      ((f.filter (fun c => decide (ps ≤ c.ps) && decide (c.ps ≤ pe))).filter
        (clipKeep { minEval := es, maxEval := ee } .month)) := by
    rw [List.filter_filter]
    apply List.filter_congr
    intro c hc
    rw [periodBounds_keep hpb c.ps (hr c hc), evalBounds_keep heb c]
    simp [Bool.and_comm]
  unfold tailPipe
  simp only [hpb, heb, bind, Except.bind, filter_unchanged_sorted hf,
    clip_exact c2 { minEval := es, maxEval := ee } .month rfl, ← key]
  unfold itemResult
  split
  · rfl
  · cases f.filter (fun c => idxKeep p c.ps && idxKeep e c.ev) <;> rfl

/-- **indexing equals the corresponding filter**: for date or slice indices,
`t[period, evaluation, metadata]` is the filter by `itemKeep` (period start within the period
index, evaluation date within the evaluation index, metadata equal to the metadata index — all
inclusive, an absent slice end unbounded); a triangle when some index is a slice, else the first
such cell (`IndexError` when there is none) -/
theorem getItem_eq_filter {t : List Cell} (ht : Canon t)
    (hr : ∀ c ∈ t, Date.min ≤ c.ps ∧ c.ps ≤ Date.max)
    (p e : DateIdx) (m : MetaIdx) (hp : p ≠ .bad) (he : e ≠ .bad) :
    Triangle.getItem t p e m = itemResult p e m (t.filter (itemKeep p e m)) := by
  rw [getItem_unfold]
  have hk : t.filter (itemKeep p e m) =
      (t.filter (metaKeep m)).filter (fun c => idxKeep p c.ps && idxKeep e c.ev) := by
    rw [List.filter_filter]
    apply List.filter_congr
    intro c _
    rw [itemKeep_eq]
    simp [Bool.and_comm, Bool.and_left_comm, Bool.and_assoc]
  have hf : Canon (t.filter (metaKeep m)) := ht.sublist List.filter_sublist
  have hr' : ∀ c ∈ t.filter (metaKeep m), Date.min ≤ c.ps ∧ c.ps ≤ Date.max :=
    fun c hc => hr c (List.mem_filter.mp hc).1
  have h1 : (match m with
      | .is md => Triangle.filterP t (fun c => c.md == md)
      | _ => (pure t : Except Err (List Cell))) = .ok (t.filter (metaKeep m)) := by
    cases m with
    | is md => exact filter_unchanged_sorted ht _
    | none => exact congrArg Except.ok (List.filter_eq_self.mpr (fun _ _ => rfl)).symm
    | all => exact congrArg Except.ok (List.filter_eq_self.mpr (fun _ _ => rfl)).symm
  rw [h1, hk]
  exact tailPipe_eq hf hr' p e m hp he

/-- a non-date, non-slice period or evaluation index is refused -/
theorem getItem_bad_period (t : List Cell) (e : DateIdx) :
    Triangle.getItem t .bad e .none = .error .valueError := rfl

/-! ### 7. right_edge -/

/-- the list `right_edge` hands to the constructor: per slice, per period, the last cell by
evaluation date -/
def rightEdgeRows (t : List Cell) : List Cell :=
  (Triangle.slices t).flatMap fun p =>
    (groupBy (fun c : Cell => (c.ps, c.pe)) p.2).filterMap fun q =>
      lastBy? (fun a b => Date.cmp a.ev b.ev != .gt) q.2

theorem rightEdge_eq (t : List Cell) : Triangle.rightEdge t = Triangle.ofCells (rightEdgeRows t) := rfl

/-- every cell of `right_edge` is a cell of the triangle and the result is in canonical
order. The full statement is `rightEdge_spec` below. -/
theorem rightEdge_subset_sorted {t r : List Cell} (h : Triangle.rightEdge t = .ok r) :
    (∀ c ∈ r, c ∈ t) ∧ r.Pairwise (fun a b => Cell.le a b) := by
  rw [rightEdge_eq] at h
  refine ⟨fun c hc => ?_, Properties.C01.ofCells_sorted h⟩
  exact mem_rightEdge_rows ((Properties.C01.ofCells_perm h).mem_iff.mp hc)

/-- comparison of cells by evaluation date, as used for the rows of `right_edge` -/
def evCmp : Cell → Cell → Ordering := cmpOn (·.ev) Date.cmp

instance : TransCmp evCmp := by unfold evCmp; infer_instance

theorem rows_eq (t : List Cell) (ht : Canon t) :
    rightEdgeRows t = (metasOf t).flatMap fun m =>
      (groupBy (fun c : Cell => (c.ps, c.pe)) (t.filter (fun c => c.md == m))).filterMap fun q =>
        lastBy? (leOf evCmp) q.2 := by
  unfold rightEdgeRows
  rw [slices_eq ht, List.flatMap_map]
  rfl

theorem sameRow_iff (a b : Cell) : sameRow a b = true ↔ a.md = b.md ∧ (a.ps, a.pe) = (b.ps, b.pe) := by
  simp [sameRow, and_assoc]

theorem mem_rows {t : List Cell} (ht : Canon t) {c : Cell} (hc : c ∈ rightEdgeRows t) :
    ∃ m ∈ metasOf t, ∃ q ∈ groupBy (fun c : Cell => (c.ps, c.pe)) (t.filter (fun c => c.md == m)),
      lastBy? (leOf evCmp) q.2 = some c ∧
      q.2 = (t.filter (fun c => c.md == m)).filter (fun c => (c.ps, c.pe) == q.1) := by
  rw [rows_eq t ht] at hc
  obtain ⟨m, hm, hc⟩ := List.mem_flatMap.mp hc
  obtain ⟨q, hq, hl⟩ := List.mem_filterMap.mp hc
  exact ⟨m, hm, q, hq, hl, ((groupBy_inv_sel _ _).grp q hq).1⟩

/-- **right_edge holds, for each slice and period, exactly the cell with the latest evaluation
date**: every kept cell is a cell of the triangle whose evaluation date is maximal in its
(slice, period) row; every row of the triangle is represented; and no two kept cells share a
row (one per (slice, period)) -/
theorem rightEdge_spec {t r : List Cell} (ht : Canon t) (h : Triangle.rightEdge t = .ok r) :
    (∀ c ∈ r, c ∈ t ∧ ∀ c' ∈ t, sameRow c c' = true → c'.ev ≤ c.ev) ∧
    (∀ c ∈ t, ∃ c' ∈ r, sameRow c' c = true) ∧
    r.Pairwise (fun a b => sameRow a b = false) := by
  rw [rightEdge_eq] at h
  have hperm := Properties.C01.ofCells_perm h
  obtain ⟨hnd, hmem, hcov⟩ := metasOf_spec t
  refine ⟨?_, ?_, ?_⟩
  · intro c hc
    obtain ⟨m, hm, q, hq, hl, hq2⟩ := mem_rows ht (hperm.mem_iff.mp hc)
    have hcq : c ∈ q.2 := mem_of_lastBy? hl
    have hne : q.2 ≠ [] := List.ne_nil_of_mem hcq
    obtain ⟨c₀, hl₀, _, hmax⟩ := lastBy?_spec (cmp := evCmp) hne
    have : c₀ = c := by rw [hl₀] at hl; exact Option.some.inj hl
    subst this
    rw [hq2] at hcq
    have h1 := List.mem_filter.mp hcq
    have h2 := List.mem_filter.mp h1.1
    refine ⟨h2.1, ?_⟩
    intro c' hc' hrow
    have hrow' := (sameRow_iff _ _).mp hrow
    have hc'q : c' ∈ q.2 := by
      rw [hq2]
      refine List.mem_filter.mpr ⟨List.mem_filter.mpr ⟨hc', ?_⟩, ?_⟩
      · have : c₀.md = m := by simpa using h2.2
        simp [← hrow'.1, this]
      · have : (c₀.ps, c₀.pe) = q.1 := by simpa using h1.2
        simp [← hrow'.2, this]
    have := hmax c' hc'q
    show Date.cmp c'.ev c₀.ev ≠ .gt
    simpa [leOf, evCmp, cmpOn] using this
  · intro c hc
    have hcs : c ∈ t.filter (fun x => x.md == c.md) := List.mem_filter.mpr ⟨hc, by simp⟩
    have inv := groupBy_inv_sel (fun c : Cell => (c.ps, c.pe)) (t.filter (fun x => x.md == c.md))
    obtain ⟨q, hq, hqk⟩ := List.mem_map.mp (inv.cov c hcs)
    obtain ⟨hq2, hne⟩ := inv.grp q hq
    obtain ⟨c', hl, hc'q, _⟩ := lastBy?_spec (cmp := evCmp) hne
    have hc'r : c' ∈ rightEdgeRows t := by
      rw [rows_eq t ht]
      exact List.mem_flatMap.mpr ⟨c.md, hcov c hc, List.mem_filterMap.mpr ⟨q, hq, hl⟩⟩
    refine ⟨c', hperm.mem_iff.mpr hc'r, ?_⟩
    rw [hq2] at hc'q
    have h1 := List.mem_filter.mp hc'q
    have h2 := List.mem_filter.mp h1.1
    rw [sameRow_iff]
    refine ⟨by simpa using h2.2, ?_⟩
    have : (c'.ps, c'.pe) = q.1 := by simpa using h1.2
    rw [this, hqk]
  · have hsymm : ∀ {x y : Cell}, sameRow x y = false → sameRow y x = false := by
      intro x y hxy
      cases hyx : sameRow y x with
      | false => rfl
      | true =>
        have := (sameRow_iff _ _).mp hyx
        have : sameRow x y = true := (sameRow_iff _ _).mpr ⟨this.1.symm, this.2.symm⟩
        rw [this] at hxy; cases hxy
    rw [List.Perm.pairwise_iff hsymm hperm, rows_eq t ht, List.pairwise_flatMap]
    constructor
    · intro m hm
      have inv := groupBy_inv_sel (fun c : Cell => (c.ps, c.pe)) (t.filter (fun x => x.md == m))
      rw [List.pairwise_filterMap]
      have hk : (groupBy (fun c : Cell => (c.ps, c.pe)) (t.filter (fun x => x.md == m))).Pairwise
          (fun q q' => q.1 ≠ q'.1) := List.pairwise_map.mp inv.nodup
      refine hk.imp_of_mem ?_
      intro q q' hq hq' hne b hb b' hb'
      have hbq := mem_of_lastBy? hb
      have hbq' := mem_of_lastBy? hb'
      rw [(inv.grp q hq).1] at hbq
      rw [(inv.grp q' hq').1] at hbq'
      have e1 : (b.ps, b.pe) = q.1 := by simpa using (List.mem_filter.mp hbq).2
      have e2 : (b'.ps, b'.pe) = q'.1 := by simpa using (List.mem_filter.mp hbq').2
      cases hs : sameRow b b' with
      | false => rfl
      | true =>
        have := ((sameRow_iff _ _).mp hs).2
        exact absurd (e1.symm.trans (this.trans e2)) hne
    · refine (List.nodup_iff_pairwise_ne.mp hnd |>.imp ?_)
      intro m m' hne x hx y hy
      obtain ⟨q, hq, hl⟩ := List.mem_filterMap.mp hx
      obtain ⟨q', hq', hl'⟩ := List.mem_filterMap.mp hy
      have hxq := mem_of_lastBy? hl
      have hyq := mem_of_lastBy? hl'
      rw [((groupBy_inv_sel _ _).grp q hq).1] at hxq
      rw [((groupBy_inv_sel _ _).grp q' hq').1] at hyq
      have e1 : x.md = m := by simpa using (List.mem_filter.mp (List.mem_filter.mp hxq).1).2
      have e2 : y.md = m' := by simpa using (List.mem_filter.mp (List.mem_filter.mp hyq).1).2
      cases hs : sameRow x y with
      | false => rfl
      | true =>
        have := ((sameRow_iff _ _).mp hs).1
        exact absurd (e1.symm.trans (this.trans e2)) hne

/-! ### non-vacuity: a concrete canonical triangle meets the hypotheses -/

def exT : List Cell :=
  [ { ps := ⟨2020, 1, 1⟩, pe := ⟨2020, 12, 31⟩, ev := ⟨2020, 12, 31⟩, values := [("paid_loss", .int 1)] },
    { ps := ⟨2020, 1, 1⟩, pe := ⟨2020, 12, 31⟩, ev := ⟨2021, 12, 31⟩, values := [("paid_loss", .int 2)] },
    { ps := ⟨2021, 1, 1⟩, pe := ⟨2021, 12, 31⟩, ev := ⟨2021, 12, 31⟩, values := [("paid_loss", .int 3)] } ]

theorem le_of_same_md {a b : Cell} (hm : a.md = b.md)
    (h : (compareLex (cmpOn (·.ps) Date.cmp) (compareLex (cmpOn (·.pe) Date.cmp)
      (compareLex (cmpOn (·.ev) Date.cmp) (cmpOn (·.prev) optDateCmp)))) a b ≠ .gt) :
    Cell.le a b = true := by
  unfold Cell.le Cell.cmp
  simp only [compareLex, cmpOn, hm, ReflCmp.compare_self (cmp := Metadata.cmp), Ordering.eq_then]
  simpa [compareLex, cmpOn] using h

theorem exT_canon : Canon exT := by
  refine ⟨?_, by decide⟩
  simp only [exT, List.pairwise_cons, List.mem_cons, List.not_mem_nil, or_false, forall_eq_or_imp,
    forall_eq, List.Pairwise.nil, and_true, false_implies, implies_true]
  refine ⟨⟨?_, ?_⟩, ?_⟩ <;> exact le_of_same_md rfl (by decide)

theorem exT_dates : ∀ c ∈ exT, c.datesOk = true := by decide
theorem exT_range : ∀ c ∈ exT, Date.min ≤ c.ps ∧ c.ps ≤ Date.max := by decide

/-- the hypotheses of the theorems above hold for a concrete 3-cell triangle, and e.g. the
complementary-clip theorem then applies to it -/
example : ∃ lo hi, Triangle.clipFull exT { maxEval := some ⟨2020, 12, 31⟩ } = .ok lo ∧
    Triangle.clipFull exT { minEval := some (Date.succ ⟨2020, 12, 31⟩) } = .ok hi ∧
    (lo ++ hi).Perm exT ∧ lo.length + hi.length = exT.length :=
  clip_complement_partition exT_canon ⟨2020, 12, 31⟩ (by decide) (by decide)

end Bermuda.Properties.C11
