/-
C11 — selection operators return exactly the cells their predicate describes.
Only property theorems, Spec bridges and non-vacuity witnesses live here (helper lemmas and
auxiliary definitions: `Lemmas/Select.lean`, `Lemmas/SelectAux.lean`).
-/
import Bermuda.Model.Select
import Bermuda.Spec.C11
import Bermuda.Lemmas.Select
import Bermuda.Lemmas.SelectAux
import Bermuda.Properties.C01
namespace Bermuda.Properties.C11
open Bermuda Std Bermuda.Spec.C11

/-! ### 1. clip -/

/-- **clip = one filter by the conjunction of its bounds**, whatever subset of the six bounds is
given, followed by the constructor -/
theorem clip_eq_filter_conj (t : List Cell) (a : ClipFull) (u : LagUnit) (hu : a.unit = some u) :
    Triangle.clipFull t a = Triangle.ofCells (t.filter (clipKeep a u)) :=
  clipFull_eq t a u hu

/-- on a canonical triangle the constructor has nothing to reorder: the result is exactly the
sub-list of cells satisfying all bounds, unchanged and in order -/
theorem clip_exact {t : List Cell} (ht : Canon t) (a : ClipFull) (u : LagUnit) (hu : a.unit = some u) :
    Triangle.clipFull t a = .ok (t.filter (clipKeep a u)) := by
  rw [clipFull_eq t a u hu]
  exact ofCells_sublist List.filter_sublist ht.1 ht.2

/-- the Spec predicate holds of the model's output -/
theorem clipSpec_model {t : List Cell} (ht : Canon t) (a : ClipFull) (u : LagUnit) (hu : a.unit = some u)
    {out : List Cell} (h : Triangle.clipFull t a = .ok out) : clipSpec t a out = true := by
  rw [clip_exact ht a u hu] at h
  cases h
  simp [clipSpec, hu, exactly]

/-- with an unrecognised unit a lag bound is refused as soon as one cell reaches it -/
theorem clip_bad_unit (t : List Cell) (q : Rat) (ht : t ≠ []) :
    Triangle.clipFull t { minDev := some q, unit := none } = .error .valueError := by
  cases t with
  | nil => exact absurd rfl ht
  | cons c rest => simp [Triangle.clipFull, optFilter, devFilter, bind, Except.bind]

/-- all six bounds set to a cell's own evaluation date, period start, period end and lag -/
def ownBounds (c : Cell) (u : LagUnit) : ClipFull where
  minEval := some c.ev
  maxEval := some c.ev
  minPeriod := some c.ps
  maxPeriod := some c.pe
  minDev := some (c.devLag u)
  maxDev := some (c.devLag u)
  unit := some u

/-- **every bound is inclusive**: clipping with all six bounds set to a cell's own evaluation
date, period start, period end and development lag keeps that cell -/
theorem clip_inclusive {t : List Cell} (ht : Canon t) {c : Cell} (hc : c ∈ t) (u : LagUnit) :
    ∃ r, Triangle.clipFull t (ownBounds c u) = .ok r ∧ c ∈ r := by
  refine ⟨_, clip_exact ht _ u rfl, ?_⟩
  refine List.mem_filter.mpr ⟨hc, ?_⟩
  simp [ownBounds, clipKeep, inDates, inLags, Date.le_refl]

/-- **complementary clips partition the triangle**: `clip(max_eval = b)` and
`clip(min_eval = b + 1 day)` together hold every cell exactly once -/
theorem clip_complement_partition {t : List Cell} (ht : Canon t) (b : Date) (hb : b.valid = true)
    (hv : ∀ c ∈ t, c.ev.valid = true) :
    ∃ lo hi, Triangle.clipFull t { maxEval := some b } = .ok lo ∧
      Triangle.clipFull t { minEval := some b.succ } = .ok hi ∧
      (lo ++ hi).Perm t ∧ lo.length + hi.length = t.length := by
  refine ⟨_, _, clip_exact ht _ .month rfl, clip_exact ht _ .month rfl, ?_⟩
  have h1 : t.filter (clipKeep { maxEval := some b } .month) = t.filter (fun c => decide (c.ev ≤ b)) := by
    apply List.filter_congr; intro c _; simp [clipKeep, inDates, inLags]
  have h2 : t.filter (clipKeep { minEval := some b.succ } .month) = t.filter (fun c => !decide (c.ev ≤ b)) := by
    apply List.filter_congr; intro c hc
    have := Date.not_le_iff_succ_le hb (hv c hc)
    simp only [clipKeep, inDates, inLags, Option.all_none, Option.all_some, Bool.and_true]
    by_cases h : c.ev ≤ b
    · have : ¬ b.succ ≤ c.ev := fun h' => (this.mpr h') h
      simp [h, this]
    · have : b.succ ≤ c.ev := this.mp h
      simp [h, this]
  rw [h1, h2]
  have hp := List.filter_append_perm (fun c : Cell => decide (c.ev ≤ b)) t
  exact ⟨hp, by simpa using hp.length_eq⟩

/-! ### 2. filter -/

/-- **filter returns exactly the cells satisfying the predicate, unchanged and in order**: the
result is a sub-list of a sorted list, so the constructor does not reorder it -/
theorem filter_unchanged_sorted {t : List Cell} (ht : Canon t) (p : Cell → Bool) :
    Triangle.filterP t p = .ok (t.filter p) :=
  ofCells_sublist List.filter_sublist ht.1 ht.2

/-- the same for a predicate given extensionally (a mask over positions) -/
theorem filterMask_unchanged_sorted {t : List Cell} (ht : Canon t) (mask : List Bool) :
    Triangle.filterMask t mask = .ok (maskKeep t mask) :=
  ofCells_sublist (maskKeep_sublist t mask) ht.1 ht.2

/-- **complementary filters partition the triangle** -/
theorem filter_complement_partition {t : List Cell} (ht : Canon t) (p : Cell → Bool) :
    ∃ a b, Triangle.filterP t p = .ok a ∧ Triangle.filterP t (fun c => !p c) = .ok b ∧
      (a ++ b).Perm t ∧ a.length + b.length = t.length := by
  refine ⟨_, _, filter_unchanged_sorted ht p, filter_unchanged_sorted ht _, ?_⟩
  have hp := List.filter_append_perm p t
  exact ⟨hp, by simpa using hp.length_eq⟩

/-! ### 3. slices and split -/

theorem slices_eq {t : List Cell} (ht : Canon t) :
    Triangle.slices t = (metasOf t).map fun m => (m, t.filter (fun c => c.md == m)) := by
  unfold Triangle.slices
  apply List.map_congr_left
  intro m _
  congr 1
  exact List.mergeSort_of_pairwise (ht.1.sublist List.filter_sublist)

/-- **slices partition the triangle by metadata**: one entry per distinct metadata, holding
exactly the cells of that metadata in order (never empty), and together a rearrangement of all
cells -/
theorem slices_partition {t : List Cell} (ht : Canon t) :
    ((Triangle.slices t).map (·.1)).Nodup ∧
    (∀ p ∈ Triangle.slices t, p.2 = t.filter (fun c => c.md == p.1) ∧ p.2 ≠ []) ∧
    ((Triangle.slices t).flatMap (·.2)).Perm t := by
  obtain ⟨hnd, hmem, hcov⟩ := metasOf_spec t
  rw [slices_eq ht]
  refine ⟨?_, ?_, ?_⟩
  · simpa [List.map_map, Function.comp_def] using hnd
  · intro p hp
    obtain ⟨m, hm, rfl⟩ := List.mem_map.mp hp
    refine ⟨rfl, ?_⟩
    obtain ⟨c, hc, e⟩ := hmem m hm
    exact List.ne_nil_of_mem (List.mem_filter.mpr ⟨hc, by simp [e]⟩)
  · rw [List.flatMap_map]
    exact flatMap_filter_perm (fun c : Cell => c.md) t (metasOf t) hnd hcov

/-- **split partitions the triangle by the values of the given detail keys**: distinct keys,
each group exactly the cells with that key tuple in order (never empty), together a
rearrangement of all cells -/
theorem split_partition {t : List Cell} (ht : Canon t) (keys : List String) :
    ∃ gs, Triangle.split t keys = .ok gs ∧ (gs.map (·.1)).Nodup ∧
      (∀ p ∈ gs, p.2 = t.filter (fun c => splitKey keys c == p.1) ∧ p.2 ≠ []) ∧
      (gs.flatMap (·.2)).Perm t := by
  have inv := groupBy_inv_sel (splitKey keys) t
  refine ⟨groupBy (splitKey keys) t, ?_, inv.nodup, inv.grp, ?_⟩
  · unfold Triangle.split
    rw [mapM_ok_of_forall _ id]
    · simp
    · intro p hp
      have := (inv.grp p hp).1
      have hs : p.2.Sublist t := this ▸ List.filter_sublist
      simp [ofCells_sublist hs ht.1 ht.2, bind, Except.bind, pure, Except.pure]
  · have h : (groupBy (splitKey keys) t).flatMap (·.2) =
        ((groupBy (splitKey keys) t).map (·.1)).flatMap fun k => t.filter (fun c => splitKey keys c == k) := by
      rw [List.flatMap_map]
      exact flatMap_congr_mem _ _ _ (fun p hp => (inv.grp p hp).1)
    rw [h]
    exact flatMap_filter_perm (splitKey keys) t _ inv.nodup inv.cov

/-! ### 4. select -/

/-- **select keeps every cell** (same number, same class and coordinates, same order) and
restricts its values to the listed keys; nothing is reordered or refused on a canonical
triangle whose cells satisfy the constructor's date rules -/
theorem select_keeps_cells {t : List Cell} (ht : Canon t) (hd : ∀ c ∈ t, c.datesOk = true)
    (keys : List String) :
    Triangle.select t keys = .ok (t.map (fun c => c.select keys)) := by
  unfold Triangle.select
  have hm : t.mapM (fun c => (c.select keys).mk?) = .ok (t.map (fun c => c.select keys)) := by
    apply mapM_ok_of_forall
    intro c hc
    have : (c.select keys).datesOk = true := hd c hc
    simp [Cell.mk?, this]
  simp only [hm, bind, Except.bind]
  unfold Triangle.ofCells
  have hk : kindsConsistent (t.map (fun c => c.select keys)) = true := by
    have := ht.2
    unfold kindsConsistent at *
    simpa [List.all_map, Function.comp_def, Cell.select] using this
  rw [hk]
  simp only [if_true]
  congr 1
  apply List.mergeSort_of_pairwise
  rw [List.pairwise_map]
  exact ht.1.imp (fun {a b} h => by simpa [Cell.le, select_cmp] using h)

theorem selectSpec_map (t : List Cell) (keys : List String) :
    selectSpec t keys (t.map (fun c => c.select keys)) = true := by
  simp only [selectSpec, List.length_map, beq_self_eq_true, Bool.true_and, List.all_eq_true]
  intro p hp
  obtain ⟨c, o⟩ := p
  have : o = c.select keys := by
    induction t with
    | nil => simp at hp
    | cons a t ih =>
      simp only [List.map_cons, List.zip_cons_cons, List.mem_cons, Prod.mk.injEq] at hp
      rcases hp with ⟨rfl, rfl⟩ | hp
      · rfl
      · exact ih hp
  subst this
  simp [Cell.select, Cell.coord]

/-! ### 5. extract -/

/-- **extract returns one entry per cell, in the cells' order** -/
theorem extract_length_order (t : List Cell) (f : String) :
    (Triangle.extract t f).length = t.length ∧
    ∀ i (h : i < t.length), (Triangle.extract t f)[i]? = some ((t[i].values.get? f).getD .none) := by
  refine ⟨by simp [Triangle.extract], fun i h => ?_⟩
  simp [Triangle.extract, List.getElem?_map, List.getElem?_eq_getElem h]

theorem extractWith_length_order {α} (t : List Cell) (f : Cell → α) :
    (Triangle.extractWith t f).length = t.length ∧
    ∀ i (h : i < t.length), (Triangle.extractWith t f)[i]? = some (f t[i]) := by
  refine ⟨by simp [Triangle.extractWith], fun i h => ?_⟩
  simp [Triangle.extractWith, List.getElem?_map, List.getElem?_eq_getElem h]

/-! ### 6. `t[period, evaluation, metadata]` -/

/-- **indexing equals the corresponding filter**: for date or slice indices,
`t[period, evaluation, metadata]` is the filter by `itemKeep` (period start within the period
index, evaluation date within the evaluation index, metadata equal to the metadata index — all
inclusive, an absent slice end unbounded); a triangle when some index is a slice, else the first
such cell (`IndexError` when there is none) -/
theorem getItem_eq_filter {t : List Cell} (ht : Canon t)
    (hr : ∀ c ∈ t, Date.min ≤ c.ps ∧ c.ps ≤ Date.max)
    (p e : DateIdx) (m : MetaIdx) (hp : p ≠ .bad) (he : e ≠ .bad) :
    Triangle.getItem t p e m = itemResult p e m (t.filter (itemKeep p e m)) := by
  rw [getItem_unfold]
  have hk : t.filter (itemKeep p e m) =
      (t.filter (metaKeep m)).filter (fun c => idxKeep p c.ps && idxKeep e c.ev) := by
    rw [List.filter_filter]
    apply List.filter_congr
    intro c _
    rw [itemKeep_eq]
    simp [Bool.and_comm, Bool.and_left_comm, Bool.and_assoc]
  have hf : Canon (t.filter (metaKeep m)) := ht.sublist List.filter_sublist
  have hr' : ∀ c ∈ t.filter (metaKeep m), Date.min ≤ c.ps ∧ c.ps ≤ Date.max :=
    fun c hc => hr c (List.mem_filter.mp hc).1
  rw [metaStage_canon ht m, hk]
  exact tailPipe_eq hf hr' p e m hp he

/-- a non-date, non-slice period or evaluation index is refused -/
theorem getItem_bad_period (t : List Cell) (e : DateIdx) :
    Triangle.getItem t .bad e .none = .error .valueError := rfl

/-! ### 7. right_edge -/

/-- every cell of `right_edge` is a cell of the triangle and the result is in canonical
order. The full statement is `rightEdge_spec` below. -/
theorem rightEdge_subset_sorted {t r : List Cell} (h : Triangle.rightEdge t = .ok r) :
    (∀ c ∈ r, c ∈ t) ∧ r.Pairwise (fun a b => Cell.le a b) := by
  rw [rightEdge_eq] at h
  refine ⟨fun c hc => ?_, Properties.C01.ofCells_sorted h⟩
  exact mem_rightEdge_rows ((Properties.C01.ofCells_perm h).mem_iff.mp hc)

/-- **right_edge holds, for each slice and period, exactly the cell with the latest evaluation
date**: every kept cell is a cell of the triangle whose evaluation date is maximal in its
(slice, period) row; every row of the triangle is represented; and no two kept cells share a
row (one per (slice, period)) -/
theorem rightEdge_spec {t r : List Cell} (ht : Canon t) (h : Triangle.rightEdge t = .ok r) :
    (∀ c ∈ r, c ∈ t ∧ ∀ c' ∈ t, sameRow c c' = true → c'.ev ≤ c.ev) ∧
    (∀ c ∈ t, ∃ c' ∈ r, sameRow c' c = true) ∧
    r.Pairwise (fun a b => sameRow a b = false) := by
  rw [rightEdge_eq] at h
  have hperm := Properties.C01.ofCells_perm h
  obtain ⟨hnd, hmem, hcov⟩ := metasOf_spec t
  refine ⟨?_, ?_, ?_⟩
  · intro c hc
    obtain ⟨m, hm, q, hq, hl, hq2⟩ := mem_rows ht (hperm.mem_iff.mp hc)
    have hcq : c ∈ q.2 := mem_of_lastBy? hl
    have hne : q.2 ≠ [] := List.ne_nil_of_mem hcq
    obtain ⟨c₀, hl₀, _, hmax⟩ := lastBy?_spec (cmp := evCmp) hne
    have : c₀ = c := by rw [hl₀] at hl; exact Option.some.inj hl
    subst this
    rw [hq2] at hcq
    have h1 := List.mem_filter.mp hcq
    have h2 := List.mem_filter.mp h1.1
    refine ⟨h2.1, ?_⟩
    intro c' hc' hrow
    have hrow' := (sameRow_iff _ _).mp hrow
    have hc'q : c' ∈ q.2 := by
      rw [hq2]
      refine List.mem_filter.mpr ⟨List.mem_filter.mpr ⟨hc', ?_⟩, ?_⟩
      · have : c₀.md = m := by simpa using h2.2
        simp [← hrow'.1, this]
      · have : (c₀.ps, c₀.pe) = q.1 := by simpa using h1.2
        simp [← hrow'.2, this]
    have := hmax c' hc'q
    show Date.cmp c'.ev c₀.ev ≠ .gt
    simpa [leOf, evCmp, cmpOn] using this
  · intro c hc
    have hcs : c ∈ t.filter (fun x => x.md == c.md) := List.mem_filter.mpr ⟨hc, by simp⟩
    have inv := groupBy_inv_sel (fun c : Cell => (c.ps, c.pe)) (t.filter (fun x => x.md == c.md))
    obtain ⟨q, hq, hqk⟩ := List.mem_map.mp (inv.cov c hcs)
    obtain ⟨hq2, hne⟩ := inv.grp q hq
    obtain ⟨c', hl, hc'q, _⟩ := lastBy?_spec (cmp := evCmp) hne
    have hc'r : c' ∈ rightEdgeRows t := by
      rw [rows_eq t ht]
      exact List.mem_flatMap.mpr ⟨c.md, hcov c hc, List.mem_filterMap.mpr ⟨q, hq, hl⟩⟩
    refine ⟨c', hperm.mem_iff.mpr hc'r, ?_⟩
    rw [hq2] at hc'q
    have h1 := List.mem_filter.mp hc'q
    have h2 := List.mem_filter.mp h1.1
    rw [sameRow_iff]
    refine ⟨by simpa using h2.2, ?_⟩
    have : (c'.ps, c'.pe) = q.1 := by simpa using h1.2
    rw [this, hqk]
  · have hsymm : ∀ {x y : Cell}, sameRow x y = false → sameRow y x = false := by
      intro x y hxy
      cases hyx : sameRow y x with
      | false => rfl
      | true =>
        have := (sameRow_iff _ _).mp hyx
        have : sameRow x y = true := (sameRow_iff _ _).mpr ⟨this.1.symm, this.2.symm⟩
        rw [this] at hxy; cases hxy
    rw [List.Perm.pairwise_iff hsymm hperm, rows_eq t ht, List.pairwise_flatMap]
    constructor
    · intro m hm
      have inv := groupBy_inv_sel (fun c : Cell => (c.ps, c.pe)) (t.filter (fun x => x.md == m))
      rw [List.pairwise_filterMap]
      have hk : (groupBy (fun c : Cell => (c.ps, c.pe)) (t.filter (fun x => x.md == m))).Pairwise
          (fun q q' => q.1 ≠ q'.1) := List.pairwise_map.mp inv.nodup
      refine hk.imp_of_mem ?_
      intro q q' hq hq' hne b hb b' hb'
      have hbq := mem_of_lastBy? hb
      have hbq' := mem_of_lastBy? hb'
      rw [(inv.grp q hq).1] at hbq
      rw [(inv.grp q' hq').1] at hbq'
      have e1 : (b.ps, b.pe) = q.1 := by simpa using (List.mem_filter.mp hbq).2
      have e2 : (b'.ps, b'.pe) = q'.1 := by simpa using (List.mem_filter.mp hbq').2
      cases hs : sameRow b b' with
      | false => rfl
      | true =>
        have := ((sameRow_iff _ _).mp hs).2
        exact absurd (e1.symm.trans (this.trans e2)) hne
    · refine (List.nodup_iff_pairwise_ne.mp hnd |>.imp ?_)
      intro m m' hne x hx y hy
      obtain ⟨q, hq, hl⟩ := List.mem_filterMap.mp hx
      obtain ⟨q', hq', hl'⟩ := List.mem_filterMap.mp hy
      have hxq := mem_of_lastBy? hl
      have hyq := mem_of_lastBy? hl'
      rw [((groupBy_inv_sel _ _).grp q hq).1] at hxq
      rw [((groupBy_inv_sel _ _).grp q' hq').1] at hyq
      have e1 : x.md = m := by simpa using (List.mem_filter.mp (List.mem_filter.mp hxq).1).2
      have e2 : y.md = m' := by simpa using (List.mem_filter.mp (List.mem_filter.mp hyq).1).2
      cases hs : sameRow x y with
      | false => rfl
      | true =>
        have := ((sameRow_iff _ _).mp hs).1
        exact absurd (e1.symm.trans (this.trans e2)) hne

/-! ### non-vacuity: a concrete canonical triangle meets the hypotheses -/

def exT : List Cell :=
  [ { ps := ⟨2020, 1, 1⟩, pe := ⟨2020, 12, 31⟩, ev := ⟨2020, 12, 31⟩, values := [("paid_loss", .int 1)] },
    { ps := ⟨2020, 1, 1⟩, pe := ⟨2020, 12, 31⟩, ev := ⟨2021, 12, 31⟩, values := [("paid_loss", .int 2)] },
    { ps := ⟨2021, 1, 1⟩, pe := ⟨2021, 12, 31⟩, ev := ⟨2021, 12, 31⟩, values := [("paid_loss", .int 3)] } ]

theorem exT_canon : Canon exT := by
  refine ⟨?_, by decide⟩
  simp only [exT, List.pairwise_cons, List.mem_cons, List.not_mem_nil, or_false, forall_eq_or_imp,
    forall_eq, List.Pairwise.nil, and_true, false_implies, implies_true]
  refine ⟨⟨?_, ?_⟩, ?_⟩ <;> exact le_of_same_md rfl (by decide)

theorem exT_dates : ∀ c ∈ exT, c.datesOk = true := by decide
theorem exT_range : ∀ c ∈ exT, Date.min ≤ c.ps ∧ c.ps ≤ Date.max := by decide

/-- the hypotheses of the theorems above hold for a concrete 3-cell triangle, and e.g. the
complementary-clip theorem then applies to it -/
example : ∃ lo hi, Triangle.clipFull exT { maxEval := some ⟨2020, 12, 31⟩ } = .ok lo ∧
    Triangle.clipFull exT { minEval := some (Date.succ ⟨2020, 12, 31⟩) } = .ok hi ∧
    (lo ++ hi).Perm exT ∧ lo.length + hi.length = exT.length :=
  clip_complement_partition exT_canon ⟨2020, 12, 31⟩ (by decide) (by decide)

/-! ### 8. `TriangleSlice(cells)` -/

/-- **`TriangleSlice(cells)` accepts exactly the class-consistent cell sequences with a single
metadata** and then holds the cells in canonical order (as `Triangle(cells)`); anything else is
refused with `TriangleError` -/
theorem sliceOfCells_eq (cells : List Cell) :
    TriangleSlice.ofCells cells =
      if kindsConsistent cells && singleSlice cells then .ok (cells.mergeSort Cell.le)
      else .error .triangleError := by
  unfold TriangleSlice.ofCells Triangle.ofCells
  by_cases hk : kindsConsistent cells = true
  · have hp : (cells.mergeSort Cell.le).Perm cells := List.mergeSort_perm _ _
    simp only [hk, if_true, bind, Except.bind, Bool.true_and]
    rw [slices_length]
    by_cases h1 : singleSlice cells = true
    · have : ¬ (metasOf (cells.mergeSort Cell.le)).length > 1 := by
        have := (metasOf_length_le_one_iff _).mpr ((singleSlice_perm hp).trans h1)
        omega
      simp [h1, this, pure, Except.pure]
    · have : (metasOf (cells.mergeSort Cell.le)).length > 1 := by
        have := mt (metasOf_length_le_one_iff (cells.mergeSort Cell.le)).mp
          (by rw [singleSlice_perm hp]; exact h1)
        omega
      simp [h1, this, throw, throwThe, MonadExceptOf.throw]
  · simp [hk, bind, Except.bind]

/-- on an already canonical single-slice cell list nothing is reordered -/
theorem sliceOfCells_single {t : List Cell} (ht : Canon t) (h1 : singleSlice t = true) :
    TriangleSlice.ofCells t = .ok t := by
  rw [sliceOfCells_eq, ht.2, h1]
  simp only [Bool.and_self, if_true]
  congr 1
  exact List.mergeSort_of_pairwise ht.1

/-- **the multi-slice refusal**: two cells with different metadata → `TriangleError` -/
theorem sliceOfCells_multi {cells : List Cell} {a b : Cell} (ha : a ∈ cells) (hb : b ∈ cells)
    (hne : a.md ≠ b.md) : TriangleSlice.ofCells cells = .error .triangleError := by
  rw [sliceOfCells_eq]
  have : singleSlice cells = false := by
    cases h : singleSlice cells with
    | false => rfl
    | true => exact absurd ((singleSlice_iff _).mp h a ha b hb) hne
  simp [this]

/-- the Spec predicates hold of the model's answer -/
theorem sliceOfSpec_model {cells out : List Cell} (h : TriangleSlice.ofCells cells = .ok out) :
    sliceOfSpec cells out = true ∧ sliceOfRefused cells = false := by
  rw [sliceOfCells_eq] at h
  split at h
  · rename_i hc
    simp only [Bool.and_eq_true] at hc
    cases h
    have hp : (cells.mergeSort Cell.le).Perm cells := List.mergeSort_perm _ _
    refine ⟨?_, by simp [sliceOfRefused, hc.1, hc.2]⟩
    simp only [sliceOfSpec, hc.2, Bool.true_and, Bool.and_eq_true, List.isPerm_iff]
    exact ⟨hp, Properties.C01.chainB_of_pairwise (sorted_mergeSort (cmp := Cell.cmp) cells)⟩
  · cases h

theorem sliceOfRefused_model {cells : List Cell} {e : Err} (h : TriangleSlice.ofCells cells = .error e) :
    e = .triangleError ∧ sliceOfRefused cells = true := by
  rw [sliceOfCells_eq] at h
  split at h
  · cases h
  · rename_i hc
    cases h
    refine ⟨rfl, ?_⟩
    simp only [sliceOfRefused]
    cases h1 : singleSlice cells <;> cases h2 : kindsConsistent cells <;> simp_all

/-! ### 9. `slice[period, evaluation]` -/

/-- the result of `TriangleSlice.__getitem__` as a function of the filtered cell list -/
def sliceResult (p e : DateIdx) (r : List Cell) : Except Err (List Cell ⊕ Cell) :=
  if p.isSlice || e.isSlice then .ok (.inl r)
  else match r with
    | [] => .error .indexError
    | c :: _ => .ok (.inr c)

/-- **indexing a slice equals the corresponding filter**: `slice[period, evaluation]` is exactly
the cells whose period START lies within the period index and whose evaluation date lies within the
evaluation index (a date: equal to it; a slice: both ends inclusive, an absent or falsy end
unbounded) — unchanged, in canonical order and again a `TriangleSlice` when some index is a slice,
else the first such cell (`IndexError` when there is none) -/
theorem sliceGetItem_eq_filter {t : List Cell} (ht : Canon t) (h1 : singleSlice t = true)
    (hr : ∀ c ∈ t, Date.min ≤ c.ps ∧ c.ps ≤ Date.max)
    (p e : DateIdx) (hp : p ≠ .bad) (he : e ≠ .bad) :
    TriangleSlice.getItem t p e = sliceResult p e (t.filter (sliceKeep p e)) := by
  obtain ⟨⟨ps, pe, hpb⟩, ⟨es, ee, heb⟩⟩ := bounds_of_ne_bad hp he
  have c2 : Canon (t.filter (fun c => decide (ps ≤ c.ps) && decide (c.ps ≤ pe))) :=
    ht.sublist List.filter_sublist
  have key : t.filter (sliceKeep p e) =
      ((t.filter (fun c => decide (ps ≤ c.ps) && decide (c.ps ≤ pe))).filter
        (clipKeep { minEval := es, maxEval := ee } .month)) := by
    rw [List.filter_filter]
    apply List.filter_congr
    intro c hc
    rw [periodBounds_keep hpb c.ps (hr c hc), evalBounds_keep heb c]
    simp [sliceKeep, within_eq_idxKeep, Bool.and_comm]
  have hsub : (t.filter (sliceKeep p e)).Sublist t := List.filter_sublist
  unfold TriangleSlice.getItem
  simp only [hpb, heb, bind, Except.bind, filter_unchanged_sorted ht,
    clip_exact c2 { minEval := es, maxEval := ee } .month rfl, ← key]
  unfold sliceResult
  split
  · rw [sliceOfCells_single (ht.sublist hsub) (singleSlice_sublist hsub h1)]
    rfl
  · cases t.filter (sliceKeep p e) <;> rfl

/-- a non-date, non-slice period index is refused … -/
theorem sliceGetItem_bad_period (t : List Cell) (e : DateIdx) :
    TriangleSlice.getItem t .bad e = .error .valueError := rfl

/-- … and so is such an evaluation index (after the period stage) -/
theorem sliceGetItem_bad_eval {t : List Cell} (ht : Canon t) (p : DateIdx) (hp : p ≠ .bad) :
    TriangleSlice.getItem t p .bad = .error .valueError := by
  obtain ⟨ps, pe, hpb⟩ := (bounds_of_ne_bad hp (e := .scalar Date.min) (by simp)).1
  unfold TriangleSlice.getItem
  simp [hpb, bind, Except.bind, filter_unchanged_sorted ht, DateIdx.evalBounds]

theorem getItem_bad_eval {t : List Cell} (ht : Canon t) (p : DateIdx) (m : MetaIdx) (hp : p ≠ .bad) :
    Triangle.getItem t p .bad m = .error .valueError := by
  obtain ⟨ps, pe, hpb⟩ := (bounds_of_ne_bad hp (e := .scalar Date.min) (by simp)).1
  have hf : ∀ q : Cell → Bool, Canon (t.filter q) := fun q => ht.sublist List.filter_sublist
  unfold Triangle.getItem
  cases m <;>
    simp [hpb, bind, Except.bind, pure, Except.pure, filter_unchanged_sorted ht,
      filter_unchanged_sorted (hf _), DateIdx.evalBounds]

/-- the Spec predicate holds of the model's answer -/
theorem sliceItemSpec_model {t : List Cell} (ht : Canon t) (h1 : singleSlice t = true)
    (hr : ∀ c ∈ t, Date.min ≤ c.ps ∧ c.ps ≤ Date.max)
    (p e : DateIdx) (hp : p ≠ .bad) (he : e ≠ .bad) {out : List Cell ⊕ Cell}
    (h : TriangleSlice.getItem t p e = .ok out) : sliceItemSpec t p e out = true := by
  rw [sliceGetItem_eq_filter ht h1 hr p e hp he] at h
  unfold sliceResult at h
  split at h
  · rename_i hs
    cases h
    simp [sliceItemSpec, exactly, hs]
  · rename_i hs
    split at h
    · cases h
    · rename_i c rest hc
      cases h
      simp [sliceItemSpec, hs, hc]

theorem getItemSpec_model {t : List Cell} (ht : Canon t)
    (hr : ∀ c ∈ t, Date.min ≤ c.ps ∧ c.ps ≤ Date.max)
    (p e : DateIdx) (m : MetaIdx) (hp : p ≠ .bad) (he : e ≠ .bad) {out : List Cell ⊕ Cell}
    (h : Triangle.getItem t p e m = .ok out) : getItemSpec t p e m out = true := by
  rw [getItem_eq_filter ht hr p e m hp he] at h
  unfold itemResult at h
  split at h
  · rename_i hs
    cases h
    simp [getItemSpec, exactly, hs]
  · rename_i hs
    split at h
    · cases h
    · rename_i c rest hc
      cases h
      simp [getItemSpec, hs, hc]

/-- what comes back from slicing a slice is again a canonical single-slice triangle whose cells
are cells of the input (so indexing can be chained); a returned cell is a cell of the input lying
at the requested period start and evaluation date -/
theorem sliceGetItem_result {t : List Cell} (ht : Canon t) (h1 : singleSlice t = true)
    (hr : ∀ c ∈ t, Date.min ≤ c.ps ∧ c.ps ≤ Date.max)
    (p e : DateIdx) (hp : p ≠ .bad) (he : e ≠ .bad) {out : List Cell ⊕ Cell}
    (h : TriangleSlice.getItem t p e = .ok out) :
    match out with
    | .inl r => Canon r ∧ singleSlice r = true ∧ r.Sublist t
    | .inr c => c ∈ t ∧ within p c.ps = true ∧ within e c.ev = true := by
  rw [sliceGetItem_eq_filter ht h1 hr p e hp he] at h
  have hsub : (t.filter (sliceKeep p e)).Sublist t := List.filter_sublist
  unfold sliceResult at h
  split at h
  · cases h
    exact ⟨ht.sublist hsub, singleSlice_sublist hsub h1, hsub⟩
  · split at h
    · cases h
    · rename_i c rest hc
      cases h
      have : c ∈ t.filter (sliceKeep p e) := by rw [hc]; simp
      have := List.mem_filter.mp this
      simpa [sliceKeep] using this

/-! ### 10. the other index shapes of `__getitem__` -/

/-- **`cells[i]`**: positions `-n … n-1` are served (negative ones counted from the end), every
other position is refused with `IndexError` -/
theorem pyIndex_spec (t : List Cell) (i : Int) :
    (intItemRefused t i = true ∧ pyIndex t i = .error .indexError) ∨
    (intItemRefused t i = false ∧ ∃ c, pyIndex t i = .ok c ∧ intItemSpec t i (.inr c) = true) := by
  unfold pyIndex intItemRefused intItemSpec
  by_cases hneg : i < 0
  · simp only [hneg, if_true]
    by_cases hlow : i + (t.length : Int) < 0
    · left; simp only [hlow, if_true, and_true]; simp; omega
    · right
      have hk : (i + (t.length : Int)).toNat < t.length := by omega
      refine ⟨by simp; omega, t[(i + (t.length : Int)).toNat], ?_, ?_⟩
      · simp [hlow, List.getElem?_eq_getElem hk]
      · have h0 : ¬ (0 ≤ i) := by omega
        have hk' : (-i - 1).toNat < t.length := by omega
        simp only [h0, if_false, List.getElem?_reverse hk', beq_iff_eq]
        rw [List.getElem?_eq_getElem (by omega)]
        congr 2
        omega
  · have h0 : 0 ≤ i := by omega
    have hnn : ¬ (i < 0) := hneg
    simp only [hnn, if_false, h0, if_true]
    by_cases hhi : i.toNat < t.length
    · right
      refine ⟨by simp; omega, t[i.toNat], ?_, by simp [List.getElem?_eq_getElem hhi]⟩
      simp [List.getElem?_eq_getElem hhi]
    · left
      have : t[i.toNat]? = none := List.getElem?_eq_none (by omega)
      simp only [this, and_true]
      simp; omega

theorem getItemAny_int_ok {t : List Cell} {i : Int} {out : List Cell ⊕ Cell}
    (h : Triangle.getItemAny t (.int i) = .ok out) : intItemSpec t i out = true := by
  rcases pyIndex_spec t i with ⟨_, he⟩ | ⟨_, c, hc, hs⟩
  · simp [Triangle.getItemAny, he, bind, Except.bind] at h
  · simp only [Triangle.getItemAny, hc, bind, Except.bind, pure, Except.pure, Except.ok.injEq] at h
    subst h; exact hs

theorem getItemAny_int_err {t : List Cell} {i : Int} {e : Err}
    (h : Triangle.getItemAny t (.int i) = .error e) : e = .indexError ∧ intItemRefused t i = true := by
  rcases pyIndex_spec t i with ⟨hr, he⟩ | ⟨_, c, hc, _⟩
  · simp only [Triangle.getItemAny, he, bind, Except.bind, Except.error.injEq] at h
    exact ⟨h.symm, hr⟩
  · simp [Triangle.getItemAny, hc, bind, Except.bind, pure, Except.pure] at h

/-- an integer index means the same on a `TriangleSlice` -/
theorem sliceGetItemAny_int (t : List Cell) (i : Int) :
    TriangleSlice.getItemAny t (.int i) = Triangle.getItemAny t (.int i) := rfl

theorem posSliceSpec_pySlice (t : List Cell) (i j : Option Int) :
    posSliceSpec t i j (.inl (pySlice t i j)) = true := by
  have hle : clampPos t.length j t.length ≤ t.length := by
    cases j with
    | none => simp [clampPos]
    | some x => simp only [clampPos]; split <;> omega
  simp only [posSliceSpec, pySlice_eq_clamp, List.length_drop, List.length_take,
    Bool.and_eq_true, beq_iff_eq, List.all_eq_true, List.mem_range]
  refine ⟨by omega, fun k hk => ?_⟩
  rw [List.getElem?_drop, List.getElem?_take]
  have : clampPos t.length i 0 + k < clampPos t.length j t.length := by omega
  simp [this]

/-- **`t[i:j]`** on a canonical triangle: the cells at positions `i ≤ k < j`, unchanged, in order -/
theorem getItemAny_slice {t : List Cell} (ht : Canon t) (i j : Option Int) :
    Triangle.getItemAny t (.slice i j none) = .ok (.inl (pySlice t i j)) ∧
    posSliceSpec t i j (.inl (pySlice t i j)) = true := by
  refine ⟨?_, posSliceSpec_pySlice t i j⟩
  simp [Triangle.getItemAny, pyGetSlice, bind, Except.bind, pure, Except.pure,
    ofCells_sublist (Properties.C01.pySlice_sublist t i j) ht.1 ht.2]

theorem sliceGetItemAny_slice {t : List Cell} (ht : Canon t) (h1 : singleSlice t = true)
    (i j : Option Int) :
    TriangleSlice.getItemAny t (.slice i j none) = .ok (.inl (pySlice t i j)) := by
  have hs := Properties.C01.pySlice_sublist t i j
  simp [TriangleSlice.getItemAny, pyGetSlice, bind, Except.bind, pure, Except.pure,
    sliceOfCells_single (ht.sublist hs) (singleSlice_sublist hs h1)]

/-- with a step the positional slice is C01's `t[i:j:k]` (`Triangle.getSliceStep`) -/
theorem getItemAny_sliceStep (t : List Cell) (i j : Option Int) (k : Int) :
    Triangle.getItemAny t (.slice i j (some k)) = (Triangle.getSliceStep t i j k).map .inl := by
  simp only [Triangle.getItemAny, pyGetSlice, Triangle.getSliceStep]
  split
  · rfl
  · simp only [bind, Except.bind]
    cases Triangle.ofCells (pySliceStep t i j k) <;> rfl

/-- a zero step is refused -/
theorem getItemAny_zero_step (t : List Cell) (i j : Option Int) :
    Triangle.getItemAny t (.slice i j (some 0)) = .error .valueError ∧
    TriangleSlice.getItemAny t (.slice i j (some 0)) = .error .valueError := ⟨rfl, rfl⟩

/-- **a tuple index of the wrong length is refused** (`ValueError`), an index without a length
raises `TypeError` -/
theorem getItemAny_arity (t : List Cell) (xs : List IdxVal) (h : xs.length ≠ 3) :
    Triangle.getItemAny t (.tuple xs) = .error .valueError := by
  match xs, h with
  | [], _ => rfl
  | [_], _ => rfl
  | [_, _], _ => rfl
  | [_, _, _], h => exact absurd rfl h
  | _ :: _ :: _ :: _ :: _, _ => rfl

theorem sliceGetItemAny_arity (t : List Cell) (xs : List IdxVal) (h : xs.length ≠ 2) :
    TriangleSlice.getItemAny t (.tuple xs) = .error .valueError := by
  match xs, h with
  | [], _ => rfl
  | [_], _ => rfl
  | [_, _], h => exact absurd rfl h
  | _ :: _ :: _ :: _, _ => rfl

theorem getItemAny_noLen (t : List Cell) :
    Triangle.getItemAny t .noLen = .error .typeError ∧
    TriangleSlice.getItemAny t .noLen = .error .typeError := ⟨rfl, rfl⟩

/-- **`t[period, evaluation, metadata]` with arbitrary components** equals the filter: the
metadata component keeps everything when falsy or `:`, the cells of that metadata when it is a
`Metadata`, nothing when it is any other object; a triangle comes back when some component is a
slice -/
theorem getItemAny_eq_filter {t : List Cell} (ht : Canon t)
    (hr : ∀ c ∈ t, Date.min ≤ c.ps ∧ c.ps ≤ Date.max)
    (p e m : IdxVal) (hp : p.toDateIdx ≠ .bad) (he : e.toDateIdx ≠ .bad) :
    Triangle.getItemAny t (.tuple [p, e, m]) =
      itemResult p.toDateIdx e.toDateIdx m.toMetaIdx
        (t.filter (itemKeep p.toDateIdx e.toDateIdx m.toMetaIdx)) :=
  getItem_eq_filter ht hr _ _ _ hp he

theorem sliceGetItemAny_eq_filter {t : List Cell} (ht : Canon t) (h1 : singleSlice t = true)
    (hr : ∀ c ∈ t, Date.min ≤ c.ps ∧ c.ps ≤ Date.max)
    (p e : IdxVal) (hp : p.toDateIdx ≠ .bad) (he : e.toDateIdx ≠ .bad) :
    TriangleSlice.getItemAny t (.tuple [p, e]) =
      sliceResult p.toDateIdx e.toDateIdx (t.filter (sliceKeep p.toDateIdx e.toDateIdx)) :=
  sliceGetItem_eq_filter ht h1 hr _ _ hp he

/-- a junk metadata component selects nothing: an empty triangle when it is a slice (or another
component is), `IndexError` otherwise -/
theorem getItem_junk {t : List Cell} (ht : Canon t)
    (hr : ∀ c ∈ t, Date.min ≤ c.ps ∧ c.ps ≤ Date.max)
    (p e : DateIdx) (b : Bool) (hp : p ≠ .bad) (he : e ≠ .bad) :
    Triangle.getItem t p e (.junk b) =
      if p.isSlice || e.isSlice || b then .ok (.inl []) else .error .indexError := by
  rw [getItem_eq_filter ht hr p e _ hp he]
  have : t.filter (itemKeep p e (.junk b)) = [] := by
    rw [List.filter_eq_nil_iff]; intro c _; simp [itemKeep]
  rw [this]; rfl

/-- `slice_to_triangle(triangle_to_slice(t))` gives back a canonical single-slice triangle -/
theorem slice_roundtrip {t : List Cell} (ht : Canon t) (h1 : singleSlice t = true) :
    (triangleToSlice t >>= sliceToTriangle) = .ok t := by
  simp only [triangleToSlice, sliceToTriangle, sliceOfCells_single ht h1, bind, Except.bind]
  exact ofCells_sublist (List.Sublist.refl t) ht.1 ht.2

/-! ### 11. `is_right_edge_ragged` -/

/-- `right_edge` never refuses a canonical triangle -/
theorem rightEdge_ok {s : List Cell} (hs : Canon s) : ∃ r, Triangle.rightEdge s = .ok r := by
  rw [rightEdge_eq]
  unfold Triangle.ofCells
  have : kindsConsistent (rightEdgeRows s) = true :=
    kindsConsistent_of_subset (fun c hc => mem_rightEdge_rows hc) hs.2
  simp [this]

/-- a cell is the latest of its (slice, period) row -/
def latestIn (t : List Cell) (c : Cell) : Prop := ∀ c' ∈ t, sameRow c c' = true → c'.ev ≤ c.ev

/-- **`is_right_edge_ragged`** is `True` exactly when some slice holds two cells, each the latest
of its period row, with different evaluation dates (and it never raises on a canonical triangle) -/
theorem isRightEdgeRagged_iff {t : List Cell} (ht : Canon t) :
    ∃ b, Triangle.isRightEdgeRagged t = .ok b ∧
      (b = true ↔ ∃ x ∈ t, ∃ y ∈ t, x.md = y.md ∧ latestIn t x ∧ latestIn t y ∧ x.ev ≠ y.ev) := by
  let f : List Cell → List Cell := fun s => match Triangle.rightEdge s with
    | .ok r => r
    | .error _ => []
  have hcan : ∀ m, Canon (t.filter (fun c => c.md == m)) := fun m => ht.sublist List.filter_sublist
  have hf : ∀ m, Triangle.rightEdge (t.filter (fun c => c.md == m)) = .ok (f (t.filter (fun c => c.md == m))) := by
    intro m
    obtain ⟨r, hr⟩ := rightEdge_ok (hcan m)
    simp only [f, hr]
  obtain ⟨_, hmem, hcov⟩ := metasOf_spec t
  have hsym : ∀ a b : Cell, sameRow a b = true → sameRow b a = true := by
    intro a b h
    have := (sameRow_iff _ _).mp h
    exact (sameRow_iff _ _).mpr ⟨this.1.symm, this.2.symm⟩
  refine ⟨((metasOf t).map fun m => (m, t.filter (fun c => c.md == m))).any fun p =>
    decide (1 < distinctCount ((f p.2).map (·.ev))), ?_, ?_⟩
  · unfold Triangle.isRightEdgeRagged
    rw [slices_eq ht]
    apply raggedIn_eq _ f
    intro p hp
    obtain ⟨m, _, rfl⟩ := List.mem_map.mp hp
    exact hf m
  · simp only [List.any_map, List.any_eq_true, Function.comp_apply, decide_eq_true_eq,
      distinctCount_gt_one_iff, List.mem_map]
    constructor
    · rintro ⟨m, hm, _, ⟨x, hx, rfl⟩, _, ⟨y, hy, rfl⟩, hne⟩
      obtain ⟨h1, _, _⟩ := rightEdge_spec (hcan m) (hf m)
      obtain ⟨hxs, hxl⟩ := h1 x hx
      obtain ⟨hys, hyl⟩ := h1 y hy
      have hxm : x.md = m := by simpa using (List.mem_filter.mp hxs).2
      have hym : y.md = m := by simpa using (List.mem_filter.mp hys).2
      refine ⟨x, (List.mem_filter.mp hxs).1, y, (List.mem_filter.mp hys).1, hxm.trans hym.symm, ?_, ?_, hne⟩
      · intro c' hc' hrow
        have := ((sameRow_iff _ _).mp hrow).1
        exact hxl c' (List.mem_filter.mpr ⟨hc', by simp [← this, hxm]⟩) hrow
      · intro c' hc' hrow
        have := ((sameRow_iff _ _).mp hrow).1
        exact hyl c' (List.mem_filter.mpr ⟨hc', by simp [← this, hym]⟩) hrow
    · rintro ⟨x, hx, y, hy, hmd, hxl, hyl, hne⟩
      obtain ⟨h1, h2, _⟩ := rightEdge_spec (hcan x.md) (hf x.md)
      have hxs : x ∈ t.filter (fun c => c.md == x.md) := List.mem_filter.mpr ⟨hx, by simp⟩
      have hys : y ∈ t.filter (fun c => c.md == x.md) := List.mem_filter.mpr ⟨hy, by simp [hmd]⟩
      obtain ⟨x', hx', hrx⟩ := h2 x hxs
      obtain ⟨y', hy', hry⟩ := h2 y hys
      have ex : x'.ev = x.ev := by
        have a1 := hxl x' (List.mem_filter.mp (h1 x' hx').1).1 (hsym _ _ hrx)
        have a2 := (h1 x' hx').2 x hxs hrx
        exact Date.le_antisymm a1 a2
      have ey : y'.ev = y.ev := by
        have a1 := hyl y' (List.mem_filter.mp (h1 y' hy').1).1 (hsym _ _ hry)
        have a2 := (h1 y' hy').2 y hys hry
        exact Date.le_antisymm a1 a2
      exact ⟨x.md, hcov x hx, _, ⟨x', hx', rfl⟩, _, ⟨y', hy', rfl⟩, by rw [ex, ey]; exact hne⟩

/-- the Spec predicate holds of the model's answer -/
theorem raggedSpec_model {t : List Cell} (ht : Canon t) {b : Bool}
    (h : Triangle.isRightEdgeRagged t = .ok b) : raggedSpec t b = true := by
  obtain ⟨b', hb', hiff⟩ := isRightEdgeRagged_iff ht
  rw [hb'] at h
  cases h
  have hl : ∀ c, (t.all (fun c' => !sameRow c c' || decide (c'.ev ≤ c.ev))) = true ↔ latestIn t c := by
    intro c
    simp only [latestIn, List.all_eq_true, Bool.or_eq_true, Bool.not_eq_true', decide_eq_true_eq]
    constructor
    · intro H c' hc' hrow
      rcases H c' hc' with h | h
      · rw [hrow] at h; cases h
      · exact h
    · intro H c' hc'
      cases hrow : sameRow c c' with
      | false => exact Or.inl rfl
      | true => exact Or.inr (H c' hc' hrow)
  simp only [raggedSpec, beq_iff_eq]
  rw [Bool.eq_iff_iff, hiff]
  simp only [List.any_eq_true, Bool.and_eq_true, hl, beq_iff_eq, bne_iff_ne, ne_eq]
  constructor
  · rintro ⟨x, hx, y, hy, hmd, hxl, hyl, hne⟩
    exact ⟨y, hy, hyl, x, hx, ⟨hmd, hxl⟩, hne⟩
  · rintro ⟨y, hy, hyl, x, hx, ⟨hmd, hxl⟩, hne⟩
    exact ⟨x, hx, y, hy, hmd, hxl, hyl, hne⟩

/-! ### non-vacuity for the `TriangleSlice` theorems -/

theorem exT_single : singleSlice exT = true := by decide

example : TriangleSlice.getItem exT (.slice (some ⟨2020, 1, 1⟩) none) (.scalar ⟨2021, 12, 31⟩) =
    .ok (.inl (exT.drop 1)) := by
  rw [sliceGetItem_eq_filter exT_canon exT_single exT_range _ _ (by simp) (by simp)]
  have : exT.filter (sliceKeep (.slice (some ⟨2020, 1, 1⟩) none) (.scalar ⟨2021, 12, 31⟩)) = exT.drop 1 := by
    decide
  rw [this]; rfl

example : TriangleSlice.getItem exT (.scalar ⟨2020, 1, 1⟩) (.scalar ⟨2021, 12, 31⟩) =
    .ok (.inr (exT[1])) := by
  rw [sliceGetItem_eq_filter exT_canon exT_single exT_range _ _ (by simp) (by simp)]
  have : exT.filter (sliceKeep (.scalar ⟨2020, 1, 1⟩) (.scalar ⟨2021, 12, 31⟩)) = [exT[1]] := by
    decide
  rw [this]; rfl

/-- and the multi-slice refusal applies to a concrete two-metadata sequence -/
example : TriangleSlice.ofCells (exT ++ [{ exT[0] with md := { country := some "US" } }]) =
    .error .triangleError :=
  sliceOfCells_multi (a := exT[0]) (b := { exT[0] with md := { country := some "US" } })
    (by simp) (by simp) (by decide)


/-! ### 12. complementary clip / filter pairs -/

/-- **a clip and the filter by the negation of its documented predicate partition the triangle**,
whatever subset of the six bounds is given -/
theorem clip_filter_complement_partition {t : List Cell} (ht : Canon t) (a : ClipFull) (u : LagUnit)
    (hu : a.unit = some u) :
    ∃ lo hi, Triangle.clipFull t a = .ok lo ∧
      Triangle.filterP t (fun c => !clipKeep a u c) = .ok hi ∧
      (lo ++ hi).Perm t ∧ lo.length + hi.length = t.length := by
  refine ⟨_, _, clip_exact ht a u hu, filter_unchanged_sorted ht _, ?_⟩
  have hp := List.filter_append_perm (clipKeep a u) t
  exact ⟨hp, by simpa using hp.length_eq⟩

/-- the same with the complement given by any predicate that agrees with the negation on `t` -/
theorem clip_complement_of_agree {t : List Cell} (ht : Canon t) (a : ClipFull) (u : LagUnit)
    (hu : a.unit = some u) (q : Cell → Bool) (hq : ∀ c ∈ t, q c = !clipKeep a u c) :
    ∃ lo hi, Triangle.clipFull t a = .ok lo ∧ Triangle.filterP t q = .ok hi ∧
      (lo ++ hi).Perm t ∧ lo.length + hi.length = t.length := by
  obtain ⟨lo, hi, h1, h2, h3, h4⟩ := clip_filter_complement_partition ht a u hu
  refine ⟨lo, hi, h1, ?_, h3, h4⟩
  rw [filter_unchanged_sorted ht] at h2 ⊢
  rw [← h2]
  congr 1
  exact List.filter_congr hq

/-- `clip(min_dev = b)` and `filter(dev_lag < b)` partition the triangle — any unit, any bound
(whole or fractional number of months, days) -/
theorem clip_minDev_complement {t : List Cell} (ht : Canon t) (b : Rat) (u : LagUnit) :
    ∃ lo hi, Triangle.clipFull t { minDev := some b, unit := some u } = .ok lo ∧
      Triangle.filterP t (fun c => decide (c.devLag u < b)) = .ok hi ∧
      (lo ++ hi).Perm t ∧ lo.length + hi.length = t.length := by
  apply clip_complement_of_agree ht _ u rfl
  intro c _
  simp [clipKeep, inDates, inLags, ← Rat.not_le]

/-- `clip(max_dev = b)` and `filter(dev_lag > b)` partition the triangle -/
theorem clip_maxDev_complement {t : List Cell} (ht : Canon t) (b : Rat) (u : LagUnit) :
    ∃ lo hi, Triangle.clipFull t { maxDev := some b, unit := some u } = .ok lo ∧
      Triangle.filterP t (fun c => decide (b < c.devLag u)) = .ok hi ∧
      (lo ++ hi).Perm t ∧ lo.length + hi.length = t.length := by
  apply clip_complement_of_agree ht _ u rfl
  intro c _
  simp [clipKeep, inDates, inLags, ← Rat.not_le]

/-- `clip(min_period = b)` and `filter(period_start < b)` partition the triangle -/
theorem clip_minPeriod_complement {t : List Cell} (ht : Canon t) (b : Date) :
    ∃ lo hi, Triangle.clipFull t { minPeriod := some b } = .ok lo ∧
      Triangle.filterP t (fun c => decide (c.ps < b)) = .ok hi ∧
      (lo ++ hi).Perm t ∧ lo.length + hi.length = t.length := by
  apply clip_complement_of_agree ht _ .month rfl
  intro c _
  simp [clipKeep, inDates, inLags, ← Date.not_le]

/-- `clip(max_period = b)` and `filter(period_end > b)` partition the triangle -/
theorem clip_maxPeriod_complement {t : List Cell} (ht : Canon t) (b : Date) :
    ∃ lo hi, Triangle.clipFull t { maxPeriod := some b } = .ok lo ∧
      Triangle.filterP t (fun c => decide (b < c.pe)) = .ok hi ∧
      (lo ++ hi).Perm t ∧ lo.length + hi.length = t.length := by
  apply clip_complement_of_agree ht _ .month rfl
  intro c _
  simp [clipKeep, inDates, inLags, ← Date.not_le]

/-- **`clip(max_dev = n)` and `clip(min_dev = n + 1)` partition the triangle when every lag is a
whole number** (in the given unit) -/
theorem clip_wholeLag_complement_partition {t : List Cell} (ht : Canon t) (n : Int) (u : LagUnit)
    (hw : ∀ c ∈ t, ∃ z : Int, c.devLag u = (z : Rat)) :
    ∃ lo hi, Triangle.clipFull t { maxDev := some (n : Rat), unit := some u } = .ok lo ∧
      Triangle.clipFull t { minDev := some ((n + 1 : Int) : Rat), unit := some u } = .ok hi ∧
      (lo ++ hi).Perm t ∧ lo.length + hi.length = t.length := by
  refine ⟨_, _, clip_exact ht _ u rfl, clip_exact ht _ u rfl, ?_⟩
  have h1 : t.filter (clipKeep { maxDev := some (n : Rat), unit := some u } u) =
      t.filter (fun c => decide (c.devLag u ≤ (n : Rat))) := by
    apply List.filter_congr; intro c _; simp [clipKeep, inDates, inLags]
  have h2 : t.filter (clipKeep { minDev := some ((n + 1 : Int) : Rat), unit := some u } u) =
      t.filter (fun c => !decide (c.devLag u ≤ (n : Rat))) := by
    apply List.filter_congr; intro c hc
    obtain ⟨z, hz⟩ := hw c hc
    simp only [clipKeep, inDates, inLags, Option.all_none, Option.all_some, Bool.and_true, Bool.true_and, hz]
    have e1 : ((z : Rat) ≤ (n : Rat)) ↔ z ≤ n := Rat.intCast_le_intCast
    have e2 : (((n + 1 : Int) : Rat) ≤ (z : Rat)) ↔ n + 1 ≤ z := Rat.intCast_le_intCast
    simp only [e1, e2]
    by_cases h : z ≤ n
    · have : ¬ (n + 1 ≤ z) := by omega
      simp only [h, this, decide_true, decide_false, Bool.not_true]
    · have : n + 1 ≤ z := by omega
      simp only [h, this, decide_true, decide_false, Bool.not_false]
  rw [h1, h2]
  have hp := List.filter_append_perm (fun c : Cell => decide (c.devLag u ≤ (n : Rat))) t
  exact ⟨hp, by simpa using hp.length_eq⟩

/-- day and timedelta lags are whole numbers of days, so `clip(max_dev = n)` and
`clip(min_dev = n + 1)` always partition the triangle in these units -/
theorem clip_dayLag_complement_partition {t : List Cell} (ht : Canon t) (n : Int) (u : LagUnit)
    (hu : u = .day ∨ u = .timedelta) :
    ∃ lo hi, Triangle.clipFull t { maxDev := some (n : Rat), unit := some u } = .ok lo ∧
      Triangle.clipFull t { minDev := some ((n + 1 : Int) : Rat), unit := some u } = .ok hi ∧
      (lo ++ hi).Perm t ∧ lo.length + hi.length = t.length := by
  apply clip_wholeLag_complement_partition ht n u
  intro c _
  rcases hu with rfl | rfl <;> exact ⟨_, rfl⟩

/-! ### 13. the executable Spec predicates hold of the model's output -/

theorem partitions_of_perm {t a b : List Cell} (h : (a ++ b).Perm t) : partitions t a b = true := by
  have := h.length_eq
  simp only [List.length_append] at this
  simp [partitions, this, List.isPerm_iff, h]

/-- `partitions` holds of every complementary pair of the model -/
theorem spec_partitions {t : List Cell} (ht : Canon t) (a : ClipFull) (u : LagUnit)
    (hu : a.unit = some u) {lo hi : List Cell} (h1 : Triangle.clipFull t a = .ok lo)
    (h2 : Triangle.filterP t (fun c => !clipKeep a u c) = .ok hi) : partitions t lo hi = true := by
  obtain ⟨lo', hi', e1, e2, hp, _⟩ := clip_filter_complement_partition ht a u hu
  rw [e1] at h1; rw [e2] at h2
  cases h1; cases h2
  exact partitions_of_perm hp

theorem spec_partitions_filter {t : List Cell} (ht : Canon t) (p : Cell → Bool) {a b : List Cell}
    (h1 : Triangle.filterP t p = .ok a) (h2 : Triangle.filterP t (fun c => !p c) = .ok b) :
    partitions t a b = true := by
  obtain ⟨a', b', e1, e2, hp, _⟩ := filter_complement_partition ht p
  rw [e1] at h1; rw [e2] at h2
  cases h1; cases h2
  exact partitions_of_perm hp

/-- `slicesSpec` holds of `Triangle.slices` -/
theorem spec_slicesSpec {t : List Cell} (ht : Canon t) : slicesSpec t (Triangle.slices t) = true := by
  obtain ⟨hnd, hgrp, hperm⟩ := slices_partition ht
  simp only [slicesSpec, Bool.and_eq_true, nodupB_iff, List.all_eq_true, beq_iff_eq, exactly,
    Bool.not_eq_true', sum_length_eq]
  refine ⟨⟨hnd, fun p hp => ?_⟩, hperm.length_eq⟩
  obtain ⟨h1, h2⟩ := hgrp p hp
  refine ⟨?_, h1⟩
  cases hp2 : p.2 with
  | nil => exact absurd hp2 h2
  | cons _ _ => rfl

/-- `splitSpec` holds of `split` -/
theorem spec_splitSpec {t : List Cell} (ht : Canon t) (keys : List String) :
    ∃ gs, Triangle.split t keys = .ok gs ∧ splitSpec t keys gs = true := by
  obtain ⟨gs, hs, hnd, hgrp, hperm⟩ := split_partition ht keys
  refine ⟨gs, hs, ?_⟩
  simp only [splitSpec, Bool.and_eq_true, nodupB_iff, List.all_eq_true, beq_iff_eq, exactly,
    Bool.not_eq_true', sum_length_eq, detailKey_eq_splitKey]
  refine ⟨⟨hnd, fun p hp => ?_⟩, hperm.length_eq⟩
  obtain ⟨h1, h2⟩ := hgrp p hp
  refine ⟨?_, h1⟩
  cases hp2 : p.2 with
  | nil => exact absurd hp2 h2
  | cons _ _ => rfl

/-- `rightEdgeSpec` holds of `right_edge` -/
theorem spec_rightEdgeSpec {t r : List Cell} (ht : Canon t) (h : Triangle.rightEdge t = .ok r) :
    rightEdgeSpec t r = true := by
  obtain ⟨h1, h2, h3⟩ := rightEdge_spec ht h
  obtain ⟨_, hsorted⟩ := rightEdge_subset_sorted h
  have hsymm : ∀ a b : Cell, sameRow a b = true → sameRow b a = true := by
    intro a b hab
    have := (sameRow_iff _ _).mp hab
    exact (sameRow_iff _ _).mpr ⟨this.1.symm, this.2.symm⟩
  have htrans : ∀ a b c : Cell, sameRow a b = true → sameRow a c = true → sameRow b c = true := by
    intro a b c hab hac
    have x := (sameRow_iff _ _).mp hab
    have y := (sameRow_iff _ _).mp hac
    exact (sameRow_iff _ _).mpr ⟨x.1.symm.trans y.1, x.2.symm.trans y.2⟩
  simp only [rightEdgeSpec, Bool.and_eq_true, List.all_eq_true, List.contains_iff_mem, beq_iff_eq,
    Bool.or_eq_true, Bool.not_eq_true', decide_eq_true_eq]
  refine ⟨⟨fun c hc => ⟨(h1 c hc).1, fun c' hc' => ?_⟩, fun c hc => ?_⟩,
    Properties.C01.chainB_of_pairwise hsorted⟩
  · cases hrow : sameRow c c' with
    | false => exact Or.inl rfl
    | true => exact Or.inr ((h1 c hc).2 c' hc' hrow)
  · apply countP_eq_one
    · obtain ⟨c', hc', hrow⟩ := h2 c hc
      exact ⟨c', hc', hsymm _ _ hrow⟩
    · refine h3.imp ?_
      intro a b hab ⟨ha, hb⟩
      rw [htrans c a b ha hb] at hab
      cases hab

/-- `extractSpec` holds of `extract` -/
theorem spec_extractSpec (t : List Cell) (f : String) :
    extractSpec t f (Triangle.extract t f) = true := by
  simp only [extractSpec, Triangle.extract, List.length_map, beq_self_eq_true, Bool.true_and]
  induction t with
  | nil => rfl
  | cons c t ih =>
    simp only [List.map_cons, List.zip_cons_cons, List.all_cons, ih, Bool.and_true]
    unfold Dict.get?
    cases c.values.find? (fun kv => kv.1 == f) <;> simp

/-! ### 14. behaviour the words leave open, fixed as statements -/

/-- a detail key that is missing and one that holds `None` land in the same `split` group -/
theorem splitKey_missing_eq_none (k : String) (a b : Cell)
    (ha : a.md.details.get? k = none) (hb : b.md.details.get? k = some .none) :
    splitKey [k] a = splitKey [k] b := by
  simp [splitKey, ha, hb]

/-- a date as period index matches the period START only (the period end is not constrained), a
date as evaluation index the evaluation date -/
theorem itemKeep_scalar (d d' : Date) (c : Cell) :
    itemKeep (.scalar d) (.scalar d') .none c = (c.ps == d && c.ev == d') := by
  simp [itemKeep]

end Bermuda.Properties.C11
namespace Bermuda.Properties.C11
open Bermuda Std Bermuda.Spec.C11

def mdAuto : Metadata := { country := some "US", limit := some 100, details := [("line", .str "auto")] }
def mdHome : Metadata :=
  { country := some "US", limit := some 250, details := [("line", .str "home"), ("state", .none)] }

theorem mdAuto_lt_mdHome : Metadata.cmp mdAuto mdHome = .lt := by
  have h : ∀ x : Option String, optStrCmp x x = .eq := fun x => ReflCmp.compare_self (cmp := optStrCmp)
  simp only [Metadata.cmp, compareLex, cmpOn, mdAuto, mdHome, h, Ordering.eq_then]
  have : limCmp (some 100) (some 250) = .lt := by decide +kernel
  rw [this]; rfl

/-- two slices (a detail key `line`, one of them with a `state` key holding `None`), cumulative
cells, ragged: the two periods of `auto` end on different evaluation dates, `home` lags behind -/
def exT2 : List Cell :=
  [ { kind := .cumulative, ps := ⟨2020, 1, 1⟩, pe := ⟨2020, 12, 31⟩, ev := ⟨2020, 12, 31⟩, values := [("paid_loss", .int 1)], md := mdAuto },
    { kind := .cumulative, ps := ⟨2020, 1, 1⟩, pe := ⟨2020, 12, 31⟩, ev := ⟨2021, 12, 31⟩, values := [("paid_loss", .int 2), ("reported_loss", .int 5)], md := mdAuto },
    { kind := .cumulative, ps := ⟨2021, 1, 1⟩, pe := ⟨2021, 12, 31⟩, ev := ⟨2022, 6, 30⟩, values := [("paid_loss", .int 3)], md := mdAuto },
    { kind := .cumulative, ps := ⟨2020, 1, 1⟩, pe := ⟨2020, 12, 31⟩, ev := ⟨2020, 12, 31⟩, values := [("paid_loss", .int 7)], md := mdHome },
    { kind := .cumulative, ps := ⟨2020, 1, 1⟩, pe := ⟨2020, 12, 31⟩, ev := ⟨2021, 6, 30⟩, values := [("paid_loss", .int 8)], md := mdHome } ]

theorem exT2_canon : Canon exT2 := by
  refine ⟨?_, by decide⟩
  simp only [exT2, List.pairwise_cons, List.mem_cons, List.not_mem_nil, or_false, forall_eq_or_imp,
    forall_eq, List.Pairwise.nil, and_true, false_implies, implies_true]
  refine ⟨⟨?_, ?_, ?_, ?_⟩, ⟨?_, ?_, ?_⟩, ⟨?_, ?_⟩, ?_⟩
  all_goals first
    | exact le_of_same_md rfl (by decide)
    | exact le_of_md_lt mdAuto_lt_mdHome

theorem exT2_range : ∀ c ∈ exT2, Date.min ≤ c.ps ∧ c.ps ≤ Date.max := by decide

/-- slices of the two-slice triangle, concretely -/
example : Triangle.slices exT2 = [(mdAuto, exT2.take 3), (mdHome, exT2.drop 3)] := by
  rw [slices_eq exT2_canon]
  decide +kernel

example : slicesSpec exT2 (Triangle.slices exT2) = true := spec_slicesSpec exT2_canon

/-- split by a detail key: the hypotheses are met; and the cell lacking `state` and the cell whose
`state` is `None` get the same key -/
example : ∃ gs, Triangle.split exT2 ["line", "state"] = .ok gs ∧
    splitSpec exT2 ["line", "state"] gs = true := spec_splitSpec exT2_canon _

example : splitKey ["state"] exT2[0] = splitKey ["state"] exT2[3] :=
  splitKey_missing_eq_none "state" _ _ (by decide) (by decide)

/-- right edge of the ragged two-slice triangle: exists, satisfies the Spec, and is ragged -/
example : ∃ r, Triangle.rightEdge exT2 = .ok r ∧ rightEdgeSpec exT2 r = true := by
  obtain ⟨r, hr⟩ := rightEdge_ok exT2_canon
  exact ⟨r, hr, spec_rightEdgeSpec exT2_canon hr⟩

example : Triangle.isRightEdgeRagged exT2 = .ok true := by
  obtain ⟨b, hb, hiff⟩ := isRightEdgeRagged_iff exT2_canon
  have : b = true := hiff.mpr ⟨exT2[1], by decide, exT2[2], by decide, rfl, by unfold latestIn; decide +kernel, by unfold latestIn; decide +kernel,
    by decide⟩
  rw [hb, this]

/-- indexing with a `Metadata` component on the two-slice triangle -/
example : Triangle.getItem exT2 (.slice none none) (.slice none (some ⟨2020, 12, 31⟩)) (.is mdHome) =
    .ok (.inl [exT2[3]]) := by
  rw [getItem_eq_filter exT2_canon exT2_range _ _ _ (by simp) (by simp)]
  have : exT2.filter (itemKeep (.slice none none) (.slice none (some ⟨2020, 12, 31⟩)) (.is mdHome)) =
      [exT2[3]] := by decide +kernel
  rw [this]; rfl

/-- complementary lag clips on it (fractional month bound) -/
example : ∃ lo hi, Triangle.clipFull exT2 { minDev := some (5 / 2 : Rat), unit := some .month } = .ok lo ∧
    Triangle.filterP exT2 (fun c => decide (c.devLag .month < (5 / 2 : Rat))) = .ok hi ∧
    (lo ++ hi).Perm exT2 ∧ lo.length + hi.length = exT2.length :=
  clip_minDev_complement exT2_canon _ _

end Bermuda.Properties.C11
