/-
C11 — selection operators return exactly the cells their predicate describes.
Only property theorems live here (helper lemmas: `Lemmas/Select.lean`).
-/
import Bermuda.Model.Select
import Bermuda.Spec.C11
import Bermuda.Lemmas.Select
namespace Bermuda.Properties.C11
open Bermuda Std Bermuda.Spec.C11

/-- the triangle is in canonical form (what `Triangle(...)` always returns, C01): sorted and of
one cell class -/
def Canon (t : List Cell) : Prop :=
  t.Pairwise (fun a b => Cell.le a b) ∧ kindsConsistent t = true

theorem Canon.sublist {t s : List Cell} (ht : Canon t) (hs : s.Sublist t) : Canon s :=
  ⟨ht.1.sublist hs, kindsConsistent_sublist hs ht.2⟩

/-! ### 1. clip -/

/-- **clip = one filter by the conjunction of its bounds**, whatever subset of the six bounds is
given, followed by the constructor -/
theorem clip_eq_filter_conj (t : List Cell) (a : ClipFull) (u : LagUnit) (hu : a.unit = some u) :
    Triangle.clipFull t a = Triangle.ofCells (t.filter (clipKeep a u)) :=
  clipFull_eq t a u hu

/-- on a canonical triangle the constructor has nothing to reorder: the result is exactly the
sub-list of cells satisfying all bounds, unchanged and in order -/
theorem clip_exact {t : List Cell} (ht : Canon t) (a : ClipFull) (u : LagUnit) (hu : a.unit = some u) :
    Triangle.clipFull t a = .ok (t.filter (clipKeep a u)) := by
  rw [clipFull_eq t a u hu]
  exact ofCells_sublist List.filter_sublist ht.1 ht.2

/-- the Spec predicate holds of the model's output -/
theorem clipSpec_model {t : List Cell} (ht : Canon t) (a : ClipFull) (u : LagUnit) (hu : a.unit = some u)
    {out : List Cell} (h : Triangle.clipFull t a = .ok out) : clipSpec t a out = true := by
  rw [clip_exact ht a u hu] at h
  cases h
  simp [clipSpec, hu, exactly]

/-- with an unrecognised unit a lag bound is refused as soon as one cell reaches it -/
theorem clip_bad_unit (t : List Cell) (q : Rat) (ht : t ≠ []) :
    Triangle.clipFull t { minDev := some q, unit := none } = .error .valueError := by
  cases t with
  | nil => exact absurd rfl ht
  | cons c rest => simp [Triangle.clipFull, optFilter, devFilter, bind, Except.bind]

/-- all six bounds set to a cell's own evaluation date, period start, period end and lag -/
def ownBounds (c : Cell) (u : LagUnit) : ClipFull where
  minEval := some c.ev
  maxEval := some c.ev
  minPeriod := some c.ps
  maxPeriod := some c.pe
  minDev := some (c.devLag u)
  maxDev := some (c.devLag u)
  unit := some u

/-- **every bound is inclusive**: clipping with all six bounds set to a cell's own evaluation
date, period start, period end and development lag keeps that cell -/
theorem clip_inclusive {t : List Cell} (ht : Canon t) {c : Cell} (hc : c ∈ t) (u : LagUnit) :
    ∃ r, Triangle.clipFull t (ownBounds c u) = .ok r ∧ c ∈ r := by
  refine ⟨_, clip_exact ht _ u rfl, ?_⟩
  refine List.mem_filter.mpr ⟨hc, ?_⟩
  simp [ownBounds, clipKeep, inDates, inLags, Date.le_refl]

/-- **complementary clips partition the triangle**: `clip(max_eval = b)` and
`clip(min_eval = b + 1 day)` together hold every cell exactly once -/
theorem clip_complement_partition {t : List Cell} (ht : Canon t) (b : Date) (hb : b.valid = true)
    (hv : ∀ c ∈ t, c.ev.valid = true) :
    ∃ lo hi, Triangle.clipFull t { maxEval := some b } = .ok lo ∧
      Triangle.clipFull t { minEval := some b.succ } = .ok hi ∧
      (lo ++ hi).Perm t ∧ lo.length + hi.length = t.length := by
  refine ⟨_, _, clip_exact ht _ .month rfl, clip_exact ht _ .month rfl, ?_⟩
  have h1 : t.filter (clipKeep { maxEval := some b } .month) = t.filter (fun c => decide (c.ev ≤ b)) := by
    apply List.filter_congr; intro c _; simp [clipKeep, inDates, inLags]
  have h2 : t.filter (clipKeep { minEval := some b.succ } .month) = t.filter (fun c => !decide (c.ev ≤ b)) := by
    apply List.filter_congr; intro c hc
    have := Date.not_le_iff_succ_le hb (hv c hc)
    simp only [clipKeep, inDates, inLags, Option.all_none, Option.all_some, Bool.and_true]
    by_cases h : c.ev ≤ b
    · have : ¬ b.succ ≤ c.ev := fun h' => (this.mpr h') h
      simp [h, this]
    · have : b.succ ≤ c.ev := this.mp h
      simp [h, this]
  rw [h1, h2]
  have hp := List.filter_append_perm (fun c : Cell => decide (c.ev ≤ b)) t
  exact ⟨hp, by simpa using hp.length_eq⟩

/-! ### 2. filter -/

/-- **filter returns exactly the cells satisfying the predicate, unchanged and in order**: the
result is a sub-list of a sorted list, so the constructor does not reorder it -/
theorem filter_unchanged_sorted {t : List Cell} (ht : Canon t) (p : Cell → Bool) :
    Triangle.filterP t p = .ok (t.filter p) :=
  ofCells_sublist List.filter_sublist ht.1 ht.2

theorem maskKeep_sublist (t : List Cell) (mask : List Bool) : (maskKeep t mask).Sublist t := by
  unfold maskKeep
  induction t generalizing mask with
  | nil => simp
  | cons c t ih =>
    cases mask with
    | nil => simp
    | cons b mask =>
      simp only [List.zip_cons_cons, List.filterMap_cons]
      cases b
      · simpa using (ih mask).cons c
      · simpa using (ih mask).cons_cons c

/-- the same for a predicate given extensionally (a mask over positions) -/
theorem filterMask_unchanged_sorted {t : List Cell} (ht : Canon t) (mask : List Bool) :
    Triangle.filterMask t mask = .ok (maskKeep t mask) :=
  ofCells_sublist (maskKeep_sublist t mask) ht.1 ht.2

/-- **complementary filters partition the triangle** -/
theorem filter_complement_partition {t : List Cell} (ht : Canon t) (p : Cell → Bool) :
    ∃ a b, Triangle.filterP t p = .ok a ∧ Triangle.filterP t (fun c => !p c) = .ok b ∧
      (a ++ b).Perm t ∧ a.length + b.length = t.length := by
  refine ⟨_, _, filter_unchanged_sorted ht p, filter_unchanged_sorted ht _, ?_⟩
  have hp := List.filter_append_perm p t
  exact ⟨hp, by simpa using hp.length_eq⟩

/-! ### 3. slices and split -/

theorem slices_eq {t : List Cell} (ht : Canon t) :
    Triangle.slices t = (metasOf t).map fun m => (m, t.filter (fun c => c.md == m)) := by
  unfold Triangle.slices
  apply List.map_congr_left
  intro m _
  congr 1
  exact List.mergeSort_of_pairwise (ht.1.sublist List.filter_sublist)

/-- **slices partition the triangle by metadata**: one entry per distinct metadata, holding
exactly the cells of that metadata in order (never empty), and together a rearrangement of all
cells -/
theorem slices_partition {t : List Cell} (ht : Canon t) :
    ((Triangle.slices t).map (·.1)).Nodup ∧
    (∀ p ∈ Triangle.slices t, p.2 = t.filter (fun c => c.md == p.1) ∧ p.2 ≠ []) ∧
    ((Triangle.slices t).flatMap (·.2)).Perm t := by
  obtain ⟨hnd, hmem, hcov⟩ := metasOf_spec t
  rw [slices_eq ht]
  refine ⟨?_, ?_, ?_⟩
  · simpa [List.map_map, Function.comp_def] using hnd
  · intro p hp
    obtain ⟨m, hm, rfl⟩ := List.mem_map.mp hp
    refine ⟨rfl, ?_⟩
    obtain ⟨c, hc, e⟩ := hmem m hm
    exact List.ne_nil_of_mem (List.mem_filter.mpr ⟨hc, by simp [e]⟩)
  · rw [List.flatMap_map]
    exact flatMap_filter_perm (fun c : Cell => c.md) t (metasOf t) hnd hcov

theorem flatMap_congr_mem {α β} (l : List α) (f g : α → List β) (h : ∀ a ∈ l, f a = g a) :
    l.flatMap f = l.flatMap g := by
  induction l with
  | nil => rfl
  | cons a l ih =>
    simp only [List.flatMap_cons, h a (by simp), ih (fun x hx => h x (by simp [hx]))]

theorem mapM_ok_of_forall {α β} (f : α → Except Err β) (g : α → β) (l : List α)
    (h : ∀ a ∈ l, f a = .ok (g a)) : l.mapM f = .ok (l.map g) := by
  induction l with
  | nil => rfl
  | cons a l ih =>
    rw [List.mapM_cons, h a (by simp), ih (fun x hx => h x (by simp [hx]))]
    rfl

/-- **split partitions the triangle by the values of the given detail keys**: distinct keys,
each group exactly the cells with that key tuple in order (never empty), together a
rearrangement of all cells -/
theorem split_partition {t : List Cell} (ht : Canon t) (keys : List String) :
    ∃ gs, Triangle.split t keys = .ok gs ∧ (gs.map (·.1)).Nodup ∧
      (∀ p ∈ gs, p.2 = t.filter (fun c => splitKey keys c == p.1) ∧ p.2 ≠ []) ∧
      (gs.flatMap (·.2)).Perm t := by
  have inv := groupBy_inv (splitKey keys) t
  refine ⟨groupBy (splitKey keys) t, ?_, inv.nodup, inv.grp, ?_⟩
  · unfold Triangle.split
    rw [mapM_ok_of_forall _ id]
    · simp
    · intro p hp
      have := (inv.grp p hp).1
      have hs : p.2.Sublist t := this ▸ List.filter_sublist
      simp [ofCells_sublist hs ht.1 ht.2, bind, Except.bind, pure, Except.pure]
  · have h : (groupBy (splitKey keys) t).flatMap (·.2) =
        ((groupBy (splitKey keys) t).map (·.1)).flatMap fun k => t.filter (fun c => splitKey keys c == k) := by
      rw [List.flatMap_map]
      exact flatMap_congr_mem _ _ _ (fun p hp => (inv.grp p hp).1)
    rw [h]
    exact flatMap_filter_perm (splitKey keys) t _ inv.nodup inv.cov

end Bermuda.Properties.C11
