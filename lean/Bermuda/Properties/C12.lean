/-
C12 — development-lag and month arithmetic are mutually inverse and calendar-exact.
-/
import Bermuda.Model.DateUtils
import Bermuda.Spec.C12
namespace Bermuda.Properties.C12
open Bermuda

/-- D8 (known finding): before 1970 the law fails -/
theorem addMonths_devLag_pre1970_counterexample :
    addMonths ⟨1969, 12, 15⟩ (devLagMonths ⟨1969, 12, 15⟩ ⟨1969, 12, 15⟩) = ⟨1970, 1, 15⟩ := by
  decide +kernel

end Bermuda.Properties.C12
