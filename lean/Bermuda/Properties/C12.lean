/-
C12 — development-lag and month arithmetic are mutually inverse and calendar-exact.
Only property theorems live here (helper lemmas: `Lemmas/DateUtils.lean`).

The model (`Model/DateUtils.lean`) mirrors `bermuda/date_utils.py` over exact rationals, `int()`
truncation included.  Consequence (finding D8): the laws hold for every result from 1970-01-01 on
and fail before; the theorems carry the hypothesis, the failure is a theorem too.
-/
import Bermuda.Model.DateUtils
import Bermuda.Model.DateUtilsExt
import Bermuda.Spec.C12
import Bermuda.Lemmas.DateUtils
namespace Bermuda.Properties.C12
open Bermuda

/-! ### 1. `add_months(p, dev_lag_months(p, e)) = e` -/

/-- PARTIAL: the inverse law for every evaluation date from 1970-01-01 on (any start date `p`,
before or after 1970).  Missing part: `e` before 1970, where the law is false (next theorem). -/
theorem addMonths_devLag_partial (p e : Date) (_hp : p.valid) (he : e.valid) (h70 : 1970 ≤ e.y) :
    addMonths p (devLagMonths p e) = e :=
  addMonths_devLag_of_valid p e he h70

/-- the lag from the fixed origin 1969-12-31 is `month index + day / days in month` -/
theorem originLag_eq (d : Date) :
    devLagMonths ⟨1969, 12, 31⟩ d = (monthToId d : Rat) + (d.d : Rat) / (dim d.y d.m : Rat) :=
  initLag_eq d

-- REFUTED addMonths_devLag
--   theorem addMonths_devLag (p e : Date) (hp : p.valid) (he : e.valid) :
--       addMonths p (devLagMonths p e) = e
-- The property's first clause for ALL dates. It is FALSE for the code as it stands because of known
-- finding D8 (`int()` truncates toward zero): refuted by `addMonths_devLag_all_dates_false` (from
-- `addMonths_devLag_pre1970_counterexample`); `addMonths_devLag_iff` says exactly for which targets it
-- holds (from 1970 on, or month ends), `addMonths_devLag_partial` is the part that is true.

/-- D8 (known finding): a valid pair before 1970 for which the law fails — already with lag 0:
`add_months(date(1969,12,15), 0.0) == date(1970,1,15)`. -/
theorem addMonths_devLag_pre1970_counterexample :
    (Date.mk 1969 12 15).valid = true ∧ devLagMonths ⟨1969, 12, 15⟩ ⟨1969, 12, 15⟩ = 0 ∧
    addMonths ⟨1969, 12, 15⟩ (devLagMonths ⟨1969, 12, 15⟩ ⟨1969, 12, 15⟩) = ⟨1970, 1, 15⟩ ∧
    addMonths ⟨1969, 12, 15⟩ (devLagMonths ⟨1969, 12, 15⟩ ⟨1969, 12, 15⟩) ≠ ⟨1969, 12, 15⟩ := by
  decide +kernel

/-- the value pinned by `test_add_float_months` is the off-by-one one: three months after
1962-05-17 is reported as 1962-09-16 -/
theorem addMonths_pinned_pre1970 : addMonths ⟨1962, 5, 17⟩ 3 = ⟨1962, 9, 16⟩ := by decide +kernel

/-- so the full law is refutable: it is not the case that it holds for all valid dates -/
theorem addMonths_devLag_all_dates_false :
    ¬ ∀ p e : Date, p.valid → e.valid → addMonths p (devLagMonths p e) = e := by
  intro h
  have := h ⟨1969, 12, 15⟩ ⟨1969, 12, 15⟩ (by decide) (by decide)
  exact addMonths_devLag_pre1970_counterexample.2.2.2 this

/-- month-end targets are recovered in EVERY year (the lag from the origin is an integer, where
truncation and floor agree) -/
theorem addMonths_devLag_monthEnd (p e : Date) (he : e.valid) (hme : e.isMonthEnd) :
    addMonths p (devLagMonths p e) = e :=
  Bermuda.addMonths_devLag_monthEnd p e he hme

/-- exact extent of D8 in the model: the law holds for a valid target `e` iff `e` is from 1970 on or
a month end; every other target before 1970 is missed (by one month, `addMonths_int_pre1970`) -/
theorem addMonths_devLag_iff (p e : Date) (he : e.valid) :
    addMonths p (devLagMonths p e) = e ↔ (1970 ≤ e.y ∨ e.isMonthEnd = true) := by
  constructor
  · intro h
    by_cases h70 : 1970 ≤ e.y
    · exact Or.inl h70
    · right
      cases hme : e.isMonthEnd
      · exact absurd h (addMonths_devLag_pre1970_ne p e he (by omega) hme)
      · rfl
  · rintro (h70 | hme)
    · exact addMonths_devLag_of_valid p e he h70
    · exact Bermuda.addMonths_devLag_monthEnd p e he hme

/-! ### 2. integer offsets move the month index by exactly `k` -/

/-- adding the integer `k` lands in month `monthToId d + k` (result from 1970 on) -/
theorem addMonths_int_monthId (d : Date) (k : Int) (hv : d.valid) (h : 0 ≤ monthToId d + k) :
    monthToId (addMonths d (k : Rat)) = monthToId d + k := by
  obtain ⟨day, -, -, -, heq⟩ := addMonths_int_form d k hv h
  rw [heq]; exact monthToId_mk _ _

/-- … on a real calendar day -/
theorem addMonths_int_valid (d : Date) (k : Int) (hv : d.valid) (h : 0 ≤ monthToId d + k) :
    (addMonths d (k : Rat)).valid = true := by
  obtain ⟨day, h1, h2, -, heq⟩ := addMonths_int_form d k hv h
  rw [heq, valid_iff]
  have := monthOf_range (monthToId d + k)
  simp only; omega

/-- … and the DAY is determined for every start date, month end or not: the elapsed fraction of the start month carried
to the target month, rounded half to even (`Spec.scaledDay`) -/
theorem addMonths_int_day (d : Date) (k : Int) (hv : d.valid) (h : 0 ≤ monthToId d + k) :
    addMonths d (k : Rat) = ⟨1970 + (monthToId d + k) / 12, ((monthToId d + k) % 12).toNat + 1,
      (Spec.scaledDay d (monthToId d + k)).toNat⟩ :=
  addMonths_int_day_form d k hv h

/-- D8 for integer offsets: a date that is not a month end, moved into a month before 1970, lands
exactly one month late -/
theorem addMonths_int_pre1970 (d : Date) (k : Int) (hv : d.valid) (hne : d.isMonthEnd = false)
    (h : monthToId d + k < 0) : monthToId (addMonths d (k : Rat)) = monthToId d + k + 1 :=
  addMonths_int_pre1970_form d k hv hne h

/-- month ends map to the last day of month `monthToId d + k` — in EVERY year, also before 1970 -/
theorem addMonths_monthEnd_eq (d : Date) (k : Int) (he : d.isMonthEnd) :
    addMonths d (k : Rat) = monthEndOf (monthToId d + k) :=
  addMonths_monthEnd_all d k he

/-- month ends map to month ends, exactly `k` months later, on a real date (every year) -/
theorem addMonths_monthEnd (d : Date) (k : Int) (he : d.isMonthEnd) :
    (addMonths d (k : Rat)).isMonthEnd = true ∧ (addMonths d (k : Rat)).valid = true ∧
    monthToId (addMonths d (k : Rat)) = monthToId d + k := by
  rw [addMonths_monthEnd_eq d k he]
  exact ⟨monthEndOf_isMonthEnd _, monthEndOf_valid _, monthToId_monthEndOf _⟩

/-- `k = 0` is the identity on every valid date from 1970 on -/
theorem addMonths_zero (d : Date) (hv : d.valid) (h70 : 1970 ≤ d.y) : addMonths d 0 = d := by
  have h := addMonths_devLag_of_valid d d hv h70
  have h0 : devLagMonths d d = 0 := by unfold devLagMonths; simp
  rwa [h0] at h

/-- composition on month ends (every year): `(d + j) + k = d + (j + k)` -/
theorem addMonths_add (d : Date) (j k : Int) (he : d.isMonthEnd) :
    addMonths (addMonths d (j : Rat)) (k : Rat) = addMonths d ((j + k : Int) : Rat) := by
  rw [addMonths_monthEnd_eq d j he, addMonths_monthEnd_eq _ k (monthEndOf_isMonthEnd _),
      addMonths_monthEnd_eq d (j + k) he, monthToId_monthEndOf]
  congr 1; omega

/-- inverse on month ends (every year): adding `-k` undoes adding `k` -/
theorem addMonths_neg (d : Date) (k : Int) (hv : d.valid) (he : d.isMonthEnd) :
    addMonths (addMonths d (k : Rat)) ((-k : Int) : Rat) = d := by
  rw [addMonths_monthEnd_eq d k he, addMonths_monthEnd_eq _ (-k) (monthEndOf_isMonthEnd _),
      monthToId_monthEndOf]
  have : monthToId d + k + -k = monthToId d := by omega
  rw [this]; exact monthEndOf_monthToId hv he

/-! ### 3. lags -/

/-- month-end to month-end lags are exact integers: the difference of the month indices
(all years, also before 1970) -/
theorem devLag_monthEnds_int (s e : Date) (_hs : s.valid) (_he : e.valid)
    (hse : s.isMonthEnd) (hee : e.isMonthEnd) :
    devLagMonths s e = ((monthToId e - monthToId s : Int) : Rat) := by
  have e1 : s.d = dim s.y s.m := by simpa [Date.isMonthEnd] using hse
  have e2 : e.d = dim e.y e.m := by simpa [Date.isMonthEnd] using hee
  have n1 : ((dim s.y s.m : Nat) : Rat) ≠ 0 := by exact_mod_cast (Nat.ne_of_gt (dim_pos _ _))
  have n2 : ((dim e.y e.m : Nat) : Rat) ≠ 0 := by exact_mod_cast (Nat.ne_of_gt (dim_pos _ _))
  unfold devLagMonths monthFraction monthToId
  rw [e1, e2, div_self n1, div_self n2]
  push_cast; ring

/-- a cell's lag in days and as timedelta is the difference of the ordinals … -/
theorem devLag_days_eq_ordinal_diff (c : Cell) :
    c.devLag .day = ((c.ev.ordinal - c.pe.ordinal : Int) : Rat) ∧
    c.devLag .timedelta = ((c.ev.ordinal - c.pe.ordinal : Int) : Rat) ∧
    c.devLag .month = devLagMonths c.pe c.ev := ⟨rfl, rfl, rfl⟩

/-- … and ordinals count calendar days: the `n`-th day after `d` has ordinal `ordinal d + n` -/
theorem ordinal_counts_days (d : Date) (hv : d.valid) (n : Nat) :
    (Date.succ^[n] d).valid = true ∧ (Date.succ^[n] d).ordinal = d.ordinal + n :=
  ⟨iterate_succ_valid hv n, ordinal_iterate_succ hv n⟩

/-- hence the day lag to the `n`-th day after the period end is `n` -/
theorem devLag_days_counts_days (pe : Date) (hv : pe.valid) (n : Nat) :
    calculateDevLag pe (Date.succ^[n] pe) .day = (n : Rat) := by
  simp only [calculateDevLag, ordinal_iterate_succ hv n]
  have : pe.ordinal + (n : Int) - pe.ordinal = (n : Int) := by omega
  rw [this]; rfl

/-! ### 4. month ids -/

/-- `id_to_month(month_to_id(d))` is the first day of `d`'s month, with `beginning=False` the last -/
theorem idToMonth_monthToId (d : Date) (hv : d.valid) :
    idToMonth (monthToId d) true = ⟨d.y, d.m, 1⟩ ∧
    idToMonth (monthToId d) false = ⟨d.y, d.m, dim d.y d.m⟩ := by
  rw [idToMonth_true, idToMonth_false, monthEndOf, yearOf_monthToId hv, monthOf_monthToId hv]
  exact ⟨rfl, rfl⟩

/-- `month_to_id(id_to_month(id, beginning)) = id` for every integer id, both flags; the dates are
real, the first resp. last day of their month -/
theorem monthToId_idToMonth (id : Int) (b : Bool) :
    monthToId (idToMonth id b) = id ∧ (idToMonth id b).valid = true ∧
    (if b then (idToMonth id b).d = 1 else (idToMonth id b).isMonthEnd = true) := by
  cases b
  · rw [idToMonth_false]
    exact ⟨monthToId_monthEndOf id, monthEndOf_valid id, by simpa using monthEndOf_isMonthEnd id⟩
  · rw [idToMonth_true]
    refine ⟨monthToId_mk id 1, ?_, by simp⟩
    rw [valid_iff]
    have := monthOf_range id
    have := dim_pos (yearOf id) (monthOf id)
    simp only; omega

/-! ### 5. resolutions -/

/-- month units: `resolution_delta` is `add_months` with the signed quantity -/
theorem resolutionDelta_month (d : Date) (q : Int) (neg : Bool) :
    resolutionDelta d q .month neg = addMonths d (((if neg then -q else q) : Int) : Rat) := by
  cases neg <;> rfl

/-- day units: `resolution_delta` is day arithmetic with the signed quantity -/
theorem resolutionDelta_day (d : Date) (q : Int) (neg : Bool) :
    resolutionDelta d q .day neg = d.addDays (if neg then -q else q) := by
  cases neg <;> rfl

/-- … and day arithmetic is exact on `date.min .. date.max` (ordinals 1 .. 3652059): the result is a
real date whose ordinal is the start's plus the signed quantity (weeks enter as 7 days through
`standardize_resolution`) -/
theorem resolutionDelta_day_ordinal (d : Date) (q : Int) (neg : Bool)
    (h1 : 1 ≤ d.ordinal + (if neg then -q else q)) (h2 : d.ordinal + (if neg then -q else q) ≤ 3652059) :
    (resolutionDelta d q .day neg).valid = true ∧
    (resolutionDelta d q .day neg).ordinal = d.ordinal + (if neg then -q else q) := by
  rw [resolutionDelta_day]; exact addDays_ordinal d _ h1 h2

/-! unit dispatch (`lowerHas u s` = `s in u.lower()`): general statements following the code's if-chain
order, then the table over every spelling the harness uses -/
theorem standardizeResolution_month (q : Int) (u : String) (h : lowerHas u "month" = true) :
    standardizeResolution q u = .ok (q, .month) := by
  simp [standardizeResolution, h]

theorem standardizeResolution_quarter (q : Int) (u : String) (h0 : lowerHas u "month" = false)
    (h : lowerHas u "quarter" = true) : standardizeResolution q u = .ok (q * 3, .month) := by
  simp [standardizeResolution, h0, h]

theorem standardizeResolution_year (q : Int) (u : String) (h0 : lowerHas u "month" = false)
    (h1 : lowerHas u "quarter" = false) (h : lowerHas u "year" = true) :
    standardizeResolution q u = .ok (q * 12, .month) := by
  simp [standardizeResolution, h0, h1, h]

theorem standardizeResolution_day (q : Int) (u : String) (h0 : lowerHas u "month" = false)
    (h1 : lowerHas u "quarter" = false) (h2 : lowerHas u "year" = false) (h : lowerHas u "day" = true) :
    standardizeResolution q u = .ok (q, .day) := by
  simp [standardizeResolution, h0, h1, h2, h]

theorem standardizeResolution_week (q : Int) (u : String) (h0 : lowerHas u "month" = false)
    (h1 : lowerHas u "quarter" = false) (h2 : lowerHas u "year" = false) (h3 : lowerHas u "day" = false)
    (h : lowerHas u "week" = true) : standardizeResolution q u = .ok (q * 7, .day) := by
  simp [standardizeResolution, h0, h1, h2, h3, h]

theorem standardizeResolution_error (q : Int) (u : String) (h0 : lowerHas u "month" = false)
    (h1 : lowerHas u "quarter" = false) (h2 : lowerHas u "year" = false) (h3 : lowerHas u "day" = false)
    (h4 : lowerHas u "week" = false) : standardizeResolution q u = .error .valueError := by
  simp [standardizeResolution, h0, h1, h2, h3, h4]

/-- the table over every unit spelling the harness uses -/
theorem standardizeResolution_units (q : Int) :
    (∀ u ∈ ["month", "months", "Month", "MONTHS", "3-monthly", "yearmonth"],
      standardizeResolution q u = .ok (q, .month)) ∧
    (∀ u ∈ ["quarter", "quarters", "Quarter", "Quarters", "per quarter"],
      standardizeResolution q u = .ok (q * 3, .month)) ∧
    (∀ u ∈ ["year", "years", "YEAR", "half-year"], standardizeResolution q u = .ok (q * 12, .month)) ∧
    (∀ u ∈ ["day", "days", "Day", "weekday", "calendar days"], standardizeResolution q u = .ok (q, .day)) ∧
    (∀ u ∈ ["week", "weeks", "WEEK", "biweekly"], standardizeResolution q u = .ok (q * 7, .day)) ∧
    (∀ u ∈ ["timedelta", "period", ""], standardizeResolution q u = .error .valueError) := by
  refine ⟨?_, ?_, ?_, ?_, ?_, ?_⟩ <;> intro u hu <;>
    simp only [List.mem_cons, List.mem_nil_iff, or_false] at hu
  · rcases hu with rfl | rfl | rfl | rfl | rfl | rfl <;> rfl
  · rcases hu with rfl | rfl | rfl | rfl | rfl <;> rfl
  · rcases hu with rfl | rfl | rfl | rfl <;> rfl
  · rcases hu with rfl | rfl | rfl | rfl | rfl <;> rfl
  · rcases hu with rfl | rfl | rfl | rfl <;> rfl
  · rcases hu with rfl | rfl | rfl <;> rfl

theorem lagUnit_month (u : String) (h : lowerHas u "month" = true) : LagUnit.parse? u = some .month := by
  simp [LagUnit.parse?, h]

theorem lagUnit_day (u : String) (h0 : lowerHas u "month" = false) (h : lowerHas u "day" = true) :
    LagUnit.parse? u = some .day := by
  simp [LagUnit.parse?, h0, h]

theorem lagUnit_timedelta (u : String) (h0 : lowerHas u "month" = false) (h1 : lowerHas u "day" = false)
    (h : u.toList.map Char.toLower = "timedelta".toList) : LagUnit.parse? u = some .timedelta := by
  unfold LagUnit.parse?
  rw [if_neg (by rw [h0]; exact Bool.false_ne_true), if_neg (by rw [h1]; exact Bool.false_ne_true),
      if_pos (by rw [h]; exact beq_self_eq_true _)]

theorem lagUnit_none (u : String) (h0 : lowerHas u "month" = false) (h1 : lowerHas u "day" = false)
    (h : u.toList.map Char.toLower ≠ "timedelta".toList) : LagUnit.parse? u = none := by
  unfold LagUnit.parse?
  rw [if_neg (by rw [h0]; exact Bool.false_ne_true), if_neg (by rw [h1]; exact Bool.false_ne_true),
      if_neg (fun hh => h (eq_of_beq hh))]

/-- `calculate_dev_lag` / `Cell.dev_lag` unit dispatch on every spelling the harness uses -/
theorem lagUnit_units :
    (∀ u ∈ ["months", "month", "Month", "MONTHS", "dev_months", "monthday"], LagUnit.parse? u = some .month) ∧
    (∀ u ∈ ["day", "days", "Day", "DAYS", "calendar_days", "in days"], LagUnit.parse? u = some .day) ∧
    (∀ u ∈ ["timedelta", "Timedelta", "TIMEDELTA"], LagUnit.parse? u = some .timedelta) ∧
    (∀ u ∈ ["timedeltas", "time", "weeks", ""], LagUnit.parse? u = none) := by
  refine ⟨?_, ?_, ?_, ?_⟩ <;> intro u hu <;>
    simp only [List.mem_cons, List.mem_nil_iff, or_false] at hu
  · rcases hu with rfl | rfl | rfl | rfl | rfl | rfl <;> rfl
  · rcases hu with rfl | rfl | rfl | rfl | rfl | rfl <;> rfl
  · rcases hu with rfl | rfl | rfl <;> rfl
  · rcases hu with rfl | rfl | rfl | rfl <;> rfl

/-! ### 5b. `resolution_delta` on the caller's RAW unit string -/

/-- the exact string `"month"` is month arithmetic … -/
theorem resolutionDeltaRaw_month (d : Date) (q : Int) (neg : Bool) :
    resolutionDeltaRaw d q "month" neg = resolutionDelta d q .month neg := by
  cases neg <;> rfl

/-- … and EVERY other unit string is day arithmetic with the UNSCALED quantity: `"months"`, `"quarter"`, `"year"`, `"week"`
included (the function does not standardise; `standardize_resolution` must have been applied by the caller) -/
theorem resolutionDeltaRaw_other (d : Date) (q : Int) (units : String) (neg : Bool) (h : units ≠ "month") :
    resolutionDeltaRaw d q units neg = resolutionDelta d q .day neg := by
  have : (units == "month") = false := by simpa using h
  cases neg <;> simp [resolutionDeltaRaw, resolutionDelta, this]

/-- on the output of `standardize_resolution` (how `aggregate` calls it) the raw function is the two-unit one: the clause
"agrees with add_months for month units and with day arithmetic for day and week units" holds for the composition -/
theorem resolutionDeltaRaw_standardized (d : Date) (q q' : Int) (u : String) (ru : ResUnit) (neg : Bool)
    (_h : standardizeResolution q u = .ok (q', ru)) :
    resolutionDeltaRaw d q' ru.name neg = resolutionDelta d q' ru neg := by
  cases ru
  · exact resolutionDeltaRaw_month d q' neg
  · exact resolutionDeltaRaw_other d q' "day" neg (by decide)

/-- the library's own raw calls `resolution_delta(period_start, (-1, "days"))` / `(1, "days")` are day arithmetic -/
theorem resolutionDeltaRaw_days (d : Date) (q : Int) (neg : Bool) :
    resolutionDeltaRaw d q "days" neg = d.addDays (if neg then -q else q) := by
  rw [resolutionDeltaRaw_other d q "days" neg (by decide), resolutionDelta_day]

/-- WITNESS of the raw-string behaviour: from 2020-01-31, `(1, "months")`, `(1, "quarter")`, `(1, "year")`, `(1, "week")` all
give 2020-02-01 (one DAY later), while the standardised resolutions give 2020-02-29, 2020-04-30, 2021-01-31, 2020-02-07 -/
theorem resolutionDeltaRaw_unstandardized_units :
    resolutionDeltaRaw ⟨2020, 1, 31⟩ 1 "months" = ⟨2020, 2, 1⟩ ∧ resolutionDeltaRaw ⟨2020, 1, 31⟩ 1 "quarter" = ⟨2020, 2, 1⟩ ∧
    resolutionDeltaRaw ⟨2020, 1, 31⟩ 1 "year" = ⟨2020, 2, 1⟩ ∧ resolutionDeltaRaw ⟨2020, 1, 31⟩ 1 "week" = ⟨2020, 2, 1⟩ ∧
    resolutionDelta ⟨2020, 1, 31⟩ 1 .month = ⟨2020, 2, 29⟩ ∧ resolutionDelta ⟨2020, 1, 31⟩ 3 .month = ⟨2020, 4, 30⟩ ∧
    resolutionDelta ⟨2020, 1, 31⟩ 12 .month = ⟨2021, 1, 31⟩ ∧ resolutionDelta ⟨2020, 1, 31⟩ 7 .day = ⟨2020, 2, 7⟩ := by
  decide +kernel

/-! ### 5c. ordinals -/

/-- `ofOrdinal` / `ordinal` are inverse on the whole `date.min .. date.max` range (ordinals 1 .. 3652059): the date built
from ordinal `n` is a real calendar date with ordinal `n` -/
theorem ordinal_ofOrdinal (n : Int) (h1 : 1 ≤ n) (h2 : n ≤ 3652059) :
    (Date.ofOrdinal n).valid = true ∧ (Date.ofOrdinal n).ordinal = n :=
  ofOrdinal_spec n h1 h2

/-- day lags are antisymmetric: an evaluation date BEFORE the period end has the negative of the forward lag
(`ordinal_counts_days` then gives negative lags their calendar meaning, too) -/
theorem devLag_days_antisymm (a b : Date) :
    calculateDevLag a b .day = - calculateDevLag b a .day ∧
    calculateDevLag a b .timedelta = - calculateDevLag b a .timedelta := by
  constructor <;> (unfold calculateDevLag; push_cast; ring)

/-! ### 6. the model satisfies the Spec predicates the driver evaluates on the implementation -/

theorem spec_inverse (p e : Date) (he : e.valid) (h70 : 1970 ≤ e.y) :
    Spec.inverseOk e (addMonths p (devLagMonths p e)) = true := by
  simp [Spec.inverseOk, addMonths_devLag_of_valid p e he h70]

theorem spec_intShift (d : Date) (k : Int) (hv : d.valid) (h : 0 ≤ monthToId d + k) :
    Spec.intShiftOk d k (addMonths d (k : Rat)) = true := by
  unfold Spec.intShiftOk
  rw [addMonths_int_valid d k hv h, addMonths_int_monthId d k hv h]
  cases hme : d.isMonthEnd
  · simp
  · simp [(addMonths_monthEnd d k hme).1]

theorem spec_intShiftDay (d : Date) (k : Int) (hv : d.valid) (h : 0 ≤ monthToId d + k) :
    Spec.intShiftDayOk d k (addMonths d (k : Rat)) = true := by
  unfold Spec.intShiftDayOk
  simp only []
  rw [← addMonths_int_day d k hv h]
  simp

/-- the inverse law read through a cell: its month lag added to its period end is its evaluation date, for every
evaluation date from 1970 on and for every month-end evaluation date (`addMonths_devLag_iff`) -/
theorem spec_cellLagInverse (c : Cell) (he : c.ev.valid) (h : 1970 ≤ c.ev.y ∨ c.ev.isMonthEnd = true) :
    Spec.cellLagInverseOk c.ev (addMonths c.pe (c.devLag .month)) = true := by
  have := (addMonths_devLag_iff c.pe c.ev he).mpr h
  simp [Spec.cellLagInverseOk, Cell.devLag, calculateDevLag, this]

/-- month ends: in every year -/
theorem spec_monthEndShift (d : Date) (k : Int) (he : d.isMonthEnd) :
    Spec.monthEndShiftOk d k (addMonths d (k : Rat)) = true := by
  obtain ⟨h1, h2, h3⟩ := addMonths_monthEnd d k he
  unfold Spec.monthEndShiftOk
  rw [h1, h2, h3]
  simp

theorem spec_monthEndLag (s e : Date) (hs : s.valid) (he : e.valid) (hse : s.isMonthEnd)
    (hee : e.isMonthEnd) : Spec.monthEndLagOk s e (devLagMonths s e) = true := by
  simp [Spec.monthEndLagOk, devLag_monthEnds_int s e hs he hse hee]

theorem spec_dayDelta (d : Date) (q : Int) (neg : Bool)
    (h1 : 1 ≤ d.ordinal + (if neg then -q else q)) (h2 : d.ordinal + (if neg then -q else q) ≤ 3652059) :
    Spec.dayDeltaOk d q neg (resolutionDelta d q .day neg) = true := by
  obtain ⟨hv, ho⟩ := resolutionDelta_day_ordinal d q neg h1 h2
  simp [Spec.dayDeltaOk, hv, ho]

theorem spec_dayLag (c : Cell) : Spec.dayLagOk c.pe c.ev (c.ev.ordinal - c.pe.ordinal) = true := by
  simp [Spec.dayLagOk]

theorem spec_monthId (d : Date) (hv : d.valid) :
    Spec.monthIdOk d (monthToId d) = true ∧ Spec.firstDayOk d (idToMonth (monthToId d) true) = true ∧
    Spec.lastDayOk d (idToMonth (monthToId d) false) = true := by
  obtain ⟨h1, h2⟩ := idToMonth_monthToId d hv
  refine ⟨by simp [Spec.monthIdOk, monthToId], by simp [Spec.firstDayOk, h1], by simp [Spec.lastDayOk, h2]⟩

theorem spec_idToMonth (id : Int) (b : Bool) : Spec.idToMonthOk id b (idToMonth id b) = true := by
  obtain ⟨h1, h2, h3⟩ := monthToId_idToMonth id b
  unfold Spec.idToMonthOk
  rw [h1, h2]
  cases b <;> simp_all

/-- two calls compose on month ends (every year) -/
theorem spec_compose (d : Date) (j k : Int) (he : d.isMonthEnd) :
    Spec.composeOk d j k (addMonths (addMonths d (j : Rat)) (k : Rat)) = true := by
  rw [addMonths_add d j k he]
  exact spec_monthEndShift d (j + k) he

/-- adding `-k` undoes adding `k` on month ends (every year) -/
theorem spec_undo (d : Date) (k : Int) (hv : d.valid) (he : d.isMonthEnd) :
    Spec.undoOk d (addMonths (addMonths d (k : Rat)) ((-k : Int) : Rat)) = true := by
  unfold Spec.undoOk
  rw [addMonths_neg d k hv he]
  simp

/-! ### 7. non-vacuity: the hypotheses are satisfiable by non-trivial inputs -/

example : (Date.mk 2019 11 17).valid = true ∧ (Date.mk 2024 2 29).valid = true ∧ (1970 : Int) ≤ 2024 ∧
    devLagMonths ⟨2019, 11, 17⟩ ⟨2024, 2, 29⟩ = 51 + 13 / 30 ∧
    addMonths ⟨2019, 11, 17⟩ (51 + 13 / 30) = ⟨2024, 2, 29⟩ := by decide +kernel

example : (Date.mk 2020 2 29).valid = true ∧ (Date.mk 2020 2 29).isMonthEnd = true ∧
    addMonths ⟨2020, 2, 29⟩ ((-5 : Int) : Rat) = ⟨2019, 9, 30⟩ ∧
    addMonths ⟨2019, 9, 30⟩ ((5 : Int) : Rat) = ⟨2020, 2, 29⟩ ∧
    monthToId ⟨2020, 2, 29⟩ + (-5) = monthToId ⟨2019, 9, 30⟩ := by decide +kernel

/-- a mid-month date moved across a February: the month index moves by exactly 1, the day scales -/
example : addMonths ⟨2021, 1, 15⟩ ((1 : Int) : Rat) = ⟨2021, 2, 14⟩ ∧ (0 : Int) ≤ monthToId ⟨2021, 1, 15⟩ + 1 := by
  decide +kernel

/-! ### 7. the `date.max` sentinel (date_utils.py:36-40, 58-59): `calculateDevLagExt`, `addMonthsExt` -/

/-- the day rule on a leap February: 2024-02-15 plus twelve months is 2025-02-14 (15/29 of 28 days = 14.48), not the 15th;
2023-01-30 plus one month is 2023-02-27 (30/31 of 28 = 27.1) -/
example : addMonths ⟨2024, 2, 15⟩ ((12 : Int) : Rat) = ⟨2025, 2, 14⟩ ∧ Spec.intShiftDayOk ⟨2024, 2, 15⟩ 12 ⟨2025, 2, 14⟩ = true ∧
    Spec.intShiftDayOk ⟨2024, 2, 15⟩ 12 ⟨2025, 2, 15⟩ = false ∧ Spec.intShiftDayOk ⟨2023, 1, 30⟩ 1 ⟨2023, 2, 27⟩ = true := by
  decide +kernel

/-- a cell that starts on the 1st and ends mid-month, evaluated at a month end: the lag is NOT a whole number and only
the fractional lag leads back to the evaluation date -/
example : devLagMonths ⟨2020, 1, 15⟩ ⟨2020, 3, 31⟩ = 2 + 16 / 31 ∧
    Spec.cellLagInverseOk ⟨2020, 3, 31⟩ (addMonths ⟨2020, 1, 15⟩ (devLagMonths ⟨2020, 1, 15⟩ ⟨2020, 3, 31⟩)) = true ∧
    Spec.cellLagInverseOk ⟨2020, 3, 31⟩ (addMonths ⟨2020, 1, 15⟩ 2) = false := by
  decide +kernel

/-- below `date.max` the extended function is the finite one behind the unit dispatch -/
theorem calculateDevLagExt_fin (pe ev : Date) (u : String) (h : ev ≠ Date.max) :
    calculateDevLagExt pe ev u = (LagUnit.parse? u).map fun un => LagExt.fin (calculateDevLag pe ev un) := by
  unfold calculateDevLagExt
  rw [if_neg (fun hh => h (eq_of_beq hh))]
  cases LagUnit.parse? u <;> rfl

/-- at `date.max` EVERY unit string is answered (the short-circuit precedes the unit dispatch):
`timedelta.max` for the spelling "timedelta" in any case, `inf` for anything else -/
theorem calculateDevLagExt_max (pe : Date) (u : String) :
    calculateDevLagExt pe Date.max u =
      if u.toList.map Char.toLower == "timedelta".toList then some .tdMax else some .inf := by
  unfold calculateDevLagExt
  rw [if_pos (beq_self_eq_true _)]

/-- an infinite delta lands on `date.max` from every start date -/
theorem addMonthsExt_inf (d : Date) : addMonthsExt d .inf = some Date.max := rfl

/-- a finite delta is `addMonths` -/
theorem addMonthsExt_fin (d : Date) (q : Rat) : addMonthsExt d (.fin q) = some (addMonths d q) := rfl

/-- the inverse law extends to the sentinel: for every period end and every unit that is not spelled
"timedelta", adding `calculate_dev_lag(p, date.max, unit)` months to `p` returns `date.max` -/
theorem addMonthsExt_devLagExt_max (p : Date) (u : String)
    (h : u.toList.map Char.toLower ≠ "timedelta".toList) :
    (calculateDevLagExt p Date.max u).bind (addMonthsExt p) = some Date.max := by
  rw [calculateDevLagExt_max, if_neg (fun hh => h (eq_of_beq hh))]
  rfl

/-- Spec bridge for the sentinel stream of the driver -/
theorem spec_inverse_max (p : Date) (u : String) (h : u.toList.map Char.toLower ≠ "timedelta".toList) :
    ((calculateDevLagExt p Date.max u).bind (addMonthsExt p)).map (Spec.inverseOk Date.max) = some true := by
  rw [addMonthsExt_devLagExt_max p u h]
  rfl

/-- the month spellings of the harness are not "timedelta": the hypothesis above is satisfiable -/
example : ("months".toList.map Char.toLower ≠ "timedelta".toList) ∧
    calculateDevLagExt ⟨2020, 1, 31⟩ Date.max "bogus" = some .inf ∧
    calculateDevLagExt ⟨2020, 1, 31⟩ Date.max "TimeDelta" = some .tdMax ∧
    calculateDevLagExt ⟨2020, 1, 31⟩ ⟨2020, 3, 31⟩ "bogus" = none := by decide +kernel

end Bermuda.Properties.C12
