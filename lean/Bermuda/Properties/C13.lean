/-
C13 — descriptive accessors and the triangle taxonomy agree with the cells.
Sections: 1 accessors, 2 counts, 3 nesting, 4 `_multi_gcd`, 5 experience_gaps (as the code reads), 6 is_disjoint,
7 common metadata / differences, evaluation_date, num_samples, taxonomy = independent definitions, 8 non-vacuity,
slicewise / rows, 9 resolutions from the cells (sign, definedness, largest, the one-month quirk of
eval_date_resolution), 10 Spec bridges (every predicate the driver evaluates on the implementation holds on the
model), 11 experience_gaps on disjoint triangles (non-empty, uncovered, complete; inverted range on overlap),
12 calendar meaning of month lengths, 13 more non-vacuity.
Only property theorems live here (helper lemmas: `Lemmas/Accessors.lean`, `Lemmas/AccessorsHelpers.lean`,
`Lemmas/AccessorsExt.lean`, `Lemmas/Select.lean`).
-/
import Bermuda.Model.Accessors
import Bermuda.Spec.C13
import Bermuda.Lemmas.Accessors
import Bermuda.Lemmas.AccessorsExt
import Bermuda.Lemmas.AccessorsHelpers
namespace Bermuda.Properties.C13
open Bermuda Std Bermuda.Spec.C13 Bermuda.C13L

/-! ### 1. the accessors are the sorted distinct values present in the cells -/

/-- **`periods` is the strictly ascending list of the distinct periods of the cells** -/
theorem periods_eq_sortedDedup (t : List Cell) :
    (Triangle.periods t).Pairwise (fun a b => periodCmp a b = .lt) ∧
    ∀ p, p ∈ Triangle.periods t ↔ ∃ c ∈ t, c.period = p := by
  obtain ⟨h1, h2⟩ := sortedDedup_spec (cmp := periodCmp) (fun _ _ => periodCmp_eq_eq) (t.map Cell.period)
  exact ⟨h1, fun p => by rw [Triangle.periods, h2]; simp⟩

theorem evaluationDates_eq_sortedDedup (t : List Cell) :
    (Triangle.evaluationDates t).Pairwise (fun a b => a < b) ∧
    ∀ d, d ∈ Triangle.evaluationDates t ↔ ∃ c ∈ t, c.ev = d := by
  obtain ⟨h1, h2⟩ := sortedDedup_spec (cmp := Date.cmp) (fun _ _ => Date.cmp_eq_eq.mp) (t.map (·.ev))
  exact ⟨h1, fun d => by rw [Triangle.evaluationDates, h2]; simp⟩

theorem devLags_eq_sortedDedup (t : List Cell) (u : LagUnit) :
    ∃ l, Triangle.devLags t (some u) = .ok l ∧ l.Pairwise (fun a b => ratCmp a b = .lt) ∧
      ∀ q, q ∈ l ↔ ∃ c ∈ t, c.devLag u = q := by
  obtain ⟨h1, h2⟩ := sortedDedup_spec (cmp := ratCmp) (fun _ _ => ratCmp_eq_eq.mp) (t.map (·.devLag u))
  exact ⟨_, rfl, h1, fun q => by rw [h2]; simp⟩

theorem fields_eq_sortedDedup (t : List Cell) :
    (Triangle.fields t).Pairwise (fun a b => strCmp a b = .lt) ∧
    ∀ f, f ∈ Triangle.fields t ↔ ∃ c ∈ t, f ∈ c.values.keys := by
  obtain ⟨h1, h2⟩ := sortedDedup_spec (cmp := strCmp) (fun a b h => by simpa [strCmp] using h)
    (t.flatMap (·.values.keys))
  refine ⟨h1, fun f => ?_⟩
  rw [Triangle.fields, h2]; simp

/-- `metadata` is the strictly ascending (by `Metadata.__lt__`) list of the distinct metadata -/
theorem metadata_eq_sortedDedup (t : List Cell) (hc : ∀ c ∈ t, c.md.Canon) :
    (Triangle.metadata t).Pairwise (fun a b => Metadata.cmp a b = .lt) ∧
    ∀ m, m ∈ Triangle.metadata t ↔ ∃ c ∈ t, c.md = m := by
  obtain ⟨hnd, hmem, hcov⟩ := metasOf_spec t
  have hperm : (Triangle.metadata t).Perm (metasOf t) := List.mergeSort_perm _ _
  have hm : ∀ m, m ∈ Triangle.metadata t ↔ ∃ c ∈ t, c.md = m := by
    intro m
    rw [hperm.mem_iff]
    exact ⟨hmem m, fun ⟨c, hc, e⟩ => e ▸ hcov c hc⟩
  refine ⟨?_, hm⟩
  apply sorted_nodup_lt (cmp := Metadata.cmp)
  · intro a ha b hb h
    obtain ⟨ca, hca, rfl⟩ := (hm a).mp ha
    obtain ⟨cb, hcb, rfl⟩ := (hm b).mp hb
    exact (Metadata.cmp_eq_eq (hc ca hca) (hc cb hcb)).mp h
  · exact sorted_mergeSort (cmp := Metadata.cmp) (metasOf t)
  · exact hperm.nodup_iff.mpr hnd

/-! ### 2. counts -/

/-- `field_cell_counts[f]` is the number of cells holding field `f` -/
theorem fieldCellCounts_eq_countP (t : List Cell) :
    Triangle.fieldCellCounts t =
      (Triangle.fields t).map fun f => (f, t.countP fun c => c.values.keys.contains f) := by
  unfold Triangle.fieldCellCounts
  apply List.map_congr_left
  intro f _
  rw [sumBools_map_eq_countP]

/-- `field_slice_counts[f]` is the number of slices in which some cell holds field `f` -/
theorem fieldSliceCounts_eq_countP (t : List Cell) :
    Triangle.fieldSliceCounts t =
      (Triangle.fields t).map fun f =>
        (f, (Triangle.slices t).countP fun slc => (Triangle.fields slc.2).contains f) := by
  unfold Triangle.fieldSliceCounts
  apply List.map_congr_left
  intro f _
  rw [sumBools_map_eq_countP]

/-! ### 3. nesting of the taxonomy -/

/-- **regular ⇒ semi-regular** -/
theorem regular_imp_semiRegular (t : List Cell) (u : Option LagUnit)
    (h : Triangle.isRegular t u = .ok true) : Triangle.isSemiRegular t u = .ok true := by
  unfold Triangle.isRegular at h
  cases hs : Triangle.isSemiRegular t u with
  | error e => simp [hs, bind, Except.bind] at h
  | ok b =>
    cases b with
    | true => rfl
    | false => simp [hs, bind, Except.bind, pure, Except.pure] at h

/-- **semi-regular ⇒ disjoint** -/
theorem semiRegular_imp_disjoint (t : List Cell) (u : Option LagUnit)
    (h : Triangle.isSemiRegular t u = .ok true) : Triangle.isDisjoint t = true := by
  unfold Triangle.isSemiRegular at h
  cases hd : Triangle.isDisjoint t with
  | true => rfl
  | false => simp [hd] at h

/-! ### 4. resolutions -/

/-- the value of `_multi_gcd` divides every member (a fact about `_multi_gcd` only; the accessor-level statements
are `periodResolution_largest` and `evalDateResolution_spec`) -/
theorem resolution_dvd_all {xs : List Int} {r : Int} (h : multiGcd xs = .ok r) :
    ∀ x ∈ xs, r ∣ x := by
  intro x hx
  have hx' : x ∈ dedup xs := mem_dedup.mpr hx
  unfold multiGcd at h
  split at h
  · cases h
  · rename_i y hy
    cases h
    rw [hy] at hx'
    simp at hx'
    subst hx'
    exact Int.dvd_refl _
  · rename_i a b rest hy
    cases h
    rw [hy] at hx'
    obtain ⟨h1, h2⟩ := foldl_gcd_dvd rest (Int.gcd a b : Int)
    rcases List.mem_cons.mp hx' with rfl | hx'
    · exact Int.dvd_trans h1 (Int.gcd_dvd_left _ _)
    · rcases List.mem_cons.mp hx' with rfl | hx'
      · exact Int.dvd_trans h1 (Int.gcd_dvd_right _ _)
      · exact h2 x hx'

/-- … and every common divisor of the members divides it: it is the greatest -/
theorem resolution_greatest {xs : List Int} {r : Int} (h : multiGcd xs = .ok r)
    (d : Int) (hd : ∀ x ∈ xs, d ∣ x) : d ∣ r := by
  have hd' : ∀ x ∈ dedup xs, d ∣ x := fun x hx => hd x (mem_dedup.mp hx)
  unfold multiGcd at h
  split at h
  · cases h
  · rename_i y hy
    cases h
    exact hd' _ (by rw [hy]; simp)
  · rename_i a b rest hy
    cases h
    rw [hy] at hd'
    exact dvd_foldl_gcd rest _ d (Int.dvd_coe_gcd (hd' a (by simp)) (hd' b (by simp)))
      (fun x hx => hd' x (by simp [hx]))

/-- the MODEL's expression for the gaps `period_resolution` divides (sorted set over `periods`); the statement
from the cells is `periodMonthGaps` below, `periodBoundaryGaps_eq_cells` proves them equal -/
def periodBoundaryGaps (t : List Cell) : List Int :=
  diffs (sortedDedup intCmp
    ((Triangle.periods t).map (fun p => monthToId p.1) ++ (Triangle.periods t).map (fun p => monthToId p.2 + 1)))

theorem periodResolution_spec {t : List Cell} {r : Int} (h : Triangle.periodResolution t = .ok (some r)) :
    (∀ g ∈ periodBoundaryGaps t, r ∣ g) ∧ ∀ d : Int, (∀ g ∈ periodBoundaryGaps t, d ∣ g) → d ∣ r := by
  unfold Triangle.periodResolution at h
  split at h
  · cases h
  · simp only [] at h
    split at h
    · cases h
    · cases hg : multiGcd (periodBoundaryGaps t) with
      | error e => simp [periodBoundaryGaps] at hg; simp [hg, Except.map] at h
      | ok v =>
        have hg' := hg
        simp only [periodBoundaryGaps] at hg'
        simp only [hg', Except.map, Except.ok.injEq, Option.some.injEq] at h
        subst h
        exact ⟨resolution_dvd_all hg, resolution_greatest hg⟩

/-! ### 5. experience gaps -/

/-- **`experience_gaps` lists, for every two consecutive periods that are not contiguous, the day
range from the day after the first ends to the day before the second starts** -/
theorem experienceGaps_spec (t : List Cell) (g : Period) :
    g ∈ Triangle.experienceGaps t ↔
      ∃ pq ∈ adjacentPairs (Triangle.periods t), pq.2.1 ≠ pq.1.2.succ ∧ g = (pq.1.2.succ, pq.2.1.pred) := by
  unfold Triangle.experienceGaps
  rw [List.mem_filterMap]
  constructor
  · rintro ⟨pq, hpq, h⟩
    refine ⟨pq, hpq, ?_⟩
    obtain ⟨cur, nxt⟩ := pq
    simp only [] at h
    split at h
    · rename_i hne
      cases h
      exact ⟨by simpa using hne, rfl⟩
    · cases h
  · rintro ⟨pq, hpq, hne, rfl⟩
    refine ⟨pq, hpq, ?_⟩
    obtain ⟨cur, nxt⟩ := pq
    simp only [] at hne ⊢
    simp [hne]

/-! ### 6. is_disjoint: the adjacent test is complete -/

/-- **`is_disjoint` (an adjacent-pairs test on the sorted periods) holds iff no two different
periods of the triangle overlap** — for cells whose periods are proper intervals
(`period_start ≤ period_end`, enforced by the cell constructor) -/
theorem isDisjoint_iff_pairwise_nonoverlap (t : List Cell) (hv : ∀ c ∈ t, c.ps ≤ c.pe) :
    Triangle.isDisjoint t = true ↔
      ∀ a ∈ t, ∀ b ∈ t, a.period = b.period ∨ overlap a.period b.period = false := by
  obtain ⟨hlt, hmem⟩ := periods_eq_sortedDedup t
  have hvp : ∀ p ∈ Triangle.periods t, p.1 ≤ p.2 := by
    intro p hp
    obtain ⟨c, hc, rfl⟩ := (hmem p).mp hp
    exact hv c hc
  have hadj := adjacent_apart_iff_pairwise (Triangle.periods t) hvp
  unfold Triangle.isDisjoint
  cases t with
  | nil => simp
  | cons c0 rest =>
    simp only [List.isEmpty_cons, Bool.false_eq_true, if_false]
    have hadj' : (adjacentPairs (Triangle.periods (c0 :: rest))).all
        (fun x => match x with | (prev, nxt) => !decide (nxt.1 ≤ prev.2)) = true ↔
        (Triangle.periods (c0 :: rest)).Pairwise (fun a b => a.2 < b.1) := hadj
    rw [hadj']
    constructor
    · intro hp a ha b hb
      by_cases hab : a.period = b.period
      · exact Or.inl hab
      · right
        have hsym : (Triangle.periods (c0 :: rest)).Pairwise (fun p q => overlap p q = false) := by
          refine hp.imp ?_
          intro p q h; exact overlap_false_of_lt h
        exact pairwise_forall_of_symm (fun x y h => by rw [overlap_comm]; exact h) hsym
          _ ((hmem _).mpr ⟨a, ha, rfl⟩) _ ((hmem _).mpr ⟨b, hb, rfl⟩) hab
    · intro h
      refine hlt.imp_of_mem ?_
      intro p q hp hq hpq
      obtain ⟨a, ha, rfl⟩ := (hmem p).mp hp
      obtain ⟨b, hb, rfl⟩ := (hmem q).mp hq
      have hne : a.period ≠ b.period := by
        intro e
        rw [e, ReflCmp.compare_self (cmp := periodCmp)] at hpq
        cases hpq
      rcases h a ha b hb with e | hov
      · exact absurd e hne
      · simp only [overlap, Bool.and_eq_false_iff, decide_eq_false_iff_not] at hov
        have hb' := hv b hb
        rw [periodCmp_lt_iff] at hpq
        simp only [Cell.period] at *
        rcases hov with hov | hov
        · exfalso; apply hov
          rw [Date.le_iff] at *; rw [Date.lt_iff_sel, Date.lt_iff_sel] at hpq
          rcases hpq with hpq | ⟨e, hpq⟩
          · omega
          · rw [e]; omega
        · exact Date.not_le.mp hov

/-- the executable independent definition agrees with the implementation's adjacent test -/
theorem isDisjoint_eq_spec (t : List Cell) (hv : ∀ c ∈ t, c.ps ≤ c.pe) :
    Triangle.isDisjoint t = disjoint t := by
  rw [Bool.eq_iff_iff, isDisjoint_iff_pairwise_nonoverlap t hv]
  simp [disjoint]

/-! ### 7. common metadata and differences -/

/-- **common metadata keeps exactly what all slices share** — the six top-level attributes:
each is kept with value `x` iff every slice's metadata has value `x` (so an attribute on which
two slices differ, or which is `None` everywhere, is `None`). The detail dictionaries follow in
`common_keeps_exactly_shared_details`; the full statement is `common_keeps_exactly_shared`. -/
theorem common_keeps_exactly_shared_attrs {t : List Cell} {c : Metadata}
    (h : Triangle.commonMetadata t = .ok c) :
    (∀ x, c.riskBasis = some x ↔ ∀ m ∈ Triangle.metadata t, m.riskBasis = some x) ∧
    (∀ x, c.country = some x ↔ ∀ m ∈ Triangle.metadata t, m.country = some x) ∧
    (∀ x, c.currency = some x ↔ ∀ m ∈ Triangle.metadata t, m.currency = some x) ∧
    (∀ x, c.reinsuranceBasis = some x ↔ ∀ m ∈ Triangle.metadata t, m.reinsuranceBasis = some x) ∧
    (∀ x, c.lossDefinition = some x ↔ ∀ m ∈ Triangle.metadata t, m.lossDefinition = some x) ∧
    (∀ x, c.limit = some x ↔ ∀ m ∈ Triangle.metadata t, m.limit = some x) :=
  ⟨common_attr_iff (·.riskBasis) (fun _ _ => rfl) h, common_attr_iff (·.country) (fun _ _ => rfl) h,
   common_attr_iff (·.currency) (fun _ _ => rfl) h, common_attr_iff (·.reinsuranceBasis) (fun _ _ => rfl) h,
   common_attr_iff (·.lossDefinition) (fun _ _ => rfl) h, common_attr_iff (·.limit) (fun _ _ => rfl) h⟩

/-- **common metadata keeps exactly what all slices share** — the detail dictionaries: an item
`(key, value)` is kept iff every slice's metadata has that item -/
theorem common_keeps_exactly_shared_details {t : List Cell} {c : Metadata}
    (h : Triangle.commonMetadata t = .ok c)
    (hk : ∀ m ∈ Triangle.metadata t, KeysDistinct m.details ∧ KeysDistinct m.lossDetails) :
    (∀ kv, kv ∈ c.details ↔ ∀ m ∈ Triangle.metadata t, kv ∈ m.details) ∧
    (∀ kv, kv ∈ c.lossDetails ↔ ∀ m ∈ Triangle.metadata t, kv ∈ m.lossDetails) := by
  obtain ⟨m, rest, hm, rfl⟩ := commonMetadata_eq_fold h
  rw [hm] at hk ⊢
  constructor
  · intro kv
    rw [foldl_common_details rest m (fun x hx => (hk x (by simp [hx])).1)]
    simp only [List.mem_cons, forall_eq_or_imp]
  · intro kv
    rw [foldl_common_lossDetails rest m (hk m (by simp)).2 (fun x hx => (hk x (by simp [hx])).2)]
    simp only [List.mem_cons, forall_eq_or_imp]


/-- **common metadata keeps exactly what all slices share**: an attribute is kept with value `x`
iff every slice has value `x`, and a `details` / `loss_details` item is kept iff every slice has
that item -/
theorem common_keeps_exactly_shared {t : List Cell} {c : Metadata}
    (h : Triangle.commonMetadata t = .ok c)
    (hk : ∀ m ∈ Triangle.metadata t, KeysDistinct m.details ∧ KeysDistinct m.lossDetails) :
    ((∀ x, c.riskBasis = some x ↔ ∀ m ∈ Triangle.metadata t, m.riskBasis = some x) ∧
     (∀ x, c.country = some x ↔ ∀ m ∈ Triangle.metadata t, m.country = some x) ∧
     (∀ x, c.currency = some x ↔ ∀ m ∈ Triangle.metadata t, m.currency = some x) ∧
     (∀ x, c.reinsuranceBasis = some x ↔ ∀ m ∈ Triangle.metadata t, m.reinsuranceBasis = some x) ∧
     (∀ x, c.lossDefinition = some x ↔ ∀ m ∈ Triangle.metadata t, m.lossDefinition = some x) ∧
     (∀ x, c.limit = some x ↔ ∀ m ∈ Triangle.metadata t, m.limit = some x)) ∧
    (∀ kv, kv ∈ c.details ↔ ∀ m ∈ Triangle.metadata t, kv ∈ m.details) ∧
    (∀ kv, kv ∈ c.lossDetails ↔ ∀ m ∈ Triangle.metadata t, kv ∈ m.lossDetails) :=
  ⟨common_keeps_exactly_shared_attrs h, common_keeps_exactly_shared_details h hk⟩

/-- **common metadata recombines with each entry of `metadata_differences` into that slice's
metadata** — the six top-level attributes (the detail dicts: `recombine_diff_details`; the full
statement: `recombine_diff`). -/
theorem recombine_diff_attrs {t : List Cell} {c : Metadata} (h : Triangle.commonMetadata t = .ok c)
    {m : Metadata} (hm : m ∈ Triangle.metadata t) :
    let r := recombine c (metadataDiff c m)
    r.riskBasis = m.riskBasis ∧ r.country = m.country ∧ r.currency = m.currency ∧
    r.reinsuranceBasis = m.reinsuranceBasis ∧ r.lossDefinition = m.lossDefinition ∧ r.limit = m.limit :=
  ⟨recombine_attr (·.riskBasis) (fun _ _ => rfl) h hm, recombine_attr (·.country) (fun _ _ => rfl) h hm,
   recombine_attr (·.currency) (fun _ _ => rfl) h hm, recombine_attr (·.reinsuranceBasis) (fun _ _ => rfl) h hm,
   recombine_attr (·.lossDefinition) (fun _ _ => rfl) h hm, recombine_attr (·.limit) (fun _ _ => rfl) h hm⟩

/-- **the detail dictionaries recombine**: the items of the common metadata together with the
items of a slice's difference are exactly the items of that slice's metadata, and the two parts
share no key -/
theorem recombine_diff_details {t : List Cell} {c : Metadata} (h : Triangle.commonMetadata t = .ok c)
    (hk : ∀ m ∈ Triangle.metadata t, KeysDistinct m.details ∧ KeysDistinct m.lossDetails)
    {m : Metadata} (hm : m ∈ Triangle.metadata t) :
    (∀ kv, kv ∈ c.details ++ (metadataDiff c m).details ↔ kv ∈ m.details) ∧
    (∀ kv, kv ∈ c.lossDetails ++ (metadataDiff c m).lossDetails ↔ kv ∈ m.lossDetails) ∧
    (∀ kv ∈ (metadataDiff c m).details, c.details.contains kv.1 = false) ∧
    (∀ kv ∈ (metadataDiff c m).lossDetails, c.lossDetails.contains kv.1 = false) := by
  obtain ⟨hd, hl⟩ := common_keeps_exactly_shared_details h hk
  have key : ∀ (cd md : Dict MVal), KeysDistinct md → (∀ kv, kv ∈ cd → kv ∈ md) →
      ∀ kv, kv ∈ cd ++ md.filter (fun kv => !cd.contains kv.1) ↔ kv ∈ md := by
    intro cd md hmd hsub kv
    rw [List.mem_append, List.mem_filter]
    constructor
    · rintro (h | h)
      · exact hsub kv h
      · exact h.1
    · intro hkv
      cases hc : cd.contains kv.1 with
      | false => exact Or.inr ⟨hkv, by simp⟩
      | true =>
        obtain ⟨v, hv⟩ := contains_iff.mp hc
        have : v = kv.2 := keysDistinct_unique hmd (hsub _ hv) hkv
        subst this
        exact Or.inl hv
  refine ⟨key c.details m.details (hk m hm).1 (fun kv h => (hd kv).mp h m hm),
    key c.lossDetails m.lossDetails (hk m hm).2 (fun kv h => (hl kv).mp h m hm), ?_, ?_⟩
  · intro kv hkv
    have := (List.mem_filter.mp hkv).2
    simpa using this
  · intro kv hkv
    have := (List.mem_filter.mp hkv).2
    simpa using this

/-- **common metadata recombines with each entry of `metadata_differences` into that slice's
metadata** (canonical metadata: detail dicts key-sorted, as the wire form and `Metadata.__eq__`
see them) -/
theorem recombine_diff {t : List Cell} {c : Metadata} (h : Triangle.commonMetadata t = .ok c)
    (hc : ∀ m ∈ Triangle.metadata t, m.Canon) {m : Metadata} (hm : m ∈ Triangle.metadata t) :
    recombine c (metadataDiff c m) = m := by
  have hk : ∀ m ∈ Triangle.metadata t, KeysDistinct m.details ∧ KeysDistinct m.lossDetails :=
    fun m hm => ⟨keysDistinct_of_canon (hc m hm).1, keysDistinct_of_canon (hc m hm).2⟩
  obtain ⟨a1, a2, a3, a4, a5, a6⟩ := recombine_diff_attrs h hm
  obtain ⟨d1, d2, d3, d4⟩ := recombine_diff_details h hk hm
  have hcd : KeysDistinct c.details ∧ KeysDistinct c.lossDetails := by
    obtain ⟨m0, rest, hm0, rfl⟩ := commonMetadata_eq_fold h
    refine foldl_common_keysDistinct rest m0 (hk m0 (by rw [hm0]; simp)) ?_
    intro x hx; exact (hk x (by rw [hm0]; simp [hx])).2
  refine metadata_ext_fields a1 a2 a3 a4 a5 a6 ?_ ?_
  · show sortItems (c.details ++ (metadataDiff c m).details) = m.details
    refine sortItems_recombine hcd.1 ?_ d3 (hc m hm).1 d1
    show (m.details.filter _).Nodup
    exact (keysDistinct_nodup (hk m hm).1).sublist List.filter_sublist
  · show sortItems (c.lossDetails ++ (metadataDiff c m).lossDetails) = m.lossDetails
    refine sortItems_recombine hcd.2 ?_ d4 (hc m hm).2 d2
    show (m.lossDetails.filter _).Nodup
    exact (keysDistinct_nodup (hk m hm).2).sublist List.filter_sublist


/-- `metadata_differences` has one entry per slice, in `metadata` order -/
theorem metadataDifferences_length {t : List Cell} {ds : List Metadata}
    (h : Triangle.metadataDifferences t = .ok ds) : ds.length = (Triangle.metadata t).length := by
  unfold Triangle.metadataDifferences at h
  split at h
  · rename_i hm; cases h; simp [hm]
  · cases hc : Triangle.commonMetadata t with
    | error e => simp [hc, bind, Except.bind] at h
    | ok c => simp [hc, bind, Except.bind, pure, Except.pure] at h; subst h; simp

/-! ### evaluation_date -/

/-- **`evaluation_date`** is refused (`TriangleEmptyError`) on the empty triangle and otherwise
is the latest evaluation date present in the cells -/
theorem evaluationDate_spec (t : List Cell) :
    (t = [] → Triangle.evaluationDate t = .error .triangleError) ∧
    (t ≠ [] → ∃ d, Triangle.evaluationDate t = .ok d ∧ (∃ c ∈ t, c.ev = d) ∧ ∀ c ∈ t, c.ev ≤ d) := by
  constructor
  · rintro rfl; rfl
  · intro ht
    obtain ⟨_, hmem⟩ := evaluationDates_eq_sortedDedup t
    have hne : Triangle.evaluationDates t ≠ [] := by
      cases t with
      | nil => exact absurd rfl ht
      | cons c0 rest => exact List.ne_nil_of_mem ((hmem c0.ev).mpr ⟨c0, by simp, rfl⟩)
    obtain ⟨d, h1, h2, h3⟩ := maxDate_spec hne
    refine ⟨d, ?_, (hmem d).mp h2, fun c hc => h3 _ ((hmem c.ev).mpr ⟨c, hc, rfl⟩)⟩
    unfold Triangle.evaluationDate
    have : t.isEmpty = false := by cases t <;> simp_all
    simp [this, h1]

/-! ### num_samples -/

/-- all cell values of the triangle, in iteration order -/
def allValues (t : List Cell) : List Val := t.flatMap fun c => c.values.map (·.2)

/-- **`num_samples`**: when every sample array (size > 1) in the triangle has the same size `k`,
the answer is `k` if there is such an array and 1 otherwise; when two sample arrays differ in
size it is refused with `ValueError` -/
theorem numSamples_spec (t : List Cell) :
    (∀ k, (∀ v ∈ allValues t, ∀ n, v.sampleSize = some n → n = k) →
      Triangle.numSamples t =
        .ok (if (allValues t).any (fun v => v.sampleSize.isSome) then k else 1)) ∧
    ((∃ v ∈ allValues t, ∃ w ∈ allValues t, ∃ n n',
        v.sampleSize = some n ∧ w.sampleSize = some n' ∧ n ≠ n') →
      Triangle.numSamples t = .error .valueError) := by
  constructor
  · intro k hk
    have := numSamples_fold_none (allValues t) k hk
    show (do let r ← (allValues t).foldlM numSamplesStep none; pure (r.getD 1)) = _
    rw [this]
    cases (allValues t).any (fun v => v.sampleSize.isSome) <;> rfl
  · intro h
    have := numSamples_fold_none_error (allValues t) h
    show (do let r ← (allValues t).foldlM numSamplesStep none; pure (r.getD 1)) = _
    rw [this]
    rfl


/-! ### the taxonomy agrees with the independent definitions -/

/-- **`is_semi_regular` ⇔ disjoint and all periods of equal length** (the independent,
pairwise-over-cells definition `Spec.C13.semiRegular`) -/
theorem isSemiRegular_iff_equal_lengths (t : List Cell) (u : LagUnit) (hv : ∀ c ∈ t, c.ps ≤ c.pe) :
    Triangle.isSemiRegular t (some u) = .ok (semiRegular t u) := by
  unfold Triangle.isSemiRegular semiRegular
  rw [isDisjoint_eq_spec t hv]
  cases hd : disjoint t with
  | false => simp
  | true =>
    simp only [Bool.not_true, Bool.false_eq_true, if_false, Bool.true_and]
    cases t with
    | nil => simp [equalLengths]
    | cons c0 rest =>
      simp only [List.isEmpty_cons, Bool.false_eq_true, if_false]
      obtain ⟨_, hmem⟩ := periods_eq_sortedDedup (c0 :: rest)
      cases hp : Triangle.periods (c0 :: rest) with
      | nil =>
        have : c0.period ∈ Triangle.periods (c0 :: rest) := (hmem _).mpr ⟨c0, by simp, rfl⟩
        rw [hp] at this; simp at this
      | cons base ps =>
        simp only []
        congr 1
        rw [Bool.eq_iff_iff]
        simp only [List.all_eq_true, equalLengths, beq_iff_eq, duration_eq_iff]
        constructor
        · intro h a ha b hb
          have key : ∀ c ∈ c0 :: rest, periodLength u c.period = periodLength u base := by
            intro c hc
            have : c.period ∈ base :: ps := hp ▸ (hmem _).mpr ⟨c, hc, rfl⟩
            rcases List.mem_cons.mp this with e | e
            · rw [e]
            · exact h _ e
          rw [key a ha, key b hb]
        · intro h p hpm
          obtain ⟨a, ha, rfl⟩ := (hmem p).mp (hp ▸ List.mem_cons_of_mem _ hpm)
          obtain ⟨b, hb, hbe⟩ := (hmem base).mp (hp ▸ List.mem_cons_self)
          rw [← hbe]; exact h a ha b hb

theorem constSpacing_iff (t : List Cell) (u : LagUnit) :
    constSpacing t u = true ↔ SpacedC13 (· ∈ t.map (·.devLag u)) := by
  simp only [constSpacing, List.all_eq_true]
  constructor
  · intro h x y z hx hy hz hxy hyz n1 n2
    have := h x (List.mem_eraseDups.mpr hx) y (List.mem_eraseDups.mpr hy) z (List.mem_eraseDups.mpr hz)
    have hA : (decide (x < y) && decide (y < z) &&
        ((t.map (·.devLag u)).eraseDups.all fun w => !(decide (x < w) && decide (w < y))) &&
        ((t.map (·.devLag u)).eraseDups.all fun w => !(decide (y < w) && decide (w < z)))) = true := by
      simp only [Bool.and_eq_true, decide_eq_true_eq, noneBetween_iff]
      exact ⟨⟨⟨hxy, hyz⟩, fun w hw => n1 w (List.mem_eraseDups.mp hw)⟩,
        fun w hw => n2 w (List.mem_eraseDups.mp hw)⟩
    rw [hA] at this
    simpa using this
  · intro h x hx y hy z hz
    cases hA : (decide (x < y) && decide (y < z) &&
        ((t.map (·.devLag u)).eraseDups.all fun w => !(decide (x < w) && decide (w < y))) &&
        ((t.map (·.devLag u)).eraseDups.all fun w => !(decide (y < w) && decide (w < z)))) with
    | false => simp
    | true =>
      simp only [Bool.and_eq_true, decide_eq_true_eq, noneBetween_iff] at hA
      obtain ⟨⟨⟨hxy, hyz⟩, n1⟩, n2⟩ := hA
      have := h x y z (List.mem_eraseDups.mp hx) (List.mem_eraseDups.mp hy) (List.mem_eraseDups.mp hz)
        hxy hyz (fun w hw => n1 w (List.mem_eraseDups.mpr hw)) (fun w hw => n2 w (List.mem_eraseDups.mpr hw))
      simp [this]

/-- **`is_regular` ⇔ semi-regular and constant lag spacing** (the independent definition
`Spec.C13.regular`: neighbouring development lags are equally far apart) -/
theorem isRegular_iff_const_spacing (t : List Cell) (u : LagUnit) (hv : ∀ c ∈ t, c.ps ≤ c.pe) :
    Triangle.isRegular t (some u) = .ok (regular t u) := by
  unfold Triangle.isRegular regular
  rw [isSemiRegular_iff_equal_lengths t u hv]
  simp only [bind, Except.bind, pure, Except.pure]
  cases hsr : semiRegular t u with
  | false => simp
  | true =>
    simp only [Bool.not_true, Bool.false_eq_true, if_false, Bool.true_and]
    cases t with
    | nil => simp [constSpacing]
    | cons c0 rest =>
      simp only [List.isEmpty_cons, Bool.false_eq_true, if_false]
      obtain ⟨L, hL, hsorted, hmem⟩ := devLags_eq_sortedDedup (c0 :: rest) u
      have hsorted' : L.Pairwise (· < ·) := hsorted.imp (fun {a b} h => (ratCmp_lt_iff a b).mp h)
      have hS : SpacedC13 (· ∈ L) ↔ constSpacing (c0 :: rest) u = true := by
        rw [constSpacing_iff]
        apply spaced_congr
        intro x; rw [hmem, List.mem_map]
      rw [hL]
      cases L with
      | nil =>
        have : c0.devLag u ∈ ([] : List Rat) := (hmem _).mpr ⟨c0, by simp, rfl⟩
        simp at this
      | cons a L =>
        cases L with
        | nil =>
          simp only []
          congr 1
          symm
          apply hS.mp
          intro x y z hx hy hz hxy hyz _ _
          simp only [List.mem_cons, List.not_mem_nil, or_false] at hx hy
          grind
        | cons b r =>
          simp only []
          congr 1
          rw [Bool.eq_iff_iff, ← hS, spaced_iff_constDiff a b r hsorted', ← zip_all_iff_constDiff]


/-! ### 8. non-vacuity -/

/-- `common_metadata` is defined on every non-empty triangle, so the hypotheses
`Triangle.commonMetadata t = .ok c` above are satisfiable -/
theorem commonMetadata_ok_of_ne_nil {t : List Cell} (ht : t ≠ []) :
    ∃ c, Triangle.commonMetadata t = .ok c := by
  obtain ⟨_, _, hcov⟩ := metasOf_spec t
  have hperm : (Triangle.metadata t).Perm (metasOf t) := List.mergeSort_perm _ _
  cases t with
  | nil => exact absurd rfl ht
  | cons c0 rest =>
    have hmem : c0.md ∈ Triangle.metadata (c0 :: rest) := hperm.mem_iff.mpr (hcov c0 (by simp))
    unfold Triangle.commonMetadata
    split
    · rename_i h; rw [h] at hmem; simp at hmem
    · exact ⟨_, rfl⟩
    · exact ⟨_, rfl⟩

def exT : List Cell :=
  [ { ps := ⟨2020, 1, 1⟩, pe := ⟨2020, 12, 31⟩, ev := ⟨2020, 12, 31⟩, values := [("paid_loss", .int 1)] },
    { ps := ⟨2020, 1, 1⟩, pe := ⟨2020, 12, 31⟩, ev := ⟨2021, 12, 31⟩, values := [("paid_loss", .int 2)],
      md := { country := some "US" } },
    { ps := ⟨2021, 1, 1⟩, pe := ⟨2021, 12, 31⟩, ev := ⟨2021, 12, 31⟩, values := [("paid_loss", .int 3)] } ]

/-- the hypotheses hold for a concrete 2-slice triangle: proper periods (so the adjacent
disjointness test is complete on it) and a defined common metadata -/
example : (∀ c ∈ exT, c.ps ≤ c.pe) ∧ (∀ c ∈ exT, c.md.Canon) ∧ ∃ c, Triangle.commonMetadata exT = .ok c :=
  ⟨by decide, by decide, commonMetadata_ok_of_ne_nil (by decide)⟩

/-! ### is_slicewise_disjoint, slice_period_rows (triangle.py:347-352, 446-452) -/

/-- **`is_slicewise_disjoint` is "no two different periods of ONE slice share a day"**, computed pairwise
over the cells (no slices, no sorting, no adjacent-pair trick) -/
theorem isSlicewiseDisjoint_eq_spec (t : List Cell) (hv : ∀ c ∈ t, c.ps ≤ c.pe) :
    Triangle.isSlicewiseDisjoint t = slicewiseDisjoint t := by
  rw [Bool.eq_iff_iff]
  unfold Triangle.isSlicewiseDisjoint slicewiseDisjoint
  simp only [List.all_eq_true]
  constructor
  · intro h a ha b hb
    by_cases hm : a.md = b.md
    · obtain ⟨s, hs, hs1⟩ := AccessorsExtL.slice_of_mem ha
      have hd := h s hs
      rw [isDisjoint_eq_spec s.2 (fun c hc => hv c ((AccessorsExtL.mem_slice_iff hs c).mp hc).1)] at hd
      unfold disjoint at hd
      simp only [List.all_eq_true] at hd
      have := hd a ((AccessorsExtL.mem_slice_iff hs a).mpr ⟨ha, hs1.symm⟩) b ((AccessorsExtL.mem_slice_iff hs b).mpr ⟨hb, by rw [hs1, hm]⟩)
      simp only [Bool.or_eq_true] at this ⊢
      rcases this with h1 | h1
      · exact Or.inl (Or.inr h1)
      · exact Or.inr h1
    · simp [hm]
  · intro h s hs
    rw [isDisjoint_eq_spec s.2 (fun c hc => hv c ((AccessorsExtL.mem_slice_iff hs c).mp hc).1)]
    unfold disjoint
    simp only [List.all_eq_true]
    intro a ha b hb
    obtain ⟨ha1, ha2⟩ := (AccessorsExtL.mem_slice_iff hs a).mp ha
    obtain ⟨hb1, hb2⟩ := (AccessorsExtL.mem_slice_iff hs b).mp hb
    have := h a ha1 b hb1
    simp only [Bool.or_eq_true] at this ⊢
    rcases this with (h1 | h1) | h1
    · simp [ha2, hb2] at h1
    · exact Or.inl h1
    · exact Or.inr h1

/-- Spec bridge: the model satisfies the predicate the driver evaluates on the implementation's answer -/
theorem spec_isSlicewiseDisjoint (t : List Cell) (hv : ∀ c ∈ t, c.ps ≤ c.pe) :
    slicewiseDisjointSpec t (Triangle.isSlicewiseDisjoint t) = true := by
  unfold slicewiseDisjointSpec
  rw [isSlicewiseDisjoint_eq_spec t hv]; exact beq_self_eq_true _

/-- nesting: a disjoint triangle is slicewise disjoint -/
theorem isSlicewiseDisjoint_of_isDisjoint (t : List Cell) (hv : ∀ c ∈ t, c.ps ≤ c.pe)
    (h : Triangle.isDisjoint t = true) : Triangle.isSlicewiseDisjoint t = true := by
  rw [isSlicewiseDisjoint_eq_spec t hv]
  rw [isDisjoint_eq_spec t hv] at h
  unfold disjoint at h
  unfold slicewiseDisjoint
  simp only [List.all_eq_true] at h ⊢
  intro a ha b hb
  have := h a ha b hb
  simp only [Bool.or_eq_true] at this ⊢
  rcases this with h1 | h1
  · exact Or.inl (Or.inr h1)
  · exact Or.inr h1

/-- **`slice_period_rows` partitions the cells by (metadata, period)**: keys pairwise different and ascending
by (metadata, period), no empty row, every cell in the row of its own key, every row ascending by evaluation
date, all rows together a permutation of the cells (Spec `rowsSpec`, evaluated by the driver on the
implementation's rows) -/
theorem slicePeriodRows_spec (t : List Cell) : rowsSpec t (Triangle.slicePeriodRows t) = true :=
  AccessorsExtL.rowsSpec_slicePeriodRows t

/-- the keys of `slice_period_rows` are exactly the (metadata, period) pairs present in the cells -/
theorem slicePeriodRows_keys (t : List Cell) (k : SliceRowKey) :
    k ∈ (Triangle.slicePeriodRows t).map (·.1) ↔ ∃ c ∈ t, c.rowKey = k := by
  rw [AccessorsExtL.rows_keys, ((List.mergeSort_perm _ _).map _).mem_iff, JoinL.groupBy_keys,
    JoinL.mem_firstKeys]

/-- non-vacuity: two slices whose periods overlap ACROSS slices only -- slicewise disjoint, not disjoint -/
example :
    let a : Cell := { ps := ⟨2020, 1, 1⟩, pe := ⟨2020, 6, 30⟩, ev := ⟨2020, 6, 30⟩ }
    let b : Cell := { ps := ⟨2020, 4, 1⟩, pe := ⟨2020, 9, 30⟩, ev := ⟨2020, 9, 30⟩,
                      md := { country := some "US" } }
    slicewiseDisjoint [a, b] = true ∧ disjoint [a, b] = false ∧
      slicewiseDisjoint [a, { b with md := {} }] = false := by decide +kernel

/-! ### 9. resolutions: gaps stated from the cells, sign, definedness, "largest" -/

/-- **the gaps between period boundaries, from the CELLS**: month id of every cell's period start and month id
after every cell's period end, distinct values ascending, consecutive differences (`Spec.C13.gapsOf … true` of
`Spec.C13.periodBoundaries` — the expression the driver evaluates on the implementation's answer) -/
def periodMonthGaps (t : List Cell) : List Int := gapsOf (periodBoundaries t) true

/-- **the gaps between evaluation months, from the CELLS**: one month id per DISTINCT evaluation date (not per
distinct month), ascending, consecutive differences — two evaluation dates inside one month give a gap of 0 -/
def evalMonthGaps (t : List Cell) : List Int := gapsOf ((t.map (·.ev)).eraseDups.map monthToId) false

/-- the model's expression (sorted set over `periods`) is the cell-level one -/
theorem periodBoundaryGaps_eq_cells (t : List Cell) : periodBoundaryGaps t = periodMonthGaps t := by
  unfold periodBoundaryGaps periodMonthGaps gapsOf sortedDedup
  simp only [if_true]
  rw [diffs_eq_zip, ← leInt_eq]
  have hp : (dedup ((Triangle.periods t).map (fun p => monthToId p.1) ++
      (Triangle.periods t).map (fun p => monthToId p.2 + 1))).Perm (periodBoundaries t).eraseDups := by
    apply perm_of_nodup_mem (nodup_dedup _) (nodup_eraseDups _)
    intro x
    obtain ⟨_, hmem⟩ := periods_eq_sortedDedup t
    rw [mem_dedup, List.mem_eraseDups]
    simp only [periodBoundaries, List.mem_append, List.mem_map]
    constructor
    · rintro (⟨p, hp, rfl⟩ | ⟨p, hp, rfl⟩)
      · obtain ⟨c, hc, rfl⟩ := (hmem p).mp hp; exact Or.inl ⟨c, hc, rfl⟩
      · obtain ⟨c, hc, rfl⟩ := (hmem p).mp hp; exact Or.inr ⟨c, hc, rfl⟩
    · rintro (⟨c, hc, rfl⟩ | ⟨c, hc, rfl⟩)
      · exact Or.inl ⟨c.period, (hmem _).mpr ⟨c, hc, rfl⟩, rfl⟩
      · exact Or.inr ⟨c.period, (hmem _).mpr ⟨c, hc, rfl⟩, rfl⟩
  rw [mergeSort_int_perm hp]

/-- what `period_resolution` computes, case by case -/
theorem periodResolution_eq (t : List Cell) :
    Triangle.periodResolution t =
      if t = [] then .error .valueError
      else if (periodMonthGaps t).isEmpty then .ok none else (multiGcd (periodMonthGaps t)).map some := by
  rw [← periodBoundaryGaps_eq_cells]
  unfold Triangle.periodResolution
  obtain ⟨_, hmem⟩ := periods_eq_sortedDedup t
  cases t with
  | nil => simp [Triangle.periods, sortedDedup, dedup]
  | cons c0 rest =>
    rw [if_neg (List.cons_ne_nil _ _)]
    split
    · rename_i hp
      have : c0.period ∈ Triangle.periods (c0 :: rest) := (hmem _).mpr ⟨c0, by simp, rfl⟩
      rw [hp] at this; simp at this
    · rfl

private theorem periodMonthGaps_pos (t : List Cell) : ∀ g ∈ periodMonthGaps t, 0 < g := by
  rw [← periodBoundaryGaps_eq_cells]
  unfold periodBoundaryGaps
  apply diffs_pos
  obtain ⟨h, _⟩ := sortedDedup_spec (cmp := intCmp) (fun a b h => by simpa [intCmp] using h)
    ((Triangle.periods t).map (fun p => monthToId p.1) ++ (Triangle.periods t).map (fun p => monthToId p.2 + 1))
  refine h.imp ?_
  intro a b hab
  simpa [intCmp, Int.compare_eq_lt] using hab

/-- **`period_resolution` divides every gap between period boundaries (gaps from the cells), is positive, and is
the LARGEST such month count** -/
theorem periodResolution_largest {t : List Cell} {r : Int} (h : Triangle.periodResolution t = .ok (some r)) :
    0 < r ∧ (∀ g ∈ periodMonthGaps t, r ∣ g) ∧
    (∀ d : Int, (∀ g ∈ periodMonthGaps t, d ∣ g) → d ∣ r) ∧
    ∀ d : Int, (∀ g ∈ periodMonthGaps t, d ∣ g) → d ≤ r := by
  obtain ⟨h1, h2⟩ := periodResolution_spec h
  rw [periodBoundaryGaps_eq_cells] at h1 h2
  rw [periodResolution_eq] at h
  split at h
  · cases h
  · split at h
    · cases h
    · rename_i hne
      cases hg : multiGcd (periodMonthGaps t) with
      | error e => simp [hg, Except.map] at h
      | ok v =>
        simp only [hg, Except.map, Except.ok.injEq, Option.some.injEq] at h
        subst h
        have h0 : 0 ≤ v := multiGcd_nonneg (fun x hx => Int.le_of_lt (periodMonthGaps_pos t x hx)) hg
        have hpos : 0 < v := by
          cases hl : periodMonthGaps t with
          | nil => rw [hl] at hne; simp at hne
          | cons g gs =>
            have hg0 := periodMonthGaps_pos t g (by rw [hl]; simp)
            have hd := h1 g (by rw [hl]; simp)
            rcases Int.lt_or_eq_of_le h0 with h' | h'
            · exact h'
            · rw [← h'] at hd
              have := Int.zero_dvd.mp hd
              omega
        exact ⟨hpos, h1, h2, fun d hd => Int.le_of_dvd hpos (h2 d hd)⟩

/-- **`period_resolution` is defined exactly when two period boundaries differ** (`None` when all boundaries
coincide, which needs `period_start` in the month after `period_end`; `ValueError` on the empty triangle) -/
theorem periodResolution_defined_iff {t : List Cell} (ht : t ≠ []) :
    (∃ r, Triangle.periodResolution t = .ok (some r)) ↔
      ∃ a ∈ periodBoundaries t, ∃ b ∈ periodBoundaries t, a ≠ b := by
  rw [periodResolution_eq, if_neg ht]
  have hL : ∀ x, x ∈ ((periodBoundaries t).eraseDups.mergeSort fun a b => decide (a ≤ b)) ↔ x ∈ periodBoundaries t := by
    intro x; rw [(List.mergeSort_perm _ _).mem_iff, List.mem_eraseDups]
  have hnd : ((periodBoundaries t).eraseDups.mergeSort fun a b => decide (a ≤ b)).Nodup :=
    (List.mergeSort_perm _ _).nodup_iff.mpr (nodup_eraseDups _)
  have hlen : (periodMonthGaps t).length =
      ((periodBoundaries t).eraseDups.mergeSort fun a b => decide (a ≤ b)).length - 1 := by
    unfold periodMonthGaps gapsOf
    simp only [if_true]
    exact diffs_length _
  constructor
  · rintro ⟨r, h⟩
    split at h
    · cases h
    · rename_i hne
      have : 2 ≤ ((periodBoundaries t).eraseDups.mergeSort fun a b => decide (a ≤ b)).length := by
        cases hl : periodMonthGaps t with
        | nil => rw [hl] at hne; simp at hne
        | cons g gs => rw [hl] at hlen; simp only [List.length_cons] at hlen; omega
      revert hL hnd this
      generalize ((periodBoundaries t).eraseDups.mergeSort fun a b => decide (a ≤ b)) = L
      intro hL hnd h2
      match L, h2 with
      | a :: b :: r, _ =>
        have := (List.nodup_cons.mp hnd).1
        exact ⟨a, (hL a).mp (by simp), b, (hL b).mp (by simp), fun e => this (by simp [e])⟩
  · rintro ⟨a, ha, b, hb, hab⟩
    have h2 : 2 ≤ ((periodBoundaries t).eraseDups.mergeSort fun a b => decide (a ≤ b)).length := by
      have ha' := (hL a).mpr ha
      have hb' := (hL b).mpr hb
      revert ha' hb'
      generalize ((periodBoundaries t).eraseDups.mergeSort fun a b => decide (a ≤ b)) = L
      intro ha' hb'
      match L, ha', hb' with
      | [x], ha', hb' => simp at ha' hb'; exact absurd (ha'.trans hb'.symm) hab
      | _ :: _ :: _, _, _ => simp
    have hne : (periodMonthGaps t) ≠ [] := by
      intro e; rw [e] at hlen; simp only [List.length_nil] at hlen; omega
    obtain ⟨r, hr⟩ := multiGcd_ok hne
    refine ⟨r, ?_⟩
    have : (periodMonthGaps t).isEmpty = false := by
      cases hl : periodMonthGaps t with
      | nil => exact absurd hl hne
      | cons _ _ => rfl
    simp [this, hr, Except.map]

/-- **`period_resolution` is defined (a positive month count) on every non-empty triangle of proper cells**
(valid dates, `period_start ≤ period_end` for at least one cell) -/
theorem periodResolution_defined {t : List Cell} {c : Cell} (hc : c ∈ t)
    (hv : c.ps.valid = true ∧ c.pe.valid = true ∧ c.ps ≤ c.pe) :
    ∃ r, Triangle.periodResolution t = .ok (some r) ∧ 0 < r := by
  have ht : t ≠ [] := List.ne_nil_of_mem hc
  obtain ⟨r, hr⟩ := (periodResolution_defined_iff ht).mpr
    ⟨monthToId c.ps, by simp only [periodBoundaries, List.mem_append, List.mem_map]; exact Or.inl ⟨c, hc, rfl⟩,
     monthToId c.pe + 1, by simp only [periodBoundaries, List.mem_append, List.mem_map]; exact Or.inr ⟨c, hc, rfl⟩,
     by have := monthToId_mono' hv.1 hv.2.1 hv.2.2; omega⟩
  exact ⟨r, hr, (periodResolution_largest hr).1⟩

/-- the model's expression (month ids of `evaluation_dates`, sorted, NOT deduplicated) is the cell-level one -/
theorem evalDiffs_eq_cells (t : List Cell) :
    diffs (((Triangle.evaluationDates t).map monthToId).mergeSort (fun a b => intCmp a b != .gt)) =
      evalMonthGaps t := by
  unfold evalMonthGaps gapsOf
  simp only [Bool.false_eq_true, if_false]
  rw [diffs_eq_zip, ← leInt_eq]
  obtain ⟨hlt, hmem⟩ := evaluationDates_eq_sortedDedup t
  have hnd : (Triangle.evaluationDates t).Nodup := by
    refine hlt.imp ?_
    intro a b h e
    rw [e, Date.lt_iff_sel] at h; omega
  have hp : (Triangle.evaluationDates t).Perm (t.map (·.ev)).eraseDups := by
    apply perm_of_nodup_mem hnd (nodup_eraseDups _)
    intro d
    rw [hmem, List.mem_eraseDups, List.mem_map]
  rw [mergeSort_int_perm (hp.map monthToId)]

/-- what `eval_date_resolution` computes, case by case: it never raises -/
theorem evalDateResolution_eq (t : List Cell) :
    Triangle.evalDateResolution t =
      if (evalMonthGaps t).isEmpty then .ok none else (multiGcd (evalMonthGaps t)).map some := by
  rw [← evalDiffs_eq_cells]; rfl

private theorem evalMonthGaps_nonneg (t : List Cell) : ∀ g ∈ evalMonthGaps t, 0 ≤ g := by
  rw [← evalDiffs_eq_cells]
  exact diffs_nonneg (sorted_int_mergeSort _)

private theorem evalMonthGaps_length (t : List Cell) :
    (evalMonthGaps t).length = (t.map (·.ev)).eraseDups.length - 1 := by
  unfold evalMonthGaps gapsOf
  simp only [Bool.false_eq_true, if_false]
  rw [← diffs_eq_zip, diffs_length, List.length_mergeSort, List.length_map]

/-- **`eval_date_resolution` divides every gap between evaluation months (gaps from the cells: one month id per
distinct evaluation DATE), is non-negative, and every common divisor of the gaps divides it** — so it is the
largest common divisor whenever some gap is non-zero, and 0 when all gaps are 0 -/
theorem evalDateResolution_spec {t : List Cell} {r : Int} (h : Triangle.evalDateResolution t = .ok (some r)) :
    0 ≤ r ∧ (∀ g ∈ evalMonthGaps t, r ∣ g) ∧ ∀ d : Int, (∀ g ∈ evalMonthGaps t, d ∣ g) → d ∣ r := by
  rw [evalDateResolution_eq] at h
  split at h
  · cases h
  · cases hg : multiGcd (evalMonthGaps t) with
    | error e => simp [hg, Except.map] at h
    | ok v =>
      simp only [hg, Except.map, Except.ok.injEq, Option.some.injEq] at h
      subst h
      exact ⟨multiGcd_nonneg (evalMonthGaps_nonneg t) hg, resolution_dvd_all hg, resolution_greatest hg⟩

/-- **`eval_date_resolution` is `None` exactly when the cells carry at most one distinct evaluation date, and a
number otherwise** (it never raises, not even on the empty triangle) -/
theorem evalDateResolution_defined (t : List Cell) :
    ((t.map (·.ev)).eraseDups.length ≤ 1 → Triangle.evalDateResolution t = .ok none) ∧
    (2 ≤ (t.map (·.ev)).eraseDups.length → ∃ r, Triangle.evalDateResolution t = .ok (some r)) := by
  have hlen := evalMonthGaps_length t
  rw [evalDateResolution_eq]
  constructor
  · intro h
    have : evalMonthGaps t = [] := List.eq_nil_of_length_eq_zero (by omega)
    simp [this]
  · intro h
    have hne : evalMonthGaps t ≠ [] := by
      intro e; rw [e] at hlen; simp only [List.length_nil] at hlen; omega
    obtain ⟨r, hr⟩ := multiGcd_ok hne
    have : (evalMonthGaps t).isEmpty = false := by
      cases hl : evalMonthGaps t with
      | nil => exact absurd hl hne
      | cons _ _ => rfl
    exact ⟨r, by simp [this, hr, Except.map]⟩

/-- **the quirk**: when all evaluation dates lie in ONE calendar month and there are at least two distinct dates,
`eval_date_resolution` is 0 — not `None` and not a "month count that divides every gap between evaluation months"
in any useful sense (the month ids are sorted but not deduplicated, `date_utils.py:161-163`) -/
theorem evalDateResolution_same_month (t : List Cell) (m : Int) (hm : ∀ c ∈ t, monthToId c.ev = m)
    (h2 : ∃ a ∈ t, ∃ b ∈ t, a.ev ≠ b.ev) : Triangle.evalDateResolution t = .ok (some 0) := by
  have hlen : 2 ≤ (t.map (·.ev)).eraseDups.length := by
    obtain ⟨a, ha, b, hb, hab⟩ := h2
    have ha' : a.ev ∈ (t.map (·.ev)).eraseDups := List.mem_eraseDups.mpr (List.mem_map.mpr ⟨a, ha, rfl⟩)
    have hb' : b.ev ∈ (t.map (·.ev)).eraseDups := List.mem_eraseDups.mpr (List.mem_map.mpr ⟨b, hb, rfl⟩)
    revert ha' hb'
    generalize (t.map (·.ev)).eraseDups = L
    intro ha' hb'
    match L, ha', hb' with
    | [x], ha', hb' => simp at ha' hb'; exact absurd (ha'.trans hb'.symm) hab
    | _ :: _ :: _, _, _ => simp
  obtain ⟨r, hr⟩ := (evalDateResolution_defined t).2 hlen
  obtain ⟨_, _, h3⟩ := evalDateResolution_spec hr
  have hz : ∀ g ∈ evalMonthGaps t, g = 0 := by
    intro g hg
    unfold evalMonthGaps gapsOf at hg
    simp only [Bool.false_eq_true, if_false] at hg
    rw [← diffs_eq_zip] at hg
    obtain ⟨a, ha, b, hb, rfl⟩ := mem_diffs hg
    have key : ∀ x ∈ ((t.map (·.ev)).eraseDups.map monthToId).mergeSort (fun a b => decide (a ≤ b)), x = m := by
      intro x hx
      rw [(List.mergeSort_perm _ _).mem_iff, List.mem_map] at hx
      obtain ⟨d, hd, rfl⟩ := hx
      obtain ⟨c, hc, rfl⟩ := List.mem_map.mp (List.mem_eraseDups.mp hd)
      exact hm c hc
    rw [key a ha, key b hb]; omega
  have : (0 : Int) ∣ r := h3 0 (fun g hg => by rw [hz g hg]; exact Int.dvd_refl 0)
  rw [Int.zero_dvd.mp this] at hr
  exact hr

/-- the quirk, on a concrete triangle: evaluations on 15 and 31 January only -/
example :
    Triangle.evalDateResolution
      [ { ps := ⟨2020, 1, 1⟩, pe := ⟨2020, 1, 31⟩, ev := ⟨2020, 1, 15⟩ },
        { ps := ⟨2020, 1, 1⟩, pe := ⟨2020, 1, 31⟩, ev := ⟨2020, 1, 31⟩ } ] = .ok (some 0) :=
  evalDateResolution_same_month _ 600 (by decide) (by decide)

/-! ### 10. Spec bridges: the model's answers satisfy the predicates the driver evaluates on the implementation -/

theorem spec_sortedDistinct_periods (t : List Cell) :
    sortedDistinct periodCmp (t.map Cell.period) (Triangle.periods t) = true := by
  obtain ⟨h1, h2⟩ := periods_eq_sortedDedup t
  exact sortedDistinct_of h1 (fun p => by rw [h2, List.mem_map])

theorem spec_sortedDistinct_evaluationDates (t : List Cell) :
    sortedDistinct Date.cmp (t.map (·.ev)) (Triangle.evaluationDates t) = true := by
  obtain ⟨h1, h2⟩ := evaluationDates_eq_sortedDedup t
  exact sortedDistinct_of h1 (fun p => by rw [h2, List.mem_map])

theorem spec_sortedDistinct_devLags (t : List Cell) (u : LagUnit) :
    ∃ l, Triangle.devLags t (some u) = .ok l ∧ sortedDistinct ratCmp (t.map (·.devLag u)) l = true := by
  obtain ⟨l, hl, h1, h2⟩ := devLags_eq_sortedDedup t u
  exact ⟨l, hl, sortedDistinct_of h1 (fun p => by rw [h2, List.mem_map])⟩

theorem spec_sortedDistinct_fields (t : List Cell) :
    sortedDistinct strCmp (t.flatMap (·.values.keys)) (Triangle.fields t) = true := by
  obtain ⟨h1, h2⟩ := fields_eq_sortedDedup t
  exact sortedDistinct_of h1 (fun p => by rw [h2, List.mem_flatMap])

theorem spec_sortedDistinct_metadata (t : List Cell) (hc : ∀ c ∈ t, c.md.Canon) :
    sortedDistinct Metadata.cmp (t.map (·.md)) (Triangle.metadata t) = true := by
  obtain ⟨h1, h2⟩ := metadata_eq_sortedDedup t hc
  exact sortedDistinct_of h1 (fun p => by rw [h2, List.mem_map])

theorem spec_countsSpec_cells (t : List Cell) :
    countsSpec (fun (c : Cell) => c.values.keys) t (t.flatMap (·.values.keys)) (Triangle.fieldCellCounts t) = true := by
  rw [fieldCellCounts_eq_countP]
  simp only [countsSpec, Bool.and_eq_true, List.map_map, List.all_map, List.all_eq_true]
  refine ⟨?_, fun f _ => by simp⟩
  have : ((fun (x : String × Nat) => x.1) ∘ fun f => (f, t.countP fun c => c.values.keys.contains f)) = id := rfl
  rw [this, List.map_id]
  exact spec_sortedDistinct_fields t

theorem spec_countsSpec_slices (t : List Cell) :
    countsSpec (fun (m : Metadata) => (t.filter (·.md == m)).flatMap (·.values.keys))
      (t.map (·.md)).eraseDups (t.flatMap (·.values.keys)) (Triangle.fieldSliceCounts t) = true := by
  rw [fieldSliceCounts_eq_countP]
  simp only [countsSpec, Bool.and_eq_true, List.map_map, List.all_map, List.all_eq_true]
  constructor
  · have : ((fun (x : String × Nat) => x.1) ∘ fun f =>
        (f, (Triangle.slices t).countP fun slc => (Triangle.fields slc.2).contains f)) = id := rfl
    rw [this, List.map_id]
    exact spec_sortedDistinct_fields t
  · intro f _
    simp only [Function.comp, beq_iff_eq]
    unfold Triangle.slices
    rw [List.countP_map]
    obtain ⟨hnd, hmem, hcov⟩ := metasOf_spec t
    have hp : (metasOf t).Perm (t.map (·.md)).eraseDups := by
      apply perm_of_nodup_mem hnd (nodup_eraseDups _)
      intro m
      rw [List.mem_eraseDups, List.mem_map]
      exact ⟨fun h => by obtain ⟨c, hc, e⟩ := hmem m h; exact ⟨c, hc, e⟩, fun ⟨c, hc, e⟩ => e ▸ hcov c hc⟩
    rw [← hp.countP_eq]
    apply List.countP_congr
    intro m _
    simp only [Function.comp, List.contains_iff_mem]
    rw [(fields_eq_sortedDedup _).2 f]
    simp only [List.mem_flatMap, (List.mergeSort_perm _ _).mem_iff]

/-- `num_samples` answer of the model in the shape the driver hands to `numSamplesSpec` (`none` = refused) -/
def numSamplesOut (t : List Cell) : Option Nat :=
  match Triangle.numSamples t with
  | .ok n => some n
  | .error _ => none

private theorem mem_sizes_iff (t : List Cell) (n : Nat) :
    n ∈ (t.flatMap fun c => c.values.filterMap (·.2.sampleSize)).eraseDups ↔
      ∃ v ∈ allValues t, v.sampleSize = some n := by
  simp only [List.mem_eraseDups, List.mem_flatMap, List.mem_filterMap, allValues, List.mem_map]
  constructor
  · rintro ⟨c, hc, kv, hkv, h⟩; exact ⟨kv.2, ⟨c, hc, kv, hkv, rfl⟩, h⟩
  · rintro ⟨v, ⟨c, hc, kv, hkv, rfl⟩, h⟩; exact ⟨c, hc, kv, hkv, h⟩

theorem spec_numSamplesSpec (t : List Cell) : numSamplesSpec t (numSamplesOut t) = true := by
  obtain ⟨hsame, hdiff⟩ := numSamples_spec t
  have hmem := mem_sizes_iff t
  have hnd := nodup_eraseDups (t.flatMap fun c => c.values.filterMap (·.2.sampleSize))
  unfold numSamplesSpec numSamplesOut
  simp only []
  revert hmem hnd
  generalize (t.flatMap fun c => c.values.filterMap (·.2.sampleSize)).eraseDups = sizes
  intro hmem hnd
  match sizes, hmem, hnd with
  | [], hmem, _ =>
    have hnone : ∀ v ∈ allValues t, ∀ n, v.sampleSize = some n → n = 1 := by
      intro v hv n hn
      have := (hmem n).mpr ⟨v, hv, hn⟩
      simp at this
    have hany : (allValues t).any (fun v => v.sampleSize.isSome) = false := by
      rw [← Bool.not_eq_true, List.any_eq_true]
      rintro ⟨v, hv, hs⟩
      obtain ⟨n, hn⟩ := Option.isSome_iff_exists.mp hs
      have := (hmem n).mpr ⟨v, hv, hn⟩
      simp at this
    rw [hsame 1 hnone, hany]; simp
  | [k], hmem, _ =>
    have hk : ∀ v ∈ allValues t, ∀ n, v.sampleSize = some n → n = k := by
      intro v hv n hn
      have := (hmem n).mpr ⟨v, hv, hn⟩
      simpa using this
    have hany : (allValues t).any (fun v => v.sampleSize.isSome) = true := by
      obtain ⟨v, hv, hn⟩ := (hmem k).mp (by simp)
      exact List.any_eq_true.mpr ⟨v, hv, by simp [hn]⟩
    rw [hsame k hk, hany]; simp
  | a :: b :: r, hmem, hnd =>
    obtain ⟨v, hv, hva⟩ := (hmem a).mp (by simp)
    obtain ⟨w, hw, hwb⟩ := (hmem b).mp (by simp)
    have hab : a ≠ b := fun e => (List.nodup_cons.mp hnd).1 (by simp [e])
    rw [hdiff ⟨v, hv, w, hw, a, b, hva, hwb, hab⟩]

theorem spec_commonSpec {t : List Cell} {c : Metadata} (h : Triangle.commonMetadata t = .ok c)
    (hk : ∀ m ∈ Triangle.metadata t, KeysDistinct m.details ∧ KeysDistinct m.lossDetails) :
    commonSpec (t.map (·.md)).eraseDups c = true := by
  obtain ⟨⟨a1, a2, a3, a4, a5, a6⟩, d1, d2⟩ := common_keeps_exactly_shared h hk
  have conv : ∀ {P : Metadata → Prop}, (∀ m ∈ Triangle.metadata t, P m) ↔ ∀ m ∈ (t.map (·.md)).eraseDups, P m :=
    fun {P} => ⟨fun h m hm => h m ((mem_metadata_iff t m).mpr hm), fun h m hm => h m ((mem_metadata_iff t m).mp hm)⟩
  simp only [commonSpec, Bool.and_eq_true]
  refine ⟨⟨⟨⟨⟨⟨⟨?_, ?_⟩, ?_⟩, ?_⟩, ?_⟩, ?_⟩, ?_⟩, ?_⟩
  · exact optAttr_of_iff (·.riskBasis) _ c (fun x => (a1 x).trans conv)
  · exact optAttr_of_iff (·.country) _ c (fun x => (a2 x).trans conv)
  · exact optAttr_of_iff (·.currency) _ c (fun x => (a3 x).trans conv)
  · exact optAttr_of_iff (·.reinsuranceBasis) _ c (fun x => (a4 x).trans conv)
  · exact optAttr_of_iff (·.lossDefinition) _ c (fun x => (a5 x).trans conv)
  · exact optAttr_of_iff (·.limit) _ c (fun x => (a6 x).trans conv)
  · exact dictShared_of_iff (·.details) _ c (fun kv => (d1 kv).trans conv)
  · exact dictShared_of_iff (·.lossDetails) _ c (fun kv => (d2 kv).trans conv)

/-- entry `i` of `metadata_differences` is `metadata_diff(common_metadata, metadata[i])` -/
theorem metadataDifferences_eq_map {t : List Cell} {c : Metadata} (h : Triangle.commonMetadata t = .ok c) :
    Triangle.metadataDifferences t = .ok ((Triangle.metadata t).map (metadataDiff c)) := by
  unfold Triangle.metadataDifferences
  split
  · rename_i hm
    unfold Triangle.commonMetadata at h
    rw [hm] at h; cases h
  · simp [h, bind, Except.bind, pure, Except.pure]

theorem metadataDifferences_getElem {t : List Cell} {c : Metadata} {ds : List Metadata}
    (h : Triangle.commonMetadata t = .ok c) (hd : Triangle.metadataDifferences t = .ok ds)
    (i : Nat) (hi : i < (Triangle.metadata t).length) :
    ds[i]'(by rw [metadataDifferences_length hd]; exact hi) = metadataDiff c (Triangle.metadata t)[i] := by
  rw [metadataDifferences_eq_map h] at hd
  cases hd
  simp

theorem spec_recombineSpec {t : List Cell} {c : Metadata} {ds : List Metadata}
    (h : Triangle.commonMetadata t = .ok c) (hd : Triangle.metadataDifferences t = .ok ds)
    (hc : ∀ m ∈ Triangle.metadata t, m.Canon) :
    recombineSpec (Triangle.metadata t) c ds = true := by
  rw [metadataDifferences_eq_map h] at hd
  cases hd
  have hk : ∀ m ∈ Triangle.metadata t, KeysDistinct m.details ∧ KeysDistinct m.lossDetails :=
    fun m hm => ⟨keysDistinct_of_canon (hc m hm).1, keysDistinct_of_canon (hc m hm).2⟩
  unfold recombineSpec
  rw [zip_map_all]
  simp only [List.length_map, beq_self_eq_true, Bool.true_and, List.all_eq_true, Bool.and_eq_true, beq_iff_eq,
    Bool.not_eq_true']
  intro m hm
  obtain ⟨_, _, d3, d4⟩ := recombine_diff_details h hk hm
  refine ⟨⟨recombine_diff h hc hm, fun kv hkv => ?_⟩, fun kv hkv => ?_⟩
  · rw [keys_contains_eq]; exact d3 kv hkv
  · rw [keys_contains_eq]; exact d4 kv hkv

theorem spec_periodResolutionSpec {t : List Cell} {r : Option Int} (h : Triangle.periodResolution t = .ok r) :
    periodResolutionSpec t r = true := by
  unfold periodResolutionSpec
  cases r with
  | some r =>
    show (!(periodMonthGaps t).isEmpty && resolutionSpec (periodMonthGaps t) r) = true
    obtain ⟨h0, h1, h2, _⟩ := periodResolution_largest h
    have hne : (periodMonthGaps t).isEmpty = false := by
      rw [periodResolution_eq] at h
      split at h
      · cases h
      · split at h
        · cases h
        · rename_i hne; simpa using hne
    simp only [hne, Bool.not_false, Bool.true_and]
    exact resolutionSpec_of (Int.le_of_lt h0) h1 h2
  | none =>
    show (periodMonthGaps t).isEmpty = true
    rw [periodResolution_eq] at h
    split at h
    · cases h
    · split at h
      · rename_i he; exact he
      · cases hg : multiGcd (periodMonthGaps t) with
        | error e => simp [hg, Except.map] at h
        | ok v => simp [hg, Except.map] at h

theorem spec_evalResolutionSpec {t : List Cell} {r : Option Int} (h : Triangle.evalDateResolution t = .ok r) :
    evalResolutionSpec t r = true := by
  unfold evalResolutionSpec
  cases r with
  | some r =>
    show (!(evalMonthGaps t).isEmpty && resolutionSpec (evalMonthGaps t) r) = true
    obtain ⟨h0, h1, h2⟩ := evalDateResolution_spec h
    have hne : (evalMonthGaps t).isEmpty = false := by
      rw [evalDateResolution_eq] at h
      split at h
      · cases h
      · rename_i hne; simpa using hne
    simp only [hne, Bool.not_false, Bool.true_and]
    exact resolutionSpec_of h0 h1 h2
  | none =>
    show (evalMonthGaps t).isEmpty = true
    rw [evalDateResolution_eq] at h
    split at h
    · rename_i he; exact he
    · cases hg : multiGcd (evalMonthGaps t) with
      | error e => simp [hg, Except.map] at h
      | ok v => simp [hg, Except.map] at h

/-! ### 11. experience_gaps: what the reported ranges mean on a disjoint triangle -/

/-- proper cells: valid dates and `period_start ≤ period_end` (the cell constructor's rule) -/
def ProperCells (t : List Cell) : Prop := ∀ c ∈ t, c.ps.valid = true ∧ c.pe.valid = true ∧ c.ps ≤ c.pe

private theorem periods_proper_apart {t : List Cell} (hv : ProperCells t) (hd : Triangle.isDisjoint t = true) :
    (∀ p ∈ Triangle.periods t, ProperP p) ∧ (Triangle.periods t).Pairwise (fun a b => a.2 < b.1) := by
  obtain ⟨_, hmem⟩ := periods_eq_sortedDedup t
  have hvp : ∀ p ∈ Triangle.periods t, ProperP p := by
    intro p hp
    obtain ⟨c, hc, rfl⟩ := (hmem p).mp hp
    exact hv c hc
  refine ⟨hvp, ?_⟩
  cases t with
  | nil => simp [Triangle.periods, sortedDedup, dedup]
  | cons c0 rest =>
    unfold Triangle.isDisjoint at hd
    simp only [List.isEmpty_cons, Bool.false_eq_true, if_false] at hd
    exact (adjacent_apart_iff_pairwise (Triangle.periods (c0 :: rest)) (fun p hp => (hvp p hp).2.2)).mp hd

/-- **on a disjoint triangle every reported gap is a non-empty day range that shares no day with any cell's
period, starts the day after some period ends and ends the day before some period starts** -/
theorem experienceGaps_sound {t : List Cell} (hv : ProperCells t) (hd : Triangle.isDisjoint t = true)
    {g : Period} (hg : g ∈ Triangle.experienceGaps t) :
    g.1 ≤ g.2 ∧ (∀ c ∈ t, overlap c.period g = false) ∧ (∃ c ∈ t, c.pe.succ = g.1) ∧ (∃ c ∈ t, c.ps.pred = g.2) := by
  obtain ⟨hvp, hp⟩ := periods_proper_apart hv hd
  obtain ⟨_, hmem⟩ := periods_eq_sortedDedup t
  rw [experienceGaps_eq] at hg
  obtain ⟨h1, h2, ⟨p, hpm, h3⟩, ⟨q, hqm, h4⟩⟩ := gaps_sound hvp hp hg
  refine ⟨h1, ?_, ?_, ?_⟩
  · intro c hc
    have := h2 c.period ((hmem _).mpr ⟨c, hc, rfl⟩)
    simp only [overlap, Bool.and_eq_false_iff, decide_eq_false_iff_not]
    rcases this with h | h
    · exact Or.inr (Date.not_le.mpr h)
    · exact Or.inl (Date.not_le.mpr h)
  · obtain ⟨c, hc, rfl⟩ := (hmem p).mp hpm; exact ⟨c, hc, h3⟩
  · obtain ⟨c, hc, rfl⟩ := (hmem q).mp hqm; exact ⟨c, hc, h4⟩

/-- **the gaps are complete on a disjoint triangle**: every day from the earliest period start to the latest
period end lies in some cell's period or in a reported gap (and, by `experienceGaps_sound`, never in both) -/
theorem experienceGaps_complete {t : List Cell} (hv : ProperCells t) (hd : Triangle.isDisjoint t = true)
    {d : Date} (hdv : d.valid = true) (h1 : ∃ c ∈ t, c.ps ≤ d) (h2 : ∃ c ∈ t, d ≤ c.pe) :
    (∃ c ∈ t, c.ps ≤ d ∧ d ≤ c.pe) ∨ ∃ g ∈ Triangle.experienceGaps t, g.1 ≤ d ∧ d ≤ g.2 := by
  obtain ⟨hvp, hp⟩ := periods_proper_apart hv hd
  obtain ⟨_, hmem⟩ := periods_eq_sortedDedup t
  rw [experienceGaps_eq]
  have h1' : ∃ p ∈ Triangle.periods t, p.1 ≤ d := by
    obtain ⟨c, hc, h⟩ := h1; exact ⟨c.period, (hmem _).mpr ⟨c, hc, rfl⟩, h⟩
  have h2' : ∃ p ∈ Triangle.periods t, d ≤ p.2 := by
    obtain ⟨c, hc, h⟩ := h2; exact ⟨c.period, (hmem _).mpr ⟨c, hc, rfl⟩, h⟩
  rcases gaps_complete hvp hp hdv h1' h2' with ⟨p, hpm, h⟩ | h
  · obtain ⟨c, hc, rfl⟩ := (hmem p).mp hpm
    exact Or.inl ⟨c, hc, h⟩
  · exact Or.inr h

/-- **the deviation for overlapping periods**: when two neighbouring periods (in `periods` order) share a day, the
reported "gap" between them is an INVERTED range (`start > end`) — `experience_gaps` does not check `is_disjoint` -/
theorem experienceGaps_inverted_of_overlap {t : List Cell} {pq : Period × Period}
    (hpq : pq ∈ adjacentPairs (Triangle.periods t)) (hov : pq.2.1 ≤ pq.1.2) :
    (pq.1.2.succ, pq.2.1.pred) ∈ Triangle.experienceGaps t ∧ pq.2.1.pred < pq.1.2.succ := by
  have h1 : pq.2.1.pred < pq.2.1 := Date.pred_lt' _
  have h2 : pq.1.2 < pq.1.2.succ := Date.lt_succ' _
  have h3 : pq.2.1 < pq.1.2.succ := Date.lt_of_le_of_lt hov h2
  refine ⟨(experienceGaps_spec t _).mpr ⟨pq, hpq, ?_, rfl⟩, ?_⟩
  · intro e; rw [e, Date.lt_iff_sel] at h3; omega
  · rw [Date.lt_iff_sel] at *; omega

/-- a year and a quarter inside it (one slice) -/
def exOverlap : List Cell :=
  [ { ps := ⟨2020, 1, 1⟩, pe := ⟨2020, 12, 31⟩, ev := ⟨2020, 12, 31⟩ },
    { ps := ⟨2020, 4, 1⟩, pe := ⟨2020, 6, 30⟩, ev := ⟨2020, 12, 31⟩ } ]

private theorem exOverlap_periods :
    Triangle.periods exOverlap = [(⟨2020, 1, 1⟩, ⟨2020, 12, 31⟩), (⟨2020, 4, 1⟩, ⟨2020, 6, 30⟩)] := by
  unfold Triangle.periods sortedDedup
  have : dedup (exOverlap.map Cell.period) =
      [(⟨2020, 1, 1⟩, ⟨2020, 12, 31⟩), (⟨2020, 4, 1⟩, ⟨2020, 6, 30⟩)] := by decide
  rw [this]
  exact List.mergeSort_of_pairwise (by decide)

/-- witness of the deviation: the reported "gap" runs from 2021-01-01 BACK to 2020-03-31 -/
theorem exOverlap_gaps : Triangle.experienceGaps exOverlap = [(⟨2021, 1, 1⟩, ⟨2020, 3, 31⟩)] := by
  unfold Triangle.experienceGaps
  rw [exOverlap_periods]
  decide

/-- Spec bridge for `experience_gaps` (the driver evaluates `gapsSpec` whenever `Spec.disjoint t`) -/
theorem spec_gapsSpec {t : List Cell} (hv : ProperCells t) (hd : Triangle.isDisjoint t = true) :
    gapsSpec t (Triangle.experienceGaps t) = true := by
  obtain ⟨hvp, hp⟩ := periods_proper_apart hv hd
  obtain ⟨_, hmem⟩ := periods_eq_sortedDedup t
  have hcell : ∀ {P : Period → Prop}, (∀ p ∈ Triangle.periods t, P p) → ∀ p ∈ t.map Cell.period, P p := by
    intro P h p hpm
    obtain ⟨c, hc, rfl⟩ := List.mem_map.mp hpm
    exact h _ ((hmem _).mpr ⟨c, hc, rfl⟩)
  have hcellE : ∀ {P : Period → Prop}, (∃ p ∈ Triangle.periods t, P p) → ∃ p ∈ t.map Cell.period, P p := by
    rintro P ⟨p, hpm, h⟩
    obtain ⟨c, hc, rfl⟩ := (hmem p).mp hpm
    exact ⟨_, List.mem_map.mpr ⟨c, hc, rfl⟩, h⟩
  simp only [gapsSpec, Bool.and_eq_true, List.all_eq_true, List.any_eq_true, Bool.or_eq_true, decide_eq_true_eq,
    beq_iff_eq, Bool.not_eq_true']
  refine ⟨⟨?_, ?_⟩, ?_⟩
  · apply strictAsc_of_pairwise
    rw [experienceGaps_eq]
    refine (gaps_ascending hvp hp).imp ?_
    intro g g' h
    rw [periodCmp_lt_iff]; exact Or.inl h
  · intro g hg
    obtain ⟨h1, h2, ⟨c, hc, h3⟩, ⟨c', hc', h4⟩⟩ := experienceGaps_sound hv hd hg
    refine ⟨⟨⟨h1, ⟨c.period, List.mem_map.mpr ⟨c, hc, rfl⟩, h3⟩⟩, ⟨c'.period, List.mem_map.mpr ⟨c', hc', rfl⟩, h4⟩⟩, ?_⟩
    intro p hpm
    obtain ⟨c, hc, rfl⟩ := List.mem_map.mp hpm
    exact h2 c hc
  · apply hcell
    intro p hpm
    rcases gaps_open hvp hp p hpm with h | h | h
    · exact Or.inl (Or.inl (hcell h))
    · exact Or.inl (Or.inr (hcellE h))
    · exact Or.inr h

/-! ### 12. calendar meaning of "period length in months" -/

/-- **calendar meaning of the month length of a period**: a period that starts on the first of a month and ends
on a month end is exactly as many months long as the calendar months it spans — the formula shared by the model
(`periodLength`) and the Spec (`duration`) is anchored in month ids -/
theorem periodLength_month_aligned (p : Period) (hv1 : p.1.valid = true) (h1 : p.1.d = 1)
    (h2 : p.2.d = dim p.2.y p.2.m) :
    periodLength .month p = ((monthToId p.2 - monthToId p.1 + 1 : Int) : Rat) := by
  simp only [Date.valid, Bool.and_eq_true, decide_eq_true_eq] at hv1
  have hpred : p.1.pred.d = dim p.1.pred.y p.1.pred.m ∧
      (12 * (p.2.y - p.1.pred.y) + ((p.2.m : Int) - (p.1.pred.m : Int))) = monthToId p.2 - monthToId p.1 + 1 := by
    unfold Date.pred monthToId
    split
    · omega
    · split
      · refine ⟨rfl, ?_⟩
        show 12 * (p.2.y - p.1.y) + ((p.2.m : Int) - ((p.1.m - 1 : Nat) : Int)) = _
        omega
      · refine ⟨by simp [dim], ?_⟩
        show 12 * (p.2.y - (p.1.y - 1)) + ((p.2.m : Int) - ((12 : Nat) : Int)) = _
        omega
  show devLagMonths p.1.pred p.2 = _
  unfold devLagMonths
  rw [monthFraction_monthEnd hpred.1, monthFraction_monthEnd h2, hpred.2]
  grind

/-- the Spec's `duration` of a month-aligned cell is its number of calendar months -/
theorem duration_month_aligned (c : Cell) (hv1 : c.ps.valid = true) (h1 : c.ps.d = 1)
    (h2 : c.pe.d = dim c.pe.y c.pe.m) :
    duration .month c = ((monthToId c.pe - monthToId c.ps + 1 : Int) : Rat) :=
  periodLength_month_aligned c.period hv1 h1 h2

/-- so for month-aligned cells "equal period lengths" (the clause of `is_semi_regular`) is "equally many calendar
months" -/
theorem equalLengths_month_aligned (t : List Cell)
    (ha : ∀ c ∈ t, c.ps.valid = true ∧ c.ps.d = 1 ∧ c.pe.d = dim c.pe.y c.pe.m) :
    equalLengths t .month = true ↔
      ∀ a ∈ t, ∀ b ∈ t, monthToId a.pe - monthToId a.ps = monthToId b.pe - monthToId b.ps := by
  simp only [equalLengths, List.all_eq_true, beq_iff_eq]
  constructor
  · intro h a hA b hB
    have := h a hA b hB
    rw [duration_month_aligned a (ha a hA).1 (ha a hA).2.1 (ha a hA).2.2,
      duration_month_aligned b (ha b hB).1 (ha b hB).2.1 (ha b hB).2.2] at this
    have := Rat.intCast_inj.mp this
    omega
  · intro h a hA b hB
    rw [duration_month_aligned a (ha a hA).1 (ha a hA).2.1 (ha a hA).2.2,
      duration_month_aligned b (ha b hB).1 (ha b hB).2.1 (ha b hB).2.2, h a hA b hB]

/-! ### 13. more non-vacuity: a regular triangle with a resolution; details that are shared / not shared -/

private theorem exT_periodMonthGaps : periodMonthGaps exT = [12, 12] := by
  unfold periodMonthGaps gapsOf
  have : (periodBoundaries exT).eraseDups = [600, 612, 624] := by decide
  simp only [if_true, this]
  rw [List.mergeSort_of_pairwise (by decide)]
  decide

/-- `exT` (two yearly periods) has period resolution 12 -/
theorem exT_periodResolution : Triangle.periodResolution exT = .ok (some 12) := by
  rw [periodResolution_eq, exT_periodMonthGaps, if_neg (by decide)]
  rfl

/-- `exT` is regular (hence semi-regular and disjoint) in months -/
theorem exT_regular : Triangle.isRegular exT (some .month) = .ok true := by
  rw [isRegular_iff_const_spacing exT .month (by decide)]
  congr 1
  decide +kernel

def exMdA : Metadata :=
  { country := some "US", details := [("coverage", .str "BI"), ("lob", .str "auto")],
    lossDetails := [("peril", .str "wind")] }
def exMdB : Metadata :=
  { country := some "US", currency := some "USD", details := [("coverage", .str "PD"), ("lob", .str "auto")] }

/-- two slices whose details share `lob` and differ in `coverage`; only one has a loss detail / a currency -/
def exD : List Cell :=
  [ { ps := ⟨2020, 1, 1⟩, pe := ⟨2020, 12, 31⟩, ev := ⟨2020, 12, 31⟩, values := [("paid_loss", .int 1)], md := exMdA },
    { ps := ⟨2020, 1, 1⟩, pe := ⟨2020, 12, 31⟩, ev := ⟨2020, 12, 31⟩, values := [("paid_loss", .int 2)], md := exMdB } ]

private theorem exD_metadata : Triangle.metadata exD = [exMdA, exMdB] := by
  unfold Triangle.metadata
  have : metasOf exD = [exMdA, exMdB] := by decide
  rw [this]
  exact List.mergeSort_of_pairwise (by decide +kernel)

/-- non-vacuity of the details clauses: the hypotheses hold, the shared item `lob` (and the shared attributes) are
kept, `coverage`, `peril` and `currency` are not -/
theorem exD_common :
    (∀ c ∈ exD, c.md.Canon) ∧
    Triangle.commonMetadata exD =
      .ok { country := some "US", details := [("lob", .str "auto")] } := by
  refine ⟨by decide, ?_⟩
  unfold Triangle.commonMetadata
  rw [exD_metadata]
  rfl

/-- … and its differences carry exactly the rest and recombine (an instance of `recombine_diff`) -/
theorem exD_differences :
    Triangle.metadataDifferences exD = .ok
      [ { riskBasis := none, details := [("coverage", .str "BI")], lossDetails := [("peril", .str "wind")] },
        { riskBasis := none, currency := some "USD", details := [("coverage", .str "PD")] } ] := by
  rw [metadataDifferences_eq_map exD_common.2, exD_metadata]
  rfl

/-- Spec bridge for `evaluation_date` (the inline predicate of the driver: present in the cells, no later one) -/
theorem spec_evaluationDate {t : List Cell} {d : Date} (h : Triangle.evaluationDate t = .ok d) :
    (t.any (·.ev == d) && t.all (·.ev ≤ d)) = true := by
  obtain ⟨h0, h1⟩ := evaluationDate_spec t
  have ht : t ≠ [] := by
    intro e; rw [h0 e] at h; cases h
  obtain ⟨d', hd', ⟨c, hc, hcd⟩, hle⟩ := h1 ht
  rw [hd'] at h; cases h
  simp only [Bool.and_eq_true, List.any_eq_true, List.all_eq_true, beq_iff_eq, decide_eq_true_eq]
  exact ⟨⟨c, hc, hcd⟩, hle⟩

private theorem exT_evalMonthGaps : evalMonthGaps exT = [12] := by
  unfold evalMonthGaps gapsOf
  have : ((exT.map (·.ev)).eraseDups.map monthToId) = [611, 623] := by decide
  simp only [Bool.false_eq_true, if_false, this]
  rw [List.mergeSort_of_pairwise (by decide)]
  decide

/-- `exT` (evaluated at two consecutive year ends) has evaluation-date resolution 12 -/
theorem exT_evalDateResolution : Triangle.evalDateResolution exT = .ok (some 12) := by
  rw [evalDateResolution_eq, exT_evalMonthGaps]
  rfl

/-! ### 14. eval_date_resolution against the literal words; ascending gaps -/

/-- **the gaps between DISTINCT evaluation months, from the cells** (the literal reading of "between evaluation
months"): distinct month ids of the evaluation dates, ascending, consecutive differences -/
def evalDistinctMonthGaps (t : List Cell) : List Int := gapsOf ((t.map (·.ev)).map monthToId) true

theorem evalMonthGaps_divisors (t : List Cell) (d : Int) :
    (∀ g ∈ evalMonthGaps t, d ∣ g) ↔ (∀ g ∈ evalDistinctMonthGaps t, d ∣ g) := by
  unfold evalMonthGaps evalDistinctMonthGaps gapsOf
  simp only [Bool.false_eq_true, if_false, if_true]
  rw [← diffs_eq_zip, ← diffs_eq_zip, dvd_diffs_iff, dvd_diffs_iff]
  have hm : ∀ x, x ∈ ((t.map (·.ev)).eraseDups.map monthToId).mergeSort (fun a b => decide (a ≤ b)) ↔
      x ∈ (((t.map (·.ev)).map monthToId).eraseDups).mergeSort (fun a b => decide (a ≤ b)) := by
    intro x
    rw [(List.mergeSort_perm _ _).mem_iff, (List.mergeSort_perm _ _).mem_iff, List.mem_eraseDups]
    simp only [List.mem_map, List.mem_eraseDups]
  constructor
  · intro h a ha b hb; exact h a ((hm a).mpr ha) b ((hm b).mpr hb)
  · intro h a ha b hb; exact h a ((hm a).mp ha) b ((hm b).mp hb)

/-- **outside the one-month quirk the words hold literally**: `eval_date_resolution` divides every gap between
DISTINCT evaluation months and every common divisor of those gaps divides it; when the evaluation dates span at
least two calendar months it is positive and the LARGEST month count dividing every such gap. (Gaps of 0 from two
dates in one month never change the common divisors; they only turn `None` into 0 when there is a single month.) -/
theorem evalDateResolution_distinct_months {t : List Cell} {r : Int}
    (h : Triangle.evalDateResolution t = .ok (some r)) :
    (∀ g ∈ evalDistinctMonthGaps t, r ∣ g) ∧
    (∀ d : Int, (∀ g ∈ evalDistinctMonthGaps t, d ∣ g) → d ∣ r) ∧
    ((∃ a ∈ t, ∃ b ∈ t, monthToId a.ev ≠ monthToId b.ev) →
      0 < r ∧ ∀ d : Int, (∀ g ∈ evalDistinctMonthGaps t, d ∣ g) → d ≤ r) := by
  obtain ⟨h0, h1, h2⟩ := evalDateResolution_spec h
  have h1' := (evalMonthGaps_divisors t r).mp h1
  have h2' : ∀ d : Int, (∀ g ∈ evalDistinctMonthGaps t, d ∣ g) → d ∣ r :=
    fun d hd => h2 d ((evalMonthGaps_divisors t d).mpr hd)
  refine ⟨h1', h2', ?_⟩
  rintro ⟨a, ha, b, hb, hab⟩
  have hpos : 0 < r := by
    -- some gap between distinct months is positive, and `r` divides it
    have hL : ∀ x, x ∈ (((t.map (·.ev)).map monthToId).eraseDups).mergeSort (fun a b => decide (a ≤ b)) ↔
        ∃ c ∈ t, monthToId c.ev = x := by
      intro x
      rw [(List.mergeSort_perm _ _).mem_iff, List.mem_eraseDups]
      simp only [List.mem_map]
      constructor
      · rintro ⟨_, ⟨c, hc, rfl⟩, rfl⟩; exact ⟨c, hc, rfl⟩
      · rintro ⟨c, hc, rfl⟩; exact ⟨_, ⟨c, hc, rfl⟩, rfl⟩
    have hlt : ((((t.map (·.ev)).map monthToId).eraseDups).mergeSort (fun a b => decide (a ≤ b))).Pairwise (· < ·) :=
      sorted_nodup_int_lt (sorted_int_mergeSort' _) ((List.mergeSort_perm _ _).nodup_iff.mpr (nodup_eraseDups _))
    have hlen := two_le_length_of_mem_ne ((hL _).mpr ⟨a, ha, rfl⟩) ((hL _).mpr ⟨b, hb, rfl⟩) hab
    have hgaps : evalDistinctMonthGaps t =
        diffs ((((t.map (·.ev)).map monthToId).eraseDups).mergeSort (fun a b => decide (a ≤ b))) := by
      unfold evalDistinctMonthGaps gapsOf; simp only [if_true]; rfl
    have hne : (evalDistinctMonthGaps t).length ≠ 0 := by rw [hgaps, diffs_length]; omega
    cases hl : evalDistinctMonthGaps t with
    | nil => rw [hl] at hne; simp at hne
    | cons g gs =>
      have hg0 : 0 < g := diffs_pos hlt g (by rw [← hgaps, hl]; simp)
      have hd := h1' g (by rw [hl]; simp)
      rcases Int.lt_or_eq_of_le h0 with h' | h'
      · exact h'
      · rw [← h'] at hd
        have := Int.zero_dvd.mp hd
        omega
  exact ⟨hpos, fun d hd => Int.le_of_dvd hpos (h2' d hd)⟩

/-- the gaps are strictly ascending (by their first day) on a disjoint triangle -/
theorem experienceGaps_ascending {t : List Cell} (hv : ProperCells t) (hd : Triangle.isDisjoint t = true) :
    (Triangle.experienceGaps t).Pairwise (fun g g' => g.1 < g'.1) := by
  obtain ⟨hvp, hp⟩ := periods_proper_apart hv hd
  rw [experienceGaps_eq]
  exact gaps_ascending hvp hp

/-- the bridge in exactly the form the driver evaluates (`Drv/C13.lean`: `!disjoint t || gapsSpec t out`) -/
theorem spec_gapsSpec_driver {t : List Cell} (hv : ProperCells t) :
    (!disjoint t || gapsSpec t (Triangle.experienceGaps t)) = true := by
  cases hd : disjoint t with
  | false => rfl
  | true =>
    have : Triangle.isDisjoint t = true := by
      rw [isDisjoint_eq_spec t (fun c hc => (hv c hc).2.2)]; exact hd
    simp [spec_gapsSpec hv this]

/-- **an inverted range is reported exactly when the triangle is not disjoint** (proper cells): on a disjoint
triangle every gap has `start ≤ end`; otherwise some reported "gap" has `end < start` -/
theorem experienceGaps_inverted_iff {t : List Cell} (hv : ProperCells t) :
    (∃ g ∈ Triangle.experienceGaps t, g.2 < g.1) ↔ Triangle.isDisjoint t = false := by
  constructor
  · rintro ⟨g, hg, hlt⟩
    cases hd : Triangle.isDisjoint t with
    | false => rfl
    | true =>
      have := (experienceGaps_sound hv hd hg).1
      exact absurd this (Date.not_le.mpr hlt)
  · intro hd
    unfold Triangle.isDisjoint at hd
    split at hd
    · cases hd
    · rw [← Bool.not_eq_true, List.all_eq_true] at hd
      have : ∃ pq ∈ adjacentPairs (Triangle.periods t), pq.2.1 ≤ pq.1.2 := by
        apply Classical.byContradiction
        intro hcon
        apply hd
        intro pq hpq
        obtain ⟨prev, nxt⟩ := pq
        simp only [Bool.not_eq_true', decide_eq_false_iff_not]
        intro hle
        exact hcon ⟨(prev, nxt), hpq, hle⟩
      obtain ⟨pq, hpq, hov⟩ := this
      obtain ⟨h1, h2⟩ := experienceGaps_inverted_of_overlap hpq hov
      exact ⟨_, h1, h2⟩

end Bermuda.Properties.C13
