/-
C13 — descriptive accessors and the triangle taxonomy agree with the cells.
Only property theorems live here (helper lemmas: `Lemmas/Accessors.lean`, `Lemmas/Select.lean`).
-/
import Bermuda.Model.Accessors
import Bermuda.Spec.C13
import Bermuda.Lemmas.Accessors
import Bermuda.Lemmas.AccessorsExt
namespace Bermuda.Properties.C13
open Bermuda Std Bermuda.Spec.C13

/-! ### 1. the accessors are the sorted distinct values present in the cells -/

/-- **`periods` is the strictly ascending list of the distinct periods of the cells** -/
theorem periods_eq_sortedDedup (t : List Cell) :
    (Triangle.periods t).Pairwise (fun a b => periodCmp a b = .lt) ∧
    ∀ p, p ∈ Triangle.periods t ↔ ∃ c ∈ t, c.period = p := by
  obtain ⟨h1, h2⟩ := sortedDedup_spec (cmp := periodCmp) (fun _ _ => periodCmp_eq_eq) (t.map Cell.period)
  exact ⟨h1, fun p => by rw [Triangle.periods, h2]; simp⟩

theorem evaluationDates_eq_sortedDedup (t : List Cell) :
    (Triangle.evaluationDates t).Pairwise (fun a b => a < b) ∧
    ∀ d, d ∈ Triangle.evaluationDates t ↔ ∃ c ∈ t, c.ev = d := by
  obtain ⟨h1, h2⟩ := sortedDedup_spec (cmp := Date.cmp) (fun _ _ => Date.cmp_eq_eq.mp) (t.map (·.ev))
  exact ⟨h1, fun d => by rw [Triangle.evaluationDates, h2]; simp⟩

theorem devLags_eq_sortedDedup (t : List Cell) (u : LagUnit) :
    ∃ l, Triangle.devLags t (some u) = .ok l ∧ l.Pairwise (fun a b => ratCmp a b = .lt) ∧
      ∀ q, q ∈ l ↔ ∃ c ∈ t, c.devLag u = q := by
  obtain ⟨h1, h2⟩ := sortedDedup_spec (cmp := ratCmp) (fun _ _ => ratCmp_eq_eq.mp) (t.map (·.devLag u))
  exact ⟨_, rfl, h1, fun q => by rw [h2]; simp⟩

theorem fields_eq_sortedDedup (t : List Cell) :
    (Triangle.fields t).Pairwise (fun a b => strCmp a b = .lt) ∧
    ∀ f, f ∈ Triangle.fields t ↔ ∃ c ∈ t, f ∈ c.values.keys := by
  obtain ⟨h1, h2⟩ := sortedDedup_spec (cmp := strCmp) (fun a b h => by simpa [strCmp] using h)
    (t.flatMap (·.values.keys))
  refine ⟨h1, fun f => ?_⟩
  rw [Triangle.fields, h2]; simp

/-- `metadata` is the strictly ascending (by `Metadata.__lt__`) list of the distinct metadata -/
theorem metadata_eq_sortedDedup (t : List Cell) (hc : ∀ c ∈ t, c.md.Canon) :
    (Triangle.metadata t).Pairwise (fun a b => Metadata.cmp a b = .lt) ∧
    ∀ m, m ∈ Triangle.metadata t ↔ ∃ c ∈ t, c.md = m := by
  obtain ⟨hnd, hmem, hcov⟩ := metasOf_spec t
  have hperm : (Triangle.metadata t).Perm (metasOf t) := List.mergeSort_perm _ _
  have hm : ∀ m, m ∈ Triangle.metadata t ↔ ∃ c ∈ t, c.md = m := by
    intro m
    rw [hperm.mem_iff]
    exact ⟨hmem m, fun ⟨c, hc, e⟩ => e ▸ hcov c hc⟩
  refine ⟨?_, hm⟩
  apply sorted_nodup_lt (cmp := Metadata.cmp)
  · intro a ha b hb h
    obtain ⟨ca, hca, rfl⟩ := (hm a).mp ha
    obtain ⟨cb, hcb, rfl⟩ := (hm b).mp hb
    exact (Metadata.cmp_eq_eq (hc ca hca) (hc cb hcb)).mp h
  · exact sorted_mergeSort (cmp := Metadata.cmp) (metasOf t)
  · exact hperm.nodup_iff.mpr hnd

/-! ### 2. counts -/

/-- `field_cell_counts[f]` is the number of cells holding field `f` -/
theorem fieldCellCounts_eq_countP (t : List Cell) :
    Triangle.fieldCellCounts t =
      (Triangle.fields t).map fun f => (f, t.countP fun c => c.values.keys.contains f) := by
  unfold Triangle.fieldCellCounts
  apply List.map_congr_left
  intro f _
  rw [sumBools_map_eq_countP]

/-- `field_slice_counts[f]` is the number of slices in which some cell holds field `f` -/
theorem fieldSliceCounts_eq_countP (t : List Cell) :
    Triangle.fieldSliceCounts t =
      (Triangle.fields t).map fun f =>
        (f, (Triangle.slices t).countP fun slc => (Triangle.fields slc.2).contains f) := by
  unfold Triangle.fieldSliceCounts
  apply List.map_congr_left
  intro f _
  rw [sumBools_map_eq_countP]

/-! ### 3. nesting of the taxonomy -/

/-- **regular ⇒ semi-regular** -/
theorem regular_imp_semiRegular (t : List Cell) (u : Option LagUnit)
    (h : Triangle.isRegular t u = .ok true) : Triangle.isSemiRegular t u = .ok true := by
  unfold Triangle.isRegular at h
  cases hs : Triangle.isSemiRegular t u with
  | error e => simp [hs, bind, Except.bind] at h
  | ok b =>
    cases b with
    | true => rfl
    | false => simp [hs, bind, Except.bind, pure, Except.pure] at h

/-- **semi-regular ⇒ disjoint** -/
theorem semiRegular_imp_disjoint (t : List Cell) (u : Option LagUnit)
    (h : Triangle.isSemiRegular t u = .ok true) : Triangle.isDisjoint t = true := by
  unfold Triangle.isSemiRegular at h
  cases hd : Triangle.isDisjoint t with
  | true => rfl
  | false => simp [hd] at h

/-! ### 4. resolutions -/

/-- the value of `_multi_gcd` divides every member -/
theorem resolution_dvd_all {xs : List Int} {r : Int} (h : multiGcd xs = .ok r) :
    ∀ x ∈ xs, r ∣ x := by
  intro x hx
  have hx' : x ∈ dedup xs := mem_dedup.mpr hx
  unfold multiGcd at h
  split at h
  · cases h
  · rename_i y hy
    cases h
    rw [hy] at hx'
    simp at hx'
    subst hx'
    exact Int.dvd_refl _
  · rename_i a b rest hy
    cases h
    rw [hy] at hx'
    obtain ⟨h1, h2⟩ := foldl_gcd_dvd rest (Int.gcd a b : Int)
    rcases List.mem_cons.mp hx' with rfl | hx'
    · exact Int.dvd_trans h1 (Int.gcd_dvd_left _ _)
    · rcases List.mem_cons.mp hx' with rfl | hx'
      · exact Int.dvd_trans h1 (Int.gcd_dvd_right _ _)
      · exact h2 x hx'

/-- … and every common divisor of the members divides it: it is the greatest -/
theorem resolution_greatest {xs : List Int} {r : Int} (h : multiGcd xs = .ok r)
    (d : Int) (hd : ∀ x ∈ xs, d ∣ x) : d ∣ r := by
  have hd' : ∀ x ∈ dedup xs, d ∣ x := fun x hx => hd x (mem_dedup.mp hx)
  unfold multiGcd at h
  split at h
  · cases h
  · rename_i y hy
    cases h
    exact hd' _ (by rw [hy]; simp)
  · rename_i a b rest hy
    cases h
    rw [hy] at hd'
    exact dvd_foldl_gcd rest _ d (Int.dvd_coe_gcd (hd' a (by simp)) (hd' b (by simp)))
      (fun x hx => hd' x (by simp [hx]))

/-- the month boundaries whose gaps `period_resolution` divides -/
def periodBoundaryGaps (t : List Cell) : List Int :=
  diffs (sortedDedup intCmp
    ((Triangle.periods t).map (fun p => monthToId p.1) ++ (Triangle.periods t).map (fun p => monthToId p.2 + 1)))

theorem periodResolution_spec {t : List Cell} {r : Int} (h : Triangle.periodResolution t = .ok (some r)) :
    (∀ g ∈ periodBoundaryGaps t, r ∣ g) ∧ ∀ d : Int, (∀ g ∈ periodBoundaryGaps t, d ∣ g) → d ∣ r := by
  unfold Triangle.periodResolution at h
  split at h
  · cases h
  · simp only [] at h
    split at h
    · cases h
    · cases hg : multiGcd (periodBoundaryGaps t) with
      | error e => simp [periodBoundaryGaps] at hg; simp [hg, Except.map] at h
      | ok v =>
        have hg' := hg
        simp only [periodBoundaryGaps] at hg'
        simp only [hg', Except.map, Except.ok.injEq, Option.some.injEq] at h
        subst h
        exact ⟨resolution_dvd_all hg, resolution_greatest hg⟩

/-! ### 5. experience gaps -/

/-- **`experience_gaps` lists, for every two consecutive periods that are not contiguous, the day
range from the day after the first ends to the day before the second starts** -/
theorem experienceGaps_spec (t : List Cell) (g : Period) :
    g ∈ Triangle.experienceGaps t ↔
      ∃ pq ∈ adjacentPairs (Triangle.periods t), pq.2.1 ≠ pq.1.2.succ ∧ g = (pq.1.2.succ, pq.2.1.pred) := by
  unfold Triangle.experienceGaps
  rw [List.mem_filterMap]
  constructor
  · rintro ⟨pq, hpq, h⟩
    refine ⟨pq, hpq, ?_⟩
    obtain ⟨cur, nxt⟩ := pq
    simp only [] at h
    split at h
    · rename_i hne
      cases h
      exact ⟨by simpa using hne, rfl⟩
    · cases h
  · rintro ⟨pq, hpq, hne, rfl⟩
    refine ⟨pq, hpq, ?_⟩
    obtain ⟨cur, nxt⟩ := pq
    simp only [] at hne ⊢
    simp [hne]

/-! ### 6. is_disjoint: the adjacent test is complete -/

theorem pairwise_forall_of_symm {α} {R : α → α → Prop} {l : List α} (hs : ∀ x y, R x y → R y x)
    (h : l.Pairwise R) : ∀ a ∈ l, ∀ b ∈ l, a ≠ b → R a b := by
  induction l with
  | nil => simp
  | cons x l ih =>
    have h' := List.pairwise_cons.mp h
    intro a ha b hb hab
    rcases List.mem_cons.mp ha with e1 | ha' <;> rcases List.mem_cons.mp hb with e2 | hb'
    · exact absurd (e1.trans e2.symm) hab
    · exact e1 ▸ h'.1 b hb'
    · exact e2 ▸ hs _ _ (h'.1 a ha')
    · exact ih h'.2 a ha' b hb' hab

/-- **`is_disjoint` (an adjacent-pairs test on the sorted periods) holds iff no two different
periods of the triangle overlap** — for cells whose periods are proper intervals
(`period_start ≤ period_end`, enforced by the cell constructor) -/
theorem isDisjoint_iff_pairwise_nonoverlap (t : List Cell) (hv : ∀ c ∈ t, c.ps ≤ c.pe) :
    Triangle.isDisjoint t = true ↔
      ∀ a ∈ t, ∀ b ∈ t, a.period = b.period ∨ overlap a.period b.period = false := by
  obtain ⟨hlt, hmem⟩ := periods_eq_sortedDedup t
  have hvp : ∀ p ∈ Triangle.periods t, p.1 ≤ p.2 := by
    intro p hp
    obtain ⟨c, hc, rfl⟩ := (hmem p).mp hp
    exact hv c hc
  have hadj := adjacent_apart_iff_pairwise (Triangle.periods t) hvp
  unfold Triangle.isDisjoint
  cases t with
  | nil => simp
  | cons c0 rest =>
    simp only [List.isEmpty_cons, Bool.false_eq_true, if_false]
    have hadj' : (adjacentPairs (Triangle.periods (c0 :: rest))).all
        (fun x => match x with | (prev, nxt) => !decide (nxt.1 ≤ prev.2)) = true ↔
        (Triangle.periods (c0 :: rest)).Pairwise (fun a b => a.2 < b.1) := hadj
    rw [hadj']
    constructor
    · intro hp a ha b hb
      by_cases hab : a.period = b.period
      · exact Or.inl hab
      · right
        have hsym : (Triangle.periods (c0 :: rest)).Pairwise (fun p q => overlap p q = false) := by
          refine hp.imp ?_
          intro p q h; exact overlap_false_of_lt h
        exact pairwise_forall_of_symm (fun x y h => by rw [overlap_comm]; exact h) hsym
          _ ((hmem _).mpr ⟨a, ha, rfl⟩) _ ((hmem _).mpr ⟨b, hb, rfl⟩) hab
    · intro h
      refine hlt.imp_of_mem ?_
      intro p q hp hq hpq
      obtain ⟨a, ha, rfl⟩ := (hmem p).mp hp
      obtain ⟨b, hb, rfl⟩ := (hmem q).mp hq
      have hne : a.period ≠ b.period := by
        intro e
        rw [e, ReflCmp.compare_self (cmp := periodCmp)] at hpq
        cases hpq
      rcases h a ha b hb with e | hov
      · exact absurd e hne
      · simp only [overlap, Bool.and_eq_false_iff, decide_eq_false_iff_not] at hov
        have hb' := hv b hb
        rw [periodCmp_lt_iff] at hpq
        simp only [Cell.period] at *
        rcases hov with hov | hov
        · exfalso; apply hov
          rw [Date.le_iff] at *; rw [Date.lt_iff_sel, Date.lt_iff_sel] at hpq
          rcases hpq with hpq | ⟨e, hpq⟩
          · omega
          · rw [e]; omega
        · exact Date.not_le.mp hov

/-- the executable independent definition agrees with the implementation's adjacent test -/
theorem isDisjoint_eq_spec (t : List Cell) (hv : ∀ c ∈ t, c.ps ≤ c.pe) :
    Triangle.isDisjoint t = disjoint t := by
  rw [Bool.eq_iff_iff, isDisjoint_iff_pairwise_nonoverlap t hv]
  simp [disjoint]

/-! ### 7. common metadata and differences -/

theorem firstIfEqual_eq_some {α} [BEq α] [LawfulBEq α] {a b : Option α} {x : α} :
    firstIfEqual a b = some x ↔ a = some x ∧ b = some x := by
  unfold firstIfEqual
  by_cases h : a = b
  · subst h; simp
  · have : (a == b) = false := by simpa using h
    simp only [this, Bool.false_eq_true, if_false]
    constructor
    · intro h'; cases h'
    · rintro ⟨rfl, rfl⟩; exact absurd rfl h

theorem foldl_common_attr {α} [BEq α] [LawfulBEq α] (get : Metadata → Option α)
    (hget : ∀ a b, get (commonMetadata₂ a b) = firstIfEqual (get a) (get b))
    (rest : List Metadata) (m : Metadata) (x : α) :
    get (rest.foldl commonMetadata₂ m) = some x ↔ get m = some x ∧ ∀ m' ∈ rest, get m' = some x := by
  induction rest generalizing m with
  | nil => simp
  | cons m' rest ih =>
    simp only [List.foldl_cons]
    rw [ih, hget, firstIfEqual_eq_some]
    simp only [List.mem_cons, forall_eq_or_imp]
    exact and_assoc

theorem commonMetadata_eq_fold {t : List Cell} {c : Metadata} (h : Triangle.commonMetadata t = .ok c) :
    ∃ m rest, Triangle.metadata t = m :: rest ∧ c = rest.foldl commonMetadata₂ m := by
  unfold Triangle.commonMetadata at h
  split at h
  · cases h
  · rename_i m hm; cases h; exact ⟨_, [], hm, rfl⟩
  · rename_i m rest _ hm; cases h; exact ⟨_, _, hm, rfl⟩

/-- an attribute is kept by `common_metadata` with value `x` iff every slice has it with value `x` -/
theorem common_attr_iff {α} [BEq α] [LawfulBEq α] (get : Metadata → Option α)
    (hget : ∀ a b, get (commonMetadata₂ a b) = firstIfEqual (get a) (get b))
    {t : List Cell} {c : Metadata} (h : Triangle.commonMetadata t = .ok c) (x : α) :
    get c = some x ↔ ∀ m ∈ Triangle.metadata t, get m = some x := by
  obtain ⟨m, rest, hm, rfl⟩ := commonMetadata_eq_fold h
  rw [foldl_common_attr get hget, hm]
  simp only [List.mem_cons, forall_eq_or_imp]

/-- **common metadata keeps exactly what all slices share** — the six top-level attributes:
each is kept with value `x` iff every slice's metadata has value `x` (so an attribute on which
two slices differ, or which is `None` everywhere, is `None`). The detail dictionaries follow in
`common_keeps_exactly_shared_details`; the full statement is `common_keeps_exactly_shared`. -/
theorem common_keeps_exactly_shared_attrs {t : List Cell} {c : Metadata}
    (h : Triangle.commonMetadata t = .ok c) :
    (∀ x, c.riskBasis = some x ↔ ∀ m ∈ Triangle.metadata t, m.riskBasis = some x) ∧
    (∀ x, c.country = some x ↔ ∀ m ∈ Triangle.metadata t, m.country = some x) ∧
    (∀ x, c.currency = some x ↔ ∀ m ∈ Triangle.metadata t, m.currency = some x) ∧
    (∀ x, c.reinsuranceBasis = some x ↔ ∀ m ∈ Triangle.metadata t, m.reinsuranceBasis = some x) ∧
    (∀ x, c.lossDefinition = some x ↔ ∀ m ∈ Triangle.metadata t, m.lossDefinition = some x) ∧
    (∀ x, c.limit = some x ↔ ∀ m ∈ Triangle.metadata t, m.limit = some x) :=
  ⟨common_attr_iff (·.riskBasis) (fun _ _ => rfl) h, common_attr_iff (·.country) (fun _ _ => rfl) h,
   common_attr_iff (·.currency) (fun _ _ => rfl) h, common_attr_iff (·.reinsuranceBasis) (fun _ _ => rfl) h,
   common_attr_iff (·.lossDefinition) (fun _ _ => rfl) h, common_attr_iff (·.limit) (fun _ _ => rfl) h⟩

/-- the keys of a dict are distinct (always true of a Python dict) -/
def KeysDistinct (d : Dict MVal) : Prop := d.Pairwise (fun a b => a.1 ≠ b.1)

theorem get?_eq_some_iff {d : Dict MVal} (hd : KeysDistinct d) (k : String) (v : MVal) :
    d.get? k = some v ↔ (k, v) ∈ d := by
  induction d with
  | nil => simp [Dict.get?]
  | cons p rest ih =>
    obtain ⟨k', v'⟩ := p
    have hd' := List.pairwise_cons.mp hd
    have ih := ih hd'.2
    unfold Dict.get? at ih ⊢
    by_cases hk : k' = k
    · subst hk
      simp only [List.find?_cons, beq_self_eq_true, Option.map_some, Option.some.injEq,
        List.mem_cons, Prod.mk.injEq, true_and]
      constructor
      · intro h; exact Or.inl h.symm
      · rintro (h | h)
        · exact h.symm
        · exact absurd rfl (hd'.1 (k', v) h)
    · have : (k' == k) = false := by simpa using hk
      simp only [List.find?_cons, this, List.mem_cons, Prod.mk.injEq]
      rw [ih]
      constructor
      · intro h; exact Or.inr h
      · rintro (⟨h, _⟩ | h)
        · exact absurd h.symm hk
        · exact h

theorem foldl_common_details (rest : List Metadata) (m : Metadata)
    (hk : ∀ m' ∈ rest, KeysDistinct m'.details) (kv : String × MVal) :
    kv ∈ (rest.foldl commonMetadata₂ m).details ↔ kv ∈ m.details ∧ ∀ m' ∈ rest, kv ∈ m'.details := by
  induction rest generalizing m with
  | nil => simp
  | cons m' rest ih =>
    simp only [List.foldl_cons]
    rw [ih _ (fun x hx => hk x (by simp [hx]))]
    have : kv ∈ (commonMetadata₂ m m').details ↔ kv ∈ m.details ∧ kv ∈ m'.details := by
      show kv ∈ m.details.filter (fun kv => m'.details.get? kv.1 == some kv.2) ↔ _
      rw [List.mem_filter, beq_iff_eq, get?_eq_some_iff (hk m' (by simp))]
    rw [this]
    simp only [List.mem_cons, forall_eq_or_imp]
    exact and_assoc

theorem foldl_common_lossDetails (rest : List Metadata) (m : Metadata)
    (hm : KeysDistinct m.lossDetails) (hk : ∀ m' ∈ rest, KeysDistinct m'.lossDetails)
    (kv : String × MVal) :
    kv ∈ (rest.foldl commonMetadata₂ m).lossDetails ↔
      kv ∈ m.lossDetails ∧ ∀ m' ∈ rest, kv ∈ m'.lossDetails := by
  induction rest generalizing m with
  | nil => simp
  | cons m' rest ih =>
    simp only [List.foldl_cons]
    have hstep : (commonMetadata₂ m m').lossDetails =
        m'.lossDetails.filter (fun kv => m.lossDetails.get? kv.1 == some kv.2) := rfl
    have hkd : KeysDistinct (commonMetadata₂ m m').lossDetails := by
      rw [hstep]; exact (hk m' (by simp)).sublist List.filter_sublist
    rw [ih _ hkd (fun x hx => hk x (by simp [hx]))]
    have : kv ∈ (commonMetadata₂ m m').lossDetails ↔ kv ∈ m.lossDetails ∧ kv ∈ m'.lossDetails := by
      rw [hstep, List.mem_filter, beq_iff_eq, get?_eq_some_iff hm]
      exact And.comm
    rw [this]
    simp only [List.mem_cons, forall_eq_or_imp]
    exact and_assoc

/-- **common metadata keeps exactly what all slices share** — the detail dictionaries: an item
`(key, value)` is kept iff every slice's metadata has that item -/
theorem common_keeps_exactly_shared_details {t : List Cell} {c : Metadata}
    (h : Triangle.commonMetadata t = .ok c)
    (hk : ∀ m ∈ Triangle.metadata t, KeysDistinct m.details ∧ KeysDistinct m.lossDetails) :
    (∀ kv, kv ∈ c.details ↔ ∀ m ∈ Triangle.metadata t, kv ∈ m.details) ∧
    (∀ kv, kv ∈ c.lossDetails ↔ ∀ m ∈ Triangle.metadata t, kv ∈ m.lossDetails) := by
  obtain ⟨m, rest, hm, rfl⟩ := commonMetadata_eq_fold h
  rw [hm] at hk ⊢
  constructor
  · intro kv
    rw [foldl_common_details rest m (fun x hx => (hk x (by simp [hx])).1)]
    simp only [List.mem_cons, forall_eq_or_imp]
  · intro kv
    rw [foldl_common_lossDetails rest m (hk m (by simp)).2 (fun x hx => (hk x (by simp [hx])).2)]
    simp only [List.mem_cons, forall_eq_or_imp]


/-- **common metadata keeps exactly what all slices share**: an attribute is kept with value `x`
iff every slice has value `x`, and a `details` / `loss_details` item is kept iff every slice has
that item -/
theorem common_keeps_exactly_shared {t : List Cell} {c : Metadata}
    (h : Triangle.commonMetadata t = .ok c)
    (hk : ∀ m ∈ Triangle.metadata t, KeysDistinct m.details ∧ KeysDistinct m.lossDetails) :
    ((∀ x, c.riskBasis = some x ↔ ∀ m ∈ Triangle.metadata t, m.riskBasis = some x) ∧
     (∀ x, c.country = some x ↔ ∀ m ∈ Triangle.metadata t, m.country = some x) ∧
     (∀ x, c.currency = some x ↔ ∀ m ∈ Triangle.metadata t, m.currency = some x) ∧
     (∀ x, c.reinsuranceBasis = some x ↔ ∀ m ∈ Triangle.metadata t, m.reinsuranceBasis = some x) ∧
     (∀ x, c.lossDefinition = some x ↔ ∀ m ∈ Triangle.metadata t, m.lossDefinition = some x) ∧
     (∀ x, c.limit = some x ↔ ∀ m ∈ Triangle.metadata t, m.limit = some x)) ∧
    (∀ kv, kv ∈ c.details ↔ ∀ m ∈ Triangle.metadata t, kv ∈ m.details) ∧
    (∀ kv, kv ∈ c.lossDetails ↔ ∀ m ∈ Triangle.metadata t, kv ∈ m.lossDetails) :=
  ⟨common_keeps_exactly_shared_attrs h, common_keeps_exactly_shared_details h hk⟩

theorem recombine_attr {α} [BEq α] [LawfulBEq α] (get : Metadata → Option α)
    (hget : ∀ a b, get (commonMetadata₂ a b) = firstIfEqual (get a) (get b))
    {t : List Cell} {c : Metadata} (h : Triangle.commonMetadata t = .ok c)
    {m : Metadata} (hm : m ∈ Triangle.metadata t) :
    (get c).or (if (get c).isNone then get m else none) = get m := by
  cases hc : get c with
  | none => simp
  | some x => simp [(common_attr_iff get hget h x).mp hc m hm]

/-- **common metadata recombines with each entry of `metadata_differences` into that slice's
metadata** — the six top-level attributes (the detail dicts: `recombine_diff_details`; the full
statement: `recombine_diff`). -/
theorem recombine_diff_attrs {t : List Cell} {c : Metadata} (h : Triangle.commonMetadata t = .ok c)
    {m : Metadata} (hm : m ∈ Triangle.metadata t) :
    let r := recombine c (metadataDiff c m)
    r.riskBasis = m.riskBasis ∧ r.country = m.country ∧ r.currency = m.currency ∧
    r.reinsuranceBasis = m.reinsuranceBasis ∧ r.lossDefinition = m.lossDefinition ∧ r.limit = m.limit :=
  ⟨recombine_attr (·.riskBasis) (fun _ _ => rfl) h hm, recombine_attr (·.country) (fun _ _ => rfl) h hm,
   recombine_attr (·.currency) (fun _ _ => rfl) h hm, recombine_attr (·.reinsuranceBasis) (fun _ _ => rfl) h hm,
   recombine_attr (·.lossDefinition) (fun _ _ => rfl) h hm, recombine_attr (·.limit) (fun _ _ => rfl) h hm⟩

theorem keysDistinct_unique {d : Dict MVal} (hd : KeysDistinct d) {k : String} {v v' : MVal}
    (h : (k, v) ∈ d) (h' : (k, v') ∈ d) : v = v' := by
  have h1 := (get?_eq_some_iff hd k v).mpr h
  have h2 := (get?_eq_some_iff hd k v').mpr h'
  rw [h1] at h2
  exact Option.some.inj h2

theorem contains_iff {d : Dict MVal} {k : String} : d.contains k = true ↔ ∃ v, (k, v) ∈ d := by
  unfold Dict.contains
  rw [List.any_eq_true]
  constructor
  · rintro ⟨⟨k', v⟩, hm, hk⟩
    have : k' = k := by simpa using hk
    exact ⟨v, this ▸ hm⟩
  · rintro ⟨v, hm⟩
    exact ⟨(k, v), hm, by simp⟩

/-- **the detail dictionaries recombine**: the items of the common metadata together with the
items of a slice's difference are exactly the items of that slice's metadata, and the two parts
share no key -/
theorem recombine_diff_details {t : List Cell} {c : Metadata} (h : Triangle.commonMetadata t = .ok c)
    (hk : ∀ m ∈ Triangle.metadata t, KeysDistinct m.details ∧ KeysDistinct m.lossDetails)
    {m : Metadata} (hm : m ∈ Triangle.metadata t) :
    (∀ kv, kv ∈ c.details ++ (metadataDiff c m).details ↔ kv ∈ m.details) ∧
    (∀ kv, kv ∈ c.lossDetails ++ (metadataDiff c m).lossDetails ↔ kv ∈ m.lossDetails) ∧
    (∀ kv ∈ (metadataDiff c m).details, c.details.contains kv.1 = false) ∧
    (∀ kv ∈ (metadataDiff c m).lossDetails, c.lossDetails.contains kv.1 = false) := by
  obtain ⟨hd, hl⟩ := common_keeps_exactly_shared_details h hk
  have key : ∀ (cd md : Dict MVal), KeysDistinct md → (∀ kv, kv ∈ cd → kv ∈ md) →
      ∀ kv, kv ∈ cd ++ md.filter (fun kv => !cd.contains kv.1) ↔ kv ∈ md := by
    intro cd md hmd hsub kv
    rw [List.mem_append, List.mem_filter]
    constructor
    · rintro (h | h)
      · exact hsub kv h
      · exact h.1
    · intro hkv
      cases hc : cd.contains kv.1 with
      | false => exact Or.inr ⟨hkv, by simp⟩
      | true =>
        obtain ⟨v, hv⟩ := contains_iff.mp hc
        have : v = kv.2 := keysDistinct_unique hmd (hsub _ hv) hkv
        subst this
        exact Or.inl hv
  refine ⟨key c.details m.details (hk m hm).1 (fun kv h => (hd kv).mp h m hm),
    key c.lossDetails m.lossDetails (hk m hm).2 (fun kv h => (hl kv).mp h m hm), ?_, ?_⟩
  · intro kv hkv
    have := (List.mem_filter.mp hkv).2
    simpa using this
  · intro kv hkv
    have := (List.mem_filter.mp hkv).2
    simpa using this

theorem keysDistinct_of_canon {d : Dict MVal} (h : DictCanon d) : KeysDistinct d := by
  refine h.imp ?_
  intro a b hab e
  rw [e] at hab
  simp at hab

theorem keysDistinct_nodup {d : Dict MVal} (h : KeysDistinct d) : d.Nodup :=
  h.imp (fun {a b} hab e => hab (by rw [e]))

/-- the common metadata's detail dicts have distinct keys when all slices' dicts do -/
theorem foldl_common_keysDistinct (rest : List Metadata) (m : Metadata)
    (hm : KeysDistinct m.details ∧ KeysDistinct m.lossDetails)
    (hk : ∀ m' ∈ rest, KeysDistinct m'.lossDetails) :
    KeysDistinct (rest.foldl commonMetadata₂ m).details ∧
    KeysDistinct (rest.foldl commonMetadata₂ m).lossDetails := by
  induction rest generalizing m with
  | nil => exact hm
  | cons m' rest ih =>
    simp only [List.foldl_cons]
    apply ih
    · constructor
      · show KeysDistinct (m.details.filter _)
        exact hm.1.sublist List.filter_sublist
      · show KeysDistinct (m'.lossDetails.filter _)
        exact (hk m' (by simp)).sublist List.filter_sublist
    · intro x hx; exact hk x (by simp [hx])

/-- a key-sorted dict is determined by its items: sorting `common ++ difference` gives back the
slice's (canonical) dict -/
theorem sortItems_recombine {cd dd md : Dict MVal} (hcd : KeysDistinct cd) (hdd : dd.Nodup)
    (hdisj : ∀ kv ∈ dd, cd.contains kv.1 = false) (hmd : DictCanon md)
    (hmem : ∀ kv, kv ∈ cd ++ dd ↔ kv ∈ md) : sortItems (cd ++ dd) = md := by
  have hnd : (cd ++ dd).Nodup := by
    rw [List.nodup_append]
    refine ⟨keysDistinct_nodup hcd, hdd, ?_⟩
    intro x hx y hy e
    have := hdisj y hy
    rw [← e] at this
    have h2 : cd.contains x.1 = true := contains_iff.mpr ⟨x.2, hx⟩
    rw [h2] at this; cases this
  have hp : (cd ++ dd).Perm md :=
    (List.perm_ext_iff_of_nodup hnd (keysDistinct_nodup (keysDistinct_of_canon hmd))).mpr hmem
  have := mergeSort_perm_invariant (cmp := itemCmp) hp (fun a b _ _ h => itemCmp_eq_eq.mp h)
  have h2 : sortItems md = md := sortItems_of_canon hmd
  unfold sortItems at h2 ⊢
  exact this.trans h2

theorem Metadata.ext_fields {a b : Metadata} (h1 : a.riskBasis = b.riskBasis) (h2 : a.country = b.country)
    (h3 : a.currency = b.currency) (h4 : a.reinsuranceBasis = b.reinsuranceBasis)
    (h5 : a.lossDefinition = b.lossDefinition) (h6 : a.limit = b.limit)
    (h7 : a.details = b.details) (h8 : a.lossDetails = b.lossDetails) : a = b := by
  cases a; cases b; simp_all

/-- **common metadata recombines with each entry of `metadata_differences` into that slice's
metadata** (canonical metadata: detail dicts key-sorted, as the wire form and `Metadata.__eq__`
see them) -/
theorem recombine_diff {t : List Cell} {c : Metadata} (h : Triangle.commonMetadata t = .ok c)
    (hc : ∀ m ∈ Triangle.metadata t, m.Canon) {m : Metadata} (hm : m ∈ Triangle.metadata t) :
    recombine c (metadataDiff c m) = m := by
  have hk : ∀ m ∈ Triangle.metadata t, KeysDistinct m.details ∧ KeysDistinct m.lossDetails :=
    fun m hm => ⟨keysDistinct_of_canon (hc m hm).1, keysDistinct_of_canon (hc m hm).2⟩
  obtain ⟨a1, a2, a3, a4, a5, a6⟩ := recombine_diff_attrs h hm
  obtain ⟨d1, d2, d3, d4⟩ := recombine_diff_details h hk hm
  have hcd : KeysDistinct c.details ∧ KeysDistinct c.lossDetails := by
    obtain ⟨m0, rest, hm0, rfl⟩ := commonMetadata_eq_fold h
    refine foldl_common_keysDistinct rest m0 (hk m0 (by rw [hm0]; simp)) ?_
    intro x hx; exact (hk x (by rw [hm0]; simp [hx])).2
  refine Metadata.ext_fields a1 a2 a3 a4 a5 a6 ?_ ?_
  · show sortItems (c.details ++ (metadataDiff c m).details) = m.details
    refine sortItems_recombine hcd.1 ?_ d3 (hc m hm).1 d1
    show (m.details.filter _).Nodup
    exact (keysDistinct_nodup (hk m hm).1).sublist List.filter_sublist
  · show sortItems (c.lossDetails ++ (metadataDiff c m).lossDetails) = m.lossDetails
    refine sortItems_recombine hcd.2 ?_ d4 (hc m hm).2 d2
    show (m.lossDetails.filter _).Nodup
    exact (keysDistinct_nodup (hk m hm).2).sublist List.filter_sublist


/-- `metadata_differences` has one entry per slice, in `metadata` order -/
theorem metadataDifferences_length {t : List Cell} {ds : List Metadata}
    (h : Triangle.metadataDifferences t = .ok ds) : ds.length = (Triangle.metadata t).length := by
  unfold Triangle.metadataDifferences at h
  split at h
  · rename_i hm; cases h; simp [hm]
  · cases hc : Triangle.commonMetadata t with
    | error e => simp [hc, bind, Except.bind] at h
    | ok c => simp [hc, bind, Except.bind, pure, Except.pure] at h; subst h; simp

/-! ### evaluation_date -/

def maxDateStepC13 (acc : Option Date) (d : Date) : Option Date :=
  match acc with
  | none => some d
  | some m => if m < d then some d else some m

theorem maxDate_foldl_some (l : List Date) (m : Date) :
    ∃ d, l.foldl maxDateStepC13 (some m) = some d ∧ (d = m ∨ d ∈ l) ∧ m ≤ d ∧ ∀ x ∈ l, x ≤ d := by
  induction l generalizing m with
  | nil => exact ⟨m, rfl, Or.inl rfl, Date.le_refl m, by simp⟩
  | cons x l ih =>
    simp only [List.foldl_cons, maxDateStepC13]
    by_cases hx : m < x
    · simp only [hx, if_true]
      obtain ⟨d, h1, h2, h3, h4⟩ := ih x
      have hmx : m ≤ x := by
        have := hx; rw [Date.lt_iff_sel] at this; rw [Date.le_iff]; omega
      refine ⟨d, h1, ?_, Date.le_trans hmx h3, ?_⟩
      · rcases h2 with rfl | h2
        · exact Or.inr (by simp)
        · exact Or.inr (by simp [h2])
      · intro y hy
        rcases List.mem_cons.mp hy with rfl | hy
        · exact h3
        · exact h4 y hy
    · simp only [hx, if_false]
      obtain ⟨d, h1, h2, h3, h4⟩ := ih m
      have hxm : x ≤ m := by
        rw [Date.lt_iff_sel] at hx; rw [Date.le_iff]; omega
      refine ⟨d, h1, ?_, h3, ?_⟩
      · rcases h2 with rfl | h2
        · exact Or.inl rfl
        · exact Or.inr (by simp [h2])
      · intro y hy
        rcases List.mem_cons.mp hy with rfl | hy
        · exact Date.le_trans hxm h3
        · exact h4 y hy

theorem maxDate_spec {l : List Date} (hl : l ≠ []) :
    ∃ d, maxDate l = some d ∧ d ∈ l ∧ ∀ x ∈ l, x ≤ d := by
  cases l with
  | nil => exact absurd rfl hl
  | cons a l =>
    obtain ⟨d, h1, h2, h3, h4⟩ := maxDate_foldl_some l a
    refine ⟨d, h1, ?_, ?_⟩
    · rcases h2 with rfl | h2
      · simp
      · simp [h2]
    · intro x hx
      rcases List.mem_cons.mp hx with rfl | hx
      · exact h3
      · exact h4 x hx

/-- **`evaluation_date`** is refused (`TriangleEmptyError`) on the empty triangle and otherwise
is the latest evaluation date present in the cells -/
theorem evaluationDate_spec (t : List Cell) :
    (t = [] → Triangle.evaluationDate t = .error .triangleError) ∧
    (t ≠ [] → ∃ d, Triangle.evaluationDate t = .ok d ∧ (∃ c ∈ t, c.ev = d) ∧ ∀ c ∈ t, c.ev ≤ d) := by
  constructor
  · rintro rfl; rfl
  · intro ht
    obtain ⟨_, hmem⟩ := evaluationDates_eq_sortedDedup t
    have hne : Triangle.evaluationDates t ≠ [] := by
      cases t with
      | nil => exact absurd rfl ht
      | cons c0 rest => exact List.ne_nil_of_mem ((hmem c0.ev).mpr ⟨c0, by simp, rfl⟩)
    obtain ⟨d, h1, h2, h3⟩ := maxDate_spec hne
    refine ⟨d, ?_, (hmem d).mp h2, fun c hc => h3 _ ((hmem c.ev).mpr ⟨c, hc, rfl⟩)⟩
    unfold Triangle.evaluationDate
    have : t.isEmpty = false := by cases t <;> simp_all
    simp [this, h1]

/-! ### num_samples -/

theorem numSamples_fold_some (vs : List Val) (k : Nat)
    (h : ∀ v ∈ vs, ∀ n, v.sampleSize = some n → n = k) :
    vs.foldlM numSamplesStep (some k) = .ok (some k) := by
  induction vs with
  | nil => rfl
  | cons v vs ih =>
    rw [List.foldlM_cons]
    have ih := ih (fun w hw => h w (by simp [hw]))
    cases hs : v.sampleSize with
    | none => simp [numSamplesStep, hs, bind, Except.bind, ih]
    | some n =>
      have : n = k := h v (by simp) n hs
      subst this
      simp [numSamplesStep, hs, bind, Except.bind, ih]

theorem numSamples_fold_none (vs : List Val) (k : Nat)
    (h : ∀ v ∈ vs, ∀ n, v.sampleSize = some n → n = k) :
    vs.foldlM numSamplesStep none =
      .ok (if vs.any (fun v => v.sampleSize.isSome) then some k else none) := by
  induction vs with
  | nil => rfl
  | cons v vs ih =>
    rw [List.foldlM_cons]
    have ih := ih (fun w hw => h w (by simp [hw]))
    cases hs : v.sampleSize with
    | none => simp [numSamplesStep, hs, bind, Except.bind, ih]
    | some n =>
      have : n = k := h v (by simp) n hs
      subst this
      simp [numSamplesStep, hs, bind, Except.bind,
        numSamples_fold_some vs n (fun w hw => h w (by simp [hw]))]

theorem numSamples_fold_some_error (vs : List Val) (k : Nat)
    (h : ∃ v ∈ vs, ∃ n, v.sampleSize = some n ∧ n ≠ k) :
    vs.foldlM numSamplesStep (some k) = .error .valueError := by
  induction vs with
  | nil => obtain ⟨v, hv, _⟩ := h; simp at hv
  | cons v vs ih =>
    rw [List.foldlM_cons]
    cases hs : v.sampleSize with
    | none =>
      have : ∃ w ∈ vs, ∃ n, w.sampleSize = some n ∧ n ≠ k := by
        obtain ⟨w, hw, n, hn, hne⟩ := h
        rcases List.mem_cons.mp hw with rfl | hw
        · rw [hs] at hn; cases hn
        · exact ⟨w, hw, n, hn, hne⟩
      simp [numSamplesStep, hs, bind, Except.bind, ih this]
    | some n =>
      by_cases hn : n = k
      · subst hn
        have : ∃ w ∈ vs, ∃ n', w.sampleSize = some n' ∧ n' ≠ n := by
          obtain ⟨w, hw, n', hn', hne⟩ := h
          rcases List.mem_cons.mp hw with rfl | hw
          · rw [hs] at hn'; cases hn'; exact absurd rfl hne
          · exact ⟨w, hw, n', hn', hne⟩
        simp [numSamplesStep, hs, bind, Except.bind, ih this]
      · have : (k != n) = true := by simp; exact fun e => hn e.symm
        simp [numSamplesStep, hs, bind, Except.bind, this]

theorem numSamples_fold_none_error (vs : List Val)
    (h : ∃ v ∈ vs, ∃ w ∈ vs, ∃ n n', v.sampleSize = some n ∧ w.sampleSize = some n' ∧ n ≠ n') :
    vs.foldlM numSamplesStep none = .error .valueError := by
  induction vs with
  | nil => obtain ⟨v, hv, _⟩ := h; simp at hv
  | cons x vs ih =>
    rw [List.foldlM_cons]
    obtain ⟨v, hv, w, hw, n, n', hn, hn', hne⟩ := h
    cases hs : x.sampleSize with
    | none =>
      have hv' : v ∈ vs := by
        rcases List.mem_cons.mp hv with rfl | hv
        · rw [hs] at hn; cases hn
        · exact hv
      have hw' : w ∈ vs := by
        rcases List.mem_cons.mp hw with rfl | hw
        · rw [hs] at hn'; cases hn'
        · exact hw
      simp [numSamplesStep, hs, bind, Except.bind, ih ⟨v, hv', w, hw', n, n', hn, hn', hne⟩]
    | some k =>
      have : ∃ y ∈ vs, ∃ j, y.sampleSize = some j ∧ j ≠ k := by
        by_cases hk : n = k
        · refine ⟨w, ?_, n', hn', fun e => hne (hk.trans e.symm)⟩
          rcases List.mem_cons.mp hw with rfl | hw
          · rw [hs] at hn'; cases hn'; exact absurd hk hne
          · exact hw
        · refine ⟨v, ?_, n, hn, hk⟩
          rcases List.mem_cons.mp hv with rfl | hv
          · rw [hs] at hn; cases hn; exact absurd rfl hk
          · exact hv
      simp [numSamplesStep, hs, bind, Except.bind, numSamples_fold_some_error vs k this]

/-- all cell values of the triangle, in iteration order -/
def allValues (t : List Cell) : List Val := t.flatMap fun c => c.values.map (·.2)

/-- **`num_samples`**: when every sample array (size > 1) in the triangle has the same size `k`,
the answer is `k` if there is such an array and 1 otherwise; when two sample arrays differ in
size it is refused with `ValueError` -/
theorem numSamples_spec (t : List Cell) :
    (∀ k, (∀ v ∈ allValues t, ∀ n, v.sampleSize = some n → n = k) →
      Triangle.numSamples t =
        .ok (if (allValues t).any (fun v => v.sampleSize.isSome) then k else 1)) ∧
    ((∃ v ∈ allValues t, ∃ w ∈ allValues t, ∃ n n',
        v.sampleSize = some n ∧ w.sampleSize = some n' ∧ n ≠ n') →
      Triangle.numSamples t = .error .valueError) := by
  constructor
  · intro k hk
    have := numSamples_fold_none (allValues t) k hk
    show (do let r ← (allValues t).foldlM numSamplesStep none; pure (r.getD 1)) = _
    rw [this]
    cases (allValues t).any (fun v => v.sampleSize.isSome) <;> rfl
  · intro h
    have := numSamples_fold_none_error (allValues t) h
    show (do let r ← (allValues t).foldlM numSamplesStep none; pure (r.getD 1)) = _
    rw [this]
    rfl


/-! ### the taxonomy agrees with the independent definitions -/

theorem duration_eq_iff (u : LagUnit) (a b : Cell) :
    duration u a = duration u b ↔ periodLength u a.period = periodLength u b.period := by
  cases u
  · exact Iff.rfl
  all_goals
    simp only [duration, periodLength, Cell.period, Rat.intCast_inj]
    omega

/-- **`is_semi_regular` ⇔ disjoint and all periods of equal length** (the independent,
pairwise-over-cells definition `Spec.C13.semiRegular`) -/
theorem isSemiRegular_iff_equal_lengths (t : List Cell) (u : LagUnit) (hv : ∀ c ∈ t, c.ps ≤ c.pe) :
    Triangle.isSemiRegular t (some u) = .ok (semiRegular t u) := by
  unfold Triangle.isSemiRegular semiRegular
  rw [isDisjoint_eq_spec t hv]
  cases hd : disjoint t with
  | false => simp
  | true =>
    simp only [Bool.not_true, Bool.false_eq_true, if_false, Bool.true_and]
    cases t with
    | nil => simp [equalLengths]
    | cons c0 rest =>
      simp only [List.isEmpty_cons, Bool.false_eq_true, if_false]
      obtain ⟨_, hmem⟩ := periods_eq_sortedDedup (c0 :: rest)
      cases hp : Triangle.periods (c0 :: rest) with
      | nil =>
        have : c0.period ∈ Triangle.periods (c0 :: rest) := (hmem _).mpr ⟨c0, by simp, rfl⟩
        rw [hp] at this; simp at this
      | cons base ps =>
        simp only []
        congr 1
        rw [Bool.eq_iff_iff]
        simp only [List.all_eq_true, equalLengths, beq_iff_eq, duration_eq_iff]
        constructor
        · intro h a ha b hb
          have key : ∀ c ∈ c0 :: rest, periodLength u c.period = periodLength u base := by
            intro c hc
            have : c.period ∈ base :: ps := hp ▸ (hmem _).mpr ⟨c, hc, rfl⟩
            rcases List.mem_cons.mp this with e | e
            · rw [e]
            · exact h _ e
          rw [key a ha, key b hb]
        · intro h p hpm
          obtain ⟨a, ha, rfl⟩ := (hmem p).mp (hp ▸ List.mem_cons_of_mem _ hpm)
          obtain ⟨b, hb, hbe⟩ := (hmem base).mp (hp ▸ List.mem_cons_self)
          rw [← hbe]; exact h a ha b hb

theorem ratCmp_lt_iff (a b : Rat) : ratCmp a b = .lt ↔ a < b := by
  unfold ratCmp compareOfLessAndEq
  split
  · simp_all
  · split <;> simp_all

/-- consecutive differences all equal `d` -/
def constDiffC13 (d : Rat) : List Rat → Prop
  | a :: b :: r => b - a = d ∧ constDiffC13 d (b :: r)
  | _ => True

/-- the documented "constant lag spacing" over a set of lags: neighbouring lags (no lag strictly
in between) are equally far apart -/
def SpacedC13 (S : Rat → Prop) : Prop :=
  ∀ x y z, S x → S y → S z → x < y → y < z →
    (∀ w, S w → ¬ (x < w ∧ w < y)) → (∀ w, S w → ¬ (y < w ∧ w < z)) → y - x = z - y

theorem spaced_cons (a b c : Rat) (r : List Rat) (hs : (a :: b :: c :: r).Pairwise (· < ·)) :
    SpacedC13 (· ∈ a :: b :: c :: r) ↔ (b - a = c - b) ∧ SpacedC13 (· ∈ b :: c :: r) := by
  have h1 := List.pairwise_cons.mp hs
  have h2 := List.pairwise_cons.mp h1.2
  have h3 := List.pairwise_cons.mp h2.2
  have hab : a < b := h1.1 b (by simp)
  have hbc : b < c := h2.1 c (by simp)
  constructor
  · intro h
    constructor
    · refine h a b c (by simp) (by simp) (by simp) hab hbc ?_ ?_
      · intro w hw ⟨h5, h6⟩
        rcases List.mem_cons.mp hw with rfl | hw
        · grind
        · rcases List.mem_cons.mp hw with rfl | hw
          · grind
          · have := h2.1 w hw; grind
      · intro w hw ⟨h5, h6⟩
        rcases List.mem_cons.mp hw with rfl | hw
        · grind
        · rcases List.mem_cons.mp hw with rfl | hw
          · grind
          · rcases List.mem_cons.mp hw with rfl | hw
            · grind
            · have := h3.1 w hw; grind
    · intro x y z hx hy hz hxy hyz n1 n2
      refine h x y z (List.mem_cons_of_mem _ hx) (List.mem_cons_of_mem _ hy) (List.mem_cons_of_mem _ hz)
        hxy hyz ?_ ?_
      · intro w hw ⟨h5, h6⟩
        rcases List.mem_cons.mp hw with rfl | hw
        · have := h1.1 x hx; grind
        · exact n1 w hw ⟨h5, h6⟩
      · intro w hw ⟨h5, h6⟩
        rcases List.mem_cons.mp hw with rfl | hw
        · have := h1.1 y hy; grind
        · exact n2 w hw ⟨h5, h6⟩
  · rintro ⟨hd, h⟩ x y z hx hy hz hxy hyz n1 n2
    rcases List.mem_cons.mp hx with rfl | hx
    · -- x = a: then y = b and z = c
      have hy' : y ∈ b :: c :: r := by
        rcases List.mem_cons.mp hy with rfl | hy
        · grind
        · exact hy
      have hyb : y = b := by
        rcases List.mem_cons.mp hy' with e | hy''
        · exact e
        · have := h2.1 y hy''
          exact absurd ⟨hab, this⟩ (n1 b (by simp))
      subst hyb
      have hz' : z ∈ c :: r := by
        rcases List.mem_cons.mp hz with rfl | hz
        · grind
        · rcases List.mem_cons.mp hz with rfl | hz
          · grind
          · exact hz
      have hzc : z = c := by
        rcases List.mem_cons.mp hz' with e | hz''
        · exact e
        · have := h3.1 z hz''
          exact absurd ⟨hbc, this⟩ (n2 c (by simp))
      subst hzc
      exact hd
    · have hax := h1.1 x hx
      have hy' : y ∈ b :: c :: r := by
        rcases List.mem_cons.mp hy with rfl | hy
        · grind
        · exact hy
      have hz' : z ∈ b :: c :: r := by
        rcases List.mem_cons.mp hz with rfl | hz
        · grind
        · exact hz
      exact h x y z hx hy' hz' hxy hyz (fun w hw => n1 w (List.mem_cons_of_mem _ hw))
        (fun w hw => n2 w (List.mem_cons_of_mem _ hw))

theorem spaced_iff_constDiff (a b : Rat) (r : List Rat) (hs : (a :: b :: r).Pairwise (· < ·)) :
    SpacedC13 (· ∈ a :: b :: r) ↔ constDiffC13 (b - a) (b :: r) := by
  induction r generalizing a b with
  | nil =>
    simp only [constDiffC13, iff_true]
    intro x y z hx hy hz hxy hyz _ _
    simp only [List.mem_cons, List.not_mem_nil, or_false] at hx hy hz
    grind
  | cons c r ih =>
    rw [spaced_cons a b c r hs, ih b c (List.pairwise_cons.mp hs).2]
    simp only [constDiffC13]
    constructor
    · rintro ⟨h1, h2⟩
      refine ⟨h1.symm, ?_⟩
      rw [h1]; exact h2
    · rintro ⟨h1, h2⟩
      refine ⟨h1.symm, ?_⟩
      rw [h1]; exact h2

theorem zip_all_iff_constDiff (d : Rat) (l1 : Rat) (rest : List Rat) :
    (((l1 :: rest).zip rest).all fun (pn : Rat × Rat) => pn.2 - pn.1 == d) = true ↔
      constDiffC13 d (l1 :: rest) := by
  induction rest generalizing l1 with
  | nil => simp [constDiffC13]
  | cons x rest ih =>
    simp only [List.zip_cons_cons, List.all_cons, Bool.and_eq_true, beq_iff_eq, constDiffC13]
    rw [ih x]

theorem noneBetween_iff (L : List Rat) (x y : Rat) :
    (L.all fun w => !(decide (x < w) && decide (w < y))) = true ↔ ∀ w ∈ L, ¬ (x < w ∧ w < y) := by
  simp only [List.all_eq_true, Bool.not_eq_true', Bool.and_eq_false_iff, decide_eq_false_iff_not]
  constructor
  · intro h w hw ⟨h1, h2⟩
    rcases h w hw with h' | h'
    · exact h' h1
    · exact h' h2
  · intro h w hw
    by_cases h1 : x < w
    · exact Or.inr (fun h2 => h w hw ⟨h1, h2⟩)
    · exact Or.inl h1

theorem constSpacing_iff (t : List Cell) (u : LagUnit) :
    constSpacing t u = true ↔ SpacedC13 (· ∈ t.map (·.devLag u)) := by
  simp only [constSpacing, List.all_eq_true]
  constructor
  · intro h x y z hx hy hz hxy hyz n1 n2
    have := h x (List.mem_eraseDups.mpr hx) y (List.mem_eraseDups.mpr hy) z (List.mem_eraseDups.mpr hz)
    have hA : (decide (x < y) && decide (y < z) &&
        ((t.map (·.devLag u)).eraseDups.all fun w => !(decide (x < w) && decide (w < y))) &&
        ((t.map (·.devLag u)).eraseDups.all fun w => !(decide (y < w) && decide (w < z)))) = true := by
      simp only [Bool.and_eq_true, decide_eq_true_eq, noneBetween_iff]
      exact ⟨⟨⟨hxy, hyz⟩, fun w hw => n1 w (List.mem_eraseDups.mp hw)⟩,
        fun w hw => n2 w (List.mem_eraseDups.mp hw)⟩
    rw [hA] at this
    simpa using this
  · intro h x hx y hy z hz
    cases hA : (decide (x < y) && decide (y < z) &&
        ((t.map (·.devLag u)).eraseDups.all fun w => !(decide (x < w) && decide (w < y))) &&
        ((t.map (·.devLag u)).eraseDups.all fun w => !(decide (y < w) && decide (w < z)))) with
    | false => simp
    | true =>
      simp only [Bool.and_eq_true, decide_eq_true_eq, noneBetween_iff] at hA
      obtain ⟨⟨⟨hxy, hyz⟩, n1⟩, n2⟩ := hA
      have := h x y z (List.mem_eraseDups.mp hx) (List.mem_eraseDups.mp hy) (List.mem_eraseDups.mp hz)
        hxy hyz (fun w hw => n1 w (List.mem_eraseDups.mpr hw)) (fun w hw => n2 w (List.mem_eraseDups.mpr hw))
      simp [this]

theorem spaced_congr {S S' : Rat → Prop} (h : ∀ x, S x ↔ S' x) : SpacedC13 S ↔ SpacedC13 S' := by
  have : S = S' := funext fun x => propext (h x)
  rw [this]

/-- **`is_regular` ⇔ semi-regular and constant lag spacing** (the independent definition
`Spec.C13.regular`: neighbouring development lags are equally far apart) -/
theorem isRegular_iff_const_spacing (t : List Cell) (u : LagUnit) (hv : ∀ c ∈ t, c.ps ≤ c.pe) :
    Triangle.isRegular t (some u) = .ok (regular t u) := by
  unfold Triangle.isRegular regular
  rw [isSemiRegular_iff_equal_lengths t u hv]
  simp only [bind, Except.bind, pure, Except.pure]
  cases hsr : semiRegular t u with
  | false => simp
  | true =>
    simp only [Bool.not_true, Bool.false_eq_true, if_false, Bool.true_and]
    cases t with
    | nil => simp [constSpacing]
    | cons c0 rest =>
      simp only [List.isEmpty_cons, Bool.false_eq_true, if_false]
      obtain ⟨L, hL, hsorted, hmem⟩ := devLags_eq_sortedDedup (c0 :: rest) u
      have hsorted' : L.Pairwise (· < ·) := hsorted.imp (fun {a b} h => (ratCmp_lt_iff a b).mp h)
      have hS : SpacedC13 (· ∈ L) ↔ constSpacing (c0 :: rest) u = true := by
        rw [constSpacing_iff]
        apply spaced_congr
        intro x; rw [hmem, List.mem_map]
      rw [hL]
      cases L with
      | nil =>
        have : c0.devLag u ∈ ([] : List Rat) := (hmem _).mpr ⟨c0, by simp, rfl⟩
        simp at this
      | cons a L =>
        cases L with
        | nil =>
          simp only []
          congr 1
          symm
          apply hS.mp
          intro x y z hx hy hz hxy hyz _ _
          simp only [List.mem_cons, List.not_mem_nil, or_false] at hx hy
          grind
        | cons b r =>
          simp only []
          congr 1
          rw [Bool.eq_iff_iff, ← hS, spaced_iff_constDiff a b r hsorted', ← zip_all_iff_constDiff]


/-! ### 8. non-vacuity -/

/-- `common_metadata` is defined on every non-empty triangle, so the hypotheses
`Triangle.commonMetadata t = .ok c` above are satisfiable -/
theorem commonMetadata_ok_of_ne_nil {t : List Cell} (ht : t ≠ []) :
    ∃ c, Triangle.commonMetadata t = .ok c := by
  obtain ⟨_, _, hcov⟩ := metasOf_spec t
  have hperm : (Triangle.metadata t).Perm (metasOf t) := List.mergeSort_perm _ _
  cases t with
  | nil => exact absurd rfl ht
  | cons c0 rest =>
    have hmem : c0.md ∈ Triangle.metadata (c0 :: rest) := hperm.mem_iff.mpr (hcov c0 (by simp))
    unfold Triangle.commonMetadata
    split
    · rename_i h; rw [h] at hmem; simp at hmem
    · exact ⟨_, rfl⟩
    · exact ⟨_, rfl⟩

def exT : List Cell :=
  [ { ps := ⟨2020, 1, 1⟩, pe := ⟨2020, 12, 31⟩, ev := ⟨2020, 12, 31⟩, values := [("paid_loss", .int 1)] },
    { ps := ⟨2020, 1, 1⟩, pe := ⟨2020, 12, 31⟩, ev := ⟨2021, 12, 31⟩, values := [("paid_loss", .int 2)],
      md := { country := some "US" } },
    { ps := ⟨2021, 1, 1⟩, pe := ⟨2021, 12, 31⟩, ev := ⟨2021, 12, 31⟩, values := [("paid_loss", .int 3)] } ]

/-- the hypotheses hold for a concrete 2-slice triangle: proper periods (so the adjacent
disjointness test is complete on it) and a defined common metadata -/
example : (∀ c ∈ exT, c.ps ≤ c.pe) ∧ (∀ c ∈ exT, c.md.Canon) ∧ ∃ c, Triangle.commonMetadata exT = .ok c :=
  ⟨by decide, by decide, commonMetadata_ok_of_ne_nil (by decide)⟩

/-! ### is_slicewise_disjoint, slice_period_rows (triangle.py:347-352, 446-452) -/

/-- **`is_slicewise_disjoint` is "no two different periods of ONE slice share a day"**, computed pairwise
over the cells (no slices, no sorting, no adjacent-pair trick) -/
theorem isSlicewiseDisjoint_eq_spec (t : List Cell) (hv : ∀ c ∈ t, c.ps ≤ c.pe) :
    Triangle.isSlicewiseDisjoint t = slicewiseDisjoint t := by
  rw [Bool.eq_iff_iff]
  unfold Triangle.isSlicewiseDisjoint slicewiseDisjoint
  simp only [List.all_eq_true]
  constructor
  · intro h a ha b hb
    by_cases hm : a.md = b.md
    · obtain ⟨s, hs, hs1⟩ := AccessorsExtL.slice_of_mem ha
      have hd := h s hs
      rw [isDisjoint_eq_spec s.2 (fun c hc => hv c ((AccessorsExtL.mem_slice_iff hs c).mp hc).1)] at hd
      unfold disjoint at hd
      simp only [List.all_eq_true] at hd
      have := hd a ((AccessorsExtL.mem_slice_iff hs a).mpr ⟨ha, hs1.symm⟩) b ((AccessorsExtL.mem_slice_iff hs b).mpr ⟨hb, by rw [hs1, hm]⟩)
      simp only [Bool.or_eq_true] at this ⊢
      rcases this with h1 | h1
      · exact Or.inl (Or.inr h1)
      · exact Or.inr h1
    · simp [hm]
  · intro h s hs
    rw [isDisjoint_eq_spec s.2 (fun c hc => hv c ((AccessorsExtL.mem_slice_iff hs c).mp hc).1)]
    unfold disjoint
    simp only [List.all_eq_true]
    intro a ha b hb
    obtain ⟨ha1, ha2⟩ := (AccessorsExtL.mem_slice_iff hs a).mp ha
    obtain ⟨hb1, hb2⟩ := (AccessorsExtL.mem_slice_iff hs b).mp hb
    have := h a ha1 b hb1
    simp only [Bool.or_eq_true] at this ⊢
    rcases this with (h1 | h1) | h1
    · simp [ha2, hb2] at h1
    · exact Or.inl h1
    · exact Or.inr h1

/-- Spec bridge: the model satisfies the predicate the driver evaluates on the implementation's answer -/
theorem spec_isSlicewiseDisjoint (t : List Cell) (hv : ∀ c ∈ t, c.ps ≤ c.pe) :
    slicewiseDisjointSpec t (Triangle.isSlicewiseDisjoint t) = true := by
  unfold slicewiseDisjointSpec
  rw [isSlicewiseDisjoint_eq_spec t hv]; exact beq_self_eq_true _

/-- nesting: a disjoint triangle is slicewise disjoint -/
theorem isSlicewiseDisjoint_of_isDisjoint (t : List Cell) (hv : ∀ c ∈ t, c.ps ≤ c.pe)
    (h : Triangle.isDisjoint t = true) : Triangle.isSlicewiseDisjoint t = true := by
  rw [isSlicewiseDisjoint_eq_spec t hv]
  rw [isDisjoint_eq_spec t hv] at h
  unfold disjoint at h
  unfold slicewiseDisjoint
  simp only [List.all_eq_true] at h ⊢
  intro a ha b hb
  have := h a ha b hb
  simp only [Bool.or_eq_true] at this ⊢
  rcases this with h1 | h1
  · exact Or.inl (Or.inr h1)
  · exact Or.inr h1

/-- **`slice_period_rows` partitions the cells by (metadata, period)**: keys pairwise different and ascending
by (metadata, period), no empty row, every cell in the row of its own key, every row ascending by evaluation
date, all rows together a permutation of the cells (Spec `rowsSpec`, evaluated by the driver on the
implementation's rows) -/
theorem slicePeriodRows_spec (t : List Cell) : rowsSpec t (Triangle.slicePeriodRows t) = true :=
  AccessorsExtL.rowsSpec_slicePeriodRows t

/-- the keys of `slice_period_rows` are exactly the (metadata, period) pairs present in the cells -/
theorem slicePeriodRows_keys (t : List Cell) (k : RowKey) :
    k ∈ (Triangle.slicePeriodRows t).map (·.1) ↔ ∃ c ∈ t, c.rowKey = k := by
  rw [AccessorsExtL.rows_keys, ((List.mergeSort_perm _ _).map _).mem_iff, JoinL.groupBy_keys,
    JoinL.mem_firstKeys]

/-- non-vacuity: two slices whose periods overlap ACROSS slices only -- slicewise disjoint, not disjoint -/
example :
    let a : Cell := { ps := ⟨2020, 1, 1⟩, pe := ⟨2020, 6, 30⟩, ev := ⟨2020, 6, 30⟩ }
    let b : Cell := { ps := ⟨2020, 4, 1⟩, pe := ⟨2020, 9, 30⟩, ev := ⟨2020, 9, 30⟩,
                      md := { country := some "US" } }
    slicewiseDisjoint [a, b] = true ∧ disjoint [a, b] = false ∧
      slicewiseDisjoint [a, { b with md := {} }] = false := by decide +kernel

end Bermuda.Properties.C13
