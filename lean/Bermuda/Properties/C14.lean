/-
C14 — CSV, array-frame and Matrix forms round-trip coordinates, slices and numbers (PARTIAL).
-/
import Bermuda.Model.Frame
import Bermuda.Spec.C14
namespace Bermuda.Properties.C14
open Bermuda Bermuda.Frame Bermuda.Spec.C14

/-- what the group-by key of a data-frame reader has to contain so that it determines a row's
coordinates and its full slice metadata -/
def requiredKeys : List String :=
  ["period_start", "period_end", "evaluation_date", "risk_basis", "country", "currency",
   "reinsurance_basis", "loss_definition", "per_occurrence_limit", "$detail_cols", "$loss_detail_cols"]

def keysCover (fn : String) : Bool :=
  match Generated.Frame.groupByKeys.find? (·.1 == fn) with
  | some (_, ks) => requiredKeys.all ks.contains
  | none => false

/-- **slices_preserved (table form).** Both readers group by the coordinates, ALL six metadata
columns and the detail / loss-detail columns — stated over the key lists regenerated from the
source (this is the statement that was false before fix D9: four columns were missing). -/
theorem slices_preserved_keys :
    Generated.Frame.ok = true ∧ keysCover "wide_data_frame_to_triangle" = true ∧
    keysCover "long_data_frame_to_triangle" = true := by decide

end Bermuda.Properties.C14
