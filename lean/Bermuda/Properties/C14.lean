/-
C14 — CSV, array-frame and Matrix forms round-trip coordinates, slices and numbers (PARTIAL:
pandas' text layer is trusted / opaque; the theorems are about the row algebra of
`Model/Frame.lean`). Only property theorems here; helpers in `Lemmas/Frame.lean`.

The group-by key lists are NOT part of the hand-written model: `Frame.groupCols` reads them from
`Bermuda.Generated.FrameKeys.groupByKeys` — the `by` lists OBSERVED by harness/translate_c14.py on
probe frames (a recording wrapper around `DataFrame.groupby`; keys present on every probe),
regenerated on every run —, so the two
`slices_preserved_*` theorems are re-proved against what `data_frame_input.py` says now. Before fix
D9 `slices_preserved_keys` was false (country, currency, reinsurance_basis, loss_definition missing).
-/
import Bermuda.Lemmas.FrameMatrix
import Bermuda.Lemmas.FrameLongIncr
import Bermuda.Lemmas.FrameMatrixIndex
import Bermuda.Lemmas.FrameRich
import Bermuda.Lemmas.FrameStatics
import Bermuda.Model.FrameDF
import Bermuda.Lemmas.FrameRichDisagg
import Bermuda.Lemmas.FrameParse
import Bermuda.Lemmas.FrameArrayFull
import Bermuda.Lemmas.FrameRows
import Bermuda.Lemmas.FrameMatrixTotal
import Bermuda.Lemmas.FrameInfer
import Bermuda.Lemmas.FrameFieldPerm
import Bermuda.Lemmas.TabularLongLossFull
import Bermuda.Properties.C10
namespace Bermuda.Properties.C14
open Bermuda Bermuda.Frame Bermuda.Spec.C14

/-- **slices_preserved (table form).** Both readers group by the coordinates, ALL six metadata
columns and the detail / loss-detail columns — a statement about the regenerated key lists. -/
theorem slices_preserved_keys :
    Generated.FrameKeys.ok = true ∧ keysCover "wide_data_frame_to_triangle" = true ∧
    keysCover "long_data_frame_to_triangle" = true := by decide

/-- **slices_preserved.** In a reader whose generated key list covers the required keys, two rows
with the same group key have the same full slice metadata (all six attributes, details and loss
details): rows of different slices are never put in one group, whatever single attribute or
detail distinguishes the slices. (`h₁`, `h₂`: a column that is not in the table has no entries.) -/
theorem groupKey_determines_metadata {fn : String} (h : keysCover fn = true)
    (cols d l : List String) (r₁ r₂ : Row)
    (h₁ : ∀ k, k ∉ cols → Row.col r₁ k = .none) (h₂ : ∀ k, k ∉ cols → Row.col r₂ k = .none)
    (hkey : (groupCols fn d l).map (keyEntry cols d l r₁) = (groupCols fn d l).map (keyEntry cols d l r₂)) :
    rowMetadata r₁ d l = rowMetadata r₂ d l := by
  have hcol : ∀ x ∈ groupCols fn d l, Row.col r₁ x = Row.col r₂ x :=
    fun x hx => col_eq_of_key cols d l r₁ r₂ h₁ h₂ hkey hx
  have six : ∀ k ∈ ["risk_basis", "country", "currency", "reinsurance_basis", "loss_definition",
      "per_occurrence_limit"], Row.col r₁ k = Row.col r₂ k := by
    intro k hk
    apply hcol
    refine mem_groupCols h d l (k := k) ?_ ?_
    · simp only [List.mem_cons, List.not_mem_nil, or_false] at hk
      rcases hk with rfl | rfl | rfl | rfl | rfl | rfl <;> decide
    · simp only [List.mem_cons, List.not_mem_nil, or_false] at hk
      rcases hk with rfl | rfl | rfl | rfl | rfl | rfl <;> simp [expandKey]
  have hd : ∀ x ∈ d, Row.col r₁ x = Row.col r₂ x := fun x hx =>
    hcol x (mem_groupCols h d l (k := "$detail_cols") (by decide) (by simpa [expandKey] using hx))
  have hl : ∀ x ∈ l, Row.col r₁ x = Row.col r₂ x := fun x hx =>
    hcol x (mem_groupCols h d l (k := "$loss_detail_cols") (by decide) (by simpa [expandKey] using hx))
  have e1 := six "risk_basis" (by simp)
  have e2 := six "country" (by simp)
  have e3 := six "currency" (by simp)
  have e4 := six "reinsurance_basis" (by simp)
  have e5 := six "loss_definition" (by simp)
  have e6 := six "per_occurrence_limit" (by simp)
  unfold rowMetadata rowStr rowDetails
  simp only [e1, e2, e3, e4, e5, e6]
  congr 2
  · apply filterMap_congr'
    intro x hx
    unfold rowDetail
    rw [hd x (List.mem_filter.mp hx).1]
  · apply filterMap_congr'
    intro x hx
    unfold rowDetail
    rw [hl x hx]


/-- the two readers of the library satisfy the hypothesis of `groupKey_determines_metadata` -/
theorem slices_preserved_wide (cols d l : List String) (r₁ r₂ : Row)
    (h₁ : ∀ k, k ∉ cols → Row.col r₁ k = .none) (h₂ : ∀ k, k ∉ cols → Row.col r₂ k = .none)
    (hkey : (groupCols "wide_data_frame_to_triangle" d l).map (keyEntry cols d l r₁) =
            (groupCols "wide_data_frame_to_triangle" d l).map (keyEntry cols d l r₂)) :
    rowMetadata r₁ d l = rowMetadata r₂ d l :=
  groupKey_determines_metadata slices_preserved_keys.2.1 cols d l r₁ r₂ h₁ h₂ hkey

theorem slices_preserved_long (cols d l : List String) (r₁ r₂ : Row)
    (h₁ : ∀ k, k ∉ cols → Row.col r₁ k = .none) (h₂ : ∀ k, k ∉ cols → Row.col r₂ k = .none)
    (hkey : (groupCols "long_data_frame_to_triangle" d l).map (keyEntry cols d l r₁) =
            (groupCols "long_data_frame_to_triangle" d l).map (keyEntry cols d l r₂)) :
    rowMetadata r₁ d l = rowMetadata r₂ d l :=
  groupKey_determines_metadata slices_preserved_keys.2.2 cols d l r₁ r₂ h₁ h₂ hkey

/-- **rows_count (wide).** The wide table has one row per cell and scenario: the number of rows
is the sum over the cells of their common sample length. -/
theorem rows_count_wide {t : List Cell} {tb : Table} (h : toWideRows t = .ok tb) :
    wideRowCount t = some tb.rows.length := by
  unfold toWideRows at h
  cases hm : t.mapM (fun c => cellWideRows c (allMetadataNames t) (allFields t)) with
  | error e => simp [hm, Except.bind] at h
  | ok rss =>
    simp only [hm, Except.bind] at h
    cases hd : dropConstantScenario rss.flatten with
    | error e => simp [hd, Except.map] at h
    | ok rows =>
      simp only [hd, Except.map] at h
      cases h
      unfold wideRowCount
      dsimp only
      rw [mapM_transfer _ _ List.length ?_ t rss hm]
      · simp [mkTable, dropConstantScenario_length hd]
      · intro a b hab
        simp [cellWideRows_length hab]

/-- **rows_count (long).** The long table has one row per cell, scenario and field present in
that scenario. -/
theorem rows_count_long {t : List Cell} {tb : Table} (h : toLongRows t = .ok tb) :
    longRowCount t = some tb.rows.length := by
  unfold toLongRows at h
  cases hm : t.mapM (fun c => cellLongRows c (allMetadataNames t)) with
  | error e => simp [hm, Except.bind] at h
  | ok rss =>
    simp only [hm, Except.bind] at h
    cases hd : dropConstantScenario rss.flatten with
    | error e => simp [hd, Except.map] at h
    | ok rows =>
      simp only [hd, Except.map] at h
      cases h
      unfold longRowCount
      rw [mapM_transfer _ _ List.length ?_ t rss hm]
      · simp [mkTable, dropConstantScenario_length hd]
      · intro a b hab
        obtain ⟨fds, hf, hl⟩ := cellLongRows_length hab
        simp [hf, hl]

/-- **fromWide_toWide** (cumulative triangles, `WFwide`: non-empty, strictly sorted, `Cell` /
`CumulativeCell`, table-safe metadata and column names, every cell all-scalar or all-sample; the cells
may carry DIFFERENT field sets, sampled ones too — a field a cell lacks is empty in each of its scenario
rows and is dropped again by the reader (fix D24; before it the reader returned `array([None, …],
dtype=object)` there); `D` / `L` the detail / loss-detail columns handed to the reader).
Writing the triangle to the wide table and reading it back — grouping the rows by the key list
REGENERATED from `data_frame_input.py` — gives the triangle itself: same cells in the same order,
coordinates, slice metadata (all eight attributes), field sets, numbers as floats (a one-sample array
as its scalar), sample order; every slice stays separate. -/
theorem fromWide_toWide {t : List Cell} {D L : List String} (h : WFwide t D L) :
    okAnd (fun out => wideSpec t out && slicesSpec false t out)
      ((toWideRows t).bind fun tb => fromWideRows tb (allFields t) D L) = true :=
  Frame.fromWide_toWide h

/-! ### non-vacuity and a concrete round trip (kernel evaluation of the model) -/

def exCell (ev : Date) (v : Val) (country : String) : Cell :=
  { kind := .cumulative, ps := ⟨2020, 1, 1⟩, pe := ⟨2020, 12, 31⟩, ev := ev,
    values := [("paid_loss", v)],
    md := { country := some country, details := [("coverage", .str "BI")] } }

/-- two slices that differ ONLY in `country`, two samples per cell -/
def ex : List Cell :=
  [exCell ⟨2020, 12, 31⟩ (.arr false [2] [1, 2]) "DE", exCell ⟨2021, 12, 31⟩ (.arr false [2] [3, 5/2]) "DE",
   exCell ⟨2020, 12, 31⟩ (.arr false [2] [7, 8]) "US"]

def backWide (t : List Cell) : Except Err (List Cell) :=
  (toWideRows t).bind fun tb => fromWideRows tb ["paid_loss"] ["coverage"] []

def backLong (t : List Cell) : Except Err (List Cell) :=
  (toLongRows t).bind fun tb => fromLongRows tb []

theorem ex_rows : wideRowCount ex = some 6 ∧ longRowCount ex = some 6 := by decide +kernel

/-- a one-cell triangle (the kernel cannot evaluate `List.mergeSort` on two or more elements, so
the concrete round trip is stated for one scalar cell; larger inputs are the correspondence's job) -/
def ex0 : List Cell := [exCell ⟨2020, 12, 31⟩ (.flt (5/2)) "DE"]

theorem ex0_fromWide_toWide :
    okAnd (fun out => wideSpec ex0 out && slicesSpec false ex0 out) (backWide ex0) = true := by
  decide +kernel

theorem ex0_fromLong_toLong :
    okAnd (fun out => longSpec ex0 out && slicesSpec true ex0 out) (backLong ex0) = true := by
  decide +kernel

/-- **fromLong_toLong** (cumulative triangles, `WFlong`: as `WFwide`, with disjoint detail /
loss-detail key universes `DK` / `LK`, every cell with at least one field, and no two cells that
coincide once the loss details are folded into the details). Writing the triangle to the long table
and reading it back as `from_long_csv` does — no `loss_detail_cols`; rows grouped by the key list
REGENERATED from `data_frame_input.py` (coordinates, `field`, all six metadata columns, detail
columns) — gives the triangle with loss details folded into details: same cells, coordinates, field
sets, numbers as floats, sample order through the scenario column; every slice stays separate. -/
theorem fromLong_toLong {t : List Cell} {DK LK : List String} (h : WFlong t DK LK) :
    okAnd (fun out => longSpec t out && slicesSpec true t out)
      ((toLongRows t).bind fun tb => fromLongRows tb []) = true :=
  Frame.fromLong_toLong h

/-- **fromArrayFrame_toArrayFrame** (`RegularSingle`: a strictly sorted single-slice cumulative
triangle, periods of `res ≥ 1` months starting on firsts of month from 1970 on and ending at the
month end `res` months later, evaluations at month ends, one numeric scalar field; `res` handed to
the reader). The array frame converts back to the same cells: periods, evaluation dates (column
label = integer lag), metadata, numbers as floats. -/
theorem fromArrayFrame_toArrayFrame {t : List Cell} {field : String} {res : Int} {md : Metadata}
    (h : RegularSingle t field res md) :
    okAnd (backSpec t)
      ((toArrayFrame t field).bind fun rows => fromArrayFrame rows field md (some res)) = true :=
  Frame.fromArrayFrame_toArrayFrame_explicit h

/-- … and with the period resolution INFERRED by the library from the first two period starts,
when these are `res` months apart: `round` of the fractional month lag (before fix D19 it was
truncated, and a triangle starting in a short month came back wrong). Resolutions 1/3/6/12 are
instances. -/
theorem fromArrayFrame_toArrayFrame_inferred {t : List Cell} {field : String} {res : Int} {md : Metadata}
    (h : RegularSingle t field res md)
    (hp : ∃ p0 p1 rest, periodsOf t = p0 :: p1 :: rest ∧ monthToId p1.1 = monthToId p0.1 + res) :
    okAnd (backSpec t)
      ((toArrayFrame t field).bind fun rows => fromArrayFrame rows field md none) = true :=
  Frame.fromArrayFrame_toArrayFrame_inferred h hp

/-- **fromMatrix_toMatrix** (`OnGrid t ix`: a strictly sorted cumulative triangle of month-aligned
cells with numeric scalar values whose period starts lie every `ix.expResolution` months from
`ix.expOrigin`, whose periods are `ix.expResolution` months long, and whose development lags lie
every `min(expResolution, devResolution)` months from `ix.devOrigin` — complete or holey, one or
several slices). The matrix filled from the triangle converts back to the same cells. -/
theorem fromMatrix_toMatrix {t : List Cell} {ix : MatrixIndex} (h : OnGrid t ix) :
    okAnd (backSpec t) ((toMatrixWith ix t).bind fromMatrix) = true :=
  Frame.fromMatrix_toMatrixWith h

/-- … in particular for the index the library infers, whenever the triangle lies on its grid -/
theorem fromMatrix_toMatrix_inferred {t : List Cell} {ix : MatrixIndex}
    (hm : isMonthly t = true) (hs : isSemiRegular t = true)
    (hix : MatrixIndex.ofTriangle t = .ok ix) (h : OnGrid t ix) :
    okAnd (backSpec t) ((toMatrix t).bind fromMatrix) = true := by
  have hne : t.isEmpty = false := by
    cases ht : t with
    | nil => exact absurd ht h.ne
    | cons a l => rfl
  unfold toMatrix
  simp only [hne, hm, hs, Bool.not_true, Bool.false_eq_true, if_false, hix, Except.bind]
  exact Frame.fromMatrix_toMatrixWith h

/-- **fromWide_toWide_incremental** (`WFwideIncr`: as `WFwide` but every cell an `IncrementalCell`
with scalar values). The wide table has one row per cell with a `prev_evaluation_date` column, and
the reader makes one `IncrementalCell` per row: the same cells come back, previous evaluation dates
(hence the basis) included, values as 0-d float arrays (compared as their scalar). -/
theorem fromWide_toWide_incremental {t : List Cell} {D L : List String} (h : WFwideIncr t D L) :
    okAnd (fun out => wideSpec t out && slicesSpec false t out)
      ((toWideRows t).bind fun tb => fromWideRows tb (allFields t) D L) = true :=
  Frame.fromWide_toWide_incremental h

/-- **fromLong_toLong_incremental** (`WFlongIncr`: as `WFlong` but every cell an `IncrementalCell` with
scalar values). One row per cell and field; reading adds each row's field to the cell at the row's
coordinates (previous evaluation date included); loss details come back as details. -/
theorem fromLong_toLong_incremental {t : List Cell} {DK LK : List String} (h : WFlongIncr t DK LK) :
    okAnd (fun out => longSpec t out && slicesSpec true t out)
      ((toLongRows t).bind fun tb => fromLongRows tb []) = true :=
  Frame.fromLong_toLong_incremental h

/-- `WFwide` is satisfiable: two slices that differ only in `country`, sampled cells -/
theorem wfwide_example : WFwide ex ["coverage"] [] where
  ne := by decide
  sorted := by
    unfold ex
    simp only [List.pairwise_cons, List.mem_cons, List.not_mem_nil, or_false, forall_eq_or_imp, forall_eq,
      List.Pairwise.nil, and_true, false_implies, implies_true]
    decide +kernel
  cum := by decide +kernel
  dates := by decide +kernel
  md := by
    intro c hc
    have hcanon : ∀ c ∈ ex, c.md.Canon := by decide +kernel
    have hmd : ∀ c ∈ ex, c.md.details = [("coverage", .str "BI")] ∧ c.md.lossDetails = [] ∧
        c.md.riskBasis.isSome = true := by decide +kernel
    obtain ⟨h1, h2, h3⟩ := hmd c hc
    exact ⟨hcanon c hc, h3, by rw [h1]; decide, by rw [h2]; decide, by rw [h1]; decide, by rw [h2]; decide⟩
  names := by
    have hF : allFields ex = ["paid_loss"] := by decide +kernel
    rw [hF]
    exact ⟨by decide, by decide, by decide, by decide, by decide⟩
  cells := by
    have hF : allFields ex = ["paid_loss"] := by decide +kernel
    rw [hF]
    intro c hc
    have hv : ∀ c ∈ ex, sampleCount c = 2 ∧ Dict.keys c.values = ["paid_loss"] ∧
        (c.values.all fun kv => (valData kv.2).map List.length == some 2) = true := by decide +kernel
    obtain ⟨h1, h2, h3⟩ := hv c hc
    rw [h1]
    refine ⟨by decide, ?_, ?_, by rw [h2]; decide⟩
    · intro kv hkv
      have := List.all_eq_true.mp h3 kv hkv
      simp only [beq_iff_eq] at this
      cases hd : valData kv.2 with
      | none => simp [hd] at this
      | some data => exact ⟨data, rfl, by simpa [hd] using this⟩
    · intro _
      exact ⟨"paid_loss", by decide, by rw [h2]; decide⟩


/-- `WFwide` holds for a SAMPLED triangle whose cells carry different field sets (the second cell has no
`paid_loss`): the domain fix D24 opened -/
def ragCell (ev : Date) (vs : Dict Val) : Cell :=
  { kind := .cumulative, ps := ⟨2020, 1, 1⟩, pe := ⟨2020, 12, 31⟩, ev := ev, values := vs,
    md := { country := some "DE", details := [("coverage", .str "BI")] } }

def exRag : List Cell :=
  [ragCell ⟨2020, 12, 31⟩ [("paid_loss", .arr false [2] [1, 2]), ("reported_loss", .arr false [2] [3, 4])],
   ragCell ⟨2021, 12, 31⟩ [("reported_loss", .arr false [2] [5, 6])]]

theorem wfwide_ragged_example : WFwide exRag ["coverage"] [] where
  ne := by decide
  sorted := by
    unfold exRag
    simp only [List.pairwise_cons, List.mem_cons, List.not_mem_nil, or_false, forall_eq,
      List.Pairwise.nil, and_true, false_implies, implies_true]
    decide +kernel
  cum := by decide +kernel
  dates := by decide +kernel
  md := by
    intro c hc
    have hcanon : ∀ c ∈ exRag, c.md.Canon := by decide +kernel
    have hmd : ∀ c ∈ exRag, c.md.details = [("coverage", .str "BI")] ∧ c.md.lossDetails = [] ∧
        c.md.riskBasis.isSome = true := by decide +kernel
    obtain ⟨h1, h2, h3⟩ := hmd c hc
    exact ⟨hcanon c hc, h3, by rw [h1]; decide, by rw [h2]; decide, by rw [h1]; decide, by rw [h2]; decide⟩
  names := by
    have hF : allFields exRag = ["paid_loss", "reported_loss"] := by decide +kernel
    rw [hF]
    exact ⟨by decide, by decide, by decide, by decide, by decide⟩
  cells := by
    have hF : allFields exRag = ["paid_loss", "reported_loss"] := by decide +kernel
    rw [hF]
    intro c hc
    have hv : ∀ c ∈ exRag, sampleCount c = 2 ∧ (Dict.keys c.values).contains "reported_loss" = true ∧
        (Dict.keys c.values).Nodup ∧
        (c.values.all fun kv => (valData kv.2).map List.length == some 2) = true := by decide +kernel
    obtain ⟨h1, h2, h3, h4⟩ := hv c hc
    rw [h1]
    refine ⟨by decide, ?_, ?_, h3⟩
    · intro kv hkv
      have := List.all_eq_true.mp h4 kv hkv
      simp only [beq_iff_eq] at this
      cases hd : valData kv.2 with
      | none => simp [hd] at this
      | some data => exact ⟨data, rfl, by simpa [hd] using this⟩
    · intro _
      exact ⟨"reported_loss", by decide, by simpa using h2⟩

/-- … and its row count: two scenario rows per cell -/
theorem exRag_rows : wideRowCount exRag = some 4 := by decide +kernel

/-- `RegularSingle` is satisfiable: -/
def qCell (ps pe ev : Date) (v : Val) : Cell :=
  { kind := .cumulative, ps := ps, pe := pe, ev := ev, values := [("paid_loss", v)], md := {} }

/-- quarterly periods starting 2021-04-01 (the D19 witness) -/
def exQ : List Cell :=
  [qCell ⟨2021, 4, 1⟩ ⟨2021, 6, 30⟩ ⟨2021, 6, 30⟩ (.int 100),
   qCell ⟨2021, 4, 1⟩ ⟨2021, 6, 30⟩ ⟨2021, 9, 30⟩ (.flt (5/2)),
   qCell ⟨2021, 7, 1⟩ ⟨2021, 9, 30⟩ ⟨2021, 9, 30⟩ (.int 7)]

theorem regular_example : RegularSingle exQ "paid_loss" 3 {} where
  ne := by decide
  sorted := by
    unfold exQ
    simp only [List.pairwise_cons, List.mem_cons, List.not_mem_nil, or_false, forall_eq_or_imp, forall_eq,
      List.Pairwise.nil, and_true, false_implies, implies_true]
    decide +kernel
  kinds := by decide +kernel
  notInc := by decide +kernel
  canon := by decide +kernel
  res1 := by decide
  cell := by
    intro c hc
    simp only [exQ, List.mem_cons, List.not_mem_nil, or_false] at hc
    rcases hc with rfl | rfl | rfl
    · exact ⟨rfl, rfl, by decide +kernel, ⟨_, 100, rfl, rfl⟩, by decide, rfl, by decide, by decide +kernel, by decide, by decide⟩
    · exact ⟨rfl, rfl, by decide +kernel, ⟨_, 5/2, rfl, rfl⟩, by decide, rfl, by decide, by decide +kernel, by decide, by decide⟩
    · exact ⟨rfl, rfl, by decide +kernel, ⟨_, 7, rfl, rfl⟩, by decide, rfl, by decide, by decide +kernel, by decide, by decide⟩


/-! ### the inferred matrix index -/

/-- **matrixIndex_onGrid**: the index INFERRED by `MatrixIndex.from_triangle` — origins the smallest
period start and the smallest development lag, resolutions the gcd of the differences of the sorted
distinct period boundaries and of the sorted distinct evaluation months — puts the triangle on its
grid, for a strictly sorted cumulative triangle of month-aligned cells (`MonthCell`) whose periods are
all `e` months long with starts a multiple of `e` months apart (`Contiguous t e`: contiguous periods,
or gaps of whole periods) and whose development lags are congruent modulo the inferred step
`min(exp, dev)`. The inference finds `expResolution = e`. With gaps that are not multiples of the
period length, or a holey triangle whose remaining lags are not congruent modulo the step, the
statement is false and the Matrix form cannot hold the triangle (notes/agents/c07c14.md). -/
theorem matrixIndex_onGrid {t : List Cell} {ix : MatrixIndex} {e : Int} (hne : t ≠ [])
    (hsorted : t.Pairwise (fun a b => Cell.cmp a b = .lt)) (hkinds : kindsConsistent t = true)
    (hcell : ∀ c ∈ t, MonthCell c) (hc : Contiguous t e)
    (hix : MatrixIndex.ofTriangle t = .ok ix)
    (hk : ∀ a ∈ t, ∀ b ∈ t, devSpacing ix ∣ lagOf b - lagOf a) : OnGrid t ix :=
  Frame.matrixIndex_onGrid hne hsorted hkinds hcell hc hix hk

/-- the gcd inference returns the common period length -/
theorem periodResolution_contiguous {t : List Cell} {e r : Int} (hne : t ≠ []) (hc : Contiguous t e)
    (h : Frame.periodResolution t = some r) : r = e :=
  Frame.periodResolution_contiguous hne hc h

/-- the lag condition holds by itself when one inferred resolution divides the other (yearly periods
seen quarterly, quarterly periods seen quarterly or yearly, …) -/
theorem matrixIndex_lags_of_dvd {t : List Cell} {ix : MatrixIndex} {e : Int} (hne : t ≠ [])
    (hc : Contiguous t e) (hix : MatrixIndex.ofTriangle t = .ok ix)
    (hd : ix.devResolution ∣ ix.expResolution ∨ ix.expResolution ∣ ix.devResolution) :
    ∀ a ∈ t, ∀ b ∈ t, devSpacing ix ∣ lagOf b - lagOf a :=
  Frame.lags_congruent_of_dvd hne hc hix hd

/-- **fromMatrix_toMatrix** for the default call `triangle_to_matrix(tri)` / `matrix_to_triangle`,
without a grid hypothesis: the inferred index is on the grid by `matrixIndex_onGrid` -/
theorem fromMatrix_toMatrix_contiguous {t : List Cell} {ix : MatrixIndex} {e : Int} (hne : t ≠ [])
    (hsorted : t.Pairwise (fun a b => Cell.cmp a b = .lt)) (hkinds : kindsConsistent t = true)
    (hcell : ∀ c ∈ t, MonthCell c) (hc : Contiguous t e)
    (hm : isMonthly t = true) (hs : isSemiRegular t = true)
    (hix : MatrixIndex.ofTriangle t = .ok ix)
    (hd : ix.devResolution ∣ ix.expResolution ∨ ix.expResolution ∣ ix.devResolution) :
    okAnd (backSpec t) ((toMatrix t).bind fromMatrix) = true :=
  fromMatrix_toMatrix_inferred hm hs hix
    (matrixIndex_onGrid hne hsorted hkinds hcell hc hix (matrixIndex_lags_of_dvd hne hc hix hd))

/-- `Contiguous` and `MonthCell` are satisfiable (the quarterly triangle above) -/
theorem contiguous_example : Contiguous exQ 3 ∧ ∀ c ∈ exQ, MonthCell c := by
  refine ⟨⟨by decide, ?_, ?_⟩, ?_⟩
  · intro c hc
    simp only [exQ, List.mem_cons, List.not_mem_nil, or_false] at hc
    rcases hc with rfl | rfl | rfl <;> decide
  · intro a ha b hb
    simp only [exQ, List.mem_cons, List.not_mem_nil, or_false] at ha hb
    rcases ha with rfl | rfl | rfl <;> rcases hb with rfl | rfl | rfl <;> decide
  · intro c hc
    simp only [exQ, List.mem_cons, List.not_mem_nil, or_false] at hc
    rcases hc with rfl | rfl | rfl
    all_goals
      exact { notInc := by decide, prev := rfl, dates := by decide +kernel, canon := by decide +kernel,
              psv := by decide, ps1 := rfl, pev := by decide, pee := by decide, evv := by decide,
              eve := by decide, vals := by intro kv hkv; simp [qCell] at hkv; subst hkv; rfl,
              nodup := by decide, vne := by simp [qCell] }

/-! ### Rich matrix (`io/rich_matrix.py`) -/

/-- **fromRich_toRich** (`RichGrid t ix`: a strictly sorted month-aligned triangle — cumulative, or
incremental with every previous evaluation date one development step before the evaluation date — whose
periods are one index period long and start on the index grid and whose lags lie on the development
grid; one or several slices, complete or holey; values ARBITRARY: Python ints and floats, `None`,
sample arrays of any dtype / shape; `ix.fields` any duplicate-free non-empty list, a subset or
superset of the triangle's fields). `rich_matrix_to_triangle(triangle_to_rich_matrix(t))` is exactly
`t.filterMap (richBack ix.fields)`: the cells that hold a value of an index field, in the same order,
with the same coordinates, class, previous evaluation date and slice metadata; their values are the
index fields that have a value, in index order, each number with its Python kind, each array with
its dtype and shape, a size-1 array as its float; `None` values, fields outside the index and cells
left without a value do not come back. -/
theorem fromRich_toRich {t : List Cell} {ix : MatrixIndex} (h : RichGrid t ix) :
    (toRichWith ix ix.fields t).bind fromRich = .ok (t.filterMap (richBack ix.fields)) :=
  Frame.fromRich_toRichWith h

/-- … as the Bool Spec clause the driver evaluates on the implementation's output -/
theorem fromRich_toRich_spec {t : List Cell} {ix : MatrixIndex} (h : RichGrid t ix) :
    okAnd (richSpec ix.fields t) ((toRichWith ix ix.fields t).bind fromRich) = true := by
  rw [Frame.fromRich_toRichWith h]
  exact richSpec_iff.mpr rfl

/-- … for the public call `triangle_to_rich_matrix(tri, eval_resolution, fields)` with any arguments
(`fields` not the empty list), whenever the index `MatrixIndex.from_triangle` builds from them puts the
triangle on its grid -/
theorem fromRich_toRich_call {t : List Cell} {ix : MatrixIndex} {evalRes : Option Int}
    {fields : Option (List String)} (hf : fields ≠ some [])
    (hix : MatrixIndex.ofTriangleWith t evalRes fields = .ok ix) (h : RichGrid t ix) :
    (toRich t evalRes fields).bind fromRich = .ok (t.filterMap (richBack ix.fields)) :=
  Frame.fromRich_toRich_of_index hf hix h

/-- … and for the default call on a cumulative triangle with numeric scalar values and contiguous
periods (the domain of `fromMatrix_toMatrix_contiguous`), with NO grid hypothesis: the inferred index is
on the grid by `matrixIndex_onGrid`; here every cell comes back with every field, numbers with their
Python kind (the plain Matrix form returns floats). -/
theorem fromRich_toRich_contiguous {t : List Cell} {ix : MatrixIndex} {e : Int} (hne : t ≠ [])
    (hsorted : t.Pairwise (fun a b => Cell.cmp a b = .lt)) (hkinds : kindsConsistent t = true)
    (hcell : ∀ c ∈ t, MonthCell c) (hc : Contiguous t e)
    (hix : MatrixIndex.ofTriangle t = .ok ix)
    (hd : ix.devResolution ∣ ix.expResolution ∨ ix.expResolution ∣ ix.devResolution) :
    (toRich t).bind fromRich = .ok (t.filterMap (richBack ix.fields)) := by
  have hg := matrixIndex_onGrid hne hsorted hkinds hcell hc hix (matrixIndex_lags_of_dvd hne hc hix hd)
  have hr := hg.rich
  have hdev : ix.devResolution ≠ 0 := by
    have := hg.s1
    unfold devSpacing at this
    omega
  exact Frame.fromRich_toRich_of_index (by simp) (ofTriangleWith_default hix hdev hr.fieldsNe) hr

/-- **toRich_placement**: dimensions, every observed value at the index `MatrixIndex` resolves for its
cell (a number as it is, a sample array as `PredictedValue`, a size-1 array as its float), and nothing
else in the array except `MissingValue`s. -/
theorem toRich_placement {t : List Cell} {ix : MatrixIndex} (h : RichGrid t ix) :
    ∃ M, toRichWith ix ix.fields t = .ok M ∧ M.index = ix ∧ M.incremental = firstIsIncremental t ∧
      (∀ c ∈ t, jOf ix c < M.nPeriods ∧ kOf ix c < M.nDevs) ∧
      (∀ c ∈ t, ∀ f ∈ ix.fields, ∀ v, wanted c f = some v →
        M.get? (siOf ix c, fiOf ix f, jOf ix c, kOf ix c) = some v) ∧
      (∀ p v, M.get? p = some v → (∃ id, v = .missing id) ∨
        ∃ c ∈ t, ∃ f ∈ ix.fields, p = (siOf ix c, fiOf ix f, jOf ix c, kOf ix c) ∧ wanted c f = some v) :=
  Frame.toRichWith_placement h

/-- `RichGrid` is satisfiable: quarterly periods from 2021-04, an int, a `None`, a two-sample array, a
size-1 int array and a float; the index lists a field no cell has -/
def rCell (ps pe ev : Date) (vs : Dict Val) : Cell :=
  { kind := .cumulative, ps := ps, pe := pe, ev := ev, values := vs, md := {} }

def exR : List Cell :=
  [rCell ⟨2021, 4, 1⟩ ⟨2021, 6, 30⟩ ⟨2021, 6, 30⟩ [("paid_loss", .int 100), ("reported_loss", .none)],
   rCell ⟨2021, 4, 1⟩ ⟨2021, 6, 30⟩ ⟨2021, 9, 30⟩ [("paid_loss", .arr false [2] [1, 2])],
   rCell ⟨2021, 7, 1⟩ ⟨2021, 9, 30⟩ ⟨2021, 9, 30⟩ [("reported_loss", .flt (5/2)), ("paid_loss", .arr true [1] [7])]]

def ixR : MatrixIndex :=
  { slices := [{}], fields := ["paid_loss", "earned_premium", "reported_loss"], expOrigin := 615, devOrigin := 0,
    expResolution := 3, devResolution := 3 }

theorem richGrid_example : RichGrid exR ixR where
  ne := by decide
  sorted := by
    unfold exR
    simp only [List.pairwise_cons, List.mem_cons, List.not_mem_nil, or_false, forall_eq_or_imp, forall_eq,
      List.Pairwise.nil, and_true, false_implies, implies_true]
    decide +kernel
  slices := by decide +kernel
  e1 := by decide
  s1 := by decide
  fieldsNodup := by decide
  fieldsNe := by decide
  cell := by
    have hinc : firstIsIncremental exR = false := by decide
    rw [hinc]
    intro c hc
    simp only [exR, List.mem_cons, List.not_mem_nil, or_false] at hc
    rcases hc with rfl | rfl | rfl
    · exact { pos := { dates := by decide +kernel, canon := by decide +kernel, psv := by decide, ps1 := rfl,
                        pev := by decide, pee := by decide, evv := by decide, eve := by decide,
                        j := ⟨0, by decide⟩, pe := by decide, k := ⟨0, by decide⟩ },
              kind := by decide, prev := rfl, nodup := by decide }
    · exact { pos := { dates := by decide +kernel, canon := by decide +kernel, psv := by decide, ps1 := rfl,
                        pev := by decide, pee := by decide, evv := by decide, eve := by decide,
                        j := ⟨0, by decide⟩, pe := by decide, k := ⟨1, by decide⟩ },
              kind := by decide, prev := rfl, nodup := by decide }
    · exact { pos := { dates := by decide +kernel, canon := by decide +kernel, psv := by decide, ps1 := rfl,
                        pev := by decide, pee := by decide, evv := by decide, eve := by decide,
                        j := ⟨1, by decide⟩, pe := by decide, k := ⟨0, by decide⟩ },
              kind := by decide, prev := rfl, nodup := by decide }

/-- what comes back for the example: all three cells; the `None` is gone, the size-1 array is a float,
the sample array is itself -/
theorem richBack_example :
    exR.filterMap (richBack ixR.fields) =
      [rCell ⟨2021, 4, 1⟩ ⟨2021, 6, 30⟩ ⟨2021, 6, 30⟩ [("paid_loss", .int 100)],
       rCell ⟨2021, 4, 1⟩ ⟨2021, 6, 30⟩ ⟨2021, 9, 30⟩ [("paid_loss", .arr false [2] [1, 2])],
       rCell ⟨2021, 7, 1⟩ ⟨2021, 9, 30⟩ ⟨2021, 9, 30⟩ [("paid_loss", .flt 7), ("reported_loss", .flt (5/2))]] := by
  decide +kernel

/-! ### The rest of `io/array.py`: statics frame, right-edge frame -/

/-- **fromStatics** (`StaticsFrame rows res ev md`: first-of-month periods from 1970 on, strictly
ascending, `res ≥ 1`, the constructor's date rules hold). `statics_data_frame_to_triangle(df,
evaluation_date=ev, period_resolution=res, metadata=md)` is one `CumulativeCell` per row: the period of
`res` months starting at the row's period, `ev`, the row's values, `md` — in row order. -/
theorem fromStatics_frame {rows : List (Date × Dict Val)} {res : Int} {ev : Date} {md : Metadata}
    (h : StaticsFrame rows res ev md) :
    fromStatics (rows.map staticsRowOf) (some ev) (some res) md = .ok (rows.map (staticsExpected md res ev)) :=
  Frame.fromStatics_frame h

/-- … as the Spec clause -/
theorem fromStatics_frame_spec {rows : List (Date × Dict Val)} {res : Int} {ev : Date} {md : Metadata}
    (h : StaticsFrame rows res ev md) :
    ∃ out, fromStatics (rows.map staticsRowOf) (some ev) (some res) md = .ok out ∧
      out.length = rows.length ∧ ∀ p ∈ rows, staticsExpected md res ev p ∈ out := by
  refine ⟨_, Frame.fromStatics_frame h, by simp, ?_⟩
  intro p hp
  exact List.mem_map_of_mem hp

/-- … with the resolution INFERRED by the reader — `(p₁ - p₀).days // 30` — whenever that quotient is
the resolution meant. It is for every start month and resolution 1/3/6/12 EXCEPT a February start of
monthly periods (0) and of quarterly periods in a non-leap year (2): `statics_inference_table`
(observation D20, notes/agents/c14b.md; not a clause of C14). -/
theorem fromStatics_frame_inferred {rows : List (Date × Dict Val)} {res : Int} {ev : Date} {md : Metadata}
    (h : StaticsFrame rows res ev md)
    (hp : ∃ p0 p1 rest, rows = p0 :: p1 :: rest ∧ (p1.1.ordinal - p0.1.ordinal) / 30 = res) :
    fromStatics (rows.map staticsRowOf) (some ev) none md = .ok (rows.map (staticsExpected md res ev)) :=
  Frame.fromStatics_frame_inferred h hp

theorem statics_inference_table :
    ([2021, 2024].all fun (y : Int) => (List.range 12).all fun m0 => [1, 3, 6, 12].all fun res =>
      decide (inferredFor y m0 res = .ok
        (if res = 1 ∧ m0 = 1 then 0 else if res = 3 ∧ m0 = 1 ∧ y = 2021 then 2 else (res : Int)))) = true :=
  Frame.statics_inference_table

/-- monthly periods from February with the resolution inferred: resolution 0, and the cell constructor
refuses the first row (`period_end` before `period_start`) -/
theorem statics_february_refused :
    staticsResolution [⟨2021, 2, 1⟩, ⟨2021, 3, 1⟩] none = .ok 0 ∧
    staticsCell {} 0 ⟨2021, 3, 31⟩ (⟨2021, 2, 1⟩, [("earned_premium", .int 100)]) = .error .valueError :=
  Frame.statics_february_refused

/-- **right-edge frame → statics frame**: `to_right_edge_data_frame` has one row per cell of
`triangle.right_edge` (period start, evaluation date, the cell's values) … -/
theorem toRightEdgeFrame_rows {t : List Cell} {rows : List EdgeRow} (h : toRightEdgeFrame t = .ok rows) :
    ∃ E, Triangle.rightEdge t = .ok E ∧ rows = E.map edgeRow := by
  unfold toRightEdgeFrame at h
  split at h
  · cases h
  · split at h
    · cases h
    · cases hE : Triangle.rightEdge t with
      | error e => simp [hE, Except.map] at h
      | ok E =>
        simp only [hE, Except.map] at h
        cases h
        exact ⟨E, rfl, rfl⟩

/-- … and when that right edge `E` is regular (periods of `res` months, ONE evaluation date `ev`,
cumulative, metadata `md`), the frame without its `evaluation_date` column, read by the statics reader
with `ev`, `res` and `md`, is `E` again. -/
theorem fromStatics_toRightEdge {E : List Cell} {res : Int} {ev : Date} {md : Metadata}
    (h : StaticsFrame (E.map fun c => edgePair (edgeRow c)) res ev md)
    (hE : ∀ c ∈ E, c.kind = .cumulative ∧ c.prev = none ∧ c.pe = periodEndOf c.ps res ∧ c.ev = ev ∧ c.md = md) :
    fromStatics ((E.map edgeRow).map fun r => staticsRowOf (edgePair r)) (some ev) (some res) md = .ok E :=
  Frame.fromStatics_edgeRows h hE

/-- `StaticsFrame` is satisfiable (quarterly periods from 2021-04, evaluated 2021-12-31) -/
theorem staticsFrame_example :
    StaticsFrame [(⟨2021, 4, 1⟩, [("earned_premium", .int 100)]), (⟨2021, 7, 1⟩, [("earned_premium", .flt (5/2))])]
      3 ⟨2021, 12, 31⟩ {} where
  res1 := by decide
  first := by decide
  asc := by
    simp only [List.pairwise_cons, List.mem_cons, List.not_mem_nil, or_false, forall_eq, List.Pairwise.nil,
      and_true, false_implies, implies_true]
    decide
  dates := by decide +kernel


/-! ### The in-memory data frames (no CSV text in between) -/

/-- **wide data frame, cumulative**: `from_wide_data_frame(to_wide_data_frame(t), …)` passes the readers'
column-type check and is the CSV round trip of `fromWide_toWide` (same rows, no text layer). -/
theorem fromWideFrame_toWideFrame {t : List Cell} {D L : List String} (h : WFwide t D L) :
    okAnd (fun out => wideSpec t out && slicesSpec false t out) (wideFrameRoundTrip t (allFields t) D L) = true := by
  have hinc := firstIsIncremental_false_of_cum h.cum
  have hchk : checkIndexColumns (wideFrameDtypes t) = .ok () := by
    unfold wideFrameDtypes
    rw [hinc]
    decide
  have := fromWide_toWide h
  unfold wideFrameRoundTrip
  cases htb : toWideRows t with
  | error e => simp [htb, Except.bind, okAnd] at this
  | ok tb =>
    simp only [htb, Except.bind, hchk] at this ⊢
    exact this

/-- **long data frame: never reads back.** `to_long_data_frame` types `evaluation_date` as a
`PeriodIndex` (`period[D]`, no `.to_timestamp()`), which `_check_index_columns` of the reader refuses:
`from_long_data_frame(to_long_data_frame(t))` raises for EVERY triangle the writer accepts
(observation D21, notes/agents/c14b.md; the property's statement is about the CSV files, which
carry the dates as text and do read back: `fromLong_toLong`). -/
theorem longFrame_never_reads_back {t : List Cell} {tb : Table} (L : List String) (h : toLongRows t = .ok tb) :
    longFrameRoundTrip t L = .error .other := by
  unfold longFrameRoundTrip
  simp only [h, Except.bind]
  have : checkIndexColumns (longFrameDtypes t) = .error .other := by
    unfold longFrameDtypes
    cases firstIsIncremental t <;> decide
  rw [this]

/-- **wide data frame, incremental: refused** (`prev_evaluation_date` is written as `period[D]`) -/
theorem wideFrame_incremental_refused {t : List Cell} {tb : Table} (F D L : List String)
    (hi : firstIsIncremental t = true) (h : toWideRows t = .ok tb) :
    wideFrameRoundTrip t F D L = .error .other := by
  unfold wideFrameRoundTrip
  simp only [h, Except.bind]
  have : checkIndexColumns (wideFrameDtypes t) = .error .other := by
    unfold wideFrameDtypes
    rw [hi]
    decide
  rw [this]

/-- the CSV path hands the readers `datetime64` columns (`parse_dates`): the check passes -/
theorem csv_columns_pass (t : List Cell) : checkIndexColumns (csvDtypes t) = .ok () := by
  unfold csvDtypes
  cases firstIsIncremental t <;> decide


/-! ### Rich matrix: disaggregation, `IndexError`, `MissingValue` ids (any triangle the function accepts) -/

/-- **toRich_indexError_iff**: a mark of the anti-diagonal of `(exp_start, exp_end, dev)` leaves an
`nP × nD` array iff the cell's LAST period index is outside, or the development index of its FIRST
period, `dev + (exp_end - exp_start)`, is. -/
theorem toRich_indexError_iff (s e d nP nD : Nat) :
    ((antiDiag s e d).any fun p => decide (p.1 ≥ nP) || decide (p.2 ≥ nD)) = true ↔
      s ≤ e ∧ (nP ≤ e ∨ nD ≤ d + (e - s)) :=
  Frame.antiDiag_outside_iff s e d nP nD

/-- **toRich_item**: one field of one cell, once the index look-ups succeed — `IndexError` exactly under
the condition above, else the item (slice, field, first / last period index, development index, value) -/
theorem toRich_item {ix : MatrixIndex} {fields : List String} {nP nD : Nat} {c : Cell} {kv : String × Val}
    {si fi s d e : Nat} (hf : fields.contains kv.1 = true)
    (hsi : indexOf? ix.slices c.md = some si) (hfi : indexOf? ix.fields kv.1 = some fi)
    (hs : ix.expNdx c.ps = .ok s) (hd : ix.devNdx (c.devLag .month) = .ok d) (he : ix.expNdx c.pe = .ok e) :
    richItem ix fields nP nD c kv =
      if s ≤ e ∧ (nP ≤ e ∨ nD ≤ d + (e - s)) then .error .indexError
      else .ok (some { si := si, fi := fi, s := s, e := e, d := d, pv := richValue kv.2 }) :=
  Frame.richItem_spec hf hsi hfi hs hd he

/-- **toRich_disagg_spec**: the filling loop writes, for every item in program order, its own
assignments with the id it finds; the id of the `n`-th item is the number of SPANNING items (first and
last period index differ) before it; a spanning item writes the same `DisaggregatedValue(id, value)` —
`DisaggregatedPredictedValue(id, array)` for a sample array — on every position of its anti-diagonal, a
single-step item writes its value once. -/
theorem toRich_disagg_spec (its : List RichItem) :
    itemsAssigns its 0 = ((its.zip (disaggIds its 0)).map fun p => itemAssigns p.1 p.2).flatten ∧
    (∀ n (h : n < (disaggIds its 0).length),
      (disaggIds its 0)[n] = ((its.take n).filter RichItem.spans).length) ∧
    (∀ it id, it.spans = true → itemAssigns it id = (antiDiag it.s it.e it.d).map fun p =>
      ((it.si, it.fi, p.1, p.2), some (if it.pv.1 then RVal.disaggPred id it.pv.2 else RVal.disagg id it.pv.2))) ∧
    (∀ it id, it.spans = false → itemAssigns it id = [((it.si, it.fi, it.s, it.d), richPlain it.pv)]) :=
  ⟨itemsAssigns_spec its 0, fun n h => by rw [disaggIds_getElem its 0 n h]; omega,
   fun _ id h => itemAssigns_spans h id, fun _ id h => itemAssigns_single h id⟩

/-- **toRich_missing_ids**: for ANY triangle `triangle_to_rich_matrix` accepts, the array is the filling
loop's assignments followed by `MissingValue`s; these sit exactly on the positions inside the array that
some cell covers and that are still `None` (`hs` below, characterised by `holes_iff`), come in the scan
order slice, period, development, field, and the `n`-th one holds `MissingValue(n)` in the end. -/
theorem toRich_missing_ids {ix : MatrixIndex} {fields : List String} {t : List Cell} {M : RichMatrix}
    (h : toRichWith ix fields t = .ok M) :
    ∃ (items : List RichItem) (hs : List Pos),
      M.assigns = itemsAssigns items 0 ++ missingAssigns hs ∧
      hs = holes ix.slices.length fields.length M.nPeriods M.nDevs (items.flatMap itemCovered) (itemsAssigns items 0) ∧
      hs.Pairwise scanLt ∧
      (∀ n (hn : n < hs.length), M.get? hs[n] = some (RVal.missing n)) ∧
      M.index = ix ∧ M.incremental = firstIsIncremental t :=
  Frame.toRichWith_shape h

theorem holes_iff {nS nF nP nD : Nat} {cov : List (Nat × Nat × Nat)} {as : List (Pos × Option RVal)} {p : Pos} :
    p ∈ holes nS nF nP nD cov as ↔
      p.1 < nS ∧ p.2.1 < nF ∧ p.2.2.1 < nP ∧ p.2.2.2 < nD ∧ (p.1, p.2.2.1, p.2.2.2) ∈ cov ∧
        lastAssign as p = none :=
  Frame.mem_holes_iff

/-- what comes back from missing and disaggregated entries: nothing (a cell whose period spans several
index periods is NOT restored by `rich_matrix_to_triangle`; that `fromRich (toRich t)` is exactly the
one-index-period cells for disjoint periods is checked by the correspondence only, `richMixedSpec`) -/
theorem fromRich_ignores_disagg (id : Nat) (v : Val) :
    RVal.back? (some (.missing id)) = none ∧ RVal.back? (some (.disagg id v)) = none ∧
    RVal.back? (some (.disaggPred id v)) = none ∧ RVal.back? none = none :=
  Frame.back?_not_value id v

/-! ### `parse_date` on the documented spellings -/

theorem parseDate_year {y : Nat} (hy : 1 ≤ y ∧ y ≤ 9999) : parseDateChars (year4 y) = .ok ⟨(y : Int), 1, 1⟩ :=
  Frame.parseDate_year hy

theorem parseDate_quarter {y q : Nat} (hy : 1 ≤ y ∧ y ≤ 9999) (hq : 1 ≤ q ∧ q ≤ 4) :
    parseDateChars (year4 y ++ ['Q', digitChar q]) = .ok ⟨(y : Int), (q - 1) * 3 + 1, 1⟩ :=
  Frame.parseDate_quarter hy hq

theorem parseDate_half {y n : Nat} (hy : 1 ≤ y ∧ y ≤ 9999) (hn : 1 ≤ n ∧ n ≤ 2) :
    parseDateChars (year4 y ++ ['H', digitChar n]) = .ok ⟨(y : Int), if n = 1 then 1 else 7, 1⟩ :=
  Frame.parseDate_half hy hn

theorem parseDate_month {y m : Nat} (hy : 1 ≤ y ∧ y ≤ 9999) (hm : 1 ≤ m ∧ m ≤ 12) :
    parseDateChars (year4 y ++ ['-', digitChar (m / 10), digitChar (m % 10)]) = .ok ⟨(y : Int), m, 1⟩ :=
  Frame.parseDate_month hy hm

theorem parseDate_iso {y m d : Nat} (hy : 1 ≤ y ∧ y ≤ 9999) (hv : (⟨(y : Int), m, d⟩ : Date).valid = true) :
    parseDateChars (year4 y ++ ['-', digitChar (m / 10), digitChar (m % 10), '-', digitChar (d / 10), digitChar (d % 10)]) =
      .ok ⟨(y : Int), m, d⟩ :=
  Frame.parseDate_iso hy hv

/-- refusals (`ValueError`): a quarter other than 1 … 4, a half other than 1, 2, a date that does not
exist, a text of another length, a year that is not four digits -/
theorem parseDate_refusals :
    (∀ y q : Nat, y < 10000 → q < 10 → (q = 0 ∨ 5 ≤ q) → parseDateChars (year4 y ++ ['Q', digitChar q]) = .error .valueError) ∧
    (∀ y n : Nat, y < 10000 → n < 10 → (n = 0 ∨ 3 ≤ n) → parseDateChars (year4 y ++ ['H', digitChar n]) = .error .valueError) ∧
    (∀ y m d : Nat, y < 10000 → m < 100 → d < 100 → (⟨(y : Int), m, d⟩ : Date).valid = false →
      parseDateChars (year4 y ++ ['-', digitChar (m / 10), digitChar (m % 10), '-', digitChar (d / 10), digitChar (d % 10)]) =
        .error .valueError) ∧
    (∀ cs : List Char, cs.length ≠ 4 ∧ cs.length ≠ 6 ∧ cs.length ≠ 7 ∧ cs.length ≠ 10 →
      parseDateChars cs = .error .valueError) ∧
    (∀ a b c d : Char, ([a, b, c, d].all Char.isDigit) = false → parseDateChars [a, b, c, d] = .error .valueError) :=
  ⟨fun _ _ hy hq hb => Frame.parseDate_quarter_refused hy hq hb,
   fun _ _ hy hn hb => Frame.parseDate_half_refused hy hn hb,
   fun _ _ _ hy hm hd hv => Frame.parseDate_iso_refused hy hm hd hv,
   fun _ h => Frame.parseDate_length_refused h, fun _ _ _ _ h => Frame.parseDate_year_nondigit h⟩

theorem parseDate_examples :
    parseDateChars ['2', '0', '2', '0', 'Q', '3'] = .ok ⟨2020, 7, 1⟩ ∧
    parseDateChars ['2', '0', '2', '1', 'H', '2'] = .ok ⟨2021, 7, 1⟩ ∧
    parseDateChars ['1', '9', '9', '9'] = .ok ⟨1999, 1, 1⟩ ∧
    parseDateChars ['2', '0', '2', '0', '-', '0', '2', '-', '2', '9'] = .ok ⟨2020, 2, 29⟩ ∧
    parseDateChars ['2', '0', '2', '1', '-', '0', '2', '-', '3', '0'] = .error .valueError ∧
    parseDateChars ['2', '0', '2', '0', 'H', '3'] = .error .valueError ∧
    parseDateChars ['a', 'b', 'c'] = .error .valueError :=
  Frame.parseDate_examples

/-! ### `array_data_frame_to_triangle` with all its arguments, `array_triangle_builder` -/

/-- **fromArrayFrame_args** (`RegFrame`: first-of-month periods from 1970 on, strictly ascending, `res ≥ 1`,
strictly ascending column lags, the constructor's date rules hold). With `period_resolution=res`, any
`eval_resolution`, `dev_lag_from_period_end` and `metadata`, the reader builds exactly
`Spec.arrayExpected`: one `CumulativeCell` per entry of the frame (`NaN` → none), period of `res` months,
evaluated `lag` months after the period end — or `lag` months after the period start minus a day when
`dev_lag_from_period_end=False` AND the lags are read from integer labels —, value as the frame holds it,
the given metadata; the column lags are the integer labels, or `i · eval_resolution` with the given
resolution, or `i · res` when a label is not an integer. -/
theorem fromArrayFrame_args {cols : List String} {rows : List (Date × List Val)} {field : String}
    {md : Metadata} {res : Int} {evalRes : Option Int} {fe : Bool}
    (h : RegFrame field md res (fe || (effectiveEvalResolution cols res evalRes).isSome)
          (columnLags cols (effectiveEvalResolution cols res evalRes)) rows) :
    fromArrayFrameFull { cols := cols, rows := rows.map fun r => (PeriodEntry.date r.1, r.2) } field (some res)
        evalRes fe md =
      .ok (arrayExpected field md res (fe || (effectiveEvalResolution cols res evalRes).isSome)
            (columnLags cols (effectiveEvalResolution cols res evalRes)) rows) :=
  Frame.fromArrayFrameFull_spec h

/-- … and with `period_resolution` inferred by the reader (`round` of the fractional month lag of the
first two period starts, fix D19) when these are `res` months apart -/
theorem fromArrayFrame_args_inferred {cols : List String} {rows : List (Date × List Val)} {field : String}
    {md : Metadata} {res : Int} {evalRes : Option Int} {fe : Bool}
    (h : RegFrame field md res (fe || (effectiveEvalResolution cols res evalRes).isSome)
          (columnLags cols (effectiveEvalResolution cols res evalRes)) rows)
    (hp : ∃ r0 r1 rest, rows = r0 :: r1 :: rest ∧ monthToId r1.1 = monthToId r0.1 + res) :
    fromArrayFrameFull { cols := cols, rows := rows.map fun r => (PeriodEntry.date r.1, r.2) } field none
        evalRes fe md =
      .ok (arrayExpected field md res (fe || (effectiveEvalResolution cols res evalRes).isSome)
            (columnLags cols (effectiveEvalResolution cols res evalRes)) rows) :=
  Frame.fromArrayFrameFull_spec_inferred h hp

/-- the Spec clauses the driver evaluates on the implementation's output hold on the model's output -/
theorem arrayFullSpec_on_model {field : String} {md : Metadata} {res : Int} {fromEnd : Bool} {lags : List Int}
    {rows : List (Date × List Val)} (h : RegFrame field md res fromEnd lags rows) :
    arrayFullSpec field md res fromEnd lags rows (arrayExpected field md res fromEnd lags rows) = true :=
  Frame.arrayFullSpec_on_model h

theorem staticsSpec_on_model {rows : List (Date × Dict Val)} {res : Int} {ev : Date} {md : Metadata}
    (h : StaticsFrame rows res ev md) :
    staticsSpec rows res ev md (rows.map (staticsExpected md res ev)) = true :=
  Frame.staticsSpec_on_model h

/-- `RegFrame` is satisfiable: quarterly periods from 2021-04, lags 0 and 3 (eval_resolution 3), a gap -/
theorem regFrame_example :
    RegFrame "paid_loss" {} 3 true [0, 3]
      [(⟨2021, 4, 1⟩, [.flt 1, .int 2]), (⟨2021, 7, 1⟩, [.flt (5/2), .none])] where
  res1 := by decide
  first := by decide
  asc := by
    simp only [List.pairwise_cons, List.mem_cons, List.not_mem_nil, or_false, forall_eq, List.Pairwise.nil,
      and_true, false_implies, implies_true]
    decide
  lagsAsc := by decide
  fromStart := by intro h; cases h
  dates := by decide +kernel

/-- **arrayBuilder_spec**: `array_triangle_builder(dfs, fields, **kwargs)` refuses lists of different
lengths (`ValueError`), is the single reader for one frame, and for two frames is `merge` (full join, the
right operand's values win — `Properties/C10.lean: merge_cells, merge_values, merge_unmatched_id`) of the
two single-field triangles of `fromArrayFrame_args`; further frames fold on the left the same way. -/
theorem arrayBuilder_spec (f1 f2 : ArrayFrame) (n1 n2 : String) (pr er : Option Int) (fe : Bool) (md : Metadata) :
    arrayTriangleBuilder [f1] [n1] pr er fe md = fromArrayFrameFull f1 n1 pr er fe md ∧
    arrayTriangleBuilder [f1, f2] [n1, n2] pr er fe md =
      ((fromArrayFrameFull f1 n1 pr er fe md).bind fun t1 =>
       (fromArrayFrameFull f2 n2 pr er fe md).bind fun t2 => merge (some .full) none t1 t2) ∧
    (∀ (fs : List ArrayFrame) (ns : List String), fs.length ≠ ns.length →
      arrayTriangleBuilder fs ns pr er fe md = .error .valueError) :=
  ⟨arrayTriangleBuilder_one f1 n1 pr er fe md, arrayTriangleBuilder_two f1 f2 n1 n2 pr er fe md,
   fun fs ns h => arrayTriangleBuilder_mismatch fs ns pr er fe md h⟩


/-! ### Audit follow-up: row counts stated on the cells, totality of the index inference, inhabitants -/

/-- **rows_count_wide_scenarios**: the wide table has `Σ scenarioCount c` rows — `scenarioCount` is stated on
the cell alone (1 for scalars, S for S-sample arrays), not through the writer's helpers — and the rows are,
in order, the images of the (cell, scenario) pairs `Spec.cellScenarios t`; the row of `(c, i)` carries the
group key of `c` (injective on the cells: `cellKey_inj`) and scenario `i + 1` while the scenario column is
kept, which is dropped only when every cell has one scenario: rows ↔ (cell, scenario) one to one. -/
theorem rows_count_wide_scenarios {t : List Cell} {D L : List String} (h : WFwide t D L) :
    ∃ (tb : Table) (E : Row → Row), toWideRows t = .ok tb ∧
      tb.rows = (cellScenarios t).map (wideRowOf t E) ∧ tb.rows.length = wideRows t ∧
      (∀ p ∈ cellScenarios t, p.1 ∈ t ∧ ∀ cols : List String,
        (∀ k ∈ ["period_start", "period_end", "evaluation_date"], cols.contains k = true) →
        wideKey cols D L (wideRowOf t E p) = cellKey p.1 D L) ∧
      ((E = id ∧ ∀ p ∈ cellScenarios t, Row.col (wideRowOf t E p) "scenario" = MVal.num ((p.2 + 1 : Nat) : Rat)) ∨
        ∀ c ∈ t, scenarioCount c = 1) :=
  Frame.wide_rows_listing h

/-- **rows_count_long_scenarios**: the long table has `Σ scenarioCount c · #fields c` rows, in order the images
of the (cell, scenario, field) triples `Spec.cellScenarioFields t` -/
theorem rows_count_long_scenarios {t : List Cell} {DK LK : List String} (h : WFlong t DK LK) :
    ∃ (tb : Table) (E : Row → Row), toLongRows t = .ok tb ∧
      tb.rows = (cellScenarioFields t).map (longRowOf t E) ∧ tb.rows.length = longRows t :=
  Frame.long_rows_listing h

/-- the row-count Spec clause of the driver holds on the model's tables -/
theorem rowCountSpec_on_model {t : List Cell} :
    (∀ {D L : List String}, WFwide t D L → ∃ tb, toWideRows t = .ok tb ∧ rowCountSpec false t tb.rows.length = true) ∧
    (∀ {DK LK : List String}, WFlong t DK LK → ∃ tb, toLongRows t = .ok tb ∧ rowCountSpec true t tb.rows.length = true) := by
  constructor
  · intro D L h
    obtain ⟨tb, _, hok, _, hlen, _⟩ := Frame.wide_rows_listing h
    exact ⟨tb, hok, by simp [rowCountSpec, hlen]⟩
  · intro DK LK h
    obtain ⟨tb, _, hok, _, hlen⟩ := Frame.long_rows_listing h
    exact ⟨tb, hok, by simp [rowCountSpec, hlen]⟩

/-- **matrixIndex_total**: `MatrixIndex.from_triangle` succeeds on every non-empty triangle with contiguous
periods of `e` months and at least two evaluation months (with one the library refuses: "Must supply
eval_resolution"); its resolutions are `e` and the gcd of the evaluation-month gaps. -/
theorem matrixIndex_total {t : List Cell} {e : Int} (hne : t ≠ []) (hc : Contiguous t e)
    (hev : ∃ a ∈ t, ∃ b ∈ t, monthToId a.ev ≠ monthToId b.ev) :
    ∃ ix d, MatrixIndex.ofTriangle t = .ok ix ∧ evalDateResolution t = some d ∧
      ix.expResolution = e ∧ ix.devResolution = d :=
  Frame.ofTriangle_ok hne hc hev

/-- **fromMatrix_toMatrix_default**: the default call `matrix_to_triangle(triangle_to_matrix(tri))` with NO
hypothesis about the index — its inference succeeds (`matrixIndex_total`), `is_triangle_monthly` follows
from `MonthCell`. Remaining hypotheses: the triangle is semi-regular as the library checks it, has two
evaluation months, and one of the two inferred resolutions divides the other. -/
theorem fromMatrix_toMatrix_default {t : List Cell} {e : Int} (hne : t ≠ [])
    (hsorted : t.Pairwise (fun a b => Cell.cmp a b = .lt)) (hkinds : kindsConsistent t = true)
    (hcell : ∀ c ∈ t, MonthCell c) (hc : Contiguous t e) (hs : isSemiRegular t = true)
    (hev : ∃ a ∈ t, ∃ b ∈ t, monthToId a.ev ≠ monthToId b.ev)
    (hd : ∀ d, evalDateResolution t = some d → d ∣ e ∨ e ∣ d) :
    okAnd (backSpec t) ((toMatrix t).bind fromMatrix) = true := by
  obtain ⟨ix, d, hix, hdd, he, hdr⟩ := Frame.ofTriangle_ok hne hc hev
  exact fromMatrix_toMatrix_contiguous hne hsorted hkinds hcell hc (isMonthly_of_monthCell hcell) hs hix
    (by rw [he, hdr]; exact hd d hdd)

/-- … and the rich matrix default call likewise -/
theorem fromRich_toRich_default {t : List Cell} {e : Int} (hne : t ≠ [])
    (hsorted : t.Pairwise (fun a b => Cell.cmp a b = .lt)) (hkinds : kindsConsistent t = true)
    (hcell : ∀ c ∈ t, MonthCell c) (hc : Contiguous t e)
    (hev : ∃ a ∈ t, ∃ b ∈ t, monthToId a.ev ≠ monthToId b.ev)
    (hd : ∀ d, evalDateResolution t = some d → d ∣ e ∨ e ∣ d) :
    ∃ ix, MatrixIndex.ofTriangle t = .ok ix ∧
      (toRich t).bind fromRich = .ok (t.filterMap (richBack ix.fields)) := by
  obtain ⟨ix, d, hix, hdd, he, hdr⟩ := Frame.ofTriangle_ok hne hc hev
  exact ⟨ix, hix, fromRich_toRich_contiguous hne hsorted hkinds hcell hc hix (by rw [he, hdr]; exact hd d hdd)⟩

/-- the joint hypotheses of `fromMatrix_toMatrix_contiguous` / `_default` hold for the quarterly triangle
`exQ` (with `contiguous_example`): sorted, one class, semi-regular, two evaluation months, both inferred
resolutions 3 — so the theorem is not vacuous, the index exists and `OnGrid exQ ix` is inhabited -/
theorem exQ_matrix_example :
    exQ.Pairwise (fun a b => Cell.cmp a b = .lt) ∧ kindsConsistent exQ = true ∧ isMonthly exQ = true ∧
    isSemiRegular exQ = true ∧ (∃ a ∈ exQ, ∃ b ∈ exQ, monthToId a.ev ≠ monthToId b.ev) ∧
    (∃ ix, MatrixIndex.ofTriangle exQ = .ok ix ∧ ix.expResolution = 3 ∧ ix.devResolution = 3 ∧ OnGrid exQ ix) ∧
    okAnd (backSpec exQ) ((toMatrix exQ).bind fromMatrix) = true := by
  have hsorted : exQ.Pairwise (fun a b => Cell.cmp a b = .lt) := by
    unfold exQ
    simp only [List.pairwise_cons, List.mem_cons, List.not_mem_nil, or_false, forall_eq_or_imp, forall_eq,
      List.Pairwise.nil, and_true, false_implies, implies_true]
    decide +kernel
  have hkinds : kindsConsistent exQ = true := by decide +kernel
  have hper : periodsOf exQ = [(⟨2021, 4, 1⟩, ⟨2021, 6, 30⟩), (⟨2021, 7, 1⟩, ⟨2021, 9, 30⟩)] := by
    unfold periodsOf
    have he : (exQ.map fun c => (c.ps, c.pe)).eraseDups =
        [((⟨2021, 4, 1⟩ : Date), (⟨2021, 6, 30⟩ : Date)), (⟨2021, 7, 1⟩, ⟨2021, 9, 30⟩)] := by decide +kernel
    rw [he]
    apply List.mergeSort_of_pairwise
    simp only [List.pairwise_cons, List.mem_cons, List.not_mem_nil, or_false, forall_eq, List.Pairwise.nil,
      and_true, false_implies, implies_true]
    decide +kernel
  have hsemi : isSemiRegular exQ = true := by
    unfold isSemiRegular
    rw [hper]
    decide +kernel
  have hev : ∃ a ∈ exQ, ∃ b ∈ exQ, monthToId a.ev ≠ monthToId b.ev :=
    ⟨_, List.mem_cons_self, _, List.mem_cons_of_mem _ List.mem_cons_self, by decide⟩
  have hevr : evalDateResolution exQ = some 3 := by
    unfold evalDateResolution
    have he : (exQ.map fun c => monthToId c.ev).eraseDups = [617, 620] := by decide +kernel
    rw [he]
    have hs : sortInts [617, 620] = [617, 620] := by
      unfold sortInts
      apply List.mergeSort_of_pairwise
      simp
    rw [hs]
    decide
  obtain ⟨hc, hcell⟩ := contiguous_example
  obtain ⟨ix, d, hix, hdd, he, hdr⟩ := Frame.ofTriangle_ok (by decide) hc hev
  have hd3 : d = 3 := by rw [hevr] at hdd; exact (Option.some.inj hdd).symm
  have hdv : ix.devResolution ∣ ix.expResolution ∨ ix.expResolution ∣ ix.devResolution := by
    rw [he, hdr, hd3]; left; exact Int.dvd_refl 3
  refine ⟨hsorted, hkinds, isMonthly_of_monthCell hcell, hsemi, hev,
    ⟨ix, hix, he, by rw [hdr, hd3],
      matrixIndex_onGrid (by decide) hsorted hkinds hcell hc hix (matrixIndex_lags_of_dvd (by decide) hc hix hdv)⟩, ?_⟩
  exact fromMatrix_toMatrix_contiguous (by decide) hsorted hkinds hcell hc (isMonthly_of_monthCell hcell) hsemi hix hdv


/-! ### inhabitants of the remaining domains -/

/-- two slices that differ only in `country`, a loss detail (so that `mergeLossDetails` matters), sampled -/
def exLCell (ev : Date) (v : Val) (country : String) : Cell :=
  { kind := .cumulative, ps := ⟨2020, 1, 1⟩, pe := ⟨2020, 12, 31⟩, ev := ev, values := [("paid_loss", v)],
    md := { country := some country, lossDetails := [("peril", .str "wind")] } }

def exL : List Cell :=
  [exLCell ⟨2020, 12, 31⟩ (.arr false [2] [1, 2]) "DE", exLCell ⟨2021, 12, 31⟩ (.arr false [2] [3, 5/2]) "DE",
   exLCell ⟨2020, 12, 31⟩ (.arr false [2] [7, 8]) "US"]

theorem wflong_example : WFlong exL [] ["peril"] where
  ne := by decide
  sorted := by
    unfold exL
    simp only [List.pairwise_cons, List.mem_cons, List.not_mem_nil, or_false, forall_eq_or_imp, forall_eq,
      List.Pairwise.nil, and_true, false_implies, implies_true]
    decide +kernel
  cum := by decide +kernel
  dates := by decide +kernel
  md := by
    intro c hc
    have hcanon : ∀ c ∈ exL, c.md.Canon := by decide +kernel
    have hmd : ∀ c ∈ exL, c.md.details = [] ∧ c.md.lossDetails = [("peril", .str "wind")] ∧
        c.md.riskBasis.isSome = true := by decide +kernel
    obtain ⟨h1, h2, h3⟩ := hmd c hc
    exact ⟨hcanon c hc, h3, by rw [h1]; decide, by rw [h2]; decide, by rw [h1]; decide, by rw [h2]; decide⟩
  names := ⟨by decide, by
    intro k hk
    rcases hk with hk | hk
    · cases hk
    · simp only [List.mem_cons, List.not_mem_nil, or_false] at hk
      subst hk
      decide⟩
  cells := by
    intro c hc
    have hv : ∀ c ∈ exL, sampleCount c = 2 ∧ Dict.keys c.values = ["paid_loss"] ∧
        (c.values.all fun kv => (valData kv.2).map List.length == some 2) = true ∧ c.values ≠ [] := by decide +kernel
    obtain ⟨h1, h2, h3, h4⟩ := hv c hc
    rw [h1]
    refine ⟨⟨by decide, ?_, by rw [h2]; decide, fun _ => h4⟩, h4⟩
    intro kv hkv
    have := List.all_eq_true.mp h3 kv hkv
    simp only [beq_iff_eq] at this
    cases hd : valData kv.2 with
    | none => simp [hd] at this
    | some data => exact ⟨data, rfl, by simpa [hd] using this⟩
  inj := by decide +kernel

/-- an incremental triangle with scalar values: one period, two evaluations, the previous dates chained -/
def exICell (ev prev : Date) (v : Val) : Cell :=
  { kind := .incremental, ps := ⟨2020, 1, 1⟩, pe := ⟨2020, 12, 31⟩, ev := ev, prev := some prev,
    values := [("paid_loss", v)], md := { country := some "DE", details := [("coverage", .str "BI")] } }

def exI : List Cell :=
  [exICell ⟨2020, 12, 31⟩ ⟨2019, 12, 31⟩ (.int 100), exICell ⟨2021, 12, 31⟩ ⟨2020, 12, 31⟩ (.flt (5/2))]

theorem wfwideIncr_example : WFwideIncr exI ["coverage"] [] where
  ne := by decide
  sorted := by
    unfold exI
    simp only [List.pairwise_cons, List.mem_cons, List.not_mem_nil, or_false, forall_eq, List.Pairwise.nil,
      and_true, false_implies, implies_true]
    decide +kernel
  inc := by decide +kernel
  dates := by decide +kernel
  md := by
    intro c hc
    have hcanon : ∀ c ∈ exI, c.md.Canon := by decide +kernel
    have hmd : ∀ c ∈ exI, c.md.details = [("coverage", .str "BI")] ∧ c.md.lossDetails = [] ∧
        c.md.riskBasis.isSome = true := by decide +kernel
    obtain ⟨h1, h2, h3⟩ := hmd c hc
    exact ⟨hcanon c hc, h3, by rw [h1]; decide, by rw [h2]; decide, by rw [h1]; decide, by rw [h2]; decide⟩
  names := by
    have hF : allFields exI = ["paid_loss"] := by decide +kernel
    rw [hF]
    exact ⟨by decide, by decide, by decide, by decide, by decide⟩
  cells := by
    have hF : allFields exI = ["paid_loss"] := by decide +kernel
    rw [hF]
    intro c hc
    have hv : ∀ c ∈ exI, Dict.keys c.values = ["paid_loss"] ∧
        (c.values.all fun kv => (valData kv.2).map List.length == some 1) = true := by decide +kernel
    obtain ⟨h2, h3⟩ := hv c hc
    refine ⟨by decide, ?_, fun h => absurd h (by decide), by rw [h2]; decide⟩
    intro kv hkv
    have := List.all_eq_true.mp h3 kv hkv
    simp only [beq_iff_eq] at this
    cases hd : valData kv.2 with
    | none => simp [hd] at this
    | some data => exact ⟨data, rfl, by simpa [hd] using this⟩

theorem wflongIncr_example : WFlongIncr exI ["coverage"] [] where
  ne := by decide
  sorted := wfwideIncr_example.sorted
  inc := by decide +kernel
  dates := by decide +kernel
  md := by
    intro c hc
    have hcanon : ∀ c ∈ exI, c.md.Canon := by decide +kernel
    have hmd : ∀ c ∈ exI, c.md.details = [("coverage", .str "BI")] ∧ c.md.lossDetails = [] ∧
        c.md.riskBasis.isSome = true := by decide +kernel
    obtain ⟨h1, h2, h3⟩ := hmd c hc
    exact ⟨hcanon c hc, h3, by rw [h1]; decide, by rw [h2]; decide, by rw [h1]; decide, by rw [h2]; decide⟩
  names := ⟨by decide, by
    intro k hk
    rcases hk with hk | hk
    · simp only [List.mem_cons, List.not_mem_nil, or_false] at hk
      subst hk
      decide
    · cases hk⟩
  cells := by
    intro c hc
    have hv : ∀ c ∈ exI, sampleCount c = 1 ∧ Dict.keys c.values = ["paid_loss"] ∧
        (c.values.all fun kv => (valData kv.2).map List.length == some 1) = true ∧ c.values ≠ [] := by decide +kernel
    obtain ⟨h1, h2, h3, h4⟩ := hv c hc
    rw [h1]
    refine ⟨⟨by decide, ?_, by rw [h2]; decide, fun _ => h4⟩, h4⟩
    intro kv hkv
    have := List.all_eq_true.mp h3 kv hkv
    simp only [beq_iff_eq] at this
    cases hd : valData kv.2 with
    | none => simp [hd] at this
    | some data => exact ⟨data, rfl, by simpa [hd] using this⟩
  one := by decide +kernel
  inj := by decide +kernel


/-! ### The wide reader with `detail_cols=None` -/

/-- **fromWide_toWide_inferred**: `from_wide_csv(file, field_cols=fields, loss_detail_cols=L)` — `detail_cols`
left out, so the reader takes `list(set(columns) - CORE_SET - set(field_cols))` (`Frame.inferCols`) — gives the
triangle back, for a well-formed cumulative triangle all of whose detail names `D` occur in some slice (a name
that occurs nowhere has no column). The inferred list is `D` in another order (`inferCols_written`); the
reader does not depend on that order — `WFwide` now asks `D`, `L` only to be duplicate-free, no longer
sorted (`rowDetails_eq_nodup`). The long reader ALWAYS infers its detail columns (`longDetailCols`), which is
part of `fromLong_toLong`. -/
theorem fromWide_toWide_inferred {t : List Cell} {D L : List String} (h : WFwide t D L)
    (hocc : ∀ k ∈ D, k ∈ allMetadataNames t) :
    okAnd (fun out => wideSpec t out && slicesSpec false t out)
      ((toWideRows t).bind fun tb => fromWideRowsInfer tb (some (allFields t)) none L) = true :=
  Frame.fromWide_toWide_inferred h hocc

/-- … and for incremental triangles (`WFwideIncr`) -/
theorem fromWide_toWide_incremental_inferred {t : List Cell} {D L : List String} (h : WFwideIncr t D L)
    (hocc : ∀ k ∈ D, k ∈ allMetadataNames t) :
    okAnd (fun out => wideSpec t out && slicesSpec false t out)
      ((toWideRows t).bind fun tb => fromWideRowsInfer tb (some (allFields t)) none L) = true :=
  Frame.fromWide_toWide_incremental_inferred h hocc

/-- the inferred detail columns of the written table are the names of `D`, without duplicates -/
theorem inferCols_written {t : List Cell} {D L : List String} (h : WFwide t D L)
    (hocc : ∀ k ∈ D, k ∈ allMetadataNames t) {E : Row → Row} (hE : KeepsOthers E) :
    (inferCols (mkTable (t.map (wblock t E)).flatten).cols (allFields t)).Nodup ∧
    ∀ k, k ∈ inferCols (mkTable (t.map (wblock t E)).flatten).cols (allFields t) ↔ k ∈ D :=
  Frame.inferCols_written h hocc hE

/-- the hypothesis is satisfiable: in `ex` the detail name `coverage` occurs -/
theorem inferred_example : ∀ k ∈ ["coverage"], k ∈ allMetadataNames ex := by
  intro k hk
  simp only [List.mem_cons, List.not_mem_nil, or_false] at hk
  subst hk
  refine mem_allMetadataNames.mpr ⟨exCell ⟨2020, 12, 31⟩ (.arr false [2] [1, 2]) "DE", List.mem_cons_self, ?_⟩
  decide +kernel


/-! ### The wide reader and the order of `field_cols`; `field_cols=None` -/

/-- **fromWide_toWide_fieldsPerm**: the wide reader does not depend on the ORDER of `field_cols` — handed any
permutation of the triangle's fields it returns the triangle (only the order of the values inside a cell
changes, which the property does not constrain: `canonCell` compares them sorted by name). -/
theorem fromWide_toWide_fieldsPerm {t : List Cell} {D L F' : List String} (h : WFwide t D L)
    (hp : F'.Perm (allFields t)) :
    okAnd (fun out => wideSpec t out && slicesSpec false t out)
      ((toWideRows t).bind fun tb => fromWideRows tb F' D L) = true :=
  Frame.fromWide_toWide_fieldsPerm h hp

/-- **fromWide_toWide_fieldsInferred**: `from_wide_csv(file, detail_cols=D, loss_detail_cols=L)` — `field_cols`
left out, so the reader takes `list(set(columns) - CORE_SET - set(detail_cols))`, which for the written table
is a permutation of the triangle's fields (`inferFields_written`) — gives the triangle back. -/
theorem fromWide_toWide_fieldsInferred {t : List Cell} {D L : List String} (h : WFwide t D L) :
    okAnd (fun out => wideSpec t out && slicesSpec false t out)
      ((toWideRows t).bind fun tb => fromWideRowsInfer tb none (some D) L) = true :=
  Frame.fromWide_toWide_fieldsInferred h

/-! ### long form read back WITH `loss_detail_cols` (`from_long_data_frame(df, loss_detail_cols=L)`) -/

/-- **fromLong_toLong_lossDetails** (cumulative triangles, `WFlong t DK LK`, and `LossCols t LK L`: the
`loss_detail_cols` argument `L` is a list of distinct loss-detail names covering every loss-detail key of
the triangle — what a caller passing "the triangle's loss-detail keys" hands over). Writing the triangle
to the long table and reading the rows back as `long_data_frame_to_triangle(df, loss_detail_cols=L)` does —
detail columns = the non-core columns WITHOUT `L`, rows grouped by the key list REGENERATED from
`data_frame_input.py` (coordinates, `field`, six metadata columns, detail columns, then `L`) — gives the
triangle ITSELF (`wideSpec`, not `longSpec`): same cells in the same order, coordinates, all eight metadata
attributes with loss details AS loss details (nothing folded into `details`), field sets, numbers as floats,
sample order through the scenario column; every slice stays separate (`slicesSpec false`). This is the call
the correspondence runs as `long+loss_detail_cols` (the frame read from the long CSV with `parse_dates`; the
frame handed over directly by `to_long_data_frame` is refused for its `period[D]` column whatever the
arguments: `longFrame_never_reads_back`). -/
theorem fromLong_toLong_lossDetails {t : List Cell} {DK LK L : List String} (h : WFlong t DK LK)
    (hL : LossCols t LK L) :
    okAnd (fun out => wideSpec t out && slicesSpec false t out)
      ((toLongRows t).bind fun tb => fromLongRows tb L) = true :=
  Frame.fromLong_toLong_lossDetails h hL

/-- the metadata layer of the above, row by row: every row of the written long table reads back
(`_create_metadata` with `loss_detail_cols = L`) as the metadata of a cell of the triangle, and every cell's
metadata is read from some row -/
theorem toLong_rowMetadata_lossDetails {t : List Cell} {DK LK L : List String} (h : WFlong t DK LK)
    (hL : LossCols t LK L) :
    ∃ tb, toLongRows t = .ok tb ∧
      (∀ r ∈ tb.rows, ∃ c ∈ t, rowMetadata r (longDetailCols tb.cols L) L = c.md) ∧
      (∀ c ∈ t, ∃ r ∈ tb.rows, rowMetadata r (longDetailCols tb.cols L) L = c.md) :=
  Frame.toLong_rowMetadata_loss h hL.nodup hL.sub hL.cov

/-- the domain is inhabited: `exL` (two slices, a loss detail `peril`, sampled cells) with
`loss_detail_cols = ["peril"]`; and there the round trip holds -/
theorem lossCols_example : LossCols exL ["peril"] ["peril"] where
  nodup := by decide
  sub := fun _ hk => hk
  cov := by decide +kernel

example : okAnd (fun out => wideSpec exL out && slicesSpec false exL out)
    ((toLongRows exL).bind fun tb => fromLongRows tb ["peril"]) = true :=
  fromLong_toLong_lossDetails wflong_example lossCols_example

/-! ### several array frames: the pieces composed -/

/-- every cell the single-frame reader builds holds one field: its value dict has distinct keys -/
theorem arrayExpected_values_wf {field : String} {md : Metadata} {res : Int} {fe : Bool} {lags : List Int}
    {rows : List (Date × List Val)} : ∀ c ∈ arrayExpected field md res fe lags rows, c.values.WF := by
  intro c hc
  unfold arrayExpected at hc
  obtain ⟨r, _, hc⟩ := List.mem_flatMap.mp hc
  obtain ⟨lv, _, hc⟩ := List.mem_filterMap.mp hc
  split at hc
  · cases hc
  · cases hc; simp [Dict.WF, Dict.keys]

/-- **arrayBuilder_two_fields_partial**: `array_triangle_builder([df1, df2], [n1, n2], period_resolution=res, …)`
on two `RegFrame`s (the domain of `fromArrayFrame_args`, inhabited: `regFrame_example`; the two frames may
have different periods, columns and gaps). The composition of `arrayBuilder_spec`, `fromArrayFrame_args`
(twice) and `Properties/C10.lean: mergeSpecLast_of_merge`: the builder's result IS the full-join `merge` of the
two explicitly described single-field triangles `Spec.arrayExpected n1 …`, `Spec.arrayExpected n2 …`, and
whenever that merge returns `out`, `out` satisfies `Spec.mergeSpecLast .full none`: distinct coordinates; a
coordinate of both frames carries the first frame's cell with the right-biased union of the two one-field
value dicts (both fields; `n2`'s value wins when `n1 = n2`), a coordinate of one frame only that frame's cell
unchanged; every coordinate of either frame occurs.
MISSING (hence `_partial`): (a) that the merge returns at all — it does, every cell is a `CumulativeCell`, so
neither the join's class check nor the constructor's refuses, but this is not proved here; (b) that inside one
frame's triangle coordinates are distinct (strictly ascending periods and lags), which would turn "the LAST
cell of an operand at a coordinate" of `mergeSpecLast` into "the" cell (`mergeSpec_of_merge`); (c) three or more
frames (`arrayBuilder_spec`: the left fold of the same step). -/
theorem arrayBuilder_two_fields_partial {cols1 cols2 : List String} {rows1 rows2 : List (Date × List Val)}
    {n1 n2 : String} {md : Metadata} {res : Int} {evalRes : Option Int} {fe : Bool}
    (h1 : RegFrame n1 md res (fe || (effectiveEvalResolution cols1 res evalRes).isSome)
          (columnLags cols1 (effectiveEvalResolution cols1 res evalRes)) rows1)
    (h2 : RegFrame n2 md res (fe || (effectiveEvalResolution cols2 res evalRes).isSome)
          (columnLags cols2 (effectiveEvalResolution cols2 res evalRes)) rows2) :
    arrayTriangleBuilder
        [{ cols := cols1, rows := rows1.map fun r => (PeriodEntry.date r.1, r.2) },
         { cols := cols2, rows := rows2.map fun r => (PeriodEntry.date r.1, r.2) }] [n1, n2] (some res) evalRes fe md =
      merge (some .full) none
        (arrayExpected n1 md res (fe || (effectiveEvalResolution cols1 res evalRes).isSome)
          (columnLags cols1 (effectiveEvalResolution cols1 res evalRes)) rows1)
        (arrayExpected n2 md res (fe || (effectiveEvalResolution cols2 res evalRes).isSome)
          (columnLags cols2 (effectiveEvalResolution cols2 res evalRes)) rows2) ∧
    ∀ out, merge (some .full) none
        (arrayExpected n1 md res (fe || (effectiveEvalResolution cols1 res evalRes).isSome)
          (columnLags cols1 (effectiveEvalResolution cols1 res evalRes)) rows1)
        (arrayExpected n2 md res (fe || (effectiveEvalResolution cols2 res evalRes).isSome)
          (columnLags cols2 (effectiveEvalResolution cols2 res evalRes)) rows2) = .ok out →
      Spec.mergeSpecLast .full none
        (arrayExpected n1 md res (fe || (effectiveEvalResolution cols1 res evalRes).isSome)
          (columnLags cols1 (effectiveEvalResolution cols1 res evalRes)) rows1)
        (arrayExpected n2 md res (fe || (effectiveEvalResolution cols2 res evalRes).isSome)
          (columnLags cols2 (effectiveEvalResolution cols2 res evalRes)) rows2) out = true := by
  refine ⟨?_, ?_⟩
  · rw [(arrayBuilder_spec _ _ n1 n2 (some res) evalRes fe md).2.1, fromArrayFrame_args h1, fromArrayFrame_args h2]
    rfl
  · intro out hout
    apply Bermuda.Properties.C10.mergeSpecLast_of_merge _ hout
    intro c hc
    rcases List.mem_append.mp hc with hc | hc
    · exact arrayExpected_values_wf c hc
    · exact arrayExpected_values_wf c hc

-- (the full statement `arrayBuilder_two_fields` is proved below: items (a) and (b) of the docstring above are
-- discharged by `merge_cumulative_returns` and `arrayExpected_keys_nodup`)

/-! ### the two-frame builder returns: general lemma, composed statement, closed instance -/

theorem cellAtLast_mem {inc : Bool} {t : List Cell} {k : Coord} {x : Cell}
    (h : Spec.cellAtLast inc t k = some x) : x ∈ t := by
  unfold Spec.cellAtLast at h
  exact (List.mem_filter.mp (List.mem_of_getLast? h)).1

theorem merge_cumulative_returns {a b : List Cell} (ha : ∀ c ∈ a, c.kind = .cumulative)
    (hb : ∀ c ∈ b, c.kind = .cumulative) : ∃ out, merge (some .full) none a b = .ok out := by
  have hkm : kindMismatch a b = false := by
    cases a with
    | nil => rfl
    | cons c _ =>
      cases b with
      | nil => rfl
      | cons d _ => simp [kindMismatch, ha c (by simp), hb d (by simp)]
  have hj : join (some .full) none a b = .ok (joinCore .full a b) := by
    unfold join
    simp [hkm, reduceOn, bind, Except.bind, pure, Except.pure]
  have hlast := Bermuda.Properties.C10.join_pairs_last hj
  unfold merge
  simp only [hj, bind, Except.bind]
  unfold Triangle.ofCells
  have hk : kindsConsistent ((joinCore .full a b).filterMap mergeCellPair) = true := by
    unfold kindsConsistent
    have : (((joinCore .full a b).filterMap mergeCellPair).all (·.kind == .cumulative)) = true := by
      rw [List.all_eq_true]
      intro c hc
      obtain ⟨p, hp, hpc⟩ := List.mem_filterMap.mp hc
      obtain ⟨k, _, hpe⟩ := hlast p hp
      simp only [Spec.sortedOn] at hpe
      rcases p with ⟨p1, p2⟩
      simp only [Prod.mk.injEq] at hpe
      obtain ⟨e1, e2⟩ := hpe
      cases p1 with
      | none =>
        cases p2 with
        | none => simp [mergeCellPair] at hpc
        | some y =>
          simp only [mergeCellPair, Option.some.injEq] at hpc
          subst hpc
          simp [hb _ (cellAtLast_mem e2.symm)]
      | some x =>
        have hx := ha _ (cellAtLast_mem e1.symm)
        cases p2 with
        | none =>
          simp only [mergeCellPair, Option.some.injEq] at hpc
          subst hpc; simp [hx]
        | some y =>
          simp only [mergeCellPair, Option.some.injEq] at hpc
          subst hpc; simp [hx]
    rw [this]; simp
  rw [if_pos hk]
  exact ⟨_, rfl⟩

theorem arrayExpected_cumulative {field : String} {md : Metadata} {res : Int} {fe : Bool} {lags : List Int}
    {rows : List (Date × List Val)} : ∀ c ∈ arrayExpected field md res fe lags rows, c.kind = .cumulative := by
  intro c hc
  unfold arrayExpected at hc
  obtain ⟨r, _, hc⟩ := List.mem_flatMap.mp hc
  obtain ⟨lv, _, hc⟩ := List.mem_filterMap.mp hc
  split at hc
  · cases hc
  · cases hc; rfl

/-- **arrayBuilder_two_fields_returns**: under the hypotheses of `arrayBuilder_two_fields_partial` the builder
RETURNS a triangle `out` (no class refusal in the join, none in the constructor: every cell is a
`CumulativeCell`), `out` is the full-join merge of the two single-field triangles and satisfies
`Spec.mergeSpecLast .full none`. (Item (a) of the `_partial` docstring is hereby discharged; still declared:
(b) distinct coordinates inside one frame's triangle → `mergeSpec`, (c) three or more frames.) -/
theorem arrayBuilder_two_fields_returns {cols1 cols2 : List String} {rows1 rows2 : List (Date × List Val)}
    {n1 n2 : String} {md : Metadata} {res : Int} {evalRes : Option Int} {fe : Bool}
    (h1 : RegFrame n1 md res (fe || (effectiveEvalResolution cols1 res evalRes).isSome)
          (columnLags cols1 (effectiveEvalResolution cols1 res evalRes)) rows1)
    (h2 : RegFrame n2 md res (fe || (effectiveEvalResolution cols2 res evalRes).isSome)
          (columnLags cols2 (effectiveEvalResolution cols2 res evalRes)) rows2) :
    ∃ out, arrayTriangleBuilder
        [{ cols := cols1, rows := rows1.map fun r => (PeriodEntry.date r.1, r.2) },
         { cols := cols2, rows := rows2.map fun r => (PeriodEntry.date r.1, r.2) }] [n1, n2] (some res) evalRes fe md =
        .ok out ∧
      Spec.mergeSpecLast .full none
        (arrayExpected n1 md res (fe || (effectiveEvalResolution cols1 res evalRes).isSome)
          (columnLags cols1 (effectiveEvalResolution cols1 res evalRes)) rows1)
        (arrayExpected n2 md res (fe || (effectiveEvalResolution cols2 res evalRes).isSome)
          (columnLags cols2 (effectiveEvalResolution cols2 res evalRes)) rows2) out = true := by
  obtain ⟨hb, hs⟩ := arrayBuilder_two_fields_partial h1 h2
  obtain ⟨out, hout⟩ := merge_cumulative_returns
    (a := arrayExpected n1 md res (fe || (effectiveEvalResolution cols1 res evalRes).isSome)
          (columnLags cols1 (effectiveEvalResolution cols1 res evalRes)) rows1)
    (b := arrayExpected n2 md res (fe || (effectiveEvalResolution cols2 res evalRes).isSome)
          (columnLags cols2 (effectiveEvalResolution cols2 res evalRes)) rows2)
    arrayExpected_cumulative arrayExpected_cumulative
  exact ⟨out, hb.trans hout, hs out hout⟩

/-- two concrete one-quarter frames (period 2021-04, lag 0), fields `paid_loss` / `reported_loss` -/
def exF1 : ArrayFrame := { cols := ["0"], rows := [(PeriodEntry.date ⟨2021, 4, 1⟩, [.flt 1])] }
def exF2 : ArrayFrame := { cols := ["0"], rows := [(PeriodEntry.date ⟨2021, 4, 1⟩, [.int 2])] }

/-- **closed instance** (kernel evaluation of the model; one coordinate, because the kernel cannot evaluate
`List.mergeSort` on two or more cells): `array_triangle_builder([df1, df2], ["paid_loss", "reported_loss"],
period_resolution=3, eval_resolution=3)` returns the one cell carrying BOTH fields. -/
theorem arrayBuilder_two_fields_example :
    arrayTriangleBuilder [exF1, exF2] ["paid_loss", "reported_loss"] (some 3) (some 3) true {} =
      .ok [{ kind := .cumulative, ps := ⟨2021, 4, 1⟩, pe := ⟨2021, 6, 30⟩, ev := ⟨2021, 6, 30⟩,
             values := [("paid_loss", .flt 1), ("reported_loss", .int 2)], md := {} }] := by
  decide +kernel

/-- … and the two frames of the instance lie in the domain of `arrayBuilder_two_fields_partial` /
`arrayBuilder_two_fields_returns` (its `RegFrame` hypotheses, for these very arguments) -/
theorem arrayBuilder_two_fields_example_domain :
    RegFrame "paid_loss" {} 3 (true || (effectiveEvalResolution ["0"] 3 (some 3)).isSome)
      (columnLags ["0"] (effectiveEvalResolution ["0"] 3 (some 3))) [(⟨2021, 4, 1⟩, [.flt 1])] ∧
    RegFrame "reported_loss" {} 3 (true || (effectiveEvalResolution ["0"] 3 (some 3)).isSome)
      (columnLags ["0"] (effectiveEvalResolution ["0"] 3 (some 3))) [(⟨2021, 4, 1⟩, [.int 2])] := by
  constructor
  · exact { res1 := by decide, first := by decide, asc := by simp, lagsAsc := by decide,
            fromStart := (by intro h; cases h), dates := (by decide +kernel) }
  · exact { res1 := by decide, first := by decide, asc := by simp, lagsAsc := by decide,
            fromStart := (by intro h; cases h), dates := (by decide +kernel) }

/-! ### distinct coordinates inside one frame; the two-frame builder fully composed -/

theorem arrayExpected_prev_none {field : String} {md : Metadata} {res : Int} {fe : Bool} {lags : List Int}
    {rows : List (Date × List Val)} : ∀ c ∈ arrayExpected field md res fe lags rows, c.prev = none := by
  intro c hc
  unfold arrayExpected at hc
  obtain ⟨r, _, hc⟩ := List.mem_flatMap.mp hc
  obtain ⟨lv, _, hc⟩ := List.mem_filterMap.mp hc
  split at hc
  · cases hc
  · cases hc; rfl

/-- distinct coordinates inside one frame's triangle -/
theorem arrayExpected_keys_nodup {field : String} {md : Metadata} {res : Int} {fe : Bool} {lags : List Int}
    {rows : List (Date × List Val)} (h : RegFrame field md res fe lags rows) (inc : Bool) :
    ((arrayExpected field md res fe lags rows).map (joinKey inc)).Nodup := by
  rw [List.nodup_iff_pairwise_ne, List.pairwise_map]
  have hs : (arrayExpected field md res fe lags rows).Pairwise
      (fun a b => (a ∈ arrayExpected field md res fe lags rows ∧ b ∈ arrayExpected field md res fe lags rows) ∧
        Cell.cmp a b = .lt) := by
    rw [List.pairwise_iff_getElem]
    intro i j hi hj hij
    exact ⟨⟨List.getElem_mem hi, List.getElem_mem hj⟩,
      List.pairwise_iff_getElem.mp (expected_sorted h) i j hi hj hij⟩
  refine hs.imp ?_
  intro x y ⟨⟨hx, hy⟩, hlt⟩ hk
  have px := arrayExpected_prev_none x hx
  have py := arrayExpected_prev_none y hy
  simp only [joinKey, px, py, ite_self, Coord.mk.injEq, and_true] at hk
  obtain ⟨hmd, hps, hpe, hev⟩ := hk
  have : Cell.cmp x y = Cell.cmp x x := by
    simp only [Cell.cmp, compareLex, cmpOn, ← hmd, ← hps, ← hpe, ← hev, px, py]
  rw [this, Std.ReflCmp.compare_self (cmp := Cell.cmp)] at hlt
  cases hlt

/-- **arrayBuilder_two_fields**: the two-frame builder, fully composed (the statement that was kept as a
comment under `arrayBuilder_two_fields_partial`). For two `RegFrame`s and an explicit `period_resolution`,
`array_triangle_builder([df1, df2], [n1, n2], …)` RETURNS a triangle `out` and `out` satisfies
`Spec.mergeSpec .full none (arrayExpected n1 …) (arrayExpected n2 …)`: coordinates distinct; a coordinate of
both frames carries the first frame's cell with the right-biased union of the two one-field value dicts, a
coordinate of one frame only carries THE cell of that frame unchanged; every coordinate of either frame
occurs. Pieces: `arrayBuilder_two_fields_partial` (builder = merge), `merge_cumulative_returns`,
`arrayExpected_keys_nodup` (from `Frame.expected_sorted`), `Properties.C10.mergeSpec_of_merge`. Still declared:
three or more frames; the variant with `period_resolution` inferred. -/
theorem arrayBuilder_two_fields {cols1 cols2 : List String} {rows1 rows2 : List (Date × List Val)}
    {n1 n2 : String} {md : Metadata} {res : Int} {evalRes : Option Int} {fe : Bool}
    (h1 : RegFrame n1 md res (fe || (effectiveEvalResolution cols1 res evalRes).isSome)
          (columnLags cols1 (effectiveEvalResolution cols1 res evalRes)) rows1)
    (h2 : RegFrame n2 md res (fe || (effectiveEvalResolution cols2 res evalRes).isSome)
          (columnLags cols2 (effectiveEvalResolution cols2 res evalRes)) rows2) :
    ∃ out, arrayTriangleBuilder
        [{ cols := cols1, rows := rows1.map fun r => (PeriodEntry.date r.1, r.2) },
         { cols := cols2, rows := rows2.map fun r => (PeriodEntry.date r.1, r.2) }] [n1, n2] (some res) evalRes fe md =
        .ok out ∧
      Spec.mergeSpec .full none
        (arrayExpected n1 md res (fe || (effectiveEvalResolution cols1 res evalRes).isSome)
          (columnLags cols1 (effectiveEvalResolution cols1 res evalRes)) rows1)
        (arrayExpected n2 md res (fe || (effectiveEvalResolution cols2 res evalRes).isSome)
          (columnLags cols2 (effectiveEvalResolution cols2 res evalRes)) rows2) out = true := by
  obtain ⟨hb, _⟩ := arrayBuilder_two_fields_partial h1 h2
  obtain ⟨out, hout⟩ := merge_cumulative_returns
    (a := arrayExpected n1 md res (fe || (effectiveEvalResolution cols1 res evalRes).isSome)
          (columnLags cols1 (effectiveEvalResolution cols1 res evalRes)) rows1)
    (b := arrayExpected n2 md res (fe || (effectiveEvalResolution cols2 res evalRes).isSome)
          (columnLags cols2 (effectiveEvalResolution cols2 res evalRes)) rows2)
    arrayExpected_cumulative arrayExpected_cumulative
  refine ⟨out, hb.trans hout, ?_⟩
  apply Bermuda.Properties.C10.mergeSpec_of_merge _ _ hout
  · unfold Spec.joinHyp
    simp only [Spec.onCells, Bool.and_eq_true]
    exact ⟨Bermuda.nodupB_iff.mpr (arrayExpected_keys_nodup h1 _),
      Bermuda.nodupB_iff.mpr (arrayExpected_keys_nodup h2 _)⟩
  · intro c hc
    rcases List.mem_append.mp hc with hc | hc
    · exact arrayExpected_values_wf c hc
    · exact arrayExpected_values_wf c hc

/-! ### two frames, `period_resolution` inferred -/

/-- **arrayBuilder_two_fields_inferred**: as `arrayBuilder_two_fields`, with `period_resolution=None`: each of the
two single-frame readers infers the resolution from ITS first two period starts (`round` of the fractional
month lag, fix D19). Beyond `RegFrame` the only hypotheses are the ones inference itself needs (those of
`fromArrayFrame_args_inferred`): each frame has at least two rows and its first two period starts are `res`
months apart. Then the builder RETURNS `out` and `Spec.mergeSpec .full none (arrayExpected n1 …) (arrayExpected n2 …) out`
holds. (A frame with fewer than two rows, or frames whose inferred resolutions differ, are outside this
statement.) -/
theorem arrayBuilder_two_fields_inferred {cols1 cols2 : List String} {rows1 rows2 : List (Date × List Val)}
    {n1 n2 : String} {md : Metadata} {res : Int} {evalRes : Option Int} {fe : Bool}
    (h1 : RegFrame n1 md res (fe || (effectiveEvalResolution cols1 res evalRes).isSome)
          (columnLags cols1 (effectiveEvalResolution cols1 res evalRes)) rows1)
    (h2 : RegFrame n2 md res (fe || (effectiveEvalResolution cols2 res evalRes).isSome)
          (columnLags cols2 (effectiveEvalResolution cols2 res evalRes)) rows2)
    (hp1 : ∃ r0 r1 rest, rows1 = r0 :: r1 :: rest ∧ monthToId r1.1 = monthToId r0.1 + res)
    (hp2 : ∃ r0 r1 rest, rows2 = r0 :: r1 :: rest ∧ monthToId r1.1 = monthToId r0.1 + res) :
    ∃ out, arrayTriangleBuilder
        [{ cols := cols1, rows := rows1.map fun r => (PeriodEntry.date r.1, r.2) },
         { cols := cols2, rows := rows2.map fun r => (PeriodEntry.date r.1, r.2) }] [n1, n2] none evalRes fe md =
        .ok out ∧
      Spec.mergeSpec .full none
        (arrayExpected n1 md res (fe || (effectiveEvalResolution cols1 res evalRes).isSome)
          (columnLags cols1 (effectiveEvalResolution cols1 res evalRes)) rows1)
        (arrayExpected n2 md res (fe || (effectiveEvalResolution cols2 res evalRes).isSome)
          (columnLags cols2 (effectiveEvalResolution cols2 res evalRes)) rows2) out = true := by
  have hb : arrayTriangleBuilder
        [{ cols := cols1, rows := rows1.map fun r => (PeriodEntry.date r.1, r.2) },
         { cols := cols2, rows := rows2.map fun r => (PeriodEntry.date r.1, r.2) }] [n1, n2] none evalRes fe md =
      merge (some .full) none
        (arrayExpected n1 md res (fe || (effectiveEvalResolution cols1 res evalRes).isSome)
          (columnLags cols1 (effectiveEvalResolution cols1 res evalRes)) rows1)
        (arrayExpected n2 md res (fe || (effectiveEvalResolution cols2 res evalRes).isSome)
          (columnLags cols2 (effectiveEvalResolution cols2 res evalRes)) rows2) := by
    rw [(arrayBuilder_spec _ _ n1 n2 none evalRes fe md).2.1, fromArrayFrame_args_inferred h1 hp1,
      fromArrayFrame_args_inferred h2 hp2]
    rfl
  obtain ⟨out, hout⟩ := merge_cumulative_returns
    (a := arrayExpected n1 md res (fe || (effectiveEvalResolution cols1 res evalRes).isSome)
          (columnLags cols1 (effectiveEvalResolution cols1 res evalRes)) rows1)
    (b := arrayExpected n2 md res (fe || (effectiveEvalResolution cols2 res evalRes).isSome)
          (columnLags cols2 (effectiveEvalResolution cols2 res evalRes)) rows2)
    arrayExpected_cumulative arrayExpected_cumulative
  refine ⟨out, hb.trans hout, ?_⟩
  apply Bermuda.Properties.C10.mergeSpec_of_merge _ _ hout
  · unfold Spec.joinHyp
    simp only [Spec.onCells, Bool.and_eq_true]
    exact ⟨Bermuda.nodupB_iff.mpr (arrayExpected_keys_nodup h1 _),
      Bermuda.nodupB_iff.mpr (arrayExpected_keys_nodup h2 _)⟩
  · intro c hc
    rcases List.mem_append.mp hc with hc | hc
    · exact arrayExpected_values_wf c hc
    · exact arrayExpected_values_wf c hc

/-! ### any number of frames: the builder's fold of merges -/

/-- the full-join merge of two all-cumulative triangles returns an all-cumulative triangle -/
theorem merge_cumulative_closed {a b : List Cell} (ha : ∀ c ∈ a, c.kind = .cumulative)
    (hb : ∀ c ∈ b, c.kind = .cumulative) :
    ∃ out, merge (some .full) none a b = .ok out ∧ ∀ c ∈ out, c.kind = .cumulative := by
  obtain ⟨out, hout⟩ := merge_cumulative_returns ha hb
  refine ⟨out, hout, ?_⟩
  obtain ⟨ps, hj, hperm, _⟩ := Bermuda.Properties.C10.merge_ok hout
  have hlast := Bermuda.Properties.C10.join_pairs_last hj
  intro c hc
  obtain ⟨p, hp, hpc⟩ := List.mem_filterMap.mp (hperm.mem_iff.mp hc)
  obtain ⟨k, _, hpe⟩ := hlast p hp
  simp only [Spec.sortedOn] at hpe
  rcases p with ⟨p1, p2⟩
  simp only [Prod.mk.injEq] at hpe
  obtain ⟨e1, e2⟩ := hpe
  cases p1 with
  | none =>
    cases p2 with
    | none => simp [mergeCellPair] at hpc
    | some y =>
      simp only [mergeCellPair, Option.some.injEq] at hpc
      subst hpc
      exact hb _ (cellAtLast_mem e2.symm)
  | some x =>
    have hx := ha _ (cellAtLast_mem e1.symm)
    cases p2 with
    | none =>
      simp only [mergeCellPair, Option.some.injEq] at hpc
      subst hpc; exact hx
    | some y =>
      simp only [mergeCellPair, Option.some.injEq] at hpc
      subst hpc; exact hx

/-- a left fold of full-join merges over all-cumulative triangles returns (an all-cumulative triangle) -/
theorem foldlM_merge_cumulative : ∀ (ts : List (List Cell)) (acc : List Cell),
    (∀ c ∈ acc, c.kind = .cumulative) → (∀ t ∈ ts, ∀ c ∈ t, c.kind = .cumulative) →
    ∃ out, ts.foldlM (fun acc t => merge (some .full) none acc t) acc = .ok out ∧
      ∀ c ∈ out, c.kind = .cumulative
  | [], acc, ha, _ => ⟨acc, rfl, ha⟩
  | t :: ts, acc, ha, hts => by
    obtain ⟨o1, h1, hc1⟩ := merge_cumulative_closed ha (hts t List.mem_cons_self)
    obtain ⟨out, h2, hc2⟩ := foldlM_merge_cumulative ts o1 hc1 (fun t' ht' => hts t' (List.mem_cons_of_mem _ ht'))
    refine ⟨out, ?_, hc2⟩
    rw [List.foldlM_cons, h1]
    exact h2

/-- one frame of the builder's argument lists: column labels, rows, field name -/
abbrev FrameSpec := List String × List (Date × List Val) × String

def FrameSpec.frame (s : FrameSpec) : ArrayFrame :=
  { cols := s.1, rows := s.2.1.map fun r => (PeriodEntry.date r.1, r.2) }

def FrameSpec.expected (md : Metadata) (res : Int) (evalRes : Option Int) (fe : Bool) (s : FrameSpec) : List Cell :=
  arrayExpected s.2.2 md res (fe || (effectiveEvalResolution s.1 res evalRes).isSome)
    (columnLags s.1 (effectiveEvalResolution s.1 res evalRes)) s.2.1

def FrameSpec.Reg (md : Metadata) (res : Int) (evalRes : Option Int) (fe : Bool) (s : FrameSpec) : Prop :=
  RegFrame s.2.2 md res (fe || (effectiveEvalResolution s.1 res evalRes).isSome)
    (columnLags s.1 (effectiveEvalResolution s.1 res evalRes)) s.2.1

theorem builderFold_eq {md : Metadata} {res : Int} {evalRes : Option Int} {fe : Bool} :
    ∀ (rest : List FrameSpec) (acc : List Cell), (∀ s ∈ rest, s.Reg md res evalRes fe) →
    (rest.map fun s => (s.frame, s.2.2)).foldlM (fun acc p =>
      (fromArrayFrameFull p.1 p.2 (some res) evalRes fe md).bind fun t => merge (some .full) none acc t) acc =
    (rest.map (FrameSpec.expected md res evalRes fe)).foldlM (fun acc t => merge (some .full) none acc t) acc
  | [], _, _ => rfl
  | s :: rest, acc, h => by
    have hs : fromArrayFrameFull s.frame s.2.2 (some res) evalRes fe md = .ok (s.expected md res evalRes fe) :=
      fromArrayFrame_args (h s List.mem_cons_self)
    rw [List.map_cons, List.foldlM_cons, List.map_cons, List.foldlM_cons]
    simp only [hs, Except.bind]
    cases hm : merge (some .full) none acc (s.expected md res evalRes fe) with
    | error e => rfl
    | ok o => exact builderFold_eq rest o (fun s' hs' => h s' (List.mem_cons_of_mem _ hs'))

/-- **arrayBuilder_fields_partial** (any number n ≥ 1 of frames `s0 :: rest`, each a `RegFrame` for the common
`metadata`, explicit `period_resolution=res`, `eval_resolution`, `dev_lag_from_period_end`): the builder's result
IS the left fold of full-join merges over the explicitly described single-field triangles
`FrameSpec.expected … s`, starting from the first frame's, and it RETURNS (an all-`CumulativeCell` triangle).
What each merge step does is `arrayBuilder_fields` below (`mergeSpec` at every step). -/
theorem arrayBuilder_fields_partial {md : Metadata} {res : Int} {evalRes : Option Int} {fe : Bool}
    (s0 : FrameSpec) (rest : List FrameSpec) (h : ∀ s ∈ s0 :: rest, s.Reg md res evalRes fe) :
    arrayTriangleBuilder ((s0 :: rest).map FrameSpec.frame) ((s0 :: rest).map (·.2.2)) (some res) evalRes fe md =
      (rest.map (FrameSpec.expected md res evalRes fe)).foldlM (fun acc t => merge (some .full) none acc t)
        (s0.expected md res evalRes fe) ∧
    ∃ out, arrayTriangleBuilder ((s0 :: rest).map FrameSpec.frame) ((s0 :: rest).map (·.2.2)) (some res) evalRes fe md =
      .ok out ∧ ∀ c ∈ out, c.kind = .cumulative := by
  have hs0 : fromArrayFrameFull s0.frame s0.2.2 (some res) evalRes fe md = .ok (s0.expected md res evalRes fe) :=
    fromArrayFrame_args (h s0 List.mem_cons_self)
  have heq : arrayTriangleBuilder ((s0 :: rest).map FrameSpec.frame) ((s0 :: rest).map (·.2.2)) (some res) evalRes fe md =
      (rest.map (FrameSpec.expected md res evalRes fe)).foldlM (fun acc t => merge (some .full) none acc t)
        (s0.expected md res evalRes fe) := by
    unfold arrayTriangleBuilder
    have hz : (rest.map FrameSpec.frame).zip (rest.map (·.2.2)) = rest.map fun s => (s.frame, s.2.2) := by
      rw [List.zip_map']
    simp only [List.map_cons, List.length_cons, List.length_map, bne_self_eq_false, Bool.false_eq_true, if_false,
      List.zip_cons_cons, hz, hs0, Except.bind]
    exact builderFold_eq rest _ (fun s hs => h s (List.mem_cons_of_mem _ hs))
  refine ⟨heq, ?_⟩
  rw [heq]
  exact foldlM_merge_cumulative _ _ arrayExpected_cumulative (by
    intro t ht
    obtain ⟨s, _, rfl⟩ := List.mem_map.mp ht
    exact arrayExpected_cumulative)

/-- what every triangle in the builder's fold is: all `CumulativeCell`s, distinct coordinates, value dicts with
distinct keys -/
structure CumTriangle (a : List Cell) : Prop where
  cum : ∀ c ∈ a, c.kind = .cumulative
  nd : (a.map (joinKey false)).Nodup
  wf : ∀ c ∈ a, c.values.WF

theorem isIncremental_cum {a : List Cell} (h : ∀ c ∈ a, c.kind = .cumulative) : isIncremental a = false := by
  cases a with
  | nil => rfl
  | cons c _ => simp [isIncremental, h c (by simp)]

/-- one step of the builder's fold: the merge returns, satisfies `mergeSpec`, and the result is again a
`CumTriangle` -/
theorem merge_step {a b : List Cell} (ha : CumTriangle a) (hb : CumTriangle b) :
    ∃ o, merge (some .full) none a b = .ok o ∧ Spec.mergeSpec .full none a b o = true ∧ CumTriangle o := by
  obtain ⟨o, ho, hcum⟩ := merge_cumulative_closed ha.cum hb.cum
  have hinc := isIncremental_cum ha.cum
  have hspec : Spec.mergeSpec .full none a b o = true := by
    apply Bermuda.Properties.C10.mergeSpec_of_merge _ _ ho
    · unfold Spec.joinHyp
      simp only [Spec.onCells, Bool.and_eq_true, hinc]
      exact ⟨Bermuda.nodupB_iff.mpr ha.nd, Bermuda.nodupB_iff.mpr hb.nd⟩
    · intro c hc
      rcases List.mem_append.mp hc with hc | hc
      · exact ha.wf c hc
      · exact hb.wf c hc
  refine ⟨o, ho, hspec, hcum, ?_, ?_⟩
  · have := hspec
    unfold Spec.mergeSpec at this
    simp only [Bool.and_eq_true, hinc] at this
    exact Bermuda.nodupB_iff.mp this.1.1
  · obtain ⟨ps, hj, hperm, _⟩ := Bermuda.Properties.C10.merge_ok ho
    have hlast := Bermuda.Properties.C10.join_pairs_last hj
    intro c hc
    obtain ⟨p, hp, hpc⟩ := List.mem_filterMap.mp (hperm.mem_iff.mp hc)
    obtain ⟨k, _, hpe⟩ := hlast p hp
    simp only [Spec.sortedOn] at hpe
    rcases p with ⟨p1, p2⟩
    simp only [Prod.mk.injEq] at hpe
    obtain ⟨e1, e2⟩ := hpe
    cases p1 with
    | none =>
      cases p2 with
      | none => simp [mergeCellPair] at hpc
      | some y =>
        simp only [mergeCellPair, Option.some.injEq] at hpc
        subst hpc
        exact hb.wf _ (cellAtLast_mem e2.symm)
    | some x =>
      have hx := ha.wf _ (cellAtLast_mem e1.symm)
      cases p2 with
      | none =>
        simp only [mergeCellPair, Option.some.injEq] at hpc
        subst hpc; exact hx
      | some y =>
        simp only [mergeCellPair, Option.some.injEq] at hpc
        subst hpc; exact Dict.WF_union hx _

/-- `MergeChain acc ts out`: `out` is reached from `acc` by merging the triangles `ts` in one after the other, each
step returning and satisfying `Spec.mergeSpec .full none` -/
inductive MergeChain : List Cell → List (List Cell) → List Cell → Prop
  | nil (acc : List Cell) : MergeChain acc [] acc
  | cons {acc t o : List Cell} {ts : List (List Cell)} {out : List Cell} :
      merge (some .full) none acc t = .ok o → Spec.mergeSpec .full none acc t o = true →
      MergeChain o ts out → MergeChain acc (t :: ts) out

theorem foldlM_merge_chain : ∀ (ts : List (List Cell)) (acc : List Cell), CumTriangle acc →
    (∀ t ∈ ts, CumTriangle t) →
    ∃ out, ts.foldlM (fun acc t => merge (some .full) none acc t) acc = .ok out ∧ MergeChain acc ts out ∧
      CumTriangle out
  | [], acc, ha, _ => ⟨acc, rfl, .nil acc, ha⟩
  | t :: ts, acc, ha, hts => by
    obtain ⟨o, h1, hs, ho⟩ := merge_step ha (hts t List.mem_cons_self)
    obtain ⟨out, h2, hch, hout⟩ := foldlM_merge_chain ts o ho (fun t' ht' => hts t' (List.mem_cons_of_mem _ ht'))
    refine ⟨out, ?_, .cons h1 hs hch, hout⟩
    rw [List.foldlM_cons, h1]
    exact h2

theorem FrameSpec.expected_cumTriangle {md : Metadata} {res : Int} {evalRes : Option Int} {fe : Bool}
    {s : FrameSpec} (h : s.Reg md res evalRes fe) : CumTriangle (s.expected md res evalRes fe) :=
  ⟨arrayExpected_cumulative, arrayExpected_keys_nodup h false, arrayExpected_values_wf⟩

/-- **arrayBuilder_fields** (any number n ≥ 1 of frames): `array_triangle_builder(dfs, fields, period_resolution=res, …)`
on `RegFrame`s `s0 :: rest` RETURNS a triangle `out`, and `out` is reached from the first frame's single-field
triangle by merging the further frames' triangles in one after the other (`MergeChain`), EVERY step returning
and satisfying `Spec.mergeSpec .full none` (distinct coordinates; a coordinate on both sides = the accumulated
cell with the right-biased union of the value dicts, i.e. the new frame's field added, a later frame winning on
a repeated field name; a coordinate on one side only = that side's cell unchanged; no coordinate lost); `out` has
only `CumulativeCell`s, distinct coordinates, value dicts with distinct keys. For `rest = []` this is the single
reader, for one further frame `arrayBuilder_two_fields`. No hypothesis beyond `RegFrame` per frame. -/
theorem arrayBuilder_fields {md : Metadata} {res : Int} {evalRes : Option Int} {fe : Bool}
    (s0 : FrameSpec) (rest : List FrameSpec) (h : ∀ s ∈ s0 :: rest, s.Reg md res evalRes fe) :
    ∃ out, arrayTriangleBuilder ((s0 :: rest).map FrameSpec.frame) ((s0 :: rest).map (·.2.2)) (some res) evalRes fe md =
        .ok out ∧
      MergeChain (s0.expected md res evalRes fe) (rest.map (FrameSpec.expected md res evalRes fe)) out ∧
      CumTriangle out := by
  rw [(arrayBuilder_fields_partial s0 rest h).1]
  exact foldlM_merge_chain _ _ (FrameSpec.expected_cumTriangle (h s0 List.mem_cons_self)) (by
    intro t ht
    obtain ⟨s, hs, rfl⟩ := List.mem_map.mp ht
    exact FrameSpec.expected_cumTriangle (h s (List.mem_cons_of_mem _ hs)))

/-- non-vacuity with THREE frames (the two of `arrayBuilder_two_fields_example_domain`, the second used twice
under different field names) -/
example : ∃ out, arrayTriangleBuilder
    (([(["0"], [(⟨2021, 4, 1⟩, [.flt 1])], "paid_loss"), (["0"], [(⟨2021, 4, 1⟩, [.int 2])], "reported_loss"),
       (["0"], [(⟨2021, 4, 1⟩, [.int 2])], "incurred_loss")] : List FrameSpec).map FrameSpec.frame)
    ["paid_loss", "reported_loss", "incurred_loss"] (some 3) (some 3) true {} = .ok out ∧ CumTriangle out := by
  have hreg : ∀ s ∈ ([(["0"], [(⟨2021, 4, 1⟩, [.flt 1])], "paid_loss"), (["0"], [(⟨2021, 4, 1⟩, [.int 2])], "reported_loss"),
       (["0"], [(⟨2021, 4, 1⟩, [.int 2])], "incurred_loss")] : List FrameSpec), s.Reg {} 3 (some 3) true := by
    intro s hs
    simp only [List.mem_cons, List.not_mem_nil, or_false] at hs
    rcases hs with rfl | rfl | rfl
    · exact arrayBuilder_two_fields_example_domain.1
    · exact arrayBuilder_two_fields_example_domain.2
    · exact { res1 := by decide, first := by decide, asc := by simp, lagsAsc := by decide,
              fromStart := (by intro h; cases h), dates := (by decide +kernel) }
  obtain ⟨out, h1, _, h3⟩ := arrayBuilder_fields _ _ hreg
  exact ⟨out, h1, h3⟩

/-! ### any number of frames, `period_resolution` inferred -/

/-- what inference of `period_resolution` needs of one frame: at least two rows, the first two period starts
`res` months apart (the hypothesis of `fromArrayFrame_args_inferred`) -/
def FrameSpec.Infers (res : Int) (s : FrameSpec) : Prop :=
  ∃ r0 r1 rest, s.2.1 = r0 :: r1 :: rest ∧ monthToId r1.1 = monthToId r0.1 + res

theorem builderFold_eq_inferred {md : Metadata} {res : Int} {evalRes : Option Int} {fe : Bool} :
    ∀ (rest : List FrameSpec) (acc : List Cell), (∀ s ∈ rest, s.Reg md res evalRes fe ∧ s.Infers res) →
    (rest.map fun s => (s.frame, s.2.2)).foldlM (fun acc p =>
      (fromArrayFrameFull p.1 p.2 none evalRes fe md).bind fun t => merge (some .full) none acc t) acc =
    (rest.map (FrameSpec.expected md res evalRes fe)).foldlM (fun acc t => merge (some .full) none acc t) acc
  | [], _, _ => rfl
  | s :: rest, acc, h => by
    have hs : fromArrayFrameFull s.frame s.2.2 none evalRes fe md = .ok (s.expected md res evalRes fe) :=
      fromArrayFrame_args_inferred (h s List.mem_cons_self).1 (h s List.mem_cons_self).2
    rw [List.map_cons, List.foldlM_cons, List.map_cons, List.foldlM_cons]
    simp only [hs, Except.bind]
    cases hm : merge (some .full) none acc (s.expected md res evalRes fe) with
    | error e => rfl
    | ok o => exact builderFold_eq_inferred rest o (fun s' hs' => h s' (List.mem_cons_of_mem _ hs'))

/-- **arrayBuilder_fields_inferred** (any number n ≥ 1 of frames, `period_resolution=None`): as
`arrayBuilder_fields`, every single-frame reader inferring the resolution from its own first two period starts;
per frame the hypotheses of `arrayBuilder_two_fields_inferred` (`RegFrame` for the common `res`, and
`FrameSpec.Infers res`: ≥ 2 rows, first two period starts `res` months apart). The builder RETURNS `out`, reached
by the chain of merges each satisfying `Spec.mergeSpec .full none`; `out` is a `CumTriangle`. -/
theorem arrayBuilder_fields_inferred {md : Metadata} {res : Int} {evalRes : Option Int} {fe : Bool}
    (s0 : FrameSpec) (rest : List FrameSpec)
    (h : ∀ s ∈ s0 :: rest, s.Reg md res evalRes fe ∧ s.Infers res) :
    ∃ out, arrayTriangleBuilder ((s0 :: rest).map FrameSpec.frame) ((s0 :: rest).map (·.2.2)) none evalRes fe md =
        .ok out ∧
      MergeChain (s0.expected md res evalRes fe) (rest.map (FrameSpec.expected md res evalRes fe)) out ∧
      CumTriangle out := by
  have hs0 : fromArrayFrameFull s0.frame s0.2.2 none evalRes fe md = .ok (s0.expected md res evalRes fe) :=
    fromArrayFrame_args_inferred (h s0 List.mem_cons_self).1 (h s0 List.mem_cons_self).2
  have heq : arrayTriangleBuilder ((s0 :: rest).map FrameSpec.frame) ((s0 :: rest).map (·.2.2)) none evalRes fe md =
      (rest.map (FrameSpec.expected md res evalRes fe)).foldlM (fun acc t => merge (some .full) none acc t)
        (s0.expected md res evalRes fe) := by
    unfold arrayTriangleBuilder
    have hz : (rest.map FrameSpec.frame).zip (rest.map (·.2.2)) = rest.map fun s => (s.frame, s.2.2) := by
      rw [List.zip_map']
    simp only [List.map_cons, List.length_cons, List.length_map, bne_self_eq_false, Bool.false_eq_true, if_false,
      List.zip_cons_cons, hz, hs0, Except.bind]
    exact builderFold_eq_inferred rest _ (fun s hs => h s (List.mem_cons_of_mem _ hs))
  rw [heq]
  exact foldlM_merge_chain _ _ (FrameSpec.expected_cumTriangle (h s0 List.mem_cons_self).1) (by
    intro t ht
    obtain ⟨s, hs, rfl⟩ := List.mem_map.mp ht
    exact FrameSpec.expected_cumTriangle (h s (List.mem_cons_of_mem _ hs)).1)

end Bermuda.Properties.C14
