/-
C15 — extension operators only add well-placed cells, never touch observed data.
Only property theorems live here (helper lemmas: `Lemmas/Extend.lean`).

Proved: the right triangle and the right diagonal, first on a cumulative (`Cell` / `CumulativeCell`) input
(`*_partial`), then for both bases through the incremental path (`to_cumulative`, `to_incremental`,
`_fix_prev_evaluation_date`: `rightTri_incremental_chain`, `rightTri_lags_exact`, ...); `fill_forward_gaps`;
`backfill`; the bridges `extensionSpec_model_*`: the executable Spec predicates of `Spec/C15.lean` evaluate to
true on the model's output for all four operators; `include_historic = True` (what holds, and the re-created
coordinates); success of the operators (totality on cumulative input, closed instances). No statement is left open.
-/
import Bermuda.Lemmas.Extend
import Bermuda.Lemmas.ExtendFill
import Bermuda.Lemmas.ExtendFillComplete
import Bermuda.Lemmas.ExtendInc
import Bermuda.Lemmas.ExtendIncCum
import Bermuda.Lemmas.ExtendBackfill
import Bermuda.Lemmas.ExtendSpec
import Bermuda.Lemmas.ExtendDays
import Bermuda.Lemmas.ExtendSpecDiag
import Bermuda.Lemmas.ExtendNodup
import Bermuda.Lemmas.ExtendSpecFillClauses
import Bermuda.Lemmas.ExtendSpecBackfillClauses
import Bermuda.Lemmas.ExtendSpecDiagHist
import Bermuda.Lemmas.ExtendTotal
import Bermuda.Lemmas.ExtendExamples
import Bermuda.Lemmas.ExtendSpecTriUnit
import Bermuda.Lemmas.ExtendFillTotal
import Bermuda.Lemmas.ExtendTotalInc
import Bermuda.Lemmas.ExtensionB7
import Bermuda.Lemmas.ExtensionB7Tri
import Bermuda.Spec.C15
namespace Bermuda.Properties.C15
open Bermuda Bermuda.Extend

/-! ### `make_right_triangle` -/

section RightTriangle
variable {t out : List Cell} {lags : Option (List Rat)} {u : LagUnit}

/-- **rightTri_lags_exact_partial** (cumulative input). The result consists exactly of the cells
`emptyCell e (period_end + lag)` for a slice of the triangle, `e` a right-edge cell of the slice (the
latest observation of its row, `RightTriCell.row`) and `lag` ranging over the slice's lag list (the
requested list, or the slice's own lags) restricted to `lag > e.dev_lag`. -/
theorem rightTri_lags_exact_partial (hinc : Triangle.isIncremental t = false) (h : makeRightTriangleU t lags (some u) = .ok out) (c : Cell) :
    c ∈ out ↔ RightTriCell t lags u c := by
  obtain ⟨new, hnew, hperm⟩ := makeRightTriangle_cum hinc h
  rw [hperm.mem_iff]
  exact rightTriangleCells_mem hnew c

/-- **rightTri_metadata_partial** (cumulative input): every added cell carries the metadata and period of an
observed cell — the latest observation of that slice row -/
theorem rightTri_metadata_partial (hinc : Triangle.isIncremental t = false) (h : makeRightTriangleU t lags (some u) = .ok out) {c : Cell} (hc : c ∈ out) :
    ∃ e ∈ t, c.md = e.md ∧ c.ps = e.ps ∧ c.pe = e.pe ∧
      ∀ o ∈ t, o.md = e.md → o.ps = e.ps → o.pe = e.pe → Date.cmp o.ev e.ev ≠ .gt := by
  obtain ⟨e, he, hce, hlatest, _⟩ := ((rightTri_lags_exact_partial hinc h c).mp hc).row
  refine ⟨e, he, ?_, ?_, ?_, hlatest⟩ <;> (rw [hce]; rfl)

/-- **rightTri_values_empty_partial** (cumulative input) -/
theorem rightTri_values_empty_partial (hinc : Triangle.isIncremental t = false)
    (h : makeRightTriangleU t lags (some u) = .ok out) :
    ∀ c ∈ out, c.values = [] := by
  intro c hc
  obtain ⟨e, _, hce, _⟩ := ((rightTri_lags_exact_partial hinc h c).mp hc).row
  rw [hce]; rfl

/-- **rightTri_basis_partial** (cumulative input): the added cells are cumulative cells -/
theorem rightTri_basis_partial (hinc : Triangle.isIncremental t = false)
    (h : makeRightTriangleU t lags (some u) = .ok out) :
    ∀ c ∈ out, c.kind = .cumulative ∧ c.prev = none := by
  intro c hc
  obtain ⟨e, _, hce, _⟩ := ((rightTri_lags_exact_partial hinc h c).mp hc).row
  rw [hce]; exact ⟨rfl, rfl⟩

/-- **rightTri_empty_when_complete_partial** (cumulative input): if no slice has a lag beyond the lag of one of
its right-edge cells, the result is the empty triangle -/
theorem rightTri_empty_when_complete_partial (hinc : Triangle.isIncremental t = false)
    (h : makeRightTriangleU t lags (some u) = .ok out)
    (hcomplete : ∀ p ∈ Triangle.slices t, ∀ e ∈ p.2, ∀ lag ∈ lagListOf lags u p.2, ¬ lag > e.devLag u) :
    out = [] := by
  apply List.eq_nil_iff_forall_not_mem.mpr
  intro c hc
  obtain ⟨p, hp, edge, hedge, e, he, lag, hlag, hgt, _⟩ := (rightTri_lags_exact_partial hinc h c).mp hc
  exact hcomplete p hp e (rightEdge_latest hedge he).1 lag hlag hgt

/-- **rightTri_disjoint_partial** (cumulative input, month unit, month-aligned triangle from 1970 on, integer
lags): every added cell lies strictly after every observation of its slice row; in particular no
added coordinate is occupied. -/
theorem rightTri_disjoint_partial (hinc : Triangle.isIncremental t = false)
    (h : makeRightTriangleU t lags (some .month) = .ok out)
    (hal : ∀ c ∈ t, MonthAligned c)
    (hint : ∀ p ∈ Triangle.slices t, ∀ lag ∈ lagListOf lags .month p.2, ∃ k : Int, lag = ((k : Int) : Rat))
    {c o : Cell} (hc : c ∈ out) (ho : o ∈ t) (hmd : o.md = c.md) (hps : o.ps = c.ps) (hpe : o.pe = c.pe) :
    o.ev < c.ev := by
  obtain ⟨e, he, hce, hlatest, p, hp, _, lag, hlag, hgt, hev⟩ := ((rightTri_lags_exact_partial hinc h c).mp hc).row
  obtain ⟨k, rfl⟩ := hint p hp lag hlag
  have h1 : c.md = e.md := by rw [hce]; rfl
  have h2 : c.ps = e.ps := by rw [hce]; rfl
  have h3 : c.pe = e.pe := by rw [hce]; rfl
  have hle := hlatest o ho (hmd.trans h1) (hps.trans h2) (hpe.trans h3)
  have hlt := addMonths_after (hal e he) hgt
  have hev' : addMonths e.pe ((k : Int) : Rat) = c.ev := Except.ok.inj hev
  rw [← hev']
  exact Date.lt_of_not_gt_of_lt hle hlt

end RightTriangle

/-- **rightDiag_spec_partial** (cumulative input, `include_historic = False`): the result consists exactly of
the empty cumulative cells on the rows of the slices' right-edge cells at the requested dates that lie
after the slice's latest evaluation date (and not before the period start); every such cell carries the
metadata and period of an observed row and lies strictly after every observation of its slice — so no
added coordinate is occupied. -/
theorem rightDiag_spec_partial {t out : List Cell} {dates : List Date}
    (hinc : Triangle.isIncremental t = false) (h : makeRightDiagonal t dates false = .ok out) :
    (∀ c, c ∈ out ↔ RightDiagCell t dates false c) ∧
    (∀ c ∈ out, ∃ e ∈ t, c = emptyCell e c.ev ∧ c.ev ∈ dates ∧ e.ps ≤ c.ev ∧
      ∀ o ∈ t, o.md = c.md → o.ev < c.ev) := by
  obtain ⟨new, hnew, hperm⟩ := makeRightDiagonal_cum hinc h
  have hiff : ∀ c, c ∈ out ↔ RightDiagCell t dates false c := fun c => by
    rw [hperm.mem_iff]; exact rightDiagonalCells_mem hnew c
  refine ⟨hiff, ?_⟩
  intro c hc
  obtain ⟨p, hp, edge, hedge, e, he, d, hd, hle, rfl⟩ := (hiff c).mp hc
  obtain ⟨hep, _⟩ := rightEdge_latest hedge he
  obtain ⟨het, hem⟩ := (slices_spec hp e).mp hep
  -- the kept dates exceed the slice's latest evaluation date
  have hne : p.2 ≠ [] := List.ne_nil_of_mem hep
  obtain ⟨m, hm⟩ : ∃ m, maxEval p.2 = some m := by
    cases hp2 : p.2 with
    | nil => exact absurd hp2 hne
    | cons a rest => exact ⟨_, rfl⟩
  simp only [diagDatesOf, Bool.false_eq_true, if_false, hm, List.mem_filter, decide_eq_true_eq] at hd
  refine ⟨e, het, rfl, hd.1, hle, ?_⟩
  intro o ho hmd
  have hop : o ∈ p.2 := (slices_spec hp o).mpr ⟨ho, hmd.trans hem⟩
  exact Date.lt_of_not_gt_of_lt (maxEval_ge hm o hop) hd.2

/-! ### incremental input: `to_cumulative`, `to_incremental`, `_fix_prev_evaluation_date` -/

section Incremental
variable {t out : List Cell} {lags : Option (List Rat)} {u : LagUnit}

/-- **rightTri_incremental_chain**: on an incremental triangle `t` (cumulative form `cum`) every cell of
the result is an empty incremental cell at the coordinate of one of the new cumulative cells `new`
(exactly the `RightTriCell`s of `cum`), and its previous evaluation date continues the chain
(`ChainCell`): the earliest added cell of a row starts at the evaluation date of the row's observed
right-edge cell, every later one at the evaluation date of the added cell immediately before it. -/
theorem rightTri_incremental_chain (hinc : Triangle.isIncremental t = true)
    (h : makeRightTriangleU t lags (some u) = .ok out) :
    ∃ cum new, Triangle.toCumulative t = .ok cum ∧ (∀ n, n ∈ new ↔ RightTriCell cum lags u n) ∧
      ∀ c ∈ out, ChainCell t new c := by
  obtain ⟨cum, new, hcum, hnew, hfin⟩ := makeRightTriangle_inc hinc h
  have hiff := rightTriangleCells_mem hnew
  exact ⟨cum, new, hcum, hiff, finishRight_inc hinc (fun n hn => RightTriCell.empty ((hiff n).mp hn)) hfin⟩

/-- the right-edge cell a chain starts from is the latest observation of its row of `t` -/
theorem chain_starts_at_latest {obs : List Cell} {e : Cell} (hobs : Triangle.rightEdge t = .ok obs)
    (he : e ∈ obs) :
    e ∈ t ∧ ∀ o ∈ t, o.md = e.md → o.ps = e.ps → o.pe = e.pe → Date.cmp o.ev e.ev ≠ .gt :=
  rightEdge_latest hobs he

/-- **rightTri_values_empty** (both bases) -/
theorem rightTri_values_empty (h : makeRightTriangleU t lags (some u) = .ok out) :
    ∀ c ∈ out, c.values = [] := by
  cases hinc : Triangle.isIncremental t with
  | false => exact rightTri_values_empty_partial hinc h
  | true =>
    obtain ⟨_, _, _, _, hch⟩ := rightTri_incremental_chain hinc h
    exact fun c hc => (hch c hc).2.1

/-- **rightTri_basis** (both bases): incremental in, incremental out (with a previous evaluation date);
otherwise cumulative cells -/
theorem rightTri_basis (h : makeRightTriangleU t lags (some u) = .ok out) :
    ∀ c ∈ out, if Triangle.isIncremental t = true then c.kind = .incremental ∧ c.prev.isSome = true
      else c.kind = .cumulative ∧ c.prev = none := by
  intro c hc
  cases hinc : Triangle.isIncremental t with
  | false => simpa using rightTri_basis_partial hinc h c hc
  | true =>
    obtain ⟨_, _, _, _, hch⟩ := rightTri_incremental_chain hinc h
    obtain ⟨hk, _, hp⟩ := hch c hc
    simp only [if_true]
    refine ⟨hk, ?_⟩
    rcases hp with ⟨_, _, _, _, _, _, hp, _⟩ | ⟨_, _, _, _, _, _, hp, _⟩ <;> simp [hp]

/-- **rightDiag_incremental_chain**: the same for `make_right_diagonal` (any `include_historic`) -/
theorem rightDiag_incremental_chain {dates : List Date} {hist : Bool}
    (hinc : Triangle.isIncremental t = true) (h : makeRightDiagonal t dates hist = .ok out) :
    ∃ cum new, Triangle.toCumulative t = .ok cum ∧ (∀ n, n ∈ new ↔ RightDiagCell cum dates hist n) ∧
      ∀ c ∈ out, ChainCell t new c := by
  obtain ⟨cum, new, hcum, hnew, hfin⟩ := makeRightDiagonal_inc hinc h
  have hiff := rightDiagonalCells_mem hnew
  exact ⟨cum, new, hcum, hiff, finishRight_inc hinc (fun n hn => RightDiagCell.empty ((hiff n).mp hn)) hfin⟩

end Incremental

/-! ### both bases -/

section BothBases
variable {t out : List Cell} {lags : Option (List Rat)} {u : LagUnit}

/-- **rightTri_lags_exact** (both bases): with `cum` the cumulative form of `t`, the coordinates
(metadata, period, evaluation date) of the result are exactly those of the `RightTriCell`s of `cum`:
for each slice and each right-edge cell of it, the lags of the slice's lag list that exceed the cell's lag. -/
theorem rightTri_lags_exact (h : makeRightTriangleU t lags (some u) = .ok out) :
    ∃ (cum new : List Cell), CumOf t cum ∧ (∀ n, n ∈ new ↔ RightTriCell cum lags u n) ∧
      (∀ c ∈ out, ∃ n ∈ new, rowKey c = rowKey n ∧ c.ev = n.ev) ∧
      (∀ n ∈ new, ∃ c ∈ out, rowKey c = rowKey n ∧ c.ev = n.ev) := by
  cases hinc : Triangle.isIncremental t with
  | false =>
    obtain ⟨new, hnew, hperm⟩ := makeRightTriangle_cum hinc h
    refine ⟨t, new, Or.inl ⟨hinc, rfl⟩, rightTriangleCells_mem hnew, ?_, ?_⟩
    · exact fun c hc => ⟨c, hperm.mem_iff.mp hc, rfl, rfl⟩
    · exact fun n hn => ⟨n, hperm.mem_iff.mpr hn, rfl, rfl⟩
  | true =>
    obtain ⟨cum, new, right, hcum, hni, hnew, hright, hperm, hfin⟩ := rightTri_reduces hinc h
    have hiff := rightTriangleCells_mem hnew
    have hempty : ∀ n ∈ new, n.kind = .cumulative ∧ n.values = [] ∧ n.prev = none :=
      fun n hn => RightTriCell.empty ((hiff n).mp hn)
    refine ⟨cum, new, Or.inr ⟨hinc, hcum⟩, hiff, ?_, ?_⟩
    · intro c hc
      obtain ⟨_, _, hch⟩ := finishRight_inc hinc hempty hfin c hc
      rcases hch with ⟨_, _, _, _, _, _, _, ⟨n, hn, hk, he⟩, _⟩ | ⟨_, _, b, hb, _, hk, _, he, _⟩
      · exact ⟨n, hn, hk.symm, he.symm⟩
      · exact ⟨b, hb, hk.symm, he⟩
    · apply finishRight_inc_cover hinc hempty ?_ hfin
      intro n hn
      obtain ⟨e, he, hne, _⟩ := ((hiff n).mp hn).row
      obtain ⟨_, x, hx, hxk, _⟩ := (toCumulative_cells hinc hcum).1 e he
      obtain ⟨h1, h2, h3⟩ := rowKey_eq_iff.mp hxk
      refine ⟨x, hx, ?_, ?_⟩
      · rw [hne]; exact h1
      · rw [hne]; show (x.ps, x.pe) = (e.ps, e.pe); rw [h2, h3]

/-- **rightTri_metadata** (both bases): every added cell carries the metadata and period of an observed
cell `x` of `t` — the latest observation of that slice row -/
theorem rightTri_metadata (h : makeRightTriangleU t lags (some u) = .ok out) {c : Cell} (hc : c ∈ out) :
    ∃ x ∈ t, c.md = x.md ∧ c.ps = x.ps ∧ c.pe = x.pe ∧
      ∀ o ∈ t, o.md = x.md → o.ps = x.ps → o.pe = x.pe → Date.cmp o.ev x.ev ≠ .gt := by
  cases hinc : Triangle.isIncremental t with
  | false => exact rightTri_metadata_partial hinc h hc
  | true =>
    obtain ⟨cum, new, right, hcum, hni, hnew, hright, hperm, hfin⟩ := rightTri_reduces hinc h
    obtain ⟨cum', new', hcumof, hiff, hfwd, _⟩ := rightTri_lags_exact h
    have : cum' = cum := by
      rcases hcumof with ⟨h1, _⟩ | ⟨_, h2⟩
      · rw [hinc] at h1; cases h1
      · rw [hcum] at h2; cases h2; rfl
    subst this
    obtain ⟨n, hn, hk, _⟩ := hfwd c hc
    obtain ⟨e, he, hne, hlatest, _⟩ := ((hiff n).mp hn).row
    obtain ⟨hA, hB⟩ := toCumulative_cells hinc hcum
    obtain ⟨_, x, hx, hxk, hxe⟩ := hA e he
    obtain ⟨h1, h2, h3⟩ := rowKey_eq_iff.mp hxk
    obtain ⟨k1, k2, k3⟩ := rowKey_eq_iff.mp hk
    have n1 : n.md = e.md := by rw [hne]; rfl
    have n2 : n.ps = e.ps := by rw [hne]; rfl
    have n3 : n.pe = e.pe := by rw [hne]; rfl
    refine ⟨x, hx, by rw [k1, n1, h1], by rw [k2, n2, h2], by rw [k3, n3, h3], ?_⟩
    intro o ho hm hps hpe
    obtain ⟨o', ho', hok, hoe⟩ := hB o ho
    obtain ⟨m1, m2, m3⟩ := rowKey_eq_iff.mp hok
    have := hlatest o' ho' (by rw [m1, hm, h1]) (by rw [m2, hps, h2]) (by rw [m3, hpe, h3])
    rw [hoe, ← hxe] at this
    exact this

/-- **rightTri_disjoint** (both bases; month unit, month-aligned triangle from 1970 on, integer requested
lags): every added cell lies strictly after every observation of its slice row — no added coordinate is
occupied. -/
theorem rightTri_disjoint (h : makeRightTriangleU t lags (some .month) = .ok out)
    (hal : ∀ c ∈ t, MonthAligned c)
    (hint : ∀ l, lags = some l → ∀ lag ∈ l, ∃ k : Int, lag = ((k : Int) : Rat))
    {c o : Cell} (hc : c ∈ out) (ho : o ∈ t) (hmd : o.md = c.md) (hps : o.ps = c.ps) (hpe : o.pe = c.pe) :
    o.ev < c.ev := by
  cases hinc : Triangle.isIncremental t with
  | false =>
    refine rightTri_disjoint_partial hinc h hal ?_ hc ho hmd hps hpe
    intro p hp
    exact lagListOf_int (fun c hc => hal c (mem_of_mem_slices hp hc)) hint
  | true =>
    obtain ⟨cum, new, right, hcum, hni, hnew, hright, hperm, hfin⟩ := rightTri_reduces hinc h
    obtain ⟨hA, hB⟩ := toCumulative_cells hinc hcum
    have halc : ∀ e ∈ cum, MonthAligned e := by
      intro e he
      obtain ⟨_, x, hx, hxk, hxe⟩ := hA e he
      exact monthAligned_of_row hxk hxe (hal x hx)
    obtain ⟨cum', new', hcumof, hiff, hfwd, _⟩ := rightTri_lags_exact h
    have : cum' = cum := by
      rcases hcumof with ⟨h1, _⟩ | ⟨_, h2⟩
      · rw [hinc] at h1; cases h1
      · rw [hcum] at h2; cases h2; rfl
    subst this
    obtain ⟨n, hn, hk, hne⟩ := hfwd c hc
    have hn' : n ∈ new := (rightTriangleCells_mem hnew n).mpr ((hiff n).mp hn)
    have hnr : n ∈ right := hperm.mem_iff.mpr hn'
    obtain ⟨o', ho', hok, hoe⟩ := hB o ho
    obtain ⟨m1, m2, m3⟩ := rowKey_eq_iff.mp hok
    obtain ⟨k1, k2, k3⟩ := rowKey_eq_iff.mp hk
    have := rightTri_disjoint_partial hni hright halc
      (fun p hp => lagListOf_int (fun c hc => halc c (mem_of_mem_slices hp hc)) hint)
      hnr ho' (by rw [m1, hmd, k1]) (by rw [m2, hps, k2]) (by rw [m3, hpe, k3])
    rw [hoe, ← hne] at this
    exact this

/-- **rightTri_empty_when_complete** (both bases): if in the cumulative form no slice has a lag beyond
the lag of one of its cells, the result is the empty triangle (also for an incremental input — D12) -/
theorem rightTri_empty_when_complete (h : makeRightTriangleU t lags (some u) = .ok out)
    {cum : List Cell} (hcum : CumOf t cum)
    (hcomplete : ∀ p ∈ Triangle.slices cum, ∀ e ∈ p.2, ∀ lag ∈ lagListOf lags u p.2, ¬ lag > e.devLag u) :
    out = [] := by
  obtain ⟨cum', new, hcumof, hiff, hfwd, _⟩ := rightTri_lags_exact h
  have : cum' = cum := by
    rcases hcumof with ⟨h1, h2⟩ | ⟨h1, h2⟩ <;> rcases hcum with ⟨g1, g2⟩ | ⟨g1, g2⟩
    · rw [h2, g2]
    · rw [h1] at g1; cases g1
    · rw [h1] at g1; cases g1
    · rw [h2] at g2; cases g2; rfl
  subst this
  apply List.eq_nil_iff_forall_not_mem.mpr
  intro c hc
  obtain ⟨n, hn, _⟩ := hfwd c hc
  obtain ⟨p, hp, edge, hedge, e, he, lag, hlag, hgt, _⟩ := (hiff n).mp hn
  exact hcomplete p hp e (rightEdge_latest hedge he).1 lag hlag hgt

/-- **rightDiag_spec** (both bases, `include_historic = False`): with `cum` the cumulative form of `t`, the
coordinates of the result are exactly those of the `RightDiagCell`s of `cum`; every cell of the result is
empty, sits at a requested date not before its period start, on the row of an observed cell, strictly
after every observation of its slice — no added coordinate is occupied. (Incremental chain:
`rightDiag_incremental_chain`.) -/
theorem rightDiag_spec {dates : List Date} (h : makeRightDiagonal t dates false = .ok out) :
    ∃ (cum new : List Cell), CumOf t cum ∧ (∀ n, n ∈ new ↔ RightDiagCell cum dates false n) ∧
      (∀ c ∈ out, ∃ n ∈ new, rowKey c = rowKey n ∧ c.ev = n.ev) ∧
      (∀ n ∈ new, ∃ c ∈ out, rowKey c = rowKey n ∧ c.ev = n.ev) ∧
      (∀ c ∈ out, c.values = [] ∧ c.ev ∈ dates ∧ c.ps ≤ c.ev ∧
        (∃ x ∈ t, x.md = c.md ∧ x.ps = c.ps ∧ x.pe = c.pe) ∧ ∀ o ∈ t, o.md = c.md → o.ev < c.ev) := by
  cases hinc : Triangle.isIncremental t with
  | false =>
    obtain ⟨hiff, hfacts⟩ := rightDiag_spec_partial hinc h
    obtain ⟨new, hnew, hperm⟩ := makeRightDiagonal_cum hinc h
    refine ⟨t, new, Or.inl ⟨hinc, rfl⟩, rightDiagonalCells_mem hnew,
      fun c hc => ⟨c, hperm.mem_iff.mp hc, rfl, rfl⟩, fun n hn => ⟨n, hperm.mem_iff.mpr hn, rfl, rfl⟩, ?_⟩
    intro c hc
    obtain ⟨e, he, hce, hd, hle, hafter⟩ := hfacts c hc
    refine ⟨by rw [hce]; rfl, hd, by rw [hce]; exact hle, ⟨e, he, ?_, ?_, ?_⟩, hafter⟩ <;> (rw [hce]; rfl)
  | true =>
    obtain ⟨cum, new, right, hcum, hni, hnew, hright, hperm, hfin⟩ := rightDiag_reduces hinc h
    obtain ⟨hA, hB⟩ := toCumulative_cells hinc hcum
    have hiff := rightDiagonalCells_mem hnew
    have hempty : ∀ n ∈ new, n.kind = .cumulative ∧ n.values = [] ∧ n.prev = none :=
      fun n hn => RightDiagCell.empty ((hiff n).mp hn)
    obtain ⟨_, hfacts⟩ := rightDiag_spec_partial hni hright
    have hfwd : ∀ c ∈ out, c.values = [] ∧ ∃ n ∈ new, rowKey c = rowKey n ∧ c.ev = n.ev := by
      intro c hc
      obtain ⟨_, hv, hch⟩ := finishRight_inc hinc hempty hfin c hc
      rcases hch with ⟨_, _, _, _, _, _, _, ⟨n, hn, hk, he⟩, _⟩ | ⟨_, _, b, hb, _, hk, _, he, _⟩
      · exact ⟨hv, n, hn, hk.symm, he.symm⟩
      · exact ⟨hv, b, hb, hk.symm, he⟩
    refine ⟨cum, new, Or.inr ⟨hinc, hcum⟩, hiff, fun c hc => (hfwd c hc).2, ?_, ?_⟩
    · apply finishRight_inc_cover hinc hempty ?_ hfin
      intro n hn
      obtain ⟨e, he, hne, _⟩ := hfacts n (hperm.mem_iff.mpr hn)
      obtain ⟨_, x, hx, hxk, _⟩ := hA e he
      obtain ⟨h1, h2, h3⟩ := rowKey_eq_iff.mp hxk
      refine ⟨x, hx, ?_, ?_⟩
      · rw [hne]; exact h1
      · rw [hne]; show (x.ps, x.pe) = (e.ps, e.pe); rw [h2, h3]
    · intro c hc
      obtain ⟨hv, n, hn, hk, hev⟩ := hfwd c hc
      obtain ⟨k1, k2, k3⟩ := rowKey_eq_iff.mp hk
      obtain ⟨e, he, hne, hd, hle, hafter⟩ := hfacts n (hperm.mem_iff.mpr hn)
      obtain ⟨_, x, hx, hxk, _⟩ := hA e he
      obtain ⟨h1, h2, h3⟩ := rowKey_eq_iff.mp hxk
      have n1 : n.md = e.md := by rw [hne]; rfl
      have n2 : n.ps = e.ps := by rw [hne]; rfl
      have n3 : n.pe = e.pe := by rw [hne]; rfl
      refine ⟨hv, by rw [hev]; exact hd, by rw [hev, k2, n2]; exact hle,
        ⟨x, hx, by rw [h1, k1, n1], by rw [h2, k2, n2], by rw [h3, k3, n3]⟩, ?_⟩
      intro o ho hm
      obtain ⟨o', ho', hok, hoe⟩ := hB o ho
      obtain ⟨m1, _, _⟩ := rowKey_eq_iff.mp hok
      have := hafter o' ho' (by rw [m1, hm, k1])
      rw [hoe, ← hev] at this
      exact this

end BothBases

/-! ### disjointness for any unit: the monotonicity hypothesis, day and month instances -/

section Monotone
variable {t out : List Cell} {lags : Option (List Rat)} {u : LagUnit}

/-- the exact hypothesis the disjointness clause needs, for any unit and any lags: on the cumulative
form `cum`, adding a lag of the slice's lag list that exceeds a cell's lag gives a date strictly after
the cell's evaluation date. (It FAILS for lags so close above an observed lag that the date arithmetic
rounds back onto the observed date: `add_months(2020-01-31, 0.01) = 2020-01-31`,
`2020-01-31 + timedelta(days=0.5) = 2020-01-31`; with such requested lags `make_right_triangle` re-creates
an occupied coordinate.) -/
def LagMonotone (cum : List Cell) (lags : Option (List Rat)) (u : LagUnit) : Prop :=
  ∀ p ∈ Triangle.slices cum, ∀ e ∈ p.2, ∀ lag ∈ lagListOf lags u p.2, lag > e.devLag u →
    ∀ ev, addDevLag e.pe lag u = .ok ev → e.ev < ev

theorem rightTri_disjoint_of_monotone_partial (hinc : Triangle.isIncremental t = false)
    (h : makeRightTriangleU t lags (some u) = .ok out) (hmono : LagMonotone t lags u)
    {c o : Cell} (hc : c ∈ out) (ho : o ∈ t) (hmd : o.md = c.md) (hps : o.ps = c.ps) (hpe : o.pe = c.pe) :
    o.ev < c.ev := by
  obtain ⟨e, he, hce, hlatest, p, hp, hpm, lag, hlag, hgt, hev⟩ :=
    ((rightTri_lags_exact_partial hinc h c).mp hc).row
  have h1 : c.md = e.md := by rw [hce]; rfl
  have h2 : c.ps = e.ps := by rw [hce]; rfl
  have h3 : c.pe = e.pe := by rw [hce]; rfl
  have hle := hlatest o ho (hmd.trans h1) (hps.trans h2) (hpe.trans h3)
  have hep : e ∈ p.2 := (slices_spec hp e).mpr ⟨he, hpm.symm⟩
  exact Date.lt_of_not_gt_of_lt hle (hmono p hp e hep lag hlag hgt c.ev hev)

/-- **rightTri_disjoint_of_monotone** (both bases, any unit, any lags): under `LagMonotone` on the
cumulative form, every added cell lies strictly after every observation of its slice row. -/
theorem rightTri_disjoint_of_monotone (h : makeRightTriangleU t lags (some u) = .ok out)
    {cum : List Cell} (hcum : CumOf t cum) (hmono : LagMonotone cum lags u)
    {c o : Cell} (hc : c ∈ out) (ho : o ∈ t) (hmd : o.md = c.md) (hps : o.ps = c.ps) (hpe : o.pe = c.pe) :
    o.ev < c.ev := by
  rcases hcum with ⟨hinc, rfl⟩ | ⟨hinc, hcum⟩
  · exact rightTri_disjoint_of_monotone_partial hinc h hmono hc ho hmd hps hpe
  · obtain ⟨cum', new, right, hcum', hni, hnew, hright, hperm, hfin⟩ := rightTri_reduces hinc h
    rw [hcum] at hcum'; cases hcum'
    obtain ⟨_, hB⟩ := toCumulative_cells hinc hcum
    obtain ⟨cum'', new', hcumof, hiff, hfwd, _⟩ := rightTri_lags_exact h
    have : cum'' = cum := by
      rcases hcumof with ⟨h1, _⟩ | ⟨_, h2⟩
      · rw [hinc] at h1; cases h1
      · rw [hcum] at h2; cases h2; rfl
    subst this
    obtain ⟨n, hn, hk, hne⟩ := hfwd c hc
    have hn' : n ∈ new := (rightTriangleCells_mem hnew n).mpr ((hiff n).mp hn)
    have hnr : n ∈ right := hperm.mem_iff.mpr hn'
    obtain ⟨o', ho', hok, hoe⟩ := hB o ho
    obtain ⟨m1, m2, m3⟩ := rowKey_eq_iff.mp hok
    obtain ⟨k1, k2, k3⟩ := rowKey_eq_iff.mp hk
    have := rightTri_disjoint_of_monotone_partial hni hright hmono
      hnr ho' (by rw [m1, hmd, k1]) (by rw [m2, hps, k2]) (by rw [m3, hpe, k3])
    rw [hoe, ← hne] at this
    exact this

/-- `LagMonotone` for the day unit: valid dates, integer lags (a fractional day lag is floored by
`timedelta`), results inside `date.min .. date.max` -/
theorem lagMonotone_day {cum : List Cell} (hval : ∀ c ∈ cum, c.pe.valid = true ∧ c.ev.valid = true)
    (hint : ∀ l, lags = some l → ∀ lag ∈ l, ∃ k : Int, lag = ((k : Int) : Rat))
    (hrange : ∀ p ∈ Triangle.slices cum, ∀ e ∈ p.2, ∀ lag ∈ lagListOf lags .day p.2,
      1 ≤ e.pe.ordinal + lag.floor ∧ e.pe.ordinal + lag.floor ≤ 3652059) :
    LagMonotone cum lags .day := by
  intro p hp e he lag hlag hgt ev hev
  have hec : e ∈ cum := mem_of_mem_slices hp he
  obtain ⟨hpv, hevv⟩ := hval e hec
  obtain ⟨k, rfl⟩ : ∃ k : Int, lag = ((k : Int) : Rat) := by
    cases lags with
    | some l => exact hint l rfl lag hlag
    | none =>
      simp only [lagListOf, List.mem_eraseDups] at hlag
      obtain ⟨c, _, rfl⟩ := List.mem_map.mp hlag
      exact ⟨c.ev.ordinal - c.pe.ordinal, rfl⟩
  have hev' : e.pe.addDays (((k : Int) : Rat)).floor = ev := Except.ok.inj hev
  rw [floor_intCast] at hev'
  obtain ⟨r1, r2⟩ := hrange p hp e he _ hlag
  rw [floor_intCast] at r1 r2
  obtain ⟨hv, hord⟩ := addDays_ordinal e.pe k r1 r2
  rw [hev'] at hv hord
  have hk : e.ev.ordinal - e.pe.ordinal < k := by
    have : (((e.ev.ordinal - e.pe.ordinal : Int)) : Rat) < ((k : Int) : Rat) := hgt
    exact_mod_cast this
  exact Date.lt_of_ordinal_lt hevv hv (by omega)

/-- `LagMonotone` for the month unit: month-aligned cells from 1970 on, integer requested lags -/
theorem lagMonotone_month {cum : List Cell} (hal : ∀ c ∈ cum, MonthAligned c)
    (hint : ∀ l, lags = some l → ∀ lag ∈ l, ∃ k : Int, lag = ((k : Int) : Rat)) :
    LagMonotone cum lags .month := by
  intro p hp e he lag hlag hgt ev hev
  have halp : ∀ c ∈ p.2, MonthAligned c := fun c hc => hal c (mem_of_mem_slices hp hc)
  obtain ⟨k, rfl⟩ := lagListOf_int halp hint lag hlag
  have hev' : addMonths e.pe ((k : Int) : Rat) = ev := Except.ok.inj hev
  rw [← hev']
  exact addMonths_after (halp e he) hgt

end Monotone

/-! ### `backfill` -/

/-- **backfill_preserves_observed**: the result is a rearrangement of the observed cells together with
the added ones — no observed cell is dropped, duplicated or altered. -/
theorem backfill_preserves_observed {t out : List Cell} {statics : List String} {res? : Option Int}
    {minLag : Int} (h : backfill t statics res? minLag = .ok out) :
    ∃ added, out.Perm (t ++ added) ∧ ∀ c ∈ t, c ∈ out := by
  unfold backfill at h
  cases hpr : periodResolution t with
  | none => simp [hpr, bind, Except.bind, throw, throwThe, MonadExceptOf.throw] at h
  | some pres =>
    simp only [hpr, bind, Except.bind, pure, Except.pure] at h
    split at h
    · cases h
    · split at h
      · cases h
      · rename_i addTri hadd
        unfold Triangle.add at h
        have hperm := Properties.C01.ofCells_perm h
        exact ⟨addTri, hperm, fun c hc => hperm.mem_iff.mpr (List.mem_append_left _ hc)⟩

/-- **backfill_added_before_first / backfill_values** (structure): the result is a rearrangement of the
observed cells and added cells; every added cell is a copy of the first cell `first` of a period row
(the earliest observation of the period's first slice: same metadata, period, class and previous
date) with the replacement values and evaluation date `period_end + (first_lag - (i+1)·res)`,
`i < backfillSteps`, for the (given or inferred) resolution `res > 0`. -/
theorem backfill_added_before_first {t out : List Cell} {statics : List String} {res? : Option Int}
    {minLag : Int} (h : backfill t statics res? minLag = .ok out) :
    ∃ added pres, periodResolution t = some pres ∧ out.Perm (t ++ added) ∧
      ∀ a ∈ added, ∃ row ∈ periodRows t, ∃ first, row.2.head? = some first ∧
        ∃ repl, replacementValues first statics = .ok repl ∧
        ∃ res, (match res? with | some r => some r | none => evalDateResolution t) = some res ∧ 0 < res ∧
        ∃ i, i < backfillSteps first.devLag res (max minLag (-pres + 1)) ∧
          a = backfillCell first repl res i := by
  unfold backfill at h
  cases hpr : periodResolution t with
  | none => simp [hpr, bind, Except.bind, throw, throwThe, MonadExceptOf.throw] at h
  | some pres =>
    simp only [hpr, bind, Except.bind, pure, Except.pure] at h
    split at h
    · cases h
    · rename_i parts hparts
      split at h
      · cases h
      · rename_i addTri hadd
        unfold Triangle.add at h
        refine ⟨addTri, pres, rfl, Properties.C01.ofCells_perm h, ?_⟩
        intro a ha
        have ha' := (Properties.C01.ofCells_perm hadd).mem_iff.mp ha
        obtain ⟨row, hrow, ys, hys, hay⟩ := (mapM_flatten_mem hparts a).mp ha'
        obtain ⟨first, hf, repl, hrepl, res, hres, hpos, i, hi, rfl⟩ := backfillRow_mem hys hay
        exact ⟨row, hrow, first, hf, repl, hrepl, res, hres, hpos, i, hi, rfl⟩

/-- **backfill_min_lag** (lower bound): the lag of every added cell is at least the requested minimum
lag and at least `-period_resolution + 1`; it is strictly below the row's first lag. -/
theorem backfill_min_lag {cur : Rat} {res lo : Int} {i : Nat} (hres : 0 < res)
    (hi : i < backfillSteps cur res lo) :
    (lo : Rat) ≤ cur - (((i : Int) + 1 : Int) : Rat) * (res : Rat) ∧
    cur - (((i : Int) + 1 : Int) : Rat) * (res : Rat) < cur := by
  have hr : (0 : Rat) < (res : Rat) := by exact_mod_cast hres
  have hi1 : (0 : Rat) < (((i : Int) + 1 : Int) : Rat) := by
    have : (0 : Int) < (i : Int) + 1 := by omega
    exact_mod_cast this
  refine ⟨?_, by nlinarith⟩
  unfold backfillSteps at hi
  have hfl : ((i : Int) + 1 : Int) ≤ ((cur - (lo : Rat)) / (res : Rat)).floor := by omega
  have h1 : ((((cur - (lo : Rat)) / (res : Rat)).floor : Int) : Rat) ≤ (cur - (lo : Rat)) / (res : Rat) := by
    show ((⌊(cur - (lo : Rat)) / (res : Rat)⌋ : Int) : Rat) ≤ _
    exact Int.floor_le _
  have h2 : (((i : Int) + 1 : Int) : Rat) ≤ (cur - (lo : Rat)) / (res : Rat) := by
    have : (((i : Int) + 1 : Int) : Rat) ≤ ((((cur - (lo : Rat)) / (res : Rat)).floor : Int) : Rat) := by
      exact_mod_cast hfl
    linarith
  rw [le_div_iff₀ hr] at h2
  linarith

/-- **backfill_values**: the values of a backfilled cell have the keys of the row's first observation;
a static field carries that observation's value, every other field is the integer 0 — no invented
losses. -/
theorem backfill_values {first : Cell} {statics : List String} {repl : Dict Val}
    (h : replacementValues first statics = .ok repl) :
    repl.keys = first.values.keys ∧
    ∀ kv ∈ repl, (kv.1 ∈ statics ∧ first.values.get? kv.1 = some kv.2) ∨
                 (kv.1 ∉ statics ∧ kv.2 = Val.int 0) := by
  have hinit : ReplInv first [] (first.values.map fun kv => (kv.1, Val.int 0)) := by
    constructor
    · simp [Dict.keys, List.map_map, Function.comp]
    · intro kv hkv
      obtain ⟨p, _, rfl⟩ := List.mem_map.mp hkv
      right; simp
  have := replFold statics [] _ repl hinit h
  rw [List.nil_append] at this
  exact this

/-- **backfill_min_lag_exact**: for every period row (its first cell `first` is the earliest observation
of the period's first slice) and a positive resolution, every step `i < backfillSteps` — i.e. every lag
`first_lag - (i+1)·res` not below `max(min_dev_lag, -period_resolution + 1)` — is supplied, as long as
the cells up to it pass the constructor (the Python loop `break`s at the first `ValueError`). -/
theorem backfill_min_lag_exact {t out : List Cell} {statics : List String} {res? : Option Int}
    {minLag pres res : Int} (h : backfill t statics res? minLag = .ok out)
    (hpres : periodResolution t = some pres) (hres : resolvedRes t res? = some res) (hpos : 0 < res)
    {row : Period × List Cell} (hrow : row ∈ periodRows t) {first : Cell} (hf : row.2.head? = some first) :
    ∃ repl, replacementValues first statics = .ok repl ∧
      ∀ i, i < backfillSteps first.devLag res (max minLag (-pres + 1)) →
        (∀ j, j ≤ i → (backfillCell first repl res j).datesOk = true) →
        backfillCell first repl res i ∈ out := by
  unfold backfill at h
  simp only [hpres, bind, Except.bind, pure, Except.pure] at h
  split at h
  · cases h
  · rename_i parts hparts
    split at h
    · cases h
    · rename_i addTri hadd
      unfold Triangle.add at h
      have hperm := Properties.C01.ofCells_perm h
      have hperm2 := Properties.C01.ofCells_perm hadd
      obtain ⟨ys, hys, hrowok⟩ := mapM_ok_mem' hparts row hrow
      change backfillRow statics (resolvedRes t res?) minLag (-pres + 1) row.2 = .ok ys at hrowok
      rw [hres] at hrowok
      obtain ⟨repl, hrepl, rfl⟩ := backfillRow_ok_pos hf hpos hrowok
      refine ⟨repl, hrepl, ?_⟩
      intro i hi hok
      apply hperm.mem_iff.mpr
      apply List.mem_append_right
      apply hperm2.mem_iff.mpr
      apply List.mem_flatten.mpr
      refine ⟨_, hys, ?_⟩
      have hlen : i < ((List.range (backfillSteps first.devLag res (max minLag (-pres + 1)))).map
          (backfillCell first repl res)).length := by simpa using hi
      have := takeValid_mem _ i hlen (by
        intro j hj
        simp only [List.getElem_map, List.getElem_range]
        exact hok j hj)
      simpa using this

/-- **backfill_before_first_dates**: on a month-aligned first cell (integer first lag `k0`), the cell of
step `i` sits at the integer lag `k0 - (i+1)·res` and — when that month is not before 1970 — its evaluation
date strictly precedes the row's first observation. -/
theorem backfill_before_first_dates {first : Cell} {repl : Dict Val} {res : Int} {i : Nat}
    (hal : MonthAligned first) (hres : 0 < res)
    (h70 : 0 ≤ monthToId first.ev - ((i : Int) + 1) * res) :
    (backfillCell first repl res i).ev < first.ev := by
  obtain ⟨hpv, hpe, hev, hee, hpy, hey⟩ := hal
  have hlag : first.devLag = ((monthToId first.ev - monthToId first.pe : Int) : Rat) :=
    devLagMonths_monthEnds hpe hee
  have hcast : first.devLag - (((i : Int) + 1 : Int) : Rat) * (res : Rat)
      = (((monthToId first.ev - monthToId first.pe - ((i : Int) + 1) * res : Int)) : Rat) := by
    rw [hlag]; push_cast; ring
  show addMonths first.pe (first.devLag - (((i : Int) + 1 : Int) : Rat) * (res : Rat)) < first.ev
  rw [hcast]
  apply addMonths_before ⟨hpv, hpe, hev, hee, hpy, hey⟩
  · show ((_ : Int) : Rat) < devLagMonths first.pe first.ev
    rw [show devLagMonths first.pe first.ev = first.devLag from rfl, hlag]
    have : monthToId first.ev - monthToId first.pe - ((i : Int) + 1) * res
        < monthToId first.ev - monthToId first.pe := by
      have : 0 < ((i : Int) + 1) * res := Int.mul_pos (by omega) hres
      omega
    exact_mod_cast this
  · omega


/-! ### `fill_forward_gaps` -/

/-- **fill_preserves_observed**: when no two cells of a slice row share a development lag (the rows are
keyed by lag in a dict), every observed cell is in the output, unchanged. -/
theorem fill_preserves_observed {t out : List Cell} {res? : Option Int} {nf : Bool}
    (h : fillForwardGaps t res? nf = .ok out)
    (hnd : ∀ r ∈ slicePeriodRows t, r.2.Pairwise (fun a b => a.devLag ≠ b.devLag)) :
    ∀ c ∈ t, c ∈ out := by
  intro c hc
  obtain ⟨r, hr, _, hcr⟩ := row_of_mem hc
  rcases fillForwardGaps_ok h with ⟨hempty, _⟩ | ⟨res, parts, _, hparts, hperm⟩
  · rw [hempty] at hr; cases hr
  · obtain ⟨ys, hys, hfy⟩ := mapM_ok_mem' hparts r hr
    exact hperm.mem_iff.mpr (List.mem_flatten.mpr ⟨ys, hys, fillRow_preserves hfy (hnd r hr) c hcr⟩)

/-- **fill_added_inside_gaps**: for a positive resolution (given or inferred) on whose grid all observed
lags of every slice row lie, every cell of the output is an observed cell or a fill cell of one slice
row (`FillCellOf`): same metadata and period as the row, at an unobserved grid lag strictly between the
row's first and last observed lag. -/
theorem fill_added_inside_gaps {t out : List Cell} {res? : Option Int} {nf : Bool} {res : Int}
    (h : fillForwardGaps t res? nf = .ok out) (hres : resolvedRes t res? = some res) (hpos : 0 < res)
    (hgrid : ∀ r ∈ slicePeriodRows t, GridRow res r.2) :
    ∀ c ∈ out, c ∈ t ∨ ∃ r ∈ slicePeriodRows t, FillCellOf res nf r.2 c := by
  intro c hc
  rcases fillForwardGaps_ok h with ⟨_, rfl⟩ | ⟨res', parts, hres', hparts, hperm⟩
  · cases hc
  · rw [hres] at hres'; cases hres'
    obtain ⟨ys, hys, hcy⟩ := List.mem_flatten.mp (hperm.mem_iff.mp hc)
    obtain ⟨r, hr, hfy⟩ := mapM_ok_mem hparts ys hys
    rcases fillRow_cells hpos (hgrid r hr) hfy c hcy with hrow | hfill
    · exact Or.inl ((mem_row_iff hr c).mp hrow).1
    · exact Or.inr ⟨r, hr, hfill⟩

/-- **fill_complete**: for a positive resolution on whose grid the observed lags of every slice row lie,
every lag of `range(first_lag, last_lag + res, res)` of every slice row is present in the output on that
row: as the observed cell with that lag, or as a cell at `period_end + lag` (the fill cell). Together
with `fill_added_inside_gaps`: exactly the unobserved inner grid lags are filled. -/
theorem fill_complete {t out : List Cell} {res? : Option Int} {nf : Bool} {res : Int}
    (h : fillForwardGaps t res? nf = .ok out) (hres : resolvedRes t res? = some res) (hpos : 0 < res)
    (hgrid : ∀ r ∈ slicePeriodRows t, GridRow res r.2)
    {r : SliceKey × List Cell} (hr : r ∈ slicePeriodRows t) {f l : Cell}
    (hf : r.2.head? = some f) (hl : r.2.getLast? = some l) {x : Int}
    (hx : x ∈ pyRange (truncInt f.devLag) (truncInt (l.devLag + res)) res) :
    ∃ c ∈ out, ∃ o ∈ r.2, c.md = o.md ∧ c.ps = o.ps ∧ c.pe = o.pe ∧
      ((c = o ∧ o.devLag = ((x : Int) : Rat)) ∨ c.ev = addMonths c.pe ((x : Int) : Rat)) := by
  rcases fillForwardGaps_ok h with ⟨hempty, _⟩ | ⟨res', parts, hres', hparts, hperm⟩
  · rw [hempty] at hr; cases hr
  · rw [hres] at hres'; cases hres'
    obtain ⟨ys, hys, hfy⟩ := mapM_ok_mem' hparts r hr
    obtain ⟨c, hc, rest⟩ := fillRow_complete hpos (hgrid r hr) hfy hf hl hx
    exact ⟨c, hperm.mem_iff.mpr (List.mem_flatten.mpr ⟨ys, hys, hc⟩), rest⟩


/-- **fill_values**: a fill cell carries no invented values: it is the observation `o` of its row with
the greatest lag below its own, moved to the new evaluation date — same metadata, period, class and
previous date; its values are those of `o`, or (with `fill_with_none`) the same keys all `None`. -/
theorem fill_values {res : Int} {nf : Bool} {row : List Cell} {c : Cell} (h : FillCellOf res nf row c) :
    ∃ o ∈ row, ∃ lag : Int, o.devLag < (lag : Rat) ∧
      (∀ o' ∈ row, o'.devLag ≤ (lag : Rat) → o'.devLag ≤ o.devLag) ∧
      c.md = o.md ∧ c.ps = o.ps ∧ c.pe = o.pe ∧ c.kind = o.kind ∧ c.prev = o.prev ∧
      c.ev = addMonths o.pe (lag : Rat) ∧
      c.values = (if nf then o.values.map fun (kv : String × Val) => (kv.1, Val.none) else o.values) := by
  obtain ⟨f, l, _, _, lag, _, _, _, _, o, ho, hlt, hnear, rfl⟩ := h
  refine ⟨o, ho, lag, hlt, hnear, ?_⟩
  cases nf <;> simp [fillCell]

/-! ### the executable Spec on the model's output -/

/-- **extensionSpec_model_rightTri_partial**: nine of the ten executable clauses of `rightTriSpec` hold of
the model's right triangle, for both bases (month unit, month-aligned triangle from 1970 on, integer
requested lags). Missing: the clause `nodup` (no two cells of the result share a coordinate when the
requested lags are distinct) — the facts proved here are set-level. -/
theorem extensionSpec_model_rightTri_partial {t out : List Cell} {lags : Option (List Rat)}
    (h : makeRightTriangleU t lags (some .month) = .ok out) (hal : ∀ c ∈ t, MonthAligned c)
    (hint : ∀ l, lags = some l → ∀ lag ∈ l, ∃ k : Int, lag = ((k : Int) : Rat)) :
    Spec.C15.disjoint t out = true ∧ Spec.C15.afterLatest t out = true ∧
    Spec.C15.rightTriOnGrid t lags .month out = true ∧ Spec.C15.rightTriComplete t lags .month out = true ∧
    Spec.C15.valuesEmpty out = true ∧ Spec.C15.basisKept t out = true ∧ Spec.C15.chainOk t out = true ∧
    (!(Spec.C15.rightTriNothingMissing t lags .month) || out.isEmpty) = true ∧
    Spec.isCanonical out = true := by
  obtain ⟨cum, new, hf⟩ := rightTri_facts h
  have hafter : ∀ c ∈ out, ∀ o ∈ t, rowKey o = rowKey c → o.ev < c.ev := by
    intro c hc o ho hk
    obtain ⟨k1, k2, k3⟩ := rowKey_eq_iff.mp hk
    exact rightTri_disjoint h hal hint hc ho k1 k2 k3
  have hrow : ∀ c ∈ out, ∃ x ∈ t, rowKey x = rowKey c := by
    intro c hc
    obtain ⟨x, hx, h1, h2, h3, _⟩ := rightTri_metadata h hc
    exact ⟨x, hx, rowKey_eq_iff.mpr ⟨h1.symm, h2.symm, h3.symm⟩⟩
  exact ⟨spec_disjoint hafter, spec_afterLatest hrow hafter, spec_rightTri_onGrid hf hal,
    spec_rightTri_complete hf, spec_valuesEmpty (spec_values_of_facts hf.empties hf.cumPerm hf.chain),
    spec_basis hf.empties hf.cumPerm hf.chain, spec_chain hf.chain hf.fwd hf.bwd,
    spec_rightTri_emptyWhenComplete hf hal,
    finishRight_canonical (fun n hn => (hf.empties n hn).1) hf.newOk hf.fin⟩

/-- **extensionSpec_model_rightDiag_partial**: nine of the ten executable clauses of `rightDiagSpec` hold
of the model's right diagonal (`include_historic = False`), for both bases and ANY triangle and date
list. Missing: the clause `nodup`. -/
theorem extensionSpec_model_rightDiag_partial {t out : List Cell} {dates : List Date}
    (h : makeRightDiagonal t dates false = .ok out) :
    Spec.C15.disjoint t out = true ∧ Spec.C15.afterLatest t out = true ∧
    Spec.C15.rightDiagOnGrid t dates out = true ∧ Spec.C15.rightDiagComplete t dates out = true ∧
    Spec.C15.valuesEmpty out = true ∧ Spec.C15.basisKept t out = true ∧ Spec.C15.chainOk t out = true ∧
    (!(Spec.C15.rightDiagNothingMissing t dates) || out.isEmpty) = true ∧
    Spec.isCanonical out = true := by
  obtain ⟨cum, new, hf⟩ := rightDiag_facts h
  have hafter : ∀ c ∈ out, ∀ o ∈ t, rowKey o = rowKey c → o.ev < c.ev :=
    fun c hc o ho hk => (hf.cell hc).2.2.2 o ho (md_of_rowKey hk)
  have hrow : ∀ c ∈ out, ∃ x ∈ t, rowKey x = rowKey c := fun c hc => (hf.cell hc).2.2.1
  exact ⟨spec_disjoint hafter, spec_afterLatest hrow hafter, spec_rightDiag_onGrid hf,
    spec_rightDiag_complete hf, spec_valuesEmpty (spec_values_of_facts hf.empties hf.cumPerm hf.chain),
    spec_basis hf.empties hf.cumPerm hf.chain, spec_chain hf.chain hf.fwd hf.bwd,
    spec_rightDiag_emptyWhenComplete hf,
    finishRight_canonical (fun n hn => (hf.empties n hn).1) hf.newOk hf.fin⟩


/-- **extensionSpec_model_rightTri**: ALL executable clauses of `rightTriSpec` hold of the model's right
triangle, for both bases (month unit, month-aligned triangle from 1970 on, integer requested lags). -/
theorem extensionSpec_model_rightTri {t out : List Cell} {lags : Option (List Rat)}
    (h : makeRightTriangleU t lags (some .month) = .ok out) (hal : ∀ c ∈ t, MonthAligned c)
    (hint : ∀ l, lags = some l → ∀ lag ∈ l, ∃ k : Int, lag = ((k : Int) : Rat)) :
    Spec.C15.allHold (Spec.C15.rightTriSpec t lags .month out) = true := by
  obtain ⟨h1, h2, h3, h4, h5, h6, h7, h8, h9⟩ := extensionSpec_model_rightTri_partial h hal hint
  obtain ⟨cum, new, hf⟩ := rightTri_facts h
  cases lags with
  | none =>
    have hn := rightTri_nodupCoords hf hal hint (fun l hl => by cases hl)
    simp only [Spec.C15.allHold, Spec.C15.rightTriSpec, List.all_cons, List.all_nil,
      h1, h2, h3, h4, h5, h6, h7, h8, h9, hn, Bool.and_self, Bool.or_true]
  | some l =>
    cases hd : Spec.C15.nodupList l with
    | false =>
      simp only [Spec.C15.allHold, Spec.C15.rightTriSpec, List.all_cons, List.all_nil,
        h1, h2, h3, h4, h5, h6, h7, h8, h9, hd, Bool.and_self, Bool.not_false, Bool.true_or]
    | true =>
      have hn := rightTri_nodupCoords hf hal hint (fun l' hl' => by cases hl'; exact nodupList_nodup l hd)
      simp only [Spec.C15.allHold, Spec.C15.rightTriSpec, List.all_cons, List.all_nil,
        h1, h2, h3, h4, h5, h6, h7, h8, h9, hn, Bool.and_self, Bool.or_true]

/-- **extensionSpec_model_rightDiag**: ALL executable clauses of `rightDiagSpec` hold of the model's right
diagonal (`include_historic = False`), for both bases, any triangle and any date list. -/
theorem extensionSpec_model_rightDiag {t out : List Cell} {dates : List Date}
    (h : makeRightDiagonal t dates false = .ok out) :
    Spec.C15.allHold (Spec.C15.rightDiagSpec t dates out) = true := by
  obtain ⟨h1, h2, h3, h4, h5, h6, h7, h8, h9⟩ := extensionSpec_model_rightDiag_partial h
  obtain ⟨cum, new, hf⟩ := rightDiag_facts h
  have hnodup : (!(Spec.C15.nodupList dates) || Spec.C15.nodupCoords out) = true := by
    cases hd : Spec.C15.nodupList dates with
    | false => simp
    | true =>
      have hk := rightDiag_new_keys_nodup (nodupList_nodup dates hd) hf.newEq
      have := nodupCoords_of_keys out
        (finishRight_keys_nodup (fun n hn => (hf.empties n hn).1) hk hf.fin)
      simp [this]
  simp only [Spec.C15.allHold, Spec.C15.rightDiagSpec, List.all_cons, List.all_nil,
    h1, h2, h3, h4, h5, h6, h7, h8, h9, hnodup, Bool.and_self]


/-! ### non-vacuity: a concrete month-aligned two-row triangle meets the hypotheses -/

def exCells : List Cell :=
  [ { kind := .cumulative, ps := ⟨2020, 1, 1⟩, pe := ⟨2020, 3, 31⟩, ev := ⟨2020, 3, 31⟩, values := [("paid_loss", .int 1)] },
    { kind := .cumulative, ps := ⟨2020, 1, 1⟩, pe := ⟨2020, 3, 31⟩, ev := ⟨2020, 6, 30⟩, values := [("paid_loss", .int 2)] },
    { kind := .cumulative, ps := ⟨2020, 4, 1⟩, pe := ⟨2020, 6, 30⟩, ev := ⟨2020, 6, 30⟩, values := [("paid_loss", .int 3)] } ]

theorem exCells_aligned : ∀ c ∈ exCells, MonthAligned c := by
  intro c hc
  simp only [exCells, List.mem_cons, List.not_mem_nil, or_false] at hc
  rcases hc with rfl | rfl | rfl <;> (unfold MonthAligned; decide)

theorem exCells_cumulative : Triangle.isIncremental exCells = false := rfl

/-- the grid hypothesis of the fill theorems is satisfiable: the lags 0, 3, 0 of `exCells` lie on the
grid of step 3 -/
example : GridRow 3 exCells := by
  refine ⟨0, ?_⟩
  intro o ho
  simp only [exCells, List.mem_cons, List.not_mem_nil, or_false] at ho
  rcases ho with rfl | rfl | rfl
  · exact ⟨0, by decide +kernel⟩
  · exact ⟨1, by decide +kernel⟩
  · exact ⟨0, by decide +kernel⟩

/-- `backfill_min_lag` is not vacuous: first lag 3, resolution 1, bound 0 gives three steps -/
example : 2 < backfillSteps 3 1 0 := by decide +kernel

/-- `backfill_values` is not vacuous: losses become 0, the static field is carried -/
def exFirst : Cell :=
  { ps := ⟨2020, 1, 1⟩, pe := ⟨2020, 1, 31⟩, ev := ⟨2020, 3, 31⟩, values := [("paid_loss", .int 5), ("earned_premium", .int 100)] }

example : replacementValues exFirst ["earned_premium"]
    = .ok [("paid_loss", .int 0), ("earned_premium", .int 100)] := by decide +kernel

-- (success of the operators on these inputs: `exCells_rightTri_ok`, `exCells_rightDiag_ok`, `exFill_fill_ok`,
-- `exBack_backfill_ok` at the end of this file)


/-! ### the executable Spec on the model's output: `fill_forward_gaps`, `backfill` -/

/-- **extensionSpec_model_fill**: ALL executable clauses of `fillSpec` (`preserved` as the list equation
`kept t out = t`, `nodupAdded`, `canonical`, `emptyInput`; on a compatible resolution also `insideGaps`, `complete`,
`values`, `emptyWhenComplete`) hold of the model's `fill_forward_gaps`, for both values of `fill_with_none`, on the
domain `SpecDomain t` (a canonical triangle — sorted, one cell class, constructor date rules — with canonical
metadata, month-aligned from 1970 on, no coordinate occupied twice) and a positive (given or inferred) resolution.
The grid hypothesis of the Prop-level theorems is not assumed: it is derived from the Bool `fillCompatible`, and
for an incompatible resolution the three structural clauses are proved all the same. -/
theorem extensionSpec_model_fill {t out : List Cell} {res? : Option Int} {nf : Bool}
    (h : fillForwardGaps t res? nf = .ok out) (hD : SpecDomain t)
    (hpos : ∀ res, resolvedRes t res? = some res → 0 < res) :
    Spec.C15.allHold (Spec.C15.fillSpec t res? nf out) = true := by
  obtain ⟨hcan, hkeys, hsub⟩ := fill_out_structure hD h hpos
  obtain ⟨hkept, hnd⟩ := spec_preserved hD.canonical.1 hD.canon hD.nodup hcan.1 hkeys hsub
  have hc := Properties.C01.isCanonical_of_canonical hcan
  have hpres : (Spec.C15.kept t out == t) = true := by rw [hkept]; simp
  have hrr : Spec.C15.resolveRes t res? = resolvedRes t res? := by cases res? <;> rfl
  unfold Spec.C15.fillSpec
  rw [hrr]
  cases hr : resolvedRes t res? with
  | none =>
    have ht : t = [] := by
      rcases fillForwardGaps_ok' h with ⟨hrows, _⟩ | ⟨res, _, hres, _⟩
      · exact slicePeriodRows_nil hrows
      · rw [hr] at hres; cases hres
    have hte : t.isEmpty = true := by rw [ht]; rfl
    simp [Spec.C15.allHold, hpres, hnd, hc, hte]
  | some res =>
    have hp := hpos res hr
    cases hcomp : Spec.C15.fillCompatible t res with
    | false => simp [Spec.C15.allHold, hcomp, hpres, hnd, hc]
    | true =>
      obtain ⟨_, hgrid⟩ := gridRow_of_compatible hD hcomp
      have h1 := spec_fill_insideGaps hD h hr hp hgrid
      have h2 := spec_fill_complete hD h hr hp hgrid
      have h3 := spec_fill_values hD h hr hp hgrid
      have h4 := spec_fill_emptyWhenComplete hD h hr hp hgrid hkept
      simp [Spec.C15.allHold, hcomp, hpres, hnd, hc, h1, h2, h3, h4]

/-- **extensionSpec_model_backfill**: ALL executable clauses of `backfillSpec` (`preserved` as the list equation,
`nodupAdded`, `canonical`, `beforeFirst`, `minLag`, `values`) hold of the model's `backfill` on the domain
`SpecDomain t`, for a positive (given or inferred) resolution, when the loop runs down to its bound
(`BackfillOk`: on every row, every cell the loop would create from the row's earliest observation passes the `Cell`
constructor — the Python loop `break`s at the first `ValueError` — and lies in a month from 1970 on, where
`add_months` is exact; D8). -/
theorem extensionSpec_model_backfill {t out : List Cell} {statics : List String} {res? : Option Int}
    {minLag : Int} (h : backfill t statics res? minLag = .ok out) (hD : SpecDomain t)
    (hpos : ∀ res, resolvedRes t res? = some res → 0 < res)
    (hok : ∀ res pres, resolvedRes t res? = some res → periodResolution t = some pres →
      BackfillOk t res (max minLag (-pres + 1))) :
    Spec.C15.allHold (Spec.C15.backfillSpec t statics res? minLag out) = true := by
  have hF := backfill_facts hD h hok
  obtain ⟨hkept, hnd⟩ := spec_preserved hD.canonical.1 hD.canon hD.nodup hF.canonical.1 hF.keys hF.sub
  have hc := Properties.C01.isCanonical_of_canonical hF.canonical
  have hpres : (Spec.C15.kept t out == t) = true := by rw [hkept]; simp
  have hrr : Spec.C15.resolveRes t res? = resolvedRes t res? := by cases res? <;> rfl
  unfold Spec.C15.backfillSpec
  rw [hrr]
  cases hr : resolvedRes t res? with
  | none => simp [Spec.C15.allHold, hpres, hnd, hc]
  | some res =>
    cases hp : periodResolution t with
    | none => simp [Spec.C15.allHold, Spec.C15.lowerBound, hp, hpres, hnd, hc]
    | some pres =>
      have h1 := spec_backfill_beforeFirst hD hF hr hp
      have h2 := spec_backfill_minLag hD h hr hp (hpos res hr) (hok res pres hr hp)
      have h3 := spec_backfill_values hD hF hr hp
      simp [Spec.C15.allHold, Spec.C15.lowerBound, hp, hpres, hnd, hc, h1, h2, h3]

/-! ### non-vacuity of the bridge hypotheses -/

/-- the domain of the two bridges is inhabited by the two-row triangle `exCells` -/
theorem exCells_domain : SpecDomain exCells := by
  refine ⟨⟨by decide +kernel, by decide +kernel, by decide +kernel⟩, by decide +kernel, exCells_aligned,
    by decide +kernel⟩

theorem exBack_domain : SpecDomain exBack := by
  refine ⟨⟨by decide +kernel, by decide +kernel, by decide +kernel⟩, by decide +kernel, ?_, by decide +kernel⟩
  intro c hc
  simp only [exBack, List.mem_cons, List.not_mem_nil, or_false] at hc
  rcases hc with rfl | rfl <;> (unfold MonthAligned; decide)

/-- `BackfillOk` is satisfiable and not vacuous: the row of `exBack` starts at lag 2, so with resolution 1 and bound
0 the loop creates the lags 1 and 0 — two steps, both valid cells in 2020 (`exBack_backfill_ok`: the model returns and
the whole Spec holds). -/
theorem exBack_ok : BackfillOk exBack 1 0 := by
  intro first hf hearly i hi
  simp only [exBack, List.mem_cons, List.not_mem_nil, or_false] at hf
  rcases hf with rfl | rfl
  · have hs : backfillSteps exB1.devLag 1 0 = 2 := by decide +kernel
    rw [hs] at hi
    have : i = 0 ∨ i = 1 := by omega
    rcases this with rfl | rfl <;> exact ⟨by decide +kernel, by decide +kernel⟩
  · exfalso
    apply hearly exB1 (by simp [exBack]) rfl
    decide +kernel

/-! ### `make_right_diagonal(include_historic=True)`: what holds, and the re-created coordinates -/

/-- **rightDiag_historic_recreates**: with `include_historic = True` (either basis) a requested date that is the
evaluation date of an observed cell `x` (not before its period start) is served like any other: the result contains a
cell ON THE OCCUPIED COORDINATE of `x`, so the clause `disjoint` ("never create a cell at an occupied coordinate") is
FALSE of the model's — and the library's — output for this flag. (The default `include_historic = False` satisfies it:
`rightDiag_spec`, `extensionSpec_model_rightDiag`.) -/
theorem rightDiag_historic_recreates {t out : List Cell} {dates : List Date}
    (h : makeRightDiagonal t dates true = .ok out) {x : Cell} (hx : x ∈ t) (hd : x.ev ∈ dates)
    (hps : x.ps ≤ x.ev) :
    (∃ c ∈ out, Spec.C15.sameCoord c x = true) ∧ Spec.C15.disjoint t out = false := by
  obtain ⟨cum, new, hf⟩ := rightDiag_facts h
  obtain ⟨c, hc, hs⟩ := rightDiag_hist_occupied hf hx hd hps
  refine ⟨⟨c, hc, hs⟩, ?_⟩
  simp only [Spec.C15.disjoint, List.all_eq_false, Bool.not_eq_true, Bool.not_eq_false', List.any_eq_true]
  exact ⟨c, hc, x, hx, hs⟩

/-- **extensionSpec_model_rightDiag_historic**: the exact clause set that DOES hold with `include_historic = True`
(`rightDiagHistSpec`, both bases, any triangle and date list): every cell sits at a requested date not before its
period start on an observed row (`onGrid`), every such (row, date) is supplied (`complete`), no coordinate twice for
distinct dates (`nodup`), empty values, same basis, incremental chain, canonical form. Not claimed (and false in
general): `disjoint`, `afterLatest`, `emptyWhenComplete`. -/
theorem extensionSpec_model_rightDiag_historic {t out : List Cell} {dates : List Date}
    (h : makeRightDiagonal t dates true = .ok out) :
    Spec.C15.allHold (Spec.C15.rightDiagHistSpec t dates out) = true := by
  obtain ⟨cum, new, hf⟩ := rightDiag_facts h
  have h1 := spec_rightDiagHist_onGrid hf
  have h2 := spec_rightDiagHist_complete hf
  have h3 := spec_valuesEmpty (spec_values_of_facts hf.empties hf.cumPerm hf.chain)
  have h4 := spec_basis hf.empties hf.cumPerm hf.chain
  have h5 := spec_chain hf.chain hf.fwd hf.bwd
  have h6 := finishRight_canonical (fun n hn => (hf.empties n hn).1) hf.newOk hf.fin
  have hnodup : (!(Spec.C15.nodupList dates) || Spec.C15.nodupCoords out) = true := by
    cases hd : Spec.C15.nodupList dates with
    | false => simp
    | true =>
      have hk := rightDiag_new_keys_nodup (nodupList_nodup dates hd) hf.newEq
      have := nodupCoords_of_keys out
        (finishRight_keys_nodup (fun n hn => (hf.empties n hn).1) hk hf.fin)
      simp [this]
  simp only [Spec.C15.allHold, Spec.C15.rightDiagHistSpec, List.all_cons, List.all_nil,
    h1, h2, h3, h4, h5, h6, hnodup, Bool.and_self]

/-- **backfill_only_first_slice** (D17 pinned): every cell `backfill` adds lies on the LOWEST-metadata slice of its
period — the loop runs over `period_rows`, whose first cell belongs to the first slice; later slices of a period get
no cell. -/
theorem backfill_only_first_slice {t out : List Cell} {statics : List String} {res? : Option Int}
    {minLag : Int} (h : backfill t statics res? minLag = .ok out) :
    ∃ added, out.Perm (t ++ added) ∧
      ∀ a ∈ added, ∀ o ∈ t, o.ps = a.ps → o.pe = a.pe → Metadata.cmp a.md o.md ≠ .gt := by
  obtain ⟨added, _, _, hperm, hall⟩ := backfill_added_before_first h
  refine ⟨added, hperm, ?_⟩
  intro a ha o ho hps hpe
  obtain ⟨row, hrow, first, hf, _, _, _, _, _, _, _, rfl⟩ := hall a ha
  obtain ⟨first', hP⟩ := prow_facts hrow
  have : first' = first := by have := hP.head; rw [hf] at this; cases this; rfl
  subst this
  apply hP.lowest o ho
  rw [← hP.period]
  show (o.ps, o.pe) = (first'.ps, first'.pe)
  rw [hps, hpe]; rfl

/-! ### the operators SUCCEED: totality on cumulative input, closed instances with every bridge hypothesis -/

/-- **rightDiag_total**: `make_right_diagonal` (either flag) returns on a class-consistent cumulative triangle as
soon as no `CumulativeCell(...)` call raises -/
theorem rightDiag_total {t : List Cell} {dates : List Date} {hist : Bool}
    (hk : kindsConsistent t = true) (hinc : Triangle.isIncremental t = false)
    (hdates : ∀ e ∈ t, ∀ d ∈ dates, e.ps ≤ d → (emptyCell e d).datesOk = true) :
    ∃ out, makeRightDiagonal t dates hist = .ok out := makeRightDiagonal_ok hk hinc hdates

/-- **rightTri_total**: `make_right_triangle` (month or day unit) returns on a class-consistent cumulative triangle as
soon as no `CumulativeCell(...)` call raises -/
theorem rightTri_total {t : List Cell} {lags : Option (List Rat)} {u : LagUnit} (hu : u ≠ .timedelta)
    (hk : kindsConsistent t = true) (hinc : Triangle.isIncremental t = false)
    (hcells : ∀ e ∈ t, ∀ l,
      ((∃ ls, lags = some ls ∧ l ∈ ls) ∨ (lags = none ∧ ∃ o ∈ t, o.md = e.md ∧ o.devLag u = l)) →
      l > e.devLag u → ∀ ev, addDevLag e.pe l u = .ok ev → (emptyCell e ev).datesOk = true) :
    ∃ out, makeRightTriangleU t lags (some u) = .ok out := makeRightTriangle_ok hu hk hinc hcells

/-- **backfill_total'**: `backfill` returns on a class-consistent non-empty triangle for a positive resolution when
the static fields are present in every cell -/
theorem backfill_total' {t : List Cell} {statics : List String} {res? : Option Int} {minLag pres res : Int}
    (hk : kindsConsistent t = true) (hpr : periodResolution t = some pres)
    (hres : resolvedRes t res? = some res) (hpos : 0 < res)
    (hstat : ∀ c ∈ t, ∀ f ∈ statics, (c.values.get? f).isSome = true) :
    ∃ out, backfill t statics res? minLag = .ok out := backfill_total hk hpr hres hpos hstat

/-- closed instance: the right triangle of `exCells` exists and satisfies the whole Spec -/
theorem exCells_rightTri_ok :
    ∃ out, makeRightTriangleU exCells none (some .month) = .ok out ∧
      Spec.C15.allHold (Spec.C15.rightTriSpec exCells none .month out) = true := by
  obtain ⟨out, h⟩ : ∃ out, makeRightTriangleU exCells none (some .month) = .ok out := by
    apply makeRightTriangle_ok (by decide) (by decide +kernel) rfl
    intro e he l hl hgt ev hev
    rcases hl with ⟨ls, hls, _⟩ | ⟨_, o, ho, _, rfl⟩
    · cases hls
    · cases hev
      simp only [exCells, List.mem_cons, List.not_mem_nil, or_false] at he ho
      rcases he with rfl | rfl | rfl <;> rcases ho with rfl | rfl | rfl <;> revert hgt <;> decide +kernel
  exact ⟨out, h, extensionSpec_model_rightTri h exCells_aligned (fun l hl => by cases hl)⟩

/-- closed instance: the right diagonal of `exCells` at two later dates exists and satisfies the whole Spec -/
theorem exCells_rightDiag_ok :
    ∃ out, makeRightDiagonal exCells [⟨2020, 9, 30⟩, ⟨2020, 12, 31⟩] false = .ok out ∧
      Spec.C15.allHold (Spec.C15.rightDiagSpec exCells [⟨2020, 9, 30⟩, ⟨2020, 12, 31⟩] out) = true := by
  obtain ⟨out, h⟩ := makeRightDiagonal_ok (t := exCells) (dates := [⟨2020, 9, 30⟩, ⟨2020, 12, 31⟩])
    (hist := false) (by decide +kernel) rfl (by decide +kernel)
  exact ⟨out, h, extensionSpec_model_rightDiag h⟩

/-- closed witness of `rightDiag_historic_recreates`: on `exCells` with the observed date 2020-03-31 requested and
`include_historic = True` the model returns, and `disjoint` is false of its output -/
theorem rightDiag_historic_witness :
    ∃ out, makeRightDiagonal exCells [⟨2020, 3, 31⟩, ⟨2020, 9, 30⟩] true = .ok out ∧
      Spec.C15.disjoint exCells out = false := by
  obtain ⟨out, h⟩ := makeRightDiagonal_ok (t := exCells) (dates := [⟨2020, 3, 31⟩, ⟨2020, 9, 30⟩])
    (hist := true) (by decide +kernel) rfl (by decide +kernel)
  exact ⟨out, h, (rightDiag_historic_recreates h (x := exCells[0]) (by decide +kernel) (by decide +kernel)
    (by decide +kernel)).2⟩

/-- closed instance: `backfill` of `exBack` (lags 2, 3 → lags 1, 0 added) exists and satisfies the whole Spec;
`List.mergeSort` does not reduce in the kernel, so `periodResolution` is evaluated in stages -/
theorem exBack_backfill_ok :
    ∃ out, backfill exBack ["earned_premium"] (some 1) 0 = .ok out ∧
      Spec.C15.allHold (Spec.C15.backfillSpec exBack ["earned_premium"] (some 1) 0 out) = true := by
  obtain ⟨out, h⟩ := backfill_total (t := exBack) (statics := ["earned_premium"]) (res? := some 1) (minLag := 0)
    (by decide +kernel) exBack_pres rfl (by decide) (by decide +kernel)
  refine ⟨out, h, extensionSpec_model_backfill h exBack_domain ?_ ?_⟩
  · intro res hres; cases hres; decide
  · intro res pres hres hpres
    cases hres
    rw [exBack_pres] at hpres; cases hpres
    exact exBack_ok

theorem exFill_domain : SpecDomain exFill := by
  refine ⟨⟨by decide +kernel, by decide +kernel, by decide +kernel⟩, by decide +kernel, ?_, by decide +kernel⟩
  intro c hc
  simp only [exFill, List.mem_cons, List.not_mem_nil, or_false] at hc
  rcases hc with rfl | rfl <;> (unfold MonthAligned; decide)

/-- closed instance: `fill_forward_gaps` on a row observed at the lags 0 and 2 with resolution 1 exists, has three
cells (the lag 1 is filled) and satisfies the whole Spec -/
theorem exFill_fill_ok :
    ∃ out, fillForwardGaps exFill (some 1) false = .ok out ∧ out.length = 3 ∧
      Spec.C15.allHold (Spec.C15.fillSpec exFill (some 1) false out) = true := by
  obtain ⟨out, hout⟩ := ofCells_ok (l := [exF1, exF2, { exF1 with ev := ⟨2020, 2, 29⟩ }]) (by decide +kernel)
  have h : fillForwardGaps exFill (some 1) false = .ok out := by
    unfold fillForwardGaps
    rw [exFill_rows]
    simp only [List.isEmpty_cons, Bool.false_eq_true, if_false, List.mapM_cons, List.mapM_nil, exFill_row,
      bind, Except.bind, pure, Except.pure, List.flatten_cons, List.flatten_nil, List.append_nil]
    exact hout
  refine ⟨out, h, ?_, extensionSpec_model_fill h exFill_domain (fun res hres => by cases hres; decide)⟩
  have := (Properties.C01.ofCells_perm hout).length_eq
  simpa using this

/-! ### the Bool bridge of the right triangle for the day unit -/

/-- **extensionSpec_model_rightTri_day**: ALL executable clauses of `rightTriSpec` hold of the model's right triangle
for `dev_lag_unit = "day"`, both bases, under the hypotheses of `lagMonotone_day` on the cumulative form `cum` of
`t` (`cum = t` for a cumulative input): valid period-end and evaluation dates, integer requested lags (a fractional
day lag is floored by `timedelta`), results inside `date.min .. date.max`. -/
theorem extensionSpec_model_rightTri_day {t out cum : List Cell} {lags : Option (List Rat)}
    (h : makeRightTriangleU t lags (some .day) = .ok out) (hcum : CumOf t cum)
    (hval : ∀ c ∈ cum, c.pe.valid = true ∧ c.ev.valid = true)
    (hint : ∀ l, lags = some l → ∀ lag ∈ l, ∃ k : Int, lag = ((k : Int) : Rat))
    (hrange : ∀ p ∈ Triangle.slices cum, ∀ e ∈ p.2, ∀ lag ∈ lagListOf lags .day p.2,
      1 ≤ e.pe.ordinal + lag.floor ∧ e.pe.ordinal + lag.floor ≤ 3652059) :
    Spec.C15.allHold (Spec.C15.rightTriSpec t lags .day out) = true := by
  obtain ⟨cum', new, hf⟩ := rightTri_facts h
  have hcc : cum' = cum := hcum.unique hf.cumOf
  subst hcc
  have hord := lagOrder_day hval
  have hinj := lagInj_day hint hrange
  have hmono := lagMonotone_day hval hint hrange
  have hafter : ∀ c ∈ out, ∀ o ∈ t, rowKey o = rowKey c → o.ev < c.ev := by
    intro c hc o ho hk
    obtain ⟨k1, k2, k3⟩ := rowKey_eq_iff.mp hk
    exact rightTri_disjoint_of_monotone h hcum hmono hc ho k1 k2 k3
  have hrow : ∀ c ∈ out, ∃ x ∈ t, rowKey x = rowKey c := by
    intro c hc
    obtain ⟨x, hx, h1, h2, h3, _⟩ := rightTri_metadata h hc
    exact ⟨x, hx, rowKey_eq_iff.mpr ⟨h1.symm, h2.symm, h3.symm⟩⟩
  have h1 := spec_disjoint hafter
  have h2 := spec_afterLatest hrow hafter
  have h3 := spec_rightTri_onGrid_u hf hord
  have h4 := spec_rightTri_complete_u hf (by decide)
  have h5 := spec_valuesEmpty (spec_values_of_facts hf.empties hf.cumPerm hf.chain)
  have h6 := spec_basis hf.empties hf.cumPerm hf.chain
  have h7 := spec_chain hf.chain hf.fwd hf.bwd
  have h8 := spec_rightTri_emptyWhenComplete_u hf hord
  have h9 := finishRight_canonical (fun n hn => (hf.empties n hn).1) hf.newOk hf.fin
  cases lags with
  | none =>
    have hn := rightTri_nodupCoords_u hf hinj (fun l hl => by cases hl)
    simp only [Spec.C15.allHold, Spec.C15.rightTriSpec, List.all_cons, List.all_nil,
      h1, h2, h3, h4, h5, h6, h7, h8, h9, hn, Bool.and_self, Bool.or_true]
  | some l =>
    cases hd : Spec.C15.nodupList l with
    | false =>
      simp only [Spec.C15.allHold, Spec.C15.rightTriSpec, List.all_cons, List.all_nil,
        h1, h2, h3, h4, h5, h6, h7, h8, h9, hd, Bool.and_self, Bool.not_false, Bool.true_or]
    | true =>
      have hn := rightTri_nodupCoords_u hf hinj (fun l' hl' => by cases hl'; exact nodupList_nodup l hd)
      simp only [Spec.C15.allHold, Spec.C15.rightTriSpec, List.all_cons, List.all_nil,
        h1, h2, h3, h4, h5, h6, h7, h8, h9, hn, Bool.and_self, Bool.or_true]

/-! ### `fill_forward_gaps` succeeds -/

/-- **fill_total**: on the domain `SpecDomain t`, for a (given or inferred) resolution that is compatible in the sense
of the executable `fillCompatible` (positive, dividing every within-row lag difference), `fill_forward_gaps` RETURNS —
the lookup `period_cells[lag - eval_resolution]` never misses — as soon as no constructor call raises (moving an
observed cell to an integer lag strictly between its own lag and a lag of its row gives a valid cell), and the whole
`fillSpec` holds of the result. -/
theorem fill_total {t : List Cell} {res? : Option Int} {nf : Bool} {res : Int} (hD : SpecDomain t)
    (hres : resolvedRes t res? = some res) (hcomp : Spec.C15.fillCompatible t res = true)
    (hctor : ∀ o ∈ t, ∀ l ∈ t, rowKey l = rowKey o → ∀ x : Int, o.devLag < ((x : Int) : Rat) →
      ((x : Int) : Rat) < l.devLag → ({ o with ev := addMonths o.pe ((x : Int) : Rat) } : Cell).datesOk = true) :
    ∃ out, fillForwardGaps t res? nf = .ok out ∧
      Spec.C15.allHold (Spec.C15.fillSpec t res? nf out) = true := by
  obtain ⟨hpos, hgrid⟩ := gridRow_of_compatible hD hcomp
  obtain ⟨out, h⟩ := fillForwardGaps_total (nf := nf) hD.canonical.2.1 hres hpos hgrid hctor
  exact ⟨out, h, extensionSpec_model_fill h hD (fun r hr => by rw [hres] at hr; cases hr; exact hpos)⟩

/-- the hypotheses of `fill_total` are satisfiable and not vacuous: on `exFill` (lags 0 and 2, resolution 1) the
constructor hypothesis concerns exactly the lag 1 -/
theorem exFill_total :
    ∃ out, fillForwardGaps exFill (some 1) true = .ok out ∧
      Spec.C15.allHold (Spec.C15.fillSpec exFill (some 1) true out) = true := by
  apply fill_total exFill_domain rfl (by decide +kernel)
  intro o ho l hl _ x h1 h2
  have d1 : exF1.devLag = ((0 : Int) : Rat) := by decide +kernel
  have d2 : exF2.devLag = ((2 : Int) : Rat) := by decide +kernel
  simp only [exFill, List.mem_cons, List.not_mem_nil, or_false] at ho hl
  rcases ho with rfl | rfl <;> rcases hl with rfl | rfl
  · rw [d1] at h1 h2
    have a : (0 : Int) < x := by exact_mod_cast h1
    have b : x < (0 : Int) := by exact_mod_cast h2
    omega
  · rw [d1] at h1; rw [d2] at h2
    have a : (0 : Int) < x := by exact_mod_cast h1
    have b : x < (2 : Int) := by exact_mod_cast h2
    have : x = 1 := by omega
    subst this
    decide +kernel
  · rw [d2] at h1; rw [d1] at h2
    have a : (2 : Int) < x := by exact_mod_cast h1
    have b : x < (0 : Int) := by exact_mod_cast h2
    omega
  · rw [d2] at h1 h2
    have a : (2 : Int) < x := by exact_mod_cast h1
    have b : x < (2 : Int) := by exact_mod_cast h2
    omega

/-- closed instance for the day unit: the right triangle of `exCells` in days exists and satisfies the whole Spec -/
theorem exCells_rightTri_day_ok :
    ∃ out, makeRightTriangleU exCells none (some .day) = .ok out ∧
      Spec.C15.allHold (Spec.C15.rightTriSpec exCells none .day out) = true := by
  obtain ⟨out, h⟩ : ∃ out, makeRightTriangleU exCells none (some .day) = .ok out := by
    apply makeRightTriangle_ok (by decide) (by decide +kernel) rfl
    intro e he l hl hgt ev hev
    rcases hl with ⟨ls, hls, _⟩ | ⟨_, o, ho, _, rfl⟩
    · cases hls
    · cases hev
      simp only [exCells, List.mem_cons, List.not_mem_nil, or_false] at he ho
      rcases he with rfl | rfl | rfl <;> rcases ho with rfl | rfl | rfl <;> revert hgt <;> decide +kernel
  refine ⟨out, h, extensionSpec_model_rightTri_day h (Or.inl ⟨rfl, rfl⟩) (by decide +kernel)
    (fun l hl => by cases hl) ?_⟩
  intro p hp e he lag hlag
  have het := mem_of_mem_slices hp he
  simp only [lagListOf, List.mem_eraseDups] at hlag
  obtain ⟨o, ho, rfl⟩ := List.mem_map.mp hlag
  have hot := mem_of_mem_slices hp ho
  simp only [exCells, List.mem_cons, List.not_mem_nil, or_false] at het hot
  rcases het with rfl | rfl | rfl <;> rcases hot with rfl | rfl | rfl <;> decide +kernel

/-! ### the right-hand operators succeed on a complete incremental triangle -/

/-- **rightDiag_total_incremental**: `make_right_diagonal` (default `include_historic = False`) RETURNS on a complete
`IncrementalCell` triangle (`Complete` of C04: canonical, every row an unbroken chain from the day before the period
start, one key set and value type per row) with canonical metadata, for distinct requested dates, as soon as no
`CumulativeCell(...)` call raises: `to_cumulative` returns (C04 `toInc_toCum`), the cumulative operator returns
(`rightDiag_total`), `to_incremental` of the added cells returns (C04 `toCum_toInc`) and
`_fix_prev_evaluation_date` passes every constructor call. -/
theorem rightDiag_total_incremental {t : List Cell} {dates : List Date} (hC : Properties.C04.Complete t)
    (hinc : Triangle.isIncremental t = true) (hcanon : ∀ c ∈ t, c.md.Canon) (hd : dates.Nodup)
    (hdates : ∀ e ∈ t, ∀ d ∈ dates, e.ps ≤ d → (emptyCell e d).datesOk = true) :
    ∃ out, makeRightDiagonal t dates false = .ok out :=
  makeRightDiagonal_ok_inc hC hinc hcanon hd hdates

/-- **rightTri_total_incremental**: `make_right_triangle` (month unit) RETURNS on a complete `IncrementalCell`
triangle, month-aligned from 1970 on, with canonical metadata, integer and distinct requested lags (or the slices' own
lags), as soon as no `CumulativeCell(...)` call raises. -/
theorem rightTri_total_incremental {t : List Cell} {lags : Option (List Rat)} (hC : Properties.C04.Complete t)
    (hinc : Triangle.isIncremental t = true) (hcanon : ∀ c ∈ t, c.md.Canon)
    (hal : ∀ c ∈ t, MonthAligned c)
    (hint : ∀ l, lags = some l → ∀ lag ∈ l, ∃ k : Int, lag = ((k : Int) : Rat))
    (hnd : ∀ l, lags = some l → l.Nodup)
    (hcells : ∀ e ∈ t, ∀ l,
      ((∃ ls, lags = some ls ∧ l ∈ ls) ∨ (lags = none ∧ ∃ o ∈ t, o.md = e.md ∧ o.devLag = l)) →
      l > e.devLag → (emptyCell e (addMonths e.pe l)).datesOk = true) :
    ∃ out, makeRightTriangleU t lags (some .month) = .ok out :=
  makeRightTriangle_ok_inc hC hinc hcanon hal hint hnd hcells

/-- the hypotheses of `rightDiag_total_incremental` hold for C04's complete incremental triangle `exU` -/
theorem exU_rightDiag_ok : ∃ out, makeRightDiagonal Properties.C04.exU [⟨2023, 12, 31⟩, ⟨2024, 12, 31⟩] false = .ok out :=
  rightDiag_total_incremental Properties.C04.exU_complete rfl (by decide +kernel) (by decide +kernel) (by decide +kernel)

theorem exU_aligned : ∀ c ∈ Properties.C04.exU, MonthAligned c := by
  intro c hc
  simp only [Properties.C04.exU, List.mem_cons, List.not_mem_nil, or_false] at hc
  rcases hc with rfl | rfl | rfl | rfl | rfl | rfl <;> (unfold MonthAligned; decide +kernel)

/-- the hypotheses of `rightTri_total_incremental` hold for `exU` with the slices' own lags -/
theorem exU_rightTri_ok : ∃ out, makeRightTriangleU Properties.C04.exU none (some .month) = .ok out := by
  apply rightTri_total_incremental Properties.C04.exU_complete rfl (by decide +kernel) exU_aligned
    (fun l hl => by cases hl) (fun l hl => by cases hl)
  intro e he l hl hgt
  rcases hl with ⟨ls, hls, _⟩ | ⟨_, o, ho, _, rfl⟩
  · cases hls
  · simp only [Properties.C04.exU, List.mem_cons, List.not_mem_nil, or_false] at he ho
    rcases he with rfl | rfl | rfl | rfl | rfl | rfl <;>
      rcases ho with rfl | rfl | rfl | rfl | rfl | rfl <;> revert hgt <;> decide +kernel

/-! ### `include_historic = True` on a complete incremental triangle -/

/-- **rightDiag_incremental_historic_raises**: on a complete `IncrementalCell` triangle (hypotheses of
`rightDiag_total_incremental`: canonical metadata, distinct requested dates, no `CumulativeCell(...)` call raises),
`make_right_diagonal(..., include_historic=True)` RAISES `ValueError` as soon as one requested date `d` is not before the
period start of an observed cell `x` (so a cell is created on `x`'s row at `d`) and not after `x`'s evaluation date —
i.e. `d` is at or before the observed right edge of that period. Mechanism (what the library does, confirmed on /repo:
`ValueError: evaluation_date must be > prev_evaluation_date`): `to_cumulative`, the comprehension, `Triangle(...)` and
`to_incremental` all return; `_fix_prev_evaluation_date` re-links the FIRST new cell of the row (its evaluation date is
`≤ d`) to the observed right-edge date (`≥ x.ev`), and the `IncrementalCell` constructor refuses
`evaluation_date <= prev_evaluation_date`. -/
theorem rightDiag_incremental_historic_raises {t : List Cell} {dates : List Date} (hC : Properties.C04.Complete t)
    (hinc : Triangle.isIncremental t = true) (hcanon : ∀ c ∈ t, c.md.Canon) (hd : dates.Nodup)
    (hdates : ∀ e ∈ t, ∀ d ∈ dates, e.ps ≤ d → (emptyCell e d).datesOk = true)
    {x : Cell} {d : Date} (hx : x ∈ t) (hdd : d ∈ dates) (hle : x.ps ≤ d) (hnot : ¬ x.ev < d) :
    makeRightDiagonal t dates true = .error .valueError :=
  makeRightDiagonal_error_inc_hist hC hinc hcanon hd hdates hx hdd hle hnot

/-- **rightDiag_total_incremental_historic**: with `include_historic=True` the operator RETURNS on a complete
`IncrementalCell` triangle when every requested date that creates a cell on a row (`e.ps ≤ d`) lies strictly after every
observation of that row (`e.ev < d` for every observed `e` of the row — beyond the row's right edge); other hypotheses
as in `rightDiag_total_incremental`. Together with `rightDiag_incremental_historic_raises` this decides success of the
flag on the domain: the two hypotheses `hbeyond` / (`hle`, `hnot`) are complementary. -/
theorem rightDiag_total_incremental_historic {t : List Cell} {dates : List Date} (hC : Properties.C04.Complete t)
    (hinc : Triangle.isIncremental t = true) (hcanon : ∀ c ∈ t, c.md.Canon) (hd : dates.Nodup)
    (hdates : ∀ e ∈ t, ∀ d ∈ dates, e.ps ≤ d → (emptyCell e d).datesOk = true)
    (hbeyond : ∀ e ∈ t, ∀ d ∈ dates, e.ps ≤ d → e.ev < d) :
    ∃ out, makeRightDiagonal t dates true = .ok out :=
  makeRightDiagonal_ok_inc_hist hC hinc hcanon hd hdates hbeyond

/-- closed instance: on C04's complete incremental triangle `exU` (observed up to 2022-12-31) the historic date
2021-12-31 makes `include_historic=True` raise `ValueError` (witness: the 2020 row of slice A, observed at 2022-12-31) -/
theorem exU_rightDiag_historic_raises :
    makeRightDiagonal Properties.C04.exU [⟨2021, 12, 31⟩, ⟨2024, 12, 31⟩] true = .error .valueError :=
  rightDiag_incremental_historic_raises (x := Properties.C04.exU[1]) (d := ⟨2021, 12, 31⟩)
    Properties.C04.exU_complete rfl (by decide +kernel) (by decide +kernel) (by decide +kernel)
    (List.getElem_mem _) (by decide) (by decide +kernel) (by decide +kernel)

/-- closed instance: dates beyond the observed right edge — `include_historic=True` returns on `exU` -/
theorem exU_rightDiag_historic_ok :
    ∃ out, makeRightDiagonal Properties.C04.exU [⟨2023, 12, 31⟩, ⟨2024, 12, 31⟩] true = .ok out :=
  rightDiag_total_incremental_historic Properties.C04.exU_complete rfl (by decide +kernel) (by decide +kernel)
    (by decide +kernel) (by decide +kernel)

/-! ### the day unit on a complete incremental triangle -/

/-- **rightTri_total_incremental_day**: `make_right_triangle(..., dev_lag_unit="day")` RETURNS on a complete
`IncrementalCell` triangle with canonical metadata, valid period-end / evaluation dates, integer and distinct requested
lags (or the slices' own lags), every result `period_end + lag days` inside `date.min .. date.max` (`hrange`), as soon as
no `CumulativeCell(...)` call raises (`hcells`). All hypotheses are on the observed triangle `t`. (`make_right_diagonal`
takes dates, not lags: `rightDiag_total_incremental` has no unit and no month-alignment hypothesis, so it needs no day
variant.) -/
theorem rightTri_total_incremental_day {t : List Cell} {lags : Option (List Rat)} (hC : Properties.C04.Complete t)
    (hinc : Triangle.isIncremental t = true) (hcanon : ∀ c ∈ t, c.md.Canon)
    (hval : ∀ c ∈ t, c.pe.valid = true ∧ c.ev.valid = true)
    (hint : ∀ l, lags = some l → ∀ lag ∈ l, ∃ k : Int, lag = ((k : Int) : Rat))
    (hnd : ∀ l, lags = some l → l.Nodup)
    (hrange : ∀ e ∈ t, ∀ l,
      ((∃ ls, lags = some ls ∧ l ∈ ls) ∨ (lags = none ∧ ∃ o ∈ t, o.md = e.md ∧ o.devLag .day = l)) →
      1 ≤ e.pe.ordinal + l.floor ∧ e.pe.ordinal + l.floor ≤ 3652059)
    (hcells : ∀ e ∈ t, ∀ l,
      ((∃ ls, lags = some ls ∧ l ∈ ls) ∨ (lags = none ∧ ∃ o ∈ t, o.md = e.md ∧ o.devLag .day = l)) →
      l > e.devLag .day → (emptyCell e (e.pe.addDays l.floor)).datesOk = true) :
    ∃ out, makeRightTriangleU t lags (some .day) = .ok out :=
  makeRightTriangle_ok_inc_day hC hinc hcanon hval hint hnd hrange hcells

/-- the hypotheses of `rightTri_total_incremental_day` hold for `exU` with the slices' own lags (in days) -/
theorem exU_rightTri_day_ok : ∃ out, makeRightTriangleU Properties.C04.exU none (some .day) = .ok out := by
  apply rightTri_total_incremental_day Properties.C04.exU_complete rfl (by decide +kernel) (by decide +kernel)
    (fun l hl => by cases hl) (fun l hl => by cases hl)
  · intro e he l hl
    rcases hl with ⟨ls, hls, _⟩ | ⟨_, o, ho, _, rfl⟩
    · cases hls
    · simp only [Properties.C04.exU, List.mem_cons, List.not_mem_nil, or_false] at he ho
      rcases he with rfl | rfl | rfl | rfl | rfl | rfl <;>
        rcases ho with rfl | rfl | rfl | rfl | rfl | rfl <;> decide +kernel
  · intro e he l hl hgt
    rcases hl with ⟨ls, hls, _⟩ | ⟨_, o, ho, _, rfl⟩
    · cases hls
    · simp only [Properties.C04.exU, List.mem_cons, List.not_mem_nil, or_false] at he ho
      rcases he with rfl | rfl | rfl | rfl | rfl | rfl <;>
        rcases ho with rfl | rfl | rfl | rfl | rfl | rfl <;> revert hgt <;> decide +kernel

/-! ### a requested lag that lands on an observed date: `make_right_triangle` on incremental input raises -/

/-- **rightTri_incremental_collision_raises**: on a complete `IncrementalCell` triangle (canonical metadata; unit month or
day; distinct requested lags `ls`; different requested lags beyond a cell's lag give different dates — `hinj`, needed so that
`to_incremental` of the new cells returns; no `CumulativeCell(...)` call raises — `hcells`), `make_right_triangle(ls, unit)`
RAISES `ValueError` as soon as a requested lag `l` that exceeds the lag of every observation of the row of `x` (so a cell is
created on that row) lands on a date `ev` that is not after `x`'s evaluation date. This is the non-monotone case: a fractional
day lag is floored by `date + timedelta` (`2020-01-31 + timedelta(29.5) = 2020-02-29`, lag 29.5 > 29). Mechanism as for
`rightDiag_incremental_historic_raises` (confirmed on /repo: `ValueError: evaluation_date must be >
prev_evaluation_date`): every stage up to `to_incremental` returns, `_fix_prev_evaluation_date` re-links the first new cell
of the row to the observed right-edge date and the `IncrementalCell` constructor refuses it. (On CUMULATIVE input the same
request returns and re-creates the occupied coordinate — see `LagMonotone`.) -/
theorem rightTri_incremental_collision_raises {t : List Cell} {ls : List Rat} {u : LagUnit} (hu : u ≠ .timedelta)
    (hC : Properties.C04.Complete t) (hinc : Triangle.isIncremental t = true) (hcanon : ∀ c ∈ t, c.md.Canon)
    (hnd : ls.Nodup)
    (hinj : ∀ e ∈ t, ∀ l1 ∈ ls, ∀ l2 ∈ ls, l1 > e.devLag u → l2 > e.devLag u →
      addDevLag e.pe l1 u = addDevLag e.pe l2 u → l1 = l2)
    (hcells : ∀ e ∈ t, ∀ l ∈ ls, l > e.devLag u → ∀ ev, addDevLag e.pe l u = .ok ev →
      (emptyCell e ev).datesOk = true)
    {x : Cell} {l : Rat} {ev : Date} (hx : x ∈ t) (hl : l ∈ ls)
    (hgt : ∀ o ∈ t, rowKey o = rowKey x → l > o.devLag u)
    (hev : addDevLag x.pe l u = .ok ev) (hnot : ¬ x.ev < ev) :
    makeRightTriangleU t (some ls) (some u) = .error .valueError :=
  makeRightTriangle_error_inc_collision hu hC hinc hcanon hnd hinj hcells hx hl hgt hev hnot

/-- closed instance: on `exU` (row A/2020 observed at 2020-12-31 and 2022-12-31, lags 0 and 730 days) the requested day lag
730.5 exceeds both lags and lands on 2022-12-31 again — `make_right_triangle([730.5], "day")` raises `ValueError` -/
theorem exU_rightTri_collision_raises :
    makeRightTriangleU Properties.C04.exU (some [(1461 : Rat) / 2]) (some .day) = .error .valueError := by
  refine rightTri_incremental_collision_raises (x := Properties.C04.exU[1]) (l := (1461 : Rat) / 2)
    (ev := ⟨2022, 12, 31⟩) (by decide) Properties.C04.exU_complete rfl (by decide +kernel) (by decide +kernel) ?_ ?_
    (List.getElem_mem _) (by simp) (by decide +kernel) (by decide +kernel) (by decide +kernel)
  · intro e _ l1 h1 l2 h2 _ _ _
    simp only [List.mem_cons, List.not_mem_nil, or_false] at h1 h2
    rw [h1, h2]
  · intro e he l hl hgt ev hev
    simp only [List.mem_cons, List.not_mem_nil, or_false] at hl
    subst hl
    cases hev
    simp only [Properties.C04.exU, List.mem_cons, List.not_mem_nil, or_false] at he
    rcases he with rfl | rfl | rfl | rfl | rfl | rfl <;> decide +kernel

/-! ### a date requested twice -/

/-- **rightDiag_duplicate_dates_cumulative**: `make_right_diagonal` (default flag) on a cumulative / plain `Cell` triangle
does NOT deduplicate the requested dates: when the call returns and a date `d` is listed twice (`[d, d]` is a sublist of
`dates`), is not before the period start of an observed cell `x` and lies after every observation of `x`'s slice, the
result contains one cell twice (`¬ out.Nodup`; the clause `nodup` of the Spec is stated under `dates.Nodup`). Confirmed on
/repo: the call returns two equal empty cells and warns `DuplicateCellWarning`; model and library agree. On INCREMENTAL
input the same request raises `ValueError` in the library and in the model (`to_incremental` links the second copy to the
first: `evaluation_date <= prev_evaluation_date`) — observed through the driver, not stated as a theorem. -/
theorem rightDiag_duplicate_dates_cumulative {t out : List Cell} {dates : List Date}
    (hinc : Triangle.isIncremental t = false) (h : makeRightDiagonal t dates false = .ok out)
    {x : Cell} {d : Date} (hx : x ∈ t) (hdup : List.Sublist [d, d] dates) (hle : x.ps ≤ d)
    (hafter : ∀ o ∈ t, o.md = x.md → o.ev < d) : ¬ out.Nodup :=
  makeRightDiagonal_dup_cum hinc h hx hdup hle hafter

/-- closed instance: `exCells` with 2020-12-31 requested twice — the model returns and the result has a repeated cell -/
theorem exCells_rightDiag_duplicate_dates :
    ∃ out, makeRightDiagonal exCells [⟨2020, 12, 31⟩, ⟨2020, 12, 31⟩] false = .ok out ∧ ¬ out.Nodup := by
  obtain ⟨out, h⟩ := makeRightDiagonal_ok (t := exCells) (dates := [⟨2020, 12, 31⟩, ⟨2020, 12, 31⟩])
    (hist := false) (by decide +kernel) rfl (by decide +kernel)
  exact ⟨out, h, rightDiag_duplicate_dates_cumulative rfl h (x := exCells[0]) (d := ⟨2020, 12, 31⟩)
    (by decide +kernel) (List.Sublist.refl _) (by decide +kernel) (by decide +kernel)⟩

/-! ### two requested day lags floored onto one date (cumulative input) -/

/-- **rightTri_duplicate_lags_cumulative**: `make_right_triangle(ls, "day")` on a cumulative / plain `Cell` triangle does
not deduplicate by DATE: when the call returns and two requested lags `l1`, `l2` (in this order in `ls`), both beyond every lag
of the row of an observed cell `x`, are floored by `date + timedelta` onto the same date, the result contains one cell twice
(`¬ out.Nodup`; the clause `nodup` of the Spec is stated under `LagInj`). Confirmed on /repo (`[30.2, 30.7]` days: two equal
empty cells at 2020-03-01, `DuplicateCellWarning`); model and library agree. On INCREMENTAL input the same request raises
`ValueError` in the library and in the model (`to_incremental`: `evaluation_date <= prev_evaluation_date` for the second
copy) — observed through the driver, not stated as a theorem. -/
theorem rightTri_duplicate_lags_cumulative {t out : List Cell} {ls : List Rat}
    (hinc : Triangle.isIncremental t = false) (h : makeRightTriangleU t (some ls) (some .day) = .ok out)
    {x : Cell} {l1 l2 : Rat} (hx : x ∈ t) (hdup : List.Sublist [l1, l2] ls)
    (hgt : ∀ o ∈ t, rowKey o = rowKey x → l1 > o.devLag .day ∧ l2 > o.devLag .day)
    (hsame : x.pe.addDays l1.floor = x.pe.addDays l2.floor) : ¬ out.Nodup :=
  makeRightTriangle_dup_cum_day hinc h hx hdup hgt hsame

/-- closed instance: `exCells` with the day lags 100.2 and 100.7 — the model returns and the result has a repeated cell -/
theorem exCells_rightTri_duplicate_lags :
    ∃ out, makeRightTriangleU exCells (some [(501 : Rat) / 5, (1007 : Rat) / 10]) (some .day) = .ok out ∧
      ¬ out.Nodup := by
  obtain ⟨out, h⟩ : ∃ out, makeRightTriangleU exCells (some [(501 : Rat) / 5, (1007 : Rat) / 10]) (some .day)
      = .ok out := by
    apply makeRightTriangle_ok (by decide) (by decide +kernel) rfl
    intro e he l hl hgt ev hev
    rcases hl with ⟨ls, hls, hl⟩ | ⟨hn, _⟩
    · cases hls
      cases hev
      simp only [List.mem_cons, List.not_mem_nil, or_false] at hl
      simp only [exCells, List.mem_cons, List.not_mem_nil, or_false] at he
      rcases he with rfl | rfl | rfl <;> rcases hl with rfl | rfl <;> decide +kernel
    · cases hn
  exact ⟨out, h, rightTri_duplicate_lags_cumulative rfl h (x := exCells[0]) (l1 := (501 : Rat) / 5)
    (l2 := (1007 : Rat) / 10) (by decide +kernel) (List.Sublist.refl _) (by decide +kernel) (by decide +kernel)⟩

end Bermuda.Properties.C15
