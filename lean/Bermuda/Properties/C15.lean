/-
C15 — extension operators only add well-placed cells, never touch observed data.
-/
import Bermuda.Model.Extend
import Bermuda.Spec.C15
namespace Bermuda.Properties.C15
open Bermuda Bermuda.Extend

theorem emptyCell_values (c : Cell) (d : Date) : (emptyCell c d).values = [] := rfl

end Bermuda.Properties.C15
