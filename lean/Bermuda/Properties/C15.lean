/-
C15 — extension operators only add well-placed cells, never touch observed data.
Only property theorems live here (helper lemmas: `Lemmas/Extend.lean`).

Proved: the right triangle and the right diagonal on a cumulative (`Cell` / `CumulativeCell`) input
(`*_partial`: the incremental path — `to_cumulative`, `to_incremental`, `_fix_prev_evaluation_date` —
is covered by the correspondence and the Spec on the implementation's output, not by a theorem), and
the structure of `backfill`. Statements not proved are kept below as `-- OPEN` comments.
-/
import Bermuda.Lemmas.Extend
import Bermuda.Lemmas.ExtendFill
import Bermuda.Spec.C15
namespace Bermuda.Properties.C15
open Bermuda Bermuda.Extend

/-! ### `make_right_triangle` -/

section RightTriangle
variable {t out : List Cell} {lags : Option (List Rat)} {u : LagUnit}

/-- **rightTri_lags_exact_partial** (cumulative input). The result consists exactly of the cells
`emptyCell e (period_end + lag)` for a slice of the triangle, `e` a right-edge cell of the slice (the
latest observation of its row, `RightTriCell.row`) and `lag` ranging over the slice's lag list (the
requested list, or the slice's own lags) restricted to `lag > e.dev_lag`. -/
theorem rightTri_lags_exact_partial (hinc : Triangle.isIncremental t = false) (h : makeRightTriangleU t lags (some u) = .ok out) (c : Cell) :
    c ∈ out ↔ RightTriCell t lags u c := by
  obtain ⟨new, hnew, hperm⟩ := makeRightTriangle_cum hinc h
  rw [hperm.mem_iff]
  exact rightTriangleCells_mem hnew c

/-- **rightTri_metadata_partial** (cumulative input): every added cell carries the metadata and period of an
observed cell — the latest observation of that slice row -/
theorem rightTri_metadata_partial (hinc : Triangle.isIncremental t = false) (h : makeRightTriangleU t lags (some u) = .ok out) {c : Cell} (hc : c ∈ out) :
    ∃ e ∈ t, c.md = e.md ∧ c.ps = e.ps ∧ c.pe = e.pe ∧
      ∀ o ∈ t, o.md = e.md → o.ps = e.ps → o.pe = e.pe → Date.cmp o.ev e.ev ≠ .gt := by
  obtain ⟨e, he, hce, hlatest, _⟩ := ((rightTri_lags_exact_partial hinc h c).mp hc).row
  refine ⟨e, he, ?_, ?_, ?_, hlatest⟩ <;> (rw [hce]; rfl)

/-- **rightTri_values_empty_partial** (cumulative input) -/
theorem rightTri_values_empty_partial (hinc : Triangle.isIncremental t = false)
    (h : makeRightTriangleU t lags (some u) = .ok out) :
    ∀ c ∈ out, c.values = [] := by
  intro c hc
  obtain ⟨e, _, hce, _⟩ := ((rightTri_lags_exact_partial hinc h c).mp hc).row
  rw [hce]; rfl

/-- **rightTri_basis_partial** (cumulative input): the added cells are cumulative cells -/
theorem rightTri_basis_partial (hinc : Triangle.isIncremental t = false)
    (h : makeRightTriangleU t lags (some u) = .ok out) :
    ∀ c ∈ out, c.kind = .cumulative ∧ c.prev = none := by
  intro c hc
  obtain ⟨e, _, hce, _⟩ := ((rightTri_lags_exact_partial hinc h c).mp hc).row
  rw [hce]; exact ⟨rfl, rfl⟩

/-- **rightTri_empty_when_complete_partial** (cumulative input): if no slice has a lag beyond the lag of one of
its right-edge cells, the result is the empty triangle -/
theorem rightTri_empty_when_complete_partial (hinc : Triangle.isIncremental t = false)
    (h : makeRightTriangleU t lags (some u) = .ok out)
    (hcomplete : ∀ p ∈ Triangle.slices t, ∀ e ∈ p.2, ∀ lag ∈ lagListOf lags u p.2, ¬ lag > e.devLag u) :
    out = [] := by
  apply List.eq_nil_iff_forall_not_mem.mpr
  intro c hc
  obtain ⟨p, hp, edge, hedge, e, he, lag, hlag, hgt, _⟩ := (rightTri_lags_exact_partial hinc h c).mp hc
  exact hcomplete p hp e (rightEdge_latest hedge he).1 lag hlag hgt

/-- **rightTri_disjoint_partial** (cumulative input, month unit, month-aligned triangle from 1970 on, integer
lags): every added cell lies strictly after every observation of its slice row; in particular no
added coordinate is occupied. -/
theorem rightTri_disjoint_partial (hinc : Triangle.isIncremental t = false)
    (h : makeRightTriangleU t lags (some .month) = .ok out)
    (hal : ∀ c ∈ t, MonthAligned c)
    (hint : ∀ p ∈ Triangle.slices t, ∀ lag ∈ lagListOf lags .month p.2, ∃ k : Int, lag = ((k : Int) : Rat))
    {c o : Cell} (hc : c ∈ out) (ho : o ∈ t) (hmd : o.md = c.md) (hps : o.ps = c.ps) (hpe : o.pe = c.pe) :
    o.ev < c.ev := by
  obtain ⟨e, he, hce, hlatest, p, hp, _, lag, hlag, hgt, hev⟩ := ((rightTri_lags_exact_partial hinc h c).mp hc).row
  obtain ⟨k, rfl⟩ := hint p hp lag hlag
  have h1 : c.md = e.md := by rw [hce]; rfl
  have h2 : c.ps = e.ps := by rw [hce]; rfl
  have h3 : c.pe = e.pe := by rw [hce]; rfl
  have hle := hlatest o ho (hmd.trans h1) (hps.trans h2) (hpe.trans h3)
  have hlt := addMonths_after (hal e he) hgt
  have hev' : addMonths e.pe ((k : Int) : Rat) = c.ev := Except.ok.inj hev
  rw [← hev']
  exact Date.lt_of_not_gt_of_lt hle hlt

end RightTriangle

/-- **rightDiag_spec_partial** (cumulative input, `include_historic = False`): the result consists exactly of
the empty cumulative cells on the rows of the slices' right-edge cells at the requested dates that lie
after the slice's latest evaluation date (and not before the period start); every such cell carries the
metadata and period of an observed row and lies strictly after every observation of its slice — so no
added coordinate is occupied. -/
theorem rightDiag_spec_partial {t out : List Cell} {dates : List Date}
    (hinc : Triangle.isIncremental t = false) (h : makeRightDiagonal t dates false = .ok out) :
    (∀ c, c ∈ out ↔ RightDiagCell t dates false c) ∧
    (∀ c ∈ out, ∃ e ∈ t, c = emptyCell e c.ev ∧ c.ev ∈ dates ∧ e.ps ≤ c.ev ∧
      ∀ o ∈ t, o.md = c.md → o.ev < c.ev) := by
  obtain ⟨new, hnew, hperm⟩ := makeRightDiagonal_cum hinc h
  have hiff : ∀ c, c ∈ out ↔ RightDiagCell t dates false c := fun c => by
    rw [hperm.mem_iff]; exact rightDiagonalCells_mem hnew c
  refine ⟨hiff, ?_⟩
  intro c hc
  obtain ⟨p, hp, edge, hedge, e, he, d, hd, hle, rfl⟩ := (hiff c).mp hc
  obtain ⟨hep, _⟩ := rightEdge_latest hedge he
  obtain ⟨het, hem⟩ := (slices_spec hp e).mp hep
  -- the kept dates exceed the slice's latest evaluation date
  have hne : p.2 ≠ [] := List.ne_nil_of_mem hep
  obtain ⟨m, hm⟩ : ∃ m, maxEval p.2 = some m := by
    cases hp2 : p.2 with
    | nil => exact absurd hp2 hne
    | cons a rest => exact ⟨_, rfl⟩
  simp only [diagDatesOf, Bool.false_eq_true, if_false, hm, List.mem_filter, decide_eq_true_eq] at hd
  refine ⟨e, het, rfl, hd.1, hle, ?_⟩
  intro o ho hmd
  have hop : o ∈ p.2 := (slices_spec hp o).mpr ⟨ho, hmd.trans hem⟩
  exact Date.lt_of_not_gt_of_lt (maxEval_ge hm o hop) hd.2

/-! ### `backfill` -/

/-- **backfill_preserves_observed**: the result is a rearrangement of the observed cells together with
the added ones — no observed cell is dropped, duplicated or altered. -/
theorem backfill_preserves_observed {t out : List Cell} {statics : List String} {res? : Option Int}
    {minLag : Int} (h : backfill t statics res? minLag = .ok out) :
    ∃ added, out.Perm (t ++ added) ∧ ∀ c ∈ t, c ∈ out := by
  unfold backfill at h
  cases hpr : periodResolution t with
  | none => simp [hpr, bind, Except.bind, throw, throwThe, MonadExceptOf.throw] at h
  | some pres =>
    simp only [hpr, bind, Except.bind, pure, Except.pure] at h
    split at h
    · cases h
    · split at h
      · cases h
      · rename_i addTri hadd
        unfold Triangle.add at h
        have hperm := Properties.C01.ofCells_perm h
        exact ⟨addTri, hperm, fun c hc => hperm.mem_iff.mpr (List.mem_append_left _ hc)⟩

/-- **backfill_added_before_first / backfill_values** (structure): the result is a rearrangement of the
observed cells and added cells; every added cell is a copy of the first cell `first` of a period row
(the earliest observation of the period's first slice: same metadata, period, class and previous
date) with the replacement values and evaluation date `period_end + (first_lag - (i+1)·res)`,
`i < backfillSteps`, for the (given or inferred) resolution `res > 0`. -/
theorem backfill_added_before_first {t out : List Cell} {statics : List String} {res? : Option Int}
    {minLag : Int} (h : backfill t statics res? minLag = .ok out) :
    ∃ added pres, periodResolution t = some pres ∧ out.Perm (t ++ added) ∧
      ∀ a ∈ added, ∃ row ∈ periodRows t, ∃ first, row.2.head? = some first ∧
        ∃ repl, replacementValues first statics = .ok repl ∧
        ∃ res, (match res? with | some r => some r | none => evalDateResolution t) = some res ∧ 0 < res ∧
        ∃ i, i < backfillSteps first.devLag res (max minLag (-pres + 1)) ∧
          a = backfillCell first repl res i := by
  unfold backfill at h
  cases hpr : periodResolution t with
  | none => simp [hpr, bind, Except.bind, throw, throwThe, MonadExceptOf.throw] at h
  | some pres =>
    simp only [hpr, bind, Except.bind, pure, Except.pure] at h
    split at h
    · cases h
    · rename_i parts hparts
      split at h
      · cases h
      · rename_i addTri hadd
        unfold Triangle.add at h
        refine ⟨addTri, pres, rfl, Properties.C01.ofCells_perm h, ?_⟩
        intro a ha
        have ha' := (Properties.C01.ofCells_perm hadd).mem_iff.mp ha
        obtain ⟨row, hrow, ys, hys, hay⟩ := (mapM_flatten_mem hparts a).mp ha'
        obtain ⟨first, hf, repl, hrepl, res, hres, hpos, i, hi, rfl⟩ := backfillRow_mem hys hay
        exact ⟨row, hrow, first, hf, repl, hrepl, res, hres, hpos, i, hi, rfl⟩

/-- **backfill_min_lag** (lower bound): the lag of every added cell is at least the requested minimum
lag and at least `-period_resolution + 1`; it is strictly below the row's first lag. -/
theorem backfill_min_lag {cur : Rat} {res lo : Int} {i : Nat} (hres : 0 < res)
    (hi : i < backfillSteps cur res lo) :
    (lo : Rat) ≤ cur - (((i : Int) + 1 : Int) : Rat) * (res : Rat) ∧
    cur - (((i : Int) + 1 : Int) : Rat) * (res : Rat) < cur := by
  have hr : (0 : Rat) < (res : Rat) := by exact_mod_cast hres
  have hi1 : (0 : Rat) < (((i : Int) + 1 : Int) : Rat) := by
    have : (0 : Int) < (i : Int) + 1 := by omega
    exact_mod_cast this
  refine ⟨?_, by nlinarith⟩
  unfold backfillSteps at hi
  have hfl : ((i : Int) + 1 : Int) ≤ ((cur - (lo : Rat)) / (res : Rat)).floor := by omega
  have h1 : ((((cur - (lo : Rat)) / (res : Rat)).floor : Int) : Rat) ≤ (cur - (lo : Rat)) / (res : Rat) := by
    show ((⌊(cur - (lo : Rat)) / (res : Rat)⌋ : Int) : Rat) ≤ _
    exact Int.floor_le _
  have h2 : (((i : Int) + 1 : Int) : Rat) ≤ (cur - (lo : Rat)) / (res : Rat) := by
    have : (((i : Int) + 1 : Int) : Rat) ≤ ((((cur - (lo : Rat)) / (res : Rat)).floor : Int) : Rat) := by
      exact_mod_cast hfl
    linarith
  rw [le_div_iff₀ hr] at h2
  linarith

/-- **backfill_values**: the values of a backfilled cell have the keys of the row's first observation;
a static field carries that observation's value, every other field is the integer 0 — no invented
losses. -/
theorem backfill_values {first : Cell} {statics : List String} {repl : Dict Val}
    (h : replacementValues first statics = .ok repl) :
    repl.keys = first.values.keys ∧
    ∀ kv ∈ repl, (kv.1 ∈ statics ∧ first.values.get? kv.1 = some kv.2) ∨
                 (kv.1 ∉ statics ∧ kv.2 = Val.int 0) := by
  have hinit : ReplInv first [] (first.values.map fun kv => (kv.1, Val.int 0)) := by
    constructor
    · simp [Dict.keys, List.map_map, Function.comp]
    · intro kv hkv
      obtain ⟨p, _, rfl⟩ := List.mem_map.mp hkv
      right; simp
  have := replFold statics [] _ repl hinit h
  rw [List.nil_append] at this
  exact this

/-! ### `fill_forward_gaps` -/

/-- **fill_preserves_observed**: when no two cells of a slice row share a development lag (the rows are
keyed by lag in a dict), every observed cell is in the output, unchanged. -/
theorem fill_preserves_observed {t out : List Cell} {res? : Option Int} {nf : Bool}
    (h : fillForwardGaps t res? nf = .ok out)
    (hnd : ∀ r ∈ slicePeriodRows t, r.2.Pairwise (fun a b => a.devLag ≠ b.devLag)) :
    ∀ c ∈ t, c ∈ out := by
  intro c hc
  obtain ⟨r, hr, _, hcr⟩ := row_of_mem hc
  rcases fillForwardGaps_ok h with ⟨hempty, _⟩ | ⟨res, parts, _, hparts, hperm⟩
  · rw [hempty] at hr; cases hr
  · obtain ⟨ys, hys, hfy⟩ := mapM_ok_mem' hparts r hr
    exact hperm.mem_iff.mpr (List.mem_flatten.mpr ⟨ys, hys, fillRow_preserves hfy (hnd r hr) c hcr⟩)

/-- **fill_added_inside_gaps**: for a positive resolution (given or inferred) on whose grid all observed
lags of every slice row lie, every cell of the output is an observed cell or a fill cell of one slice
row (`FillCellOf`): same metadata and period as the row, at an unobserved grid lag strictly between the
row's first and last observed lag. -/
theorem fill_added_inside_gaps {t out : List Cell} {res? : Option Int} {nf : Bool} {res : Int}
    (h : fillForwardGaps t res? nf = .ok out) (hres : resolvedRes t res? = some res) (hpos : 0 < res)
    (hgrid : ∀ r ∈ slicePeriodRows t, GridRow res r.2) :
    ∀ c ∈ out, c ∈ t ∨ ∃ r ∈ slicePeriodRows t, FillCellOf res nf r.2 c := by
  intro c hc
  rcases fillForwardGaps_ok h with ⟨_, rfl⟩ | ⟨res', parts, hres', hparts, hperm⟩
  · cases hc
  · rw [hres] at hres'; cases hres'
    obtain ⟨ys, hys, hcy⟩ := List.mem_flatten.mp (hperm.mem_iff.mp hc)
    obtain ⟨r, hr, hfy⟩ := mapM_ok_mem hparts ys hys
    rcases fillRow_cells hpos (hgrid r hr) hfy c hcy with hrow | hfill
    · exact Or.inl ((mem_row_iff hr c).mp hrow).1
    · exact Or.inr ⟨r, hr, hfill⟩

/-- **fill_values**: a fill cell carries no invented values: it is the observation `o` of its row with
the greatest lag below its own, moved to the new evaluation date — same metadata, period, class and
previous date; its values are those of `o`, or (with `fill_with_none`) the same keys all `None`. -/
theorem fill_values {res : Int} {nf : Bool} {row : List Cell} {c : Cell} (h : FillCellOf res nf row c) :
    ∃ o ∈ row, ∃ lag : Int, o.devLag < (lag : Rat) ∧
      (∀ o' ∈ row, o'.devLag ≤ (lag : Rat) → o'.devLag ≤ o.devLag) ∧
      c.md = o.md ∧ c.ps = o.ps ∧ c.pe = o.pe ∧ c.kind = o.kind ∧ c.prev = o.prev ∧
      c.ev = addMonths o.pe (lag : Rat) ∧
      c.values = (if nf then o.values.map fun (kv : String × Val) => (kv.1, Val.none) else o.values) := by
  obtain ⟨f, l, _, _, lag, _, _, _, _, o, ho, hlt, hnear, rfl⟩ := h
  refine ⟨o, ho, lag, hlt, hnear, ?_⟩
  cases nf <;> simp [fillCell]

/-! ### non-vacuity: a concrete month-aligned two-row triangle meets the hypotheses -/

def exCells : List Cell :=
  [ { kind := .cumulative, ps := ⟨2020, 1, 1⟩, pe := ⟨2020, 3, 31⟩, ev := ⟨2020, 3, 31⟩, values := [("paid_loss", .int 1)] },
    { kind := .cumulative, ps := ⟨2020, 1, 1⟩, pe := ⟨2020, 3, 31⟩, ev := ⟨2020, 6, 30⟩, values := [("paid_loss", .int 2)] },
    { kind := .cumulative, ps := ⟨2020, 4, 1⟩, pe := ⟨2020, 6, 30⟩, ev := ⟨2020, 6, 30⟩, values := [("paid_loss", .int 3)] } ]

theorem exCells_aligned : ∀ c ∈ exCells, MonthAligned c := by
  intro c hc
  simp only [exCells, List.mem_cons, List.not_mem_nil, or_false] at hc
  rcases hc with rfl | rfl | rfl <;> (unfold MonthAligned; decide)

theorem exCells_cumulative : Triangle.isIncremental exCells = false := rfl

/-- `backfill_min_lag` is not vacuous: first lag 3, resolution 1, bound 0 gives three steps -/
example : 2 < backfillSteps 3 1 0 := by decide +kernel

/-- `backfill_values` is not vacuous: losses become 0, the static field is carried -/
def exFirst : Cell :=
  { ps := ⟨2020, 1, 1⟩, pe := ⟨2020, 1, 31⟩, ev := ⟨2020, 3, 31⟩, values := [("paid_loss", .int 5), ("earned_premium", .int 100)] }

example : replacementValues exFirst ["earned_premium"]
    = .ok [("paid_loss", .int 0), ("earned_premium", .int 100)] := by decide +kernel

-- (`makeRightTriangleU exCells none (some .month)` evaluates to the three cells 2020-Q1@2020-09-30 … in
-- `#eval`; the kernel cannot reduce `mergeSort`/`Rat` terms of that size, so the instance is exercised by
-- the correspondence harness instead.)


/-! ### statements not proved (covered by the correspondence + Spec on the implementation's output) -/

-- OPEN rightTri_lags_exact
--   the statement of `rightTri_lags_exact_partial` for an incremental input `t`, with the cells read off
--   `cum` where `Triangle.toCumulative t = .ok cum`, and each added cell an incremental cell:
--   makeRightTriangle t lags unit = .ok out → Triangle.toCumulative t = .ok cum →
--     (out.map fun c => (c.md, c.ps, c.pe, c.ev)).Perm (new.map ...)  for  rightTriangleCells cum lags unit = .ok new
-- OPEN rightTri_metadata
--   as `rightTri_metadata_partial` without `hinc`
-- OPEN rightTri_values_empty
--   ∀ t lags unit out, makeRightTriangle t lags unit = .ok out → ∀ c ∈ out, c.values = []   (incremental input included)
-- OPEN rightTri_basis
--   makeRightTriangle t lags unit = .ok out → Triangle.isIncremental t = true → ∀ c ∈ out, c.kind = .incremental ∧ c.prev.isSome
-- OPEN rightTri_disjoint
--   as `rightTri_disjoint_partial` for the day unit, for fractional lags, and for incremental input
-- OPEN rightTri_incremental_chain
--   makeRightTriangle t lags unit = .ok out → Triangle.isIncremental t = true → Spec.C15.chainOk t out = true
--   (first added cell of a row: prev = the row's observed right-edge evaluation date; later ones: prev = previous added date)
-- OPEN rightTri_empty_when_complete
--   as `rightTri_empty_when_complete_partial` for incremental input (holds in /repo since the D12 fix)
-- OPEN rightDiag_spec
--   as `rightDiag_spec_partial` for incremental input, plus the chain clause
-- OPEN backfill_before_first_dates
--   under month alignment the evaluation date of every added cell precedes the row's first observation:
--   (∀ c ∈ t, MonthAligned c) → ... → a = backfillCell first repl res i → a.ev < first.ev
-- OPEN backfill_min_lag_exact
--   for the first slice of every period ALL lags first - k·res ≥ max(min_dev_lag, -period_resolution+1) are supplied
--   (Spec.C15.backfillMinLag); needs `takeValid` = identity, i.e. every such cell passes the constructor
-- OPEN extensionSpec_model
--   the Spec predicates hold of the model's outputs:
--   makeRightTriangle t lags unit = .ok out → LagUnit.parse? unit = some u → Spec.C15.allHold (Spec.C15.rightTriSpec t lags u out) = true
--   (and the analogues for rightDiagSpec, fillSpec, backfillSpec)

end Bermuda.Properties.C15
