/-
C16 — Blending is a per-cell convex combination or mixture of the inputs.
Only property theorems live here (helper lemmas: `Lemmas/Blend.lean`).

PARTIAL by design: numpy's RNG is a parameter of the model (`idx`), so "the choice follows the
weights" and "reproducible for a seed" are outside these theorems (observed by the harness).
Everything structural and algebraic is inside.
-/
import Bermuda.Model.Blend
import Bermuda.Spec.C16
import Bermuda.Lemmas.Blend
import Bermuda.Lemmas.BlendCore
import Bermuda.Lemmas.BlendSpec
import Bermuda.Lemmas.BlendBridge
namespace Bermuda.Properties.C16
open Bermuda Bermuda.Blend

/-! ### 1. linear blending: the value -/

/-- **linear_value.** A successful linear blend is the float array of the broadcast length `S`
whose entry `s` is `Σ_j w_j · v_j[s]`, scalars and length-1 arrays being broadcast; every input row has length
exactly 1 or exactly `S`, so no entry read by `bcast` (`getD … 0`) is a default. -/
theorem linear_value {vals : List Val} {w : List Rat} {out : Val}
    (h : linearBlend vals w = .ok out) :
    ∃ rows, mapE rowOf vals = .ok rows ∧
      out = .arr false [maxLen rows] (linearOut rows w (maxLen rows)) ∧
      (linearOut rows w (maxLen rows)).length = maxLen rows ∧
      (∀ r ∈ rows, r.length = 1 ∨ r.length = maxLen rows) ∧
      ∀ s (hs : s < (linearOut rows w (maxLen rows)).length),
        (linearOut rows w (maxLen rows))[s] = dot w (rows.map (bcast · s)) :=
  linear_value_core h

/-- entry `s` of the matched column of one input: its only sample if it has one, else sample `s` -/
theorem bcast_def (row : List Rat) (s : Nat) :
    bcast row s = if row.length = 1 then row.getD 0 0 else row.getD s 0 := rfl

/-- **linear_convex.** With non-negative weights summing to one, every output sample lies between
any lower and upper bound of the inputs' samples at that position — in particular between their
minimum and maximum. -/
theorem linear_convex {vals : List Val} {w : List Rat} {rows : List (List Rat)}
    (hrows : mapE rowOf vals = .ok rows) (hlen : w.length = vals.length)
    (hw : ∀ x ∈ w, 0 ≤ x) (hsum : sumW w = 1) (s : Nat) (lo hi : Rat)
    (hb : ∀ x ∈ rows.map (bcast · s), lo ≤ x ∧ x ≤ hi) :
    lo ≤ dot w (rows.map (bcast · s)) ∧ dot w (rows.map (bcast · s)) ≤ hi := by
  have hl : w.length = (rows.map (bcast · s)).length := by
    rw [List.length_map, mapE_ok_length hrows, hlen]
  have h1 := le_dot_of_le w _ lo hw (fun x hx => (hb x hx).1) hl
  have h2 := dot_le_of_le w _ hi hw (fun x hx => (hb x hx).2) hl
  rw [hsum] at h1 h2
  constructor <;> linarith

/-- **linear_agree.** If all inputs agree at a position and the weights sum to one, the output
is the common value. -/
theorem linear_agree {vals : List Val} {w : List Rat} {rows : List (List Rat)}
    (hrows : mapE rowOf vals = .ok rows) (hlen : w.length = vals.length)
    (hsum : sumW w = 1) (s : Nat) (v : Rat) (hv : ∀ x ∈ rows.map (bcast · s), x = v) :
    dot w (rows.map (bcast · s)) = v := by
  have hl : w.length = (rows.map (bcast · s)).length := by
    rw [List.length_map, mapE_ok_length hrows, hlen]
  rw [dot_const w _ v hv hl, hsum]; ring

/-- non-vacuity: a scalar (broadcast) and a 2-sample array with weights 1/4, 3/4 -/
example : linearBlend [.int 4, .arr false [2] [8, 12]] [1/4, 3/4] = .ok (.arr false [2] [7, 10]) := by
  decide +kernel

/-! ### 2. weights: per-cell alignment -/

/-- **percell_alignment.** With a dictionary whose concatenated rows have as many columns as the
first triangle has cells (and more than one), cell `i` is blended with COLUMN `i` of the weight
matrix: entry `j` of its weight vector is row `j`'s `i`-th number. -/
theorem percell_alignment {vals : List WArr} {n : Nat} {r0 : List Rat} {rs : List (List Rat)}
    (hrows : vals.flatMap WArr.atleast2d = r0 :: rs)
    (hrect : (r0 :: rs).all (·.length == r0.length) = true)
    (hn : r0.length = n) (h1 : n ≠ 1) :
    ∃ wl, weightList (.dict vals) n = .ok wl ∧ wl.length = n ∧
      ∀ i (hi : i < wl.length), wl[i] = some ((r0 :: rs).map (·.getD i 0)) := by
  refine ⟨(List.range n).map fun j => some (column (r0 :: rs) j), ?_, by simp, ?_⟩
  · simp only [weightList, hrows]
    rw [if_pos hrect]
    subst hn
    simp [h1]
  · intro i hi
    simp [column]

/-- a single column is used for every cell -/
theorem global_weights {vals : List WArr} {n : Nat} {r0 : List Rat} {rs : List (List Rat)}
    (hrows : vals.flatMap WArr.atleast2d = r0 :: rs)
    (hrect : (r0 :: rs).all (·.length == r0.length) = true) (h1 : r0.length = 1) :
    weightList (.dict vals) n = .ok (List.replicate n (some ((r0 :: rs).map (·.getD 0 0)))) := by
  simp only [weightList, hrows]
  rw [if_pos hrect]
  simp [h1, column]

theorem list_weights (l : List Rat) (n : Nat) :
    weightList (.list l) n = .ok (List.replicate n (some l)) := rfl

/-- a dictionary with any other number of columns is refused -/
theorem dict_wrong_columns_refused {vals : List WArr} {n : Nat} {r0 : List Rat} {rs : List (List Rat)}
    (hrows : vals.flatMap WArr.atleast2d = r0 :: rs) (h1 : r0.length ≠ 1) (hn : r0.length ≠ n) :
    weightList (.dict vals) n = .error .valueError := by
  simp only [weightList, hrows]
  split
  · simp [h1, hn]
  · rfl

/-! ### 3. mixture blending -/

/-- **mixture_membership.** For EVERY index vector with entries below the number of inputs, a
successful mixture blend is a float array of the inputs' common length `S` whose sample `i` is
the sample AT THE SAME INDEX `i` of input `idx[i]`. -/
theorem mixture_membership {vals : List Val} {w : List Rat} {idx : List Nat} {out : Val}
    (h : mixtureBlend vals w idx = .ok out) :
    ∃ (rows : List (List Rat)) (S : Nat) (data : List Rat),
      mapE samplesOf vals = .ok rows ∧ (∀ r ∈ rows, r.length = S) ∧
      out = .arr false [S] data ∧ data.length = S ∧
      ∀ i (hi : i < data.length) (j : Nat) (hj : j < rows.length), idx.getD i 0 = j →
        data[i] = (rows[j]).getD i 0 :=
  mixture_membership_core h

/-- the membership in the form of the Spec: every output sample occurs at the same index in
some input (whatever the index vector, as long as it stays in range) -/
theorem mixture_membership_exists {vals : List Val} {w : List Rat} {idx : List Nat} {out : Val}
    (h : mixtureBlend vals w idx = .ok out) (hidx : ∀ i, idx.getD i 0 < vals.length) :
    ∃ (rows : List (List Rat)) (S : Nat) (data : List Rat),
      mapE samplesOf vals = .ok rows ∧ out = .arr false [S] data ∧
      ∀ i (hi : i < data.length), ∃ r ∈ rows, data[i] = r.getD i 0 :=
  mixture_membership_exists_core h hidx

/-- **mixture_scalar_passthrough.** A scalar field passes through a mixture blend unchanged, and
only if every input carries the same scalar. -/
theorem mixture_scalar_passthrough {v0 : Val} {rest : List Val} {w : Option (List Rat)}
    {idx : List Nat} {out : Val} (hs : isScalar v0 = true)
    (h : blendField .mixture (v0 :: rest) w idx = .ok out) :
    out = v0 ∧ ∀ x ∈ rest, x = v0 :=
  mixture_scalar_passthrough_core hs h

/-- non-vacuity: two 3-sample inputs, index vector `[1,0,1]` -/
example : mixtureBlend [.arr false [3] [1, 2, 3], .arr true [3] [10, 20, 30]] [1/2, 1/2] [1, 0, 1]
    = .ok (.arr false [3] [10, 2, 30]) := by decide +kernel

/-! ### 4. refusals at the level of one cell -/

/-- mixture: unequal scalars are refused with `ValueError` -/
theorem mixture_refuses_unequal_scalars {v0 x : Val} {rest : List Val} {w : Option (List Rat)}
    {idx : List Nat} (hs : isScalar v0 = true) (hty : rest.all (sameType v0) = true)
    (hx : x ∈ rest) (hne : x ≠ v0) :
    blendField .mixture (v0 :: rest) w idx = .error .valueError := by
  simp only [blendField, beq_self_eq_true, Bool.true_and, hs, hty, Bool.not_true, if_true]
  have : rest.any (· != v0) = true := List.any_eq_true.mpr ⟨x, hx, by simpa using hne⟩
  simp [this]

/-- mixture: values of different types at one coordinate are refused with `TypeError` -/
theorem mixture_refuses_mixed_types {v0 : Val} {rest : List Val} {w : Option (List Rat)}
    {idx : List Nat} (hty : rest.all (sameType v0) = false) :
    blendField .mixture (v0 :: rest) w idx = .error .typeError := by
  simp [blendField, hty]

/-- cells whose field sets differ are refused with `ValueError` (both methods) -/
theorem fields_mismatch_refused {c0 : Cell} {rest : List Cell} {w : Option (List Rat)} {m : Method}
    {idx : String → List Nat}
    (h : rest.all (fun c => sameKeySet c.values.keys c0.values.keys) = false) :
    blendCells (c0 :: rest) w m idx = .error .valueError := by
  simp only [blendCells, h]
  rfl

/-- a weight vector of the wrong length is refused with `ValueError` (both methods) -/
theorem weight_length_refused {vals : List Val} {w : List Rat} {m : Method} {idx : List Nat}
    (h : w.length ≠ vals.length) : blendSamples vals (some w) m idx = .error .valueError := by
  simp [blendSamples, h]

/-- mixture weights must sum to one (to six decimals) -/
theorem mixture_refuses_weight_sum {vals : List Val} {w : List Rat} {idx : List Nat}
    (h : roundOk w = false) : mixtureBlend vals w idx = .error .valueError := by
  simp [mixtureBlend, h]

/-! ### 5. refusals of `blend` itself -/

/-- triangles of different lengths are refused -/
theorem blend_refuses_length {t0 : List Cell} {rest : List (List Cell)} {w : Weights} {method : String}
    {idx : Nat → String → List Nat} {m : Method}
    (hg : singleGuard (t0 :: rest).length w = .ok ()) (hm : parseMethod method = some m)
    (hlen : rest.any (·.length != t0.length) = true) :
    blend (t0 :: rest) w method idx = .error .valueError := by
  have hg' : singleGuard (rest.length + 1) w = .ok () := by simpa using hg
  simp [blend, blendPrep, hg', hm, hlen]

/-- triangles of different cell classes are refused -/
theorem blend_refuses_kind {t0 : List Cell} {rest : List (List Cell)} {w : Weights} {method : String}
    {idx : Nat → String → List Nat} {m : Method}
    (hg : singleGuard (t0 :: rest).length w = .ok ()) (hm : parseMethod method = some m)
    (hlen : rest.any (·.length != t0.length) = false) (hne : t0 ≠ [])
    (hk : rest.any (fun t => t.head?.map (·.kind) != t0.head?.map (·.kind)) = true) :
    blend (t0 :: rest) w method idx = .error .valueError := by
  have : t0.isEmpty = false := by cases t0 <;> simp_all
  have hg' : singleGuard (rest.length + 1) w = .ok () := by simpa using hg
  simp [blend, blendPrep, hg', hm, hlen, hk, this]

/-- an unknown method name is refused -/
theorem blend_refuses_method {ts : List (List Cell)} {w : Weights} {method : String}
    {idx : Nat → String → List Nat}
    (hg : singleGuard ts.length w = .ok ()) (hm : parseMethod method = none) :
    blend ts w method idx = .error .valueError := by
  simp [blend, blendPrep, hg, hm]

/-- a single triangle with list weights other than `[1.0]` is refused; with `None` or a dictionary
it is NOT refused by this test (D15, D17) -/
theorem single_triangle_guard (w : Weights) :
    (∀ w0 ws, w = .list (w0 :: ws) → w0 ≠ 1 → singleGuard 1 w = .error .valueError) ∧
    (w = .none → singleGuard 1 w = .ok ()) ∧ (∀ vals, w = .dict vals → singleGuard 1 w = .ok ()) := by
  refine ⟨?_, ?_, ?_⟩
  · rintro w0 ws rfl h; simp [singleGuard, h]
  · rintro rfl; rfl
  · rintro vals rfl; rfl

/-! ### 6. structure of the result -/

/-- **blend_structure.** Whenever `blend` succeeds on a first triangle in canonical form (sorted,
pairwise distinct coordinates), the result has exactly one cell per cell of the first triangle,
in the same order, with the first triangle's period, dates and metadata (`coord`), its cell
class and its field names — for every weight form, both methods and EVERY index vector. -/
theorem blend_structure {t0 : List Cell} {rest : List (List Cell)} {w : Weights} {method : String}
    {idx : Nat → String → List Nat} {out : List Cell}
    (h : blend (t0 :: rest) w method idx = .ok out)
    (hnd : (t0.map Cell.coord).Nodup) (hs : t0.Pairwise (fun a b => Cell.le a b)) :
    List.Forall₂ (fun c o => o.coord = c.coord ∧ o.kind = c.kind ∧ o.values.keys = c.values.keys)
      t0 out :=
  blend_structure_core h hnd hs

/-- the same, by position -/
theorem blend_structure_getElem {t0 : List Cell} {rest : List (List Cell)} {w : Weights}
    {method : String} {idx : Nat → String → List Nat} {out : List Cell}
    (h : blend (t0 :: rest) w method idx = .ok out)
    (hnd : (t0.map Cell.coord).Nodup) (hs : t0.Pairwise (fun a b => Cell.le a b)) :
    out.length = t0.length ∧ ∀ i (h0 : i < t0.length) (h1 : i < out.length),
      out[i].coord = t0[i].coord ∧ out[i].kind = t0[i].kind ∧
      out[i].values.keys = t0[i].values.keys :=
  blend_structure_getElem_core h hnd hs

/-- a coordinate of the first triangle that is missing from some triangle's index is refused with
`ValueError` when its turn comes -/
theorem missing_coordinate_refused {idxs : List (List (Coord × Cell))} {k : Coord}
    (h : ∃ d ∈ idxs, lookup d k = none) : gatherCells idxs k = .error .valueError :=
  gatherCells_missing h

/-- **blend_refuses_missing_coord.** Lifted to `blend`: if some input triangle lacks the coordinate (metadata,
period, evaluation date, previous evaluation date) of a cell of the canonical first triangle, `blend` returns an
error — for every weight form, method and index vector. (`missing_coordinate_refused` gives the class,
`ValueError`, when that cell's turn comes; an earlier cell's failure may pre-empt it.) -/
theorem blend_refuses_missing_coord {t0 t : List Cell} {rest : List (List Cell)} {w : Weights}
    {method : String} {idx : Nat → String → List Nat} {c : Cell}
    (hnd : (t0.map Cell.coord).Nodup) (hs : t0.Pairwise (fun a b => Cell.le a b))
    (ht : t ∈ t0 :: rest) (hndt : (t.map Cell.coord).Nodup) (hc : c ∈ t0)
    (hmiss : c.coord ∉ t.map Cell.coord) :
    ∃ e, blend (t0 :: rest) w method idx = .error e :=
  blend_missing_coord_error hnd hs ht hndt hc hmiss

/-- **blend_refuses_unequal_scalars.** Lifted to `blend`: with method mixture, if at the coordinate of the `n`-th
cell of the canonical first triangle the inputs (found by coordinate, `Spec.C16.cellsAt`) carry for one of its
fields a scalar first, values of the same type after it and one of them differs, `blend` returns an error. -/
theorem blend_refuses_unequal_scalars {t0 : List Cell} {rest : List (List Cell)} {w : Weights}
    {method : String} {idx : Nat → String → List Nat} {cs : List Cell} {f : String} {v0 x : Val}
    {restv : List Val} {n : Nat} (hm : parseMethod method = some .mixture)
    (hnd : ∀ t ∈ t0 :: rest, (t.map Cell.coord).Nodup) (hs : t0.Pairwise (fun a b => Cell.le a b))
    (hn : n < t0.length) (hcs : Spec.C16.cellsAt (t0 :: rest) (t0[n]).coord = some cs)
    (hf : f ∈ (t0[n]).values.keys) (hvals : fieldVals cs f = v0 :: restv)
    (hsc : isScalar v0 = true) (hty : restv.all (sameType v0) = true) (hx : x ∈ restv) (hne : x ≠ v0) :
    ∃ e, blend (t0 :: rest) w method idx = .error e :=
  blend_unequal_scalars_error hm hnd hs hn hcs hf hvals hsc hty hx hne

/-! ### 7. the values of the result, composed through the loop -/

/-- **blend_value_composed.** On a canonical first triangle, output cell `n` is obtained from the
cells found AT THE COORDINATE of the first triangle's `n`-th cell in every triangle's index (one
per triangle, in the order of the triangles), with the `n`-th entry `wl[n]` of the normalised weight
list (`percell_alignment`, `global_weights`, `list_weights` say what that is), and every field value
of it is `blendField` of the inputs' values of that field — to which `linear_value`,
`linear_convex`, `linear_agree`, `mixture_membership`, `mixture_scalar_passthrough` apply. -/
theorem blend_value_composed {t0 : List Cell} {rest : List (List Cell)} {w : Weights}
    {method : String} {idx : Nat → String → List Nat} {out : List Cell}
    (h : blend (t0 :: rest) w method idx = .ok out)
    (hnd : (t0.map Cell.coord).Nodup) (hs : t0.Pairwise (fun a b => Cell.le a b)) :
    ∃ m wl, blendPrep (t0 :: rest) w method = .ok (m, t0, wl) ∧ wl.length = t0.length ∧
      out.length = t0.length ∧
      ∀ n (h0 : n < t0.length) (h1 : n < out.length) (h2 : n < wl.length),
        ∃ cs, gatherCells ((t0 :: rest).map indexTriangle) t0[n].coord = .ok cs ∧
          List.Forall₂ (fun d c => lookup d t0[n].coord = some c) ((t0 :: rest).map indexTriangle) cs ∧
          ∀ f v, (f, v) ∈ out[n].values → blendField m (fieldVals cs f) wl[n] (idx n f) = .ok v :=
  blend_value_composed_core h hnd hs

/-! ### 8. the executable Spec predicates hold on the model's outputs -/

/-- `Spec.C16.structureOk` is true of every successful model blend of a canonical first triangle -/
theorem spec_structure {t0 : List Cell} {rest : List (List Cell)} {w : Weights} {method : String}
    {idx : Nat → String → List Nat} {out : List Cell}
    (h : blend (t0 :: rest) w method idx = .ok out)
    (hnd : (t0.map Cell.coord).Nodup) (hs : t0.Pairwise (fun a b => Cell.le a b)) :
    Spec.C16.structureOk t0 out = true :=
  structureOk_of_forall₂ (blend_structure h hnd hs)

/-- `Spec.C16.linearValueOk … 0` (exact equality over ℚ, weights read straight from the argument,
cells found by coordinate) is true of the model's linear blend -/
theorem spec_linear {t0 : List Cell} {rest : List (List Cell)} {w : Weights}
    {method : String} {idx : Nat → String → List Nat} {out : List Cell}
    (h : blend (t0 :: rest) w method idx = .ok out) (hm : parseMethod method = some .linear)
    (hnd : ∀ t ∈ t0 :: rest, (t.map Cell.coord).Nodup) (hs : t0.Pairwise (fun a b => Cell.le a b)) :
    Spec.C16.linearValueOk (t0 :: rest) w out 0 = true :=
  linearValueOk_model h hm hnd hs

/-- `Spec.C16.mixtureMembership` is true of the model's mixture blend for EVERY index vectors
staying below the number of triangles -/
theorem spec_mixture {t0 : List Cell} {rest : List (List Cell)} {w : Weights}
    {method : String} {idx : Nat → String → List Nat} {out : List Cell}
    (h : blend (t0 :: rest) w method idx = .ok out) (hm : parseMethod method = some .mixture)
    (hnd : ∀ t ∈ t0 :: rest, (t.map Cell.coord).Nodup) (hs : t0.Pairwise (fun a b => Cell.le a b))
    (hidx : ∀ n f i, (idx n f).getD i 0 < (t0 :: rest).length) :
    Spec.C16.mixtureMembership (t0 :: rest) out = true :=
  mixtureMembership_model h hm hnd hs hidx

/-- **spec_convex.** `Spec.C16.convexOk … 0` is true of the model's linear blend whenever the weight vector of
every cell (read straight from the argument: `1/M`, the list, the dictionary's column) is non-negative and sums to
one: every sample of every field of every OUTPUT cell lies between the minimum and the maximum of the inputs'
samples at that coordinate and position. -/
theorem spec_convex {t0 : List Cell} {rest : List (List Cell)} {w : Weights}
    {method : String} {idx : Nat → String → List Nat} {out : List Cell}
    (h : blend (t0 :: rest) w method idx = .ok out) (hm : parseMethod method = some .linear)
    (hnd : ∀ t ∈ t0 :: rest, (t.map Cell.coord).Nodup) (hs : t0.Pairwise (fun a b => Cell.le a b))
    (hconv : ∀ n < t0.length, (∀ x ∈ Spec.C16.specWeights w n (t0 :: rest).length, 0 ≤ x) ∧
      sumW (Spec.C16.specWeights w n (t0 :: rest).length) = 1) :
    Spec.C16.convexOk (t0 :: rest) out 0 = true :=
  convexOk_model h hm hnd hs hconv

/-- **spec_agree.** `Spec.C16.agreeOk … 0` is true of the model's linear blend of copies of one canonical
triangle with weights summing to one per cell: the OUTPUT carries the common value, sample by sample. -/
theorem spec_agree {t0 : List Cell} {rest : List (List Cell)} {w : Weights}
    {method : String} {idx : Nat → String → List Nat} {out : List Cell}
    (h : blend (t0 :: rest) w method idx = .ok out) (hm : parseMethod method = some .linear)
    (hnd : (t0.map Cell.coord).Nodup) (hs : t0.Pairwise (fun a b => Cell.le a b))
    (hagree : ∀ t ∈ rest, t = t0)
    (hsum : ∀ n < t0.length, sumW (Spec.C16.specWeights w n (t0 :: rest).length) = 1) :
    Spec.C16.agreeOk (t0 :: rest) out 0 = true :=
  agreeOk_model h hm hnd hs hagree hsum

/-- non-vacuity of `h : blend … = .ok out`: two triangles of two cells (scalar against 2-sample array, in either
order), weights 1/4, 3/4, linear — `blend` succeeds in the model with values `[7, 10]` and `[2, 4]` -/
example : blend [blExA, blExB] (.list [1/4, 3/4]) "linear" (fun _ _ => []) = .ok blExOut := blEx_blend

/-- field level: the per-field predicates on the per-field model -/
theorem spec_linear_field {vals : List Val} {w : List Rat} {v : Val}
    (h : linearBlend vals w = .ok v) (hl : w.length = vals.length) :
    Spec.C16.linearFieldOk w 0 vals v = true :=
  linearFieldOk_of_blend h hl

theorem spec_mixture_field {vals : List Val} {w : Option (List Rat)} {idx : List Nat} {v : Val}
    (h : blendField .mixture vals w idx = .ok v) (hidx : ∀ i, idx.getD i 0 < vals.length) :
    Spec.C16.mixtureFieldOk vals v = true :=
  mixtureFieldOk_of_blend h hidx

end Bermuda.Properties.C16
