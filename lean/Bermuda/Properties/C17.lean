/-
C17 — Resampling keeps triangle structure: bootstrap, thin and moment_match.
Only property theorems live here (helper lemmas: `Lemmas/Resample.lean`).

PARTIAL by design: numpy's RNG and the floating-point statistics are PARAMETERS of the model (the
index vector of `thin`, the drawn samples of `moment_match`, the resampled factor table and the
quantile vector of `bootstrap`); every theorem below holds for EVERY value of these parameters.
What the parameters' distributions are (resampling weights, mean/variance match, entropy
construction) is outside.
-/
import Bermuda.Model.Resample
import Bermuda.Spec.C17
import Bermuda.Lemmas.Resample
namespace Bermuda.Properties.C17
open Bermuda Bermuda.Resample

/-! ### 1. re-imposing a rank order (last step of `maximum_entropy_ensemble`, `_sort_x_on_y_rank`) -/

theorem reimposeRank_length (xs qs : List Rat) : (reimposeRank xs qs).length = xs.length :=
  Resample.reimposeRank_length xs qs

/-- **reimposeRank_order.** The result carries the rank order of the source:
`xs[i] < xs[j] → r[i] ≤ r[j]`, for every vector `qs` of the right length. -/
theorem reimposeRank_order {xs qs : List Rat} (hl : qs.length = xs.length) {i j : Nat}
    (hi : i < xs.length) (hj : j < xs.length) (h : xs.getD i 0 < xs.getD j 0) :
    (reimposeRank xs qs).getD i 0 ≤ (reimposeRank xs qs).getD j 0 :=
  reimposeRank_order' hl hi hj h

/-- **reimposeRank_perm.** The result is a rearrangement of `qs`: nothing is invented or lost. -/
theorem reimposeRank_perm {xs qs : List Rat} (hl : qs.length = xs.length) :
    (reimposeRank xs qs).Perm qs :=
  reimposeRank_perm' hl

/-- ties in the source are broken by position (`sorted([v, i] ...)`): distinct positions get
distinct ranks -/
theorem rank_injective {xs : List Rat} {i j : Nat} (hi : i < xs.length) (hj : j < xs.length)
    (h : rank xs i = rank xs j) : i = j :=
  rank_injOn hi hj h

/-- non-vacuity (the series of Vinod's example, x = [4,12,36,20,8]): ranks, and the theorems apply -/
example : (List.range 5).map (rank [4, 12, 36, 20, 8]) = [0, 2, 4, 3, 1] := by decide +kernel
example : (reimposeRank [4, 12, 36, 20, 8] [5, 1, 4, 2, 3]).Perm [5, 1, 4, 2, 3] :=
  reimposeRank_perm rfl

/-! ### 2. `_develop_triangle_by_atas`, for EVERY factor table -/

/-- **develop_first_unchanged.** On a canonical triangle, whatever the resampled factors are, the
earliest development cell of every period comes back unchanged (the very same cell). -/
theorem develop_first_unchanged {t out : List Cell} {F : Factors} (h : developByAtas t F = .ok out)
    (hk : kindsConsistent t = true) (hs : t.Pairwise (fun a b => Cell.le a b)) :
    List.Forall₂ (fun c o => initialLag t (c.ps, c.pe) = some c.devLag → o = c) t out :=
  Blend.forall₂_imp' (fun _ _ h => h.2.2.1) (developByAtas_rel h hk hs)

/-- **develop_coords_fields.** … and every cell keeps its coordinates (period, dates, metadata) and
class; its values are its own values updated (`{**cell.values, **developed}`), so no field is lost. -/
theorem develop_coords_fields {t out : List Cell} {F : Factors} (h : developByAtas t F = .ok out)
    (hk : kindsConsistent t = true) (hs : t.Pairwise (fun a b => Cell.le a b)) :
    List.Forall₂ (fun c o => o.coord = c.coord ∧ o.kind = c.kind ∧
      ∃ its, o.values = Dict.union c.values its) t out :=
  Blend.forall₂_imp' (fun _ _ h => ⟨h.1, h.2.1, h.2.2.2⟩) (developByAtas_rel h hk hs)

/-! ### 3. bootstrap: number of replicates -/

/-- **bootstrap_count.** A successful bootstrap of a non-empty triangle returns exactly `n`
replicates, for every factor table / quantile vector. -/
theorem bootstrap_count {t : List Cell} {n : Int} {field : Option (List String)}
    {P : Nat → Nat → RepParam} {reps : List (List Cell)}
    (h : bootstrap t n field P = .ok reps) (hne : Triangle.slices t ≠ []) :
    reps.length = n.toNat := by
  unfold bootstrap at h
  split at h
  · cases h
  · dsimp only at h
    split at h
    · cases h
    · rename_i boots hboots
      have hlen := mapMExcept_length hboots
      have : boots.isEmpty = false := by
        cases boots with
        | nil =>
          have h0 : (Triangle.slices t).length = 0 := by simpa using hlen.symm
          exact absurd (List.eq_nil_of_length_eq_zero h0) hne
        | cons _ _ => rfl
      rw [this] at h
      simp only [Bool.false_eq_true, if_false] at h
      simpa using mapMExcept_length h

/-- `n ≤ 0` is refused -/
theorem bootstrap_refuses_nonpositive {t : List Cell} {n : Int} {field : Option (List String)}
    {P : Nat → Nat → RepParam} (h : n ≤ 0) : bootstrap t n field P = .error .valueError := by
  simp [bootstrap, h]

/-- every slice yields `n` replicates -/
theorem bootstrapSlice_count {s : List Cell} {n : Nat} {field : Option (List String)}
    {P : Nat → RepParam} {reps : List (List Cell)} (h : bootstrapSlice s n field P = .ok reps) :
    reps.length = n := by
  simpa using mapMExcept_length h

-- OPEN bootstrap_structure
--   theorem bootstrap_structure (h : bootstrap t n field P = .ok reps) (canonical t) (distinct coordinates) :
--     ∀ i < n, reps[i] has exactly the coordinates, slices and field names of t, every metadata
--     being `md.edit (.detail "bootstrap" i)`  (i.e. Spec.C17.bootstrapStructureOk t n reps = true)
--   Proved so far: the replicate count (`bootstrap_count`, `bootstrapSlice_count`), and for the
--   age-to-age step coordinates / classes / fields / first cell (`develop_coords_fields`,
--   `develop_first_unchanged`). Missing: composition through `Triangle.slices`, `tagBootstrap`
--   (`deriveMetadata` + re-sort) and `sumTriangles`. Checked on every implementation output by
--   `Spec.C17.bootstrapStructureOk` instead.

/-! ### 4. thin -/

/-- **thin_eq_self.** `k` equal to the sample count returns the triangle itself. -/
theorem thin_eq_self {t : List Cell} {n : Nat} (idx : List Nat) (h : numSamples t = .ok n) :
    thin t n idx = .ok .same :=
  Resample.thin_eq_self idx h

/-- **thin_error.** A larger `k` is refused. -/
theorem thin_error {t : List Cell} {n k : Nat} (idx : List Nat) (h : numSamples t = .ok n)
    (hk : n < k) : thin t k idx = .error .valueError :=
  Resample.thin_error idx h hk

/-- **thin_same_positions.** Otherwise, for EVERY index vector, the result is the same triangle
cell by cell with ONE `gather idx` applied to every array holding more than one sample. -/
theorem thin_same_positions {t out : List Cell} {k : Nat} {idx : List Nat}
    (h : thin t k idx = .ok (.fresh out)) (hk : kindsConsistent t = true)
    (hs : t.Pairwise (fun a b => Cell.le a b)) :
    out = t.map (thinCell idx) ∧
    ∀ c ∈ t, (thinCell idx c).coord = c.coord ∧ (thinCell idx c).kind = c.kind ∧
      (thinCell idx c).values = c.values.map (fun (f, v) => (f, thinVal idx v)) :=
  ⟨thin_fresh h hk hs, fun _ _ => ⟨rfl, rfl, rfl⟩⟩

/-- what happens to an array: positions `idx`, in that order, nothing else -/
theorem thinVal_array (idx : List Nat) (isInt : Bool) (n : Nat) (d : List Rat) (h : d.length > 1) :
    thinVal idx (.arr isInt [n] d) = .arr isInt [idx.length] (idx.map (d.getD · 0)) := by
  simp [thinVal, h, gather]

/-- **thin_scalars_untouched.** Scalars, `None` and arrays with a single sample are untouched. -/
theorem thin_scalars_untouched (idx : List Nat) :
    (∀ i, thinVal idx (.int i) = .int i) ∧ (∀ q, thinVal idx (.flt q) = .flt q) ∧
    thinVal idx .none = .none ∧
    ∀ isInt n d, d.length ≤ 1 → thinVal idx (.arr isInt [n] d) = .arr isInt [n] d := by
  refine ⟨fun _ => rfl, fun _ => rfl, rfl, ?_⟩
  intro isInt n d h
  have : ¬ d.length > 1 := by omega
  simp [thinVal, this]

/-- non-vacuity -/
example : thinVal [2, 0] (.arr false [3] [10, 20, 30]) = .arr false [2] [30, 10] := by decide +kernel

/-! ### 5. moment_match -/

/-- what `_generate_samples` does to a value: an array keeps its length and shape and receives the
drawn vector in the source's rank order; anything else is returned as it is -/
theorem generateSamples_spec (drawn : List Rat) :
    (∀ isInt n d, generateSamples (.arr isInt [n] d) drawn = .arr false [n] (reimposeRank d drawn)) ∧
    (∀ i, generateSamples (.int i) drawn = .int i) ∧ (∀ q, generateSamples (.flt q) drawn = .flt q) ∧
    generateSamples .none drawn = .none :=
  ⟨fun _ _ _ => rfl, fun _ => rfl, fun _ => rfl, rfl⟩

/-- one field: every cell keeps coordinates and class, and its values are its own values with
that ONE field replaced (`Dict.set` keeps every other field and the key order) -/
theorem momentField_values {f : String} {draws : Nat → List Rat} {cs out : List Cell} {i : Nat}
    (h : momentField f draws i cs = .ok out) :
    List.Forall₂ (fun c o => o.coord = c.coord ∧ o.kind = c.kind ∧
      ∃ v drawn, c.values.get? f = some v ∧ o.values = c.values.set f (generateSamples v drawn))
      cs out :=
  momentField_rel h

/-- **momentMatch_structure.** For EVERY drawn vector, the result of `moment_match` on a canonical
triangle has the same cells (coordinates, class) in the same order; with `generateSamples_spec`
and `reimposeRank_length/order/perm`: selected arrays keep length and rank order. -/
theorem momentMatch_structure {t out : List Cell} {fields : List String} {distOk : Bool}
    {draws : Nat → String → List Rat} (h : momentMatch t fields distOk draws = .ok out)
    (hk : kindsConsistent t = true) (hs : t.Pairwise (fun a b => Cell.le a b)) :
    List.Forall₂ (fun c o => o.coord = c.coord ∧ o.kind = c.kind) t out := by
  unfold momentMatch at h
  split at h
  · cases h
  · split at h
    · cases h
    · exact momentLoop_rel h hk hs

/-- unknown field names are refused with `KeyError` -/
theorem momentMatch_refuses_unknown_field {t : List Cell} {fields : List String} {distOk : Bool}
    {draws : Nat → String → List Rat}
    (h : fields.any (fun f => !(fieldsOf t).contains f) = true) :
    momentMatch t fields distOk draws = .error .keyError := by
  unfold momentMatch
  rw [if_pos h]

/-- **momentMatch_other_fields.** For EVERY drawn vector: every cell keeps its field names (and
their order), and every field that is NOT selected reads exactly as before. -/
theorem momentMatch_other_fields {t out : List Cell} {fields : List String} {distOk : Bool}
    {draws : Nat → String → List Rat} (h : momentMatch t fields distOk draws = .ok out)
    (hk : kindsConsistent t = true) (hs : t.Pairwise (fun a b => Cell.le a b)) :
    List.Forall₂ (fun c o => o.coord = c.coord ∧ o.kind = c.kind ∧ o.values.keys = c.values.keys ∧
      ∀ f, f ∉ fields → o.values.get? f = c.values.get? f) t out := by
  unfold momentMatch at h
  split at h
  · cases h
  · split at h
    · cases h
    · exact momentLoop_fields h hk hs

/-- **momentMatch_selected_fields.** … and a selected field (names given once) reads
`_generate_samples(old value, some drawn vector)`: by `generateSamples_spec` an array of the same
length and shape holding the drawn vector in the old samples' rank order (`reimposeRank_order`,
`reimposeRank_perm`), a scalar or `None` unchanged. -/
theorem momentMatch_selected_fields {t out : List Cell} {fields : List String} {distOk : Bool}
    {draws : Nat → String → List Rat} (h : momentMatch t fields distOk draws = .ok out)
    (hnd : fields.Nodup)
    (hk : kindsConsistent t = true) (hs : t.Pairwise (fun a b => Cell.le a b)) :
    List.Forall₂ (fun c o => ∀ f ∈ fields, ∃ v drawn, c.values.get? f = some v ∧
      o.values.get? f = some (generateSamples v drawn)) t out := by
  unfold momentMatch at h
  split at h
  · cases h
  · split at h
    · cases h
    · exact momentLoop_selected h hnd hk hs

end Bermuda.Properties.C17
