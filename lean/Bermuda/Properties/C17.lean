/-
C17 — Resampling keeps triangle structure: bootstrap, thin and moment_match.
Only property theorems live here (helper lemmas: `Lemmas/Resample.lean`).

PARTIAL by design: numpy's RNG and the floating-point statistics are PARAMETERS of the model (the
index vector of `thin`, the drawn samples of `moment_match`, the resampled factor table and the
quantile vector of `bootstrap`); every theorem below holds for EVERY value of these parameters.
What the parameters' distributions are (resampling weights, mean/variance match, entropy
construction) is outside.
-/
import Bermuda.Model.Resample
import Bermuda.Spec.C17
import Bermuda.Lemmas.Resample
import Bermuda.Lemmas.ResampleSpec
import Bermuda.Lemmas.ResampleExt
namespace Bermuda.Properties.C17
open Bermuda Bermuda.Resample

/-! ### 1. re-imposing a rank order (last step of `maximum_entropy_ensemble`, `_sort_x_on_y_rank`) -/

theorem reimposeRank_length (xs qs : List Rat) : (reimposeRank xs qs).length = xs.length :=
  Resample.reimposeRank_length xs qs

/-- **reimposeRank_order.** The result carries the rank order of the source:
`xs[i] < xs[j] → r[i] ≤ r[j]`, for every vector `qs` of the right length. -/
theorem reimposeRank_order {xs qs : List Rat} (hl : qs.length = xs.length) {i j : Nat}
    (hi : i < xs.length) (hj : j < xs.length) (h : xs.getD i 0 < xs.getD j 0) :
    (reimposeRank xs qs).getD i 0 ≤ (reimposeRank xs qs).getD j 0 :=
  reimposeRank_order' hl hi hj h

/-- **reimposeRank_perm.** The result is a rearrangement of `qs`: nothing is invented or lost. -/
theorem reimposeRank_perm {xs qs : List Rat} (hl : qs.length = xs.length) :
    (reimposeRank xs qs).Perm qs :=
  reimposeRank_perm' hl

/-- ties in the source are broken by position (`sorted([v, i] ...)`): distinct positions get
distinct ranks -/
theorem rank_injective {xs : List Rat} {i j : Nat} (hi : i < xs.length) (hj : j < xs.length)
    (h : rank xs i = rank xs j) : i = j :=
  rank_injOn hi hj h

/-- non-vacuity (the series of Vinod's example, x = [4,12,36,20,8]): ranks, and the theorems apply -/
example : (List.range 5).map (rank [4, 12, 36, 20, 8]) = [0, 2, 4, 3, 1] := by decide +kernel
example : (reimposeRank [4, 12, 36, 20, 8] [5, 1, 4, 2, 3]).Perm [5, 1, 4, 2, 3] :=
  reimposeRank_perm rfl

/-! ### 2. `_develop_triangle_by_atas`, for EVERY factor table -/

/-- **develop_first_unchanged.** On a canonical triangle, whatever the resampled factors are, the
earliest development cell of every period comes back unchanged (the very same cell). -/
theorem develop_first_unchanged {t out : List Cell} {F : Factors} (h : developByAtas t F = .ok out)
    (hk : kindsConsistent t = true) (hs : t.Pairwise (fun a b => Cell.le a b)) :
    List.Forall₂ (fun c o => initialLag t (c.ps, c.pe) = some c.devLag → o = c) t out :=
  Blend.forall₂_imp' (fun _ _ h => h.2.2.1) (developByAtas_rel h hk hs)

/-- **develop_coords_fields.** … and every cell keeps its coordinates (period, dates, metadata) and
class; its values are its own values updated (`{**cell.values, **developed}`), so no field is lost. -/
theorem develop_coords_fields {t out : List Cell} {F : Factors} (h : developByAtas t F = .ok out)
    (hk : kindsConsistent t = true) (hs : t.Pairwise (fun a b => Cell.le a b)) :
    List.Forall₂ (fun c o => o.coord = c.coord ∧ o.kind = c.kind ∧
      ∃ its, o.values = Dict.union c.values its) t out :=
  Blend.forall₂_imp' (fun _ _ h => ⟨h.1, h.2.1, h.2.2.2⟩) (developByAtas_rel h hk hs)

/-! ### 3. bootstrap: number of replicates -/

/-- **bootstrap_count.** A successful bootstrap of a non-empty triangle returns exactly `n`
replicates, for every factor table / quantile vector. -/
theorem bootstrap_count {t : List Cell} {n : Int} {field : Option (List String)}
    {P : Nat → Nat → RepParam} {reps : List (List Cell)}
    (h : bootstrap t n field P = .ok reps) (hne : Triangle.slices t ≠ []) :
    reps.length = n.toNat := by
  unfold bootstrap at h
  split at h
  · cases h
  · dsimp only at h
    split at h
    · cases h
    · rename_i boots hboots
      have hlen := mapMExcept_length hboots
      have : boots.isEmpty = false := by
        cases boots with
        | nil =>
          have h0 : (Triangle.slices t).length = 0 := by simpa using hlen.symm
          exact absurd (List.eq_nil_of_length_eq_zero h0) hne
        | cons _ _ => rfl
      rw [this] at h
      simp only [Bool.false_eq_true, if_false] at h
      simpa using mapMExcept_length h

/-- `n ≤ 0` is refused -/
theorem bootstrap_refuses_nonpositive {t : List Cell} {n : Int} {field : Option (List String)}
    {P : Nat → Nat → RepParam} (h : n ≤ 0) : bootstrap t n field P = .error .valueError := by
  simp [bootstrap, h]

/-- every slice yields `n` replicates -/
theorem bootstrapSlice_count {s : List Cell} {n : Nat} {field : Option (List String)}
    {P : Nat → RepParam} {reps : List (List Cell)} (h : bootstrapSlice s n field P = .ok reps) :
    reps.length = n := by
  simpa using mapMExcept_length h

/-- what replicate `i` may do to a cell `c` of `t`: same period and dates, same class, the
metadata of `c` with the extra detail `bootstrap = i`, every field name of `c` still there, and no
field name that does not occur somewhere in `t` -/
def TagRel (t : List Cell) (i : Nat) (c o : Cell) : Prop :=
  o.ps = c.ps ∧ o.pe = c.pe ∧ o.ev = c.ev ∧ o.prev = c.prev ∧ o.kind = c.kind ∧
  o.md = c.md.edit (.detail "bootstrap" (.num (i : Rat))) ∧
  (∀ f ∈ c.values.keys, f ∈ o.values.keys) ∧ (∀ f ∈ o.values.keys, ∃ c' ∈ t, f ∈ c'.values.keys)

/-- **bootstrap_structure (multiset form).** For EVERY factor table and quantile vector: replicate
`i` is, up to order, the cells of `t` (up to order) each transformed by `tagCell i` after a
change that keeps coordinates, class and field names (`PreRel`). -/
theorem bootstrap_structure_perm {t : List Cell} {n : Int} {field : Option (List String)}
    {P : Nat → Nat → RepParam} {reps : List (List Cell)}
    (h : bootstrap t n field P = .ok reps) (hk : kindsConsistent t = true) :
    ∀ i (hi : i < reps.length), ∃ t' l, t'.Perm t ∧ reps[i].Perm (l.map (tagCell i)) ∧
      List.Forall₂ (PreRel t) t' l := by
  unfold bootstrap at h
  split at h
  · cases h
  · dsimp only at h
    split at h
    · cases h
    · rename_i boots hboots
      have hb2 : ∀ i, i < n.toNat →
          List.Forall₂ (fun s r => ∃ l, r.Perm (l.map (tagCell i)) ∧ List.Forall₂ (PreRel s) s l)
            ((Triangle.slices t).map (·.2)) (boots.map (·.getD i [])) := by
        intro i hin
        clear h
        have hb := mapMExcept_forall₂ hboots
        have hprops := slice_props hk
        rw [← List.zipIdx_map_fst 0 ((Triangle.slices t).map (·.2))] at hprops ⊢
        refine forall₂_map_left' (forall₂_map_right' ?_)
        generalize (List.map (fun x => x.2) (Triangle.slices t)).zipIdx = zs at hb hprops
        clear hboots
        induction hb with
        | nil => exact .nil
        | @cons sk b _ _ hh _ ih =>
          refine .cons ?_ (ih (fun s hs => hprops s (by
            simp only [List.map_cons, List.mem_cons]; exact Or.inr hs)))
          obtain ⟨hk', hs', _⟩ := hprops sk.1 (by simp)
          have hbl := mapMExcept_length hh
          simp only [List.length_range] at hbl
          have hib : i < (List.range n.toNat).length := by simpa using hin
          have hr := mapMExcept_getElem hh i hib
          simp only [List.getElem_range] at hr
          have hget : b.getD i [] = b[i]'(by rw [hbl]; exact hin) := by
            simp [List.getD_eq_getElem?_getD, hbl, hin]
          rw [hget]
          exact replicate_pre hr hk' hs'
      split at h
      · cases h; intro i hi; simp at hi
      · intro i hi
        have hlen := mapMExcept_length h
        have hi' : i < (List.range n.toNat).length := by rw [← hlen]; exact hi
        have hrep := mapMExcept_getElem h i hi'
        simp only [List.getElem_range] at hrep
        have hin : i < n.toNat := by simpa using hi'
        have hsum := sumTriangles_perm hrep
        obtain ⟨l, hp, hf⟩ := assemble (T := t) (hb2 i hin) (fun s hs => (slice_props hk s hs).2.2)
        exact ⟨_, l, slices_flatten_perm t, hsum.trans hp, hf⟩

/-- **bootstrap_structure.** For EVERY factor table and quantile vector, replicate `i` has as many
cells as `t`; every cell of `t` has a counterpart in it and every cell of it comes from a cell of
`t`, the counterpart having the same period and dates, the same class, the same metadata plus the
detail `bootstrap = i` (hence the same slices, each tagged), every field name of the source cell
and no field name foreign to `t`. Together with `bootstrap_count`: exactly `n` such replicates. -/
theorem bootstrap_structure {t : List Cell} {n : Int} {field : Option (List String)}
    {P : Nat → Nat → RepParam} {reps : List (List Cell)}
    (h : bootstrap t n field P = .ok reps) (hk : kindsConsistent t = true) :
    ∀ i (hi : i < reps.length), reps[i].length = t.length ∧
      (∀ c ∈ t, ∃ o ∈ reps[i], TagRel t i c o) ∧ (∀ o ∈ reps[i], ∃ c ∈ t, TagRel t i c o) := by
  intro i hi
  obtain ⟨t', l, hpt, hpr, hf⟩ := bootstrap_structure_perm h hk i hi
  have hf' : List.Forall₂ (TagRel t i) t' (l.map (tagCell i)) := by
    refine forall₂_map_right' (Blend.forall₂_imp' ?_ hf)
    rintro c o ⟨h1, h2, h3, h4⟩
    simp only [Cell.coord, Coord.mk.injEq] at h1
    obtain ⟨g1, g2, g3, g4, g5⟩ := h1
    exact ⟨g2, g3, g4, g5, h2, by simp [tagCell, g1], h3, h4⟩
  refine ⟨?_, ?_, ?_⟩
  · rw [hpr.length_eq, ← hpt.length_eq]
    exact Blend.forall₂_length' hf'
  · intro c hc
    obtain ⟨o, ho, hr⟩ := forall₂_mem_left hf' c (hpt.mem_iff.mpr hc)
    exact ⟨o, hpr.mem_iff.mpr ho, hr⟩
  · intro o ho
    obtain ⟨c, hc, hr⟩ := forall₂_mem_right hf' o (hpr.mem_iff.mp ho)
    exact ⟨c, hpt.mem_iff.mp hc, hr⟩

/-! ### 4. thin -/

/-- **thin_eq_self.** `k` equal to the sample count returns the triangle itself. -/
theorem thin_eq_self {t : List Cell} {n : Nat} (idx : List Nat) (h : numSamples t = .ok n) :
    thin t n idx = .ok .same :=
  Resample.thin_eq_self idx h

/-- **thin_error.** A larger `k` is refused. -/
theorem thin_error {t : List Cell} {n k : Nat} (idx : List Nat) (h : numSamples t = .ok n)
    (hk : n < k) : thin t k idx = .error .valueError :=
  Resample.thin_error idx h hk

/-- **thin_same_positions.** Otherwise, for EVERY index vector, the result is the same triangle
cell by cell with ONE `gather idx` applied to every array holding more than one sample. -/
theorem thin_same_positions {t out : List Cell} {k : Nat} {idx : List Nat}
    (h : thin t k idx = .ok (.fresh out)) (hk : kindsConsistent t = true)
    (hs : t.Pairwise (fun a b => Cell.le a b)) :
    out = t.map (thinCell idx) ∧
    ∀ c ∈ t, (thinCell idx c).coord = c.coord ∧ (thinCell idx c).kind = c.kind ∧
      (thinCell idx c).values = c.values.map (fun (f, v) => (f, thinVal idx v)) :=
  ⟨thin_fresh h hk hs, fun _ _ => ⟨rfl, rfl, rfl⟩⟩

/-- what happens to an array: positions `idx`, in that order, nothing else -/
theorem thinVal_array (idx : List Nat) (isInt : Bool) (n : Nat) (d : List Rat) (h : d.length > 1) :
    thinVal idx (.arr isInt [n] d) = .arr isInt [idx.length] (idx.map (d.getD · 0)) := by
  simp [thinVal, h, gather]

/-- **thin_scalars_untouched.** Scalars, `None` and arrays with a single sample are untouched. -/
theorem thin_scalars_untouched (idx : List Nat) :
    (∀ i, thinVal idx (.int i) = .int i) ∧ (∀ q, thinVal idx (.flt q) = .flt q) ∧
    thinVal idx .none = .none ∧
    ∀ isInt n d, d.length ≤ 1 → thinVal idx (.arr isInt [n] d) = .arr isInt [n] d := by
  refine ⟨fun _ => rfl, fun _ => rfl, rfl, ?_⟩
  intro isInt n d h
  have : ¬ d.length > 1 := by omega
  simp [thinVal, this]

/-- non-vacuity -/
example : thinVal [2, 0] (.arr false [3] [10, 20, 30]) = .arr false [2] [30, 10] := by decide +kernel

/-! ### 5. moment_match -/

/-- what `_generate_samples` does to a value: an array keeps its length and shape and receives the
drawn vector in the source's rank order; anything else is returned as it is -/
theorem generateSamples_spec (drawn : List Rat) :
    (∀ isInt n d, generateSamples (.arr isInt [n] d) drawn = .arr false [n] (reimposeRank d drawn)) ∧
    (∀ i, generateSamples (.int i) drawn = .int i) ∧ (∀ q, generateSamples (.flt q) drawn = .flt q) ∧
    generateSamples .none drawn = .none :=
  ⟨fun _ _ _ => rfl, fun _ => rfl, fun _ => rfl, rfl⟩

/-- one field: every cell keeps coordinates and class, and its values are its own values with
that ONE field replaced (`Dict.set` keeps every other field and the key order) -/
theorem momentField_values {f : String} {draws : Nat → List Rat} {cs out : List Cell} {i : Nat}
    (h : momentField f draws i cs = .ok out) :
    List.Forall₂ (fun c o => o.coord = c.coord ∧ o.kind = c.kind ∧
      ∃ v drawn, (∃ j, drawn = draws j) ∧ c.values.get? f = some v ∧
        o.values = c.values.set f (generateSamples v drawn))
      cs out :=
  momentField_rel h

/-- **momentMatch_structure.** For EVERY drawn vector, the result of `moment_match` on a canonical
triangle has the same cells (coordinates, class) in the same order; with `generateSamples_spec`
and `reimposeRank_length/order/perm`: selected arrays keep length and rank order. -/
theorem momentMatch_structure {t out : List Cell} {fields : List String} {distOk : Bool}
    {draws : Nat → String → List Rat} (h : momentMatch t fields distOk draws = .ok out)
    (hk : kindsConsistent t = true) (hs : t.Pairwise (fun a b => Cell.le a b)) :
    List.Forall₂ (fun c o => o.coord = c.coord ∧ o.kind = c.kind) t out := by
  unfold momentMatch at h
  split at h
  · cases h
  · split at h
    · cases h
    · exact momentLoop_rel h hk hs

/-- unknown field names are refused with `KeyError` -/
theorem momentMatch_refuses_unknown_field {t : List Cell} {fields : List String} {distOk : Bool}
    {draws : Nat → String → List Rat}
    (h : fields.any (fun f => !(fieldsOf t).contains f) = true) :
    momentMatch t fields distOk draws = .error .keyError := by
  unfold momentMatch
  rw [if_pos h]

/-- **momentMatch_other_fields.** For EVERY drawn vector: every cell keeps its field names (and
their order), and every field that is NOT selected reads exactly as before. -/
theorem momentMatch_other_fields {t out : List Cell} {fields : List String} {distOk : Bool}
    {draws : Nat → String → List Rat} (h : momentMatch t fields distOk draws = .ok out)
    (hk : kindsConsistent t = true) (hs : t.Pairwise (fun a b => Cell.le a b)) :
    List.Forall₂ (fun c o => o.coord = c.coord ∧ o.kind = c.kind ∧ o.values.keys = c.values.keys ∧
      ∀ f, f ∉ fields → o.values.get? f = c.values.get? f) t out := by
  unfold momentMatch at h
  split at h
  · cases h
  · split at h
    · cases h
    · exact momentLoop_fields h hk hs

/-- **momentMatch_selected_fields.** … and a selected field (names given once) reads
`_generate_samples(old value, some drawn vector)`: by `generateSamples_spec` an array of the same
length and shape holding the drawn vector in the old samples' rank order (`reimposeRank_order`,
`reimposeRank_perm`), a scalar or `None` unchanged. -/
theorem momentMatch_selected_fields {t out : List Cell} {fields : List String} {distOk : Bool}
    {draws : Nat → String → List Rat} (h : momentMatch t fields distOk draws = .ok out)
    (hnd : fields.Nodup)
    (hk : kindsConsistent t = true) (hs : t.Pairwise (fun a b => Cell.le a b)) :
    List.Forall₂ (fun c o => ∀ f ∈ fields, ∃ v drawn, (∃ j, drawn = draws j f) ∧
      c.values.get? f = some v ∧ o.values.get? f = some (generateSamples v drawn)) t out := by
  unfold momentMatch at h
  split at h
  · cases h
  · split at h
    · cases h
    · exact momentLoop_selected h hnd hk hs

/-! ### 6. the executable Spec predicates hold on the model's outputs -/

/-- `Spec.C17.rankOrderOk`, `rankFixed`, `sameMultiset` — the three verdicts of the driver's
`reimpose` request — are true of `reimposeRank xs qs` -/
theorem spec_rank {xs qs : List Rat} (hl : qs.length = xs.length) :
    Spec.C17.rankOrderOk xs (reimposeRank xs qs) = true ∧
    Spec.C17.rankFixed xs (reimposeRank xs qs) = true ∧
    Spec.C17.sameMultiset qs (reimposeRank xs qs) = true :=
  ⟨rankOrderOk_reimpose hl, rankFixed_reimpose hl, sameMultiset_reimpose hl⟩

/-- `Spec.C17.thinOk` is true of the model's thinned triangle whenever the predicate can read the
index vector back (`spec_thin_recoverable` gives a sufficient condition) -/
theorem spec_thin {t out : List Cell} {idx : List Nat} {k n : Nat}
    (h : thin t k idx = .ok (.fresh out)) (hkc : kindsConsistent t = true)
    (hs : t.Pairwise (fun a b => Cell.le a b))
    (hrec : Spec.C17.recoverIdx t (t.map (thinCell idx)) = some idx) (hk : idx.length = k)
    (hnd : idx.Nodup) (hr : ∀ i ∈ idx, i < n) (hwf : ∀ c ∈ t, c.values.keys.Nodup) :
    Spec.C17.thinOk t out k n = true := by
  rw [thin_fresh h hkc hs]
  exact thinOk_model hrec hk hnd hr hwf

theorem spec_thin_recoverable {c : Cell} {rest : List Cell} {f : String} {isInt : Bool} {m : Nat}
    {d : List Rat} {vs : Dict Val} {idx : List Nat}
    (hv : c.values = (f, .arr isInt [m] d) :: vs) (hlen : d.length > 1) (hd : d.Nodup)
    (hr : ∀ i ∈ idx, i < d.length) :
    Spec.C17.recoverIdx (c :: rest) ((c :: rest).map (thinCell idx)) = some idx :=
  recoverIdx_first hv hlen hd hr

/-- `Spec.C17.momentOk` is true of the model's `moment_match`, for every drawn vectors at least as
long as the arrays they replace -/
theorem spec_moment {t out : List Cell} {fields : List String} {distOk : Bool}
    {draws : Nat → String → List Rat} (h : momentMatch t fields distOk draws = .ok out)
    (hnd : fields.Nodup) (hk : kindsConsistent t = true) (hs : t.Pairwise (fun a b => Cell.le a b))
    (hwf : ∀ c ∈ t, c.values.keys.Nodup)
    (hlen : ∀ c ∈ t, ∀ f isInt n d, (f, Val.arr isInt [n] d) ∈ c.values →
      ∀ j, d.length ≤ (draws j f).length) :
    Spec.C17.momentOk t out fields = true :=
  momentOk_model h hnd hk hs hwf hlen

/-! ### the guards of `maximum_entropy_ensemble` (bootstrap.py:250-258): `meEnsembleRaw` -/

/-- a single value comes back unchanged, whatever it is (also `[None]`) -/
theorem meEnsembleRaw_single (x : Val) (qs : List Rat) : meEnsembleRaw [x] qs = .ok [x] := rfl

/-- a constant series (every later element `==` the first; `[None, None]` included) comes back unchanged -/
theorem meEnsembleRaw_const (x y : Val) (rest : List Val) (qs : List Rat)
    (h : (y :: rest).all (scalarEq x) = true) : meEnsembleRaw (x :: y :: rest) qs = .ok (x :: y :: rest) := by
  simp only [meEnsembleRaw, h, if_true]

/-- **refusal**: a non-constant series that contains `None` is refused with ValueError -/
theorem meEnsembleRaw_refuses_none (x y : Val) (rest : List Val) (qs : List Rat)
    (hc : (y :: rest).all (scalarEq x) = false) (hn : Val.none ∈ x :: y :: rest) :
    meEnsembleRaw (x :: y :: rest) qs = .error .valueError := by
  have : (x :: y :: rest).any (fun v => v == Val.none) = true := by
    rw [List.any_eq_true]; exact ⟨_, hn, by simp⟩
  simp only [meEnsembleRaw, hc, this, if_true, Bool.false_eq_true, if_false]

/-- on a series of numbers (what the bootstrap hands in) the wrapper IS the existing model -/
theorem meEnsembleRaw_eq_meEnsemble (xs : List Val) (qs : List Rat) (h : ∀ v ∈ xs, isNum v = true) :
    meEnsembleRaw xs qs = meEnsemble xs qs := by
  match xs, h with
  | [], _ => rfl
  | [x], _ => rfl
  | x :: y :: rest, h =>
    obtain ⟨p, hp⟩ := numOf_isNum (h x (by simp))
    obtain ⟨ns, hns⟩ := mapM_isNum (y :: rest) (fun w hw => h w (by simp [List.mem_cons] at hw ⊢; exact Or.inr hw))
    have hall := all_scalarEq_nums x p hp (y :: rest) ns hns
    have hm : mapMExcept numOf (x :: y :: rest) = .ok (p :: ns) := by
      simp only [mapMExcept] at hns ⊢
      rw [hp]; simp only []
      rw [hns]
    have hnone : (x :: y :: rest).any (fun v => v == Val.none) = false := by
      rw [Bool.eq_false_iff]; intro hh
      rw [List.any_eq_true] at hh
      obtain ⟨v, hv, hv2⟩ := hh
      have := h v hv
      simp at hv2; subst hv2; simp [isNum] at this
    unfold meEnsembleRaw meEnsemble
    simp only [hm, hnone, Bool.false_eq_true, if_false]
    by_cases hc : (y :: rest).all (scalarEq x) = true
    · have : (p :: ns).all (fun q => q == (p :: ns).headD 0) = true := by
        simp only [List.headD_cons, List.all_cons, beq_self_eq_true, Bool.true_and]
        rw [← hall]; exact hc
      simp only [hc, if_true, this]
    · have : (p :: ns).all (fun q => q == (p :: ns).headD 0) = false := by
        simp only [List.headD_cons, List.all_cons, beq_self_eq_true, Bool.true_and]
        rw [← hall]; simpa using hc
      simp only [hc, this, Bool.false_eq_true, if_false]

end Bermuda.Properties.C17
