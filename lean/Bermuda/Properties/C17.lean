/-
C17 — Resampling keeps triangle structure: bootstrap, thin and moment_match.
Only property theorems live here (helper lemmas: `Lemmas/Resample.lean`).

PARTIAL by design: numpy's RNG is a PARAMETER of the model (the index vector of `thin`, the drawn
samples of `moment_match`, the index draws of the age-to-age bootstrap, the uniform draws of the
maximum-entropy bootstrap); every theorem below holds for EVERY value of these parameters.
INSIDE the model since round 7 (sections 7-9), over exact rationals: the whole arithmetic of
`maximum_entropy_ensemble` (limits, interval ends, mean-preserving shift, quantile function, sort, rank
re-imposition), the empirical age-to-age factors with the chained product of `_develop_triangle_by_atas`,
and the moments / gamma parameters handed to the sampler of `moment_match`.
OUTSIDE: what the draws' DISTRIBUTIONS are (volume weights of `rng.choice`, uniformity, the samplers
`np.random.normal/lognormal/gamma`, hence the realised mean/variance of moment-matched samples), the
lognormal parameters (log / sqrt), and float64 rounding (harness: relative tolerance 2^-40).
-/
import Bermuda.Model.Resample
import Bermuda.Spec.C17
import Bermuda.Lemmas.Resample
import Bermuda.Lemmas.ResampleSpec
import Bermuda.Lemmas.ResampleExt
import Bermuda.Lemmas.ResampleME
import Bermuda.Lemmas.ResampleATA
import Bermuda.Lemmas.ResampleMESpec
import Bermuda.Lemmas.ResampleBoot
import Bermuda.Lemmas.ResampleCW
import Bermuda.Lemmas.ResampleChain
import Bermuda.Lemmas.ResampleRows
import Bermuda.Lemmas.ResampleMulti
namespace Bermuda.Properties.C17
open Bermuda Bermuda.Resample

/-! ### 1. re-imposing a rank order (last step of `maximum_entropy_ensemble`, `_sort_x_on_y_rank`) -/

theorem reimposeRank_length (xs qs : List Rat) : (reimposeRank xs qs).length = xs.length :=
  Resample.reimposeRank_length xs qs

/-- **reimposeRank_order.** The result carries the rank order of the source:
`xs[i] < xs[j] → r[i] ≤ r[j]`, for every vector `qs` of the right length. -/
theorem reimposeRank_order {xs qs : List Rat} (hl : qs.length = xs.length) {i j : Nat}
    (hi : i < xs.length) (hj : j < xs.length) (h : xs.getD i 0 < xs.getD j 0) :
    (reimposeRank xs qs).getD i 0 ≤ (reimposeRank xs qs).getD j 0 :=
  reimposeRank_order' hl hi hj h

/-- **reimposeRank_perm.** The result is a rearrangement of `qs`: nothing is invented or lost. -/
theorem reimposeRank_perm {xs qs : List Rat} (hl : qs.length = xs.length) :
    (reimposeRank xs qs).Perm qs :=
  reimposeRank_perm' hl

/-- ties in the source are broken by position (`sorted([v, i] ...)`): distinct positions get
distinct ranks -/
theorem rank_injective {xs : List Rat} {i j : Nat} (hi : i < xs.length) (hj : j < xs.length)
    (h : rank xs i = rank xs j) : i = j :=
  rank_injOn hi hj h

/-- non-vacuity (the series of Vinod's example, x = [4,12,36,20,8]): ranks, and the theorems apply -/
example : (List.range 5).map (rank [4, 12, 36, 20, 8]) = [0, 2, 4, 3, 1] := by decide +kernel
example : (reimposeRank [4, 12, 36, 20, 8] [5, 1, 4, 2, 3]).Perm [5, 1, 4, 2, 3] :=
  reimposeRank_perm rfl

/-! ### 2. `_develop_triangle_by_atas`, for EVERY factor table -/

/-- **develop_first_unchanged.** On a canonical triangle, whatever the resampled factors are, the
earliest development cell of every period comes back unchanged (the very same cell). -/
theorem develop_first_unchanged {t out : List Cell} {F : Factors} (h : developByAtas t F = .ok out)
    (hk : kindsConsistent t = true) (hs : t.Pairwise (fun a b => Cell.le a b)) :
    List.Forall₂ (fun c o => initialLag t (c.ps, c.pe) = some c.devLag → o = c) t out :=
  Blend.forall₂_imp' (fun _ _ h => h.2.2.1) (developByAtas_rel h hk hs)

/-- **develop_coords_fields.** … and every cell keeps its coordinates (period, dates, metadata) and
class; its values are its own values updated (`{**cell.values, **developed}`), so no field is lost. -/
theorem develop_coords_fields {t out : List Cell} {F : Factors} (h : developByAtas t F = .ok out)
    (hk : kindsConsistent t = true) (hs : t.Pairwise (fun a b => Cell.le a b)) :
    List.Forall₂ (fun c o => o.coord = c.coord ∧ o.kind = c.kind ∧
      ∃ its, o.values = Dict.union c.values its) t out :=
  Blend.forall₂_imp' (fun _ _ h => ⟨h.1, h.2.1, h.2.2.2⟩) (developByAtas_rel h hk hs)

/-! ### 3. bootstrap: number of replicates -/

/-- **bootstrap_count.** A successful bootstrap of a non-empty triangle returns exactly `n`
replicates, for every factor table / quantile vector. -/
theorem bootstrap_count {t : List Cell} {n : Int} {field : Option (List String)}
    {P : Nat → Nat → RepParam} {reps : List (List Cell)}
    (h : bootstrap t n field P = .ok reps) (hne : Triangle.slices t ≠ []) :
    reps.length = n.toNat := by
  unfold bootstrap at h
  split at h
  · cases h
  · dsimp only at h
    split at h
    · cases h
    · rename_i boots hboots
      have hlen := mapMExcept_length hboots
      have : boots.isEmpty = false := by
        cases boots with
        | nil =>
          have h0 : (Triangle.slices t).length = 0 := by simpa using hlen.symm
          exact absurd (List.eq_nil_of_length_eq_zero h0) hne
        | cons _ _ => rfl
      rw [this] at h
      simp only [Bool.false_eq_true, if_false] at h
      simpa using mapMExcept_length h

/-- `n ≤ 0` is refused -/
theorem bootstrap_refuses_nonpositive {t : List Cell} {n : Int} {field : Option (List String)}
    {P : Nat → Nat → RepParam} (h : n ≤ 0) : bootstrap t n field P = .error .valueError := by
  simp [bootstrap, h]

/-- every slice yields `n` replicates -/
theorem bootstrapSlice_count {s : List Cell} {n : Nat} {field : Option (List String)}
    {P : Nat → RepParam} {reps : List (List Cell)} (h : bootstrapSlice s n field P = .ok reps) :
    reps.length = n := by
  simpa using mapMExcept_length h

/-- what replicate `i` may do to a cell `c` of `t`: same period and dates, same class, the
metadata of `c` with the extra detail `bootstrap = i`, every field name of `c` still there, and no
field name that does not occur somewhere in `t` -/
def TagRel (t : List Cell) (i : Nat) (c o : Cell) : Prop :=
  o.ps = c.ps ∧ o.pe = c.pe ∧ o.ev = c.ev ∧ o.prev = c.prev ∧ o.kind = c.kind ∧
  o.md = c.md.edit (.detail "bootstrap" (.num (i : Rat))) ∧
  (∀ f ∈ c.values.keys, f ∈ o.values.keys) ∧ (∀ f ∈ o.values.keys, ∃ c' ∈ t, f ∈ c'.values.keys)

/-- **bootstrap_structure (multiset form).** For EVERY factor table and quantile vector: replicate
`i` is, up to order, the cells of `t` (up to order) each transformed by `tagCell i` after a
change that keeps coordinates, class and field names (`PreRel`). -/
theorem bootstrap_structure_perm {t : List Cell} {n : Int} {field : Option (List String)}
    {P : Nat → Nat → RepParam} {reps : List (List Cell)}
    (h : bootstrap t n field P = .ok reps) (hk : kindsConsistent t = true) :
    ∀ i (hi : i < reps.length), ∃ t' l, t'.Perm t ∧ reps[i].Perm (l.map (tagCell i)) ∧
      List.Forall₂ (PreRel t) t' l := by
  unfold bootstrap at h
  split at h
  · cases h
  · dsimp only at h
    split at h
    · cases h
    · rename_i boots hboots
      have hb2 : ∀ i, i < n.toNat →
          List.Forall₂ (fun s r => ∃ l, r.Perm (l.map (tagCell i)) ∧ List.Forall₂ (PreRel s) s l)
            ((Triangle.slices t).map (·.2)) (boots.map (·.getD i [])) := by
        intro i hin
        clear h
        have hb := mapMExcept_forall₂ hboots
        have hprops := slice_props hk
        rw [← List.zipIdx_map_fst 0 ((Triangle.slices t).map (·.2))] at hprops ⊢
        refine forall₂_map_left' (forall₂_map_right' ?_)
        generalize (List.map (fun x => x.2) (Triangle.slices t)).zipIdx = zs at hb hprops
        clear hboots
        induction hb with
        | nil => exact .nil
        | @cons sk b _ _ hh _ ih =>
          refine .cons ?_ (ih (fun s hs => hprops s (by
            simp only [List.map_cons, List.mem_cons]; exact Or.inr hs)))
          obtain ⟨hk', hs', _⟩ := hprops sk.1 (by simp)
          have hbl := mapMExcept_length hh
          simp only [List.length_range] at hbl
          have hib : i < (List.range n.toNat).length := by simpa using hin
          have hr := mapMExcept_getElem hh i hib
          simp only [List.getElem_range] at hr
          have hget : b.getD i [] = b[i]'(by rw [hbl]; exact hin) := by
            simp [List.getD_eq_getElem?_getD, hbl, hin]
          rw [hget]
          exact replicate_pre hr hk' hs'
      split at h
      · cases h; intro i hi; simp at hi
      · intro i hi
        have hlen := mapMExcept_length h
        have hi' : i < (List.range n.toNat).length := by rw [← hlen]; exact hi
        have hrep := mapMExcept_getElem h i hi'
        simp only [List.getElem_range] at hrep
        have hin : i < n.toNat := by simpa using hi'
        have hsum := sumTriangles_perm hrep
        obtain ⟨l, hp, hf⟩ := assemble (T := t) (hb2 i hin) (fun s hs => (slice_props hk s hs).2.2)
        exact ⟨_, l, slices_flatten_perm t, hsum.trans hp, hf⟩

/-- **bootstrap_structure.** For EVERY factor table and quantile vector, replicate `i` has as many
cells as `t`; every cell of `t` has a counterpart in it and every cell of it comes from a cell of
`t`, the counterpart having the same period and dates, the same class, the same metadata plus the
detail `bootstrap = i` (hence the same slices, each tagged), every field name of the source cell
and no field name foreign to `t`. Together with `bootstrap_count`: exactly `n` such replicates. -/
theorem bootstrap_structure {t : List Cell} {n : Int} {field : Option (List String)}
    {P : Nat → Nat → RepParam} {reps : List (List Cell)}
    (h : bootstrap t n field P = .ok reps) (hk : kindsConsistent t = true) :
    ∀ i (hi : i < reps.length), reps[i].length = t.length ∧
      (∀ c ∈ t, ∃ o ∈ reps[i], TagRel t i c o) ∧ (∀ o ∈ reps[i], ∃ c ∈ t, TagRel t i c o) := by
  intro i hi
  obtain ⟨t', l, hpt, hpr, hf⟩ := bootstrap_structure_perm h hk i hi
  have hf' : List.Forall₂ (TagRel t i) t' (l.map (tagCell i)) := by
    refine forall₂_map_right' (Blend.forall₂_imp' ?_ hf)
    rintro c o ⟨h1, h2, h3, h4⟩
    simp only [Cell.coord, Coord.mk.injEq] at h1
    obtain ⟨g1, g2, g3, g4, g5⟩ := h1
    exact ⟨g2, g3, g4, g5, h2, by simp [tagCell, g1], h3, h4⟩
  refine ⟨?_, ?_, ?_⟩
  · rw [hpr.length_eq, ← hpt.length_eq]
    exact Blend.forall₂_length' hf'
  · intro c hc
    obtain ⟨o, ho, hr⟩ := forall₂_mem_left hf' c (hpt.mem_iff.mpr hc)
    exact ⟨o, hpr.mem_iff.mpr ho, hr⟩
  · intro o ho
    obtain ⟨c, hc, hr⟩ := forall₂_mem_right hf' o (hpr.mem_iff.mp ho)
    exact ⟨c, hpt.mem_iff.mp hc, hr⟩

/-- **spec_bootstrap_structure** (bridge). `Spec.C17.bootstrapStructureOk` — the verdict `structure` of the
driver — is true of the model's replicates: `n` of them, each with one cell at every source coordinate (metadata
tagged `bootstrap = i`), of the same class and with EXACTLY the source cell's field names. Hypotheses the Bool
predicate needs beyond `bootstrap_structure`: coordinates pairwise distinct (the predicate looks cells up by
coordinate), the tag keeps slices apart (`TagInjective`: false only if two slices differ in nothing but a
`bootstrap` detail), and every cell carries every field name of the triangle (`UniformFields`; otherwise a
developed cell may inherit a field name from the previous cell of its row and only `TagRel`'s ⊇ holds). -/
theorem spec_bootstrap_structure {t : List Cell} {n : Int} {field : Option (List String)}
    {P : Nat → Nat → RepParam} {reps : List (List Cell)}
    (h : bootstrap t n field P = .ok reps) (hk : kindsConsistent t = true) (hne : Triangle.slices t ≠ [])
    (hnd : (t.map (·.coord)).Nodup) (hinj : ∀ i, TagInjective t i) (hU : UniformFields t) :
    Spec.C17.bootstrapStructureOk t n.toNat reps = true := by
  simp only [Spec.C17.bootstrapStructureOk, bootstrap_count h hne, beq_self_eq_true, Bool.true_and,
    List.all_eq_true]
  rintro ⟨rep, i⟩ hm
  have hget : reps[i]? = some rep := by simpa using List.mem_zipIdx_iff_getElem?.mp hm
  obtain ⟨hi, rfl⟩ := List.getElem?_eq_some_iff.mp hget
  obtain ⟨t', l, hpt, hpr, hf⟩ := bootstrap_structure_perm h hk i hi
  exact replicateStructureOk_model hpr hf hpt hnd (hinj i) hU

/-- **bootstrap_first_unchanged.** `develop_first_unchanged` lifted through `_bootstrap_slice`, the bootstrap
tag and `sum(boot)` to the RESULT of `bootstrap` (canonical source, EVERY factor table and quantile vector): a
cell that is the earliest development cell of its period in a slice routed to the age-to-age method has, in
every replicate `i`, exactly one counterpart at its coordinates, and that counterpart is the cell itself with
only the detail `bootstrap = i` added — all values unchanged. -/
theorem bootstrap_first_unchanged {t : List Cell} {n : Int} {field : Option (List String)}
    {P : Nat → Nat → RepParam} {reps : List (List Cell)}
    (h : bootstrap t n field P = .ok reps) (hk : kindsConsistent t = true)
    (hs : t.Pairwise (fun a b => Cell.le a b)) (hnd : (t.map (·.coord)).Nodup) (hinj : ∀ i, TagInjective t i) :
    ∀ i (hi : i < reps.length), ∀ c ∈ t, useAtas (Spec.C17.sliceOf t c) = true →
      initialLag (Spec.C17.sliceOf t c) (c.ps, c.pe) = some c.devLag →
      Spec.C17.repCell reps[i] c i = some (tagCell i c) := by
  intro i hi c hc hu hinit
  obtain ⟨t', l, hpt, hpr, hf⟩ := bootstrap_structure_perm2 h hk hs i hi
  obtain ⟨o, ⟨_, hfirst⟩, hrep⟩ := repCell_of_pairing (fun _ _ h => h.1.1) hpr hf hpt hnd (hinj i) c hc
  rw [hrep, hfirst hu hinit]

/-- **spec_first_unchanged** (bridge). `Spec.C17.firstCellsUnchanged` — the verdict `first` of the driver — is
true of every replicate of the model (field names within a cell distinct, as in a Python dict) -/
theorem spec_first_unchanged {t : List Cell} {n : Int} {field : Option (List String)}
    {P : Nat → Nat → RepParam} {reps : List (List Cell)}
    (h : bootstrap t n field P = .ok reps) (hk : kindsConsistent t = true)
    (hs : t.Pairwise (fun a b => Cell.le a b)) (hnd : (t.map (·.coord)).Nodup) (hinj : ∀ i, TagInjective t i)
    (hwf : ∀ c ∈ t, c.values.keys.Nodup) :
    ∀ i (hi : i < reps.length), Spec.C17.firstCellsUnchanged t reps[i] i = true := by
  intro i hi
  obtain ⟨t', l, hpt, hpr, hf⟩ := bootstrap_structure_perm2 h hk hs i hi
  exact firstCellsUnchanged_model hpr hf hpt hnd (hinj i) hwf

/-- both bridges for the model that takes numpy's index draws (`bootstrapD`), as the driver runs it -/
theorem spec_bootstrapD {t : List Cell} {n : Int} {field : Option (List String)}
    {D : Nat → Nat → Draws} {reps : List (List Cell)}
    (h : bootstrapD t n field D = .ok reps) (hk : kindsConsistent t = true)
    (hs : t.Pairwise (fun a b => Cell.le a b)) (hne : Triangle.slices t ≠ [])
    (hnd : (t.map (·.coord)).Nodup) (hinj : ∀ i, TagInjective t i) (hU : UniformFields t)
    (hwf : ∀ c ∈ t, c.values.keys.Nodup) :
    Spec.C17.bootstrapStructureOk t n.toNat reps = true ∧
    ∀ i (hi : i < reps.length), Spec.C17.firstCellsUnchanged t reps[i] i = true :=
  ⟨spec_bootstrap_structure (bootstrapD_eq h) hk hne hnd hinj hU,
   spec_first_unchanged (bootstrapD_eq h) hk hs hnd hinj hwf⟩

/-! ### 4. thin -/

/-- **thin_eq_self.** `k` equal to the sample count returns the triangle itself. -/
theorem thin_eq_self {t : List Cell} {n : Nat} (idx : List Nat) (h : numSamples t = .ok n) :
    thin t n idx = .ok .same :=
  Resample.thin_eq_self idx h

/-- **thin_error.** A larger `k` is refused. -/
theorem thin_error {t : List Cell} {n k : Nat} (idx : List Nat) (h : numSamples t = .ok n)
    (hk : n < k) : thin t k idx = .error .valueError :=
  Resample.thin_error idx h hk

/-- **thin_same_positions.** Otherwise, for EVERY index vector, the result is the same triangle
cell by cell with ONE `gather idx` applied to every array holding more than one sample. -/
theorem thin_same_positions {t out : List Cell} {k : Nat} {idx : List Nat}
    (h : thin t k idx = .ok (.fresh out)) (hk : kindsConsistent t = true)
    (hs : t.Pairwise (fun a b => Cell.le a b)) :
    out = t.map (thinCell idx) ∧
    ∀ c ∈ t, (thinCell idx c).coord = c.coord ∧ (thinCell idx c).kind = c.kind ∧
      (thinCell idx c).values = c.values.map (fun (f, v) => (f, thinVal idx v)) :=
  ⟨thin_fresh h hk hs, fun _ _ => ⟨rfl, rfl, rfl⟩⟩

/-- what `rng.choice(n, size=k, replace=False)` guarantees about its result (the interface fact about the draw;
the harness asserts the recorded call had `size == k`, `replace is False` and checks the three facts) -/
def ValidDraw (n k : Nat) (idx : List Nat) : Prop := idx.length = k ∧ idx.Nodup ∧ ∀ i ∈ idx, i < n

/-- **thin_positions_count.** For a valid draw every array of `n > 1` samples becomes an array of EXACTLY `k`
entries, the `j`-th being the source's sample at position `idx[j]`; the `k` positions are pairwise distinct and
in range, the same in every array of every cell (`thin_same_positions`) -/
theorem thin_positions_count {n k : Nat} {idx : List Nat} (hv : ValidDraw n k idx) (isInt : Bool) (m : Nat)
    (d : List Rat) (hd : d.length = n) (h1 : n > 1) :
    ∃ r, thinVal idx (.arr isInt [m] d) = .arr isInt [k] r ∧ r.length = k ∧
      (∀ j (hj : j < idx.length), r[j]? = d[idx[j]]? ∧ idx[j] < d.length) ∧
      ∀ j j' (hj : j < idx.length) (hj' : j' < idx.length), j ≠ j' → idx[j] ≠ idx[j'] := by
  obtain ⟨hk, hnd, hr⟩ := hv
  refine ⟨idx.map (d.getD · 0), ?_, by simp [hk], ?_, ?_⟩
  · have : d.length > 1 := by omega
    simp [thinVal, this, gather, hk]
  · intro j hj
    have hlt : idx[j] < d.length := by rw [hd]; exact hr _ (List.getElem_mem hj)
    refine ⟨?_, hlt⟩
    simp [hj, List.getD_eq_getElem?_getD, List.getElem?_eq_getElem hlt]
  · intro j j' hj hj' hne he
    exact hne ((List.Nodup.getElem_inj_iff hnd).mp he)

/-- what happens to an array: positions `idx`, in that order, nothing else -/
theorem thinVal_array (idx : List Nat) (isInt : Bool) (n : Nat) (d : List Rat) (h : d.length > 1) :
    thinVal idx (.arr isInt [n] d) = .arr isInt [idx.length] (idx.map (d.getD · 0)) := by
  simp [thinVal, h, gather]

/-- **thin_scalars_untouched.** Scalars, `None` and arrays with a single sample are untouched. -/
theorem thin_scalars_untouched (idx : List Nat) :
    (∀ i, thinVal idx (.int i) = .int i) ∧ (∀ q, thinVal idx (.flt q) = .flt q) ∧
    thinVal idx .none = .none ∧
    ∀ isInt n d, d.length ≤ 1 → thinVal idx (.arr isInt [n] d) = .arr isInt [n] d := by
  refine ⟨fun _ => rfl, fun _ => rfl, rfl, ?_⟩
  intro isInt n d h
  have : ¬ d.length > 1 := by omega
  simp [thinVal, this]

/-- non-vacuity -/
example : thinVal [2, 0] (.arr false [3] [10, 20, 30]) = .arr false [2] [30, 10] := by decide +kernel

/-! ### 5. moment_match -/

/-- what `_generate_samples` does to a value: an array keeps its length and shape and receives the
drawn vector in the source's rank order; anything else is returned as it is -/
theorem generateSamples_spec (drawn : List Rat) :
    (∀ isInt n d, generateSamples (.arr isInt [n] d) drawn = .arr false [n] (reimposeRank d drawn)) ∧
    (∀ i, generateSamples (.int i) drawn = .int i) ∧ (∀ q, generateSamples (.flt q) drawn = .flt q) ∧
    generateSamples .none drawn = .none :=
  ⟨fun _ _ _ => rfl, fun _ => rfl, fun _ => rfl, rfl⟩

/-- one field: every cell keeps coordinates and class, and its values are its own values with
that ONE field replaced (`Dict.set` keeps every other field and the key order) -/
theorem momentField_values {f : String} {draws : Nat → List Rat} {cs out : List Cell} {i : Nat}
    (h : momentField f draws i cs = .ok out) :
    List.Forall₂ (fun c o => o.coord = c.coord ∧ o.kind = c.kind ∧
      ∃ v drawn, (∃ j, drawn = draws j) ∧ c.values.get? f = some v ∧
        o.values = c.values.set f (generateSamples v drawn))
      cs out :=
  momentField_rel h

/-- **momentMatch_structure.** For EVERY drawn vector, the result of `moment_match` on a canonical
triangle has the same cells (coordinates, class) in the same order; with `generateSamples_spec`
and `reimposeRank_length/order/perm`: selected arrays keep length and rank order. -/
theorem momentMatch_structure {t out : List Cell} {fields : List String} {distOk : Bool}
    {draws : Nat → String → List Rat} (h : momentMatch t fields distOk draws = .ok out)
    (hk : kindsConsistent t = true) (hs : t.Pairwise (fun a b => Cell.le a b)) :
    List.Forall₂ (fun c o => o.coord = c.coord ∧ o.kind = c.kind) t out := by
  unfold momentMatch at h
  split at h
  · cases h
  · split at h
    · cases h
    · exact momentLoop_rel h hk hs

/-- unknown field names are refused with `KeyError` -/
theorem momentMatch_refuses_unknown_field {t : List Cell} {fields : List String} {distOk : Bool}
    {draws : Nat → String → List Rat}
    (h : fields.any (fun f => !(fieldsOf t).contains f) = true) :
    momentMatch t fields distOk draws = .error .keyError := by
  unfold momentMatch
  rw [if_pos h]

/-- **momentMatch_other_fields.** For EVERY drawn vector: every cell keeps its field names (and
their order), and every field that is NOT selected reads exactly as before. -/
theorem momentMatch_other_fields {t out : List Cell} {fields : List String} {distOk : Bool}
    {draws : Nat → String → List Rat} (h : momentMatch t fields distOk draws = .ok out)
    (hk : kindsConsistent t = true) (hs : t.Pairwise (fun a b => Cell.le a b)) :
    List.Forall₂ (fun c o => o.coord = c.coord ∧ o.kind = c.kind ∧ o.values.keys = c.values.keys ∧
      ∀ f, f ∉ fields → o.values.get? f = c.values.get? f) t out := by
  unfold momentMatch at h
  split at h
  · cases h
  · split at h
    · cases h
    · exact momentLoop_fields h hk hs

/-- **momentMatch_selected_fields.** … and a selected field (names given once) reads
`_generate_samples(old value, some drawn vector)`: by `generateSamples_spec` an array of the same
length and shape holding the drawn vector in the old samples' rank order (`reimposeRank_order`,
`reimposeRank_perm`), a scalar or `None` unchanged. -/
theorem momentMatch_selected_fields {t out : List Cell} {fields : List String} {distOk : Bool}
    {draws : Nat → String → List Rat} (h : momentMatch t fields distOk draws = .ok out)
    (hnd : fields.Nodup)
    (hk : kindsConsistent t = true) (hs : t.Pairwise (fun a b => Cell.le a b)) :
    List.Forall₂ (fun c o => ∀ f ∈ fields, ∃ v drawn, (∃ j, drawn = draws j f) ∧
      c.values.get? f = some v ∧ o.values.get? f = some (generateSamples v drawn)) t out := by
  unfold momentMatch at h
  split at h
  · cases h
  · split at h
    · cases h
    · exact momentLoop_selected h hnd hk hs

/-! ### 6. the executable Spec predicates hold on the model's outputs -/

/-- `Spec.C17.rankOrderOk`, `rankFixed`, `sameMultiset` — the three verdicts of the driver's
`reimpose` request — are true of `reimposeRank xs qs` -/
theorem spec_rank {xs qs : List Rat} (hl : qs.length = xs.length) :
    Spec.C17.rankOrderOk xs (reimposeRank xs qs) = true ∧
    Spec.C17.rankFixed xs (reimposeRank xs qs) = true ∧
    Spec.C17.sameMultiset qs (reimposeRank xs qs) = true :=
  ⟨rankOrderOk_reimpose hl, rankFixed_reimpose hl, sameMultiset_reimpose hl⟩

/-- `Spec.C17.thinOk` is true of the model's thinned triangle whenever the predicate can read the
index vector back (`spec_thin_recoverable` gives a sufficient condition) -/
theorem spec_thin {t out : List Cell} {idx : List Nat} {k n : Nat}
    (h : thin t k idx = .ok (.fresh out)) (hkc : kindsConsistent t = true)
    (hs : t.Pairwise (fun a b => Cell.le a b))
    (hrec : Spec.C17.recoverIdx t (t.map (thinCell idx)) = some idx) (hk : idx.length = k)
    (hnd : idx.Nodup) (hr : ∀ i ∈ idx, i < n) (hwf : ∀ c ∈ t, c.values.keys.Nodup) :
    Spec.C17.thinOk t out k n = true := by
  rw [thin_fresh h hkc hs]
  exact thinOk_model hrec hk hnd hr hwf

theorem spec_thin_recoverable {c : Cell} {rest : List Cell} {f : String} {isInt : Bool} {m : Nat}
    {d : List Rat} {vs : Dict Val} {idx : List Nat}
    (hv : c.values = (f, .arr isInt [m] d) :: vs) (hlen : d.length > 1) (hd : d.Nodup)
    (hr : ∀ i ∈ idx, i < d.length) :
    Spec.C17.recoverIdx (c :: rest) ((c :: rest).map (thinCell idx)) = some idx :=
  recoverIdx_first hv hlen hd hr

/-- `Spec.C17.momentOk` is true of the model's `moment_match`, for every drawn vectors at least as
long as the arrays they replace -/
theorem spec_moment {t out : List Cell} {fields : List String} {distOk : Bool}
    {draws : Nat → String → List Rat} (h : momentMatch t fields distOk draws = .ok out)
    (hnd : fields.Nodup) (hk : kindsConsistent t = true) (hs : t.Pairwise (fun a b => Cell.le a b))
    (hwf : ∀ c ∈ t, c.values.keys.Nodup)
    (hlen : ∀ c ∈ t, ∀ f isInt n d, (f, Val.arr isInt [n] d) ∈ c.values →
      ∀ j, d.length ≤ (draws j f).length) :
    Spec.C17.momentOk t out fields = true :=
  momentOk_model h hnd hk hs hwf hlen

/-! ### the guards of `maximum_entropy_ensemble` (bootstrap.py:250-258): `meEnsembleRaw` -/

/-- a single value comes back unchanged, whatever it is (also `[None]`) -/
theorem meEnsembleRaw_single (x : Val) (qs : List Rat) : meEnsembleRaw [x] qs = .ok [x] := rfl

/-- a constant series (every later element `==` the first; `[None, None]` included) comes back unchanged -/
theorem meEnsembleRaw_const (x y : Val) (rest : List Val) (qs : List Rat)
    (h : (y :: rest).all (scalarEq x) = true) : meEnsembleRaw (x :: y :: rest) qs = .ok (x :: y :: rest) := by
  simp only [meEnsembleRaw, h, if_true]

/-- **refusal**: a non-constant series that contains `None` is refused with ValueError -/
theorem meEnsembleRaw_refuses_none (x y : Val) (rest : List Val) (qs : List Rat)
    (hc : (y :: rest).all (scalarEq x) = false) (hn : Val.none ∈ x :: y :: rest) :
    meEnsembleRaw (x :: y :: rest) qs = .error .valueError := by
  have : (x :: y :: rest).any (fun v => v == Val.none) = true := by
    rw [List.any_eq_true]; exact ⟨_, hn, by simp⟩
  simp only [meEnsembleRaw, hc, this, if_true, Bool.false_eq_true, if_false]

/-- on a series of numbers (what the bootstrap hands in) the wrapper IS the existing model -/
theorem meEnsembleRaw_eq_meEnsemble (xs : List Val) (qs : List Rat) (h : ∀ v ∈ xs, isNum v = true) :
    meEnsembleRaw xs qs = meEnsemble xs qs := by
  match xs, h with
  | [], _ => rfl
  | [x], _ => rfl
  | x :: y :: rest, h =>
    obtain ⟨p, hp⟩ := numOf_isNum (h x (by simp))
    obtain ⟨ns, hns⟩ := mapM_isNum (y :: rest) (fun w hw => h w (by simp [List.mem_cons] at hw ⊢; exact Or.inr hw))
    have hall := all_scalarEq_nums x p hp (y :: rest) ns hns
    have hm : mapMExcept numOf (x :: y :: rest) = .ok (p :: ns) := by
      simp only [mapMExcept] at hns ⊢
      rw [hp]; simp only []
      rw [hns]
    have hnone : (x :: y :: rest).any (fun v => v == Val.none) = false := by
      rw [Bool.eq_false_iff]; intro hh
      rw [List.any_eq_true] at hh
      obtain ⟨v, hv, hv2⟩ := hh
      have := h v hv
      simp at hv2; subst hv2; simp [isNum] at this
    unfold meEnsembleRaw meEnsemble
    simp only [hm, hnone, Bool.false_eq_true, if_false]
    by_cases hc : (y :: rest).all (scalarEq x) = true
    · have : (p :: ns).all (fun q => q == (p :: ns).headD 0) = true := by
        simp only [List.headD_cons, List.all_cons, beq_self_eq_true, Bool.true_and]
        rw [← hall]; exact hc
      simp only [hc, if_true, this]
    · have : (p :: ns).all (fun q => q == (p :: ns).headD 0) = false := by
        simp only [List.headD_cons, List.all_cons, beq_self_eq_true, Bool.true_and]
        rw [← hall]; simpa using hc
      simp only [hc, this, Bool.false_eq_true, if_false]

/-! ### 7. `maximum_entropy_ensemble`: the arithmetic, for EVERY vector of draws in `[0, 1)`

Notation: `sx` the sorted series (`n ≥ 2` values), `lo`/`hi` the outer interval ends `z_t[0]`, `z_t[-1]` —
the tuple `L` when given, else `min x − tm`, `max x + tm` with `tm` the 10 %-trimmed mean of the absolute
consecutive differences (`meLimits`). -/

/-- a draw `u ∈ [0,1)` is assigned to exactly one grid interval: `searchsorted(xr, u, "right") - 1 = i` with
`i/n ≤ u < (i+1)/n`, `i < n` -/
theorem me_index {n : Nat} (hn : 0 < n) {u : Rat} (h0 : 0 ≤ u) (h1 : u < 1) :
    ∃ i : Nat, i < n ∧ meIdx n u = (i : Int) ∧ xrAt n i ≤ u ∧ u < xrAt n (i + 1) :=
  meIdx_spec hn h0 h1

/-- **the mean-preserving adjustment in closed form.** Interior intervals are not shifted (`[z_i, z_{i+1}]`);
the first becomes `[(lo + x₀)/2, z₁ + (x₀ − lo)/2]`, the last `[z_{n-1} − (hi − x_{n-1})/2, (x_{n-1} + hi)/2]`:
they stick out over `z₁` resp. below `z_{n-1}` by half the slack the limits leave. -/
theorem me_interval_ends {sx : List Rat} (lo hi : Rat) (h2 : 2 ≤ sx.length) :
    (y0At sx lo hi 0 = (lo + sx.getD 0 0) / 2 ∧ y1At sx lo hi 0 = zAt sx lo hi 1 + (sx.getD 0 0 - lo) / 2) ∧
    (∀ i, 0 < i → i + 1 < sx.length →
      y0At sx lo hi i = zAt sx lo hi i ∧ y1At sx lo hi i = zAt sx lo hi (i + 1)) ∧
    (∀ i, 0 < i → i + 1 = sx.length →
      y0At sx lo hi i = zAt sx lo hi i - (hi - sx.getD i 0) / 2 ∧ y1At sx lo hi i = (sx.getD i 0 + hi) / 2) :=
  ⟨y_first lo hi h2, fun _ h0 h1 => y_mid lo hi h0 h1, fun _ h0 h1 => y_last lo hi h0 h1⟩

/-- the value at a draw lies between the ends of ITS shifted interval -/
theorem me_quantile_in_interval {sx : List Rat} (lo hi : Rat) {i : Nat} {u : Rat} (hn : 0 < sx.length)
    (hl : xrAt sx.length i ≤ u) (hu : u < xrAt sx.length (i + 1))
    (hz : zAt sx lo hi i ≤ zAt sx lo hi (i + 1)) :
    y0At sx lo hi i ≤ quantileOn sx lo hi i u ∧ quantileOn sx lo hi i u ≤ y1At sx lo hi i :=
  quantileOn_between_le lo hi hn hl hu hz

/-- the quantile function is monotone in the draw inside every grid interval … -/
theorem me_quantile_mono_within {sx : List Rat} (lo hi : Rat) (i : Nat) {u u' : Rat} (hn : 0 < sx.length)
    (huu : u ≤ u') (hz : zAt sx lo hi i ≤ zAt sx lo hi (i + 1)) :
    quantileOn sx lo hi i u ≤ quantileOn sx lo hi i u' :=
  quantileOn_mono lo hi i hn huu hz

/-- **me_quantile_mono.** … and over the whole of `[0, 1)`, provided the limits leave no slack at the first
grid point (`lo = min x`) or the smaller draw is past it, and none at the last (`hi = max x`, as in
`bootstrap`) or the larger draw is before it. -/
theorem me_quantile_mono {sx : List Rat} {lo hi : Rat} (hs : SortedD sx) (h2 : 2 ≤ sx.length)
    (hlo : lo ≤ sx.getD 0 0) (hhi : sx.getD (sx.length - 1) 0 ≤ hi) {u u' q q' : Rat}
    (h0 : 0 ≤ u) (huu : u ≤ u') (h1 : u' < 1)
    (hfirst : lo = sx.getD 0 0 ∨ xrAt sx.length 1 ≤ u)
    (hlast : hi = sx.getD (sx.length - 1) 0 ∨ u' < xrAt sx.length (sx.length - 1))
    (hq : meQuantile sx lo hi u = .ok q) (hq' : meQuantile sx lo hi u' = .ok q') : q ≤ q' :=
  meQuantile_mono hs h2 hlo hhi h0 huu h1 hfirst hlast hq hq'

/-- WITHOUT that proviso it is not monotone (hence `sorted(quantiles)` in the code): series `[10, 11]`,
`L = (0, 11)` as `bootstrap` passes it; the draw 0.49 gives 15.29, the larger draw 0.5 gives 10.5 -/
theorem me_quantile_not_monotone :
    meQuantile [10, 11] 0 11 (49 / 100) = .ok (1529 / 100) ∧ meQuantile [10, 11] 0 11 (1 / 2) = .ok (21 / 2) := by
  decide +kernel

/-- length preserved: one quantile per value -/
theorem me_quantiles_length {xs U qs : List Rat} {L : Option (Rat × Rat)} (h : meQuantiles xs U L = .ok qs) :
    qs.length = xs.length :=
  (meQuantiles_spec h).1

/-- the result of the non-degenerate case: the quantile list in the rank order of the source — a permutation
of the quantiles, of the source's length, with `x[i] < x[j] → r[i] ≤ r[j]` -/
theorem me_output {xs U qs : List Rat} {L : Option (Rat × Rat)} (h : meQuantiles xs U L = .ok qs) :
    (reimposeRank xs qs).Perm qs ∧ (reimposeRank xs qs).length = xs.length ∧
    ∀ i j, i < xs.length → j < xs.length → xs.getD i 0 < xs.getD j 0 →
      (reimposeRank xs qs).getD i 0 ≤ (reimposeRank xs qs).getD j 0 :=
  ⟨reimposeRank_perm (me_quantiles_length h), reimposeRank_length xs qs,
   fun _ _ hi hj hlt => reimposeRank_order (me_quantiles_length h) hi hj hlt⟩

/-- the trimmed mean is not negative: without `L` the limits lie outside the data -/
theorem me_trimmed_mean_nonneg (xs : List Rat) : 0 ≤ trimMean (absDiffs xs) :=
  trimMean_nonneg _ (absDiffs_nonneg xs)

/-- **me_envelope.** With limits outside the data (`lo ≤ min x`, `max x ≤ hi`) EVERY value of the replicate lies
in `[meLower, meUpper]` = `[min((lo+x₀)/2, z_{n-1} − (hi−x_{n-1})/2), max(z₁ + (x₀−lo)/2, (x_{n-1}+hi)/2)]`. -/
theorem me_envelope {xs U qs : List Rat} {L : Option (Rat × Rat)} (h : meQuantiles xs U L = .ok qs)
    (h2 : 2 ≤ xs.length) (hU : ∀ u ∈ U, 0 ≤ u ∧ u < 1)
    (hlo : (meLimits xs L).1 ≤ (sortQ xs).getD 0 0)
    (hhi : (sortQ xs).getD (xs.length - 1) 0 ≤ (meLimits xs L).2) :
    ∀ q ∈ reimposeRank xs qs, meLower (sortQ xs) (meLimits xs L).1 (meLimits xs L).2 ≤ q ∧
      q ≤ meUpper (sortQ xs) (meLimits xs L).1 (meLimits xs L).2 :=
  fun q hq => meQuantiles_envelope h h2 hU hlo hhi q
    ((reimposeRank_perm (me_quantiles_length h)).mem_iff.mp hq)

/-- **me_within_limits.** The replicate lies WITHIN THE LIMITS `[lo, hi]` whenever `limitsBind`: the limits are
outside the data and the slack on either side is at most twice the room on the other
(`x₀ − lo ≤ 2 (hi − z₁)` and `hi − x_{n-1} ≤ 2 (z_{n-1} − lo)`). -/
theorem me_within_limits {xs U qs : List Rat} {L : Option (Rat × Rat)} (h : meQuantiles xs U L = .ok qs)
    (h2 : 2 ≤ xs.length) (hU : ∀ u ∈ U, 0 ≤ u ∧ u < 1)
    (hb : limitsBind (sortQ xs) (meLimits xs L).1 (meLimits xs L).2 = true) :
    ∀ q ∈ reimposeRank xs qs, (meLimits xs L).1 ≤ q ∧ q ≤ (meLimits xs L).2 := by
  intro q hq
  have hb' := hb
  simp only [limitsBind, Bool.and_eq_true, decide_eq_true_eq, sortQ_length] at hb'
  obtain ⟨a, b⟩ := me_envelope h h2 hU hb'.1.1.1 hb'.1.1.2 q hq
  obtain ⟨c, d⟩ := envelope_in_limits hb
  exact ⟨le_trans c a, le_trans b d⟩

/-- **me_within_limits_trimmed.** Without `L` (limits `min x − tm`, `max x + tm`) this is unconditional. -/
theorem me_within_limits_trimmed {xs U qs : List Rat} (h : meQuantiles xs U none = .ok qs)
    (h2 : 2 ≤ xs.length) (hU : ∀ u ∈ U, 0 ≤ u ∧ u < 1) :
    ∀ q ∈ reimposeRank xs qs,
      (sortQ xs).getD 0 0 - trimMean (absDiffs xs) ≤ q ∧
      q ≤ (sortQ xs).getD (xs.length - 1) 0 + trimMean (absDiffs xs) :=
  me_within_limits h h2 hU (limitsBind_trimmed xs h2)

/-- **me_bootstrap_limits.** With the limits `bootstrap` passes, `L = (0, max x)`, on a non-negative series:
the lower limit always holds; the upper limit holds when `x₀ + x₁/2 ≤ max x` (two smallest values), and in
general only `q ≤ x₀ + x₁/2`. -/
theorem me_bootstrap_limits {xs U qs : List Rat} (h : meQuantiles xs U (some (bootLimits xs)) = .ok qs)
    (h2 : 2 ≤ xs.length) (hU : ∀ u ∈ U, 0 ≤ u ∧ u < 1) (hpos : 0 ≤ (sortQ xs).getD 0 0) :
    ∀ q ∈ reimposeRank xs qs, 0 ≤ q ∧
      (q ≤ (bootLimits xs).2 ∨ q ≤ (sortQ xs).getD 0 0 + (sortQ xs).getD 1 0 / 2) := by
  intro q hq
  have hmax := bootLimits_snd xs (by omega)
  have hl : (sortQ xs).length = xs.length := sortQ_length xs
  have hlim : meLimits xs (some (bootLimits xs)) = (0, (bootLimits xs).2) := by
    simp [meLimits, bootLimits]
  obtain ⟨a, b⟩ := me_envelope h h2 hU (by rw [hlim]; exact hpos) (by rw [hlim, hmax]) q hq
  rw [hlim] at a b
  simp only [] at a b
  have z1 := zAt_mid (sx := sortQ xs) 0 (bootLimits xs).2 (i := 1) (by omega) (by omega)
  have zl := zAt_mid (sx := sortQ xs) 0 (bootLimits xs).2 (i := xs.length - 1) (by omega) (by omega)
  have s1 := sortedD_sortQ xs 0 (xs.length - 1 - 1) (by omega) (by omega)
  have s2 := sortedD_sortQ xs 0 (xs.length - 1) (by omega) (by omega)
  simp only [Nat.sub_self] at z1
  rw [hmax] at z1 zl
  constructor
  · refine le_trans ?_ a
    unfold meLower; simp only [hl, zl, hmax]
    split <;> linarith
  · unfold meUpper at b; simp only [hl, z1, hmax] at b
    split at b
    · left; rw [hmax]; linarith
    · right; linarith

/-- for `bootstrap`'s own limits the binding condition is EXACTLY "non-negative data and `x₀ + x₁/2 ≤ max x`"
(the signature of known finding D26 is the negation of the right-hand side) -/
theorem me_bootstrap_limits_bind_iff (xs : List Rat) (h2 : 2 ≤ xs.length) :
    limitsBind (sortQ xs) 0 (bootLimits xs).2 = true ↔
      0 ≤ (sortQ xs).getD 0 0 ∧ (sortQ xs).getD 0 0 + (sortQ xs).getD 1 0 / 2 ≤ (bootLimits xs).2 :=
  limitsBind_boot_iff xs h2

/-- the upper limit can indeed be exceeded (`[10, 11]`, `L = (0, 11)`, draw 0.49: 15.29 > 11): "within the
given limits" holds under `limitsBind` only — see `notes/agents/c17b.md` -/
theorem me_exceeds_upper_limit :
    meQuantile [10, 11] 0 11 (49 / 100) = .ok (1529 / 100) ∧ limitsBind [10, 11] 0 11 = false := by
  decide +kernel

/-- the full function with the guards in code order is the rank re-imposition `meEnsembleRaw` fed with the
model's own quantile list — so the guard theorems above and the structural theorems of `bootstrap` apply -/
theorem maxEntropy_eq_raw {xs : List Val} {nums qs U : List Rat} {L : Option (Rat × Rat)}
    (hnum : mapMExcept numOf xs = .ok nums) (hq : meQuantiles nums U L = .ok qs) :
    maxEntropy xs U L = meEnsembleRaw xs qs :=
  maxEntropy_eq_raw' hnum hq

/-- a draw `≥ 1` is not refused by the (dead) guard but fails with `IndexError`; a draw `< 0` is silently
extrapolated through Python's negative index -/
theorem me_draw_out_of_range :
    meQuantile [1, 2, 4] 0 4 1 = .error .indexError ∧
    meQuantile [1, 2, 4] 0 4 (-1 / 2) = .ok (-1 / 2) := by
  decide +kernel

/-- `Spec.C17.meIntervalsOk / meEnvelopeOk / meLimitsOk / mePermOk / meValueOk` — the verdicts of the driver's
`me` request — are true of the model's replicate, for every slack `tol ≥ 0` -/
theorem spec_me {xs U qs : List Rat} {L : Option (Rat × Rat)} {tol : Rat} (h : meQuantiles xs U L = .ok qs)
    (h2 : 2 ≤ xs.length) (hU : ∀ u ∈ U, 0 ≤ u ∧ u < 1) (ht : 0 ≤ tol) :
    Spec.C17.meIntervalsOk xs L tol (reimposeRank xs qs) = true ∧
    Spec.C17.meEnvelopeOk xs L tol (reimposeRank xs qs) = true ∧
    Spec.C17.meLimitsOk xs L tol (reimposeRank xs qs) = true ∧
    Spec.C17.mePermOk xs U L tol (reimposeRank xs qs) = true ∧
    Spec.C17.meValueOk xs U L tol (reimposeRank xs qs) = true :=
  ⟨meIntervalsOk_model h h2 hU ht, meEnvelopeOk_model h h2 hU ht, meLimitsOk_model h h2 hU ht,
   mePermOk_model h ht, meValueOk_model h ht⟩

/-- **me_centre_width.** The independent restatement of `Spec/C17.lean` IS the model's quantile function: for a
draw `u ∈ [0, 1)` (series of `n ≥ 2` sorted values) the cell is `⌊u·n⌋`, the code's interval
`[z_i + shift_i, z_{i+1} + shift_i]` is `centre ± width/2`, and the value is the linear interpolation
`centre + ((u·n − i) − 1/2)·width` -/
theorem me_centre_width {sx : List Rat} (lo hi : Rat) (h2 : 2 ≤ sx.length) :
    (∀ i, i < sx.length →
      y0At sx lo hi i = Spec.C17.cwCentre sx i - Spec.C17.cwWidth sx lo hi i / 2 ∧
      y1At sx lo hi i = Spec.C17.cwCentre sx i + Spec.C17.cwWidth sx lo hi i / 2) ∧
    (∀ i u, xrAt sx.length i ≤ u → u < xrAt sx.length (i + 1) → Spec.C17.cwCell sx.length u = i) ∧
    (∀ u, 0 ≤ u → u < 1 → meQuantile sx lo hi u = .ok (Spec.C17.cwValue sx lo hi u)) :=
  ⟨fun _ hlt => cw_interval lo hi h2 hlt, fun _ _ hl hu => cwCell_eq (by omega) hl hu,
   fun _ h0 h1 => meQuantile_eq_cw lo hi h2 h0 h1⟩

/-- **spec_me_independent** (bridge). The two clauses that state the maximum-entropy values WITHOUT calling the
model's quantile function — `meValueCWOk` (the replicate is, as a multiset, the centre/width interpolation of the
`n` smallest draws) and `meIntervalsCWOk` (each value lies in a cell interval `centre ± |width|/2`) — are true of
the model's replicate, for every slack `tol ≥ 0`; with `rankFixed` (`spec_rank`) they determine the replicate. -/
theorem spec_me_independent {xs U qs : List Rat} {L : Option (Rat × Rat)} {tol : Rat}
    (h : meQuantiles xs U L = .ok qs) (hU : ∀ u ∈ U, 0 ≤ u ∧ u < 1) (ht : 0 ≤ tol) :
    Spec.C17.meValueCWOk xs U L tol (reimposeRank xs qs) = true ∧
    Spec.C17.meIntervalsCWOk xs L tol (reimposeRank xs qs) = true :=
  ⟨meValueCWOk_model h ht, meIntervalsCWOk_model h hU ht⟩

/-! ### 8. age-to-age: resampled factors and the chained product, for EVERY index draw -/

/-- **develop_value (arithmetic).** Chaining factors `x₀, x₁, …` from a start value `a`: the `k`-th developed
value is `a · x₀ ⋯ x_k` -/
theorem chain_value (a : Rat) (xs : List Rat) (k : Nat) (hk : k < xs.length) :
    (chainTail a xs).getD k 0 = a * prodQ (xs.take (k + 1)) :=
  chainTail_getD a xs k hk

/-- **identity resampling reproduces the row.** A period that draws its own factors `v₁/v₀, v₂/v₁, …` gets its
own values back exactly (values non-zero: falsy values are replaced by 1 in `_safe_ata_division`) -/
theorem chain_identity (v0 : Rat) (vs : List Rat) (h0 : v0 ≠ 0) (hv : ∀ v ∈ vs, v ≠ 0) :
    chainTail v0 (ratiosOf (v0 :: vs)) = vs :=
  chainTail_ratios v0 vs h0 hv

/-- the identity draws `[0, 1, …, len-1]` select the factor column itself -/
theorem gather_identity (arr : List Rat) : gatherE arr (List.range arr.length) = .ok arr :=
  gatherE_range arr

/-- **identity resampling, table level.** With the identity draws the resampled factor table IS the slice's
empirical table `_empirical_atas` (distinct lags — they are a sorted set — and distinct field names). That the whole
TRIANGLE is then reproduced is checked by correspondence (stream `identity-draws`, `Spec.C17.reproducesSlice`);
its arithmetic core is `chain_identity`. -/
theorem resampledAtas_identity {s : List Cell} {fields : List String} {A : Factors}
    (hA : ataTable s fields = .ok A) (hl : (A.map (·.1)).Nodup) (hf : ∀ lt ∈ A, (lt.2.map (·.1)).Nodup) :
    resampledAtas s fields (identityIdx A) = .ok A :=
  resampledAtas_identity' hA hl hf

/-- **develop_value.** On a canonical triangle, for EVERY factor table: in the row of a period (earliest cell
`c0` at position `|pre|`, later cells `row`), the first cell is unchanged and the `k`-th later cell carries,
for a field that is truthy in the source and present in the table, `first · x₀ ⋯ x_k`, where `x_j` is the entry
`resampled_atas[lag_j][field][period_idx]` (`RowCell`): the product is chained from the unchanged first cell. -/
theorem develop_value {t out : List Cell} {F : Factors} {f : String} {pre row rest : List Cell} {c0 : Cell}
    {xs : List Rat} {a : Rat} (h : developByAtas t F = .ok out) (hk : kindsConsistent t = true)
    (hs : t.Pairwise (fun a b => Cell.le a b)) (ht : t = pre ++ c0 :: (row ++ rest))
    (h0 : initialLag t (c0.ps, c0.pe) = some c0.devLag) (hnd : c0.values.keys.Nodup)
    (ha : numGet c0.values f = some a) (hrow : List.Forall₂ (RowCell t F f) row xs) :
    out[pre.length]? = some c0 ∧
    ∀ k, k < xs.length → ∃ o, out[pre.length + 1 + k]? = some o ∧
      numGet o.values f = some (a * prodQ (xs.take (k + 1))) :=
  develop_row_value h hk hs ht h0 hnd ha hrow

/-- **the vector `p` handed to `rng.choice`** (`_normalize`; `ataWeights` computes it from the slice): as long as the
vector, sums to 1, and is non-negative on non-negative values — a probability vector. Which positions
`Generator.choice` then realises is the only thing left outside. -/
theorem ata_weights_probability {x p : List Rat} (h : normalizeW x = .ok p) :
    p.length = x.length ∧ sumQ p = 1 ∧ ((∀ v ∈ x, 0 ≤ v) → ∀ v ∈ p, 0 ≤ v) :=
  normalizeW_spec h

/-- **chain_step_ok** (value clause, one step). One step of `_develop_triangle_by_atas` on a cell `c` that is not
the first of its period satisfies the executable cell clause `Spec.C17.chainCellOk` — for EVERY field of `c`
jointly: a selected field the previous developed cell has reads `None` when `c`'s value is falsy, else
`previous developed value × resampled_atas[lag][field][period_idx]`; every other field keeps its value. -/
theorem chain_step_ok {F : Factors} {fields : List String} {pidx : Nat} {c : Cell} {vals its : Dict Val}
    {tbl : List (String × List Rat)} (hF : assoc? F c.devLag = some tbl)
    (hT : ∀ f, (assoc? tbl f).isSome = fields.contains f)
    (hits : developItems c tbl pidx vals = .ok its) (hv : vals.keys.Nodup) (hc : c.values.keys.Nodup) :
    Spec.C17.chainCellOk F fields pidx c vals { c with values := Dict.union c.values its } = true :=
  chainCellOk_step hF hT hits hv hc

/-- **spec_chain_cells** (bridge for the value clause, in list order). For the model's own factor table
(`resampledAtas` from ANY index draws `I`) and a canonical slice `s`: walking through `s` and the developed slice
side by side (`ChainFrom`), the earliest cell of every period is returned as it is and EVERY other cell satisfies
`Spec.C17.chainCellOk` against the developed cell before it. What `Spec.C17.chainOkSlice` adds — finding the
"previous cell of the row" by development lag and the replicate's cells by coordinate after the tag and
`sum(boot)` — is NOT bridged (declared in notes/agents/c17b.md). -/
theorem spec_chain_cells {s out : List Cell} {fields : List String} {I : IdxTable} {F : Factors}
    (hF : resampledAtas s fields I = .ok F) (h : developByAtas s F = .ok out)
    (hk : kindsConsistent s = true) (hs : s.Pairwise (fun a b => Cell.le a b))
    (hwf : ∀ c ∈ s, c.values.keys.Nodup) : ChainFrom s F fields [] s out :=
  developLoop_chain (resampledAtas_tableKeys hF) s [] out (developByAtas_loop h hk hs) (by simp [Dict.keys]) hwf

/-- **spec_chain_slice** (bridge, one slice). `Spec.C17.chainOkSlice` is TRUE of any rearrangement of the tagged
developed slice — i.e. of what replicate `i` of `_bootstrap_slice` is (`spec_chain_replicate`) — for the model's
own table from ANY index draws: the cells are found by coordinate (`repCell_of_pairing`, positional pairing) and the
"previous cell of the row" is the developed cell before it. Hypotheses: canonical slice with one metadata,
pairwise distinct coordinates, distinct field names per cell, and `RowsByLag s` (the cells of a period with a
smaller lag end with the list predecessor; none for the period's earliest cell). -/
theorem spec_chain_slice {s out rep : List Cell} {fields : List String} {I : IdxTable} {F : Factors} {i : Nat}
    (hF : resampledAtas s fields I = .ok F) (h : developByAtas s F = .ok out)
    (hp : rep.Perm (out.map (tagCell i)))
    (hk : kindsConsistent s = true) (hs : s.Pairwise (fun a b => Cell.le a b))
    (hnd : (s.map (·.coord)).Nodup) (hmd : ∀ c ∈ s, ∀ c' ∈ s, c.md = c'.md)
    (hwf : ∀ c ∈ s, c.values.keys.Nodup) (hrows : RowsByLag s) :
    Spec.C17.chainOkSlice s rep i fields I = true :=
  spec_chain_slice' hF h hp hk hs hnd hmd hwf hrows

/-- **spec_chain_replicate.** … in particular of replicate `i` of an age-to-age slice as the model computes it
from numpy's index draws (`replicateD`, the body of `_bootstrap_slice`) -/
theorem spec_chain_replicate {s rep : List Cell} {fields : List String} {d : Draws} {i : Nat}
    (h : replicateD s fields d i = .ok rep) (hu : useAtas s = true)
    (hk : kindsConsistent s = true) (hs : s.Pairwise (fun a b => Cell.le a b))
    (hnd : (s.map (·.coord)).Nodup) (hmd : ∀ c ∈ s, ∀ c' ∈ s, c.md = c'.md)
    (hwf : ∀ c ∈ s, c.values.keys.Nodup) (hrows : RowsByLag s) :
    Spec.C17.chainOkSlice s rep i fields d.I = true :=
  spec_chain_replicate' h hu hk hs hnd hmd hwf hrows

/-- **rows_by_lag.** The row layout `RowsByLag` is a CONSEQUENCE of the slice being what `Triangle.slices` delivers:
sorted by `Cell.le`, one metadata, calendar-valid evaluation dates, distinct evaluation dates within a period
(`SliceLayout`): rows of a period are contiguous and ordered by evaluation date, hence by lag
(`dev_lag_strict_mono`), and `initialLag` is the lag of the row's first cell. -/
theorem rows_by_lag {s : List Cell} (H : SliceLayout s) : RowsByLag s := rowsByLag_of_layout H

/-- **spec_chain_slice_layout.** `spec_chain_slice` without the `RowsByLag` hypothesis (and without the separate
coordinate hypothesis: distinct evaluation dates within a period give distinct coordinates) -/
theorem spec_chain_slice_layout {s out rep : List Cell} {fields : List String} {I : IdxTable} {F : Factors} {i : Nat}
    (hF : resampledAtas s fields I = .ok F) (h : developByAtas s F = .ok out)
    (hp : rep.Perm (out.map (tagCell i))) (hk : kindsConsistent s = true) (H : SliceLayout s)
    (hwf : ∀ c ∈ s, c.values.keys.Nodup) :
    Spec.C17.chainOkSlice s rep i fields I = true :=
  spec_chain_slice' hF h hp hk H.sorted (coords_nodup_of_layout H) H.oneMd hwf (rowsByLag_of_layout H)

/-- **spec_chain_replicate_layout.** `Spec.C17.chainOkSlice` is true of replicate `i` of every age-to-age slice as
the model computes it from numpy's index draws — under hypotheses that only describe a well-formed slice -/
theorem spec_chain_replicate_layout {s rep : List Cell} {fields : List String} {d : Draws} {i : Nat}
    (h : replicateD s fields d i = .ok rep) (hu : useAtas s = true) (hk : kindsConsistent s = true)
    (H : SliceLayout s) (hwf : ∀ c ∈ s, c.values.keys.Nodup) :
    Spec.C17.chainOkSlice s rep i fields d.I = true :=
  spec_chain_replicate' h hu hk H.sorted (coords_nodup_of_layout H) H.oneMd hwf (rowsByLag_of_layout H)

/-- **spec_chain_bootstrapD_single.** On a triangle with ONE slice the summed replicate of `bootstrapD` is the
slice's replicate, so `Spec.C17.chainOkSlice` — the verdict `chain` of the driver — is true of every replicate of
the model's `bootstrapD` output (age-to-age route, any index draws). Several slices:
`spec_chain_bootstrapD_slices`. -/
theorem spec_chain_bootstrapD_single {t : List Cell} {n : Int} {field : Option (List String)}
    {D : Nat → Nat → Draws} {reps : List (List Cell)} (h : bootstrapD t n field D = .ok reps)
    (hne : t ≠ []) (hu : useAtas t = true) (hk : kindsConsistent t = true) (H : SliceLayout t)
    (hwf : ∀ c ∈ t, c.values.keys.Nodup) :
    ∀ i (hi : i < reps.length),
      Spec.C17.chainOkSlice t reps[i] i (field.getD (fieldsOf t)) (D 0 i).I = true := by
  intro i hi
  obtain ⟨c0, hc0⟩ := List.exists_mem_of_ne_nil t hne
  have hm : ∀ c ∈ t, c.md = c0.md := fun c hc => H.oneMd c hc c0 hc0
  exact spec_chain_replicate_layout (bootstrapD_single h hne hm H.sorted i hi) hu hk H hwf

/-- **spec_chain_bootstrapD_slices.** The lift of `spec_chain_bootstrapD_single` to a triangle with ANY number of
slices: for every slice `s` (the `k`-th of `Triangle.slices t`) routed to the age-to-age method and well formed
(`SliceLayout s`, distinct field names per cell), `Spec.C17.chainOkSlice` — the verdict `chain` of the driver, which
it evaluates per slice against the WHOLE replicate — is true of every replicate `reps[i]` of the model's `bootstrapD`,
with the draws `D k i` of that slice. Beyond the single-slice hypotheses only `TagInjective t i` is needed (the tag
`bootstrap = i` does not merge two slices — the hypothesis `spec_bootstrap_structure` already has): `repCell` filters
by the tagged metadata, so in the summed replicate it only sees the `k`-th slice's own replicate
(`bootstrapD_slice_repCell`). -/
theorem spec_chain_bootstrapD_slices {t : List Cell} {n : Int} {field : Option (List String)}
    {D : Nat → Nat → Draws} {reps : List (List Cell)} (h : bootstrapD t n field D = .ok reps)
    (hk : kindsConsistent t = true) (hinj : ∀ i, TagInjective t i) :
    ∀ k (hks : k < ((Triangle.slices t).map (·.2)).length),
      useAtas ((Triangle.slices t).map (·.2))[k] = true → SliceLayout ((Triangle.slices t).map (·.2))[k] →
      (∀ c ∈ ((Triangle.slices t).map (·.2))[k], c.values.keys.Nodup) →
      ∀ i (hi : i < reps.length),
        Spec.C17.chainOkSlice ((Triangle.slices t).map (·.2))[k] reps[i] i
          (field.getD (fieldsOf ((Triangle.slices t).map (·.2))[k])) (D k i).I = true := by
  intro k hks hu H hwf i hi
  obtain ⟨rep, hrep, hcell⟩ := bootstrapD_slice_repCell h hk hinj k hks i hi
  rw [chainOkSlice_congr hcell]
  exact spec_chain_replicate_layout hrep hu (slice_props hk _ (List.getElem_mem hks)).1 H hwf

/-- **spec_ata_membership_partial.** The membership half of `Spec.C17.ataMembershipOk` at the level of the MODEL's
tables: for ANY index draws `I`, every factor the chain clause multiplies with (`Spec.C17.factorAt F lag f pidx`,
`F` the resampled table — the factor `spec_chain_bootstrapD_slices` / `chainCellOk` speaks about) is a MEMBER of the
model's empirical column `ataTable s fields` for that lag and field: nothing but an observed age-to-age factor of
that lag is ever used. MISSING for the bridge to `ataMembershipOk` itself (declared): that the model's column
`ataTable[lag][f]` (clip to two consecutive lags of `sortedLags`, consecutive cells of one period, `safeAtaDiv`) is
contained in the Spec's independent `ratios s prev.devLag lag f` (per period `find?` by lag, `safeDiv`) — it needs
that the row predecessor's lag IS the preceding lag of `sortedLags s` (a triangle without skipped lags), uniqueness
of (period, lag) in the slice, and `sliceOf t c` = the `k`-th slice. -/
theorem spec_ata_membership_partial {s : List Cell} {fields : List String} {I : IdxTable} {F : Factors}
    (hF : resampledAtas s fields I = .ok F) {lag : Rat} {f : String} {pidx : Nat} {r : Rat}
    (h : Spec.C17.factorAt F lag f pidx = some r) :
    ∃ A tbl col, ataTable s fields = .ok A ∧ (lag, tbl) ∈ A ∧ (f, col) ∈ tbl ∧ r ∈ col :=
  resampledAtas_member hF h

/-- non-vacuity on the closed instance: the factor period 0 multiplies with at lag 12 is 2, a member of `[3/2, 2]` -/
example : Spec.C17.factorAt exF 12 "paid_loss" 0 = some 2 ∧
    resampledAtas exSquare ["paid_loss"] (exDraws 0 0).I = .ok exF ∧
    ataTable exSquare ["paid_loss"] = .ok [(12, [("paid_loss", [3 / 2, 2])])] :=
  ⟨by decide +kernel, ex_sq_res, ex_sq_table⟩

/-- **spec_ata_membership_bootstrapD_partial** (bridge to the Bool predicate, one hypothesis left). On the model's
`bootstrapD` output, `Spec.C17.ataMembershipOk t reps[i] i field` — the verdict `membership` of the driver, over ALL
slices of a sorted triangle — is TRUE for every replicate, provided every age-to-age slice is well formed
(`SliceLayout`, distinct field names), the tag keeps slices apart, and `ColumnsInRatios`: the factors of the model's
table into a cell's lag are among the Spec's independent `ratios s prev.devLag lag f` taken from the ROW PREDECESSOR's
lag. Everything else of the predicate is bridged here: `sliceOf t c` = the k-th slice, the coordinate lookups in the
summed replicate, the falsy / unselected / missing-field branches, and `x == y * r` for a factor `r` that
`spec_ata_membership_partial` shows to be a member of the empirical column. `ColumnsInRatios` is what "no period
skips a lag + unique (period, lag) per slice" is needed for; its derivation from those two facts (through
`clipLags` / `lagPairs` / `periodsOf` / `find?`) is NOT done — hence `_partial`. -/
theorem spec_ata_membership_bootstrapD_partial {t : List Cell} {n : Int} {field : Option (List String)}
    {D : Nat → Nat → Draws} {reps : List (List Cell)} (h : bootstrapD t n field D = .ok reps)
    (hk : kindsConsistent t = true) (hs : t.Pairwise (fun a b => Cell.le a b)) (hinj : ∀ i, TagInjective t i)
    (hlay : ∀ s ∈ (Triangle.slices t).map (·.2), useAtas s = true →
      SliceLayout s ∧ ∀ c ∈ s, c.values.keys.Nodup)
    (hcol : ∀ k (hks : k < ((Triangle.slices t).map (·.2)).length) i,
      ColumnsInRatios ((Triangle.slices t).map (·.2))[k]
        (field.getD (fieldsOf ((Triangle.slices t).map (·.2))[k])) (D k i).I) :
    ∀ i (hi : i < reps.length), Spec.C17.ataMembershipOk t reps[i] i field = true :=
  ataMembershipOk_bootstrapD h hk hs hinj hlay hcol

/-- **spec_ata_membership_bootstrapD** (bridge, no `ColumnsInRatios` hypothesis). `Spec.C17.ataMembershipOk` — the
verdict `membership` of the driver — is TRUE of every replicate of the model's `bootstrapD` on a sorted triangle whose
age-to-age slices are well formed (`SliceLayout`, distinct field names) and whose slices are `RegularLags`: (`uniq`) a
period has at most one cell at a lag; (`noSkip`) no period skips a lag — the row predecessor's lag is the lag preceding
the cell's lag in `dev_lags()`; (`clipEnds`) in the triangle clipped to two consecutive lags, consecutive same-period
cells sit at those two lags (a consequence of the layout that is NOT derived here and therefore a named field).
`ColumnsInRatios` is DERIVED from these (`columnsInRatios_of_regular`: `resampledAtas_member`, `ataTable_entry`,
`safeAtaDiv_eq_safeDiv`, `mem_ratios`). -/
theorem spec_ata_membership_bootstrapD {t : List Cell} {n : Int} {field : Option (List String)}
    {D : Nat → Nat → Draws} {reps : List (List Cell)} (h : bootstrapD t n field D = .ok reps)
    (hk : kindsConsistent t = true) (hs : t.Pairwise (fun a b => Cell.le a b)) (hinj : ∀ i, TagInjective t i)
    (hlay : ∀ s ∈ (Triangle.slices t).map (·.2), useAtas s = true →
      SliceLayout s ∧ ∀ c ∈ s, c.values.keys.Nodup)
    (hreg : ∀ s ∈ (Triangle.slices t).map (·.2), RegularLags s) :
    ∀ i (hi : i < reps.length), Spec.C17.ataMembershipOk t reps[i] i field = true :=
  spec_ata_membership_bootstrapD_partial h hk hs hinj hlay
    (fun _ hks _ => columnsInRatios_of_regular (hreg _ (List.getElem_mem hks)) _ _)

/-- **spec_ata_membership_bootstrapD_layout.** `spec_ata_membership_bootstrapD` with `RegularLags.uniq` DERIVED from
`SliceLayout` (`uniq_of_layout`, via `rows_lag_lt`): beyond well-formed slices the only regularity hypotheses are the two
fields of `NoSkipLags` — `noSkip` (no period skips a lag) and `clipEnds` (still not derived from the layout). Here
`SliceLayout` is asked of every slice. -/
theorem spec_ata_membership_bootstrapD_layout {t : List Cell} {n : Int} {field : Option (List String)}
    {D : Nat → Nat → Draws} {reps : List (List Cell)} (h : bootstrapD t n field D = .ok reps)
    (hk : kindsConsistent t = true) (hs : t.Pairwise (fun a b => Cell.le a b)) (hinj : ∀ i, TagInjective t i)
    (hlay : ∀ s ∈ (Triangle.slices t).map (·.2), SliceLayout s ∧ ∀ c ∈ s, c.values.keys.Nodup)
    (hreg : ∀ s ∈ (Triangle.slices t).map (·.2), NoSkipLags s) :
    ∀ i (hi : i < reps.length), Spec.C17.ataMembershipOk t reps[i] i field = true :=
  spec_ata_membership_bootstrapD h hk hs hinj (fun s hs _ => hlay s hs)
    (fun s hs => regular_of_layout (hlay s hs).1 (hreg s hs))

/-- **uniq_period_lag.** In a well-formed slice a period has at most one cell at a development lag -/
theorem uniq_period_lag {s : List Cell} (H : SliceLayout s) :
    ∀ x ∈ s, ∀ y ∈ s, (x.ps, x.pe) = (y.ps, y.pe) → x.devLag = y.devLag → x = y := uniq_of_layout H

/-- `NoSkipLags` has a closed inhabitant -/
theorem no_skip_lags_instance : NoSkipLags exSquare := ex_sq_noskip

/-- **safe_ata_division_agrees.** The model's `_safe_ata_division` (`safeAtaDiv`, refusing arrays) and the Spec's
independent `safeDiv` agree wherever the model succeeds -/
theorem safe_ata_division_agrees {x y : Option Val} {r : Rat} (h : safeAtaDiv x y = .ok r) :
    r = Spec.C17.safeDiv x y := safeAtaDiv_eq_safeDiv h

/-- **regular_lags_instance.** `RegularLags` has a closed inhabitant (the 2 × 2 square) -/
theorem regular_lags_instance : RegularLags exSquare := ex_sq_regular

/-- **dev_lag_strict_mono.** The development lag in months is strictly increasing in the evaluation date (valid
calendar dates, any period end): within a period, sorting by evaluation date is sorting by lag — the fact behind
`RowsByLag` -/
theorem dev_lag_strict_mono {pe e1 e2 : Date} (v1 : e1.valid = true) (v2 : e2.valid = true)
    (h : Date.cmp e1 e2 = .lt) : calculateDevLag pe e1 .month < calculateDevLag pe e2 .month :=
  devLag_strictMono v1 v2 h

/-- **bootstrapD_is_bootstrap.** The model that takes numpy's INDEX draws (and computes the empirical factors
itself, `ataTable` / `resampledAtas`) is an instance of the factor-table model … -/
theorem bootstrapD_is_bootstrap {t : List Cell} {n : Int} {field : Option (List String)}
    {D : Nat → Nat → Draws} {reps : List (List Cell)} (h : bootstrapD t n field D = .ok reps) :
    ∃ P, bootstrap t n field P = .ok reps :=
  ⟨_, bootstrapD_eq h⟩

/-- … hence has the structure proved for EVERY factor table (`bootstrap_structure`, `bootstrap_count`) -/
theorem bootstrapD_structure {t : List Cell} {n : Int} {field : Option (List String)}
    {D : Nat → Nat → Draws} {reps : List (List Cell)} (h : bootstrapD t n field D = .ok reps)
    (hk : kindsConsistent t = true) :
    ∀ i (hi : i < reps.length), reps[i].length = t.length ∧
      (∀ c ∈ t, ∃ o ∈ reps[i], TagRel t i c o) ∧ (∀ o ∈ reps[i], ∃ c ∈ t, TagRel t i c o) :=
  bootstrap_structure (bootstrapD_eq h) hk

/-! ### 9. moment_match: what is deterministic given the drawn vector -/

/-- a selected array becomes a FLOAT array of the same shape that is a rearrangement of the drawn vector
(nothing invented or lost) carrying the rank order of the old samples -/
theorem generateSamples_array {isInt : Bool} {n : Nat} {d drawn : List Rat} (hl : drawn.length = d.length) :
    ∃ r, generateSamples (.arr isInt [n] d) drawn = .arr false [n] r ∧ r.Perm drawn ∧ r.length = d.length ∧
      ∀ i j, i < d.length → j < d.length → d.getD i 0 < d.getD j 0 → r.getD i 0 ≤ r.getD j 0 :=
  ⟨reimposeRank d drawn, rfl, reimposeRank_perm hl, reimposeRank_length d drawn,
   fun _ _ hi hj hlt => reimposeRank_order hl hi hj hlt⟩

/-- the gamma sampler is parameterised with `shape·scale = mean` and `shape·scale² = variance` of the
source array (`gammaParams`; the normal sampler receives `loc = mean`, `scale = sqrt(variance)`; the
lognormal parameters involve log / sqrt and stay outside, as does the sampler's distribution) -/
theorem gamma_params_match (mu s2 : Rat) (hmu : mu ≠ 0) (hs : s2 ≠ 0) :
    (gammaParams mu s2).1 * (gammaParams mu s2).2 = mu ∧
    (gammaParams mu s2).1 * ((gammaParams mu s2).2 * (gammaParams mu s2).2) = s2 :=
  gammaParams_match mu s2 hmu hs

/-- the variance handed to the sampler is not negative -/
theorem variance_nonneg (d : List Rat) : 0 ≤ varQ d := varQ_nonneg d

/-! ### 10. non-vacuity: closed instances on which the operations SUCCEED in the model

(`decide` cannot evaluate `List.mergeSort`; the sorts are discharged with `List.mergeSort_of_pairwise` /
`ofCells_of_sorted` on inputs that are already in order. For the whole `bootstrapD` this is staged over its sort
sites in `Lemmas/ResampleMulti.lean` (`ex_sq_*`).) -/

/-- **bootstrapD_ok_instance.** Closed, kernel-checked instance: the model's bootstrap SUCCEEDS on the 2 × 2
age-to-age square `exSquare` (periods 2020, 2021; lags 0, 12; paid 100 → 150 and 80 → 160, empirical factors
`[3/2, 2]`) with `n = 1` and the index draws `[1, 0]` (the periods swap factors): the one replicate is the tagged
square with 100 → 200 and 80 → 120. -/
theorem bootstrapD_ok_instance : bootstrapD exSquare 1 none exDraws = .ok [exDev.map (tagCell 0)] := by
  have h1 : ¬ ((1 : Int) ≤ 0) := by decide
  simp only [bootstrapD, h1, if_false, ex_sq_slices, List.zipIdx_cons, List.zipIdx_nil, mapMExcept, bootstrapSliceD,
    Option.getD_none, ex_sq_fields, Int.toNat_one, List.range_one, ex_sq_rep, List.isEmpty_cons, Bool.false_eq_true,
    List.map_cons, List.map_nil, List.getD_cons_zero, sumTriangles, sumFrom]

/-- … so the hypothesis `bootstrapD … = .ok reps` of the bridges is satisfiable -/
theorem bootstrapD_ok_exists : ∃ reps, bootstrapD exSquare 1 none exDraws = .ok reps := ⟨_, bootstrapD_ok_instance⟩

/-- the chain bridge applies to it, all hypotheses discharged: the verdict `chain` is true of the closed replicate -/
example : Spec.C17.chainOkSlice exSquare (exDev.map (tagCell 0)) 0 ["paid_loss"] (exDraws 0 0).I = true := by
  have H : SliceLayout exSquare :=
    ⟨ex_sq_sorted, by decide +kernel, by decide +kernel, by decide +kernel⟩
  have h := spec_chain_bootstrapD_single bootstrapD_ok_instance (by decide) ex_sq_use ex_sq_kinds H
    (by decide +kernel) 0 (by simp)
  simpa [ex_sq_fields] using h

/-- **spec_ata_membership_instance.** `spec_ata_membership_bootstrapD_partial` applied to the closed instance with
EVERY hypothesis discharged (including `ColumnsInRatios`, `ex_sq_columns`): the verdict `membership` is true of the
closed replicate — the bridge and its column hypothesis are not vacuous. -/
theorem spec_ata_membership_instance :
    Spec.C17.ataMembershipOk exSquare (exDev.map (tagCell 0)) 0 none = true := by
  have hinj : ∀ i, TagInjective exSquare i := by
    intro i c1 h1 c2 h2 _
    have hmd : ∀ c ∈ exSquare, c.md = default := by decide +kernel
    rw [hmd c1 h1, hmd c2 h2]
  have key : ∀ S, (Triangle.slices exSquare).map (·.2) = S → S = [exSquare] →
      (∀ k (hks : k < S.length) i, ColumnsInRatios S[k] ((none : Option (List String)).getD (fieldsOf S[k])) (exDraws k i).I) →
      Spec.C17.ataMembershipOk exSquare (exDev.map (tagCell 0)) 0 none = true := by
    intro S hS hS2 hcol
    subst hS
    refine spec_ata_membership_bootstrapD_partial bootstrapD_ok_instance ex_sq_kinds ex_sq_sorted hinj ?_ hcol 0 (by simp)
    intro s hs _
    rw [hS2] at hs
    simp only [List.mem_cons, List.not_mem_nil, or_false] at hs
    subst hs
    exact ⟨ex_sq_layout, by decide +kernel⟩
  refine key _ ex_sq_slices rfl ?_
  intro k hks i
  have : k = 0 := by simp at hks; omega
  subst this
  simp only [List.getElem_cons_zero, Option.getD_none, ex_sq_fields]
  exact ex_sq_columns

/-- **spec_ata_membership_regular_instance.** `spec_ata_membership_bootstrapD` on the closed instance with every
hypothesis discharged (`RegularLags exSquare` = `ex_sq_regular`): the bridge is not vacuous. -/
theorem spec_ata_membership_regular_instance :
    Spec.C17.ataMembershipOk exSquare (exDev.map (tagCell 0)) 0 none = true := by
  have hinj : ∀ i, TagInjective exSquare i := by
    intro i c1 h1 c2 h2 _
    have hmd : ∀ c ∈ exSquare, c.md = default := by decide +kernel
    rw [hmd c1 h1, hmd c2 h2]
  have hmem : ∀ s ∈ (Triangle.slices exSquare).map (·.2), s = exSquare := by
    intro s hs; rw [ex_sq_slices] at hs; simpa using hs
  refine spec_ata_membership_bootstrapD bootstrapD_ok_instance ex_sq_kinds ex_sq_sorted hinj ?_ ?_ 0 (by simp)
  · intro s hs _; rw [hmem s hs]; exact ⟨ex_sq_layout, by decide +kernel⟩
  · intro s hs; rw [hmem s hs]; exact ex_sq_regular

/-- **bootstrapD_ok_two.** Closed, kernel-checked TWO-slice instance: `bootstrapD` succeeds on `exTwo` (the square
under two metadata), per-slice draws `exDraws2` (slice 0 swaps its factors, slice 1 keeps them); the replicate is the
sum of the two tagged slice replicates. -/
theorem bootstrapD_ok_two : bootstrapD exTwo 1 none exDraws2 =
    .ok [exDev.map (tagCell 0) ++ exDevB.map (tagCell 0)] := by
  have h1 : ¬ ((1 : Int) ≤ 0) := by decide
  simp only [bootstrapD, h1, if_false, ex_two_slices, List.zipIdx_cons, List.zipIdx_nil, mapMExcept, bootstrapSliceD,
    Option.getD_none, ex_sq_fields, ex_sqB_fields, Int.toNat_one, List.range_one, ex_sqA_rep2, ex_sqB_rep,
    List.isEmpty_cons, Bool.false_eq_true, Nat.zero_add,
    List.map_cons, List.map_nil, List.getD_cons_zero, sumTriangles, sumFrom, Triangle.add, ex_two_sum]

/-- **spec_chain_two_slice_instance.** `spec_chain_bootstrapD_slices` applied to it with EVERY hypothesis discharged
(`kindsConsistent`, `TagInjective`, and per slice `useAtas`, `SliceLayout`, distinct field names): the verdict `chain`
is true of BOTH slices against the whole two-slice replicate — the multi-slice theorem is not vacuous. -/
theorem spec_chain_two_slice_instance :
    Spec.C17.chainOkSlice exSquare (exDev.map (tagCell 0) ++ exDevB.map (tagCell 0)) 0 ["paid_loss"]
      (exDraws2 0 0).I = true ∧
    Spec.C17.chainOkSlice exSquareB (exDev.map (tagCell 0) ++ exDevB.map (tagCell 0)) 0 ["paid_loss"]
      (exDraws2 1 0).I = true := by
  have key : ∀ S, (Triangle.slices exTwo).map (·.2) = S → ∀ k (hks : k < S.length),
      useAtas S[k] = true → SliceLayout S[k] → (∀ c ∈ S[k], c.values.keys.Nodup) →
      Spec.C17.chainOkSlice S[k] (exDev.map (tagCell 0) ++ exDevB.map (tagCell 0)) 0
        ((none : Option (List String)).getD (fieldsOf S[k])) (exDraws2 k 0).I = true := by
    intro S hS
    subst hS
    intro k hks hu H hwf
    exact spec_chain_bootstrapD_slices bootstrapD_ok_two ex_two_kinds ex_two_tagInj k hks hu H hwf 0 (by simp)
  have h0 := key _ ex_two_slices 0 (by simp) ex_sq_use ex_sq_layout (by decide +kernel)
  have h1 := key _ ex_two_slices 1 (by simp) ex_sqB_use ex_sqB_layout (by decide +kernel)
  simp only [List.getElem_cons_zero, List.getElem_cons_succ, Option.getD_none, ex_sq_fields, ex_sqB_fields] at h0 h1
  exact ⟨h0, h1⟩

/-- closed instance: `thin` SUCCEEDS with a valid draw (k = 2 of n = 3, positions 2 and 0) -/
example : thin exSamples 2 [2, 0] = .ok (.fresh (exSamples.map (thinCell [2, 0]))) := by
  have hn : numSamples exSamples = .ok 3 := by decide +kernel
  have hk : kindsConsistent (exSamples.map (thinCell [2, 0])) = true := by decide +kernel
  have hs : (exSamples.map (thinCell [2, 0])).Pairwise (fun a b => Cell.le a b) := by decide +kernel
  simp [thin, hn, ofCells_of_sorted hk hs]

/-- closed instance: `moment_match` on a scalar field succeeds and returns the triangle -/
example : momentMatch exSamples ["earned_premium"] true (fun _ _ => [1, 2, 3]) = .ok exSamples := by
  have hk : kindsConsistent exSamples = true := by decide +kernel
  have hs : exSamples.Pairwise (fun a b => Cell.le a b) := by decide +kernel
  have hmf : momentField "earned_premium" (fun _ => [1, 2, 3]) 0 exSamples = .ok exSamples := by decide +kernel
  simp only [momentMatch, ex_fields]
  simp [momentLoop, hmf, ofCells_of_sorted hk hs]

/-- closed instance: `moment_match` on the sample field succeeds; every cell's array is replaced by the drawn
vector in the old samples' rank order (`ex_rank`: `[5,1,3]` receives `[3,1,2]`) -/
example : momentMatch exSamples ["paid_loss"] true (fun _ _ => [1, 2, 3]) = .ok exOut := by
  have hk : kindsConsistent exOut = true := by decide +kernel
  have hs : exOut.Pairwise (fun a b => Cell.le a b) := by decide +kernel
  have hmf : momentField "paid_loss" (fun _ => [1, 2, 3]) 0 exSamples = .ok exOut := rfl
  simp only [momentMatch, ex_fields]
  simp [momentLoop, hmf, ofCells_of_sorted hk hs]

example : reimposeRank [5, 1, 3] [1, 2, 3] = [3, 1, 2] := by
  have hsort : sortQ [1, 2, 3] = [1, 2, 3] := List.mergeSort_of_pairwise (by decide +kernel)
  simp only [reimposeRank, hsort]
  decide +kernel

example : ValidDraw 3 2 [2, 0] := ⟨rfl, by decide, by decide⟩

/-- the hypotheses of the bootstrap bridges are satisfiable: the two-cell triangle has distinct coordinates,
uniform field names and an injective tag -/
example : (exSamples.map (·.coord)).Nodup ∧ UniformFields exSamples ∧ ∀ i, TagInjective exSamples i := by
  refine ⟨by decide +kernel, ?_, ?_⟩
  · intro c hc c' hc' f hf
    simp only [exSamples, List.mem_cons, List.not_mem_nil, or_false] at hc hc'
    rcases hc with rfl | rfl <;> rcases hc' with rfl | rfl <;> simpa [exCell, Dict.keys] using hf
  · intro i c1 h1 c2 h2 _
    simp only [exSamples, List.mem_cons, List.not_mem_nil, or_false] at h1 h2
    rcases h1 with rfl | rfl <;> rcases h2 with rfl | rfl <;> rfl

/-- the layout hypothesis of `spec_chain_slice` is satisfiable: a 2 × 2 age-to-age square (two periods, lags 0 and 12) -/
example : RowsByLag exSquare := by
  intro j hj
  have : j = 0 ∨ j = 1 ∨ j = 2 ∨ j = 3 := by simp [exSquare] at hj; omega
  rcases this with rfl | rfl | rfl | rfl
  · exact ⟨fun _ => by decide +kernel +revert, fun h => absurd (by decide +kernel +revert) h⟩
  · exact ⟨fun h => absurd h (by decide +kernel +revert), fun _ => ⟨0, rfl, by decide +kernel +revert⟩⟩
  · exact ⟨fun _ => by decide +kernel +revert, fun h => absurd (by decide +kernel +revert) h⟩
  · exact ⟨fun h => absurd h (by decide +kernel +revert), fun _ => ⟨2, rfl, by decide +kernel +revert⟩⟩

end Bermuda.Properties.C17
