/-
C18 — unit-changing utilities conserve amounts (currency, disaggregation, policy year, premium).
Only property theorems live here (helper lemmas: `Lemmas/Units.lean`; model: `Model/Units.lean`;
executable predicates run on the implementation's output: `Spec/C18.lean`).
-/
import Bermuda.Lemmas.Units
import Bermuda.Lemmas.UnitsPolicy
import Bermuda.Lemmas.UnitsDisagg
import Bermuda.Lemmas.UnitsBridge
import Bermuda.Lemmas.UnitsTiling
import Bermuda.Lemmas.UnitsAggregate
import Bermuda.Lemmas.UnitsRoundtrip
import Bermuda.Lemmas.UnitsExample
import Bermuda.Lemmas.UnitsCovered
import Bermuda.Lemmas.UnitsCoveredCont
import Bermuda.Lemmas.UnitsGreedy
import Bermuda.Spec.C18
namespace Bermuda.Properties.C18
open Bermuda Bermuda.Units Bermuda.Spec.C18

/-! ### 1. convert_currency -/

/-- the code's regenerated `CURRENCY_FIELDS` table is exactly the list of premium and loss amounts
the Spec predicate uses (a table edit breaks this proof) -/
theorem currencyFields_pinned : Generated.Currency.currencyFields = Spec.C18.moneyFields := by decide

/-- **currency_spec.** When `convert_currency` succeeds there is a bijection between input and
output cells (`tin` is the input, `tout` the output, each up to order) such that every pair is
`Converted`: a cell already in the target currency is untouched, any other cell is
`convertCell c rate target` with `rate` the table entry of the cell's own currency
(`convertCell_spec` below says what that is, field by field). -/
theorem currency_spec {t out : List Cell} {target : String} {rates : List (String × Num)}
    (h : convertCurrency t target rates = .ok out) :
    ∃ tin tout, tin.Perm t ∧ tout.Perm out ∧ Forall2 (Converted target rates) tin tout := by
  unfold convertCurrency at h
  cases hm : (Triangle.slices t).mapM (convertSlice target rates) with
  | error e => simp [hm, bind, Except.bind] at h
  | ok parts =>
    simp only [hm, bind, Except.bind] at h
    refine ⟨(Triangle.slices t).flatMap (·.2), parts.flatten, slices_flatten_perm t,
      (ofCells_perm' h).symm, ?_⟩
    rw [List.flatMap_def]
    apply Forall2.flatten
    apply Forall2.map_left
    exact (mapM_ok_forall2 hm).imp fun sl part hsl hp => convertSlice_ok hsl hp

/-- a converted cell, field by field: class and dates unchanged, metadata equal except
`currency = target`, the same keys in the same order, exactly the currency fields multiplied by the
rate (`mulNum_value`: same shape, every number times the rate), every other field identical -/
theorem currency_cell_spec {c o : Cell} {rate : Num} {target : String}
    (h : convertCell c rate target = .ok o) :
    o.kind = c.kind ∧ o.ps = c.ps ∧ o.pe = c.pe ∧ o.ev = c.ev ∧ o.prev = c.prev ∧
    o.md = { c.md with currency := some target } ∧
    Forall2 (fun kv kv' => kv'.1 = kv.1 ∧
      (if Generated.Currency.currencyFields.contains kv.1 then Val.mulNum kv.2 rate = .ok kv'.2
       else kv'.2 = kv.2)) c.values o.values :=
  convertCell_spec h

/-- `v * rate` numerically: the value is not `None`, the shape is kept, every number is multiplied -/
theorem mulNum_value {v v' : Val} {r : Num} (h : Val.mulNum v r = .ok v') :
    v ≠ .none ∧ v'.shape = v.shape ∧
    Spec.C18.vdata v' = (Spec.C18.vdata v).map (· * r.toRat) :=
  mulNum_data h

/-- the cell count is unchanged -/
theorem currency_count {t out : List Cell} {target : String} {rates : List (String × Num)}
    (h : convertCurrency t target rates = .ok out) : out.length = t.length := by
  obtain ⟨tin, tout, h1, h2, h3⟩ := currency_spec h
  rw [← h2.length_eq, ← h3.length_eq, h1.length_eq]

/-- every cell of the result is in the target currency -/
theorem currency_sets_target {t out : List Cell} {target : String} {rates : List (String × Num)}
    (h : convertCurrency t target rates = .ok out) : ∀ o ∈ out, o.md.currency = some target := by
  obtain ⟨tin, tout, h1, h2, h3⟩ := currency_spec h
  intro o ho
  obtain ⟨c, _, hco⟩ := h3.mem_right (h2.mem_iff.mpr ho)
  rcases hco with ⟨hc, rfl⟩ | ⟨cur, rate, _, _, _, hconv⟩
  · exact hc
  · rw [(convertCell_spec hconv).2.2.2.2.2.1]

/-- refusal 1: a cell without currency anywhere in the triangle -/
theorem currency_refuses_missing_currency {t : List Cell} {target : String}
    {rates : List (String × Num)} {c : Cell} (hc : c ∈ t) (hn : c.md.currency = none) :
    ∃ e, convertCurrency t target rates = .error e := by
  obtain ⟨sl, hsl, hmd, _⟩ := slices_fst_mem hc
  have : convertSlice target rates sl = .error .valueError := by
    unfold convertSlice; rw [hmd, hn]
  obtain ⟨e, he⟩ := mapM_error_of_mem hsl this
  exact ⟨e, by unfold convertCurrency; simp [he, bind, Except.bind]⟩

/-- refusal 2: a cell in a foreign currency for which the table has no rate -/
theorem currency_refuses_missing_rate {t : List Cell} {target cur : String}
    {rates : List (String × Num)} {c : Cell} (hc : c ∈ t) (hcur : c.md.currency = some cur)
    (hne : cur ≠ target) (hr : rates.find? (·.1 == cur) = none) :
    ∃ e, convertCurrency t target rates = .error e := by
  obtain ⟨sl, hsl, hmd, _⟩ := slices_fst_mem hc
  have : convertSlice target rates sl = .error .valueError := by
    unfold convertSlice; rw [hmd, hcur]; simp [hne, hr]
  obtain ⟨e, he⟩ := mapM_error_of_mem hsl this
  exact ⟨e, by unfold convertCurrency; simp [he, bind, Except.bind]⟩

/-- **currency_refusal_class.** When some slice has no currency, or a foreign currency without a
rate, and no currency-field value is `None`, the refusal is a `ValueError` (a `None` in a currency
field of an earlier slice would surface first as the `TypeError` of `None * rate`). -/
theorem currency_refusal_class {t : List Cell} {target : String} {rates : List (String × Num)}
    (hnone : ∀ c ∈ t, ∀ kv ∈ c.values, Generated.Currency.currencyFields.contains kv.1 = true → kv.2 ≠ .none)
    {c : Cell} (hc : c ∈ t)
    (hbad : c.md.currency = none ∨ ∃ cur, c.md.currency = some cur ∧ cur ≠ target ∧
      rates.find? (·.1 == cur) = none) :
    convertCurrency t target rates = .error .valueError := by
  obtain ⟨sl, hsl, hmd, _⟩ := slices_fst_mem hc
  have hsle : convertSlice target rates sl = .error .valueError := by
    unfold convertSlice
    rcases hbad with hn | ⟨cur, hcur, hne, hr⟩
    · rw [hmd, hn]
    · rw [hmd, hcur]; simp [hne, hr]
  obtain ⟨e, he⟩ := mapM_error_of_mem hsl hsle
  obtain ⟨x, hx, hxe⟩ := mapM_error_first he
  have : e = .valueError := by
    rcases convertSlice_error hxe with h1 | ⟨_, c', hc', kv, hkv, hcf, hnn⟩
    · exact h1
    · exact absurd hnn (hnone c' (mem_slices_md hx hc').2 kv hkv hcf)
  subst this
  unfold convertCurrency
  simp [he, bind, Except.bind]

/-- **currency_spec_bridge.** the executable predicate holds on the model's own output, for value
dicts with distinct keys and cells that do not collide after conversion (two cells landing on one
position — same class, coordinates and metadata up to currency — is the duplicate the library
itself warns about; the greedy matching of `matchAll` is only complete without them) -/
theorem currency_spec_bridge {t out : List Cell} {target : String} {rates : List (String × Num)}
    (hkn : ∀ c ∈ t, (c.values.map (·.1)).Nodup) (hpos : (t.map (posAfter target)).Nodup)
    (h : convertCurrency t target rates = .ok out) :
    currencySpec moneyFields target (rates.map fun p => (p.1, p.2.toRat)) t out = true := by
  unfold currencySpec
  simp only [Bool.and_eq_true, Bool.not_eq_eq_eq_not, Bool.not_true, beq_iff_eq, List.all_eq_true]
  refine ⟨⟨⟨?_, currency_count h⟩, fun o ho => currency_sets_target h o ho⟩, ?_⟩
  · -- not a refusal case
    by_contra hm
    have hm' : currencyMustRefuse target (rates.map fun p => (p.1, p.2.toRat)) t = true := by
      simpa using hm
    unfold currencyMustRefuse at hm'
    rw [List.any_eq_true] at hm'
    obtain ⟨c, hc, hbad⟩ := hm'
    cases hcur : c.md.currency with
    | none =>
      obtain ⟨e, he⟩ := currency_refuses_missing_currency (target := target) (rates := rates) hc hcur
      rw [h] at he; cases he
    | some cur =>
      simp only [hcur, Bool.and_eq_true, bne_iff_ne, ne_eq, Bool.not_eq_eq_eq_not, Bool.not_true] at hbad
      obtain ⟨e, he⟩ := currency_refuses_missing_rate (rates := rates) hc hcur hbad.1 (any_rates_false hbad.2)
      rw [h] at he; cases he
  · obtain ⟨tin, tout, h1, h2, h3⟩ := currency_spec h
    refine matchAll_of_keys _ (posAfter target) posOf (fun c o hr => convRel_pos hr) t out
      (currency_count h) hpos ?_
    intro c hc
    obtain ⟨o, ho, hco⟩ := h3.mem_left (h1.mem_iff.mpr hc)
    exact ⟨o, h2.mem_iff.mp ho, convRel_of_converted (hkn c hc) hco⟩

/-- **currency_spec_bridge_sorted.** The executable predicate holds on the model's own output for every
sorted triangle (`Triangle(...)` order) with canonical metadata, pairwise distinct cell coordinates BEFORE the
conversion and distinct-key value dicts — cells of different currency slices MAY land on one position after
the conversion (twin slices; `hpos` of `currency_spec_bridge` is not needed): the greedy `matchAll` still
succeeds because the stable sort keeps colliding cells in their input order. -/
theorem currency_spec_bridge_sorted {t out : List Cell} {target : String} {rates : List (String × Num)}
    (hkn : ∀ c ∈ t, (c.values.map (·.1)).Nodup) (hs : t.Pairwise (fun a b => Cell.le a b = true))
    (hc : ∀ c ∈ t, c.md.Canon) (hn : (t.map Cell.coord).Nodup)
    (h : convertCurrency t target rates = .ok out) :
    currencySpec moneyFields target (rates.map fun p => (p.1, p.2.toRat)) t out = true := by
  unfold currencySpec
  simp only [Bool.and_eq_true, Bool.not_eq_eq_eq_not, Bool.not_true, beq_iff_eq, List.all_eq_true]
  refine ⟨⟨⟨?_, currency_count h⟩, fun o ho => currency_sets_target h o ho⟩,
    matchAll_convert_sorted hkn hs hc hn h⟩
  by_contra hm
  have hm' : currencyMustRefuse target (rates.map fun p => (p.1, p.2.toRat)) t = true := by
    simpa using hm
  unfold currencyMustRefuse at hm'
  rw [List.any_eq_true] at hm'
  obtain ⟨c, hc', hbad⟩ := hm'
  cases hcur : c.md.currency with
  | none =>
    obtain ⟨e, he⟩ := currency_refuses_missing_currency (target := target) (rates := rates) hc' hcur
    rw [h] at he; cases he
  | some cur =>
    simp only [hcur, Bool.and_eq_true, bne_iff_ne, ne_eq, Bool.not_eq_eq_eq_not, Bool.not_true] at hbad
    obtain ⟨e, he⟩ := currency_refuses_missing_rate (rates := rates) hc' hcur hbad.1 (any_rates_false hbad.2)
    rw [h] at he; cases he

/-- non-vacuity: a one-cell EUR triangle converted to USD at 5/4 — the loss is multiplied, the
claim count is not, the currency is set -/
def exMd (cur : String) : Metadata := { currency := some cur }
def exCell : Cell :=
  { kind := .cumulative, ps := Date.mk 2020 1 1, pe := Date.mk 2020 12 31, ev := Date.mk 2020 12 31,
    values := [("paid_loss", Val.int 100), ("open_claims", Val.int 7)], md := exMd "EUR" }

example : convertCurrency [exCell] "USD" [("EUR", .flt (5/4))] =
    .ok [{ exCell with values := [("paid_loss", .flt 125), ("open_claims", .int 7)], md := exMd "USD" }] := by
  decide +kernel

example : ∃ e, convertCurrency [exCell] "USD" [("GBP", .flt 2)] = .error e :=
  currency_refuses_missing_rate (c := exCell) (cur := "EUR") (by simp) rfl (by decide) (by decide)

open Bermuda.Units.Example in
/-- **twin slices** (the case `currency_spec_bridge` excludes by `hpos`): an EUR slice and a USD slice
that differ only in the currency land on the same position after conversion. The code keeps BOTH cells
(the result is a triangle with duplicate cells — `Triangle(...)` only warns), each converted or kept as
`currency_spec` says (which has no such hypothesis), the count is unchanged, and the executable predicate
is true on this output (an instance of `currency_spec_bridge_sorted`, which needs no `hpos`). -/
theorem currency_twin_slices :
    ¬ (twinT.map (posAfter "USD")).Nodup ∧
    convertCurrency twinT "USD" [("EUR", .flt (5/4))] = .ok twinOut ∧
    twinOut = [twinCell "USD" (.flt 125), twinCell "USD" (.int 125)] ∧
    currencySpec moneyFields "USD" [("EUR", 5/4)] twinT twinOut = true :=
  ⟨fun h => by
      simp only [twinT, List.map] at h
      exact (List.nodup_cons.mp h).1 (List.mem_singleton.mpr (by decide +kernel)),
    twin_convert, rfl, twin_spec⟩

open Bermuda.Units.Example in
/-- non-vacuity of `currency_spec_bridge_sorted` ON a twin: every hypothesis holds for `twinT` -/
example : currencySpec moneyFields "USD" [("EUR", 5/4)] twinT twinOut = true :=
  currency_spec_bridge_sorted (rates := [("EUR", .flt (5/4))]) (by decide +kernel) (by decide +kernel)
    (by decide +kernel) (by decide +kernel) twin_convert

/-! ### 2. disaggregate_experience -/

/-- **disagg_sum.** For any number `v` of a cell value and any weights whose total is not zero,
the renormalised weights (`w / Σw`, what `_disaggregate_experience_slice` computes over the
observable sub-periods) split `v` exactly: Σₖ v·(wₖ/Σw) = v. -/
theorem disagg_sum (v : Rat) {ws : List Rat} (h : ws.sum ≠ 0) :
    ((renorm ws).map (v * ·)).sum = v := by
  rw [sum_map_mul_left, renorm_sum h, mul_one]

/-- renormalised weights sum to 1 -/
theorem disagg_weights_sum_one {ws : List Rat} (h : ws.sum ≠ 0) : (renorm ws).sum = 1 :=
  renorm_sum h

/-- bridge to the model: the k-th part `_weight_cell_values` produces for a value is that value's
numbers times the k-th weight (scalars and 1-d arrays; together with `disagg_sum` every number of
every field adds up over the sub-periods) -/
theorem disagg_parts {v : Val} {ws : List Rat} {parts : List Val}
    (h : weightValue v ws = .ok parts) :
    parts.map Spec.C18.vdata = ws.map fun w => (Spec.C18.vdata v).map (· * w) :=
  weightValue_data h

example : ((renorm [1/4, 1/2]).map ((120 : Rat) * ·)).sum = 120 := disagg_sum 120 (by decide +kernel)

/-- **disagg_conserves** (model-level form of "splits every cell into sub-periods whose values add
up to the original"). Either the triangle already has the requested resolution and is returned as
is, or there is a bijection between the input cells (`tin`, the input up to order) and groups of
output cells (`parts`, whose concatenation is the output up to order) such that every group
`SubCells`-belongs to its cell: the group's periods are exactly the cell's observable sub-periods in
order (`obsSubs`: sub-period k is `[add_months(ps, k·res), add_months(ps, (k+1)·res) − 1 day]`, kept
iff it is over at the evaluation date), same slice and evaluation date, plain `Cell`s, and —
whenever the group is not empty — every selected field adds up to the original value, component
by component (`total part f i = cellField c f i`).
Hypothesis: value dicts have distinct keys (Python dicts). -/
theorem disagg_conserves {t out : List Cell} {res : Nat} {weights : Option (List Num)}
    {fields : Option (List String)} (hk : ∀ c ∈ t, (c.values.map (·.1)).Nodup)
    (h : disaggregateExperience t res weights fields = .ok out) :
    out = t ∨ ∃ tin parts, tin.Perm t ∧ out.Perm parts.flatten ∧
      Forall2 (SubCells res fun f => (fields.getD Generated.Units.defaultInterpolationFields).contains f) tin parts := by
  unfold disaggregateExperience at h
  split at h
  · cases h
  · split at h
    · cases h
    · rename_i triRes hr
      split at h
      · cases h
      · split at h
        · -- the triangle already has the requested resolution: returned as is
          simp only [Except.ok.injEq] at h; subst h
          exact .inl rfl
        · simp only at h
          split at h
          · cases h
          · split at h
            · cases h
            · split at h
              · cases h
              · split at h
                · cases h
                · split at h
                  · cases h
                  · split at h
                    · cases h
                    · rename_i hsum
                      split at h
                      · cases h
                      · generalize weightsOrDefault weights (triRes / (res : Int)).toNat = ws at h hsum
                        have hws' : ws ≠ [] := by
                          intro he; subst he; simp at hsum
                        unfold disaggCore at h
                        cases hm : (Triangle.slices t).mapM (fun sl => disaggSlice sl.2 res ws
                            (fields.getD Generated.Units.defaultInterpolationFields)) with
                        | error e => simp [hm, bind, Except.bind] at h
                        | ok parts0 =>
                          simp only [hm, bind, Except.bind] at h
                          have hperm := ofCells_perm' h
                          have hF := mapM_ok_forall2 hm
                          have hF' : ∀ sl p0, sl ∈ Triangle.slices t →
                              disaggSlice sl.2 res ws (fields.getD Generated.Units.defaultInterpolationFields) = .ok p0 →
                              ∃ ps, p0 = ps.flatten ∧ Forall2 (SubCells res fun f =>
                                (fields.getD Generated.Units.defaultInterpolationFields).contains f) sl.2 ps :=
                            fun sl p0 hsl hp => disaggSlice_spec
                              (fun c hc => hk c (mem_slices_md hsl hc).2) hws' hp
                          have : ∃ pss : List (List (List Cell)), parts0 = pss.map List.flatten ∧
                              Forall2 (fun sl ps => Forall2 (SubCells res fun f =>
                                (fields.getD Generated.Units.defaultInterpolationFields).contains f) sl.2 ps)
                                (Triangle.slices t) pss := by
                            clear h hperm hm
                            generalize Triangle.slices t = slices at hF hF' ⊢
                            induction hF with
                            | nil => exact ⟨[], rfl, .nil⟩
                            | @cons sl p0 l₁ l₂ hab _ ih =>
                              obtain ⟨ps, hp, hps⟩ := hF' sl p0 (by simp) hab
                              obtain ⟨pss, hpss, hall⟩ := ih fun sl' p' hs' => hF' sl' p' (by simp [hs'])
                              exact ⟨ps :: pss, by simp [hp, hpss], .cons hps hall⟩
                          obtain ⟨pss, hp0, hall⟩ := this
                          refine .inr ⟨(Triangle.slices t).flatMap (·.2), pss.flatten, slices_flatten_perm t, ?_,
                            forall2_flatten_slices hall⟩
                          rw [hp0] at hperm
                          rw [List.flatten_flatten]
                          exact hperm

/-- **disagg_tiling** (calendar reading of `obsSubs`). For a period that starts on the first of a
month from 1970 on, sub-period `k` is `[first of month M0 + k·res, last of month M0 + (k+1)·res − 1]`
(`M0` the month index of the period start): whole `res`-month blocks, each starting the day after
the previous one ends, with strictly increasing ends — and the ones kept by the observability filter
are the first `j` of them. -/
theorem disagg_tiling {c : Cell} {res : Nat} (hr : 1 ≤ res) (hd : c.ps.d = 1)
    (h70 : 0 ≤ monthToId c.ps) (n : Nat) :
    subperiods c.ps res n = (List.range n).map (subOf (monthToId c.ps) res) ∧
    (∀ k, (subOf (monthToId c.ps) res (k + 1)).1 = (subOf (monthToId c.ps) res k).2.succ) ∧
    (∀ j k, j < k → (subOf (monthToId c.ps) res j).2 < (subOf (monthToId c.ps) res k).2) ∧
    ∃ j, j ≤ n ∧ obsSubs c res n = (List.range j).map (subOf (monthToId c.ps) res) :=
  ⟨subperiods_firstOf hd h70 res n, subOf_consecutive _ res, fun _ _ h => subOf_end_lt hr h,
   obsSubs_prefix hr hd h70 n⟩

/-- **disagg_spec_bridge.** the executable predicate (exact, `tol = 0`) holds on the model's own
output — unless the triangle is returned as is — under the decidable well-formedness `disaggWF`
(per slice: resolution `L` a multiple of `res`, periods of exactly `L` months starting on the first
of a month from 1970 on, no repeated cell, distinct-key value dicts, disjoint periods at equal
evaluation dates; the driver evaluates it on every generated case). `disaggSpec` checks, per input
cell: the output cells of its slice and evaluation date on its expected sub-periods are exactly
those sub-periods, each once (tiling, nothing missing), plain Cells with exactly the selected
fields, every selected field adding up; and nothing else is in the output. -/
theorem disagg_spec_bridge {t out : List Cell} {res : Nat} {weights : Option (List Num)}
    {fields : Option (List String)} (hwf : disaggWF res t = true)
    (h : disaggregateExperience t res weights fields = .ok out) :
    out = t ∨ disaggSpec res (fields.getD Generated.Units.defaultInterpolationFields) 0 t out = true := by
  rcases disaggregateExperience_core h with h1 | ⟨ws, hws, hcore⟩
  · exact .inl h1
  · exact .inr (disaggCore_spec hwf hws hcore)

/-- **aggregate_disagg_partial.** Disaggregate a well-formed triangle (`disaggWF`; one period
resolution `L` in all slices) and aggregate the result back with C08's model of `aggregate`
(`periodRes = (L, "month")`, no evaluation resolution, a month-end
`periodOrigin` on whose `L`-grid all period starts lie — the harness passes `first ps − 1 day`).
Unless the triangle was returned as is:
* every aggregated cell sits exactly on the coordinates and metadata of an input cell that has an
  observable sub-period, is a CumulativeCell, and every selected field whose rule is "sum of itself"
  reads (C09's `at`, in-range index) the input cell's value;
* every input cell with an observable sub-period has such an aggregated cell.
This is the `at`-reading form, field by field (no assumption on the other fields); the full statement
— exactly once across slices, exact key sets, equal values, order, `aggBackSpec` — is
`aggregate_disagg` below. -/
theorem aggregate_disagg_partial {tr : Transc} {t out back : List Cell} {res : Nat}
    {weights : Option (List Num)} {fields : Option (List String)} {L : Int}
    {origin : Date} {a : AggArgs}
    (hwf : disaggWF res t = true) (hL : ∀ sl ∈ Triangle.slices t, periodResolution sl.2 = .ok L)
    (hd : disaggregateExperience t res weights fields = .ok out)
    (hov : origin.valid = true) (hoe : origin.isMonthEnd = true)
    (hgrid : ∀ c ∈ t, ∃ z : Int, monthToId c.ps = monthToId origin + z * L + 1)
    (hp : a.periodRes = some (L, "month")) (he : a.evalRes = none) (ho : a.periodOrigin = origin)
    (hagg : aggregate tr out a = .ok back) :
    out = t ∨
    ((∀ o ∈ back, ∃ c ∈ t, obsSubs c res (L / (res : Int)).toNat ≠ [] ∧
      o.ps = c.ps ∧ o.pe = c.pe ∧ o.ev = c.ev ∧ o.md = c.md ∧ o.kind = .cumulative ∧
      ∀ f i, (fields.getD Generated.Units.defaultInterpolationFields).contains f = true →
        ruleOf [] (lowerKey f) = some ⟨.sum, [f]⟩ →
        (a.prem = true ∨ f ∉ Generated.Summarize.nonLossMetrics) →
        (∀ x ∈ out, (x.getV f).inRange i = true) →
        (o.getV f).at i = (c.getV f).at i) ∧
    (∀ c ∈ t, obsSubs c res (L / (res : Int)).toNat ≠ [] →
      ∃ o ∈ back, o.md = c.md ∧ o.ps = c.ps ∧ o.pe = c.pe ∧ o.ev = c.ev)) := by
  rcases disaggregateExperience_core hd with h1 | ⟨ws, hws, hcore⟩
  · exact .inl h1
  · exact .inr (aggregate_disagg_core hwf hL hws hcore hov hoe hgrid
      (rfl : standardizeResolution L "month" = .ok (L, .month)) hp he ho hagg)

/-- **aggregate_disagg.** Disaggregate a well-formed triangle and aggregate the result back to its own
resolution with C08's model of `aggregate`: unless the triangle was returned as is (`res` already is
its resolution), the aggregated triangle `back` IS the input restricted to the cells with an observable
first sub-period and to the selected fields, as CumulativeCells:
* `back.map Cell.coord = (t.filter (observable res)).map Cell.coord` — the same cells (metadata,
  period, evaluation date), each exactly once ACROSS slices, in the same (triangle) order;
* every cell of `back` is a CumulativeCell;
* `aggBackSpec … 0 t back = true` (the predicate the driver evaluates on the implementation's output):
  position by position the aggregated cell carries exactly the selected field names of the input cell
  and, for each of them, a non-`None` value with exactly the input value's numbers (`vdata`: an int
  comes back as the equal float, a 0-d array as a 1-element array; arrays elementwise).
Hypotheses: `t` is a triangle (`Canonical`: sorted, one cell class, valid dates) with canonical
metadata (sorted detail dicts — what `Triangle(...)`/the wire decoder produce); `disaggWF` (decidable,
evaluated by the driver on every case) with ONE period resolution `L` in all slices; the aggregation
is called with `(L, "month")`, no evaluation resolution and a month-end origin on whose `L`-grid all
period starts lie (the harness passes `first period_start − 1 day`); every selected field that occurs
in `t` is summarised as "sum of itself" (`ruleOf`; true for all of `DEFAULT_INTERPOLATION_FIELDS`, see
`aggregate_disagg_default`) and is not exempted by `summarize_premium=False`.
Proof: `Lemmas/UnitsAggregate.lean` (windows = original periods), `Lemmas/UnitsSig.lean` (the
conforming sum of equally shaped float parts keeps that shape, so equal `at` readings are equal
values), `Lemmas/UnitsRoundtrip.lean` (piles, exactly-once across slices, sorted order, Bool bridge). -/
theorem aggregate_disagg {tr : Transc} {t out back : List Cell} {res : Nat}
    {weights : Option (List Num)} {fields : Option (List String)} {L : Int}
    {origin : Date} {a : AggArgs}
    (hcan : Properties.C01.Canonical t) (hmd : ∀ c ∈ t, c.md.Canon)
    (hwf : disaggWF res t = true) (hL : ∀ sl ∈ Triangle.slices t, periodResolution sl.2 = .ok L)
    (hd : disaggregateExperience t res weights fields = .ok out)
    (hov : origin.valid = true) (hoe : origin.isMonthEnd = true)
    (hgrid : ∀ c ∈ t, ∃ z : Int, monthToId c.ps = monthToId origin + z * L + 1)
    (hp : a.periodRes = some (L, "month")) (he : a.evalRes = none) (ho : a.periodOrigin = origin)
    (hrule : ∀ c ∈ t, ∀ kv ∈ c.values,
      (fields.getD Generated.Units.defaultInterpolationFields).contains kv.1 = true →
      ruleOf [] (lowerKey kv.1) = some ⟨.sum, [kv.1]⟩ ∧
        (a.prem = true ∨ kv.1 ∉ Generated.Summarize.nonLossMetrics))
    (hagg : aggregate tr out a = .ok back) :
    out = t ∨
    (back.map Cell.coord = (t.filter (observable res)).map Cell.coord ∧
     (∀ o ∈ back, o.kind = .cumulative) ∧
     aggBackSpec res (fields.getD Generated.Units.defaultInterpolationFields) 0 t back = true) := by
  rcases disaggregateExperience_core' hd with h1 | ⟨hinc, ws, hws, hcore⟩
  · exact .inl h1
  · refine .inr ?_
    have hst : standardizeResolution L "month" = .ok (L, .month) := rfl
    obtain ⟨hA, hB, hC⟩ := aggregate_disagg_cells hwf hL hws hcore hov hoe hgrid hst hp he ho hrule hagg
    have hD := (aggregate_disagg_core hwf hL hws hcore hov hoe hgrid hst hp he ho hagg).2
    obtain ⟨h1, h2⟩ := aggBack_of_cells hwf hL hcan.1 hmd
      (prev_none_of_triangle hcan.2.1 hcan.2.2 hinc) hA hB hC hD
    exact ⟨h1, fun o ho => by obtain ⟨_, _, _, _, _, _, _, hk, _⟩ := hA o ho; exact hk, h2⟩

theorem defaultFields_rules : ∀ f ∈ Generated.Units.defaultInterpolationFields,
    ruleOf [] (lowerKey f) = some ⟨.sum, [f]⟩ := by decide +kernel

/-- with the default fields and `summarize_premium=True` the rule hypothesis is discharged by the
regenerated tables (`DEFAULT_INTERPOLATION_FIELDS` × `SUMMARIZE_DEFAULTS`; a table edit that makes one
of the default fields a weighted average breaks `defaultFields_rules`) -/
theorem aggregate_disagg_default {tr : Transc} {t out back : List Cell} {res : Nat}
    {weights : Option (List Num)} {L : Int} {origin : Date} {a : AggArgs}
    (hcan : Properties.C01.Canonical t) (hmd : ∀ c ∈ t, c.md.Canon)
    (hwf : disaggWF res t = true) (hL : ∀ sl ∈ Triangle.slices t, periodResolution sl.2 = .ok L)
    (hd : disaggregateExperience t res weights none = .ok out)
    (hov : origin.valid = true) (hoe : origin.isMonthEnd = true)
    (hgrid : ∀ c ∈ t, ∃ z : Int, monthToId c.ps = monthToId origin + z * L + 1)
    (hp : a.periodRes = some (L, "month")) (he : a.evalRes = none) (ho : a.periodOrigin = origin)
    (hprem : a.prem = true) (hagg : aggregate tr out a = .ok back) :
    out = t ∨
    (back.map Cell.coord = (t.filter (observable res)).map Cell.coord ∧
     (∀ o ∈ back, o.kind = .cumulative) ∧
     aggBackSpec res Generated.Units.defaultInterpolationFields 0 t back = true) :=
  aggregate_disagg (fields := none) hcan hmd hwf hL hd hov hoe hgrid hp he ho
    (fun _ _ kv _ hf => ⟨defaultFields_rules kv.1 (by simpa using hf), .inl hprem⟩) hagg

/-! non-vacuity of `aggregate_disagg`: a one-year cell, half-year sub-periods with weights 1/4 and 3/4,
two fields of which one is selected. `List.mergeSort` (well-founded recursion) does not reduce in the
kernel, so the evaluation is staged: every sort is applied to an already sorted list
(`List.mergeSort_of_pairwise`), everything else is `decide +kernel` (`Lemmas/UnitsExample.lean`). -/

open Bermuda.Units.Example

/-- non-vacuity of `aggregate_disagg`: every hypothesis holds for the one-year cell `exY` split into
half-years with weights 1/4, 3/4 and aggregated back to 12 months from 2019-12-31 -/
theorem exT_roundtrip :
    exBack.map Cell.coord = (exT.filter (observable 6)).map Cell.coord ∧
    (∀ o ∈ exBack, o.kind = .cumulative) ∧
    aggBackSpec 6 Generated.Units.defaultInterpolationFields 0 exT exBack = true := by
  have h := aggregate_disagg (tr := Transc.id) (t := exT) (out := exOut) (back := exBack) (res := 6)
    (weights := exW) (fields := none) (L := 12) (origin := ⟨2019, 12, 31⟩) (a := exArgs)
    ⟨by decide +kernel, by decide +kernel, by decide +kernel⟩ (by decide +kernel) exT_wf
    (by intro sl hsl; rw [exT_slices] at hsl; simp only [List.mem_singleton] at hsl; subst hsl; exact exT_res)
    exT_disagg (by decide +kernel) (by decide +kernel)
    (by intro c hc; simp only [exT, List.mem_singleton] at hc; subst hc; exact ⟨0, by decide +kernel⟩)
    rfl rfl rfl (by decide +kernel) exOut_agg
  rcases h with h | h
  · exact absurd h (by decide +kernel)
  · exact h

example : exT.filter (observable 6) = exT := by decide +kernel


/-- **what is NOT carried** (1): fields outside the selection are dropped — `exY` has `open_claims`,
no cell of `disaggregate_experience [exY]` (default fields) has it -/
theorem disagg_drops_unselected :
    disaggregateExperience exT 6 exW none = .ok exOut ∧
    (∀ c ∈ exT, "open_claims" ∈ c.values.keys) ∧ (∀ o ∈ exOut, "open_claims" ∉ o.values.keys) :=
  ⟨exT_disagg, by decide +kernel, by decide +kernel⟩

/-- **what is NOT carried** (2): a cell whose evaluation date lies inside its first sub-period (here
2020-03-31 for half-year sub-periods of 2020) has no observable sub-period and vanishes -/
theorem disagg_drops_unobservable :
    observable 6 exU = false ∧ disaggregateExperience [exU] 6 exW none = .ok [] :=
  ⟨by decide +kernel, exU_disagg⟩

/-! ### 3. accident_quarter_to_policy_year -/

/-- **policyYear_basis.** every cell of the result is Policy-basis -/
theorem policyYear_basis {t out : List Cell} {len : Nat} {origin : Date} {cont : Bool}
    (h : aqToPolicyYear t len origin cont = .ok out) :
    ∀ o ∈ out, o.md.riskBasis = some "Policy" := by
  unfold aqToPolicyYear at h
  refine foldlM_invariant (fun l : List Cell => ∀ o ∈ l, o.md.riskBasis = some "Policy") ?_ (by simp) h
  intro b sl b' hb hstep
  cases hs : aqToPolicyYearSlice sl.2 len origin cont with
  | error e => simp [hs, bind, Except.bind] at hstep
  | ok r =>
    simp only [hs, bind, Except.bind] at hstep
    have hr : ∀ o ∈ r, o.md.riskBasis = some "Policy" := by
      unfold aqToPolicyYearSlice at hs
      cases hc : aqToPolicyYearCells sl.2 len origin cont with
      | error e => simp [hc, bind, Except.bind] at hs
      | ok tri =>
        simp only [hc, bind, Except.bind] at hs
        exact deriveMetadata_riskBasis hs
    intro o ho
    have := (ofCells_perm' hstep).mem_iff.mp ho
    rcases List.mem_append.mp this with h1 | h1
    · exact hb o h1
    · exact hr o h1

/-- the share table as the code computes it: for every accident period the shares over the policy
years sum to 1 — unless the raw total is 0 (then 0; excluded by the contract "row sums positive",
`Spec.C18.policyCovered`). Hence an amount `v` of an accident period is split without loss. -/
theorem policyYear_shares_split {ps pys : List (Date × Date)} {len : Nat} {cont : Bool}
    {e : (Date × Date) × List ((Date × Date) × Rat)} (he : e ∈ aqShares ps pys len cont) (v : Rat)
    (hpos : (e.2.map (·.2)).sum ≠ 0) :
    ((e.2.map (·.2)).map (v * ·)).sum = v := by
  rw [sum_map_mul_left]
  rcases aqShares_row_sum e he with h | h
  · rw [h, mul_one]
  · exact absurd h hpos

/-- every field keeps one shape within a slice: the values of a field are all scalars (0-d arrays
count as scalars) or all arrays of one length (what `has_consistent_values_shapes` checks; without
it numpy broadcasts a scalar over an array and componentwise totals are not defined) -/
def UniformShapes (t : List Cell) : Prop :=
  ∃ fsig : Metadata → String → Option Nat, ∀ c ∈ t, ∀ kv ∈ c.values, sgIn kv.2 = fsig c.md kv.1

/-- **policyYear_conserves.** Model-level conservation: for every (Policy-basis) slice metadata
`m'`, evaluation date `d`, field `f` and component `i`, the total over the result's cells equals
the total over the input cells of the slices that map to `m'` — provided the share table satisfies
its contract (`policyCovered`: every accident period's row sums to 1) and shapes are uniform.
`total`/`cellField`/`comp` are in `Spec/C18.lean`. -/
theorem policyYear_conserves {t out : List Cell} {len : Nat} {origin : Date} {cont : Bool}
    (h : aqToPolicyYear t len origin cont = .ok out)
    (hcov : policyCovered t len origin cont = true) (hu : UniformShapes t)
    (m' : Metadata) (d : Date) (f : String) (i : Nat) :
    total (out.filter fun o => o.md == m' && o.ev == d) f i =
      total (t.filter fun c => toPolicy c.md == m' && c.ev == d) f i := by
  obtain ⟨fsig, hsig⟩ := hu
  unfold aqToPolicyYear at h
  obtain ⟨rs, hF, hp⟩ := foldlM_add_spec (F := fun sl => aqToPolicyYearSlice sl len origin cont) _ _ _ h
  rw [total_perm (hp.filter _), List.nil_append, total_flatten_filter,
    total_perm ((slices_flatten_perm t).symm.filter _), List.flatMap_def, total_flatten_filter,
    List.map_map]
  refine sum_forall2 hF _ _ ?_
  intro sl r hsl hr
  simp only [Function.comp]
  have hmd : ∀ c ∈ sl.2, c.md = sl.1 := fun c hc => (mem_slices_md hsl hc).1
  refine policyYearSlice_spec (fsig := fsig sl.1) hmd ?_ ?_ hr m' d f i
  · intro c hc kv hkv
    rw [← hmd c hc]; exact hsig c (mem_slices_md hsl hc).2 kv hkv
  · intro pys hpys row hrow
    unfold policyCovered at hcov
    have := List.all_eq_true.mp hcov sl hsl
    simp only [hpys] at this
    have := List.all_eq_true.mp this row hrow
    simpa using this

/-- **policyYear_covered_iff.** The hypothesis `policyCovered` of `policyYear_conserves`, free of the
share table: it holds iff in every slice every accident period is REACHED by one of the policy years of
`policy_years_covered` (`Units.reaches`: the policy year has a written month, and some month between its
first written month and its last written month + `policy_length_months` starts inside the accident
period; with `continuous_issuance=False` the only written month is the first). -/
theorem policyYear_covered_iff {t : List Cell} {len : Nat} (hlen : 1 ≤ len) (origin : Date) (cont : Bool) :
    policyCovered t len origin cont = true ↔
      ∀ sl ∈ Triangle.slices t, ∀ pys, policyYearsCovered sl.2 origin = .ok pys →
        ∀ q ∈ periods sl.2, ∃ py ∈ pys, reaches len cont q py :=
  policyCovered_iff_reached hlen origin cont

/-- continuous issuance: a policy year reaches every accident period that starts on the first of a
month inside it (date-wise `py.start ≤ q.start ≤ py.end`), whatever the policy length — so with
`continuous_issuance=True` an accident period can only be uncovered if NO policy year of
`policy_years_covered` contains its (first-of-month) start -/
theorem policyYear_reached_of_contains {len : Nat} {q py : Date × Date} (hq : q.1.valid = true)
    (hd : q.1.d = 1) (hle : q.1 ≤ q.2) (hv1 : py.1.valid = true) (hv2 : py.2.valid = true)
    (h1 : py.1 ≤ q.1) (h2 : q.1 ≤ py.2) : reaches len true q py :=
  reaches_of_contains hq hd hle hv1 hv2 h1 h2

/-- `policyYear_conserves` with the hypothesis stated on the inputs (policy years vs accident periods) -/
theorem policyYear_conserves_reached {t out : List Cell} {len : Nat} {origin : Date} {cont : Bool}
    (h : aqToPolicyYear t len origin cont = .ok out) (hlen : 1 ≤ len)
    (hreach : ∀ sl ∈ Triangle.slices t, ∀ pys, policyYearsCovered sl.2 origin = .ok pys →
      ∀ q ∈ periods sl.2, ∃ py ∈ pys, reaches len cont q py)
    (hu : UniformShapes t) (m' : Metadata) (d : Date) (f : String) (i : Nat) :
    total (out.filter fun o => o.md == m' && o.ev == d) f i =
      total (t.filter fun c => toPolicy c.md == m' && c.ev == d) f i :=
  policyYear_conserves h ((policyYear_covered_iff hlen origin cont).mpr hreach) hu m' d f i

/-- **policyYear_covered_of_continuous.** With `continuous_issuance=True` the share-table contract
holds for EVERY policy-year origin and every policy length ≥ 1, on month-aligned accident periods
(`Units.MonthAligned`: every period starts on the first of a real month from 1971 on and ends on a real
date not before its start): the policy years of `policy_years_covered` — the
`while py_start < last_end` loop with `add_months(s, 12)`, whatever the origin's day — tile the months
from the first period start to the last period end, so every period start lies in a written month of
some policy year. (An impossible origin date makes `policy_years_covered` raise; nothing to conserve.) -/
theorem policyYear_covered_of_continuous {t : List Cell} {len : Nat} (hlen : 1 ≤ len) (origin : Date)
    (hdom : MonthAligned t) : policyCovered t len origin true = true :=
  policyCovered_of_continuous hlen origin hdom

/-- **policyYear_conserves_continuous.** Conservation with input-level hypotheses only: continuous
issuance, policy length ≥ 1, month-aligned accident periods, one shape per field within a slice. -/
theorem policyYear_conserves_continuous {t out : List Cell} {len : Nat} {origin : Date}
    (h : aqToPolicyYear t len origin true = .ok out) (hlen : 1 ≤ len) (hdom : MonthAligned t)
    (hu : UniformShapes t) (m' : Metadata) (d : Date) (f : String) (i : Nat) :
    total (out.filter fun o => o.md == m' && o.ev == d) f i =
      total (t.filter fun c => toPolicy c.md == m' && c.ev == d) f i :=
  policyYear_conserves h (policyYear_covered_of_continuous hlen origin hdom) hu m' d f i

/-- every cell of the result is a `CumulativeCell` -/
theorem policyYear_kind {t out : List Cell} {len : Nat} {origin : Date} {cont : Bool}
    (h : aqToPolicyYear t len origin cont = .ok out)
    (hcov : policyCovered t len origin cont = true) (hu : UniformShapes t) :
    ∀ o ∈ out, o.kind = .cumulative := by
  obtain ⟨fsig, hsig⟩ := hu
  unfold aqToPolicyYear at h
  obtain ⟨rs, hF, hp⟩ := foldlM_add_spec (F := fun sl => aqToPolicyYearSlice sl len origin cont) _ _ _ h
  intro o ho
  have ho' := hp.mem_iff.mp ho
  rw [List.nil_append] at ho'
  obtain ⟨r, hr, hor⟩ := List.mem_flatten.mp ho'
  obtain ⟨sl, hsl, hslr⟩ := hF.mem_right hr
  have hmd : ∀ c ∈ sl.2, c.md = sl.1 := fun c hc => (mem_slices_md hsl hc).1
  refine policyYearSlice_kind (fsig := fsig sl.1) ?_ ?_ hslr o hor
  · intro c hc kv hkv
    rw [← hmd c hc]; exact hsig c (mem_slices_md hsl hc).2 kv hkv
  · intro pys hpys row hrow
    unfold policyCovered at hcov
    have := List.all_eq_true.mp hcov sl hsl
    simp only [hpys] at this
    have := List.all_eq_true.mp this row hrow
    simpa using this

/-- **policyYear_spec_bridge.** the executable predicate (exact, `tol = 0`) holds on the model's own
output -/
theorem policyYear_spec_bridge {t out : List Cell} {len : Nat} {origin : Date} {cont : Bool}
    (h : aqToPolicyYear t len origin cont = .ok out)
    (hcov : policyCovered t len origin cont = true) (hu : UniformShapes t) :
    policyYearSpec 0 t out = true := by
  unfold policyYearSpec
  simp only [Bool.and_eq_true, List.all_eq_true, beq_iff_eq]
  refine ⟨fun o ho => ⟨policyYear_basis h o ho, policyYear_kind h hcov hu o ho⟩, ?_⟩
  intro k _ f _ i _
  have hc := policyYear_conserves h hcov hu k.1 k.2 f i
  have e1 : out.filter (fun c => (toPolicy c.md, c.ev) == k) = out.filter fun o => o.md == k.1 && o.ev == k.2 := by
    apply List.filter_congr
    intro o ho
    have : toPolicy o.md = o.md := by
      have hb := policyYear_basis h o ho
      unfold toPolicy; cases hm : o.md; simp_all
    rw [this]
    cases k; rfl
  have e2 : t.filter (fun c => (toPolicy c.md, c.ev) == k) = t.filter fun c => toPolicy c.md == k.1 && c.ev == k.2 := by
    apply List.filter_congr
    intro c _
    cases k; rfl
  rw [e1, e2, hc]
  exact close_zero_self _

/-- non-vacuity: one accident quarter, calendar policy year, 12-month policies -/
def exQ1 : Cell :=
  { kind := .cumulative, ps := Date.mk 2020 1 1, pe := Date.mk 2020 3 31, ev := Date.mk 2020 3 31,
    values := [("paid_loss", Val.int 100)], md := {} }

example : policyCovered [exQ1] 12 (Date.mk 2020 1 1) true = true := by decide +kernel
example : aqToPolicyYear [exQ1] 12 (Date.mk 2020 1 1) true =
    .ok [{ exQ1 with ps := Date.mk 2020 1 1, pe := Date.mk 2020 12 31, values := [("paid_loss", Val.flt 100)], md := { riskBasis := some "Policy" } }] := by
  decide +kernel
example : UniformShapes [exQ1] := ⟨fun _ _ => none, by decide⟩
example : MonthAligned [exQ1] := by unfold MonthAligned; decide

/-- a non-trivial `UniformShapes` instance: two slices, one with 3-sample arrays for `paid_loss` (and a
scalar premium on one cell only), the other with scalar `paid_loss` — one shape per field WITHIN a slice -/
def exArrCell (m : Metadata) (ev : Date) (vals : Dict Val) : Cell :=
  { kind := .cumulative, ps := Date.mk 2020 1 1, pe := Date.mk 2020 3 31, ev := ev, values := vals, md := m }
example : UniformShapes
    [exArrCell {} (Date.mk 2020 3 31) [("paid_loss", .arr false [3] [1, 2, 3])],
     exArrCell {} (Date.mk 2020 6 30) [("paid_loss", .arr true [3] [4, 5, 6]), ("earned_premium", .flt 10)],
     exArrCell { currency := some "EUR" } (Date.mk 2020 3 31) [("paid_loss", .int 7)]] :=
  ⟨fun m f => if m = {} ∧ f = "paid_loss" then some 3 else none, by decide⟩

/-! ### 4. program_earned_premium -/

/-- `output_resolution = 0` is outside the model (the code loops forever) -/
theorem premium_refuses_zero_resolution (vol : Rat) (wp ep : List Rat) (wres eres : Nat) (off : Int)
    (c : Bool) : programEarnedPremium vol wp wres ep eres 0 off c = .error .other := by
  simp [programEarnedPremium]

/-- **premium_sums.** whenever the call succeeds, the writing pattern and the earning pattern each
sum to the premium volume -/
theorem premium_sums {vol : Rat} {wp ep : List Rat} {wres eres ores : Nat} {off : Int} {c : Bool}
    {w e : List Rat} (h : programEarnedPremium vol wp wres ep eres ores off c = .ok (w, e)) :
    w.sum = vol ∧ e.sum = vol := by
  unfold programEarnedPremium at h
  split at h
  · cases h
  · rename_i hcond
    simp only [Bool.or_eq_true, beq_iff_eq, not_or] at hcond
    obtain ⟨⟨⟨⟨hw, he⟩, hwr⟩, her⟩, hor⟩ := hcond
    simp only [Except.ok.injEq, Prod.mk.injEq] at h
    obtain ⟨rfl, rfl⟩ := h
    have hmw := monthlyWriting_sum vol wp wres hw hwr
    have hme := monthlyEarning_sum ep eres c he her
    obtain ⟨hlen, hsum⟩ := monthlyCombined_spec (monthlyWriting vol wp wres) (monthlyEarning ep eres c)
    have hmepos : 1 ≤ (monthlyEarning ep eres c).length := by
      cases hl : monthlyEarning ep eres c with
      | nil => rw [hl] at hme; simp at hme
      | cons _ _ => simp
    have hstop : 0 < (if off > 0 then off.toNat else ores) := by
      split <;> omega
    constructor
    · simp only [List.sum_cons, zero_add]
      rw [bounds_sum _ ores _ (by omega) (by omega) _ 0 _ (by omega) (.inl hstop) (by omega)]
      simpa using hmw
    · simp only [List.sum_cons, zero_add]
      rw [bounds_sum _ ores _ (by omega) (le_refl _) _ 0 _ (by omega) (.inl hstop) (by omega)]
      simp only [List.drop_zero]
      rw [hsum, hmw, hme, mul_one]

/-- **premium_nonneg.** non-negative volume and patterns give non-negative output patterns -/
theorem premium_nonneg {vol : Rat} {wp ep : List Rat} {wres eres ores : Nat} {off : Int} {c : Bool}
    {w e : List Rat} (hv : 0 ≤ vol) (hwp : ∀ x ∈ wp, 0 ≤ x) (hep : ∀ x ∈ ep, 0 ≤ x)
    (h : programEarnedPremium vol wp wres ep eres ores off c = .ok (w, e)) :
    (∀ x ∈ w, 0 ≤ x) ∧ (∀ x ∈ e, 0 ≤ x) := by
  unfold programEarnedPremium at h
  split at h
  · cases h
  · rename_i hcond
    simp only [Bool.or_eq_true, beq_iff_eq, not_or] at hcond
    obtain ⟨⟨⟨⟨hw, he⟩, _⟩, _⟩, _⟩ := hcond
    simp only [Except.ok.injEq, Prod.mk.injEq] at h
    obtain ⟨rfl, rfl⟩ := h
    have hmw : NN (monthlyWriting vol wp wres) := monthlyWriting_nn hv hwp hw
    have hme : NN (monthlyEarning ep eres c) := monthlyEarning_nn hep he
    have hmc := monthlyCombined_nn hmw hme
    constructor
    · intro x hx
      rcases List.mem_cons.mp hx with rfl | hx
      · exact le_refl _
      · obtain ⟨b, _, rfl⟩ := List.mem_map.mp hx
        exact hmw.bucket b
    · intro x hx
      rcases List.mem_cons.mp hx with rfl | hx
      · exact le_refl _
      · obtain ⟨b, _, rfl⟩ := List.mem_map.mp hx
        exact hmc.bucket b

/-- non-vacuity: the fixture of `test_program_earned_premium` -/
example : programEarnedPremium 600 [1] 1 [1, 1, 1, 1, 1, 1] 1 1 0 true =
    .ok ([0, 600, 0, 0, 0, 0, 0, 0], [0, 50, 100, 100, 100, 100, 100, 50]) := by decide +kernel

/-- **premium_earned_le_written.** at every output step the cumulative earned premium is at most
the cumulative written premium (convolution bound: a policy written in month n has earned at most
its own premium by any later month, nothing before) -/
theorem premium_earned_le_written {vol : Rat} {wp ep : List Rat} {wres eres ores : Nat} {off : Int}
    {c : Bool} {w e : List Rat} (hv : 0 ≤ vol) (hwp : ∀ x ∈ wp, 0 ≤ x) (hep : ∀ x ∈ ep, 0 ≤ x)
    (h : programEarnedPremium vol wp wres ep eres ores off c = .ok (w, e)) (k : Nat) :
    (e.take k).sum ≤ (w.take k).sum := by
  unfold programEarnedPremium at h
  split at h
  · cases h
  · rename_i hcond
    simp only [Bool.or_eq_true, beq_iff_eq, not_or] at hcond
    obtain ⟨⟨⟨⟨hw, he⟩, _⟩, her⟩, _⟩ := hcond
    simp only [Except.ok.injEq, Prod.mk.injEq] at h
    obtain ⟨rfl, rfl⟩ := h
    have hmw : NN (monthlyWriting vol wp wres) := monthlyWriting_nn hv hwp hw
    have hme : NN (monthlyEarning ep eres c) := monthlyEarning_nn hep he
    have hsum := monthlyEarning_sum ep eres c he her
    cases k with
    | zero => simp
    | succ j =>
      rw [List.take_succ_cons, List.take_succ_cons, List.sum_cons, List.sum_cons, ← List.map_take,
        ← List.map_take]
      obtain ⟨S, _, hS⟩ := bounds_prefix ores (monthlyCombined (monthlyWriting vol wp wres)
        (monthlyEarning ep eres c)).length ((monthlyCombined (monthlyWriting vol wp wres)
        (monthlyEarning ep eres c)).length + 1) 0 (if off > 0 then off.toNat else ores) j (Nat.zero_le _)
      rw [hS, hS]
      simp only [List.drop_zero, zero_add]
      exact monthlyCombined_prefix_le hmw hme hsum S

theorem premium_lengths {vol : Rat} {wp ep : List Rat} {wres eres ores : Nat} {off : Int} {c : Bool}
    {w e : List Rat} (h : programEarnedPremium vol wp wres ep eres ores off c = .ok (w, e)) :
    w.length = e.length := by
  unfold programEarnedPremium at h
  split at h
  · cases h
  · simp only [Except.ok.injEq, Prod.mk.injEq] at h
    obtain ⟨rfl, rfl⟩ := h
    simp

/-- **premium_spec.** the executable predicate (exact, `tol = 0`) holds on the model's own output -/
theorem premium_spec {vol : Rat} {wp ep : List Rat} {wres eres ores : Nat} {off : Int} {c : Bool}
    {w e : List Rat} (hv : 0 ≤ vol) (hwp : ∀ x ∈ wp, 0 ≤ x) (hep : ∀ x ∈ ep, 0 ≤ x)
    (h : programEarnedPremium vol wp wres ep eres ores off c = .ok (w, e)) :
    premiumSpec 0 vol w e = true := by
  obtain ⟨hw, he⟩ := premium_sums h
  obtain ⟨nw, ne⟩ := premium_nonneg hv hwp hep h
  have hlen := premium_lengths h
  unfold premiumSpec
  simp only [zero_mul, hw, he, sub_self, add_zero, neg_zero, Bool.and_eq_true, beq_iff_eq,
    decide_eq_true_eq, List.all_eq_true]
  refine ⟨⟨⟨⟨⟨hlen, by simp [rabs]⟩, by simp [rabs]⟩, nw⟩, ne⟩, ?_⟩
  intro p hp
  rw [prefixSums_eq, prefixSums_eq, ← hlen, List.zip_map'] at hp
  obtain ⟨k, _, rfl⟩ := List.mem_map.mp hp
  simpa using premium_earned_le_written hv hwp hep h (k + 1)


end Bermuda.Properties.C18
