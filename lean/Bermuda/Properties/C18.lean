/-
C18 — unit-changing utilities conserve amounts (work in progress: first theorem only).
-/
import Bermuda.Model.Units
import Bermuda.Spec.C18
namespace Bermuda.Properties.C18
open Bermuda Bermuda.Units

theorem premium_refuses_zero_resolution (vol : Rat) (wp ep : List Rat) (wres eres : Nat) (off : Int) (c : Bool) :
    programEarnedPremium vol wp wres ep eres 0 off c = .error .other := by
  simp [programEarnedPremium]

end Bermuda.Properties.C18
