/-
C19 — A torn .trib/.tribc file is never read as different data.
Only property theorems live here (helper lemmas: `Lemmas/CodecPrefix.lean`).

`decode` mirrors `binary_input.py` including the silent short `stream.read(n)`, the raising
`struct.unpack` on a short read, `peek`, "EOF or unknown marker ends the loop", "unknown tag ⇒ None".
The theorems are about every strict prefix of `encode t` — the bytes a crash during `to_binary`
leaves behind (writes are sequential). Compressed files are outside the model (gzip is a library):
the harness enumerates every truncation of the compressed files on the implementation.
-/
import Bermuda.Lemmas.CodecPrefix
import Bermuda.Lemmas.CodecPy
import Bermuda.Lemmas.CodecTriangle
namespace Bermuda.Properties.C19
open Bermuda Bermuda.Codec

/-! ### 1. per-class prefix lemmas: on a strict prefix of what the writer wrote the reader raises
(`StrongP`) or, at worst, returns having consumed all that is left (`WeakP`) -/

/-- fixed-width `<hBB`: always raises -/
theorem date_prefix (d : Date) : StrongP readDate (writeDate d) := readDate_strong d

/-- `<d`: always raises -/
theorem limit_prefix (l : Option Bytes) (h : limitOk l = true) : StrongP readLimit (writeLimit l) :=
  readLimit_strong l h

/-- a string is read with a plain `stream.read(n)`: cut inside its body it comes back SHORTER
without an error (unless the cut splits a UTF-8 sequence) — but then nothing is left -/
theorem string_prefix (s : Option Bytes) (h : optStrOk s = true) : WeakP readStr (writeStr s) :=
  readStr_weak s h

/-- arrays: `np.frombuffer(...).reshape(shape)` raises on a short payload -/
theorem array_prefix (dims : List Nat) (p : Bytes) (h : arrOk dims p = true) :
    StrongP readArrBody (writeArrBody dims p) := readArrBody_strong dims p h

/-- a value whose tag byte is missing reads as `None` (weak); everything else raises or is a
short string -/
theorem value_prefix (v : RawVal) (h : valOk v = true) : WeakP readVal (writeVal v) :=
  readVal_weak v h

/-- a dictionary needs its `DICT_END` byte: every strict prefix raises (a value that came back
early is followed by a `<H` unpack on empty input) -/
theorem dict_prefix (pool : List Bytes) (hp : pool.length ≤ 65536) (d : RawDict)
    (hd : dictOk d = true) (hk : KeysIn pool d) :
    StrongP (readDict (pool.map some)) (writeDict pool d) := readDict_strong pool hp d hd hk

/-- a metadata record ends in two dictionaries: every strict prefix raises -/
theorem metadata_prefix (pool : List Bytes) (hp : pool.length ≤ 65536) (m : RawMetadata)
    (hm : metaOk m = true) (hk1 : KeysIn pool m.details) (hk2 : KeysIn pool m.lossDetails) :
    StrongP (readMetaBody (pool.map some)) (writeMetaBody pool m) :=
  readMetaBody_strong pool hp m hm hk1 hk2

/-- a cell record ends in a dictionary (or, for incremental cells, a date): every strict prefix
raises — no partial last cell -/
theorem cell_prefix (pool : List Bytes) (hp : pool.length ≤ 65536) (c : RawCell)
    (hc : cellOk c = true) (hk : KeysIn pool c.values) :
    StrongP (readCellBody (pool.map some) c.kind c.md) (writeCellBody pool c) :=
  readCellBody_strong pool hp c hc hk

/-- the string pool: raises, or comes back (possibly with a shortened last string) with nothing
left — and then the record loop returns the empty triangle -/
theorem pool_prefix (pool : List Bytes) (hlen : pool.length < 32768)
    (h : ∀ s ∈ pool, strOk s = true) : WeakP readPool (writePool pool) := readPool_weak pool hlen h

/-- the record loop, by induction over the records -/
theorem records_prefix (pool : List Bytes) (hp : pool.length ≤ 65536)
    (cells : List RawCell) (hc : ∀ c ∈ cells, cellOk c = true ∧ CellIn pool c)
    (prev : Option RawMetadata) (m fuel : Nat)
    (hf : ((writeRecords pool prev cells).take m).length < fuel) :
    PrefixResult cells (readRecords (pool.map some) fuel prev ((writeRecords pool prev cells).take m)) :=
  readRecords_prefix pool hp cells hc prev m fuel hf

/-! ### 2. the property -/

/-- **C19.** Reading any strict prefix of a valid file either raises or returns exactly the
leading cells of the original triangle, in order, unmodified: never a cell that was not in the
original, never a cell with altered dates, metadata or values, never cells out of order. -/
theorem decode_prefix_safe (t : RawTriangle) (h : wf t = true) (n : Nat) (hn : n < (encode t).length) :
    (∃ e, decode ((encode t).take n) = .error e) ∨
    (∃ k, decode ((encode t).take n) = .ok (t.take k)) :=
  decode_prefix_safe_main t h n hn

/-- **… for the writer as written.** `to_binary` decides on a metadata record with Python's `!=` (`encodePy`); on
coherent triangles (adjacent metadata Python-equal exactly when identical — every triangle the all-offsets stream
uses; the driver evaluates `coherent`) its file is `encode t`, so every strict prefix of the file `to_binary`
really wrote is refused or yields leading cells. -/
theorem decode_prefix_safe_py (t : RawTriangle) (h : wf t = true) (hc : coherent t = true) (n : Nat)
    (hn : n < (encodePy t).length) :
    (∃ e, decode ((encodePy t).take n) = .error e) ∨
    (∃ k, decode ((encodePy t).take n) = .ok (t.take k)) := by
  rw [encodePy_eq_encode t hc] at hn ⊢
  exact decode_prefix_safe t h n hn

/-- **… for EVERY triangle of the domain, coherent or not.** When adjacent cells carry metadata that Python's `==`
identifies in different representations (`1` / `1.0` / `True`, another insertion order of a detail dict) the untorn
file reads back as `firstRepr t` (C05.decode_encodePy_firstRepr). Every strict prefix of the file `to_binary`
really wrote is refused or decodes to exactly the leading cells of THAT triangle — a torn file never yields
anything the intact file would not yield. (`decode_prefix_safe_py` is the instance `firstRepr t = t`.) -/
theorem decode_prefix_safe_firstRepr (t : RawTriangle) (h : wf t = true) (n : Nat) (hn : n < (encodePy t).length) :
    (∃ e, decode ((encodePy t).take n) = .error e) ∨
    (∃ k, decode ((encodePy t).take n) = .ok ((firstRepr t).take k)) :=
  decode_prefix_safe_firstRepr_main t h n hn

/-- the Spec predicate on what a torn file of the writer as written returned, against the oracle `firstRepr t` -/
theorem spec_prefixSafe_firstRepr (t : RawTriangle) (h : wf t = true) (n : Nat) (hn : n < (encodePy t).length)
    (r : RawTriangle) (hr : decode ((encodePy t).take n) = .ok r) : Spec.C19.prefixSafe (firstRepr t) r = true := by
  have hcells := firstRepr_cellOk t h
  rcases decode_prefix_safe_firstRepr t h n hn with ⟨e, he⟩ | ⟨k, hk⟩
  · rw [he] at hr; cases hr
  · rw [hk] at hr
    cases hr
    exact prefixSafe_take (firstRepr t) hcells k

/-- **the compressed flavour.** gzip is a parameter; the ONE library fact relied on is named as a hypothesis:
a strict prefix of a (single-member) gzip stream is refused by the decompressor (`EOFError` / `BadGzipFile`).
Under it every truncation of a `.tribc` file raises — whatever the extension / flag combination (if the reader
settles on "not compressed" it meets the gzip magic `1f 8b` instead of the .trib magic, which needs `hm`; if the
extension is unknown it refuses outright). The hypothesis is false for a writer that emits several gzip members
(a cut exactly at a member boundary decompresses): `_write_binary` must keep writing ONE member. -/
theorem compressed_prefix_refused (gzip : Bytes → Bytes) (gunzip : Bytes → Except Err Bytes)
    (htrunc : ∀ b n, n < (gzip b).length → ∃ e, gunzip ((gzip b).take n) = .error e)
    (hm : ∀ b n, ((gzip b).take n).take 4 ≠ K.magic)
    (t : RawTriangle) (ext : Ext) (flag : Option Bool) (n : Nat) (hn : n < (gzip (encodePy t)).length) :
    ∃ e, decodeFile gunzip ext flag ((gzip (encodePy t)).take n) = .error e := by
  unfold decodeFile
  cases hi : inferCompress ext flag with
  | error e => exact ⟨e, rfl⟩
  | ok c =>
    cases c
    · refine ⟨.valueError, ?_⟩
      simp only [decode, hm (encodePy t) n, ne_eq, not_false_eq_true, if_true]
    · obtain ⟨e, he⟩ := htrunc (encodePy t) n hn
      exact ⟨e, by simp [he]⟩

/-- **… for the function `from_binary` as a whole** (`Fn.fromBinary` = `decode`, the numeric view `cellOfRaw` of every
record, then the constructor `Triangle(cells)`): a prefix of a canonical cell sequence is canonical, so the
constructor neither raises on the leading cells nor reorders them — what `from_binary` RETURNS for a torn file is
an error or exactly the leading cells of the triangle that was written. `cells` is the numeric view of the written
triangle, `Canonical` what every `Triangle` object satisfies. -/
theorem fromBinary_prefix_safe (t : RawTriangle) (h : wf t = true) (hc : coherent t = true)
    {cells : List Cell} (hv : t.mapM Fn.cellOfRaw = .ok cells) (hcan : Properties.C01.Canonical cells)
    (n : Nat) (hn : n < (encodePy t).length) :
    (∃ e, Fn.fromBinary ((encodePy t).take n) = .error e) ∨
    (∃ k, Fn.fromBinary ((encodePy t).take n) = .ok (cells.take k)) := by
  unfold Fn.fromBinary
  rcases decode_prefix_safe_py t h hc n hn with ⟨e, he⟩ | ⟨k, hk⟩
  · exact Or.inl ⟨e, by rw [he]; rfl⟩
  · refine Or.inr ⟨k, ?_⟩
    rw [hk]
    simp only [bind, Except.bind, mapM_take_ok k hv, Properties.C01.ofCells_idem (canonical_take hcan k)]

/-- a file cut inside the 5-byte header is refused -/
theorem decode_header_prefix_error (t : RawTriangle) (n : Nat) (hn : n < 5) :
    ∃ e, decode ((encode t).take n) = .error e := by
  have hm : K.magic = [175, 54, 1, 0] := by decide
  have hv : K.version = [1] := by decide
  refine ⟨.valueError, ?_⟩
  have h5 : n = 0 ∨ n = 1 ∨ n = 2 ∨ n = 3 ∨ n = 4 := by omega
  rcases h5 with rfl | rfl | rfl | rfl | rfl <;> simp [decode, encode, hm, hv]

/-- the Spec predicate the driver runs on what the IMPLEMENTATION returned for a torn file holds
for whatever the model returns -/
theorem spec_prefixSafe (t : RawTriangle) (h : wf t = true) (n : Nat) (hn : n < (encode t).length)
    (r : RawTriangle) (hr : decode ((encode t).take n) = .ok r) : Spec.C19.prefixSafe t r = true := by
  rcases decode_prefix_safe t h n hn with ⟨e, he⟩ | ⟨k, hk⟩
  · rw [he] at hr; cases hr
  · rw [hk] at hr
    cases hr
    exact prefixSafe_take t (wf_parts h).1 k

/-! ### 3. non-vacuity -/

/-- the hypotheses hold for the 2-slice incremental witness (all value kinds, non-ASCII and `None`
strings, a 2-d array): each of its strict prefixes is refused or yields leading cells -/
example (n : Nat) (hn : n < (encode exTriangle).length) :
    (∃ e, decode ((encode exTriangle).take n) = .error e) ∨
    (∃ k, decode ((encode exTriangle).take n) = .ok (exTriangle.take k)) :=
  decode_prefix_safe exTriangle exTriangle_wf n hn

end Bermuda.Properties.C19
