/-
C19 — A torn .trib/.tribc file is never read as different data.
Only property theorems live here (helper lemmas: `Lemmas/Codec*.lean`).
-/
import Bermuda.Lemmas.CodecSpec
import Bermuda.Spec.C19
namespace Bermuda.Properties.C19
open Bermuda Bermuda.Codec

/-- a file cut inside the 5-byte header is refused -/
theorem decode_header_prefix_error (t : RawTriangle) (n : Nat) (hn : n < 5) :
    ∃ e, decode ((encode t).take n) = .error e := by
  have hm : K.magic = [175, 54, 1, 0] := by decide
  have hv : K.version = [1] := by decide
  refine ⟨.valueError, ?_⟩
  have h5 : n = 0 ∨ n = 1 ∨ n = 2 ∨ n = 3 ∨ n = 4 := by omega
  rcases h5 with rfl | rfl | rfl | rfl | rfl <;> simp [decode, encode, hm, hv]

-- OPEN decode_prefix_safe
-- theorem decode_prefix_safe (t : RawTriangle) (h : wf t = true) (n : Nat) (hn : n < (encode t).length) :
--     (∃ e, decode ((encode t).take n) = .error e) ∨
--     (∃ k, decode ((encode t).take n) = .ok (t.take k))

end Bermuda.Properties.C19
