/-
C20 — plot data is faithful (partial).
-/
import Bermuda.Model.Plot
import Bermuda.Spec.C20
import Bermuda.Generated.PlotMetrics
namespace Bermuda.Properties.C20
open Bermuda Bermuda.Plot

/-- exactly one record per cell, in the triangle's own cell order, carrying that cell's period,
evaluation date and development lag -/
theorem records_one_per_cell_in_order (ms : List Metric) (t : List Cell) :
    (buildPlotData ms t).map (fun r => (r.ps, r.pe, r.ev, r.devLag)) =
      t.map (fun c => (c.ps, c.pe, c.ev, devLagMonths c.pe c.ev)) := by
  simp [buildPlotData, mkRecord, Cell.devLag, calculateDevLag, Function.comp_def]

end Bermuda.Properties.C20
