/-
C20 — plot data is faithful: one record per cell, correct metrics and labels (PARTIAL: altair /
Vega-Lite validity and the square root of `sd` are outside the model).

The model `buildPlotData` is parameterised by the metric table; the theorems below instantiate it
with `Generated.PlotMetrics.metrics` (regenerated from COMMON_METRIC_DICT's lambdas each run) and
`Generated.Plot.{quantileLevels, fieldSummaryFields}`. What a metric NAME and a statistic NAME
state is written in `Spec/C20.lean` from the property text, independently of the tables.
Helper lemmas: `Lemmas/Plot.lean`.
-/
import Bermuda.Model.Plot
import Bermuda.Spec.C20
import Bermuda.Lemmas.Plot
import Bermuda.Lemmas.PlotSpec
import Bermuda.Lemmas.PlotStats
import Bermuda.Generated.PlotMetrics
namespace Bermuda.Properties.C20
open Bermuda Bermuda.Plot

/-- the metric of `COMMON_METRIC_DICT` with this display name -/
def metricNamed (name : String) : Option Metric :=
  Generated.PlotMetrics.metrics.find? (·.name == name)

/-! ### 1. records -/

/-- exactly one record per cell, in the triangle's own cell order, carrying that cell's period,
evaluation date and development lag -/
theorem records_one_per_cell_in_order (ms : List Metric) (t : List Cell) :
    (buildPlotData ms t).map (fun r => (r.ps, r.pe, r.ev, r.devLag)) =
      t.map (fun c => (c.ps, c.pe, c.ev, devLagMonths c.pe c.ev)) := by
  simp [buildPlotData, mkRecord, Cell.devLag, calculateDevLag, Function.comp_def]

theorem records_length (ms : List Metric) (t : List Cell) :
    (buildPlotData ms t).length = t.length := by
  simp [buildPlotData]

/-- the Spec clause holds on the model's output (exactly: tolerance 0) -/
theorem onePerCell_model (ms : List Metric) (t : List Cell) :
    Spec.C20.onePerCell 0 t (buildPlotData ms t) = true := by
  have h : ∀ (f : Cell → List (String × Summary)) (l : List Cell),
      Spec.C20.onePerCell 0 l (l.map fun c => mkRecord c (f c)) = true := by
    intro f l
    unfold Spec.C20.onePerCell
    induction l with
    | nil => rfl
    | cons c rest ih =>
      simp only [List.map_cons, Spec.C20.all2, Bool.and_eq_true]
      refine ⟨?_, ih⟩
      simp [mkRecord, Cell.devLag, calculateDevLag, Spec.C20.approx, Spec.C20.absR]
  exact h _ t

/-! ### 2. what each built-in metric computes (tables are the generated ones) -/

/-- the three loss ratios are `100 · loss / earned_premium` of the cell's OWN values, whatever the
neighbours are -/
theorem lossRatio_value (c : Cell) (p n : Option Cell) :
    (metricNamed "Paid Loss Ratio").map (safeApplyMetric · c p n) = some (Spec.C20.ratio100 c "paid_loss") ∧
    (metricNamed "Reported Loss Ratio").map (safeApplyMetric · c p n) = some (Spec.C20.ratio100 c "reported_loss") ∧
    (metricNamed "Incurred Loss Ratio").map (safeApplyMetric · c p n) = some (Spec.C20.ratio100 c "incurred_loss") := by
  have h1 : metricNamed "Paid Loss Ratio" = some ⟨"Paid Loss Ratio", 1,
      .div (.mul (.num 100) (.field .cell "paid_loss")) (.field .cell "earned_premium")⟩ := by decide +kernel
  have h2 : metricNamed "Reported Loss Ratio" = some ⟨"Reported Loss Ratio", 1,
      .div (.mul (.num 100) (.field .cell "reported_loss")) (.field .cell "earned_premium")⟩ := by decide +kernel
  have h3 : metricNamed "Incurred Loss Ratio" = some ⟨"Incurred Loss Ratio", 1,
      .div (.mul (.num 100) (.field .cell "incurred_loss")) (.field .cell "earned_premium")⟩ := by decide +kernel
  have key : ∀ loss : String,
      safeApplyMetric ⟨"", 1, .div (.mul (.num 100) (.field .cell loss)) (.field .cell "earned_premium")⟩ c p n
        = Spec.C20.ratio100 c loss := by
    intro loss
    simp only [safeApplyMetric, MExpr.eval, Spec.C20.ratio100, Spec.C20.cellField]
    cases readField (some c) loss <;> cases readField (some c) "earned_premium" <;> simp
  rw [h1, h2, h3]
  exact ⟨congrArg some (key _), congrArg some (key _), congrArg some (key _)⟩

/-- plain fields are passed through: the metric is the cell's own stored value -/
theorem passthrough_value (c : Cell) (p n : Option Cell) :
    ∀ e ∈ [("Paid Loss", "paid_loss"), ("Reported Loss", "reported_loss"),
           ("Incurred Loss", "incurred_loss"), ("Earned Premium", "earned_premium"),
           ("Reported Claims", "reported_claims")],
      (metricNamed e.1).map (safeApplyMetric · c p n) = some (Spec.C20.cellField c e.2) := by
  have h : ∀ e ∈ [("Paid Loss", "paid_loss"), ("Reported Loss", "reported_loss"),
           ("Incurred Loss", "incurred_loss"), ("Earned Premium", "earned_premium"),
           ("Reported Claims", "reported_claims")],
      metricNamed e.1 = some ⟨e.1, 1, .field .cell e.2⟩ := by decide +kernel
  intro e he
  rw [h e he]
  rfl

/-- age-to-age metrics divide the SUCCESSOR's value (the `next_cell` handed in by the row) by the
cell's own; no successor ⇒ no value -/
theorem ata_value (c : Cell) (p n : Option Cell) :
    ∀ e ∈ [("Paid ATA", "paid_loss"), ("Reported ATA", "reported_loss")],
      (metricNamed e.1).map (safeApplyMetric · c p n) =
        some (do let a ← readField n e.2; let b ← readField (some c) e.2; MV.bin ratDiv a b) := by
  have h : ∀ e ∈ [("Paid ATA", "paid_loss"), ("Reported ATA", "reported_loss")],
      metricNamed e.1 = some ⟨e.1, 3, .div (.field .next e.2) (.field .cell e.2)⟩ := by decide +kernel
  intro e he
  rw [h e he]
  rfl

theorem ataIncr_value (c : Cell) (p n : Option Cell) :
    ∀ e ∈ [("Paid Incremental ATA", "paid_loss"), ("Reported Incremental ATA", "reported_loss")],
      (metricNamed e.1).map (safeApplyMetric · c p n) =
        some (do let r ← (do let a ← readField n e.2; let b ← readField (some c) e.2; MV.bin ratDiv a b)
                 MV.bin ratSub r (.scalar 1)) := by
  have h : ∀ e ∈ [("Paid Incremental ATA", "paid_loss"), ("Reported Incremental ATA", "reported_loss")],
      metricNamed e.1 = some ⟨e.1, 3, .sub (.div (.field .next e.2) (.field .cell e.2)) (.num 1)⟩ := by
    decide +kernel
  intro e he
  rw [h e he]
  simp only [Option.map_some, safeApplyMetric, MExpr.eval]
  rfl

/-- every function of COMMON_METRIC_DICT could be executed symbolically (no branching on values or
neighbours, arithmetic only): the generated table says everything the functions do -/
theorem metrics_probe_ok : Generated.PlotMetrics.ok = true := by decide

/-- the metric table is exactly the twelve names the Spec knows, in snake case, without clashes -/
theorem metric_names :
    Generated.PlotMetrics.metrics.map (toSnake ·.name) = Spec.C20.table.map (·.1) ∧
    (Spec.C20.table.map (·.1)).Nodup := by
  decide +kernel

/-! ### 3. absent inputs ⇒ no summary -/

theorem readField_absent {c : Cell} {k : String} (h : c.values.get? k = none) :
    readField (some c) k = none := by
  simp [readField, h]

/-- a loss ratio has no value when the premium or the loss is absent (or `None`) -/
theorem ratio_absent {c : Cell} {loss : String}
    (h : readField (some c) "earned_premium" = none ∨ readField (some c) loss = none) :
    Spec.C20.ratio100 c loss = none := by
  unfold Spec.C20.ratio100 Spec.C20.cellField
  rcases h with h | h
  · rw [h]; cases readField (some c) loss <;> rfl
  · rw [h]; rfl

/-- an age-to-age metric has no value for the last evaluation of a row -/
theorem ata_absent_without_successor (c : Cell) (p : Option Cell) :
    ∀ e ∈ ["Paid ATA", "Reported ATA", "Paid Incremental ATA", "Reported Incremental ATA"],
      (metricNamed e).map (safeApplyMetric · c p none) = some none := by
  intro e he
  simp only [List.mem_cons, List.not_mem_nil, or_false] at he
  rcases he with rfl | rfl | rfl | rfl
  · have := ata_value c p none _ (List.mem_cons_self ..); simpa [readField] using this
  · have := ata_value c p none ("Reported ATA", "reported_loss") (by simp); simpa [readField] using this
  · have := ataIncr_value c p none _ (List.mem_cons_self ..); simpa [readField] using this
  · have := ataIncr_value c p none ("Reported Incremental ATA", "reported_loss") (by simp)
    simpa [readField] using this

/-- the names in a cell's summary dict are exactly the metrics that produced a value: a metric
whose inputs are absent contributes NO entry (`remove_empties`) -/
theorem absent_input_no_summary (ms : List Metric) (c : Cell) (p n : Option Cell) :
    (cellSummaries ms c p n).map (·.1) =
      (ms.filter fun m => (safeApplyMetric m c p n).isSome).map (toSnake ·.name) := by
  unfold cellSummaries
  induction ms with
  | nil => rfl
  | cons m rest ih =>
    simp only [List.filterMap_cons, List.filter_cons]
    cases h : safeApplyMetric m c p n <;> simp [ih]

/-! ### 4. statistics and their names -/

/-- the statistics are attached to the dataclass fields by POSITION; read as names, position by
position: the first five are mean, median, sd, min, max and the q-fields parse to exactly the
levels handed to `np.quantile` — `q2_5 ↦ 1/40, q5 ↦ 1/20, …, q80 ↦ 4/5, …, q97_5 ↦ 39/40` -/
theorem quantile_levels_named :
    statNames.take 5 = ["mean", "median", "sd", "min", "max"] ∧
    ((statNames.drop 5).take Generated.Plot.quantileLevels.length).map Spec.C20.parseLevel
      = Generated.Plot.quantileLevels.map some ∧
    (statNames.drop 5).zip Generated.Plot.quantileLevels =
      [("q2_5", (1 : Rat) / 40), ("q5", (1 : Rat) / 20), ("q10", (1 : Rat) / 10), ("q20", (1 : Rat) / 5),
       ("q50", (1 : Rat) / 2), ("q80", (4 : Rat) / 5), ("q90", (9 : Rat) / 10), ("q95", (19 : Rat) / 20),
       ("q97_5", (39 : Rat) / 40)] ∧
    (statNames.take (5 + Generated.Plot.quantileLevels.length)) = Spec.C20.requiredStats := by
  decide +kernel

/-- levels are non-negative, at most 1, and ascending in field order -/
theorem quantile_levels_sorted :
    Generated.Plot.quantileLevels.Pairwise (· ≤ ·) ∧
    ∀ q ∈ Generated.Plot.quantileLevels, 0 ≤ q ∧ q ≤ 1 := by
  decide +kernel

/-- `np.quantile` (linear interpolation) is monotone in the level -/
theorem quantile_mono {xs : List Rat} (hne : xs ≠ []) {q q' : Rat} (h0 : 0 ≤ q) (h : q ≤ q') :
    quantile xs q ≤ quantile xs q' := by
  rw [quantile_eq_interp, quantile_eq_interp]
  have hn : (1 : Rat) ≤ (xs.length : Rat) := by
    have : 1 ≤ xs.length := List.length_pos_iff.mpr hne
    exact_mod_cast this
  apply interp_mono (sortRat_sorted xs)
  · exact mul_nonneg h0 (by linarith)
  · exact mul_le_mul_of_nonneg_right h (by linarith)

/-- every quantile lies between the sample minimum and maximum (for every level: indices are
clamped to the sample) -/
theorem min_le_quantile_le_max (xs : List Rat) (q : Rat) :
    minimum xs ≤ quantile xs q ∧ quantile xs q ≤ maximum xs := by
  rw [quantile_eq_interp]
  have hs := sortRat_sorted xs
  obtain ⟨lo, hi⟩ := interp_bounds hs (q * ((xs.length : Rat) - 1))
  unfold minimum maximum
  constructor
  · exact le_trans (nth_zero_le hs _) lo
  · have := nth_le_last hs ((q * ((xs.length : Rat) - 1)).floor.toNat + 1)
    rw [sortRat_length] at this
    exact le_trans hi this

/-- the quantile entries of a sample summary, in field order (= ascending stated level, see
`quantile_levels_named`), are non-decreasing -/
theorem summary_monotone {xs : List Rat} (hne : xs ≠ []) :
    (Generated.Plot.quantileLevels.map (quantile xs)).Pairwise (· ≤ ·) := by
  obtain ⟨hs, hb⟩ := quantile_levels_sorted
  rw [List.pairwise_map]
  exact hs.imp_of_mem fun {a b} ha _ hab => quantile_mono hne (hb a ha).1 hab

/-- shape of a sample summary: the five moments followed by the quantiles at the generated levels -/
theorem statValues_shape (xs : List Rat) :
    statValues xs = [.exact (mean xs), .exact (median xs), .sqrt (variance xs), .exact (minimum xs),
      .exact (maximum xs)] ++ (Generated.Plot.quantileLevels.map (quantile xs)).map .exact := by
  simp [statValues, Function.comp_def]

/-! ### 5. neighbours come from the same slice and period -/

/-- the predecessor and successor handed to a metric belong to the cell's own (metadata, period)
row — never to another slice -/
theorem neighbours_same_slice (t : List Cell) :
    ∀ kr ∈ slicePeriodRows t, ∀ tr ∈ rowTriples kr.2,
      tr.1 ∈ t ∧ rowKey tr.1 = kr.1 ∧
      (∀ p, tr.2.1 = some p → p ∈ t ∧ rowKey p = rowKey tr.1) ∧
      (∀ n, tr.2.2 = some n → n ∈ t ∧ rowKey n = rowKey tr.1) := by
  intro kr hkr tr htr
  obtain ⟨hc, hp, hn⟩ := mem_zip3 htr
  have kc := rowKey_of_mem_slicePeriodRows hkr hc
  refine ⟨mem_of_mem_slicePeriodRows hkr hc, kc, ?_, ?_⟩
  · intro p hpe
    rw [hpe] at hp
    have : p ∈ kr.2 := by
      rcases List.mem_cons.mp hp with h | h
      · cases h
      · obtain ⟨x, hx, hxe⟩ := List.mem_map.mp h
        cases hxe
        exact List.dropLast_subset _ hx
    exact ⟨mem_of_mem_slicePeriodRows hkr this, (rowKey_of_mem_slicePeriodRows hkr this).trans kc.symm⟩
  · intro n hne
    rw [hne] at hn
    have : n ∈ kr.2 := by
      rcases List.mem_append.mp hn with h | h
      · obtain ⟨x, hx, hxe⟩ := List.mem_map.mp h
        cases hxe
        exact List.mem_of_mem_drop hx
      · simp at h
    exact ⟨mem_of_mem_slicePeriodRows hkr this, (rowKey_of_mem_slicePeriodRows hkr this).trans kc.symm⟩

/-! ### non-vacuity -/

/-- a two-evaluation row: the first cell's Paid ATA is next/own = 3/2, its loss ratio 100·2/4 = 50,
the second cell has no ATA -/
example :
    let c1 : Cell := { ps := ⟨2020, 1, 1⟩, pe := ⟨2020, 12, 31⟩, ev := ⟨2020, 12, 31⟩,
                       values := [("paid_loss", .int 2), ("earned_premium", .int 4)] }
    let c2 : Cell := { c1 with ev := ⟨2021, 12, 31⟩, values := [("paid_loss", .int 3), ("earned_premium", .int 4)] }
    (metricNamed "Paid ATA").map (safeApplyMetric · c1 none (some c2)) = some (some (.scalar ((3 : Rat) / 2))) ∧
    (metricNamed "Paid Loss Ratio").map (safeApplyMetric · c1 none (some c2)) = some (some (.scalar 50)) ∧
    (metricNamed "Paid ATA").map (safeApplyMetric · c2 (some c1) none) = some none := by
  decide +kernel

/-- the interpolation on an already sorted sample: the median of 1,2,3,4 is 5/2, the 2.5th
percentile 1 + 3/40 -/
example : interp [1, 2, 3, 4] (((1 : Rat) / 2) * (4 - 1)) = (5 : Rat) / 2 ∧
    interp [1, 2, 3, 4] (((1 : Rat) / 40) * (4 - 1)) = (43 : Rat) / 40 := by
  decide +kernel

/-! ### 6. the whole Spec holds on the model's output -/

/-- THE BRIDGE: on a valid triangle (no two cells share metadata, period and evaluation date; value
keys of a cell are distinct) the records computed by the model from the GENERATED tables satisfy
every clause of the Spec exactly (tolerance 0): one record per cell in order; every loss ratio,
pass-through and age-to-age summary is present exactly when its inputs are and carries the
statistics its names state, the age-to-age ones computed against the next evaluation of the same
slice and period; quantile entries monotone and between min and max. -/
theorem spec_holds_on_model (t : List Cell) (hv : ValidT t) :
    Spec.C20.holds 0 t (buildPlotData Generated.PlotMetrics.metrics t) = true := by
  unfold Spec.C20.holds
  simp only [Bool.and_eq_true]
  exact ⟨⟨⟨⟨⟨onePerCell_model _ t, valuesOk_model hv _⟩, valuesOk_model hv _⟩, valuesOk_model hv _⟩,
    absentOk_model hv⟩, monotoneOk_model _ t⟩

/-- the hypothesis is satisfiable: a two-slice, two-evaluation triangle -/
example :
    ValidT [{ ps := ⟨2020, 1, 1⟩, pe := ⟨2020, 12, 31⟩, ev := ⟨2020, 12, 31⟩,
              values := [("paid_loss", .int 2), ("earned_premium", .int 4)] },
            { ps := ⟨2020, 1, 1⟩, pe := ⟨2020, 12, 31⟩, ev := ⟨2021, 12, 31⟩,
              values := [("paid_loss", .int 3), ("earned_premium", .int 4)] },
            { ps := ⟨2020, 1, 1⟩, pe := ⟨2020, 12, 31⟩, ev := ⟨2020, 12, 31⟩, md := { country := some "DE" },
              values := [("paid_loss", .flt 1)] }] := by
  unfold ValidT
  constructor
  · decide +kernel
  · decide +kernel

/-! ### 7. the option `remove_empties` (records keep their empty summaries) -/

/-- **one record per cell, in cell order, for BOTH values of `remove_empties`**, carrying that cell's period,
evaluation date and development lag -/
theorem records_one_per_cell_in_order_opt (b : Bool) (ms : List Metric) (t : List Cell) :
    (buildPlotDataOpt b ms t).map (fun r => (r.base.ps, r.base.pe, r.base.ev, r.base.devLag)) =
      t.map (fun c => (c.ps, c.pe, c.ev, devLagMonths c.pe c.ev)) := by
  simp [buildPlotDataOpt, mkRecord, Cell.devLag, calculateDevLag, Function.comp_def]

/-- for both option values the records carry exactly the coordinates, fields and non-empty summaries of the
default call: every theorem about `buildPlotData` speaks about them, too -/
theorem records_base_eq (b : Bool) (ms : List Metric) (t : List Cell) :
    (buildPlotDataOpt b ms t).map (·.base) = buildPlotData ms t := base_eq b ms t

/-- with `remove_empties=False` every record of a valid triangle has one slot per metric of the table, in table
order; a slot is empty exactly when the default call has no summary under that name -/
theorem record_slots {t : List Cell} (hv : ValidT t) (ms : List Metric) {c : Cell} (hc : c ∈ t) :
    (lookupLastAll c (fieldSummariesAll ms t)).map (·.1) = ms.map (toSnake ·.name) ∧
    nonEmpty (lookupLastAll c (fieldSummariesAll ms t)) = lookupLast c (fieldSummaries ms t) :=
  ⟨own_entries_names hv ms hc, by rw [fieldSummaries_eq_map, lookupLast_map]⟩

/-- THE BRIDGE for both option values: the WHOLE Spec (`holds` on the records — one per cell in order, values,
absent inputs, monotone — plus slots and tooltip sources) holds on the model's output -/
theorem spec_holds_on_model_opt (b : Bool) (t : List Cell) (hv : ValidT t) :
    Spec.C20.holdsOpt b 0 t (buildPlotDataOpt b Generated.PlotMetrics.metrics t) = true := by
  unfold Spec.C20.holdsOpt
  simp only [Bool.and_eq_true]
  refine ⟨⟨?_, entriesOk_model hv b⟩, tooltipOk_model b _ t⟩
  rw [base_eq]
  exact spec_holds_on_model t hv

/-- non-vacuity: a cell without premium keeps an EMPTY loss-ratio slot with remove_empties=False and the
tooltip is joined from the fields the cell holds -/
example :
    let t : List Cell := [{ ps := ⟨2020, 1, 1⟩, pe := ⟨2020, 12, 31⟩, ev := ⟨2020, 12, 31⟩,
                            values := [("paid_loss", .int 2)] }]
    ((buildPlotDataOpt false Generated.PlotMetrics.metrics t).map fun r =>
        (r.entries.length, r.entries.lookup "paid_loss_ratio", (r.entries.lookup "paid_loss").map (·.isSome),
         r.tooltip)) = [(12, some none, some true, ["paid_loss"])] ∧
    ((buildPlotDataOpt true Generated.PlotMetrics.metrics t).map fun r => r.entries.map (·.1)) =
      [["paid_loss"]] := by
  decide +kernel

/-! ### 8. what the statistics ARE, independently of the model's formulas

`Spec.statOf` names the model's `mean / median / variance / quantile / minimum / maximum`. The theorems of this section
characterise those functions without reference to their defining formulas: order statistics are THE ascending
rearrangement of the sample; the p-quantile is the k-th order statistic at the grid point p = k/(n−1) and the linear
interpolation of its two neighbours in between (numpy's default method "linear"), hence min at 0, max at 1 and the median
at 1/2; `mean · n = Σ`; the variance is the POPULATION variance. (The harness recomputes every statistic once more with
`fractions` from these characterisations — `percentile`, `py_spec` — which is the oracle for the implementation.) -/

/-- the sorted sample is an ascending rearrangement of the sample … -/
theorem order_statistics (xs : List Rat) : (sortRat xs).Perm xs ∧ (sortRat xs).Pairwise (· ≤ ·) :=
  ⟨List.mergeSort_perm xs _, sortRat_sorted xs⟩

/-- the order statistics are determined by the sample alone: ANY ascending rearrangement of `xs` is `sortRat xs` -/
theorem sortRat_unique {xs l : List Rat} (hp : l.Perm xs) (hs : SortedR l) : l = sortRat xs := by
  have hp2 : l.Perm (sortRat xs) := hp.trans (List.mergeSort_perm xs _).symm
  exact hp2.eq_of_pairwise (le := (· ≤ ·)) (fun a b _ _ h1 h2 => le_antisymm h1 h2) hs (sortRat_sorted xs)

/-- `minimum` is the least element of the sample, `maximum` the greatest (and they are what the Spec's own folds
`minOf` / `maxOf` compute) -/
theorem minimum_is_least (xs : List Rat) (hne : xs ≠ []) :
    minimum xs ∈ xs ∧ (∀ x ∈ xs, minimum xs ≤ x) ∧ Spec.C20.minOf xs = minimum xs := by
  have hs : sortRat xs ≠ [] := by
    intro h; have := sortRat_length xs; rw [h] at this
    exact hne (List.eq_nil_of_length_eq_zero this.symm)
  exact ⟨mem_sortRat.mp (nth_mem hs 0), fun x hx => first_le_mem (sortRat_sorted xs) (mem_sortRat.mpr hx),
    minOf_eq_minimum xs⟩

theorem maximum_is_greatest (xs : List Rat) (hne : xs ≠ []) :
    maximum xs ∈ xs ∧ (∀ x ∈ xs, x ≤ maximum xs) ∧ Spec.C20.maxOf xs = maximum xs := by
  have hs : sortRat xs ≠ [] := by
    intro h; have := sortRat_length xs; rw [h] at this
    exact hne (List.eq_nil_of_length_eq_zero this.symm)
  refine ⟨mem_sortRat.mp (nth_mem hs _), fun x hx => ?_, maxOf_eq_maximum xs⟩
  have := mem_le_last (sortRat_sorted xs) (mem_sortRat.mpr hx)
  rwa [sortRat_length] at this

/-- the virtual index `h` lies in `[k, k+1)`: the quantile is the linear interpolation of the two neighbouring
order statistics -/
theorem quantile_between (xs : List Rat) (q : Rat) (k : Nat)
    (h1 : (k : Rat) ≤ q * ((xs.length : Rat) - 1)) (h2 : q * ((xs.length : Rat) - 1) < (k : Rat) + 1) :
    quantile xs q =
      (1 - (q * ((xs.length : Rat) - 1) - k)) * nth (sortRat xs) k +
        (q * ((xs.length : Rat) - 1) - k) * nth (sortRat xs) (k + 1) := by
  have hf : (q * ((xs.length : Rat) - 1)).floor = (k : Int) := floor_eq (by exact_mod_cast h1) (by exact_mod_cast h2)
  unfold quantile
  simp only [hf, Int.toNat_natCast]
  push_cast
  ring

/-- at the grid point `k/(n−1)` the quantile IS the k-th order statistic -/
theorem quantile_at_grid (xs : List Rat) (k : Nat) (hn : 2 ≤ xs.length) :
    quantile xs ((k : Rat) / ((xs.length : Rat) - 1)) = nth (sortRat xs) k := by
  have hne : (xs.length : Rat) - 1 ≠ 0 := by
    have : (2 : Rat) ≤ (xs.length : Rat) := by exact_mod_cast hn
    intro h; linarith
  have hh : (k : Rat) / ((xs.length : Rat) - 1) * ((xs.length : Rat) - 1) = k := by field_simp
  rw [quantile_between xs _ k (by rw [hh]) (by rw [hh]; linarith), hh]
  ring

theorem quantile_zero (xs : List Rat) : quantile xs 0 = minimum xs := by
  have := quantile_between xs 0 0 (by simp) (by simp)
  rw [this]; unfold minimum; simp

theorem quantile_one (xs : List Rat) (hne : xs ≠ []) : quantile xs 1 = maximum xs := by
  have hl : 1 ≤ xs.length := List.length_pos_iff.mpr hne
  have hc : (1 : Rat) * ((xs.length : Rat) - 1) = ((xs.length - 1 : Nat) : Rat) := by
    rw [Nat.cast_sub hl]; simp
  have := quantile_between xs 1 (xs.length - 1) (by rw [hc]) (by rw [hc]; linarith)
  rw [this, hc]; unfold maximum; simp

/-- `np.median` is the 50th percentile -/
theorem median_eq_quantile_half (xs : List Rat) (hne : xs ≠ []) : median xs = quantile xs (1 / 2) := by
  have hl : 1 ≤ xs.length := List.length_pos_iff.mpr hne
  rcases Nat.even_or_odd' xs.length with ⟨m, hm | hm⟩
  · -- n = 2m, m ≥ 1: h = m - 1/2
    have hm1 : 1 ≤ m := by omega
    have hh : (1 / 2 : Rat) * ((xs.length : Rat) - 1) = ((m - 1 : Nat) : Rat) + 1 / 2 := by
      rw [hm, Nat.cast_sub hm1]; push_cast; ring
    rw [quantile_between xs (1 / 2) (m - 1) (by rw [hh]; linarith) (by rw [hh]; linarith), hh]
    unfold median
    have h1 : xs.length % 2 = 0 := by omega
    have h2 : xs.length / 2 = m := by omega
    simp only [h1, h2]
    have h3 : m - 1 + 1 = m := by omega
    rw [h3]
    simp
    ring
  · -- n = 2m+1: h = m
    have hh : (1 / 2 : Rat) * ((xs.length : Rat) - 1) = (m : Rat) := by
      rw [hm]; push_cast; ring
    rw [quantile_between xs (1 / 2) m (by rw [hh]) (by rw [hh]; linarith), hh]
    unfold median
    have h1 : xs.length % 2 = 1 := by omega
    have h2 : xs.length / 2 = m := by omega
    simp only [h1, h2]
    simp

/-- `sum` is the plain recursion -/
theorem sum_rec : sum [] = 0 ∧ ∀ (x : Rat) (xs : List Rat), sum (x :: xs) = x + sum xs := ⟨rfl, sum_cons⟩

theorem mean_mul_length (xs : List Rat) (hne : xs ≠ []) : mean xs * (xs.length : Rat) = sum xs := by
  have hl : (xs.length : Rat) ≠ 0 := by
    have := List.length_pos_iff.mpr hne
    exact_mod_cast (by omega : xs.length ≠ 0)
  unfold mean; field_simp

/-- POPULATION variance (numpy's default `ddof=0`): for two points it is the squared half distance -/
theorem variance_pair (a b : Rat) : variance [a, b] = ((a - b) / 2) ^ 2 := by
  simp only [variance, mean, sum, List.foldl_cons, List.foldl_nil, List.map_cons, List.map_nil, List.length_cons,
    List.length_nil]
  push_cast
  ring

/-- the population variance is the mean of the squares minus the square of the mean -/
theorem variance_eq_mean_sq (xs : List Rat) (hne : xs ≠ []) :
    variance xs = mean (xs.map fun x => x * x) - mean xs * mean xs := by
  have hl : (xs.length : Rat) ≠ 0 := by
    have := List.length_pos_iff.mpr hne
    exact_mod_cast (by omega : xs.length ≠ 0)
  unfold variance
  simp only [sum_map_sq_sub]
  unfold mean
  rw [List.length_map]
  field_simp
  ring

/-- the convention pinned on numbers: the variance of {1, 3} is 1 (a sample variance, ddof = 1, would be 2) -/
example : variance [1, 3] = 1 ∧ variance [1, 3] ≠ 2 ∧ mean [1, 3] = 2 := by
  decide +kernel

/-- … and on a sample given out of order: the order statistics of 5,3,1,2,4 are 1..5, the lower quartile is the
order statistic 2 (grid point 1/4 = 1/(5−1)), the median 3, the extremes 1 and 5 -/
example : sortRat [5, 3, 1, 2, 4] = [1, 2, 3, 4, 5] ∧ quantile [5, 3, 1, 2, 4] (1 / 4) = 2 ∧
    median [5, 3, 1, 2, 4] = 3 ∧ quantile [5, 3, 1, 2, 4] 0 = 1 ∧ quantile [5, 3, 1, 2, 4] 1 = 5 := by
  have hs : sortRat [5, 3, 1, 2, 4] = [1, 2, 3, 4, 5] :=
    (sortRat_unique (l := [1, 2, 3, 4, 5]) (by decide) (by simp [SortedR]; norm_num)).symm
  have hq : quantile [5, 3, 1, 2, 4] (1 / 4) = 2 := by
    have := quantile_at_grid [5, 3, 1, 2, 4] 1 (by simp)
    simp only [List.length_cons, List.length_nil] at this
    norm_num at this
    rw [this, hs]; rfl
  refine ⟨hs, hq, ?_, ?_, ?_⟩
  · rw [median_eq_quantile_half _ (by simp)]
    have := quantile_at_grid [5, 3, 1, 2, 4] 2 (by simp)
    simp only [List.length_cons, List.length_nil] at this
    norm_num at this
    rw [this, hs]; rfl
  · rw [quantile_zero, minimum, hs]; rfl
  · rw [quantile_one _ (by simp), maximum, hs]; rfl

/-! ### 9. the domain hypothesis `ValidT` is necessary -/

/-- two cells of one slice and period that share the evaluation date (other values) are outside `ValidT`, and the
conclusion of `spec_holds_on_model` FAILS there: the first one is handed its twin as "next evaluation", so it carries a
Paid ATA (4/2 = 2) although no later evaluation exists — "absent inputs yield no summary" is false, and so is the whole
Spec. (The implementation does the same: the model follows `zip(row, …, row[1:])`.) -/
theorem validT_necessary :
    ¬ ValidT [dupA, dupB] ∧
    ((buildPlotData Generated.PlotMetrics.metrics [dupA, dupB]).map
        fun r => (r.metrics.lookup "paid_ata").map (·.stats)) = [some [("mean", .exact 2)], none] ∧
    Spec.C20.absentOk [dupA, dupB] (buildPlotData Generated.PlotMetrics.metrics [dupA, dupB]) = false ∧
    Spec.C20.holds 0 [dupA, dupB] (buildPlotData Generated.PlotMetrics.metrics [dupA, dupB]) = false := by
  have h3 : Spec.C20.absentOk [dupA, dupB] (buildPlotData Generated.PlotMetrics.metrics [dupA, dupB]) = false := by
    rw [build_two]; decide +kernel
  refine ⟨?_, by rw [build_two]; decide +kernel, h3, ?_⟩
  · intro h
    have := h.1
    simp [dupA, dupB, rowKey] at this
  · simp [Spec.C20.holds, h3]

/-! ### 10. the options `flat` and `keep_samples` -/

/-- **`flat=True` loses nothing**: for every cell of a valid triangle and both values of `remove_empties`, looking the
flat key `<metric>_<stat>` of ANY metric of the table and ANY statistic name up in the flattened record gives exactly
the nested record's `record[metric][stat]` (absent ⇔ absent) — although `paid_loss` is a prefix of `paid_loss_ratio`
(`flat_keys_injective`). An empty summary leaves no key (`flattenSummaries` runs over the non-empty summaries). -/
theorem flat_unflat {t : List Cell} (hv : ValidT t) (b : Bool) {c : Cell} (hc : c ∈ t)
    {m k : String} (hm : m ∈ Spec.C20.table.map (·.1)) (hk : k ∈ Spec.C20.requiredStats) :
    let ne := nonEmpty (keepEntries b (lookupLastAll c (fieldSummariesAll Generated.PlotMetrics.metrics t)))
    (flattenSummaries ne).lookup (flatKey m k) = (ne.lookup m).bind fun s => s.stats.lookup k := by
  intro ne
  have hne : ne = lookupLast c (fieldSummaries Generated.PlotMetrics.metrics t) := by
    show nonEmpty (keepEntries b _) = _
    rw [nonEmpty_keep, fieldSummaries_eq_map, lookupLast_map]
  obtain ⟨p, hp⟩ := own_entry hv Generated.PlotMetrics.metrics hc
  rw [hp] at hne
  have hnames : Generated.PlotMetrics.metrics.map (toSnake ·.name) = Spec.C20.table.map (·.1) :=
    metric_names.1
  have hsub := cellSummaries_names_sublist Generated.PlotMetrics.metrics c p (Spec.C20.nextInSlice t c)
  rw [hnames] at hsub
  rw [hne]
  refine flat_unflat_lookup (injOn_of_flatInjectiveL flat_keys_injective) _ ?_ ?_ ?_ hm hk
  · intro e he
    exact hsub.subset (List.mem_map_of_mem (f := (·.1)) he)
  · intro e he kv hkv
    obtain ⟨mv, hmv⟩ := mem_cellSummaries he
    rw [hmv] at hkv
    exact fieldSummary_keys mv kv hkv
  · exact hsub.nodup metric_names.2

/-- **`keep_samples` changes no statistic**: the summary (every statistic, `is_forecast`) is the one of the default
call, for every metric value -/
theorem keepSamples_stats_unchanged (keep : Bool) (mv : MV) :
    (fieldSummaryK keep mv).summary = fieldSummary mv := rfl

/-- slot by slot: with either value of `keep_samples` the slots of a cell carry the summaries of `cellSummariesAll` -/
theorem keepSamples_slots_unchanged (keep : Bool) (ms : List Metric) (c : Cell) (p n : Option Cell) :
    (cellSummariesAllK keep ms c p n).map (fun e => (e.1, e.2.map (·.summary))) = cellSummariesAll ms c p n := by
  unfold cellSummariesAllK cellSummariesAll
  rw [List.map_map]
  apply List.map_congr_left
  intro m _
  simp only [Function.comp]
  cases h : safeApplyMetric m c p n <;> simp [fieldSummaryK]

/-- what `keep_samples=True` keeps: for a metric with at least two samples the dict `{0: x₀, …, n−1: xₙ₋₁}` — keys
0..n−1 in order, values the metric's own samples in order; a scalar or single-sample metric keeps its mean; without
the flag the entry is the mean -/
theorem keepSamples_metric_entry (x y : Rat) (xs : List Rat) (q : Rat) :
    metricEntry true (.sample (x :: y :: xs)) = .samples (enumerate (x :: y :: xs)) ∧
    (enumerate (x :: y :: xs)).map (·.1) = List.range (xs.length + 2) ∧
    (enumerate (x :: y :: xs)).map (·.2) = x :: y :: xs ∧
    metricEntry false (.sample (x :: y :: xs)) = .mean (mean (x :: y :: xs)) ∧
    metricEntry true (.scalar q) = .mean q ∧ metricEntry true (.sample [x]) = .mean x := by
  refine ⟨rfl, ?_, ?_, rfl, rfl, rfl⟩
  · unfold enumerate
    rw [List.map_fst_zip]
    · simp
    · simp
  · unfold enumerate
    rw [List.map_snd_zip]
    simp

/-- Spec bridge for the flat records: the model's flat record is, by definition, the flattening of its nested one -/
theorem flatOk_model (r : RecordE) : Spec.C20.flatOk r (flattenSummaries r.base.metrics) = true := by
  unfold Spec.C20.flatOk; exact beq_self_eq_true _

/-- Spec bridge: the model's `metric` entries of a cell (row successor = next evaluation of the same slice and period)
satisfy `keptOk` exactly, for both values of the flag -/
theorem keptOk_model (keep : Bool) (t : List Cell) (c : Cell) (p : Option Cell) :
    Spec.C20.keptOk 0 keep t c (metricEntries keep Generated.PlotMetrics.metrics c p (Spec.C20.nextInSlice t c)) = true := by
  unfold Spec.C20.keptOk
  rw [List.all_eq_true]
  intro e he
  rw [lookup_metricEntries keep c p _ he, expected_eq]
  cases expectedWith c (Spec.C20.nextInSlice t c) e.2 with
  | none => rfl
  | some mv => exact entryApprox_self _

end Bermuda.Properties.C20
