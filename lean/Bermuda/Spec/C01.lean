/-
Executable statement of property C01 on a cell sequence: what "canonical form" means.
Run by the driver on the IMPLEMENTATION's outputs.
-/
import Bermuda.Model.Triangle
namespace Bermuda.Spec

/-- adjacent-pairs check of `le` (equivalent to pairwise for a transitive `le`) -/
def chainB {α} (le : α → α → Bool) : List α → Bool
  | [] => true
  | [_] => true
  | a :: b :: rest => le a b && chainB le (b :: rest)

/-- the sequence is sorted by Cell's `<` (no element is `<` an earlier one) -/
def sortedCells (t : List Cell) : Bool := chainB Cell.le t

/-- canonical form: sorted, one cell class, every cell satisfies the constructor's date rules -/
def isCanonical (t : List Cell) : Bool :=
  sortedCells t && kindsConsistent t && t.all Cell.datesOk

/-- cells of one slice are contiguous: once a metadata has been left it never comes back -/
def slicesContiguous (t : List Cell) : Bool :=
  let rec go (seen : List Metadata) (cur : Option Metadata) : List Cell → Bool
    | [] => true
    | c :: rest =>
      if some c.md == cur then go seen cur rest
      else if seen.contains c.md then false
      else go (match cur with | some m => m :: seen | none => seen) (some c.md) rest
  go [] none t

/-- slices follow Metadata's `<` strictly, and inside a slice coordinates ascend -/
def sliceOrder (t : List Cell) : Bool :=
  chainB (fun a b => if a.md == b.md then Cell.le a b else Metadata.cmp a.md b.md == .lt) t

end Bermuda.Spec
